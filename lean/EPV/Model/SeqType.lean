/-
C18 — executable model of the sequence-type judgements of elementpath.

Python sources mirrored (line numbers of the tree with the `fix:` commits of branch fix-c18):
  * `elementpath/sequence_types.py`
      `is_sequence_type_restriction`  (l.48-127)  →  `restrF` / `isRestriction`
      `is_instance`                   (l.130-154) →  `instAtomic`, `matchLeafAtom`
      `match_sequence_type.match_st`  (l.259-384) →  `matchSt`
  * `elementpath/xpath_tokens/functions.py` `XPathFunction.match_function_test` (l.298-335) → `funcItemTest`
    `elementpath/xpath_tokens/maps.py` / `arrays.py` `match_function_test`             → `mapAsFunc` / `arrayAsFunc`
  * `elementpath/xpath2/_xpath2_operators.py` `evaluate__instance_expression`, `evaluate__treat_expression`
    (l.230-330) → `instLoop`, `instanceOf`, `treatAs`; the per-item kind tests (`select__*_kind_test`
    in xpath1/_xpath1_functions.py, xpath2/_xpath2_operators.py, xpath30/_xpath30_functions.py) → `instLeafNode`

The implementation is *string driven* (prefix / suffix tests on the normalised type text); the model is
*AST driven*.  The correspondence harness renders ASTs to strings (random legal spacing) so that the two
can diverge only where the string inspection does something the AST reading does not say.  String
facts used below, all about the normalised text of a type:
  - the last character is an occurrence indicator  ⇔  `Ty.last ≠ one`  (for a typed function test the
    last character is the last character of its return type, which is what the code looks at);
  - `st[:-1]`  ⇔  `Ty.strip`;     `st1 == st2`  ⇔  equality of ASTs (`Ty.beq`).
Core Lean only.
-/
namespace EPV.SeqType

inductive Occ | one | opt | star | plus
  deriving DecidableEq, Repr, Inhabited

/-- XDM node kinds (`XPathNode.node_kind`) -/
inductive Kind | document | element | attribute | text | comment | pi | namespace
  deriving DecidableEq, Repr, Inhabited

/-- argument of an element/attribute/PI test: `()`, `(*)`, `(name)`; names are numbers (rendered `n<k>`) -/
inductive NameTest | none | wild | name (n : Nat)
  deriving DecidableEq, Repr, Inhabited

/-- type argument of an element / attribute test (no schema: only names of built-in types) -/
inductive TyArg
  | untyped                 -- xs:untyped
  | anyType | anySimpleType -- xs:anyType, xs:anySimpleType
  | atomic (t : Nat)        -- a builtin atomic type (xs:untypedAtomic, xs:anyAtomicType, xs:string …)
  deriving DecidableEq, Repr, Inhabited

/-- item types without nested sequence types -/
inductive Leaf
  | item                               -- item()
  | anyNode                            -- node()
  | atomic (a : Nat)                   -- xs:<name>, index into the generated table of builtin_atomic_types
  | numeric                            -- xs:numeric
  | listT (l : Nat)                    -- xs:NMTOKENS / xs:IDREFS / xs:ENTITIES (builtin_list_types)
  | anyType | anySimpleType            -- names in COMMON_SEQUENCE_TYPES that are no atomic types
  | kind (k : Kind) (nt : NameTest)    -- text() comment() element(..) attribute(..) processing-instruction(..)
                                       -- namespace-node() document-node()
  | kindT (k : Kind) (nt : NameTest) (ta : TyArg) (opt : Bool)
                                       -- element(N, T) element(N, T?) attribute(N, T): kind test with a type argument
  | docElem (nt : NameTest)            -- document-node(element(..))
  | funcAny | mapAny | arrayAny        -- function(*) map(*) array(*)
  deriving DecidableEq, Repr, Inhabited

mutual
/-- sequence types -/
inductive Ty
  | empty                                    -- empty-sequence()
  | leaf (l : Leaf) (o : Occ)
  | func (args : Tys) (ret : Ty)             -- function(A1, .., An) as R   (has no occurrence indicator of its own)
  | map (k : Nat) (v : Ty) (o : Occ)         -- map(xs:K, V)
  | array (m : Ty) (o : Occ)                 -- array(M)
inductive Tys
  | nil
  | cons (a : Ty) (as : Tys)
end

instance : Inhabited Ty := ⟨.empty⟩
instance : Inhabited Tys := ⟨.nil⟩

def Tys.toList : Tys → List Ty
  | .nil => []
  | .cons a as => a :: as.toList

def Tys.ofList : List Ty → Tys
  | [] => .nil
  | a :: as => .cons a (Tys.ofList as)

def Tys.length : Tys → Nat
  | .nil => 0
  | .cons _ as => as.length + 1

def Tys.isNil : Tys → Bool
  | .nil => true
  | .cons _ _ => false

mutual
/-- syntactic equality (`st1 == st2` on the normalised strings) -/
def Ty.beq : Ty → Ty → Bool
  | .empty, .empty => true
  | .leaf l o, .leaf l' o' => l == l' && o == o'
  | .func a r, .func a' r' => a.beq a' && r.beq r'
  | .map k v o, .map k' v' o' => k == k' && v.beq v' && o == o'
  | .array m o, .array m' o' => m.beq m' && o == o'
  | _, _ => false
def Tys.beq : Tys → Tys → Bool
  | .nil, .nil => true
  | .cons a as, .cons b bs => a.beq b && as.beq bs
  | _, _ => false
end

mutual
def Ty.size : Ty → Nat
  | .empty => 1
  | .leaf _ _ => 1
  | .func a r => 1 + a.size + r.size
  | .map _ v _ => 1 + v.size
  | .array m _ => 1 + m.size
def Tys.size : Tys → Nat
  | .nil => 0
  | .cons a as => 1 + a.size + as.size
end

/-- the occurrence indicator that is the *last character* of the type text (`st[-1]`), `one` if the
text ends in `)` or a name character -/
def Ty.last : Ty → Occ
  | .empty => .one
  | .leaf _ o => o
  | .func _ r => r.last
  | .map _ _ o => o
  | .array _ o => o

/-- `st[:-1]` when the last character is an occurrence indicator, `st` otherwise -/
def Ty.strip : Ty → Ty
  | .empty => .empty
  | .leaf l _ => .leaf l .one
  | .func a r => .func a r.strip
  | .map k v _ => .map k v .one
  | .array m _ => .array m .one

/-- pairwise test of two argument lists; `false` when the lengths differ (`zip_longest` yields a `None`) -/
def Tys.all2 (f : Ty → Ty → Bool) : Tys → Tys → Bool
  | .nil, .nil => true
  | .cons a as, .cons b bs => f a b && Tys.all2 f as bs
  | _, _ => false

/-- Tables generated from the live Python objects (harness/c18.py).  Rows are lists of indices. -/
structure Tables where
  /-- `subRows[a]` = all `b` with `issubclass(builtin_atomic_types[a], builtin_atomic_types[b])` -/
  subRows : List (List Nat)
  /-- same for `builtin_list_types` -/
  listRows : List (List Nat)
  /-- `instRows[c]` = all atomic types `t` with `issubclass(valueClass[c], builtin_atomic_types[t])` -/
  instRows : List (List Nat)
  /-- value classes that are virtual subclasses of `NumericProxy` -/
  numericCls : List Nat
  /-- value classes that are subclasses of `str` (for `strict=False` matching of xs:anyURI) -/
  strCls : List Nat
  /-- atomic types in `XSD11_ONLY_TYPES` -/
  xsd11Only : List Nat
  /-- index of xs:anyURI in the atomic table -/
  anyURI : Nat
  /-- index of the Python class `int` in the value-class table (`match_sequence_type(1, index_type)`) -/
  intCls : Nat
  /-- index of the class `UntypedAtomic`: the typed value of an element / attribute without schema -/
  untypedCls : Nat
  /-- indices of xs:anyAtomicType and xs:integer in the atomic table (maps.py / arrays.py `match_function_test`) -/
  anyAtomic : Nat
  integer : Nat
  /-- `castRows[c][t]` = class of `cast_to_primitive_type(sample of class c, 'xs:<t>')` -/
  castRows : List (List Nat)
  /-- `castNumRow[c]` = class of `cast_to_primitive_type(sample of class c, 'xs:numeric')` (xs:untypedAtomic becomes
  xs:double) -/
  castNumRow : List Nat := []
  /-- index of the Python class `str` in the value-class table: the typed value of a comment / processing instruction /
  namespace node -/
  strIdx : Nat := 0
  deriving Repr

def Tables.atomSub (tb : Tables) (a b : Nat) : Bool := (tb.subRows.getD a []).contains b
def Tables.listSub (tb : Tables) (a b : Nat) : Bool := (tb.listRows.getD a []).contains b
def Tables.inst (tb : Tables) (c t : Nat) : Bool := (tb.instRows.getD c []).contains t
def Tables.isNumeric (tb : Tables) (c : Nat) : Bool := tb.numericCls.contains c
def Tables.isStr (tb : Tables) (c : Nat) : Bool := tb.strCls.contains c

/-! ## is_sequence_type_restriction -/

/-- occurrence check, sequence_types.py l.62-87 (with the `fix:` for F18a: a type without indicator
accepts only candidates without indicator).  `occOK o1 o2 = false` ⇔ the code returns `False` there. -/
def occOK : Occ → Occ → Bool
  | .one, o2 => o2 == .one
  | .plus, o2 => o2 == .plus || o2 == .one
  | .star, o2 => o2 == .star || o2 == .one
  | .opt, o2 => o2 == .opt || o2 == .one

/-- classes of (stripped) types that the chain of `elif`s l.89-125 distinguishes -/
inductive Cls
  | item | anyNode
  | atomic (a : Nat) | listT (l : Nat)
  | anyT                      -- xs:anyType / xs:anySimpleType
  | nodeK                     -- text starts with element( attribute( comment( text( processing-instruction(
  | funcAny
  | func (args : Tys) (ret : Ty)
  | other                     -- anything else (numeric, document-node(..), namespace-node(), map(..), array(..), empty-sequence())

def Leaf.cls : Leaf → Cls
  | .item => .item
  | .anyNode => .anyNode
  | .atomic a => .atomic a
  | .listT l => .listT l
  | .anyType => .anyT
  | .anySimpleType => .anyT
  | .kind .element _ => .nodeK
  | .kind .attribute _ => .nodeK
  | .kind .comment _ => .nodeK
  | .kind .text _ => .nodeK
  | .kind .pi _ => .nodeK
  | .kind .document _ => .other      -- 'document-node(' does not start with 'document('
  | .kind .namespace _ => .other     -- 'namespace-node(' does not start with 'namespace('
  | .kindT .element _ _ _ => .nodeK
  | .kindT .attribute _ _ _ => .nodeK
  | .kindT _ _ _ _ => .other
  | .docElem _ => .other
  | .numeric => .other
  | .funcAny => .funcAny
  | .mapAny => .other
  | .arrayAny => .other

def Ty.cls : Ty → Cls
  | .empty => .other
  | .leaf l _ => l.cls
  | .func a r => .func a r
  | .map _ _ _ => .other
  | .array _ _ => .other

/-- l.89-125 on the classes; `rec` is the recursive call on argument / return types -/
def coreCls (tb : Tables) (rec : Ty → Ty → Bool) : Cls → Cls → Bool
  | .item, _ => true                                        -- l.91  st1 == 'item()'
  | _, .item => false                                       -- l.93  st2 == 'item()'
  | .anyNode, .nodeK => true                                -- l.95  st1 == 'node()'
  | .anyNode, _ => false
  | _, .anyNode => false                                    -- l.98
  | .atomic a1, .atomic a2 => tb.atomSub a2 a1              -- l.100-103
  | _, .atomic _ => false
  | .anyT, .listT _ => true                                 -- l.104-106
  | .listT l1, .listT l2 => tb.listSub l2 l1                -- l.107-109
  | _, .listT _ => false
  | .funcAny, .funcAny => true                              -- l.113 st2.startswith('function(')
  | .funcAny, .func _ _ => true
  | .funcAny, _ => false
  | .func a1 r1, .func a2 r2 =>                             -- l.116-126: split_function_test splits by nesting depth
      Tys.all2 rec a2 a1 && rec r1 r2                       -- same number of parameters, contravariant; return covariant
  | _, _ => false                                           -- l.110 / garbage split of a non-function text

/-- the occurrence indicator of the type itself: a typed function test has none (its last character
belongs to the return type) -/
def Ty.ownOcc : Ty → Occ
  | .empty => .one
  | .leaf _ o => o
  | .func _ _ => .one
  | .map _ _ o => o
  | .array _ o => o

/-- `is_sequence_type_restriction(st1, st2)` with recursion depth bounded by the fuel.
"`st2` is a restriction of `st1`". -/
def restrF (tb : Tables) : Nat → Ty → Ty → Bool
  | 0, _, _ => false
  | n + 1, t1, t2 =>
    if t2.beq .empty then                                    -- l.55-61 (with the two `fix:` commits)
      t1.beq .empty || t1.ownOcc == .opt || t1.ownOcc == .star
    else if occOK t1.last t2.last then                       -- l.62-87
      -- l.89 ff. on the stripped texts
      t1.strip.beq t2.strip || coreCls tb (restrF tb n) t1.strip.cls t2.strip.cls
    else false

def isRestriction (tb : Tables) (t1 t2 : Ty) : Bool := restrF tb (t1.size + t2.size) t1 t2

/-! ## values -/

inductive Item
  /-- atomic value; `c` = index of its Python class in the generated value-class table -/
  | atom (c : Nat)
  /-- node: kind, name (elements, attributes, PIs), `kids` = names of the element children (documents)
  resp. of the attributes (elements), `root` = it is the root of the dynamic context -/
  | node (k : Kind) (name : Nat) (kids : List Nat) (root : Bool)
  /-- function item with its effective signature `sequence_types[:arity] + [sequence_types[-1]]` -/
  | func (args : Tys) (ret : Ty)
  /-- map: entries (class of the key, value sequence) -/
  | map (es : List (Nat × List Item))
  | array (ms : List (List Item))

instance : Inhabited Item := ⟨.atom 0⟩

def Item.isFunctionLike : Item → Bool
  | .func _ _ => true | .map _ => true | .array _ => true | _ => false

inductive Err | XPST0051 | XPST0003 | XPDY0050
  deriving DecidableEq, Repr

abbrev Res := Except Err Bool

instance : DecidableEq Res := fun a b =>
  match a, b with
  | .ok x, .ok y => if h : x = y then isTrue (by rw [h]) else isFalse (fun e => h (by cases e; rfl))
  | .error x, .error y => if h : x = y then isTrue (by rw [h]) else isFalse (fun e => h (by cases e; rfl))
  | .ok _, .error _ => isFalse (fun e => by cases e)
  | .error _, .ok _ => isFalse (fun e => by cases e)

/-- Python `all(f(x) for x in xs)`: left to right, stops at the first `False`, exceptions propagate -/
def allE {α : Type} (f : α → Res) : List α → Res
  | [] => .ok true
  | x :: xs => match f x with
    | .error e => .error e
    | .ok false => .ok false
    | .ok true => allE f xs

/-- Python `any(f(x) for x in xs)` -/
def anyE {α : Type} (f : α → Res) : List α → Res
  | [] => .ok false
  | x :: xs => match f x with
    | .error e => .error e
    | .ok true => .ok true
    | .ok false => anyE f xs

/-- Python `a and b` on possibly raising operands -/
def andE (a : Res) (b : Unit → Res) : Res :=
  match a with
  | .error e => .error e
  | .ok false => .ok false
  | .ok true => b ()

/-- `is_instance(obj, type_qname, parser)` l.130-154 for an atomic value of class `c` and a builtin atomic
type `t`; `xsd11 = false` ⇔ `parser.xsd_version == '1.0'` -/
def instAtomic (tb : Tables) (xsd11 : Bool) (c t : Nat) : Bool :=
  if tb.xsd11Only.contains t && !xsd11 then false else tb.inst c t

/-- l.269-283: the sequence level of `match_st` for a type whose text carries the indicator `o` -/
def seqMatch (o : Occ) (f : Item → Res) : List Item → Res
  | [] => .ok (o == .opt || o == .star)                     -- l.274
  | [x] => f x                                              -- l.279
  | xs => if o == .one || o == .opt then .ok false else allE f xs   -- l.281-284

def nameOK : NameTest → Nat → Bool
  | .none, _ => true
  | .wild, _ => true
  | .name n, m => n == m

/-- l.317-384 for a node item against a leaf type -/
def matchLeafNode (k : Kind) (name : Nat) (kids : List Nat) : Leaf → Bool
  | .anyNode => true                                        -- l.329
  | .kind k' nt =>
    if k' != k then false else                              -- l.331 startswith(node_kind)
    match k, nt with
    | .document, .none => true                              -- l.335-338 element_test == ''
    | .document, _ => false                                 -- (no such text: document-node(E) is `docElem`)
    | .namespace, .none => true                             -- fix: namespace-node()
    | .namespace, _ => false
    | .pi, .none => true                                    -- l.333
    | .pi, .wild => false
    | .pi, .name n => n == name                             -- fix: processing-instruction(N)
    | .text, .none => true
    | .comment, .none => true
    | .text, _ => false
    | .comment, _ => false
    | .element, nt => nameOK nt name                        -- l.346-376
    | .attribute, nt => nameOK nt name
  | .docElem nt =>
    if k == .document then kids.any (fun e => nameOK nt e)  -- l.339-342: any element child matches
    else false
  | _ => false                                              -- l.331: the text does not start with the node kind

/-- the item level of `match_st` for a leaf type (l.285-327) -/
def matchLeaf (tb : Tables) (xsd11 strict : Bool) (l : Leaf) : Item → Res
  | .node k name kids _ =>
    match l with
    | .item => .ok true
    | .kindT k' nt ta _ =>                                  -- l.352-372: `name, type_name = params.rsplit(', ', 1)`
      if k' != k || !(k == .element || k == .attribute) then .ok false   -- l.331 / l.348
      else match ta with
        | .untyped => .ok (nameOK nt name)                  -- l.360-364: type_name of an untyped node is xs:untyped(Atomic)
        | .atomic t =>                                      -- l.367 is_instance(v.typed_value, type_name): an UntypedAtomic
          if instAtomic tb xsd11 tb.untypedCls t then .ok (nameOK nt name) else .ok false
        | _ => .error .XPST0051                             -- xs:anyType / xs:anySimpleType: KeyError → l.370
    | l => .ok (matchLeafNode k name kids l)                -- numeric, function(*), map(*), array(*): isinstance is False
  | .atom c =>
    match l with
    | .item => .ok true                                     -- l.285
    | .numeric => .ok (tb.isNumeric c)                      -- l.288
    | .atomic t =>
      if !strict && t == tb.anyURI && tb.isStr c then .ok true   -- l.321
      else .ok (instAtomic tb xsd11 c t)                    -- l.325 is_instance
    | .listT _ => .error .XPST0051                          -- is_instance l.141 raises
    | .anyType => .error .XPST0051                          -- KeyError → l.327
    | .anySimpleType => .error .XPST0051
    | _ => .ok false                                        -- l.319 '(' in st ; function(/array(/map( isinstance
  | x =>                                                    -- function items, maps, arrays
    match l with
    | .item => .ok true
    | .funcAny => .ok true                                  -- match_function_test: '*'
    | .mapAny => .ok (match x with | .map _ => true | _ => false)
    | .arrayAny => .ok (match x with | .array _ => true | _ => false)
    | .anyType => .error .XPST0051
    | .anySimpleType => .error .XPST0051
    | _ => .ok false

/-- `XPathFunction.match_function_test` (functions.py l.298-335) for a function item with signature
`sa → sr` against `function(a) as r` -/
def funcItemTest (tb : Tables) (sa : Tys) (sr : Ty) (a : Tys) (r : Ty) : Bool :=
  sa.length == a.length && Tys.all2 (isRestriction tb) sa a && isRestriction tb r sr

/-- the arity of a function item (maps and arrays are functions of one parameter) -/
def Item.arity : Item → Option Nat
  | .func sa _ => some sa.length
  | .map _ => some 1
  | .array _ => some 1
  | _ => none

/-- function coercion (`_InlineFunction.convert_argument`, xpath30/_xpath30_functions.py l.126-137; XPath 3.1
§3.1.5.2): a single function item passed to a parameter declared `function(a) as r` is accepted exactly when it has
`a.length` parameters, whatever its declared signature (`len(split_function_test(function_test)) - 1`: the
parameter list of the declared test is split by nesting depth, `string_split_arity`). -/
def funcItemTestArg (x : Item) (a : Tys) : Option Bool := x.arity.map (· == a.length)

def endsPlusStar (t : Ty) : Bool := t.last == .plus || t.last == .star

/-- `match_sequence_type(value, sequence_type, parser, strict)`; structural in the type -/
def matchSt (tb : Tables) (xsd11 : Bool) : Bool → Ty → List Item → Res
  | _, .empty, v => .ok v.isEmpty                           -- l.274/276
  | strict, .leaf l o, v => seqMatch o (matchLeaf tb xsd11 strict l) v
  | _, .func a r, v =>                                      -- not stripped (l.272): occurrence None
    seqMatch .one (fun x => match x with
      | .func sa sr => .ok (funcItemTest tb sa sr a r)
      | .map es =>                                          -- maps.py match_function_test (with the `fix:` of fix-c18-4)
        (match a with
         | .cons k .nil =>
           if !isRestriction tb (.leaf (.atomic tb.anyAtomic) .one) k then .ok false   -- K ⊑ xs:anyAtomicType
           else andE (matchSt tb xsd11 true r [])                                     -- a missing key: ()
             (fun _ => allE (fun e => matchSt tb xsd11 true r e.2) es)                -- every value
         | _ => .ok false)
      | .array ms =>                                        -- arrays.py match_function_test
        (match a with
         | .cons k .nil =>
           if !isRestriction tb (.leaf (.atomic tb.integer) .one) k then .ok false     -- I ⊑ xs:integer
           else allE (fun m => matchSt tb xsd11 true r m) ms
         | _ => .ok false)
      | _ => .ok false) v
  | _, .map k vt o, v =>                                    -- l.305-315
    seqMatch o (fun x => match x with
      | .map es => allE (fun e => andE (.ok (instAtomic tb xsd11 e.1 k)) (fun _ => matchSt tb xsd11 true vt e.2)) es
      | _ => .ok false) v
  | _, .array m o, v =>                                     -- l.295-303
    seqMatch o (fun x => match x with
      | .array ms => allE (fun mem => matchSt tb xsd11 true m mem) ms
      | _ => .ok false) v

/-! ## `instance of` / `treat as` -/

/-- a node item against a leaf kind test in `instance of` / `treat as` (l.236-280 with the `fix:` of fix-c18-4):
`is_kind_test_excluded` rejects an item that is no attribute (namespace) node before an attribute() /
namespace-node() test is evaluated, every node matches node(); the other kind-test tokens
(`select__*_kind_test`) are evaluated with `context.item = node`, `axis = 'self'` -/
def instLeafNode (k : Kind) (name : Nat) (kids : List Nat) (_root : Bool) : Leaf → Bool
  | .anyNode => true
  | .kind .text .none => k == .text
  | .kind .comment .none => k == .comment
  | .kind .pi .none => k == .pi
  | .kind .pi (.name n) => k == .pi && n == name
  | .kind .namespace .none => k == .namespace
  | .kind .document .none => k == .document
  | .kind .element .none => k == .element
  | .kind .element .wild => k == .element
  | .kind .element (.name n) => k == .element && n == name
  | .kind .attribute .none => k == .attribute
  | .kind .attribute .wild => k == .attribute
  | .kind .attribute (.name n) => k == .attribute && n == name
  | .docElem nt => k == .document && (kids.filter (fun e => nameOK nt e)).length == 1   -- len(elements) == 1
  | _ => false

/-- the result of `self[1].evaluate(context)` is a non-empty value, for the token of item type `T`
(label 'kind test' / 'sequence type' / 'function test') -/
def instItemTok (tb : Tables) (xsd11 : Bool) (t : Ty) (x : Item) : Res :=
  match t with
  | .leaf .item _ => .ok true                               -- evaluate__item_sequence_type
  | .leaf .funcAny _ => .ok x.isFunctionLike
  | .func a r =>                                            -- _InlineFunction.evaluate, function test
    if x.isFunctionLike then matchSt tb xsd11 true (.func a r) [x] else .ok false
  | .leaf .mapAny _ => matchSt tb xsd11 true (.leaf .mapAny .one) [x]      -- select__map_or_array_kind_test
  | .leaf .arrayAny _ => matchSt tb xsd11 true (.leaf .arrayAny .one) [x]
  | .map k v _ => matchSt tb xsd11 true (.map k v .one) [x]
  | .array m _ => matchSt tb xsd11 true (.array m .one) [x]
  | .leaf (.kindT k' nt ta _) _ =>
    match x with
    | .node k name kids root =>
      (match k' with
       | .element =>                                        -- select__element_kind_test with two arguments
         if k == .element && nameOK nt name then
           (match ta with
            | .untyped => .ok (nt != .wild)                 -- `elif self[0].symbol != '*': yield item`
            | .atomic t => .ok (instAtomic tb xsd11 tb.untypedCls t)
            | _ => .error .XPST0051)
         else .ok false
       | .attribute =>                                      -- without a schema the type argument is ignored
         .ok (instLeafNode k name kids root (.kind .attribute nt))
       | _ => .ok false)
    | _ => .ok false
  | .leaf l _ =>
    match x with
    | .node k name kids root => .ok (instLeafNode k name kids root l)
    | _ => .ok false
  | .empty => .ok false

/-- `is_instance(item, qname, parser)` as used by the name branch of `instance of` / `treat as` -/
def instItemName (tb : Tables) (xsd11 : Bool) (l : Leaf) (x : Item) : Res :=
  match l, x with
  | .atomic t, .atom c => .ok (instAtomic tb xsd11 c t)
  | .atomic _, _ => .ok false
  | .numeric, .atom c => .ok (tb.isNumeric c)
  | .numeric, _ => .ok false
  | .listT _, .atom _ => .error .XPST0051
  | .listT _, _ => .ok false
  | _, _ => .error .XPST0051                                 -- xs:anyType, xs:anySimpleType: KeyError

def Leaf.isName : Leaf → Bool
  | .atomic _ => true | .numeric => true | .listT _ => true | .anyType => true | .anySimpleType => true
  | _ => false

/-- the per-item test of `instance of` / `treat as` for the (non-empty) type `t` -/
def instItem (tb : Tables) (xsd11 : Bool) (t : Ty) (x : Item) : Res :=
  match t with
  | .leaf l _ => if l.isName then instItemName tb xsd11 l x else instItemTok tb xsd11 t x
  | t => instItemTok tb xsd11 t x

/-- the occurrence attribute of the parsed sequence-type token (`''` = one) -/
def Ty.tokOcc (t : Ty) : Occ := t.ownOcc

/-- the `for position, item in enumerate(...)` loops of l.246-258 / 263-277; `pos` = number of items seen -/
def instLoop (occ : Occ) (f : Item → Res) : Nat → List Item → Res
  | pos, [] => .ok (pos != 0 || occ == .star || occ == .opt)
  | pos, x :: xs =>
    match f x with
    | .error e => .error e
    | .ok false => .ok false
    | .ok true =>
      if pos != 0 && (occ == .one || occ == .opt) then .ok false
      else instLoop occ f (pos + 1) xs

/-- `v instance of T` -/
def instanceOf (tb : Tables) (xsd11 : Bool) (t : Ty) (v : List Item) : Res :=
  match t with
  | .empty => .ok v.isEmpty
  | t => instLoop t.tokOcc (instItem tb xsd11 t) 0 v

/-- the loops of `evaluate__treat_expression` (l.284-300 / 312-325): items are appended to `castable_expr`
(`acc`) one by one; XPDY0050 where `instance of` would answer false -/
def treatLoop (occ : Occ) (f : Item → Res) : Nat → List Item → List Item → Except Err (List Item)
  | pos, [], acc =>
    if pos == 0 && !(occ == .star || occ == .opt) then .error .XPDY0050 else .ok acc
  | pos, x :: xs, acc =>
    match f x with
    | .error e => .error e
    | .ok false => .error .XPDY0050
    | .ok true =>
      if pos != 0 && (occ == .one || occ == .opt) then .error .XPDY0050
      else treatLoop occ f (pos + 1) xs (acc ++ [x])

/-- `v treat as T`: the returned sequence, or the error -/
def treatAs (tb : Tables) (xsd11 : Bool) (t : Ty) (v : List Item) : Except Err (List Item) :=
  match t with
  | .empty => if v.isEmpty then .ok [] else .error .XPDY0050
  | t => treatLoop t.tokOcc (instItem tb xsd11 t) 0 v []

/-! ## a typed function test with an occurrence indicator of its own

`(function(A) as R)*` — XPath 3.0 ParenthesizedItemType — is the only way to give a typed function test an occurrence
indicator (without the parentheses the indicator belongs to `R`).  The AST has no such type: texts cannot hold it
(see finding F18w).  At the top level of `instance of` / `treat as` the parser puts the indicator on the
function-test token, and the evaluators run the same loops with it. -/

def instanceOfOwnOcc (tb : Tables) (xsd11 : Bool) (o : Occ) (a : Tys) (r : Ty) (v : List Item) : Res :=
  instLoop o (instItem tb xsd11 (.func a r)) 0 v

def treatAsOwnOcc (tb : Tables) (xsd11 : Bool) (o : Occ) (a : Tys) (r : Ty) (v : List Item) : Except Err (List Item) :=
  treatLoop o (instItem tb xsd11 (.func a r)) 0 v []

/-! ## judgements whose operand is an expression that may raise

`self[0].select(context)` is a generator: the operand of `instance of` / `treat as` is evaluated lazily inside the
loops of l.236-330.  An error raised by the operand is no error of the judgement: it leaves the loops unchanged
(the `try` blocks enclose `is_instance` only).  `code` numbers an error code of the operand (XPDY0050 of a nested
`treat as`, XPTY0004 of a function call, FORG0001 of a cast …). -/

/-- outcome of a judgement on an operand expression -/
inductive JRes
  | ok (b : Bool)                 -- instance of: true / false;  treat as: `ok true` = the operand's value is returned
  | err (e : Err)                 -- raised by the judgement itself
  | operandErr (code : Nat)       -- raised by the operand, propagated unchanged
  deriving DecidableEq, Repr

def instanceOfOp (tb : Tables) (xsd11 : Bool) (t : Ty) : Except Nat (List Item) → JRes
  | .error c => .operandErr c
  | .ok v => match instanceOf tb xsd11 t v with
    | .ok b => .ok b
    | .error e => .err e

def treatAsOp (tb : Tables) (xsd11 : Bool) (t : Ty) : Except Nat (List Item) → JRes
  | .error c => .operandErr c
  | .ok v => match treatAs tb xsd11 t v with
    | .ok _ => .ok true
    | .error e => .err e

/-! ## names and namespaces

A name is a number `100 * n + local`.  In a *node* `n` is the namespace of its expanded QName (0 = no namespace,
1, 2 = two namespace URIs); in a *name test as written* `n` is the prefix (0 = unprefixed, 1 = `p:`, 2 = `q:`).
`Ty.resolve` turns the lexical names of the kind tests into expanded names with the statically known namespaces of
the parser, as `get_expanded_name(name, parser.namespaces)` (sequence_types.py l.376-381) and the name-test tokens do.  It does not enter typed function tests: their texts
are compared as texts by `is_sequence_type_restriction`. -/

/-- statically known namespaces of the parser: the default element namespace and the bindings of `p` / `q`
(0 = none / unbound; the harness never writes an unbound prefix) -/
structure NsCfg where
  dflt : Nat
  p : Nat
  q : Nat
  deriving Repr, DecidableEq

/-- expanded name of a lexical QName in an element test (`isAttr = false`: an unprefixed name takes the default
element namespace) or an attribute test (`isAttr = true`: an unprefixed name is in no namespace) -/
def resolveName (cfg : NsCfg) (isAttr : Bool) (lex : Nat) : Nat :=
  let ns := match lex / 100 with
    | 0 => if isAttr then 0 else cfg.dflt
    | 1 => cfg.p
    | _ => cfg.q
  100 * ns + lex % 100

def NameTest.resolve (cfg : NsCfg) (isAttr : Bool) : NameTest → NameTest
  | .name n => .name (resolveName cfg isAttr n)
  | nt => nt

def Leaf.resolve (cfg : NsCfg) : Leaf → Leaf
  | .kind .element nt => .kind .element (nt.resolve cfg false)
  | .kind .attribute nt => .kind .attribute (nt.resolve cfg true)
  | .kindT .element nt ta o => .kindT .element (nt.resolve cfg false) ta o
  | .kindT .attribute nt ta o => .kindT .attribute (nt.resolve cfg true) ta o
  | .docElem nt => .docElem (nt.resolve cfg false)
  | l => l                                   -- PI targets are NCNames; the other leaves carry no name

def Ty.resolve (cfg : NsCfg) : Ty → Ty
  | .empty => .empty
  | .leaf l o => .leaf (l.resolve cfg) o
  | .func a r => .func a r
  | .map k v o => .map k (v.resolve cfg) o
  | .array m o => .array (m.resolve cfg) o

/-- the empty configuration (no default namespace, no prefixes): lexical names of unprefixed tests are the
expanded names -/
def NsCfg.none : NsCfg := ⟨0, 0, 0⟩

/-! ## partial application of function items, and judgement histories

`$f(?, 1, 2)` (xpath30/_xpath30_operators.py evaluate__parenthesized_expression): the new function item is a copy
with its own argument list in which the placeholders stay in place (`func._items = ...`), `to_partial_function`
sets `nargs` to the number of placeholders, and `match_function_test` (functions.py, with the `fix:` of branch
fix-c18-2) reads the open parameters as `[st for st, tk in zip(sequence_types, _items) if tk is a placeholder]`. -/

/-- the parameters at the placeholder positions (`true` = `?`): the signature of a partial application
according to XPath 3.1 §3.1.6 ("the parameters … corresponding to placeholders, in order") -/
def Tys.pick : Tys → List Bool → Tys
  | .cons a as, true :: m => .cons a (as.pick m)
  | .cons _ as, false :: m => as.pick m
  | _, _ => .nil

def Tys.take : Nat → Tys → Tys
  | 0, _ => .nil
  | _ + 1, .nil => .nil
  | n + 1, .cons a as => .cons a (as.take n)

/-- specification: the parameter types of `f(mask)` -/
def partialSig (a : Tys) (mask : List Bool) : Tys := a.pick mask

/-- the placeholders come first (`f(?, ?, 1)`) -/
def prefixMask : List Bool → Bool
  | [] => true
  | true :: m => prefixMask m
  | false :: m => m.all (fun b => !b)

/-- the function item produced by a partial application (`zip(sequence_types, _items)` filtered by the
placeholders = `Tys.pick`) -/
def Item.partialApply (mask : List Bool) : Item → Item
  | .func a r => .func (a.pick mask) r
  | x => x

/-- the function item produced by a partial application, as XPath types it -/
def Item.partialApplySpec (mask : List Bool) : Item → Item
  | .func a r => .func (partialSig a mask) r
  | x => x

/-! ### function conversion of arguments and results (`cast_to_primitive_type`)

`get_argument` (xpath30/_xpath30_functions.py l.117-131) and `validated_result` (functions.py l.164-174): a value that
does not match the declared type is passed through `cast_to_primitive_type` (xpath_tokens/base.py l.805-828: a NEW list
`xlist([cast_value(x) for x in value])`; xs:untypedAtomic / xs:anyURI items are cast to the declared atomic type, numeric
items are promoted when the declared type is xs:double / xs:float) and must match then, else XPTY0004. -/

/-- the class of the value that `cast_to_primitive_type` produces from a value of class `c` for the declared atomic
type `t` (generated table; `c` itself where the cast does not apply or fails) -/
def Tables.castCls (tb : Tables) (c t : Nat) : Nat := (tb.castRows.getD c []).getD t c

/-- `cast_to_primitive_type(value, 'xs:<t>…')`: item by item, into a new list -/
def castSeq (tb : Tables) (t : Nat) (v : List Item) : List Item :=
  v.map (fun x => match x with | .atom c => .atom (tb.castCls c t) | x => x)

mutual
/-- `XPathArray.iter_flatten` (arrays.py l.130-146): the members of an array, nested arrays flattened -/
def Item.atomized : Item → List Item
  | .array ms => atomizedMs ms
  | x => [x]
def atomizedMs : List (List Item) → List Item
  | [] => []
  | m :: ms => atomizedSeq m ++ atomizedMs ms
def atomizedSeq : List Item → List Item
  | [] => []
  | x :: xs => x.atomized ++ atomizedSeq xs
end

def Item.isArray : Item → Bool
  | .array _ => true | _ => false

/-- the text of the item type starts with `xs:` (`sequence_type.startswith('xs:')`) -/
def Ty.isXsName : Ty → Bool
  | .leaf (.atomic _) _ => true | .leaf .numeric _ => true | .leaf (.listT _) _ => true
  | .leaf .anyType _ => true | .leaf .anySimpleType _ => true
  | _ => false

/-- `cast_to_primitive_type(value, text of T)`: for an atomic type name and for xs:numeric; other types have no
constructor, the value comes back as it is -/
def castFor (tb : Tables) (T : Ty) (v : List Item) : List Item :=
  match T with
  | .leaf (.atomic t) _ => castSeq tb t v
  | .leaf .numeric _ => v.map (fun x => match x with | .atom c => .atom (tb.castNumRow.getD c c) | x => x)
  | _ => v

def Item.isNode : Item → Bool
  | .node _ _ _ _ => true | _ => false

/-- class of the typed value of a node built without a schema (`XPathNode.iter_typed_values`, xpath_nodes.py: an
`UntypedAtomic` for document / element / attribute / text nodes, a `str` for comments, processing instructions and
namespace nodes) -/
def Tables.nodeCls (tb : Tables) : Kind → Nat
  | .comment => tb.strIdx | .pi => tb.strIdx | .namespace => tb.strIdx
  | _ => tb.untypedCls

/-- a node replaced by its typed value -/
def Item.typedValue (tb : Tables) : Item → Item
  | .node k _ _ _ => .atom (tb.nodeCls k)
  | x => x

/-- the value bound to a parameter declared `T`, or a type error
(XPTY0004; FOTY0013 for a function item that cannot be atomized, XPTY0117 — the model has one "type error" code).
`convert_argument`, xpath30/_xpath30_functions.py l.123-171: a value that does not match a type named `xs:…` is atomized
— first the arrays are replaced by their members (`iter_flatten`), then (`fix:` 4b599c1) the nodes by their typed values —
and returned as soon as it matches; what still does not match goes through `cast_to_primitive_type`. -/
def convertArg (tb : Tables) (xsd11 : Bool) (T : Ty) (v : List Item) : Except Err (List Item) :=
  match matchSt tb xsd11 true T v with
  | .error e => .error e
  | .ok true => .ok v
  | .ok false =>
    let atomize := T.isXsName && v.any Item.isArray
    let v1 := if atomize then atomizedSeq v else v
    match (if atomize then matchSt tb xsd11 true T v1 else .ok false) with
    | .error e => .error e
    | .ok true => .ok v1
    | .ok false =>
      let nodes := T.isXsName && v1.any Item.isNode
      let v2 := if nodes then v1.map (Item.typedValue tb) else v1
      match (if nodes then matchSt tb xsd11 true T v2 else .ok false) with
      | .error e => .error e
      | .ok true => .ok v2
      | .ok false =>
        let v' := castFor tb T v2
        match matchSt tb xsd11 true T v' with
        | .error e => .error e
        | .ok true => .ok v'
        | .ok false => .error .XPDY0050     -- reported as XPTY0004 by the code; the model has one "type error" code

/-- the value returned through a declared result type `T` (`validated_result`, functions.py l.166-176): as
`convertArg` without the atomization of arrays -/
def convertResult (tb : Tables) (xsd11 : Bool) (T : Ty) (v : List Item) : Except Err (List Item) :=
  match matchSt tb xsd11 true T v with
  | .error e => .error e
  | .ok true => .ok v
  | .ok false =>
    let v' := castFor tb T v
    match matchSt tb xsd11 true T v' with
    | .error e => .error e
    | .ok true => .ok v'
    | .ok false => .error .XPDY0050

/-- the value bound to a parameter of an inline function (`convert_argument`): function coercion for a single
function item against a typed function test, the function conversion rules otherwise -/
def convertParam (tb : Tables) (xsd11 : Bool) (T : Ty) (v : List Item) : Except Err (List Item) :=
  match v, T with
  | [x], .func a _ =>
    (match funcItemTestArg x a with
     | some true => .ok v
     | some false => .error .XPDY0050
     | none => convertArg tb xsd11 T v)
  | _, _ => convertArg tb xsd11 T v

/-- operations of a judgement history on a pool of values (positions in the pool) -/
inductive HOp
  | jMatch (i : Nat) (t : Ty)          -- match_sequence_type(pool[i], t)
  | jInst (i : Nat) (t : Ty)           -- pool[i] instance of t
  | jTreat (i : Nat) (t : Ty)          -- pool[i] treat as t
  | jArg (i : Nat) (t : Ty)            -- function($g as t) { true() }(pool[i])   (T = accepted, F = XPTY0004)
  | papp (i : Nat) (mask : List Bool)      -- pool.append(pool[i](mask))
  | coerce (i k : Nat) (t r : Ty)      -- pool.append(function($s as t) as r { $s }(member k of pool[i]))

def HOp.isPartial : HOp → Bool
  | .papp _ _ => true | .coerce _ _ _ _ => true | _ => false

/-- the sequence stored as member `k` of an array / as the value of entry `k` of a map (the dynamic calls `$a(k+1)`,
`$m(key)` return the stored list itself); a value that is no single array / map is taken whole -/
def memberOf (v : List Item) (k : Nat) : List Item :=
  match v with
  | [.array ms] => ms.getD k []
  | [.map es] => (es.getD k (0, [])).2
  | v => v

def headItem (v : List Item) : Item := v.headD default

/-- one step: the new pool and the answer (`none` for a partial application).  No step changes a value that is
already in the pool: judgements only read, partial applications and conversions append a NEW value. -/
def hStep (tb : Tables) (xsd11 : Bool) (pool : List (List Item)) : HOp → List (List Item) × Option Res
  | .jMatch i t => (pool, some (matchSt tb xsd11 true t (pool.getD i [])))
  | .jInst i t => (pool, some (instanceOf tb xsd11 t (pool.getD i [])))
  | .jTreat i t => (pool, some (match treatAs tb xsd11 t (pool.getD i []) with
      | .ok _ => .ok true | .error .XPDY0050 => .ok false | .error e => .error e))
  | .jArg i t => (pool, some (match convertParam tb xsd11 t (pool.getD i []) with
      | .ok _ => .ok true | .error .XPDY0050 => .ok false | .error e => .error e))
  | .papp i mask => (pool ++ [[(headItem (pool.getD i [])).partialApply mask]], none)
  | .coerce i k t r =>
    match (convertParam tb xsd11 t (memberOf (pool.getD i []) k)).bind (convertResult tb xsd11 r) with
    | .ok w => (pool ++ [w], some (.ok true))
    | .error .XPDY0050 => (pool ++ [[]], some (.ok false))
    | .error e => (pool ++ [[]], some (.error e))

def hRun (tb : Tables) (xsd11 : Bool) : List (List Item) → List HOp → List (Option Res)
  | _, [] => []
  | pool, op :: ops => (hStep tb xsd11 pool op).2 :: hRun tb xsd11 (hStep tb xsd11 pool op).1 ops

def hPool (tb : Tables) (xsd11 : Bool) : List (List Item) → List HOp → List (List Item)
  | pool, [] => pool
  | pool, op :: ops => hPool tb xsd11 (hStep tb xsd11 pool op).1 ops

/-! ## the text of a type and the string-level splitting of a typed function test

`is_sequence_type_restriction` (l.113-126) and `match_function_test` do not parse: they cut the normalised text of a
function test with `helpers.split_function_test`, which scans the characters after `function(` and splits at `', '`
and at the closing `) as ` where the nesting depth of parentheses is zero.  The text is modelled as a list of tokens:
`opn s` is a piece of text that opens one parenthesis more than it closes (`function(`, `map(xs:string`, `array(`,
`element(n1`), `cls s` one that closes one (`)`, `)*`, `xs:untyped)`), `atom s` a balanced piece (`item()?`, `xs:int`,
`element(n1)`), `comma` is `', '`, `closeAs` is `') as '` (it closes the parenthesis of `function(`).  The driver
prints `Ty.text` and `pySplit`; the harness compares them with the real normalised string and the real
`split_function_test`. -/

inductive Tok
  | atom (s : String)
  | opn (s : String)
  | cls (s : String)
  | comma            -- ', '
  | closeAs          -- ') as '
  deriving DecidableEq, Repr

def Tok.text : Tok → String
  | .atom s => s
  | .opn s => s
  | .cls s => s
  | .comma => ", "
  | .closeAs => ") as "

def Tok.isSep : Tok → Bool
  | .comma => true
  | .closeAs => true
  | _ => false

def Occ.text : Occ → String
  | .one => "" | .opt => "?" | .star => "*" | .plus => "+"

def NameTest.text : NameTest → String
  | .none => "" | .wild => "*"
  | .name n => (match n / 100 with | 0 => "" | 1 => "p:" | _ => "q:") ++ s!"n{n % 100}"

def Kind.str : Kind → String
  | .document => "document-node" | .element => "element" | .attribute => "attribute" | .text => "text"
  | .comment => "comment" | .pi => "processing-instruction" | .namespace => "namespace-node"

def TyArg.text (nm : Nat → String) : TyArg → String
  | .untyped => "xs:untyped" | .anyType => "xs:anyType" | .anySimpleType => "xs:anySimpleType" | .atomic t => nm t

/-- the text of a leaf item type; `nm` / `ln` give the names of the atomic / list types of the generated tables -/
def Leaf.text (nm ln : Nat → String) : Leaf → String
  | .item => "item()" | .anyNode => "node()" | .atomic a => nm a | .numeric => "xs:numeric" | .listT l => ln l
  | .anyType => "xs:anyType" | .anySimpleType => "xs:anySimpleType"
  | .kind k nt => k.str ++ "(" ++ nt.text ++ ")"
  | .kindT k nt _ _ => k.str ++ "(" ++ nt.text          -- the part before the ', ' (see `Ty.render`)
  | .docElem nt => "document-node(element(" ++ nt.text ++ "))"
  | .funcAny => "function(*)" | .mapAny => "map(*)" | .arrayAny => "array(*)"

mutual
/-- the normalised text of a type as tokens -/
def Ty.render (nm ln : Nat → String) : Ty → List Tok
  | .empty => [.atom "empty-sequence()"]
  | .leaf (.kindT k nt ta opt) o =>
    [.opn (k.str ++ "(" ++ nt.text), .comma, .cls (ta.text nm ++ (if opt then "?" else "") ++ ")" ++ o.text)]
  | .leaf l o => [.atom (l.text nm ln ++ o.text)]
  | .func a r => .opn "function(" :: (a.renderArgs nm ln ++ (.closeAs :: r.render nm ln))
  | .map k v o => .opn ("map(" ++ nm k) :: .comma :: (v.render nm ln ++ [.cls (")" ++ o.text)])
  | .array m o => .opn "array(" :: (m.render nm ln ++ [.cls (")" ++ o.text)])
/-- the arguments joined with `', '` -/
def Tys.renderArgs (nm ln : Nat → String) : Tys → List Tok
  | .nil => []
  | .cons a as => match as with
    | .nil => a.render nm ln
    | .cons _ _ => a.render nm ln ++ (.comma :: as.renderArgs nm ln)
end

def Ty.text (nm ln : Nat → String) (t : Ty) : String := String.join ((t.render nm ln).map Tok.text)

/-- the scan of `helpers.split_function_test` over the text after `function(`: `depth` = nesting depth, `cur` = the
text of the current parameter, result = (parameter texts, text of the return type).  A `', '` or the `) as ` of the
function test itself is recognised at depth 0 only. -/
def splitScan : Nat → List Tok → List Tok → List (List Tok) × List Tok
  | _, [], _ => ([], [])                                       -- no closing parenthesis: `return []`
  | d, t :: r, cur => match t, d with
    | .closeAs, 0 => (if cur.isEmpty then [] else [cur], r)    -- `if k > start: append`; the rest is the return type
    | .comma, 0 => (cur :: (splitScan 0 r []).1, (splitScan 0 r []).2)
    | .cls _, 0 => ([], [])                                    -- `)` at depth 0 not followed by ` as `: `return []`
    | .opn _, d => splitScan (d + 1) r (cur ++ [t])
    | .cls _, d + 1 => splitScan d r (cur ++ [t])
    | .closeAs, d + 1 => splitScan d r (cur ++ [t])
    | .comma, d + 1 => splitScan (d + 1) r (cur ++ [t])
    | .atom _, d => splitScan d r (cur ++ [t])

/-- `split_function_test(st)` for the text of a typed function test: parameter texts and return type text -/
def pySplit (st : List Tok) : List (List Tok) × List Tok := splitScan 0 st.tail []

/-- what the AST says the pieces are -/
def Tys.argTexts (nm ln : Nat → String) : Tys → List (List Tok)
  | .nil => []
  | .cons a as => a.render nm ln :: as.argTexts nm ln

/-! ## decidable regions: where the AST reading and the string-driven code agree by construction,
the domain of the specification, and the trigger predicates of the known findings -/

mutual
/-- no typed function test and no typed map test anywhere: the text contains neither `', '` nor `') as '` -/
def Ty.simple : Ty → Bool
  | .empty => true
  | .leaf (.kindT _ _ _ _) _ => false       -- 'element(n, T)' contains ', '
  | .leaf _ _ => true
  | .func _ _ => false
  | .map _ _ _ => false
  | .array m _ => m.simple
def Tys.allSimple : Tys → Bool
  | .nil => true
  | .cons a as => a.simple && as.allSimple
end

/-- every argument of every typed function test is `simple`, so that `partition(') as ')` and
`split(', ')` (sequence_types.py l.116-119, helpers.py split_function_test) cut the text where the
AST says -/
def Ty.flat : Ty → Bool
  | .empty => true
  | .leaf _ _ => true
  | .func a r => a.allSimple && r.flat
  | .map _ v _ => v.flat
  | .array m _ => m.flat

/-- every argument of the (top-level) typed function test is `simple` or is itself a typed function test with
`simple` arguments and a `simple` return type: the shape of the higher-order functions of the library -/
def Tys.allSimpleOrFunc : Tys → Bool
  | .nil => true
  | .cons a as => (a.simple || (match a with
      | .func a' r' => a'.allSimple && r'.simple
      | _ => false)) && as.allSimpleOrFunc

def Ty.hof1 : Ty → Bool
  | .func a r => a.allSimpleOrFunc && r.flat
  | _ => false

def Leaf.hasTypeArg' : Leaf → Bool
  | .kindT _ _ _ _ => true | _ => false

/-- the leaf is inside the domain of the specification comparison `match_eq_spec` -/
def Leaf.isAtomicName : Leaf → Bool
  | .listT _ => false | .anyType => false | .anySimpleType => false | .kindT _ _ _ _ => false | _ => true

mutual
/-- the specification assigns a meaning to the type: no xs:anyType / xs:anySimpleType / list type *name* used as
an item type (kind tests with a type argument are fine) -/
def Ty.specDefined : Ty → Bool
  | .empty => true
  | .leaf l _ => l.isAtomicName || l.hasTypeArg'
  | .func a r => a.allSpecDefined && r.specDefined
  | .map _ v _ => v.specDefined
  | .array m _ => m.specDefined
def Tys.allSpecDefined : Tys → Bool
  | .nil => true
  | .cons a as => a.specDefined && as.allSpecDefined
end

def Leaf.hasTypeArg : Leaf → Bool
  | .kindT _ _ _ _ => true | _ => false

mutual
/-- trigger of F18k: the type contains a kind test with a type argument -/
def Ty.hasTypeArg : Ty → Bool
  | .empty => false
  | .leaf l _ => l.hasTypeArg
  | .func a r => a.anyTypeArg || r.hasTypeArg
  | .map _ v _ => v.hasTypeArg
  | .array m _ => m.hasTypeArg
def Tys.anyTypeArg : Tys → Bool
  | .nil => false
  | .cons a as => a.hasTypeArg || as.anyTypeArg
end

mutual
/-- no xs:anyType / xs:anySimpleType / list type name anywhere (they are static errors XPST0051 for the
specification, raised only dynamically and only for some values by the code) -/
def Ty.atomicNamesOnly : Ty → Bool
  | .empty => true
  | .leaf l _ => l.isAtomicName
  | .func a r => a.allAtomicNames && r.atomicNamesOnly
  | .map _ v _ => v.atomicNamesOnly
  | .array m _ => m.atomicNamesOnly
def Tys.allAtomicNames : Tys → Bool
  | .nil => true
  | .cons a as => a.atomicNamesOnly && as.allAtomicNames
end

def Ty.hasTypedFunc : Ty → Bool
  | .empty => false
  | .leaf _ _ => false
  | .func _ _ => true
  | .map _ v _ => v.hasTypedFunc
  | .array m _ => m.hasTypedFunc

/-- the value contains a map or an array at the top level of a sequence, of a map entry or of an array member -/
def hasMapArray : List Item → Bool
  | [] => false
  | .map _ :: _ => true
  | .array _ :: _ => true
  | _ :: xs => hasMapArray xs

def Leaf.isKindTest : Leaf → Bool
  | .kind _ _ => true | .kindT _ _ _ _ => true | .docElem _ => true | _ => false

/-- documents have at most one element child (XDM documents built from well-formed XML have exactly one) -/
def docsWellFormed : List Item → Bool
  | [] => true
  | .node .document _ kids _ :: xs => kids.length ≤ 1 && docsWellFormed xs
  | _ :: xs => docsWellFormed xs

end EPV.SeqType

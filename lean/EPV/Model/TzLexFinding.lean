/-
Trigger predicates of finding F11z for `Timezone.fromstring`.  Decidable from the text alone.
-/
import EPV.Model.TzLex
import EPV.Spec.TzLex
namespace EPV.TzLex

/-- outside the XSD lexical space (production [43] after white-space collapse) and nevertheless accepted -/
def lenient (text : Str) : Bool := (EPV.TzLexSpec.parseWs text).isNone && (fromString text).isOk

/-- F11z (narrowed by `fix-c11-5`): the collapsed text is one of the two non-XSD zero forms `00:00`, `-0:0` that the
test suite of the library pins; `lenient_iff_pinned` (EPV/Lemmas/TzLex.lean) shows this is all that is left -/
def pinnedZero (text : Str) : Bool :=
  [['0', '0', ':', '0', '0'], ['-', '0', ':', '0']].contains (EPV.TzLexSpec.collapse text)

end EPV.TzLex

/-
C02 — executable model of the XPath node-tree builders of elementpath.

Transcribes (pinned tree + the two `fix:` commits of branch fix-c02):
* `elementpath/tree_builders.py`   `build_node_tree` (l. 81-188), `build_lxml_node_tree` (l. 191-328):
  the position bookkeeping, the document / fragment / dummy-document dispatch, lxml prolog/epilog
  siblings.  The explicit `iterators`/`ancestors` stacks of the Python loops are written here as
  structural recursion (`buildOne`/`buildKids`); that the two agree is checked by the
  correspondence harness on every run, not proved.
* `elementpath/xpath_nodes.py`     `ElementNode.namespace_nodes` (l. 861-874), `EtreeElementNode.attributes`
  (l. 1098-1106, no schema), `ElementNode.nsmap` (l. 813-820), `ElementNode.iter` / `DocumentNode.iter`
  (l. 988-998, 1648-1655), `get_document_node` (dummy document, l. 1364-1370),
  string values (l. 335, 465, 587, 665, 725-729, 1168-1174, 1763-1771).
* `elementpath/etree.py`           `etree_iter_text` (`normalize=False`; the document-order walk added by fix F02a).
Core Lean only.
-/
namespace EPV.Builder

/-- a Python `dict` prefix → uri in insertion order; key `none` is lxml's default-namespace key -/
abbrev NsMap := List (Option String × String)
/-- `elem.attrib` in insertion order -/
abbrev Attrib := List (String × String)

def xmlNamespace : String := "http://www.w3.org/XML/1998/namespace"

/-- An ElementTree / lxml element, comment or processing instruction with its `tail`.
`nsmap` is lxml's `elem.nsmap` (in-scope declarations); it is ignored for `xml.etree` trees. -/
inductive XTree where
  | elem (name : String) (nsmap : NsMap) (attrib : Attrib) (text : Option String)
      (kids : List XTree) (tail : Option String)
  | comment (text : String) (tail : Option String)
  | pi (target content : String) (tail : Option String)
  deriving Repr, Inhabited

namespace XTree
def tail : XTree → Option String
  | .elem _ _ _ _ _ t => t
  | .comment _ t => t
  | .pi _ _ t => t

def kids : XTree → List XTree
  | .elem _ _ _ _ k _ => k
  | _ => []

def isElem : XTree → Bool
  | .elem .. => true
  | _ => false
end XTree

/-- `'xml' in nsmap` -/
def hasXml (m : NsMap) : Bool := m.any (fun kv => kv.1 == some "xml")

/-- `len(nsmap) + int('xml' not in nsmap) + 1`  (`ns_pos_offset`, tree_builders.py:105;
the two-armed `if 'xml' in elem.nsmap` of the lxml builder, l. 263-266 and 281-284, is the same number) -/
def nsOffset (m : NsMap) : Nat := m.length + (if hasXml m then 0 else 1) + 1

inductive Kind where
  | document | element | «namespace» | attribute | text | comment | pi
  deriving Repr, DecidableEq, Inhabited

/-- The node tree as built: every node with the `position` it was constructed with.
`nsmap` of an element node is the *effective* map read by the lazy properties
(`ElementNode.nsmap`); `sv` is the string value the Python computes on demand from the wrapped
(immutable during a check) element. -/
inductive PNode where
  | doc (pos : Nat) (kids : List PNode)
  | elem (pos : Nat) (name : String) (nsmap : NsMap) (attrib : Attrib) (sv : String) (kids : List PNode)
  | text (pos : Nat) (s : String)
  | comment (pos : Nat) (s : String)
  | pi (pos : Nat) (target content : String)
  deriving Repr, Inhabited

namespace PNode
def pos : PNode → Nat
  | .doc p _ | .elem p .. | .text p _ | .comment p _ | .pi p .. => p
end PNode

/-! ### string values -/

/-- own right-fold concatenation (`''.join(...)`) -/
def concat : List String → String
  | [] => ""
  | s :: l => s ++ concat l

def optList (o : Option String) : List String :=
  match o with
  | none => []
  | some s => [s]

mutual
/-- `etree_iter_text(elem)` (fix F02a: explicit-stack walk in document order): the `text` of an
element, then the strings of its children, each child followed by its `tail`; a comment / PI
contributes only its tail; nothing for the tail of the start element. -/
def chunksOne (isTop : Bool) : XTree → List String
  | .elem _ _ _ text kids tail =>
      optList text ++ chunksKids kids ++ (if isTop then [] else optList tail)
  | .comment _ tail => if isTop then [] else optList tail
  | .pi _ _ tail => if isTop then [] else optList tail
def chunksKids : List XTree → List String
  | [] => []
  | t :: ts => chunksOne false t ++ chunksKids ts
end

/-- `EtreeElementNode.string_value` without schema: `''.join(etree_iter_text(self.value))` -/
def elemStringValue (t : XTree) : String := concat (chunksOne true t)

/-! ### the builders -/

/-- `if x is not None: TextNode(x, parent, position); position += 1` -/
def textNode (p : Nat) (o : Option String) : List PNode × Nat :=
  match o with
  | none => ([], p)
  | some s => ([.text p s], p + 1)

structure Cfg where
  /-- the tree comes from lxml (elements have `nsmap`) -/
  lxml : Bool
  /-- the `namespaces` argument (`None` is `[]`); ignored for lxml trees -/
  namespaces : NsMap
  /-- the `fragment` argument -/
  fragment : Option Bool
  deriving Repr, Inhabited

/-- `ElementNode.nsmap`: `self.value.nsmap` if the wrapped element has one, else `self.tree.namespaces` -/
def Cfg.nsmapOf (c : Cfg) (own : NsMap) : NsMap := if c.lxml then own else c.namespaces

mutual
/-- one iteration of the `for elem in children` body without the tail: create the node at `p`,
advance the position over the reserved gap, add the text child, descend.  Returns the node and
the next free position. -/
def buildOne (c : Cfg) (p : Nat) : XTree → PNode × Nat
  | .elem name nsmap attrib text kids tail =>
      let m := c.nsmapOf nsmap
      let p1 := p + nsOffset m + attrib.length
      let tn := textNode p1 text
      let ks := buildKids c tn.2 kids
      (.elem p name m attrib (elemStringValue (.elem name nsmap attrib text kids tail)) (tn.1 ++ ks.1), ks.2)
  | .comment s _ => (.comment p s, p + 1)
  | .pi t s _ => (.pi p t s, p + 1)
/-- the children of one parent: each child followed by the text node of its tail -/
def buildKids (c : Cfg) (p : Nat) : List XTree → List PNode × Nat
  | [] => ([], p)
  | t :: ts =>
      let n := buildOne c p t
      let tl := textNode n.2 t.tail
      let rest := buildKids c tl.2 ts
      (n.1 :: tl.1 ++ rest.1, rest.2)
end

/-- lxml document-level siblings of the root element: one node each, tails never looked at -/
def buildSiblings (p : Nat) : List XTree → List PNode × Nat
  | [] => ([], p)
  | .comment s _ :: ts => let r := buildSiblings (p + 1) ts; (.comment p s :: r.1, r.2)
  | .pi t s _ :: ts => let r := buildSiblings (p + 1) ts; (.pi p t s :: r.1, r.2)
  | .elem .. :: ts => buildSiblings p ts   -- `assert callable(elem.tag)`: cannot occur in lxml

/-- What is handed to `get_node_tree`. -/
structure Input where
  cfg : Cfg
  /-- `root` is an ElementTree (`hasattr(root, 'parse')`) rather than an Element -/
  isTree : Bool
  /-- lxml: comments/PIs before the top element -/
  prolog : List XTree
  /-- the top element of the document; `none` = `ElementTree()` without root -/
  top : Option XTree
  /-- lxml: comments/PIs after the top element -/
  epilog : List XTree
  /-- lxml, `isTree = false`: child-index path from `top` to the element passed as `root`
  (`[]` = the top element itself).  xml.etree elements have no parent link: `top` *is* the argument. -/
  path : List Nat
  deriving Repr, Inhabited

inductive Err where
  | typeError      -- ElementPathTypeError (empty lxml tree as fragment)
  | badInput       -- the request does not describe a possible call
  deriving Repr, DecidableEq

def subtreeAt : XTree → List Nat → Option XTree
  | t, [] => some t
  | t, i :: is => match t.kids[i]? with
    | some k => subtreeAt k is
    | none => none

/-- `EtreeDocumentNode.string_value` (after fix 9a93be5): the element (and text) children only -/
def svOfChild : PNode → Option String
  | .elem _ _ _ _ sv _ => some sv
  | .text _ s => some s
  | _ => none

def docStringValue (kids : List PNode) : String := concat (kids.filterMap svOfChild)

/-- `build_node_tree` (xml.etree): tree_builders.py:102-135, 174-184 -/
def buildET (i : Input) : Except Err PNode :=
  match i.isTree, i.top with
  | true, none => .ok (.doc 1 [])                              -- l. 117-122 (`fragment` irrelevant)
  | true, some e =>
      if !e.isElem then .error .badInput else
      if i.cfg.fragment == some true then .ok (buildOne i.cfg 1 e).1     -- l. 114-115, 126-131
      else .ok (.doc 1 [(buildOne i.cfg 2 e).1])                         -- l. 117-125
  | false, some e =>
      if !e.isElem then .error .badInput else
      let r := (buildOne i.cfg 1 e).1
      if i.cfg.fragment == some false then .ok (.doc (r.pos - 1) [r])    -- l. 179-182, get_document_node
      else .ok r
  | false, none => .error .badInput

/-- the lxml document: document node, prolog siblings, top element subtree, epilog siblings -/
def buildLxmlDoc (i : Input) : PNode :=
  match i.top with
  | none => .doc 1 []                                          -- l. 229-231
  | some e =>
      let pro := buildSiblings 2 i.prolog                      -- l. 234-241
      let r := buildOne i.cfg pro.2 e                          -- l. 243, 262-328
      let epi := buildSiblings r.2 i.epilog                    -- l. 315-322
      .doc 1 (pro.1 ++ r.1 :: epi.1)

/-- `build_lxml_node_tree`: tree_builders.py:210-260 -/
def buildLxml (i : Input) : Except Err PNode :=
  if i.top.any (fun e => !e.isElem) then .error .badInput else
  if i.isTree && i.path != [] then .error .badInput else
  match i.top with
  | none => if i.isTree then (if i.cfg.fragment == some true then .error .typeError else .ok (buildLxmlDoc i))
            else .error .badInput
  | some top =>
    match subtreeAt top i.path with
    | none => .error .badInput
    | some e =>
      if !e.isElem then .error .badInput else
      if i.cfg.fragment == some true then .ok (buildOne i.cfg 1 e).1        -- l. 212-213, 245-260
      else if i.isTree then .ok (buildLxmlDoc i)                            -- l. 214-215
      else if i.cfg.fragment == some false ||
              (i.path == [] && (!i.prolog.isEmpty || !i.epilog.isEmpty)) then
        .ok (buildLxmlDoc i)                                                -- l. 216-221 (`getroottree()`)
      else .ok (buildOne i.cfg 1 e).1                                       -- l. 222-223

/-- `get_node_tree` for etree roots: dispatch on `hasattr(root, 'xpath')` (l. 67-78) -/
def build (i : Input) : Except Err PNode :=
  if i.cfg.lxml then buildLxml i else buildET i

/-! ### lazy components and iteration -/

/-- one node as seen by `root.iter()` -/
structure Rec where
  kind : Kind
  name : Option String
  pos : Nat
  /-- `node.parent.position` (`none` for the root node) -/
  parent : Option Nat
  /-- `node.string_value` -/
  sv : String
  deriving Repr, DecidableEq, Inhabited

/-- positions `p, p+1, …` handed out to the items of `l` (`enumerate(items, p)`) -/
def enumFrom {α β : Type} (f : Nat → α → β) (p : Nat) : List α → List β
  | [] => []
  | a :: l => f p a :: enumFrom f (p + 1) l

/-- `ElementNode.namespace_nodes`: the `xml` node at `position + 1`, then one node per entry of the
map whose prefix is not `'xml'` -/
def namespaceNodes (p : Nat) (m : NsMap) : List Rec :=
  { kind := .namespace, name := some "xml", pos := p + 1, parent := some p, sv := xmlNamespace } ::
  enumFrom (fun q (kv : Option String × String) =>
      { kind := .namespace, name := kv.1, pos := q, parent := some p, sv := kv.2 : Rec })
    (p + 2) (m.filter fun kv => kv.1 != some "xml")

/-- `EtreeElementNode.attributes`: `enumerate(attrib.items(), position + len(nsmap) + int('xml' not in nsmap) + 1)` -/
def attributeNodes (p : Nat) (m : NsMap) (a : Attrib) : List Rec :=
  enumFrom (fun q (kv : String × String) =>
      { kind := .attribute, name := some kv.1, pos := q, parent := some p, sv := kv.2 : Rec })
    (p + m.length + (if hasXml m then 0 else 1) + 1) a

mutual
/-- `ElementNode.iter` / `DocumentNode.iter`: self, namespace nodes, attributes, children recursively -/
def iterNode (par : Option Nat) : PNode → List Rec
  | .doc p kids =>
      { kind := .document, name := none, pos := p, parent := par, sv := docStringValue kids } ::
        iterKids (some p) kids
  | .elem p name m a sv kids =>
      { kind := .element, name := some name, pos := p, parent := par, sv := sv } ::
        (namespaceNodes p m ++ attributeNodes p m a ++ iterKids (some p) kids)
  | .text p s => [{ kind := .text, name := none, pos := p, parent := par, sv := s }]
  | .comment p s => [{ kind := .comment, name := none, pos := p, parent := par, sv := s }]
  | .pi p t s => [{ kind := .pi, name := some t, pos := p, parent := par, sv := s }]
def iterKids (par : Option Nat) : List PNode → List Rec
  | [] => []
  | n :: ns => iterNode par n ++ iterKids par ns
end

/-- `root_node.iter()` -/
def iter (root : PNode) : List Rec := iterNode none root

/-! ### operators on nodes of one tree (`nodes = iter root`; a node is its index in that list,
which stands for Python object identity) -/

/-- `$a is $b`  (`_xpath2_operators.py:595-596`) -/
def opIs (a b : Nat) : Bool := a == b

/-- `$a << $b` / `$a >> $b` (`_xpath2_operators.py:597-611`): walk `root.iter_document()` until one
of the two operands is met; `none` = FOCA0002 (neither operand is a node of the tree). -/
def walk (a b : Nat) (i : Nat) : List Rec → Option Bool
  | [] => none
  | _ :: rest => if i == a then some true else if i == b then some false else walk a b (i + 1) rest

def opPrecedes (nodes : List Rec) (a b : Nat) : Option Bool :=
  if a == b then some false else walk a b 0 nodes
def opFollows (nodes : List Rec) (a b : Nat) : Option Bool :=
  if a == b then some false else (walk a b 0 nodes).map (!·)

/-- `node.position` of the node with identity `i` -/
def posOf (nodes : List Rec) (i : Nat) : Nat := (nodes[i]?.map (·.pos)).getD 0

/-- `sorted(s, key=node_position)` for `s` enumerated in the order `l` (CPython's `sorted` is a
stable sort, so it is the stable merge sort of the enumeration) -/
def sortByPos (nodes : List Rec) (l : List Nat) : List Nat :=
  l.mergeSort (fun i j => posOf nodes i ≤ posOf nodes j)

/-- `set(xs)`: one representative per identity; the enumeration order of a Python set is arbitrary,
the theorems quantify over every permutation of this list -/
def toSet : List Nat → List Nat
  | [] => []
  | a :: l => if l.contains a then toSet l else a :: toSet l

def opUnion (nodes : List Rec) (xs ys : List Nat) : List Nat :=
  sortByPos nodes (toSet (xs ++ ys))                       -- _xpath1_operators.py:259-264
def opIntersect (nodes : List Rec) (xs ys : List Nat) : List Nat :=
  sortByPos nodes ((toSet xs).filter (ys.contains ·))      -- _xpath2_operators.py:71-79 `s1 & s2`
def opExcept (nodes : List Rec) (xs ys : List Nat) : List Nat :=
  sortByPos nodes ((toSet xs).filter (!ys.contains ·))     -- `s1 - s2`

/-- identity of the parent of node `i`: the node whose position is `nodes[i].parent` -/
def parentIdx (nodes : List Rec) (i : Nat) : Option Nat :=
  match nodes[i]? with
  | some r => match r.parent with
    | some q => nodes.findIdx? (·.pos == q)
    | none => none
  | none => none

/-- `context.iter_ancestors(axis='ancestor')` as a set of identities: follow `.parent` up to the
root (`fuel` = number of nodes bounds the chain) -/
def ancestorsOf (nodes : List Rec) (i : Nat) : Nat → List Nat
  | 0 => []
  | fuel + 1 => match parentIdx nodes i with
    | some q => q :: ancestorsOf nodes q fuel
    | none => []

/-- `fn:innermost` (`_xpath30_functions.py:1106-1118`) -/
def opInnermost (nodes : List Rec) (xs : List Nat) : List Nat :=
  let anc := xs.flatMap fun i => ancestorsOf nodes i nodes.length
  sortByPos nodes (toSet (xs.filter (!anc.contains ·)))

/-- `fn:outermost` (`_xpath30_functions.py:1121-1143`) -/
def opOutermost (nodes : List Rec) (xs : List Nat) : List Nat :=
  sortByPos nodes (toSet (xs.filter fun i => !(ancestorsOf nodes i nodes.length).any (xs.contains ·)))

/-- `fn:root($n)` with the tree's root as context root (`XPathContext.get_root`): the root when the
node is met by `root.iter_lazy()`, else the empty sequence -/
def opRoot (nodes : List Rec) (i : Nat) : Option Nat := if i < nodes.length then some 0 else none

end EPV.Builder

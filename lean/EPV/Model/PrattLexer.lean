/-
C04 — model of the *custom alternatives* of the tokenizer regular expression
(`Parser.create_tokenizer`, tdop.py:836-882: `symbols_patterns.append('|'.join(custom_patterns))` where
`custom_patterns` is a Python `set`, so the order of these alternatives depends on the hash seed).

Every custom pattern of the XPath parsers has the shape
    [look-behind] [\b] HEAD (?= LOOK-AHEAD )         or        LITERAL
with HEAD either the greedy NCName expression `[^\d\W][\w.\-\xb7̀-ͯ‿⁀]*` (functions,
axes) or a literal word (`attribute`, `map`, `array`), and LITERAL = `Q\{`.  The translator reads each
pattern with Python's regex parser and emits an `Alt`: the head, and an over-approximation of the
look-ahead by its FIRST set (the look-ahead needs at least one more character and that character is in
the set).  Look-behind and `\b` only remove matches and are dropped.  Core Lean only.
-/
namespace EPV.Lexer

/-- a set of code points as closed ranges -/
abbrev Ranges := List (Nat × Nat)

/-- characters are code points -/
abbrev Ch := Nat

def inRanges (r : Ranges) (c : Ch) : Bool := r.any fun p => decide (p.1 ≤ c) && decide (c ≤ p.2)

structure Alt where
  /-- `none`: the greedy NCName expression; `some w`: the literal text `w` -/
  head : Option (List Ch)
  /-- `none`: no look-ahead; `some F`: a look-ahead that needs a next character, which lies in `F` -/
  la : Option (List Ch)
  deriving Repr, DecidableEq, Inhabited

/-- character classes of the NCName expression: `nameStart` = `[^\d\W]`, `nameChar` = `[\w.\-\xb7…]` -/
structure Classes where
  nameStart : Ranges
  nameChar : Ranges

def laHolds (la : Option (List Ch)) (rest : List Ch) : Bool :=
  match la with
  | none => true
  | some F => match rest with
    | c :: _ => F.contains c
    | [] => false

/-- length of the maximal run of name characters at the start of `s` -/
def nameRun (C : Classes) : List Ch → Nat
  | [] => 0
  | c :: cs => if inRanges C.nameChar c then nameRun C cs + 1 else 0

/-- length of the lexeme the alternative matches at the start of `s` (what the regex engine returns for
this alternative alone: greedy run, back-tracking can only shorten it to a position where the look-ahead
holds, and the look-ahead never holds in front of a name character) -/
def matchLen (C : Classes) (A : Alt) (s : List Ch) : Option Nat :=
  match A.head with
  | none =>
    match s with
    | c :: _ =>
      let n := nameRun C s
      if inRanges C.nameStart c && decide (1 ≤ n) && laHolds A.la (s.drop n) then some n else none
    | [] => none
  | some w => if w.isPrefixOf s && laHolds A.la (s.drop w.length) then some w.length else none

/-- ordered choice: the regex alternation `A₁|A₂|…` takes the first alternative that matches -/
def choose (C : Classes) (alts : List Alt) (s : List Ch) : Option Nat := alts.findSome? (matchLen C · s)

/-- the alternative's lexeme always ends where the name run ends -/
def runBounded (C : Classes) (A : Alt) : Bool :=
  match A.la with
  | none => false
  | some F =>
    F.all (fun c => !inRanges C.nameChar c) &&
      match A.head with
      | none => true
      | some w => w.all (inRanges C.nameChar)

/-- a literal alternative that is not run-bounded (`Q{`) cannot match together with `B` -/
def apart (C : Classes) (L : List Ch) (B : Alt) : Bool :=
  match B.head with
  | some w => (w == L) || (!w.isPrefixOf L && !L.isPrefixOf w)
  | none =>
    let k := nameRun C L
    decide (k < L.length) && match B.la with
      | some F => !(F.contains (L.getD k 0))
      | none => false

def pairOK (C : Classes) (A B : Alt) : Bool :=
  (runBounded C A && runBounded C B) ||
  (match A.head with | some w => !runBounded C A && apart C w B | none => false) ||
  (match B.head with | some w => !runBounded C B && apart C w A | none => false)

/-- the decidable side condition of `custom_alt_agree` over a generated list of alternatives -/
def altsOK (C : Classes) (alts : List Alt) : Bool := alts.all fun A => alts.all fun B => pairOK C A B

end EPV.Lexer

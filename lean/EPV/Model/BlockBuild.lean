/-
C13 extension — the block-table derivation of `UnicodeData.__init__`
(`/repo/elementpath/regex/unicode_subsets.py`, "# Build blocks dict for version" … end of `__init__`,
data in `unicode_blocks.py`) as a pure function of (base table, version items, requested version),
and the process state it lives in (the module-level base dict is a *shared mutable object*).

Block names are identifiers (`Nat` = rank of the name in Python's `sorted()` of all names, assigned by
the translator); a value is the code-point list of `UnicodeSubset(value_string)`.
Core Lean only.
-/
import EPV.Model.UnicodeSubset
namespace EPV.BlockBuild
open EPV.USet

/-- a Python `dict` with insertion order: association list with unique keys -/
abbrev Dict (α : Type) := List (Nat × α)

/-- `d[k] = v`: an existing key keeps its position and gets the new value, a new key is appended -/
def dictSet {α} : Dict α → Nat → α → Dict α
  | [], k, v => [(k, v)]
  | (k', v') :: r, k, v => if k' = k then (k, v) :: r else (k', v') :: dictSet r k v

/-- `d.update(u)` (items of `u` in order) -/
def dictUpdate {α} (d : Dict α) (u : List (Nat × α)) : Dict α :=
  u.foldl (fun d kv => dictSet d kv.1 kv.2) d

def dictGet {α} : Dict α → Nat → Option α
  | [], _ => none
  | (k', v') :: r, k => if k' = k then some v' else dictGet r k

/-- Python tuple comparison `a < b` on version tuples -/
def verLt : List Nat → List Nat → Bool
  | [], [] => false
  | [], _ :: _ => true
  | _ :: _, [] => false
  | a :: as, b :: bs => if a < b then true else if b < a then false else verLt as bs

/-- one module-level name of `unicode_blocks.py` that the loop looks at, in module order:
`UPDATE_BLOCKS_VER_x_y_z = {…}` or `REMOVED_BLOCKS_VER_x_y_z = […]` -/
inductive Item where
  | upd (ver : List Nat) (u : List (Nat × List CP))
  | rem (ver : List Nat) (names : List Nat)
deriving Repr, DecidableEq

def Item.ver : Item → List Nat
  | .upd v _ => v
  | .rem v _ => v

/-- the two locals of the loop: `blocks`, `superseded_blocks` -/
structure Acc where
  blocks : Dict (List CP)
  superseded : List Nat
deriving Repr, DecidableEq

/-- the `for name in unicode_blocks.__dict__` loop: the first UPDATE_/REMOVED_ name whose version is
greater than the requested one `break`s the whole loop; otherwise `blocks.update(…)` /
`superseded_blocks.extend(…)` -/
def applyItems (v : List Nat) : List Item → Acc → Acc
  | [], a => a
  | .upd ver u :: r, a =>
      if verLt v ver then a else applyItems v r { a with blocks := dictUpdate a.blocks u }
  | .rem ver ns :: r, a =>
      if verLt v ver then a else applyItems v r { a with superseded := a.superseded ++ ns }

/-- `blocks = UNICODE_BLOCKS_VER_2_0_0.copy()` + the loop: the model of the code WITH the copy -/
def blocksFor (base : Dict (List CP)) (items : List Item) (v : List Nat) : Acc :=
  applyItems v items { blocks := base, superseded := [] }

/-- key normalisations of names, supplied by the translator (name id ↦ id of the normalised key):
`strip` = `k.replace(' ', '').replace('_', '')`, `norm` = `_unicode_block_key(k)` -/
structure Keys where
  strip : Nat → Nat
  norm : Nat → Nat

/-- `self._blocks = {strip(k): v for k, v in blocks.items()}` -/
def mkBlocks (K : Keys) (blocks : Dict (List CP)) : Dict (List CP) :=
  blocks.foldl (fun d kv => dictSet d (K.strip kv.1) kv.2) []

/-- `self._unicode_blocks = {norm(k): k for k in blocks if k not in superseded_blocks}` -/
def mkUnicodeBlocks (K : Keys) (a : Acc) : Dict Nat :=
  a.blocks.foldl (fun d kv => if a.superseded.contains kv.1 then d else dictSet d (K.norm kv.1) kv.1) []

def insertSorted (x : Nat) : List Nat → List Nat
  | [] => [x]
  | y :: r => if x ≤ y then x :: y :: r else y :: insertSorted x r

/-- insertion sort (`sorted(...)` on distinct ranks) -/
def sortNat (l : List Nat) : List Nat := l.foldl (fun acc x => insertSorted x acc) []

/-- what an observer sees (and what the existing table theorems are about):
`[(name, UnicodeSubset(self._blocks[strip(name)]).codepoints) for name in sorted(set(self._unicode_blocks.values()))]`.
(Names are distinct dict keys, so `set()` removes nothing; ids are ranks, so sorting ids = sorting names.
`none` = `KeyError`, impossible by construction but not assumed.) -/
def view (K : Keys) (a : Acc) : List (Nat × Option (List CP)) :=
  let bl := mkBlocks K a.blocks
  (sortNat ((mkUnicodeBlocks K a).map (·.2))).map fun n => (n, dictGet bl (K.strip n))

/-! ### the process: the module-level base dict is one shared object -/

/-- a built `UnicodeData` instance: its version, the derived tables, and the names whose value has
been materialised by a `block()` look-up (`self._blocks[name] = UnicodeSubset(subset)`) -/
structure Inst where
  ver : List Nat
  acc : Acc
  looked : List Nat
deriving Repr, DecidableEq

/-- process state: the object bound to `unicode_blocks.UNICODE_BLOCKS_VER_2_0_0`, and the installed
`__unicode_data` -/
structure Proc where
  shared : Dict (List CP)
  installed : Option Inst
deriving Repr, DecidableEq

inductive Event where
  | install (v : List Nat)        -- `install_unicode_data(v)` / `UnicodeData(v)`
  | lookBlock (name : Nat)        -- `unicode_block(name)` on the installed instance
  | lookCat                       -- `unicode_category(k)` (does not touch block state)
deriving Repr, DecidableEq

/-- one event.  `copy = true` is the code as written (`….copy()`); `copy = false` is the aliasing
variant (`blocks = unicode_blocks.UNICODE_BLOCKS_VER_2_0_0`): the loop's `blocks.update` then mutates
the shared object itself. -/
def step (copy : Bool) (items : List Item) (p : Proc) : Event → Proc
  | .install v =>
      let a := applyItems v items { blocks := p.shared, superseded := [] }
      { shared := if copy then p.shared else a.blocks,
        installed := some { ver := v, acc := a, looked := [] } }
  | .lookBlock n =>
      { p with installed := p.installed.map fun i => { i with looked := n :: i.looked } }
  | .lookCat => p

def runEvents (copy : Bool) (items : List Item) (p : Proc) : List Event → Proc
  | [] => p
  | e :: r => runEvents copy items (step copy items p e) r

def lastInstall : List Event → Option (List Nat)
  | [] => none
  | .install v :: r => (lastInstall r).or (some v)
  | _ :: r => lastInstall r

/-- the table an observer gets after a history -/
def tableAfter (copy : Bool) (base : Dict (List CP)) (items : List Item) (evs : List Event) : Option Acc :=
  (runEvents copy items { shared := base, installed := none } evs).installed.map (·.acc)

end EPV.BlockBuild

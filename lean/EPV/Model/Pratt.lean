/-
Model side of C04: the Pratt parser of elementpath/tdop.py over the abstract token alphabet of
EPV/Spec/EBNF.lean, driven by an operator table that the translator (harness/c04.py) regenerates
from the live `symbol_table` of XPath1Parser / XPath2Parser / XPath30Parser / XPath31Parser.

Python ↔ Lean
* `Parser.expression(rbp)`  tdop.py:613-627      ↔ `expr` (advance + `nud`) and `loop` (`while rbp < next.lbp: led`)
* `Parser.infix/infixr` led tdop.py:780-794      ↔ `Led.infix rbp …`  (rbp = the value passed to `expression`)
* `Parser.prefix` nud, `nud__plus_minus_operators` _xpath1_operators.py:163-167 ↔ `Nud.prefix rbp`
* comparison / `to` / `is` guards (`if left.symbol in …: raise wrong_syntax`)
  _xpath1_operators.py:77-81, _xpath2_operators.py:503-507, 569-573, 618-622 ↔ `deny` lists
* `led__child_or_descendant_path` left/next-token checks _xpath1_operators.py:292-303 ↔ `deny` + `rhs`
* `led__sequence_type_based_expressions`, `led__cast_expressions` _xpath2_operators.py:225-343 ↔ `Led.typed`
* `led__predicate` _xpath1_operators.py:398-402, `led__parenthesized_expression` _xpath30_operators.py:71-91 ↔ `Led.bracket`
* `nud__parenthesized_expr(ession)` _xpath1_operators.py:426-430, _xpath2_operators.py:449-454 ↔ `Nud.group`
* `LookupOperatorToken.led` _xpath31_operators.py:156-166 ↔ `Led.infix 85 … rhs`
* `led__arrow_operator` _xpath31_operators.py:235-263 ↔ `Led.arrow 80 67 start g` (the function-token branches,
  which take the next token without parsing it, concern names outside the operand alphabet)
* `Token.nud/led` defaults raise `wrong_syntax` tdop.py:255-262 ↔ `Led.none`/`Nud.none` → `Err.syntax`
Core Lean only.
-/
import EPV.Spec.EBNF
namespace EPV.Pratt
open EPV.Syn

/-- what `led` of a symbol does -/
inductive Led where
  /-- no `led`: `Token.led` raises wrong_syntax -/
  | none
  /-- `if left.symbol in deny: raise; [next token must start with a code in rhs unless rhs = []];
      self[:] = left, self.parser.expression(rbp)` -/
  | infix (rbp : Nat) (deny : List Nat) (rhs : List Nat)
  /-- `advance('of'|'as'); self[:] = left, <type>` -/
  | typed (deny : List Nat)
  /-- `self[:] = left, expression(0) (or nothing if emptyOk and the closer follows); advance(close)` -/
  | bracket (close : Nat) (emptyOk : Bool) (deny : List Nat)
  /-- `[next token must start with a code in start]; self[:] = left, expression(srbp); right = expression(arbp);
      right.expected('(')  -- symbol `g`; self.append(right)`  (`led__arrow_operator`) -/
  | arrow (srbp arbp : Nat) (start : List Nat) (g : Nat)
  /-- a `led` that the model does not describe (`:` `#` `=>` …): using it is outside the fragment -/
  | other
  deriving Repr, DecidableEq, Inhabited

/-- what `nud` of a symbol does -/
inductive Nud where
  | none
  /-- `[next token must start with a code in rhs unless rhs = []]; self[:] = self.parser.expression(rbp),` -/
  | prefix (rbp : Nat) (rhs : List Nat)
  /-- `self[:] = expression(0), (or nothing if emptyOk and the closer follows); advance(close)` -/
  | group (close : Nat) (emptyOk : Bool)
  | other
  deriving Repr, DecidableEq, Inhabited

/-- one row of the generated operator table -/
structure Row where
  sym : String
  lbp : Nat
  led : Led
  nud : Nud
  deriving Repr, DecidableEq, Inhabited

/-- the table as functions of the operator index (what the parser looks up on a token) -/
structure Tbl where
  lbp : Nat → Nat
  led : Nat → Led
  nud : Nat → Nud

def tableOf (rows : List Row) : Tbl where
  lbp o := ((rows[o]?).map (·.lbp)).getD 0
  led o := ((rows[o]?).map (·.led)).getD .none
  nud o := ((rows[o]?).map (·.nud)).getD .none

inductive Err where
  /-- `ElementPathSyntaxError` (wrong_syntax / expected_next / advance(symbol) mismatch) -/
  | syntax
  /-- the model ran out of fuel (never with the fuel `parse` supplies, see `parse_fuel_enough`) -/
  | fuel
  /-- a symbol whose `led`/`nud` is not modelled was used -/
  | unmodelled
  deriving Repr, DecidableEq, Inhabited

/-- head code of the next token, for the "next token must be a step / key specifier" checks -/
def tokCode : List Tok → Nat
  | .atom k _ :: _ => 2 * k + 2
  | .op o :: _ => 2 * o + 1
  | _ => 0

def rhsOk (rhs : List Nat) (toks : List Tok) : Bool := rhs.isEmpty || rhs.contains (tokCode toks)

mutual
/-- `advance(); left = self.token.nud()` then the `while` loop -/
def expr (T : Tbl) : Nat → Nat → List Tok → Except Err (Tree × List Tok)
  | 0, _, _ => .error .fuel
  | f + 1, rbp, .atom k n :: rest => loop T f rbp (.atom k n) rest
  | f + 1, rbp, .op o :: rest =>
    match T.nud o with
    | .prefix r rhs =>
      if !rhsOk rhs rest then .error .syntax
      else
        match expr T f r rest with
        | .ok (x, rest') => loop T f rbp (.pre o x) rest'
        | .error e => .error e
    | .group c eo =>
      match rest with
      | .close c' :: rest' =>
        if eo && c' == c then loop T f rbp (.group o c .nil) rest' else .error .syntax
      | _ =>
        match expr T f 0 rest with
        | .ok (e, .close c' :: rest') =>
          if c' == c then loop T f rbp (.group o c e) rest' else .error .syntax
        | .ok _ => .error .syntax
        | .error e => .error e
    | .none => .error .syntax
    | .other => .error .unmodelled
  | _ + 1, _, _ => .error .syntax
/-- `while rbp < self.next_token.lbp: advance(); left = self.token.led(left)` -/
def loop (T : Tbl) : Nat → Nat → Tree → List Tok → Except Err (Tree × List Tok)
  | 0, _, _, _ => .error .fuel
  | f + 1, rbp, left, .op o :: rest =>
    if rbp < T.lbp o then
      match T.led o with
      | .infix r deny rhs =>
        if deny.contains left.head then .error .syntax
        else if !rhsOk rhs rest then .error .syntax
        else
          match expr T f r rest with
          | .ok (x, rest') => loop T f rbp (.bin o left x) rest'
          | .error e => .error e
      | .typed deny =>
        if deny.contains left.head then .error .syntax
        else
          match rest with
          | .ty n :: rest' => loop T f rbp (.typed o left n) rest'
          | _ => .error .syntax
      | .bracket c eo deny =>
        if deny.contains left.head then .error .syntax
        else
          match rest with
          | .close c' :: rest' =>
            if eo && c' == c then loop T f rbp (.post o c left .nil) rest' else .error .syntax
          | _ =>
            match expr T f 0 rest with
            | .ok (e, .close c' :: rest') =>
              if c' == c then loop T f rbp (.post o c left e) rest' else .error .syntax
            | .ok _ => .error .syntax
            | .error e => .error e
      | .arrow sr ar start g =>
        if !rhsOk start rest then .error .syntax
        else
          match expr T f sr rest with
          | .ok (s, rest1) =>
            match expr T f ar rest1 with
            | .ok (a, rest2) =>
              if a.head == 2 * g + 1 then loop T f rbp (.arrow o left s a) rest2 else .error .syntax
            | .error e => .error e
          | .error e => .error e
      | .none => .error .syntax
      | .other => .error .unmodelled
    else .ok (left, .op o :: rest)
  | _ + 1, _, left, toks => .ok (left, toks)
end

/-- `Parser.parse`: `expression(0)` and then the next token must be `(end)` -/
def parse (T : Tbl) (toks : List Tok) : Except Err Tree :=
  match expr T (2 * toks.length + 2) 0 toks with
  | .ok (t, []) => .ok t
  | .ok _ => .error .syntax
  | .error e => .error e

end EPV.Pratt

/-
Model side of C09: the string functions of elementpath, transcribed from the Python sources

  elementpath/xpath1/_xpath1_functions.py   contains, concat, string-length, normalize-space,
                                            starts-with, translate, substring (+ round_half_up),
                                            substring-before/after
  elementpath/xpath2/_xpath2_functions.py   codepoints-to-string, string-to-codepoints, compare,
                                            contains/starts-with/ends-with/substring-before/after
                                            (through CollationManager), codepoint-equal,
                                            string-join, upper-case, lower-case, encode-for-uri,
                                            iri-to-uri, escape-html-uri
  elementpath/collations.py                 unicode_codepoint_strcoll / strxfrm, CollationManager
                                            .contains/.find/.startswith/.endswith
  elementpath/helpers.py                    is_xml_codepoint

as they stand after the four `fix:` commits of branch fix-c09 (F09a rounding, F09b translate
duplicates, F09c normalize-space whitespace, F09d substring(-INF)).  A Python `str` is modelled as
the list of its code points (`ord`/`chr`/`len`/indexing/slicing of CPython work on code points);
the CPython `str` primitives used by the code are modelled by their documented meaning (named at
each definition, "CPython:") — they are part of the trusted base.  Core Lean only.

Only the value types (`Str`, `Num`, `Err`) are shared with the specification.
-/
import EPV.Spec.FOStrings
namespace EPV.Strings
open EPV.FOStrings (Str Num Err)

/-! ## Python primitives -/

/-- CPython: `s[a:b]` for non-negative `a`, `b` -/
def pySlice (s : Str) (a b : Nat) : Str := (s.take b).drop a

/-- CPython: `s[a:]` for non-negative `a` -/
def pySliceFrom (s : Str) (a : Nat) : Str := s.drop a

/-- Python `max(i, 0)` used as a slice bound -/
def clamp0 (i : Int) : Nat := (max i 0).toNat

/-- CPython: `s.startswith(t)` -/
def pyStartsWith (s t : Str) : Bool := t.isPrefixOf s

/-- CPython: `s.endswith(t)` -/
def pyEndsWith (s t : Str) : Bool := t.reverse.isPrefixOf s.reverse

/-- CPython: `s.find(t)`: the lowest index at which `t` occurs in `s` (`none` for −1) -/
def pyFind (t : Str) : Str → Option Nat
  | [] => if t.isEmpty then some 0 else none
  | c :: cs => if t.isPrefixOf (c :: cs) then some 0 else (pyFind t cs).map (· + 1)

/-- CPython: `t in s` -/
def pyIn (t : Str) : Str → Bool
  | [] => t.isEmpty
  | c :: cs => t.isPrefixOf (c :: cs) || pyIn t cs

/-- CPython: `s.split(' ')` — split at every single U+0020, empty pieces kept -/
def pySplitSp : Str → List Str
  | [] => [[]]
  | c :: cs =>
    match pySplitSp cs with
    | [] => [[]]   -- unreachable (`pySplitSp` never returns `[]`)
    | w :: ws => if c = 0x20 then [] :: w :: ws else (c :: w) :: ws

/-- CPython: `' '.join(words)` -/
def pyJoinSp : List Str → Str
  | [] => []
  | [w] => w
  | w :: w' :: ws => w ++ 0x20 :: pyJoinSp (w' :: ws)

/-- CPython: `sep.join(items)` -/
def pyJoin (sep : Str) : List Str → Str
  | [] => []
  | [w] => w
  | w :: w' :: ws => w ++ sep ++ pyJoin sep (w' :: ws)

/-- CPython: `s1 < s2` on `str` (lexicographic on code points) -/
def pyLt : Str → Str → Bool
  | [], [] => false
  | [], _ :: _ => true
  | _ :: _, [] => false
  | a :: as, b :: bs => if a < b then true else if b < a then false else pyLt as bs

/-! ## xpath1/_xpath1_functions.py -/

/-- `round_half_up(value)`:
```
floor = math.floor(value)
return floor + 1 if 2 * (value - floor) >= 1 else floor
```
for the exact value `n/d` (`math.floor` = `Int` floor division by the positive `d`; the subtraction
`value - floor` is exact for floats, see docs/C09.md). -/
def roundHalfUp (n : Int) (d : Nat) : Int :=
  let floor := n / d
  if 2 * (n - floor * d) ≥ d then floor + 1 else floor

/-- `evaluate__substring`, `len(self) == 2` -/
def substring2 (item : Str) (start : Num) : Str :=
  match start with
  | .ninf => item                       -- isinf(start) and start < 0 and len(self) == 2
  | .nan => []                          -- math.isnan(start) or math.isinf(start)
  | .pinf => []
  | .fin n d =>
    let start := roundHalfUp n d - 1
    pySliceFrom item (clamp0 start)     -- item[max(start, 0):]

/-- `evaluate__substring`, `len(self) == 3` -/
def substring3 (item : Str) (start length : Num) : Str :=
  match start with
  | .nan => [] | .pinf => [] | .ninf => []
  | .fin n d =>
    let start := roundHalfUp n d - 1
    match length with
    | .nan => []                                      -- math.isnan(length)
    | .ninf => []                                     -- length <= 0
    | .pinf => pySliceFrom item (clamp0 start)        -- math.isinf(length)
    | .fin m e =>
      if m ≤ 0 then []                                -- length <= 0
      else
        let stop := start + roundHalfUp m e
        pySlice item (clamp0 start) (clamp0 stop)     -- item[slice(max(start, 0), max(stop, 0))]

/-- `evaluate__contains` (1.0): `arg2 in arg1`;  2.0+: `CollationManager.contains` =
`strxfrm(b) in strxfrm(a)` with `strxfrm = identity` for the code-point collation -/
def contains (arg1 arg2 : Str) : Bool := pyIn arg2 arg1

/-- `evaluate__starts_with` -/
def startsWith (arg1 arg2 : Str) : Bool := pyStartsWith arg1 arg2

/-- `evaluate__ends_with` (2.0+) -/
def endsWith (arg1 arg2 : Str) : Bool := pyEndsWith arg1 arg2

/-- `evaluate__substring_before_or_after_functions`, symbol `substring-before`:
```
index = arg1.find(arg2)
if index < 0: return ''
return arg1[:index]
``` -/
def substringBefore (arg1 arg2 : Str) : Str :=
  match pyFind arg2 arg1 with
  | none => []
  | some index => arg1.take index

/-- symbol `substring-after`: `return arg1[index + len(arg2):]` -/
def substringAfter (arg1 arg2 : Str) : Str :=
  match pyFind arg2 arg1 with
  | none => []
  | some index => arg1.drop (index + arg2.length)

/-- `evaluate__translate`, the table loop
```
table = {}
for k, char in enumerate(map_string):
    if ord(char) not in table:
        table[ord(char)] = trans_string[k] if k < len(trans_string) else None
```
The dict is an association list in insertion order; `none` is Python's `None` (delete). -/
def buildTable (trans : Str) : Nat → Str → List (Nat × Option Nat) → List (Nat × Option Nat)
  | _, [], table => table
  | k, char :: rest, table =>
    buildTable trans (k + 1) rest
      (if (table.lookup char).isSome then table else table ++ [(char, trans[k]?)])

/-- CPython: `arg.translate(table)` for a dict from code points to a one-character string or
`None` -/
def pyTranslate (table : List (Nat × Option Nat)) (arg : Str) : Str :=
  arg.flatMap fun c =>
    match table.lookup c with
    | none => [c]
    | some none => []
    | some (some v) => [v]

def translate (arg mapString transString : Str) : Str :=
  pyTranslate (buildTable transString 0 mapString []) arg

/-- `evaluate__normalize_space`:
```
arg = arg.replace('\t', ' ').replace('\n', ' ').replace('\r', ' ')
return ' '.join(x for x in arg.split(' ') if x)
``` -/
def normalizeSpace (arg : Str) : Str :=
  let arg := arg.map fun c => if c = 0x9 ∨ c = 0xA ∨ c = 0xD then 0x20 else c
  pyJoinSp ((pySplitSp arg).filter fun x => !x.isEmpty)

/-- `evaluate__concat`: `''.join(string_value(arg_k) ...)` on string arguments -/
def concat (args : List Str) : Str := args.foldr (· ++ ·) []

/-- `evaluate__string_length`: `len(arg)` -/
def stringLength (arg : Str) : Nat := arg.length

/-! ## xpath2/_xpath2_functions.py, collations.py, helpers.py -/

/-- `helpers.is_xml_codepoint` -/
def isXmlCodepoint (cp : Int) : Bool :=
  (cp == 0x9 || cp == 0xA || cp == 0xD) ||
  (decide (0x20 ≤ cp) && decide (cp ≤ 0xD7FF)) ||
  (decide (0xE000 ≤ cp) && decide (cp ≤ 0xFFFD)) ||
  (decide (0x10000 ≤ cp) && decide (cp ≤ 0x10FFFF))

/-- `evaluate__codepoints_to_string` on a sequence of integers: the loop appends `chr(value)` or
raises FOCH0001 at the first invalid value -/
def codepointsToString : List Int → Except Err Str
  | [] => .ok []
  | value :: rest =>
    if isXmlCodepoint value then
      match codepointsToString rest with
      | .ok r => .ok (value.toNat :: r)
      | .error e => .error e
    else .error .FOCH0001

/-- `evaluate__string_to_codepoints`: `[ord(c) for c in arg] if arg else []` -/
def stringToCodepoints (arg : Str) : List Int :=
  if arg.isEmpty then [] else arg.map fun (c : Nat) => (c : Int)

/-- `collations.unicode_codepoint_strcoll` followed by the sign normalisation of
`evaluate__compare`:  `0 if s1 == s2 else -1 if s1 < s2 else 1` -/
def compare (comp1 comp2 : Str) : Int :=
  if comp1 = comp2 then 0 else if pyLt comp1 comp2 then -1 else 1

/-- `evaluate__codepoint_equal`:
```
elif len(comp1) != len(comp2): return False
else: return all(ord(c1) == ord(c2) for c1, c2 in zip(comp1, comp2))
``` -/
def codepointEqual (comp1 comp2 : Str) : Bool :=
  if comp1.length ≠ comp2.length then false
  else (comp1.zip comp2).all fun (c1, c2) => c1 == c2

/-- `evaluate__string_join`: `separator.join(items)` -/
def stringJoin (items : List Str) (separator : Str) : Str := pyJoin separator items

/-- `evaluate__upper_case`: CPython `str.upper()` maps every character through the full upper-case
mapping, context free; the table `up` is CPython's (parameter) -/
def upperCase (up : Nat → Str) (arg : Str) : Str := arg.flatMap up

/-- CPython `unicodeobject.c: handle_capital_sigma(kind, data, length, i)`:
```
for (j = i - 1; j >= 0; j--) { c = READ(j); if (!_PyUnicode_IsCaseIgnorable(c)) break; }
final_sigma = j >= 0 && _PyUnicode_IsCased(c);
if (final_sigma) {
    for (j = i + 1; j < length; j++) { c = READ(j); if (!_PyUnicode_IsCaseIgnorable(c)) break; }
    final_sigma = j == length || !_PyUnicode_IsCased(c);
}
return final_sigma ? 0x3C2 : 0x3C3;
```
`revBefore` = `data[i-1], data[i-2], …, data[0]`, `after` = `data[i+1:]`. -/
def handleCapitalSigma (cased ign : Nat → Bool) (revBefore after : Str) : Nat :=
  let finalSigma :=
    match revBefore.find? (fun c => !ign c) with
    | none => false
    | some c =>
      cased c &&
        match after.find? (fun c => !ign c) with
        | none => true
        | some c' => !cased c'
  if finalSigma then 0x3C2 else 0x3C3

/-- CPython `do_lower` / `lower_ucs4`: `c == 0x3A3 ? handle_capital_sigma(…) :
_PyUnicode_ToLowerFull(c)` for `i = 0 … length-1` -/
def lowerAux (lo : Nat → Str) (cased ign : Nat → Bool) : Str → Str → Str
  | _, [] => []
  | revBefore, c :: cs =>
    (if c = 0x3A3 then [handleCapitalSigma cased ign revBefore cs] else lo c) ++
      lowerAux lo cased ign (c :: revBefore) cs

/-- `evaluate__lower_case`: CPython `str.lower()`; the tables `lo`, `cased`, `ign` are CPython's
(parameters) -/
def lowerCase (lo : Nat → Str) (cased ign : Nat → Bool) (arg : Str) : Str :=
  lowerAux lo cased ign [] arg

/-! ### URI escaping: `urllib.parse.quote(string, safe)` -/

/-- CPython: `str.encode('utf-8', 'strict')`, one code point (surrogates raise
UnicodeEncodeError) -/
def utf8Char (c : Nat) : Option (List Nat) :=
  if c < 0x80 then some [c]
  else if c < 0x800 then some [0xC0 ||| (c >>> 6), 0x80 ||| (c &&& 0x3F)]
  else if 0xD800 ≤ c ∧ c ≤ 0xDFFF then none
  else if c < 0x10000 then
    some [0xE0 ||| (c >>> 12), 0x80 ||| ((c >>> 6) &&& 0x3F), 0x80 ||| (c &&& 0x3F)]
  else if c < 0x110000 then
    some [0xF0 ||| (c >>> 18), 0x80 ||| ((c >>> 12) &&& 0x3F), 0x80 ||| ((c >>> 6) &&& 0x3F),
      0x80 ||| (c &&& 0x3F)]
  else none

/-- the whole string; `none` = UnicodeEncodeError -/
def utf8 : Str → Option (List Nat)
  | [] => some []
  | c :: cs =>
    match utf8Char c, utf8 cs with
    | some b, some bs => some (b ++ bs)
    | _, _ => none

/-- `urllib.parse._ALWAYS_SAFE`: ASCII letters, digits and `_.-~` -/
def alwaysSafe (b : Nat) : Bool :=
  (0x41 ≤ b && b ≤ 0x5A) || (0x61 ≤ b && b ≤ 0x7A) || (0x30 ≤ b && b ≤ 0x39) ||
  b == 0x5F || b == 0x2E || b == 0x2D || b == 0x7E

def hexUpper (n : Nat) : Nat := if n < 10 then 0x30 + n else 0x37 + n   -- '%02X' digits

/-- `urllib.parse._byte_quoter_factory(safe)`: `chr(b) if b in safe else '%{:02X}'.format(b)` -/
def quoteByte (safe : List Nat) (b : Nat) : Str :=
  if alwaysSafe b || safe.contains b then [b] else [0x25, hexUpper (b / 16), hexUpper (b % 16)]

/-- `urllib.parse.quote(string, safe=safe)` for `str` input and ASCII `safe` -/
def quote (safe : List Nat) (string : Str) : Except Err Str :=
  match utf8 string with
  | none => .error .encode
  | some bs => .ok (bs.flatMap (quoteByte safe))

/-- `evaluate__encode_for_uri`: `quote(uri_part, safe='~')` -/
def encodeForUri (s : Str) : Except Err Str := quote [0x7E] s

/-- `evaluate__iri_to_uri`: `quote(iri, safe='-_.!~*\'()#;/?:@&=+$,[]%')` -/
def iriSafe : List Nat :=
  [0x2D, 0x5F, 0x2E, 0x21, 0x7E, 0x2A, 0x27, 0x28, 0x29, 0x23, 0x3B, 0x2F, 0x3F, 0x3A, 0x40, 0x26,
   0x3D, 0x2B, 0x24, 0x2C, 0x5B, 0x5D, 0x25]
def iriToUri (s : Str) : Except Err Str := quote iriSafe s

/-- `evaluate__escape_html_uri`: `quote(uri, safe=''.join(chr(cp) for cp in range(32, 127)))` -/
def escapeHtmlUri (s : Str) : Except Err Str := quote (List.range' 32 95) s

/-! ## Argument handling: `XPathFunction.get_argument` on a string or the empty sequence -/

/-- `self.get_argument(context, index, default='', cls=str)` -/
def argDefault (arg : Option Str) : Str :=
  match arg with
  | none => []        -- the default
  | some s => s

/-- `evaluate__compare` / `evaluate__codepoint_equal`:
`if comp1 is None or comp2 is None: return []` -/
def noneIfEitherNone {α : Type} (f : Str → Str → α) (comp1 comp2 : Option Str) : Option α :=
  match comp1, comp2 with
  | some a, some b => some (f a b)
  | _, _ => none

/-- `self.get_argument(context, index, default=default, cls=str)` -/
def getArgument (default arg : Option Str) : Option Str :=
  match arg with
  | none => default
  | some s => some s

/-- `evaluate__translate` with its argument checks (`compat` = `self.parser.compatibility_mode`,
true for XPath1Parser):
```
arg = self.get_argument(context, default='', cls=str)
default = '' if self.parser.compatibility_mode else None
map_string = self.get_argument(context, index=1, default=default, cls=str)
if map_string is None: raise self.error('XPTY0004', ...)
trans_string = self.get_argument(context, index=2, default=default, cls=str)
if trans_string is None: raise self.error('XPTY0004', ...)
``` -/
def fnTranslate (compat : Bool) (arg mapString transString : Option Str) :
    Except FOStrings.TypeErr Str :=
  let default : Option Str := if compat then some [] else none
  match getArgument default mapString with
  | none => .error .XPTY0004
  | some m =>
    match getArgument default transString with
    | none => .error .XPTY0004
    | some t => .ok (translate (argDefault arg) m t)

/-- `evaluate__string_join`: `separator = self.get_argument(context, 1, required=True, cls=str)` -/
def fnStringJoin (items : List Str) (separator : Option Str) : Except FOStrings.TypeErr Str :=
  match separator with
  | none => .error .XPTY0004
  | some sep => .ok (stringJoin items sep)

/-! ## collations.py: `CollationManager` for the two collations defined on code points
(`UNICODE_CODEPOINT_COLLATION`, the default, and `HTML_ASCII_CASE_INSENSITIVE_COLLATION`);
the 2.0+ functions `contains`, `starts-with`, `ends-with`, `substring-before/after`, `compare` call
`manager.contains/startswith/endswith/find/strcoll`. -/

open EPV.FOStrings (Collation)

/-- `s.translate(_ASCII_LOWER)` with `_ASCII_LOWER = {cp: cp + 32 for cp in range(65, 91)}` -/
def asciiLower (s : Str) : Str := s.map fun cp => if 65 ≤ cp ∧ cp < 91 then cp + 32 else cp

/-- `manager.strxfrm`: `unicode_codepoint_strxfrm` (identity) / `html_ascii_strxfrm` -/
def strxfrm : Collation → Str → Str
  | .codepoint, s => s
  | .htmlAscii, s => asciiLower s

/-- `manager.strcoll` (`unicode_codepoint_strcoll` / `html_ascii_strcoll`) with the sign
normalisation of `evaluate__compare` -/
def compareC : Collation → Str → Str → Int
  | .codepoint, s1, s2 => compare s1 s2
  | .htmlAscii, s1, s2 => compare (asciiLower s1) (asciiLower s2)

/-- `CollationManager.contains`: `self.strxfrm(b) in self.strxfrm(a)` -/
def containsC (col : Collation) (a b : Str) : Bool := pyIn (strxfrm col b) (strxfrm col a)

/-- `CollationManager.find`: `self.strxfrm(a).find(self.strxfrm(b))` -/
def findC (col : Collation) (a b : Str) : Option Nat := pyFind (strxfrm col b) (strxfrm col a)

/-- `CollationManager.startswith` -/
def startsWithC (col : Collation) (a b : Str) : Bool := pyStartsWith (strxfrm col a) (strxfrm col b)

/-- `CollationManager.endswith` -/
def endsWithC (col : Collation) (a b : Str) : Bool := pyEndsWith (strxfrm col a) (strxfrm col b)

/-- `evaluate__substring_functions` (2.0+), symbol `substring-before`:
`index = manager.find(arg1, arg2)` … `return arg1[:index]` -/
def substringBeforeC (col : Collation) (arg1 arg2 : Str) : Str :=
  match findC col arg1 arg2 with
  | none => []
  | some index => arg1.take index

/-- symbol `substring-after`: `return arg1[index + len(arg2):]` -/
def substringAfterC (col : Collation) (arg1 arg2 : Str) : Str :=
  match findC col arg1 arg2 with
  | none => []
  | some index => arg1.drop (index + arg2.length)

/-! ## xpath31/_xpath31_functions.py: `evaluate__contains_token` (after fix F09h) -/

/-- CPython: `s.strip(' \t\n\r')` -/
def pyStripWs (s : Str) : Str :=
  ((s.dropWhile FOStrings.isWs).reverse.dropWhile FOStrings.isWs).reverse

/-- CPython: `re.split('[ \t\n\r]+', s)` — split at every maximal run of the four characters; a run
at either end leaves an empty string there -/
def reSplitWs : Str → List Str
  | [] => [[]]
  | [c] => if FOStrings.isWs c then [[], []] else [[c]]
  | c :: d :: cs =>
    if FOStrings.isWs c then
      (if FOStrings.isWs d then reSplitWs (d :: cs) else [] :: reSplitWs (d :: cs))
    else
      match reSplitWs (d :: cs) with
      | [] => [[c]]
      | w :: ws => (c :: w) :: ws

/-- `CollationManager.eq` on two strings: `self.strcoll(a, b) == 0` -/
def eqC (col : Collation) (a b : Str) : Bool := compareC col a b == 0

/-- `evaluate__contains_token`:
```
token_string = token_string.strip(' \t\n\r')
for input_string in self[0].select(context):
    if any(x and manager.eq(token_string, x) for x in re.split('[ \t\n\r]+', input_string)):
        return True
else: return False
``` -/
def containsToken (col : Collation) (input : List Str) (tokenString : Str) : Bool :=
  let tokenString := pyStripWs tokenString
  input.any fun inputString =>
    (reSplitWs inputString).any fun x => !x.isEmpty && eqC col tokenString x

/-! ## xpath_tokens/base.py: `XPathToken.string_value` of booleans and numbers
(the conversion applied by `concat`, `string()` and — for the XPath 1.0 parser — by `get_argument(…,
cls=str)` to every non-string argument of the string functions) -/

open EPV.FOStrings (NumArg digitChars natDigits zeros)

/-- CPython: `str.rstrip(ch)` for a single character -/
def pyRstrip (ch : Nat) (s : Str) : Str := (s.reverse.dropWhile (· == ch)).reverse

/-- the positional layout shared by `float.__repr__` and `Decimal.__format__(…, 'f')`:
integer part and fractional part of the digit string `ds` with the point after `dot` digits -/
def positional (ds : List Nat) (dot : Int) : List Nat × List Nat :=
  if dot ≤ 0 then ([0], zeros (-dot).toNat ++ ds)
  else if dot ≥ ds.length then (ds ++ zeros (dot - ds.length).toNat, [])
  else (ds.take dot.toNat, ds.drop dot.toNat)

/-- CPython `float_repr` → `format_float_short(x, 'r', 0, Py_DTSF_ADD_DOT_0)` on the shortest digit
string `digits` (from `_Py_dg_dtoa` mode 0) with decimal point position `decpt`:
exponent notation iff `decpt <= -4 or decpt > 16`, two exponent digits at least, `.0` appended to an
integer in positional notation. -/
def pyFloatRepr (neg : Bool) (digits : List Nat) (decpt : Int) : Str :=
  let sign : Str := if neg then [0x2D] else []
  if decpt ≤ -4 ∨ decpt > 16 then
    let mant : Str :=
      match digits with
      | [] => []
      | [d] => digitChars [d]
      | d :: ds => digitChars [d] ++ [0x2E] ++ digitChars ds
    let e := decpt - 1
    let ed := natDigits e.natAbs
    let ed := if ed.length < 2 then 0 :: ed else ed
    sign ++ mant ++ [0x65] ++ [if e < 0 then 0x2D else 0x2B] ++ digitChars ed
  else
    let (ip, fp) := positional digits decpt
    sign ++ digitChars ip ++ [0x2E] ++ digitChars (if fp.isEmpty then [0] else fp)

/-- CPython `Decimal.__format__(self, 'f')` for a finite value with coefficient digits `ds` (`self._int`)
("zeros with a positive exponent can't be represented in fixed point; rescale them to 0e0") -/
def pyDecimalF (neg : Bool) (ds : List Nat) (exp : Int) : Str :=
  let exp := if ds.all (· == 0) ∧ exp > 0 then 0 else exp
  let (ip, fp) := positional ds (ds.length + exp)
  (if neg then [0x2D] else []) ++ digitChars ip ++ (if fp.isEmpty then [] else 0x2E :: digitChars fp)

/-- `XPathToken.string_value(obj)` for `bool`, `int`, `Decimal`, `float`:
```
elif isinstance(obj, bool): return 'true' if obj else 'false'
elif isinstance(obj, Decimal):
    value = format(obj, 'f')
    if '.' in value: value = value.rstrip('0').rstrip('.')
    return '0' if value == '-0' else value
elif isinstance(obj, float):
    if math.isnan(obj): return 'NaN'
    elif math.isinf(obj): return str(obj).upper()
    value = str(obj)
    if '.' in value and 'e' not in value: value = value.rstrip('0').rstrip('.')
    if '+' in value: value = value.replace('+', '')
    if 'e' in value: return value.upper()
    return value
return str(obj)
``` -/
def stringValue : NumArg → Str
  | .bool true => [116, 114, 117, 101]
  | .bool false => [102, 97, 108, 115, 101]
  | .int v => (if v < 0 then [0x2D] else []) ++ digitChars (natDigits v.natAbs)      -- str(int)
  | .dec neg digits exp =>
    let value := pyDecimalF neg digits exp
    let value := if value.contains 0x2E then pyRstrip 0x2E (pyRstrip 0x30 value) else value
    if value = [0x2D, 0x30] then [0x30] else value
  | .fnan => [78, 97, 78]
  | .finf false => [73, 78, 70]             -- 'inf'.upper()
  | .finf true => [0x2D, 73, 78, 70]
  | .flt neg digits decpt =>
    let value := pyFloatRepr neg digits decpt
    let value := if value.contains 0x2E && !value.contains 0x65 then pyRstrip 0x2E (pyRstrip 0x30 value) else value
    let value := value.filter (· != 0x2B)                                   -- replace('+', '')
    if value.contains 0x65 then value.map fun c => if c = 0x65 then 0x45 else c    -- upper(): only 'e' is a letter
    else value

/-- Trigger predicate of known finding F09g (XPath 1.0 parser only): the float is infinite, negative
zero, or CPython prints it in exponent notation (`decpt <= -4 or decpt > 16`, i.e. 0 < |x| < 1e-4 or
|x| >= 1e16) — the cases where `string_value` keeps the XPath 2.0 / Python text (`INF`, `-0`, `1E16`)
although XPath 1.0 prescribes `Infinity`, `0` and the decimal form without exponent. -/
def xp1Trigger : NumArg → Bool
  | .finf _ => true
  | .flt neg digits decpt => (neg && digits.all (· == 0)) || decide (decpt ≤ -4) || decide (decpt > 16)
  | _ => false

/-! ## case tables as data (regenerated from the live CPython into `EPV/Gen/C09Case.lean`) -/

/-- a mapping table lists only the code points whose mapping differs from the identity -/
def lookupNat (c : Nat) : List (Nat × Str) → Option Str
  | [] => none
  | (k, v) :: es =>
    match Nat.beq k c with       -- `Nat.beq`: evaluated natively by the kernel (`decide +kernel` over the tables)
    | true => some v
    | false => lookupNat c es

def tableFun (t : List (Nat × Str)) (c : Nat) : Str :=
  match lookupNat c t with
  | some v => v
  | none => [c]

/-- membership in a list of inclusive code point ranges -/
def inRanges (rs : List (Nat × Nat)) (c : Nat) : Bool := rs.any fun r => r.1 ≤ c && c ≤ r.2

/-! ## `evaluate__substring`: how the position arguments arrive -/

/-- a position argument of `substring`: a number; a node or `xs:untypedAtomic` value (converted by
`validated_value(…, NumericProxy)`: `number()` in XPath 1.0, cast to `xs:double` in 2.0+) whose
numeric value is `n`; or an `xs:string` whose `number()` value would be `n` -/
inductive PosArg where
  | num (n : Num)
  | untyped (n : Num)
  | string (n : Num)

/-- the value after
```
start = self.get_argument(context, index=1, required=True)
if isinstance(start, (XPathNode, UntypedAtomic)):
    start = self.validated_value(start, NumericProxy, index=1)
if math.isinf(start) …            # math.isnan / math.isinf of a str raise TypeError
except TypeError: raise self.error('FORG0006', …)
``` -/
def posValue : PosArg → Except Unit Num
  | .num n => .ok n
  | .untyped n => .ok n
  | .string _ => .error ()      -- FORG0006

inductive SubErr where
  | FORG0006
  deriving DecidableEq, Repr

def fnSubstring2 (item : Option Str) (start : PosArg) : Except SubErr Str :=
  match posValue start with
  | .error _ => .error .FORG0006
  | .ok a => .ok (substring2 (argDefault item) a)

def fnSubstring3 (item : Option Str) (start length : PosArg) : Except SubErr Str :=
  match posValue start with
  | .error _ => .error .FORG0006
  | .ok a =>
    -- the length argument is only read when the start is a finite number
    match a with
    | .nan => .ok [] | .pinf => .ok [] | .ninf => .ok []
    | .fin _ _ =>
      match posValue length with
      | .error _ => .error .FORG0006
      | .ok b => .ok (substring3 (argDefault item) a b)

/-- Trigger predicate of known finding F09j (XPath 1.0 parser): a position argument is a string -/
def PosArg.isString : PosArg → Bool
  | .string _ => true
  | _ => false

def PosArg.value : PosArg → Num
  | .num n => n | .untyped n => n | .string n => n

/-! ## the collation of a call: explicit argument or the parser's `default_collation`
```
if len(self) < 3: collation = self.parser.default_collation
else: collation = self.get_argument(context, 2, required=True, cls=str)
with CollationManager(collation, self) as manager: …
```
(the same lines in `evaluate__contains`, `evaluate__starts_with`, `evaluate__ends_with`,
`evaluate__substring_functions`, `evaluate__compare`, `evaluate__contains_token`) -/

def callCollation (parserDefault : Collation) (thirdArg : Option Collation) : Collation :=
  match thirdArg with
  | none => parserDefault          -- len(self) < 3
  | some c => c

def fnContains (d : Collation) (c : Option Collation) (a b : Option Str) : Bool :=
  containsC (callCollation d c) (argDefault a) (argDefault b)
def fnStartsWith (d : Collation) (c : Option Collation) (a b : Option Str) : Bool :=
  startsWithC (callCollation d c) (argDefault a) (argDefault b)
def fnEndsWith (d : Collation) (c : Option Collation) (a b : Option Str) : Bool :=
  endsWithC (callCollation d c) (argDefault a) (argDefault b)
def fnSubstringBefore (d : Collation) (c : Option Collation) (a b : Option Str) : Str :=
  substringBeforeC (callCollation d c) (argDefault a) (argDefault b)
def fnSubstringAfter (d : Collation) (c : Option Collation) (a b : Option Str) : Str :=
  substringAfterC (callCollation d c) (argDefault a) (argDefault b)
def fnCompare (d : Collation) (c : Option Collation) (a b : Option Str) : Option Int :=
  noneIfEitherNone (compareC (callCollation d c)) a b

/-! ## histories: one parsed expression evaluated several times
The evaluate methods modelled above keep no state between calls (no attribute of the token is
written), so the model of a history of calls is the list of the single-call results.  `evalHistory`
threads an explicit (empty) state to make the statement non-vacuous for the harness: the state type
is `Unit`. -/

def evalHistory {α β : Type} (f : α → β) : Unit → List α → Unit × List β
  | st, [] => (st, [])
  | st, a :: as =>
    let r := f a                   -- the call reads its arguments only
    let (st', rs) := evalHistory f st as
    (st', r :: rs)

/-! ## `evaluate__codepoints_to_string` on arbitrary items (after the three fix-c09-3 commits)
```
for value in self[0].atomization(context):
    if isinstance(value, UntypedAtomic):
        try: value = int(value)
        except ValueError as err: raise self.error('FORG0001', err) from None
    if not isinstance(value, int) or isinstance(value, bool):
        if isinstance(value, (str, bool)): raise self.error('XPTY0004', msg)
        raise self.error('FORG0006', msg)
    elif is_xml_codepoint(value): result.append(chr(value))
    else: raise self.error('FOCH0001', msg)
``` -/

open EPV.FOStrings (CpItem CpErr)

def codepointsToStringItems : List CpItem → Except CpErr Str
  | [] => .ok []
  | value :: rest =>
    let converted : Except CpErr Int :=
      match value with
      | .untyped (some v) => .ok v
      | .untyped none => .error .FORG0001
      | .int v => .ok v
      | .bool => .error .XPTY0004
      | .str => .error .XPTY0004
      | .other => .error .FORG0006
    match converted with
    | .error e => .error e
    | .ok v =>
      if isXmlCodepoint v then
        match codepointsToStringItems rest with
        | .ok r => .ok (v.toNat :: r)
        | .error e => .error e
      else .error .FOCH0001

/-- Trigger predicate of known finding F09k: the first item that is not acceptable is a non-integer
numeric value (the code answers FORG0006, pinned by the suite; F&O: XPTY0004) -/
def cpItemsTrigger : List CpItem → Bool
  | [] => false
  | .other :: _ => true
  | .int v :: rest => isXmlCodepoint v && cpItemsTrigger rest
  | .untyped (some v) :: rest => isXmlCodepoint v && cpItemsTrigger rest
  | _ :: _ => false

/-! ## xpath_tokens/base.py: `XPathToken.compat_string_value` (fix-c09-4), the conversion used by the
callers reachable from the XPath 1.0 parser (`string`, `concat`, `string-length`, `normalize-space`,
and `validated_value(…, cls=str)` in compatibility mode)
```
if isinstance(obj, float) and self.parser.version == '1.0' and not math.isnan(obj):
    if math.isinf(obj): return 'Infinity' if obj > 0 else '-Infinity'
    value = format(Decimal(repr(obj)), 'f') if obj else '0'
    return value.rstrip('0').rstrip('.') if '.' in value else value
return self.string_value(obj)
``` -/

/-- CPython: `Decimal(repr(x))` for a finite non-zero float whose `repr` has the digits `digits` and
the decimal point position `decpt` — coefficient digits and exponent of the resulting Decimal:
`d.ddde±XX` → (digits, decpt − n); `ddd000.0` → (digits ++ zeros ++ [0], −1); `dd.ddd` and
`0.000ddd` → (digits, decpt − n) (leading zeros are not part of the coefficient). -/
def pyDecimalOfRepr (digits : List Nat) (decpt : Int) : List Nat × Int :=
  if decpt ≤ -4 ∨ decpt > 16 then (digits, decpt - digits.length)
  else if decpt ≥ digits.length then (digits ++ zeros (decpt - digits.length).toNat ++ [0], -1)
  else (digits, decpt - digits.length)

def compatStringValue (version10 : Bool) : NumArg → Str
  | .finf false => if version10 then [73, 110, 102, 105, 110, 105, 116, 121] else stringValue (.finf false)
  | .finf true => if version10 then [0x2D, 73, 110, 102, 105, 110, 105, 116, 121] else stringValue (.finf true)
  | .flt neg digits decpt =>
    if version10 then
      if digits.all (· == 0) then [0x30]                       -- `if obj else '0'`
      else
        let (c, e) := pyDecimalOfRepr digits decpt
        let value := pyDecimalF neg c e
        if value.contains 0x2E then pyRstrip 0x2E (pyRstrip 0x30 value) else value
    else stringValue (.flt neg digits decpt)
  | a => stringValue a

end EPV.Strings

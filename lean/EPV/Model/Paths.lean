/-
C01 — model of the step / predicate / path machinery:
  * `XPathAxis.select_with_focus` (xpath_tokens/axes.py:41-59) and `XPathToken.select_with_focus`
    (xpath_tokens/base.py:207-218): inner focus, reverse axes numbered from the far end
  * `select__predicate` (`[`, _xpath1_operators.py:405-421): numeric predicate ⇒ `position = n`,
    otherwise effective boolean value
  * `select__child_path` / `select__descendant_path` (`/`, `//`, _xpath1_operators.py:306-393)
  * name / kind tests (`iter_matching_nodes`, `AsteriskToken.select`, _xpath1_functions.py:39-104)
  * `.` `..` `@` and parenthesised expressions, `and` / `or` / `not` / comparisons of
    `position()` / `last()` / integer literals inside predicates.
Core Lean only.  The model mirrors the code with the `fix:` commits of branch fix-c01:
`/` and `//` sort their node results in document order after de-duplication.
-/
import EPV.Model.Axes
namespace EPV.XP

/-- node tests -/
inductive Test where
  | node | text | comment
  | pi (target : Option String)
  | any                              -- `*`
  | name (uri loc : String)          -- QName test, prefix already resolved (`{uri}local`)
  | nsAny (uri : String)             -- `p:*`
  deriving DecidableEq, Repr, Inhabited

inductive Cmp where
  | eq | ne | lt | le | gt | ge
  deriving DecidableEq, Repr, Inhabited

/-- The expression fragment.  One untyped syntax tree (as the token tree of the parser):
path-valued, number-valued and boolean-valued forms. -/
inductive Expr where
  | step (ax : Axis) (t : Test) (abbr : Bool)   -- `axis::test`; abbr: `test` (child) / `@test`
  | ctxItem                          -- `.`
  | parentAbbr                       -- `..`
  | pred (e p : Expr)                -- `e[p]`
  | slash (l r : Expr)               -- `l/r`
  | dslash (l r : Expr)              -- `l//r`
  | rootOnly                         -- `/`
  | root (e : Expr)                  -- `/e`
  | droot (e : Expr)                 -- `//e`
  | paren (e : Expr)                 -- `(e)`
  | union (l r : Expr)               -- `l | r`
  | count (e : Expr)                 -- `count(e)`
  | num (k : Nat)                    -- integer literal (`0`, `00`, `3`, `100000000000000000000`)
  | lit (neg : Bool) (tenths : Nat)  -- other numeric literals: `-1`, `1.5`, `0.0`, `2.0` = ± tenths/10
  | position                         -- `position()`
  | last                             -- `last()`
  | cmp (op : Cmp) (l r : Expr)
  | and (l r : Expr)
  | or (l r : Expr)
  | not (e : Expr)
  deriving Repr, Inhabited

/-- dynamic context focus: `context.item`, `context.position`, `context.size` -/
structure Focus where
  item : Nat
  pos : Nat
  size : Nat
  deriving Repr, DecidableEq, Inhabited

inductive Val where
  | nodes (l : List Nat)
  | num (k : Nat)
  | dec (neg : Bool) (tenths : Nat)   -- ± tenths/10 (negative / non-integral literals)
  | bool (b : Bool)
  | err                              -- XPTY0019 / XPTY0004: outside the typed fragment
  deriving Repr, DecidableEq, Inhabited

/-! ### node tests -/

/-- principal node kind of an axis (`AsteriskToken.select`: `context.axis == 'attribute'`;
`iter_matching_nodes` after fix; the namespace axis matches prefixes itself) -/
def principal : Axis → Kind
  | .attribute => .attr
  | .namespace => .ns
  | _ => .elem

/-- does node `i`, reached through an axis with principal node kind `pk`, pass the test?
`node()`: `not isinstance(item, DocumentNode) or item is context.root` — the dummy document fails. -/
def matchTest (m : Mode) (a : Arr) (pk : Kind) (t : Test) (i : Nat) : Bool :=
  match t with
  | .node => !(isDummyDoc m i)
  | .text => kd a i == .text
  | .comment => kd a i == .comment
  | .pi none => kd a i == .pi
  | .pi (some tg) => kd a i == .pi && nameOf a i == tg
  | .any => kd a i == pk
  | .name u l => kd a i == pk && uriOf a i == u && nameOf a i == l
  | .nsAny u => kd a i == pk && uriOf a i == u

/-- one step: the axis method iterates its nodes and applies the test to each of them
(`for _ in context.iter_xxx(): yield from self[0].select(context)` with `context.axis` set, so that the
test selects the context item itself).  `abbr` only records the spelling (`x` / `child::x`, `@k` /
`attribute::k`): since fix F01i both spellings select the same nodes. -/
def evalStep (m : Mode) (a : Arr) (ax : Axis) (t : Test) (_abbr : Bool) (n : Nat) : List Nat :=
  (iterAxis m a ax n).filter (matchTest m a (principal ax) t)

/-! ### inner focus -/

/-- `for context.position, context.item in enumerate(results, start=1)` -/
def numberFrom (size : Nat) : Nat → List Nat → List Focus
  | _, [] => []
  | k, x :: xs => ⟨x, k, size⟩ :: numberFrom size (k + 1) xs

/-- forward numbering: `XPathToken.select_with_focus` -/
def focusFwd (l : List Nat) : List Focus := numberFrom l.length 1 l

/-- reverse numbering of `XPathAxis.select_with_focus`:
`context.size = context.position = len(results); for context.item in results: yield; position -= 1` -/
def countDown (size : Nat) : Nat → List Nat → List Focus
  | _, [] => []
  | k, x :: xs => ⟨x, k, size⟩ :: countDown size (k - 1) xs

def focusRev (l : List Nat) : List Focus := countDown l.length l.length l

/-- is the token an `XPathAxis` with `reverse_axis`? -/
def swfRev : Expr → Bool
  | .step ax _ _ => ax.isReverse
  | _ => false

/-- `token.select_with_focus(context)` applied to the already computed result list -/
def selectWithFocus (e : Expr) (l : List Nat) : List Focus :=
  if swfRev e then focusRev l else focusFwd l

/-- `select__predicate` after fix: `step = self[0]; while step.symbol == '[': step = step[0];
reverse = step is not self[0] and step.reverse_axis` -/
def innerStep : Expr → Expr
  | .pred e _ => innerStep e
  | e => e

def nestedRev (e : Expr) : Bool :=
  match e with
  | .pred e' _ => swfRev (innerStep e')
  | _ => false

/-- `context.position = context.size - context.position + 1` -/
def flipPos (f : Focus) : Focus := { f with pos := f.size - f.pos + 1 }

/-- the focus sequence a predicate `[p]` applied to `e` iterates over -/
def predFocus (e : Expr) (l : List Nat) : List Focus :=
  if nestedRev e then (selectWithFocus e l).map flipPos else selectWithFocus e l

/-! ### de-duplication and ordering of `/`, `//` -/

/-- the `items` seen-set: keep the first occurrence -/
def dedup : List Nat → List Nat → List Nat
  | _, [] => []
  | seen, x :: xs => if seen.contains x then dedup seen xs else x :: dedup (x :: seen) xs

/-- `sorted(..., key=node_position)`: modelled as insertion sort (CPython's sort is trusted to
return the sorted permutation; positions of distinct nodes are distinct) -/
def ins (x : Nat) : List Nat → List Nat
  | [] => [x]
  | y :: ys => if x ≤ y then x :: y :: ys else y :: ins x ys

def isort (l : List Nat) : List Nat := l.foldr ins []

def docOrder (l : List Nat) : List Nat := isort (dedup [] l)

/-- all operand results must be node lists (otherwise the real code yields atomic values:
outside the fragment) -/
def collect : List Val → Option (List Nat)
  | [] => some []
  | .nodes l :: vs => (collect vs).map (l ++ ·)
  | _ :: _ => none

/-! ### effective boolean value and predicate truth -/

/-- `boolean_value`: node sequence ⇒ non-empty, boolean ⇒ itself, number ⇒ non-zero -/
def ebv : Val → Option Bool
  | .nodes l => some (!l.isEmpty)
  | .bool b => some b
  | .num k => some (k != 0)
  | .dec _ t => some (t != 0)
  | .err => none

/-- truth of a predicate value for the focus: a single number is compared with the position -/
def keep (v : Val) (f : Focus) : Option Bool :=
  match v with
  | .num k => some (f.pos == k)
  | .dec neg t => some (!neg && f.pos * 10 == t)      -- `context.position == predicate[0]`
  | v => ebv v

/-- filter the focus sequence by the flags; `none` (error in some predicate evaluation) ⇒ `err` -/
def filterFlags : List Focus → List (Option Bool) → Option (List Nat)
  | f :: fs, some b :: bs => (filterFlags fs bs).map (fun r => if b then f.item :: r else r)
  | [], [] => some []
  | _, _ => none

def cmpNat : Cmp → Nat → Nat → Bool
  | .eq, x, y => x == y
  | .ne, x, y => x != y
  | .lt, x, y => decide (x < y)
  | .le, x, y => decide (x ≤ y)
  | .gt, x, y => decide (x > y)
  | .ge, x, y => decide (x ≥ y)

def ofOpt : Option (List Nat) → Val
  | some l => .nodes l
  | none => .err

/-! ### the evaluator: `token.select(context)` -/

def eval (m : Mode) (a : Arr) : Expr → Focus → Val
  | .step ax t ab, f => .nodes (evalStep m a ax t ab f.item)
  | .ctxItem, f => .nodes (iterSelf f.item)
  | .parentAbbr, f => .nodes (iterParent m a f.item)
  | .pred e p, f =>
    match eval m a e f with
    | .nodes l =>
      let foc := predFocus e l
      ofOpt (filterFlags foc (foc.map fun f' => keep (eval m a p f') f'))
    | _ => .err
  | .slash l r, f =>
    match eval m a l f with
    | .nodes ls =>
      let foc := selectWithFocus l ls
      match collect (foc.map fun f' => eval m a r f') with
      | some rs => .nodes (docOrder rs)
      | none => .err
    | _ => .err
  | .dslash l r, f =>
    match eval m a l f with
    | .nodes ls =>
      let foc := selectWithFocus l ls
      -- `for _ in context.iter_descendants():` changes the item only
      let foc2 := foc.flatMap fun f' =>
        (iterDescendants m a true f'.item).map fun d => { f' with item := d }
      match collect (foc2.map fun f' => eval m a r f') with
      | some rs => .nodes (docOrder rs)
      | none => .err
    | _ => .err
  | .rootOnly, _ => .nodes (if m == .doc then [0] else [])
  | .root e, f => eval m a e { f with item := 0 }
  | .droot e, f =>
    let foc := (iterDescendants m a true 0).map fun d => { f with item := d }
    match collect (foc.map fun f' => eval m a e f') with
    | some rs => .nodes (docOrder rs)
    | none => .err
  | .paren e, f => eval m a e f
  | .union l r, f =>
    -- `select__union_operator` (_xpath1_operators.py:252-266): both operands on `copy(context)`,
    -- `set(items)`, `sorted(results, key=node_position)`.  (An inner operand of a chain `a | b | c`
    -- is yielded in set order; it is consumed only by the enclosing union, which sorts.)
    match eval m a l f, eval m a r f with
    | .nodes x, .nodes y => .nodes (docOrder (x ++ y))
    | _, _ => .err
  | .count e, f =>
    -- `evaluate__count` (_xpath1_functions.py:130-132): `len([x for x in self[0].select(context)])`
    match eval m a e f with
    | .nodes l => .num l.length
    | _ => .err
  | .num k, _ => .num k
  | .lit neg t, _ => .dec neg t
  | .position, f => .num f.pos
  | .last, f => .num f.size
  | .cmp op l r, f =>
    match eval m a l f, eval m a r f with
    | .num x, .num y => .bool (cmpNat op x y)
    | _, _ => .err
  | .and l r, f =>
    match ebv (eval m a l f) with
    | some true => (match ebv (eval m a r f) with | some b => .bool b | none => .err)
    | some false => .bool false
    | none => .err
  | .or l r, f =>
    match ebv (eval m a l f) with
    | some false => (match ebv (eval m a r f) with | some b => .bool b | none => .err)
    | some true => .bool true
    | none => .err
  | .not e, f =>
    match ebv (eval m a e f) with
    | some b => .bool (!b)
    | none => .err

/-! ### typing of the fragment -/

inductive Ty where
  | path | num | bool | dec
  deriving DecidableEq, Repr

/-- the typed fragment: `ty e = some t` — path-valued operands of `/`, `//`, `[ ]`; numbers only
as literals / `position()` / `last()`; anything typed under `and` / `or` / `not` / `[ ]` -/
def ty : Expr → Option Ty
  | .step _ _ _ | .ctxItem | .parentAbbr | .rootOnly => some .path
  | .pred e p =>
    match ty e, ty p with
    | some .path, some _ => some .path
    | _, _ => none
  | .slash l r | .dslash l r =>
    match ty l, ty r with
    | some .path, some .path => some .path
    | _, _ => none
  | .root e | .droot e =>
    match ty e with
    | some .path => some .path
    | _ => none
  | .paren e => ty e
  | .union l r =>
    match ty l, ty r with
    | some .path, some .path => some .path
    | _, _ => none
  | .count e =>
    match ty e with
    | some .path => some .num
    | _ => none
  | .num _ | .position | .last => some .num
  | .lit _ _ => some .dec
  | .cmp _ l r =>
    match ty l, ty r with
    | some .num, some .num => some .bool
    | _, _ => none
  | .and l r | .or l r =>
    match ty l, ty r with
    | some _, some _ => some .bool
    | _, _ => none
  | .not e =>
    match ty e with
    | some _ => some .bool
    | none => none

def nodesOf : Val → List Nat
  | .nodes l => l
  | _ => []

end EPV.XP

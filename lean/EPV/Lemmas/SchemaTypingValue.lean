/-
Lemmas for C20, part 4: the datatype class of the atoms produced by the decoder model.
-/
import EPV.Spec.XsdTyping
namespace EPV.Xsd
open EPV.Xsd.Spec

/-- `value.__class__(s)` builds an instance of the prototype's class -/
theorem pyDecode_cls {b : B} {s : String} {a : Atom} (h : pyDecode b s = some a) :
    a.cls = classOf b := by
  cases b <;> simp only [pyDecode] at h <;> (repeat' split at h) <;>
    simp_all [classOf, B.isSpecial] <;> (try (subst h; rfl)) <;> (try (rw [← h])) <;>
    (try (obtain ⟨c, _, rfl⟩ := h; rfl))

theorem mapM_pyDecode_cls {b : B} : ∀ {ws : List String} {vs : List Atom},
    ws.mapM (pyDecode b) = some vs → ∀ a ∈ vs, a.cls = classOf b
  | [], vs, h => by simp at h; subst h; intro a ha; cases ha
  | w :: ws, vs, h => by
    simp only [List.mapM_cons] at h
    cases hw : pyDecode b w with
    | none => rw [hw] at h; simp at h
    | some v =>
      cases hr : ws.mapM (pyDecode b) with
      | none => rw [hw, hr] at h; simp at h
      | some r =>
        rw [hw, hr] at h
        simp at h
        subst h
        intro a ha
        cases ha with
        | head => exact pyDecode_cls hw
        | tail _ ha => exact mapM_pyDecode_cls hr a ha

theorem tryMember_cls {valid : SType → String → Bool} {o : Option SType} {b : B} {s : String}
    {vs : List Atom} (h : tryMember valid o b s = some vs) : ∀ a ∈ vs, a.cls = classOf b := by
  unfold tryMember at h
  cases o with
  | none =>
    simp only [Option.map_eq_some_iff] at h
    obtain ⟨v, hv, rfl⟩ := h
    intro a ha; simp at ha; subst ha; exact pyDecode_cls hv
  | some m =>
    simp only at h
    split at h
    · cases h
    · split at h
      · exact mapM_pyDecode_cls h
      · simp only [Option.map_eq_some_iff] at h
        obtain ⟨v, hv, rfl⟩ := h
        intro a ha; simp at ha; subst ha; exact pyDecode_cls hv

theorem firstMember_cls {valid : SType → String → Bool} : ∀ {ps : List (Option SType × B)} {s : String}
    {vs : List Atom}, firstMember valid ps s = some vs → ∀ a ∈ vs, ∃ b ∈ ps.map (·.2), a.cls = classOf b
  | [], _, _, h => by simp [firstMember] at h
  | (o, b) :: ps, s, vs, h => by
    simp only [firstMember] at h
    cases hd : tryMember valid o b s with
    | some v =>
      rw [hd] at h; cases h
      intro a ha
      exact ⟨b, by simp, tryMember_cls hd a ha⟩
    | none =>
      rw [hd] at h
      intro a ha
      obtain ⟨b', hb', hc⟩ := firstMember_cls h a ha
      exact ⟨b', by simp only [List.map_cons, List.mem_cons]; exact Or.inr hb', hc⟩

theorem decodeAll_cls {valid : SType → String → Bool} : ∀ {ps : List (Option SType × B)} {items : List String}
    {vs : List Atom}, decodeAll valid ps items = some vs → ∀ a ∈ vs, ∃ b ∈ ps.map (·.2), a.cls = classOf b
  | _, [], vs, h => by simp [decodeAll] at h; subst h; intro a ha; cases ha
  | ps, w :: ws, vs, h => by
    simp only [decodeAll] at h
    cases hw : firstMember valid ps w with
    | none => rw [hw] at h; simp at h
    | some v =>
      cases hr : decodeAll valid ps ws with
      | none => rw [hw, hr] at h; simp at h
      | some r =>
        rw [hw, hr] at h
        simp only [Option.some.injEq] at h
        subst h
        intro a ha
        simp only [List.mem_append] at ha
        rcases ha with ha | ha
        · exact firstMember_cls hw a ha
        · exact decodeAll_cls hr a ha

/-- every atom of a decoded sequence is an instance of the class of one of the prototypes — whatever
the schema processor answers to `is_valid` -/
theorem atomicSequence_cls {valid : SType → String → Bool} {t : SType} {text : String} {vs : List Atom}
    (h : atomicSequence valid t text = .ok vs) : ∀ a ∈ vs, ∃ b ∈ t.protos, a.cls = classOf b := by
  unfold atomicSequence atomicLoop at h
  generalize (if t.isList = true then splitWs text else [text]) = items at h
  unfold SType.protos
  cases hp : t.memberProtos with
  | nil =>
    rw [hp] at h
    simp only at h
    cases hie : items.isEmpty with
    | true => simp [hie] at h; subst h; intro a ha; cases ha
    | false => simp [hie] at h
  | cons ob obs =>
    rw [hp] at h
    simp only at h
    cases hd : decodeAll valid (ob :: obs) items with
    | none => rw [hd] at h; cases h
    | some ws =>
      rw [hd] at h
      cases h
      exact decodeAll_cls hd

/-- the builtin at the bottom of a chain of restrictions (`none` for lists and unions) -/
def atomicBase? : SType → Option B
  | .builtin b => some b
  | .restr _ base _ => atomicBase? base
  | .list _ _ => none
  | .union _ _ => none

theorem iterMembers_atomic : ∀ {t : SType} {b : B}, atomicBase? t = some b →
    SType.iterMembers 1 t = [(none, b)]
  | .builtin b', b, h => by simp [atomicBase?] at h; subst h; simp [SType.iterMembers]
  | .restr n base f, b, h => by
    simp only [atomicBase?] at h; simp only [SType.iterMembers]; exact iterMembers_atomic h
  | .list n i, b, h => by simp [atomicBase?] at h
  | .union n ms, b, h => by simp [atomicBase?] at h

/-- prototypes of an atomic type (fix F20c): the class of its nearest builtin, outside any union -/
theorem memberProtos_atomic {t : SType} {b : B} (h : atomicBase? t = some b) : t.memberProtos = [(none, b)] := by
  cases t with
  | builtin b' => simp [atomicBase?] at h; subst h; rfl
  | restr n base f => simp only [SType.memberProtos]; exact iterMembers_atomic h
  | list n i => simp [atomicBase?] at h
  | union n ms => simp [atomicBase?] at h

theorem protos_atomic {t : SType} {b : B} (h : atomicBase? t = some b) : t.protos = [b] := by
  simp [SType.protos, memberProtos_atomic h]

theorem memberProtos_list_atomic {n : Option String} {item : SType} {b : B} (h : atomicBase? item = some b) :
    (SType.list n item).memberProtos = [(none, b)] := by
  simp only [SType.memberProtos, SType.iterMembers]
  exact iterMembers_atomic h

theorem protos_list_atomic {n : Option String} {item : SType} {b : B} (h : atomicBase? item = some b) :
    (SType.list n item).protos = [b] := by
  simp [SType.protos, memberProtos_list_atomic h]

theorem nearestB_atomic : ∀ {t : SType} {b : B}, atomicBase? t = some b → nearestB t = b
  | .builtin b', b, h => by simp [atomicBase?] at h; subst h; rfl
  | .restr n base f, b, h => by
    simp only [atomicBase?] at h; simp only [nearestB]; exact nearestB_atomic h
  | .list n i, b, h => by simp [atomicBase?] at h
  | .union n ms, b, h => by simp [atomicBase?] at h

theorem derives_primitive (b : B) : b.derives b.primitive = true := by cases b <;> decide
theorem derives_refl (b : B) : b.derives b = true := by cases b <;> decide
theorem primitive_idem (b : B) : b.primitive.primitive = b.primitive := by cases b <;> decide
theorem mem_all (b : B) : b ∈ B.all := by cases b <;> decide

theorem derives_trans_table :
    (B.all.all fun a => B.all.all fun b => B.all.all fun c =>
      !(a.derives b && b.derives c) || a.derives c) = true := by decide +kernel

theorem derives_trans (a b c : B) (h1 : a.derives b = true) (h2 : b.derives c = true) :
    a.derives c = true := by
  have h := derives_trans_table
  simp only [List.all_eq_true] at h
  have := h a (mem_all a) b (mem_all b) c (mem_all c)
  simp [h1, h2] at this
  exact this

end EPV.Xsd

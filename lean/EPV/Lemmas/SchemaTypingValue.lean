/-
Lemmas for C20, part 4: the datatype class of the atoms produced by the decoder model.
-/
import EPV.Spec.XsdTyping
namespace EPV.Xsd
open EPV.Xsd.Spec

/-- `value.__class__(s)` builds an instance of the prototype's class -/
theorem pyDecode_cls {b : B} {s : String} {a : Atom} (h : pyDecode b s = some a) :
    a.cls = classOf b := by
  cases b <;> simp only [pyDecode] at h <;> (repeat' split at h) <;>
    simp_all [classOf, B.isSpecial] <;> (try (subst h; rfl)) <;> (try (rw [← h])) <;>
    (try (obtain ⟨c, _, rfl⟩ := h; rfl))

theorem firstProto_cls : ∀ {bs : List B} {s : String} {a : Atom}, firstProto bs s = some a →
    ∃ b ∈ bs, a.cls = classOf b
  | [], _, _, h => by simp [firstProto] at h
  | b :: bs, s, a, h => by
    simp only [firstProto] at h
    cases hd : pyDecode b s with
    | some v =>
      rw [hd] at h; cases h
      exact ⟨b, List.mem_cons_self, pyDecode_cls hd⟩
    | none =>
      rw [hd] at h
      obtain ⟨b', hb', hc⟩ := firstProto_cls h
      exact ⟨b', List.mem_cons_of_mem _ hb', hc⟩

theorem decodeAll_cls : ∀ {bs : List B} {items : List String} {vs : List Atom},
    decodeAll bs items = some vs → ∀ a ∈ vs, ∃ b ∈ bs, a.cls = classOf b
  | _, [], vs, h => by simp [decodeAll] at h; subst h; intro a ha; cases ha
  | bs, w :: ws, vs, h => by
    simp only [decodeAll] at h
    cases hw : firstProto bs w with
    | none => rw [hw] at h; simp at h
    | some v =>
      cases hr : decodeAll bs ws with
      | none => rw [hw, hr] at h; simp at h
      | some r =>
        rw [hw, hr] at h
        simp only [Option.some.injEq] at h
        subst h
        intro a ha
        cases ha with
        | head => exact firstProto_cls hw
        | tail _ ha => exact decodeAll_cls hr a ha

/-- every atom of a decoded sequence is an instance of the class of one of the prototypes -/
theorem atomicSequence_cls {t : SType} {text : String} {vs : List Atom}
    (h : atomicSequence t text = .ok vs) : ∀ a ∈ vs, ∃ b ∈ t.protos, a.cls = classOf b := by
  unfold atomicSequence atomicLoop at h
  generalize (if t.isList = true then splitWs text else [text]) = items at h
  cases hp : t.protos with
  | nil =>
    rw [hp] at h
    simp only at h
    cases hie : items.isEmpty with
    | true => simp [hie] at h; subst h; intro a ha; cases ha
    | false => simp [hie] at h
  | cons b bs =>
    rw [hp] at h
    simp only at h
    cases hd : decodeAll (b :: bs) items with
    | none => rw [hd] at h; cases h
    | some ws =>
      rw [hd] at h
      cases h
      exact decodeAll_cls hd

/-- the builtin at the bottom of a chain of restrictions (`none` for lists and unions) -/
def atomicBase? : SType → Option B
  | .builtin b => some b
  | .restr _ base _ => atomicBase? base
  | .list _ _ => none
  | .union _ _ => none

theorem iterValues_atomic : ∀ {t : SType} {b : B}, atomicBase? t = some b → SType.iterValues 1 t = [b]
  | .builtin b', b, h => by simp [atomicBase?] at h; subst h; simp [SType.iterValues]
  | .restr n base f, b, h => by
    simp only [atomicBase?] at h; simp only [SType.iterValues]; exact iterValues_atomic h
  | .list n i, b, h => by simp [atomicBase?] at h
  | .union n ms, b, h => by simp [atomicBase?] at h

/-- prototypes of an atomic type (fix F20c): the class of its nearest builtin -/
theorem protos_atomic {t : SType} {b : B} (h : atomicBase? t = some b) : t.protos = [b] := by
  cases t with
  | builtin b' => simp [atomicBase?] at h; subst h; rfl
  | restr n base f => simp only [SType.protos]; exact iterValues_atomic h
  | list n i => simp [atomicBase?] at h
  | union n ms => simp [atomicBase?] at h

theorem protos_list_atomic {n : Option String} {item : SType} {b : B} (h : atomicBase? item = some b) :
    (SType.list n item).protos = [b] := by
  simp only [SType.protos, SType.iterValues, beq_self_eq_true, if_true]
  exact iterValues_atomic h

theorem nearestB_atomic : ∀ {t : SType} {b : B}, atomicBase? t = some b → nearestB t = b
  | .builtin b', b, h => by simp [atomicBase?] at h; subst h; rfl
  | .restr n base f, b, h => by
    simp only [atomicBase?] at h; simp only [nearestB]; exact nearestB_atomic h
  | .list n i, b, h => by simp [atomicBase?] at h
  | .union n ms, b, h => by simp [atomicBase?] at h

theorem derives_primitive (b : B) : b.derives b.primitive = true := by cases b <;> decide
theorem derives_refl (b : B) : b.derives b = true := by cases b <;> decide
theorem primitive_idem (b : B) : b.primitive.primitive = b.primitive := by cases b <;> decide
theorem mem_all (b : B) : b ∈ B.all := by cases b <;> decide

theorem derives_trans_table :
    (B.all.all fun a => B.all.all fun b => B.all.all fun c =>
      !(a.derives b && b.derives c) || a.derives c) = true := by decide +kernel

theorem derives_trans (a b c : B) (h1 : a.derives b = true) (h2 : b.derives c = true) :
    a.derives c = true := by
  have h := derives_trans_table
  simp only [List.all_eq_true] at h
  have := h a (mem_all a) b (mem_all b) c (mem_all c)
  simp [h1, h2] at this
  exact this

end EPV.Xsd

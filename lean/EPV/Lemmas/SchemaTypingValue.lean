/-
Lemmas for C20, part 4: the datatype class of the atoms produced by the decoder model.
-/
import EPV.Spec.XsdTyping
namespace EPV.Xsd
open EPV.Xsd.Spec

/-- `value.__class__(s)` builds an instance of the prototype's class -/
theorem pyDecode_cls {b : B} {s : String} {a : Atom} (h : pyDecode b s = some a) :
    a.cls = classOf b := by
  cases b <;> simp only [pyDecode] at h <;> (repeat' split at h) <;>
    simp_all [classOf, B.isSpecial] <;> (try (subst h; rfl)) <;> (try (rw [← h]))

theorem tryProto_cls (isList : Bool) (text : String) (b : B) (acc : List Atom) :
    ∀ a ∈ (tryProto isList text b acc).1, a ∈ acc ∨ a.cls = classOf b := by
  unfold tryProto
  split
  · -- list
    unfold tryItems
    generalize splitWs text = items
    suffices H : ∀ (st : List Atom × Bool), (∀ a ∈ st.1, a ∈ acc ∨ a.cls = classOf b) →
        ∀ a ∈ (items.foldl (fun (st : List Atom × Bool) item =>
          if st.2 then (match pyDecode b item with
                        | some a => (st.1 ++ [a], true)
                        | none => (st.1, false))
          else st) st).1, a ∈ acc ∨ a.cls = classOf b by
      exact H (acc, true) (fun a ha => Or.inl ha)
    induction items with
    | nil => intro st hst; simpa using hst
    | cons w ws ih =>
      intro st hst
      simp only [List.foldl_cons]
      apply ih
      split
      · cases hd : pyDecode b w with
        | none => simpa using hst
        | some v =>
          simp only
          intro a ha
          simp only [List.mem_append, List.mem_singleton] at ha
          rcases ha with ha | rfl
          · exact hst a ha
          · exact Or.inr (pyDecode_cls hd)
      · exact hst
  · cases hd : pyDecode b text with
    | none => intro a ha; exact Or.inl (by simpa using ha)
    | some v =>
      intro a ha
      simp only [List.mem_append, List.mem_singleton] at ha
      rcases ha with ha | rfl
      · exact Or.inl ha
      · exact Or.inr (pyDecode_cls hd)

theorem atomicLoop_cls (isList : Bool) (text : String) (bs : List B) :
    ∀ (acc : List Atom) (failed : Bool) (vs : List Atom),
      atomicLoop isList text bs acc failed = .ok vs →
      ∀ a ∈ vs, a ∈ acc ∨ ∃ b ∈ bs, a.cls = classOf b := by
  induction bs with
  | nil => intro acc failed vs h; simp only [atomicLoop] at h; split at h <;> cases h
  | cons b bs ih =>
    intro acc failed vs h a ha
    simp only [atomicLoop] at h
    have hp := tryProto_cls isList text b acc
    rcases hT : tryProto isList text b acc with ⟨acc', ok⟩
    rw [hT] at h hp
    cases ok with
    | true =>
      simp only at h
      cases h
      rcases hp a ha with h1 | h1
      · exact Or.inl h1
      · exact Or.inr ⟨b, List.mem_cons_self, h1⟩
    | false =>
      simp only at h
      rcases ih acc' true vs h a ha with h1 | ⟨b', hb', h1⟩
      · rcases hp a h1 with h2 | h2
        · exact Or.inl h2
        · exact Or.inr ⟨b, List.mem_cons_self, h2⟩
      · exact Or.inr ⟨b', List.mem_cons_of_mem _ hb', h1⟩

/-- every atom of a decoded sequence is an instance of the class of one of the prototypes -/
theorem atomicSequence_cls {t : SType} {text : String} {vs : List Atom}
    (h : atomicSequence t text = .ok vs) : ∀ a ∈ vs, ∃ b ∈ t.protos, a.cls = classOf b := by
  intro a ha
  rcases atomicLoop_cls _ _ _ _ _ _ h a ha with h1 | h1
  · cases h1
  · exact h1

/-- the builtin at the bottom of a chain of restrictions (`none` for lists and unions) -/
def atomicBase? : SType → Option B
  | .builtin b => some b
  | .restr _ base _ => atomicBase? base
  | .list _ _ => none
  | .union _ _ => none

theorem iterValues_atomic : ∀ {t : SType} {b : B}, atomicBase? t = some b → SType.iterValues 1 t = [b]
  | .builtin b', b, h => by simp [atomicBase?] at h; subst h; simp [SType.iterValues]
  | .restr n base f, b, h => by
    simp only [atomicBase?] at h; simp only [SType.iterValues]; exact iterValues_atomic h
  | .list n i, b, h => by simp [atomicBase?] at h
  | .union n ms, b, h => by simp [atomicBase?] at h

/-- prototypes of an atomic type (fix F20c): the class of its nearest builtin -/
theorem protos_atomic {t : SType} {b : B} (h : atomicBase? t = some b) : t.protos = [b] := by
  cases t with
  | builtin b' => simp [atomicBase?] at h; subst h; rfl
  | restr n base f => simp only [SType.protos]; exact iterValues_atomic h
  | list n i => simp [atomicBase?] at h
  | union n ms => simp [atomicBase?] at h

theorem protos_list_atomic {n : Option String} {item : SType} {b : B} (h : atomicBase? item = some b) :
    (SType.list n item).protos = [b] := by
  simp only [SType.protos, SType.iterValues, beq_self_eq_true, if_true]
  exact iterValues_atomic h

theorem nearestB_atomic : ∀ {t : SType} {b : B}, atomicBase? t = some b → nearestB t = b
  | .builtin b', b, h => by simp [atomicBase?] at h; subst h; rfl
  | .restr n base f, b, h => by
    simp only [atomicBase?] at h; simp only [nearestB]; exact nearestB_atomic h
  | .list n i, b, h => by simp [atomicBase?] at h
  | .union n ms, b, h => by simp [atomicBase?] at h

theorem derives_primitive (b : B) : b.derives b.primitive = true := by cases b <;> decide
theorem derives_refl (b : B) : b.derives b = true := by cases b <;> decide
theorem primitive_idem (b : B) : b.primitive.primitive = b.primitive := by cases b <;> decide
theorem mem_all (b : B) : b ∈ B.all := by cases b <;> decide

theorem derives_trans_table :
    (B.all.all fun a => B.all.all fun b => B.all.all fun c =>
      !(a.derives b && b.derives c) || a.derives c) = true := by decide +kernel

theorem derives_trans (a b c : B) (h1 : a.derives b = true) (h2 : b.derives c = true) :
    a.derives c = true := by
  have h := derives_trans_table
  simp only [List.all_eq_true] at h
  have := h a (mem_all a) b (mem_all b) c (mem_all c)
  simp [h1, h2] at this
  exact this

end EPV.Xsd

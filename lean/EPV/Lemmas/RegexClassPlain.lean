/-
C12 helper lemmas: bracket expressions with a plain body, on both sides — the transcribed class
scanner (`parseClassM`, any trailing text) and the grammar of the specification (`pClass`) — so that
the class side condition of the translation theorem is discharged for them.
-/
import EPV.Lemmas.RegexClassGrammar
namespace EPV.Regex

theorem pSingleChar_plain (o : Opts) (c : Nat) (rest : List Ch) (hp : Plain c) :
    pSingleChar o (c :: rest) = some (c, false, rest) := by
  obtain ⟨h1, h2, h3, h4⟩ := hp
  rw [pSingleChar.eq_def]
  split
  all_goals (first
    | (rename_i heq; simp only [List.cons.injEq, reduceCtorEq] at heq; obtain ⟨hh, _⟩ := heq
       first | exact absurd hh h1 | exact absurd hh h3 | exact absurd hh h4)
    | skip)
  · rename_i heq
    simp only [List.cons.injEq] at heq
    obtain ⟨rfl, rfl⟩ := heq
    have : (c == 45) = false := by simpa using h2
    simp [this]
  · rename_i heq; cases heq

theorem pParts_plain_step (f : Nat) (ng : Bool) (c : Nat) (rest : List Ch) (acc : List CItem) (st : PSt)
    (hp : Plain c) (hr : rest.head? ≠ some 45) :
    pParts xo (f + 2) ng (c :: rest) acc st = pParts xo f ng rest (.chr c :: acc) st := by
  obtain ⟨h1, h2, h3, h4⟩ := hp
  rw [pParts.eq_def]
  simp only
  split
  all_goals (first
    | (rename_i heq; simp only [List.cons.injEq, reduceCtorEq] at heq; obtain ⟨hh, _⟩ := heq
       first | exact absurd hh h4 | exact absurd hh h2 | exact absurd hh h1)
    | skip)
  · rename_i heq; cases heq
  · rw [pSingle.eq_def]
    simp only [pSingleChar_plain xo c rest ⟨h1, h2, h3, h4⟩]
    split
    · simp at hr
    · simp


theorem pParts_plain (ng : Bool) (tail : List Ch) : ∀ (body : List Ch) (acc : List CItem) (st : PSt) (f : Nat),
    (∀ c ∈ body, Plain c) → 2 * body.length + 1 ≤ f →
    pParts xo f ng (body ++ 93 :: tail) acc st =
      if (acc.reverse ++ body.map CItem.chr).isEmpty then none
      else some (.mk ng (acc.reverse ++ body.map CItem.chr) none, tail, st) := by
  intro body
  induction body with
  | nil =>
    intro acc st f _ hf
    obtain ⟨f', rfl⟩ : ∃ f', f = f' + 1 := ⟨f - 1, by omega⟩
    simp [pParts]
  | cons c body ih =>
    intro acc st f hp hf
    obtain ⟨f', rfl⟩ : ∃ f', f = f' + 2 := ⟨f - 2, by simp at hf; omega⟩
    have hc : Plain c := hp c List.mem_cons_self
    have hr : (body ++ 93 :: tail).head? ≠ some 45 := by
      cases body with
      | nil => simp
      | cons d r => simpa using (hp d (by simp)).2.1
    rw [List.cons_append, pParts_plain_step f' ng c _ acc st hc hr,
      ih (.chr c :: acc) st f' (fun d hd => hp d (List.mem_cons_of_mem _ hd)) (by simp at hf; omega)]
    simp

/-- the XSD reading of `body ]tail` with a plain body: the group of its characters -/
theorem pClass_plain (body tail : List Ch) (hne : body ≠ []) (hp : ∀ c ∈ body, Plain c) (h0 : body.head? ≠ some 94)
    (f : Nat) (hf : 2 * body.length + 1 ≤ f) (st : PSt) :
    pClass xo (f + 1) (body ++ 93 :: tail) st = some (.mk false (body.map CItem.chr) none, tail, st) := by
  cases body with
  | nil => exact absurd rfl hne
  | cons c r =>
    have hc94 : c ≠ 94 := by simpa using h0
    rw [pClass.eq_def]
    simp only
    split
    · rename_i heq
      simp only [List.cons_append, List.cons.injEq] at heq
      exact absurd heq.1 hc94
    · have := pParts_plain false tail (c :: r) [] st f hp hf
      simpa using this

theorem toClassE_plain (T : Tables) (body : List Ch) :
    (CClass.mk false (body.map CItem.chr) none).toClassE T = some (.plain false (body.map fun c => ⟨false, .single c⟩)) := by
  simp only [CClass.toClassE]
  have : (body.map CItem.chr).mapM (CItem.toItem T) = some (body.map fun c => ⟨false, .single c⟩) := by
    induction body with
    | nil => rfl
    | cons c r ih => simp [List.mapM_cons, CItem.toItem, ih]
  simp [this]

theorem single_mem_dec (c x : Nat) : (SetE.single c).mem x = decide (x = c) := by
  cases h : (SetE.single c).mem x with
  | true => exact (decide_eq_true ((single_mem c x).1 h)).symm
  | false =>
    have : ¬ x = c := fun hx => by rw [(single_mem c x).2 hx] at h; cases h
    exact (decide_eq_false this).symm

theorem specClass_plain (body : List Ch) (x : Nat) :
    specClass (.plain false (body.map fun c => ⟨false, .single c⟩)) x = decide (x ∈ body) := by
  simp only [specClass, specGroup, Bool.false_eq_true, if_false]
  induction body with
  | nil => simp
  | cons c r ih =>
    rw [List.map_cons, List.any_cons, ih]
    simp [Item.mem, single_mem_dec]

/-- plain bodies are well-formed groups of the grammar theorem -/
theorem plain_groupWF (v10 : Bool) (body : List Ch) (hne : body ≠ []) (hp : ∀ c ∈ body, Plain c) (h0 : body.head? ≠ some 94) :
    GroupWF v10 false [.lit body (body.map EPV.USet.CP.one)] := by
  have h45 : ∀ c ∈ body, c ≠ 45 := fun c hc => (hp c hc).2.1
  have hok : SegsOK false none [.lit body (body.map EPV.USet.CP.one)] :=
    ⟨hne, fun c hc => ⟨(hp c hc).1, (hp c hc).2.2.1, (hp c hc).2.2.2⟩, strictGroup_plain body hne hp,
      (fun h => Bool.noConfusion h), trivial, trivial⟩
  refine ⟨by simp, hok, fun _ => by simpa [renderSegs, Seg.text] using h0, ?_⟩
  simp [translatorChecks, renderSegs, Seg.text, noDoubleHyphen body h45 none, noInvalidHyphen body h45]

/-- For a bracket expression with a plain body the class side condition of the translation theorem
holds: the class scanner agrees with the XSD reading (whatever text follows the `]`). -/
theorem stepOK_class_plain (Tm : MTables) (T : Tables) (v10 atStart : Bool) (nested : Nat) (body tail : List Ch)
    (hne : body ≠ []) (hp : ∀ c ∈ body, Plain c) (h0 : body.head? ≠ some 94) :
    StepOK Tm T v10 atStart nested (91 :: (body ++ 93 :: tail)) := by
  simp only [StepOK]
  intro c rest' st hpc
  have hlen : 2 * body.length + 1 ≤ 3 * (body ++ 93 :: tail).length + 3 := by simp; omega
  rw [show 3 * (body ++ 93 :: tail).length + 4 = (3 * (body ++ 93 :: tail).length + 3) + 1 by omega,
    pClass_plain body tail hne hp h0 _ hlen] at hpc
  simp only [Option.some.injEq, Prod.mk.injEq] at hpc
  obtain ⟨rfl, rfl, _⟩ := hpc
  obtain ⟨cc, hparse, _, hcc⟩ := parseClassM_grammar Tm v10 (.plain false [.lit body (body.map EPV.USet.CP.one)])
    (plain_groupWF v10 body hne hp h0) ((body ++ 93 :: tail).length + 1) tail (by simp [GClass.depth])
  have htxt : (GClass.plain false [.lit body (body.map EPV.USet.CP.one)]).render ++ tail = body ++ 93 :: tail := by
    simp [GClass.render, caret, renderSegs, Seg.text]
  rw [htxt] at hparse
  refine ⟨cc, _, hparse, toClassE_plain T body, ?_⟩
  intro x hx
  rw [specClass_plain]
  have h := hcc x hx
  simp only [GClass.Den, Bool.false_eq_true, if_false, SegsDen, List.mem_cons, List.not_mem_nil, or_false,
    exists_eq_left, memL_ones] at h
  cases hc : cc.contains x with
  | true => exact (decide_eq_true (h.1 hc)).symm
  | false =>
    have : ¬ x ∈ body := fun hx' => by rw [h.2 hx'] at hc; cases hc
    exact (decide_eq_false this).symm

end EPV.Regex

/-
C12 helper lemmas: bracket expressions with a plain body, on both sides — the transcribed class
scanner (`parseClassM`, any trailing text) and the grammar of the specification (`pClass`) — so that
the class side condition of the translation theorem is discharged for them.
-/
import EPV.Lemmas.RegexScanner
import EPV.Lemmas.RegexTranslate
namespace EPV.Regex

/-- the class built by the model from a plain body -/
def plainCC (body : List Ch) : CC := CC.new.addItem ⟨false, .ranges (ones body).reverse⟩

theorem plainCC_contains (body : List Ch) (x : Nat) : (plainCC body).contains x = decide (x ∈ body) := by
  simp [plainCC, CC.addItem, CC.new, CC.contains, none_isEmpty, SetE.mem, none_mem, memR_ones]

/-- `parse_character_class` on `body ]tail` with a plain body: the class of the body, and `tail` is left -/
theorem parseClassM_plain (T : MTables) (v10 : Bool) (body tail : List Ch) (hne : body ≠ [])
    (hp : ∀ c ∈ body, Plain c) (h0 : body.head? ≠ some 94) (fuel : Nat) :
    parseClassM T v10 (fuel + 1) (body ++ 93 :: tail) = some (plainCC body, tail) := by
  have h45 : ∀ c ∈ body, c ≠ 45 := fun c hc => (hp c hc).2.1
  have hb92 : ∀ c ∈ body, c ≠ 92 := fun c hc => (hp c hc).1
  have hscan := scanGroup_plain body tail hp []
  have hhead : body.head? ≠ some 92 := by
    cases body with
    | nil => simp
    | cons c r => simpa using (hp c List.mem_cons_self).1
  have hmk : mkClass T body = some (plainCC body) := by
    unfold mkClass plainCC
    rw [reSplit_plain body hb92 _ (Nat.le_succ _)]
    simp [List.foldlM, addPart_plain T CC.new body hhead, parseSubset_plain body hp hne]
  cases body with
  | nil => exact absurd rfl hne
  | cons c r =>
    have hc94 : c ≠ 94 := by simpa using h0
    rw [parseClassM]
    case x_3 =>
      intro rest heq
      simp only [List.cons_append, List.cons.injEq] at heq
      exact hc94 heq.1
    simp only [List.cons_append, List.reverse_nil, List.nil_append] at hscan ⊢
    rw [hscan]
    simp [noDoubleHyphen (c :: r) h45 none, noInvalidHyphen (c :: r) h45, hmk]


theorem pSingleChar_plain (o : Opts) (c : Nat) (rest : List Ch) (hp : Plain c) :
    pSingleChar o (c :: rest) = some (c, false, rest) := by
  obtain ⟨h1, h2, h3, h4⟩ := hp
  rw [pSingleChar.eq_def]
  split
  all_goals (first
    | (rename_i heq; simp only [List.cons.injEq, reduceCtorEq] at heq; obtain ⟨hh, _⟩ := heq
       first | exact absurd hh h1 | exact absurd hh h3 | exact absurd hh h4)
    | skip)
  · rename_i heq
    simp only [List.cons.injEq] at heq
    obtain ⟨rfl, rfl⟩ := heq
    have : (c == 45) = false := by simpa using h2
    simp [this]
  · rename_i heq; cases heq

theorem pParts_plain_step (f : Nat) (ng : Bool) (c : Nat) (rest : List Ch) (acc : List CItem) (st : PSt)
    (hp : Plain c) (hr : rest.head? ≠ some 45) :
    pParts xo (f + 2) ng (c :: rest) acc st = pParts xo f ng rest (.chr c :: acc) st := by
  obtain ⟨h1, h2, h3, h4⟩ := hp
  rw [pParts.eq_def]
  simp only
  split
  all_goals (first
    | (rename_i heq; simp only [List.cons.injEq, reduceCtorEq] at heq; obtain ⟨hh, _⟩ := heq
       first | exact absurd hh h4 | exact absurd hh h2 | exact absurd hh h1)
    | skip)
  · rename_i heq; cases heq
  · rw [pSingle.eq_def]
    simp only [pSingleChar_plain xo c rest ⟨h1, h2, h3, h4⟩]
    split
    · simp at hr
    · simp


theorem pParts_plain (ng : Bool) (tail : List Ch) : ∀ (body : List Ch) (acc : List CItem) (st : PSt) (f : Nat),
    (∀ c ∈ body, Plain c) → 2 * body.length + 1 ≤ f →
    pParts xo f ng (body ++ 93 :: tail) acc st =
      if (acc.reverse ++ body.map CItem.chr).isEmpty then none
      else some (.mk ng (acc.reverse ++ body.map CItem.chr) none, tail, st) := by
  intro body
  induction body with
  | nil =>
    intro acc st f _ hf
    obtain ⟨f', rfl⟩ : ∃ f', f = f' + 1 := ⟨f - 1, by omega⟩
    simp [pParts]
  | cons c body ih =>
    intro acc st f hp hf
    obtain ⟨f', rfl⟩ : ∃ f', f = f' + 2 := ⟨f - 2, by simp at hf; omega⟩
    have hc : Plain c := hp c List.mem_cons_self
    have hr : (body ++ 93 :: tail).head? ≠ some 45 := by
      cases body with
      | nil => simp
      | cons d r => simpa using (hp d (by simp)).2.1
    rw [List.cons_append, pParts_plain_step f' ng c _ acc st hc hr,
      ih (.chr c :: acc) st f' (fun d hd => hp d (List.mem_cons_of_mem _ hd)) (by simp at hf; omega)]
    simp

/-- the XSD reading of `body ]tail` with a plain body: the group of its characters -/
theorem pClass_plain (body tail : List Ch) (hne : body ≠ []) (hp : ∀ c ∈ body, Plain c) (h0 : body.head? ≠ some 94)
    (f : Nat) (hf : 2 * body.length + 1 ≤ f) (st : PSt) :
    pClass xo (f + 1) (body ++ 93 :: tail) st = some (.mk false (body.map CItem.chr) none, tail, st) := by
  cases body with
  | nil => exact absurd rfl hne
  | cons c r =>
    have hc94 : c ≠ 94 := by simpa using h0
    rw [pClass.eq_def]
    simp only
    split
    · rename_i heq
      simp only [List.cons_append, List.cons.injEq] at heq
      exact absurd heq.1 hc94
    · have := pParts_plain false tail (c :: r) [] st f hp hf
      simpa using this

theorem toClassE_plain (T : Tables) (body : List Ch) :
    (CClass.mk false (body.map CItem.chr) none).toClassE T = some (.plain false (body.map fun c => ⟨false, .single c⟩)) := by
  simp only [CClass.toClassE]
  have : (body.map CItem.chr).mapM (CItem.toItem T) = some (body.map fun c => ⟨false, .single c⟩) := by
    induction body with
    | nil => rfl
    | cons c r ih => simp [List.mapM_cons, CItem.toItem, ih]
  simp [this]

theorem single_mem (c x : Nat) : (SetE.single c).mem x = decide (x = c) := by
  simp only [SetE.single, SetE.mem, memR, List.any_cons, List.any_nil, Bool.or_false]
  by_cases hx : x = c
  · subst hx; simp
  · have h1 : (decide (c ≤ x) && decide (x < c + 1)) = false := by
      apply Bool.eq_false_iff.2
      intro hh
      have := (Bool.and_eq_true _ _).mp hh
      have h3 : @LE.le Nat _ c x := of_decide_eq_true this.1
      have h4 : @LT.lt Nat _ x (c + 1) := of_decide_eq_true this.2
      omega
    rw [h1]; simp [hx]

theorem specClass_plain (body : List Ch) (x : Nat) :
    specClass (.plain false (body.map fun c => ⟨false, .single c⟩)) x = decide (x ∈ body) := by
  simp only [specClass, specGroup, Bool.false_eq_true, if_false]
  induction body with
  | nil => simp
  | cons c r ih =>
    rw [List.map_cons, List.any_cons, ih]
    simp [Item.mem, single_mem]

/-- For a bracket expression with a plain body the class side condition of the translation theorem
holds: the class scanner agrees with the XSD reading (whatever text follows the `]`). -/
theorem stepOK_class_plain (Tm : MTables) (T : Tables) (v10 atStart : Bool) (nested : Nat) (body tail : List Ch)
    (hne : body ≠ []) (hp : ∀ c ∈ body, Plain c) (h0 : body.head? ≠ some 94) :
    StepOK Tm T v10 atStart nested (91 :: (body ++ 93 :: tail)) := by
  simp only [StepOK]
  intro c rest' st hpc
  have hlen : 2 * body.length + 1 ≤ 3 * (body ++ 93 :: tail).length + 3 := by simp; omega
  rw [show 3 * (body ++ 93 :: tail).length + 4 = (3 * (body ++ 93 :: tail).length + 3) + 1 by omega,
    pClass_plain body tail hne hp h0 _ hlen] at hpc
  simp only [Option.some.injEq, Prod.mk.injEq] at hpc
  obtain ⟨rfl, rfl, _⟩ := hpc
  refine ⟨plainCC body, _, parseClassM_plain Tm v10 body tail hne hp h0 _, toClassE_plain T body, ?_⟩
  intro x _
  rw [plainCC_contains, specClass_plain]

end EPV.Regex

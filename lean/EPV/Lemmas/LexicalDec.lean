/-
C10 helper lemmas: the numeral scanners of the model (`scanDecBody`) against the grammar productions
of the spec (unsignedNoDecimalPtNumeral / unsignedDecimalPtNumeral / scientific notation).
-/
import EPV.Lemmas.LexicalBool
namespace EPV.LexLemmas
open EPV

/-- mantissa of a numeral: [46] | [48] -/
def validMant (m : List Char) : Bool := XSD.unsignedNoDecimalPt m || XSD.unsignedDecimalPt m

/-! ### splitAt -/

theorem splitAt_none (p : Char → Bool) (a : List Char) (h : ∀ c ∈ a, p c = false) :
    XSD.splitAt p a = (a, none) := by
  unfold XSD.splitAt
  have : a.dropWhile (fun c => !p c) = [] := by
    rw [dropWhile_eq_nil_iff]; intro x hx; simp [h x hx]
  rw [this]

theorem splitAt_some (p : Char → Bool) (a : List Char) (b : Char) (r : List Char)
    (h : ∀ c ∈ a, p c = false) (hb : p b = true) :
    XSD.splitAt p (a ++ b :: r) = (a, some r) := by
  unfold XSD.splitAt
  have hpos : ∀ c ∈ a, (fun c => !p c) c = true := by intro x hx; simp [h x hx]
  rw [List.dropWhile_append_of_pos hpos, List.takeWhile_append_of_pos hpos]
  simp [List.dropWhile_cons, List.takeWhile_cons, hb]

/-- shape of a string whose `splitAt` finds a mark -/
theorem splitAt_eq_some (p : Char → Bool) (s a r : List Char) (h : XSD.splitAt p s = (a, some r)) :
    ∃ b, p b = true ∧ s = a ++ b :: r ∧ ∀ c ∈ a, p c = false := by
  unfold XSD.splitAt at h
  split at h
  · cases h
  · rename_i b r' hd
    simp only [Prod.mk.injEq, Option.some.injEq] at h
    obtain ⟨ha, hr⟩ := h
    subst hr
    have hb : p b = true := by
      have := List.head_dropWhile_not (fun c => !p c) (l := s) (by rw [hd]; simp)
      simp only [hd, List.head_cons] at this
      simpa using this
    refine ⟨b, hb, ?_, ?_⟩
    · rw [← ha, ← hd]; exact (List.takeWhile_append_dropWhile).symm
    · intro c hc
      rw [← ha] at hc
      have := List.all_takeWhile (l := s) (p := fun c => !p c)
      rw [List.all_eq_true] at this
      simpa using this c hc

theorem splitAt_eq_none (p : Char → Bool) (s a : List Char) (h : XSD.splitAt p s = (a, none)) :
    a = s ∧ ∀ c ∈ s, p c = false := by
  unfold XSD.splitAt at h
  split at h
  · rename_i hd
    simp only [Prod.mk.injEq, and_true] at h
    refine ⟨h.symm, ?_⟩
    rw [dropWhile_eq_nil_iff] at hd
    intro c hc; simpa using hd c hc
  · simp at h

/-! ### digits -/

theorem allDigits_iff (s : List Char) : s.all XSD.isDigit = true ↔ ∀ c ∈ s, Lex.isDigit c = true := by
  rw [List.all_eq_true]; constructor <;> intro h c hc
  · rw [isDigit_eq]; exact h c hc
  · rw [← isDigit_eq]; exact h c hc

theorem dot_not_digit : Lex.isDigit '.' = false := by decide

theorem takeWhile_digits_append (a r : List Char) (ha : ∀ c ∈ a, Lex.isDigit c = true)
    (hr : r = [] ∨ ∃ c x, r = c :: x ∧ Lex.isDigit c = false) :
    (a ++ r).takeWhile Lex.isDigit = a ∧ (a ++ r).dropWhile Lex.isDigit = r := by
  rw [List.takeWhile_append_of_pos ha, List.dropWhile_append_of_pos ha]
  rcases hr with h | ⟨c, x, h, hc⟩
  · subst h; simp
  · subst h
    have : ¬ (Lex.isDigit c = true) := by simp [hc]
    rw [List.takeWhile_cons_of_neg this, List.dropWhile_cons_of_neg this]; simp

/-! ### the scanner's decomposition -/

/-- what `scanDecBody` consumes: (mantissa, rest) -/
def mantSplit (t : List Char) : Option (List Char × List Char) :=
  let ds := t.takeWhile Lex.isDigit
  let r := t.dropWhile Lex.isDigit
  if r.length < t.length then
    match r with
    | c :: f => if c == '.' then some (ds ++ '.' :: f.takeWhile Lex.isDigit, f.dropWhile Lex.isDigit)
                else some (ds, r)
    | [] => some (ds, r)
  else
    match t with
    | c :: f =>
      if c == '.' then
        if (f.dropWhile Lex.isDigit).length < f.length then
          some ('.' :: f.takeWhile Lex.isDigit, f.dropWhile Lex.isDigit)
        else none
      else none
    | [] => none

theorem scanDecBody_eq (k : List Char → Bool) (t : List Char) :
    Lex.scanDecBody k t = match mantSplit t with | some (_, r) => k r | none => false := by
  unfold Lex.scanDecBody mantSplit
  simp only
  by_cases hlt : (t.dropWhile Lex.isDigit).length < t.length
  · simp only [hlt, ↓reduceIte]
    cases t.dropWhile Lex.isDigit with
    | nil => rfl
    | cons c f => by_cases hc : (c == '.') = true <;> simp [hc]
  · simp only [hlt, ↓reduceIte]
    cases t with
    | nil => rfl
    | cons c f =>
      by_cases hc : (c == '.') = true
      · by_cases h2 : (f.dropWhile Lex.isDigit).length < f.length <;> simp [hc, h2]
      · simp [hc]

theorem length_dropWhile_lt_iff (p : Char → Bool) (t : List Char) :
    (t.dropWhile p).length < t.length ↔ t.takeWhile p ≠ [] := by
  have h := congrArg List.length (List.takeWhile_append_dropWhile (p := p) (l := t))
  rw [List.length_append] at h
  constructor
  · intro hl he; rw [he] at h; simp at h; omega
  · intro hne
    have : 0 < (t.takeWhile p).length := List.length_pos_iff.mpr hne
    omega

theorem takeWhile_all (t : List Char) : ∀ c ∈ t.takeWhile Lex.isDigit, Lex.isDigit c = true := by
  have := List.all_takeWhile (l := t) (p := Lex.isDigit)
  rw [List.all_eq_true] at this; exact this

theorem unsignedNoDecimalPt_of (a : List Char) (hne : a ≠ []) (h : ∀ c ∈ a, Lex.isDigit c = true) :
    XSD.unsignedNoDecimalPt a = true := by
  unfold XSD.unsignedNoDecimalPt
  rw [(allDigits_iff a).mpr h]
  cases a with
  | nil => exact absurd rfl hne
  | cons _ _ => rfl

theorem fracOk_of (f : List Char) (h : ∀ c ∈ f, Lex.isDigit c = true) :
    (f.isEmpty || XSD.fracFrag f) = true := by
  unfold XSD.fracFrag
  rw [(allDigits_iff f).mpr h]
  cases f <;> rfl

theorem digits_no_dot (a : List Char) (h : ∀ c ∈ a, Lex.isDigit c = true) :
    ∀ c ∈ a, (c == '.') = false := by
  intro c hc
  rw [beq_eq_false_iff_ne]
  exact (digit_ne_sign c (h c hc)).2.2.1

/-- soundness: what the scanner consumes is a numeral mantissa, and the pieces re-assemble -/
theorem mantSplit_sound (t m r : List Char) (h : mantSplit t = some (m, r)) :
    t = m ++ r ∧ validMant m = true := by
  unfold mantSplit at h
  simp only at h
  have hsplit : t.takeWhile Lex.isDigit ++ t.dropWhile Lex.isDigit = t := List.takeWhile_append_dropWhile
  by_cases hlt : (t.dropWhile Lex.isDigit).length < t.length
  · simp only [hlt, ↓reduceIte] at h
    have hne : t.takeWhile Lex.isDigit ≠ [] := (length_dropWhile_lt_iff _ _).mp hlt
    have hplain : ∀ r', t.dropWhile Lex.isDigit = r' → some (t.takeWhile Lex.isDigit, r') = some (m, r) →
        t = m ++ r ∧ validMant m = true := by
      intro r' hr' h
      simp only [Option.some.injEq, Prod.mk.injEq] at h
      obtain ⟨hm, hrr⟩ := h
      subst hm; subst hrr
      exact ⟨by rw [← hr']; exact hsplit.symm, by simp [validMant, unsignedNoDecimalPt_of _ hne (takeWhile_all t)]⟩
    cases hr : t.dropWhile Lex.isDigit with
    | nil => rw [hr] at h; exact hplain [] hr h
    | cons c f =>
      rw [hr] at h
      by_cases hc : (c == '.') = true
      · simp only [hc, ↓reduceIte, Option.some.injEq, Prod.mk.injEq] at h
        have hc' : c = '.' := by simpa using hc
        subst hc'
        obtain ⟨hm, hrr⟩ := h
        subst hm; subst hrr
        constructor
        · conv => lhs; rw [← hsplit, hr]
          have : f.takeWhile Lex.isDigit ++ f.dropWhile Lex.isDigit = f := List.takeWhile_append_dropWhile
          conv => lhs; rw [← this]
          simp
        · unfold validMant XSD.unsignedDecimalPt
          rw [splitAt_some (· == '.') _ '.' _ (digits_no_dot _ (takeWhile_all t)) (by decide)]
          simp only [unsignedNoDecimalPt_of _ hne (takeWhile_all t), fracOk_of _ (takeWhile_all f),
            Bool.and_self, Bool.true_or, Bool.or_true]
      · simp only [hc, Bool.false_eq_true, ↓reduceIte] at h
        exact hplain (c :: f) hr h
  · simp only [hlt, ↓reduceIte] at h
    cases t with
    | nil => cases h
    | cons c f =>
      by_cases hc : (c == '.') = true
      · have hc' : c = '.' := by simpa using hc
        subst hc'
        by_cases h2 : (f.dropWhile Lex.isDigit).length < f.length
        · simp only [beq_self_eq_true, h2, ↓reduceIte, Option.some.injEq, Prod.mk.injEq] at h
          have hne : f.takeWhile Lex.isDigit ≠ [] := (length_dropWhile_lt_iff _ _).mp h2
          obtain ⟨hm, hrr⟩ := h
          subst hm; subst hrr
          constructor
          · have : f.takeWhile Lex.isDigit ++ f.dropWhile Lex.isDigit = f := List.takeWhile_append_dropWhile
            conv => lhs; rw [← this]
            simp
          · unfold validMant XSD.unsignedDecimalPt
            have := splitAt_some (· == '.') [] '.' (f.takeWhile Lex.isDigit) (by simp) (by decide)
            simp only [List.nil_append] at this
            rw [this]
            have hf : XSD.fracFrag (f.takeWhile Lex.isDigit) = true := by
              unfold XSD.fracFrag
              rw [(allDigits_iff _).mpr (takeWhile_all f)]
              cases hh : f.takeWhile Lex.isDigit with
              | nil => exact absurd hh hne
              | cons _ _ => rfl
            simp [hf]
        · simp [h2] at h
      · simp [hc] at h

/-- shape of a valid mantissa -/
theorem validMant_shape (m : List Char) (h : validMant m = true) :
    (m ≠ [] ∧ ∀ c ∈ m, Lex.isDigit c = true) ∨
    (∃ a f, m = a ++ '.' :: f ∧ (∀ c ∈ a, Lex.isDigit c = true) ∧ (∀ c ∈ f, Lex.isDigit c = true) ∧
      (a ≠ [] ∨ f ≠ [])) := by
  unfold validMant at h
  rcases Bool.or_eq_true _ _ |>.mp h with h1 | h2
  · left
    unfold XSD.unsignedNoDecimalPt at h1
    simp only [Bool.and_eq_true, Bool.not_eq_eq_eq_not, Bool.not_true, List.isEmpty_eq_false_iff] at h1
    exact ⟨h1.1, (allDigits_iff m).mp h1.2⟩
  · right
    unfold XSD.unsignedDecimalPt at h2
    split at h2
    · rename_i a f hs
      obtain ⟨b, hb, hm, _⟩ := splitAt_eq_some _ _ _ _ hs
      have hb' : b = '.' := by simpa using hb
      subst hb'
      refine ⟨a, f, hm, ?_⟩
      rcases Bool.or_eq_true _ _ |>.mp h2 with h3 | h3
      · simp only [Bool.and_eq_true, Bool.or_eq_true] at h3
        obtain ⟨ha, hf⟩ := h3
        unfold XSD.unsignedNoDecimalPt at ha
        simp only [Bool.and_eq_true, Bool.not_eq_eq_eq_not, Bool.not_true, List.isEmpty_eq_false_iff] at ha
        refine ⟨(allDigits_iff a).mp ha.2, ?_, Or.inl ha.1⟩
        rcases hf with hf | hf
        · have : f = [] := by simpa using hf
          subst this; simp
        · unfold XSD.fracFrag at hf
          simp only [Bool.and_eq_true] at hf
          exact (allDigits_iff f).mp hf.2
      · simp only [Bool.and_eq_true] at h3
        obtain ⟨ha, hf⟩ := h3
        have : a = [] := by simpa using ha
        subst this
        unfold XSD.fracFrag at hf
        simp only [Bool.and_eq_true, Bool.not_eq_eq_eq_not, Bool.not_true, List.isEmpty_eq_false_iff] at hf
        exact ⟨by simp, (allDigits_iff f).mp hf.2, Or.inr hf.1⟩
    · cases h2

theorem validMant_chars (m : List Char) (h : validMant m = true) :
    ∀ c ∈ m, Lex.isDigit c = true ∨ c = '.' := by
  rcases validMant_shape m h with ⟨_, h1⟩ | ⟨a, f, hm, ha, hf, _⟩
  · intro c hc; exact Or.inl (h1 c hc)
  · intro c hc
    subst hm
    rcases List.mem_append.mp hc with h | h
    · exact Or.inl (ha c h)
    · rcases List.mem_cons.mp h with h | h
      · exact Or.inr h
      · exact Or.inl (hf c h)

/-- completeness: a valid mantissa followed by the end or by a character that is neither a digit nor
a point is exactly what the scanner consumes -/
theorem mantSplit_complete (m r : List Char) (hm : validMant m = true)
    (hr : r = [] ∨ ∃ c x, r = c :: x ∧ Lex.isDigit c = false ∧ c ≠ '.') :
    mantSplit (m ++ r) = some (m, r) := by
  have hr' : r = [] ∨ ∃ c x, r = c :: x ∧ Lex.isDigit c = false := by
    rcases hr with h | ⟨c, x, h, hc, _⟩
    · exact Or.inl h
    · exact Or.inr ⟨c, x, h, hc⟩
  rcases validMant_shape m hm with ⟨hne, hd⟩ | ⟨a, f, hmm, ha, hf, hne⟩
  · obtain ⟨ht, hdw⟩ := takeWhile_digits_append m r hd hr'
    unfold mantSplit
    simp only [ht, hdw]
    have hlt : r.length < (m ++ r).length := by
      rw [List.length_append]; have := List.length_pos_iff.mpr hne; omega
    simp only [hlt, ↓reduceIte]
    rcases hr with h | ⟨c, x, h, _, hc⟩
    · subst h; rfl
    · subst h
      have : (c == '.') = false := by simpa using hc
      simp [this]
  · subst hmm
    have hfr := takeWhile_digits_append f r hf hr'
    by_cases hae : a = []
    · subst hae
      have hfne : f ≠ [] := by rcases hne with h | h; exact absurd rfl h; exact h
      unfold mantSplit
      simp only [List.nil_append, List.cons_append]
      have hnd : ¬ (Lex.isDigit '.' = true) := by decide
      rw [List.takeWhile_cons_of_neg hnd, List.dropWhile_cons_of_neg hnd]
      simp only [Nat.lt_irrefl, ↓reduceIte, hfr.1, hfr.2]
      have hlt : r.length < (f ++ r).length := by
        rw [List.length_append]; have := List.length_pos_iff.mpr hfne; omega
      simp [hlt, hfne]
    · have hsp := takeWhile_digits_append a ('.' :: (f ++ r)) ha (Or.inr ⟨'.', f ++ r, rfl, by decide⟩)
      unfold mantSplit
      have e : a ++ '.' :: f ++ r = a ++ '.' :: (f ++ r) := by simp
      rw [e]
      simp only [hsp.1, hsp.2]
      have hlt : ('.' :: (f ++ r)).length < (a ++ '.' :: (f ++ r)).length := by
        rw [List.length_append]; have := List.length_pos_iff.mpr hae; omega
      simp only [hlt, ↓reduceIte, hfr.1, hfr.2]
      simp

end EPV.LexLemmas

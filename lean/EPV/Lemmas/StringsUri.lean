/- C09 helper lemmas, part 6: urllib.parse.quote (byte-wise) = F&O percent-encoding (character-wise). -/
import EPV.Model.Strings
namespace EPV.Strings
open EPV.FOStrings (Str Num Err)

theorem or_lead (i a x : Nat) (hx : x < 2 ^ i) : (2 ^ i * a) ||| x = 2 ^ i * a + x :=
  (Nat.two_pow_add_eq_or_of_lt hx a).symm

theorem and63 (c : Nat) : c &&& 0x3F = c % 64 := Nat.and_two_pow_sub_one_eq_mod c 6

theorem utf8Char_eq_spec (c : Nat) : utf8Char c = FOStrings.utf8 c := by
  unfold utf8Char FOStrings.utf8
  simp only [and63, Nat.shiftRight_eq_div_pow]
  have e80 : ∀ x, x < 64 → 0x80 ||| x = 0x80 + x := fun x hx => or_lead 6 2 x hx
  split
  · rfl
  · split
    · rename_i h1 h2
      have : 0xC0 ||| c / 2 ^ 6 = 0xC0 + c / 64 := or_lead 5 6 (c / 2 ^ 6) (by omega)
      rw [this, e80 _ (Nat.mod_lt _ (by omega))]
    · split
      · rfl
      · split
        · rename_i h1 h2 h3 h4
          have : 0xE0 ||| c / 2 ^ 12 = 0xE0 + c / 4096 := or_lead 4 14 (c / 2 ^ 12) (by omega)
          rw [this, e80 _ (Nat.mod_lt _ (by omega)), e80 _ (Nat.mod_lt _ (by omega))]
        · split
          · rename_i h1 h2 h3 h4 h5
            have : 0xF0 ||| c / 2 ^ 18 = 0xF0 + c / 262144 := or_lead 3 30 (c / 2 ^ 18) (by omega)
            rw [this, e80 _ (Nat.mod_lt _ (by omega)), e80 _ (Nat.mod_lt _ (by omega)),
              e80 _ (Nat.mod_lt _ (by omega))]
          · rfl

theorem hexUpper_eq (n : Nat) : hexUpper n = FOStrings.hexDigit n := by
  unfold hexUpper FOStrings.hexDigit
  split <;> omega

/-- every byte of a multi-byte UTF-8 sequence is ≥ 0x80 -/
theorem utf8_bytes (c : Nat) (bs : List Nat) (h : FOStrings.utf8 c = some bs) :
    (c < 128 ∧ bs = [c]) ∨ (128 ≤ c ∧ ∀ b ∈ bs, 128 ≤ b) := by
  unfold FOStrings.utf8 at h
  split at h
  · left; simp at h; exact ⟨by omega, h.symm⟩
  · right
    refine ⟨by omega, ?_⟩
    split at h
    · simp at h; subst h; intro b hb; simp at hb; omega
    · split at h
      · simp at h
      · split at h
        · simp at h; subst h; intro b hb; simp at hb; omega
        · split at h
          · simp at h; subst h; intro b hb; simp at hb; omega
          · simp at h

theorem quote_eq_escape (safe : List Nat) (allowed : Nat → Bool)
    (h1 : ∀ b, b < 128 → (alwaysSafe b || safe.contains b) = allowed b)
    (h2 : ∀ b, 128 ≤ b → (alwaysSafe b || safe.contains b) = false ∧ allowed b = false) (s : Str) :
    quote safe s = FOStrings.escape allowed s := by
  have hq : ∀ b, quoteByte safe b = if (alwaysSafe b || safe.contains b) then [b] else FOStrings.pct b := by
    intro b
    unfold quoteByte FOStrings.pct
    simp only [hexUpper_eq]
  have hbytes : ∀ bs : List Nat, (∀ b ∈ bs, 128 ≤ b) → bs.flatMap (quoteByte safe) = bs.flatMap FOStrings.pct := by
    intro bs hbs
    induction bs with
    | nil => rfl
    | cons b bs ih =>
      simp only [List.flatMap_cons]
      rw [ih (fun x hx => hbs x (by simp [hx])), hq b, (h2 b (hbs b (by simp))).1]
      rfl
  unfold quote FOStrings.escape
  induction s with
  | nil => rfl
  | cons c cs ih =>
    simp only [utf8, utf8Char_eq_spec, List.mapM_cons]
    cases hu : FOStrings.utf8 c with
    | none =>
      have hna : allowed c = false := by
        by_cases hc : c < 128
        · unfold FOStrings.utf8 at hu; simp [show c < 0x80 from hc] at hu
        · exact (h2 c (by omega)).2
      simp [FOStrings.escapeChar, hna, hu, bind, Except.bind, Except.map]
    | some bs =>
      cases hr : utf8 cs with
      | none =>
        simp only [hr] at ih
        have he : List.mapM (FOStrings.escapeChar allowed) cs = .error .encode := by
          cases hm : List.mapM (FOStrings.escapeChar allowed) cs with
          | error e => cases e <;> simp [hm, Except.map] at ih ⊢
          | ok v => simp [hm, Except.map] at ih
        simp only [he]
        have hok : ∃ x, FOStrings.escapeChar allowed c = .ok x := by
          unfold FOStrings.escapeChar; rw [hu]; split <;> exact ⟨_, rfl⟩
        obtain ⟨x, hx⟩ := hok
        simp [hx, bind, Except.bind, Except.map]
      | some rest =>
        simp only [hr] at ih
        cases hm : List.mapM (FOStrings.escapeChar allowed) cs with
        | error e => simp [hm, Except.map] at ih
        | ok v =>
          simp only [hm, Except.map, Except.ok.injEq] at ih
          rcases utf8_bytes c bs hu with ⟨hc, hbs⟩ | ⟨hc, hbs⟩
          · subst hbs
            by_cases ha : allowed c = true
            · have hqc : quoteByte safe c = [c] := by rw [hq, h1 c hc, ha]; rfl
              simp [FOStrings.escapeChar, ha, bind, Except.bind, Except.map, pure, Except.pure, hqc, ih]
            · have ha' : allowed c = false := by simpa using ha
              have hqc : quoteByte safe c = FOStrings.pct c := by rw [hq, h1 c hc, ha']; rfl
              simp [FOStrings.escapeChar, ha', hu, bind, Except.bind, Except.map, pure, Except.pure, hqc, ih]
          · have ha' : allowed c = false := (h2 c hc).2
            simp [FOStrings.escapeChar, ha', hu, bind, Except.bind, Except.map, pure, Except.pure,
              hbytes bs hbs, ih]

theorem alwaysSafe_lt (b : Nat) (h : alwaysSafe b = true) : b < 128 := by
  unfold alwaysSafe at h
  simp only [Bool.or_eq_true, Bool.and_eq_true, decide_eq_true_eq, beq_iff_eq] at h
  omega

theorem safe_false_of_ge (safe : List Nat) (hs : ∀ x ∈ safe, x < 128) (b : Nat) (hb : 128 ≤ b) :
    (alwaysSafe b || safe.contains b) = false := by
  cases h : (alwaysSafe b || safe.contains b)
  · rfl
  · simp only [Bool.or_eq_true, List.contains_iff_mem] at h
    rcases h with h | h
    · have := alwaysSafe_lt b h; omega
    · have := hs b h; omega

theorem encodeForUri_eq_spec (s : Str) : encodeForUri s = FOStrings.encodeForUri s := by
  apply quote_eq_escape
  · decide
  · intro b hb
    refine ⟨safe_false_of_ge _ (by decide) b hb, ?_⟩
    unfold FOStrings.unreserved FOStrings.isAlnum
    simp only [Bool.or_eq_false_iff, Bool.and_eq_false_iff, decide_eq_false_iff_not, beq_eq_false_iff_ne]
    omega

theorem iriToUri_eq_spec (s : Str) : iriToUri s = FOStrings.iriToUri s := by
  apply quote_eq_escape
  · decide
  · intro b hb
    refine ⟨safe_false_of_ge _ (by decide) b hb, ?_⟩
    unfold FOStrings.iriAllowed
    simp only [Bool.and_eq_false_iff, decide_eq_false_iff_not]
    omega

theorem escapeHtmlUri_eq_spec (s : Str) : escapeHtmlUri s = FOStrings.escapeHtmlUri s := by
  apply quote_eq_escape
  · decide
  · intro b hb
    refine ⟨safe_false_of_ge _ (by decide) b hb, ?_⟩
    unfold FOStrings.htmlAllowed
    simp only [Bool.and_eq_false_iff, decide_eq_false_iff_not]
    omega

/-! ### shape of the output, idempotence -/

theorem utf8_byte_lt (c : Nat) (bs : List Nat) (h : FOStrings.utf8 c = some bs) : ∀ b ∈ bs, b < 256 := by
  unfold FOStrings.utf8 at h
  split at h
  · simp at h; subst h; intro b hb; simp at hb; omega
  · split at h
    · simp at h; subst h; intro b hb; simp at hb; omega
    · split at h
      · simp at h
      · split at h
        · simp at h; subst h; intro b hb; simp at hb; omega
        · split at h
          · simp at h; subst h; intro b hb; simp at hb; omega
          · simp at h

/-- `%`, `0`–`9`, `A`–`F` -/
def isPctChar (c : Nat) : Bool := c == 0x25 || (0x30 ≤ c && c ≤ 0x39) || (0x41 ≤ c && c ≤ 0x46)

theorem pct_chars (b : Nat) (hb : b < 256) : ∀ c ∈ FOStrings.pct b, isPctChar c = true := by
  intro c hc
  unfold FOStrings.pct FOStrings.hexDigit at hc
  unfold isPctChar
  simp only [List.mem_cons, List.not_mem_nil, or_false] at hc
  simp only [Bool.or_eq_true, Bool.and_eq_true, decide_eq_true_eq, beq_iff_eq]
  rcases hc with rfl | rfl | rfl
  · omega
  · split <;> omega
  · split <;> omega

theorem escape_output (allowed : Nat → Bool) (s r : Str) (h : FOStrings.escape allowed s = .ok r) :
    ∀ c ∈ r, allowed c = true ∨ isPctChar c = true := by
  unfold FOStrings.escape at h
  induction s generalizing r with
  | nil => simp [Except.map, pure, Except.pure] at h; subst h; simp
  | cons x xs ih =>
    simp only [List.mapM_cons] at h
    cases hx : FOStrings.escapeChar allowed x with
    | error e => simp [hx, bind, Except.bind, Except.map] at h
    | ok v =>
      cases hm : List.mapM (FOStrings.escapeChar allowed) xs with
      | error e => simp [hx, hm, bind, Except.bind, Except.map] at h
      | ok vs =>
        simp [hx, hm, bind, Except.bind, Except.map, pure, Except.pure] at h
        subst h
        have ih' := ih vs.flatten (by simp [hm, Except.map])
        intro c hc
        simp only [List.mem_append] at hc
        rcases hc with hc | hc
        · unfold FOStrings.escapeChar at hx
          split at hx
          · simp at hx; subst hx; simp at hc; subst hc; left; assumption
          · split at hx
            · rename_i bs hu
              simp at hx; subst hx
              simp only [List.mem_flatMap] at hc
              obtain ⟨b, hb, hcb⟩ := hc
              right
              exact pct_chars b (utf8_byte_lt x bs hu b hb) c hcb
            · simp at hx
        · exact ih' c hc

theorem escape_allowed (allowed : Nat → Bool) (s : Str) (h : ∀ c ∈ s, allowed c = true) :
    FOStrings.escape allowed s = .ok s := by
  unfold FOStrings.escape
  induction s with
  | nil => rfl
  | cons x xs ih =>
    have hx : FOStrings.escapeChar allowed x = .ok [x] := by
      unfold FOStrings.escapeChar; simp [h x (by simp)]
    have ih' := ih (fun c hc => h c (by simp [hc]))
    cases hm : List.mapM (FOStrings.escapeChar allowed) xs with
    | error e => simp [hm, Except.map] at ih'
    | ok vs =>
      simp [hm, Except.map] at ih'
      simp [List.mapM_cons, hx, hm, bind, Except.bind, Except.map, pure, Except.pure, ih']

/-- escaping is idempotent as soon as `%` and the hexadecimal digits are themselves allowed -/
theorem escape_idempotent (allowed : Nat → Bool) (hp : ∀ c, isPctChar c = true → allowed c = true)
    (s r : Str) (h : FOStrings.escape allowed s = .ok r) : FOStrings.escape allowed r = .ok r := by
  apply escape_allowed
  intro c hc
  rcases escape_output allowed s r h c hc with h' | h'
  · exact h'
  · exact hp c h'
end EPV.Strings

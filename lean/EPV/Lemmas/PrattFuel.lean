/-
C04 helper: the fuel that `parse` supplies (`2 * length + 2`) is never exhausted: the model's `Err.fuel`
is unreachable from `parse`, so a model error is a genuine syntax error of the modelled parser.
-/
import EPV.Model.Pratt
namespace EPV.Pratt
open EPV.Syn

/-- results never grow the token list: `expr` consumes at least one token, `loop` none or more -/
theorem consumes (T : Tbl) : ∀ f,
    (∀ rbp toks t rest, expr T f rbp toks = .ok (t, rest) → rest.length < toks.length) ∧
    (∀ rbp left toks t rest, loop T f rbp left toks = .ok (t, rest) → rest.length ≤ toks.length) := by
  intro f
  induction f with
  | zero => constructor <;> intros <;> simp [expr, loop] at *
  | succ f ih =>
    obtain ⟨ihe, ihl⟩ := ih
    constructor
    · intro rbp toks t rest h
      match toks with
      | [] => simp [expr] at h
      | .ty _ :: tl => simp [expr] at h
      | .close _ :: tl => simp [expr] at h
      | .atom k n :: tl =>
        simp only [expr] at h
        have := ihl _ _ _ _ _ h
        simp; omega
      | .op o :: tl =>
        simp only [expr] at h
        split at h
        · split at h
          · simp at h
          · split at h
            · rename_i x rest' hx
              have h1 := ihe _ _ _ _ hx
              have h2 := ihl _ _ _ _ _ h
              simp; omega
            · simp at h
        · split at h
          · rename_i c' rest'
            split at h
            · have h2 := ihl _ _ _ _ _ h
              simp; omega
            · simp at h
          · split at h
            · rename_i e c' rest' he
              split at h
              · have h1 := ihe _ _ _ _ he
                have h2 := ihl _ _ _ _ _ h
                simp at h1 ⊢; omega
              · simp at h
            · simp at h
            · simp at h
        · simp at h
        · simp at h
    · intro rbp left toks t rest h
      match toks with
      | [] => simp [loop] at h; obtain ⟨-, rfl⟩ := h; simp
      | .atom _ _ :: tl => simp [loop] at h; obtain ⟨-, rfl⟩ := h; simp
      | .ty _ :: tl => simp [loop] at h; obtain ⟨-, rfl⟩ := h; simp
      | .close _ :: tl => simp [loop] at h; obtain ⟨-, rfl⟩ := h; simp
      | .op o :: tl =>
        simp only [loop] at h
        split at h
        · split at h
          · split at h
            · simp at h
            · split at h
              · simp at h
              · split at h
                · rename_i x rest' hx
                  have h1 := ihe _ _ _ _ hx
                  have h2 := ihl _ _ _ _ _ h
                  simp; omega
                · simp at h
          · split at h
            · simp at h
            · split at h
              · have h2 := ihl _ _ _ _ _ h
                simp at h2 ⊢; omega
              · simp at h
          · split at h
            · simp at h
            · split at h
              · split at h
                · have h2 := ihl _ _ _ _ _ h
                  simp at h2 ⊢; omega
                · simp at h
              · split at h
                · rename_i e c' rest' he
                  split at h
                  · have h1 := ihe _ _ _ _ he
                    have h2 := ihl _ _ _ _ _ h
                    simp at h1 ⊢; omega
                  · simp at h
                · simp at h
                · simp at h
          · split at h
            · simp at h
            · split at h
              · rename_i s rest1 hs
                split at h
                · rename_i a rest2 ha
                  split at h
                  · have h1 := ihe _ _ _ _ hs
                    have h1' := ihe _ _ _ _ ha
                    have h2 := ihl _ _ _ _ _ h
                    simp; omega
                  · simp at h
                · simp at h
              · simp at h
          · simp at h
          · simp at h
        · simp at h; obtain ⟨-, rfl⟩ := h; simp

theorem no_fuel_error (T : Tbl) : ∀ f,
    (∀ rbp toks, 2 * toks.length + 1 ≤ f → expr T f rbp toks ≠ .error .fuel) ∧
    (∀ rbp left toks, 2 * toks.length + 1 ≤ f → loop T f rbp left toks ≠ .error .fuel) := by
  intro f
  induction f with
  | zero => constructor <;> intros <;> omega
  | succ f ih =>
    obtain ⟨ihe, ihl⟩ := ih
    have hc := consumes T f
    constructor
    · intro rbp toks hf
      match toks with
      | [] => simp [expr]
      | .ty _ :: tl => simp [expr]
      | .close _ :: tl => simp [expr]
      | .atom k n :: tl =>
        simp only [expr]
        exact ihl _ _ _ (by simp at hf; omega)
      | .op o :: tl =>
        simp only [expr]
        simp only [List.length_cons] at hf
        split
        · split
          · simp
          · split
            · rename_i x rest' hx
              have := hc.1 _ _ _ _ hx
              exact ihl _ _ _ (by omega)
            · rename_i e hx
              intro he
              simp only [Except.error.injEq] at he
              subst he
              exact ihe _ _ (by omega) hx
        · split
          · rename_i c' rest'
            split
            · exact ihl _ _ _ (by simp at hf ⊢; omega)
            · simp
          · split
            · rename_i e c' rest' he
              split
              · have := hc.1 _ _ _ _ he
                exact ihl _ _ _ (by simp at this; omega)
              · simp
            · simp
            · rename_i e hx
              intro he
              simp only [Except.error.injEq] at he
              subst he
              exact ihe _ _ (by omega) hx
        · simp
        · simp
    · intro rbp left toks hf
      match toks with
      | [] => simp [loop]
      | .atom _ _ :: tl => simp [loop]
      | .ty _ :: tl => simp [loop]
      | .close _ :: tl => simp [loop]
      | .op o :: tl =>
        simp only [loop]
        simp only [List.length_cons] at hf
        split
        · split
          · split
            · simp
            · split
              · simp
              · split
                · rename_i x rest' hx
                  have := hc.1 _ _ _ _ hx
                  exact ihl _ _ _ (by omega)
                · rename_i e hx
                  intro he
                  simp only [Except.error.injEq] at he
                  subst he
                  exact ihe _ _ (by omega) hx
          · split
            · simp
            · split
              · exact ihl _ _ _ (by simp at hf ⊢; omega)
              · simp
          · split
            · simp
            · split
              · split
                · exact ihl _ _ _ (by simp at hf ⊢; omega)
                · simp
              · split
                · rename_i e c' rest' he
                  split
                  · have := hc.1 _ _ _ _ he
                    exact ihl _ _ _ (by simp at this; omega)
                  · simp
                · simp
                · rename_i e hx
                  intro he
                  simp only [Except.error.injEq] at he
                  subst he
                  exact ihe _ _ (by omega) hx
          · split
            · simp
            · split
              · rename_i s rest1 hs
                have h1 := hc.1 _ _ _ _ hs
                split
                · rename_i a rest2 ha
                  have h1' := hc.1 _ _ _ _ ha
                  split
                  · exact ihl _ _ _ (by omega)
                  · simp
                · rename_i e ha
                  intro he
                  simp only [Except.error.injEq] at he
                  subst he
                  exact ihe _ _ (by omega) ha
              · rename_i e hs
                intro he
                simp only [Except.error.injEq] at he
                subst he
                exact ihe _ _ (by omega) hs
          · simp
          · simp
        · simp

end EPV.Pratt

/-
C08 kernel lemma: `rnd` (round-to-nearest-even of a rational to binary64) is monotone.
Consequence (EPV/Lemmas/SeqFunsMinMax.lean): the promotion to xs:double preserves order, so
fn:max / fn:min may compare exactly and promote afterwards.
-/
import EPV.Model.SeqFunsNum
namespace EPV.Seq

/-! ### ⌊log2⌋ -/

theorem log2Fuel_spec : ∀ (fuel k : Nat), 1 ≤ k → k ≤ fuel →
    2 ^ log2Fuel fuel k ≤ k ∧ k < 2 ^ (log2Fuel fuel k + 1) := by
  intro fuel
  induction fuel with
  | zero => intro k h1 h2; omega
  | succ fuel ih =>
    intro k h1 h2
    unfold log2Fuel
    by_cases hk : k < 2
    · have : k = 1 := by omega
      subst this; simp
    · simp only [hk, if_false]
      have h := ih (k / 2) (by omega) (by omega)
      have e1 : 2 ^ (1 + log2Fuel fuel (k / 2)) = 2 * 2 ^ log2Fuel fuel (k / 2) := by
        rw [Nat.add_comm, Nat.pow_succ, Nat.mul_comm]
      have e2 : 2 ^ (1 + log2Fuel fuel (k / 2) + 1) = 2 * 2 ^ (log2Fuel fuel (k / 2) + 1) := by
        rw [Nat.pow_succ, Nat.mul_comm, Nat.add_comm 1]
      rw [e1, e2]
      omega

theorem natLog2_spec (n : Nat) (h : 1 ≤ n) : 2 ^ natLog2 n ≤ n ∧ n < 2 ^ (natLog2 n + 1) :=
  log2Fuel_spec n n h (Nat.le_refl n)

theorem natLog2Scaled_spec (A : Nat) (h : 1 ≤ A) :
    2 ^ natLog2Scaled A ≤ A ∧ A < 2 ^ (natLog2Scaled A + 1) := by
  unfold natLog2Scaled
  by_cases hm : A % 2 ^ 1074 = 0
  · simp only [hm, if_true]
    have hA : A = A / 2 ^ 1074 * 2 ^ 1074 := by
      have := Nat.div_add_mod A (2 ^ 1074)
      rw [hm, Nat.add_zero, Nat.mul_comm] at this
      exact this.symm
    have hq : 1 ≤ A / 2 ^ 1074 := by
      apply Classical.byContradiction
      intro hn
      have : A / 2 ^ 1074 = 0 := by omega
      rw [this, Nat.zero_mul] at hA
      omega
    obtain ⟨a1, a2⟩ := natLog2_spec (A / 2 ^ 1074) hq
    generalize natLog2 (A / 2 ^ 1074) = l at *
    generalize A / 2 ^ 1074 = q at *
    have pK : 0 < 2 ^ 1074 := Nat.pow_pos (by decide)
    rw [hA]
    constructor
    · rw [Nat.pow_add]; exact Nat.mul_le_mul_right _ a1
    · have : l + 1074 + 1 = (l + 1) + 1074 := by omega
      rw [this, Nat.pow_add]; exact Nat.mul_lt_mul_of_pos_right a2 pK
  · simp only [hm, if_false]
    exact natLog2_spec A h

/-! ### rounding a quotient half-to-even -/

theorem rhe_ge (p q : Nat) : p / q ≤ rhe p q := by
  unfold rhe; split <;> omega

theorem rhe_le (p q : Nat) : rhe p q ≤ p / q + 1 := by
  unfold rhe; split <;> omega

/-- `p < c * q` → the rounded quotient is at most `c` -/
theorem rhe_le_of_lt (p q c : Nat) (hq : 0 < q) (h : p < c * q) : rhe p q ≤ c := by
  have : p / q < c := (Nat.div_lt_iff_lt_mul hq).mpr h
  have := rhe_le p q
  omega

/-- `c * q ≤ p` → the rounded quotient is at least `c` -/
theorem le_rhe_of_le (p q c : Nat) (hq : 0 < q) (h : c * q ≤ p) : c ≤ rhe p q := by
  have : c ≤ p / q := (Nat.le_div_iff_mul_le hq).mpr h
  exact Nat.le_trans this (rhe_ge p q)

theorem div_le_div_cross (p1 q1 p2 q2 : Nat) (h1 : 0 < q1) (h2 : 0 < q2) (h : p1 * q2 ≤ p2 * q1) :
    p1 / q1 ≤ p2 / q2 := by
  rw [Nat.le_div_iff_mul_le h2]
  -- (p1/q1) * q2 * q1 ≤ p1 * q2 ≤ p2 * q1
  have a : p1 / q1 * q1 ≤ p1 := Nat.div_mul_le_self p1 q1
  have b : p1 / q1 * q2 * q1 ≤ p2 * q1 := by
    calc p1 / q1 * q2 * q1 = p1 / q1 * q1 * q2 := by rw [Nat.mul_right_comm]
      _ ≤ p1 * q2 := Nat.mul_le_mul_right _ a
      _ ≤ p2 * q1 := h
  exact Nat.le_of_mul_le_mul_right b h1

/-- rounding half-to-even is monotone in the quotient -/
theorem rhe_mono (p1 q1 p2 q2 : Nat) (h1 : 0 < q1) (h2 : 0 < q2) (h : p1 * q2 ≤ p2 * q1) :
    rhe p1 q1 ≤ rhe p2 q2 := by
  have hm := div_le_div_cross p1 q1 p2 q2 h1 h2 h
  by_cases hlt : p1 / q1 < p2 / q2
  · have := rhe_le p1 q1
    have := rhe_ge p2 q2
    omega
  · have hmeq : p1 / q1 = p2 / q2 := by omega
    -- the remainders are ordered like the quotients
    have d1 := Nat.div_add_mod p1 q1
    have d2 := Nat.div_add_mod p2 q2
    have hr : p1 % q1 * q2 ≤ p2 % q2 * q1 := by
      have e1 : p1 * q2 = q1 * (p2 / q2) * q2 + p1 % q1 * q2 := by
        rw [← Nat.add_mul, ← hmeq, d1]
      have e2 : p2 * q1 = q2 * (p2 / q2) * q1 + p2 % q2 * q1 := by
        rw [← Nat.add_mul, d2]
      have e3 : q1 * (p2 / q2) * q2 = q2 * (p2 / q2) * q1 := by
        rw [Nat.mul_comm q1, Nat.mul_comm q2, Nat.mul_assoc, Nat.mul_assoc, Nat.mul_comm q1]
      omega
    unfold rhe
    rw [hmeq]
    by_cases up1 : 2 * (p1 % q1) > q1 ∨ (2 * (p1 % q1) = q1 ∧ p2 / q2 % 2 = 1)
    · have up2 : 2 * (p2 % q2) > q2 ∨ (2 * (p2 % q2) = q2 ∧ p2 / q2 % 2 = 1) := by
        have a1 : 2 * (p1 % q1) * q2 ≤ 2 * (p2 % q2) * q1 := by
          rw [Nat.mul_assoc, Nat.mul_assoc]; exact Nat.mul_le_mul_left 2 hr
        rcases up1 with g | ⟨g, hodd⟩
        · left
          have a2 : q1 * q2 < 2 * (p1 % q1) * q2 := Nat.mul_lt_mul_of_pos_right g h2
          apply Classical.byContradiction
          intro hn
          have a3 : 2 * (p2 % q2) * q1 ≤ q2 * q1 := Nat.mul_le_mul_right q1 (by omega)
          rw [Nat.mul_comm q2 q1] at a3
          omega
        · have a2 : q1 * q2 = 2 * (p1 % q1) * q2 := by rw [g]
          by_cases hgt : 2 * (p2 % q2) > q2
          · left; exact hgt
          · right
            refine ⟨?_, hodd⟩
            apply Classical.byContradiction
            intro hne
            have hlt2 : 2 * (p2 % q2) < q2 := by omega
            have a3 : 2 * (p2 % q2) * q1 < q2 * q1 := Nat.mul_lt_mul_of_pos_right hlt2 h1
            rw [Nat.mul_comm q2 q1] at a3
            omega
      simp only [up1, up2, if_true]
      omega
    · simp only [up1, if_false]
      split <;> omega

/-! ### the exponent chosen by `pickF` -/

theorem two_pow_pos (n : Nat) : 0 < 2 ^ n := Nat.pow_pos (by decide)

/-- `A / (d * 2^f)` is below 2^53, and at least 2^52 unless `f = 0` (subnormal range) -/
theorem pickF_spec (A d : Nat) (hA : 1 ≤ A) (hd : 1 ≤ d) :
    A < 2 ^ 53 * (d * 2 ^ pickF A d) ∧ (pickF A d ≠ 0 → 2 ^ 52 * (d * 2 ^ pickF A d) ≤ A) := by
  obtain ⟨a1, a2⟩ := natLog2Scaled_spec A hA
  obtain ⟨b1, b2⟩ := natLog2_spec d hd
  unfold pickF
  generalize natLog2Scaled A = lA at *
  generalize natLog2 d = ld at *
  simp only []
  by_cases ht : ((lA : Int) - (ld : Int) - 52) ≤ 0
  · simp only [ht, if_true, Nat.pow_zero, Nat.mul_one, ne_eq, not_true_eq_false, false_implies, and_true]
    have h1 : lA + 1 ≤ ld + 53 := by omega
    calc A < 2 ^ (lA + 1) := a2
      _ ≤ 2 ^ (ld + 53) := Nat.pow_le_pow_right (by decide) h1
      _ = 2 ^ 53 * 2 ^ ld := by rw [Nat.pow_add, Nat.mul_comm]
      _ ≤ 2 ^ 53 * d := Nat.mul_le_mul_left _ b1
  · simp only [ht, if_false]
    generalize hT : ((lA : Int) - (ld : Int) - 52).toNat = T
    have hTpos : 1 ≤ T := by omega
    have hlA : lA = ld + 52 + T := by omega
    have hq : 0 < d * 2 ^ T := Nat.mul_pos hd (two_pow_pos T)
    by_cases hq0 : A / (d * 2 ^ T) < 2 ^ 52
    · simp only [hq0, if_true]
      have hlt : A < 2 ^ 52 * (d * 2 ^ T) := (Nat.div_lt_iff_lt_mul hq).mp hq0
      have eT : 2 ^ T = 2 * 2 ^ (T - 1) := by
        have : T = (T - 1) + 1 := by omega
        rw [this, Nat.pow_succ, Nat.mul_comm]; simp
      constructor
      · calc A < 2 ^ 52 * (d * 2 ^ T) := hlt
          _ = 2 ^ 53 * (d * 2 ^ (T - 1)) := by
            rw [eT, show (2 : Nat) ^ 53 = 2 ^ 52 * 2 from by rw [Nat.pow_succ]]
            rw [Nat.mul_assoc]; congr 1
            rw [Nat.mul_left_comm]
      · intro _
        -- d * 2^(T-1) < 2^(ld+1) * 2^(T-1) = 2^(ld+T)
        have h1 : d * 2 ^ (T - 1) < 2 ^ (ld + 1) * 2 ^ (T - 1) :=
          Nat.mul_lt_mul_of_pos_right b2 (two_pow_pos _)
        have h2 : 2 ^ (ld + 1) * 2 ^ (T - 1) = 2 ^ (ld + T) := by
          rw [← Nat.pow_add]; congr 1; omega
        have h3 : 2 ^ 52 * (d * 2 ^ (T - 1)) < 2 ^ 52 * 2 ^ (ld + T) := by
          rw [← h2]; exact Nat.mul_lt_mul_of_pos_left h1 (two_pow_pos 52)
        have h4 : 2 ^ 52 * 2 ^ (ld + T) = 2 ^ lA := by
          rw [← Nat.pow_add, hlA]; congr 1; omega
        omega
    · simp only [hq0, if_false]
      constructor
      · calc A < 2 ^ (lA + 1) := a2
          _ = 2 ^ 53 * (2 ^ ld * 2 ^ T) := by
            rw [← Nat.pow_add, ← Nat.pow_add, hlA]; congr 1; omega
          _ ≤ 2 ^ 53 * (d * 2 ^ T) :=
            Nat.mul_le_mul_left _ (Nat.mul_le_mul_right _ b1)
      · intro _
        have : 2 ^ 52 ≤ A / (d * 2 ^ T) := by omega
        exact (Nat.le_div_iff_mul_le hq).mp this

/-! ### the rounded value, in units of 2^-1074, is monotone -/

/-- mantissa times 2^exponent: the rounded value of `A / d` -/
def sv (A d : Nat) : Nat := rhe A (d * 2 ^ pickF A d) * 2 ^ pickF A d

theorem sv_mono (A1 d1 A2 d2 : Nat) (hA1 : 1 ≤ A1) (hA2 : 1 ≤ A2) (hd1 : 1 ≤ d1) (hd2 : 1 ≤ d2)
    (h : A1 * d2 ≤ A2 * d1) : sv A1 d1 ≤ sv A2 d2 := by
  obtain ⟨u1, l1⟩ := pickF_spec A1 d1 hA1 hd1
  obtain ⟨u2, l2⟩ := pickF_spec A2 d2 hA2 hd2
  unfold sv
  generalize pickF A1 d1 = f1 at *
  generalize pickF A2 d2 = f2 at *
  have q1 : 0 < d1 * 2 ^ f1 := Nat.mul_pos hd1 (two_pow_pos _)
  have q2 : 0 < d2 * 2 ^ f2 := Nat.mul_pos hd2 (two_pow_pos _)
  rcases Nat.lt_trichotomy f1 f2 with hlt | heq | hgt
  · -- a smaller exponent: m1 ≤ 2^53 and 2^52 ≤ m2
    have m1 : rhe A1 (d1 * 2 ^ f1) ≤ 2 ^ 53 := rhe_le_of_lt _ _ _ q1 u1
    have m2 : 2 ^ 52 ≤ rhe A2 (d2 * 2 ^ f2) := le_rhe_of_le _ _ _ q2 (l2 (by omega))
    have e : 2 ^ f2 = 2 ^ (f1 + 1) * 2 ^ (f2 - (f1 + 1)) := by
      rw [← Nat.pow_add]; congr 1; omega
    calc rhe A1 (d1 * 2 ^ f1) * 2 ^ f1 ≤ 2 ^ 53 * 2 ^ f1 := Nat.mul_le_mul_right _ m1
      _ = 2 ^ 52 * 2 ^ (f1 + 1) := by
        have a : (2 : Nat) ^ 53 = 2 ^ 52 * 2 := by decide
        have b : (2 : Nat) ^ (f1 + 1) = 2 * 2 ^ f1 := by rw [Nat.pow_succ, Nat.mul_comm]
        rw [a, b, Nat.mul_assoc]
      _ ≤ 2 ^ 52 * 2 ^ f2 := by
        rw [e]
        exact Nat.mul_le_mul_left _ (Nat.le_mul_of_pos_right _ (two_pow_pos _))
      _ ≤ rhe A2 (d2 * 2 ^ f2) * 2 ^ f2 := Nat.mul_le_mul_right _ m2
  · subst heq
    apply Nat.mul_le_mul_right
    apply rhe_mono _ _ _ _ q1 q2
    calc A1 * (d2 * 2 ^ f1) = A1 * d2 * 2 ^ f1 := by rw [Nat.mul_assoc]
      _ ≤ A2 * d1 * 2 ^ f1 := Nat.mul_le_mul_right _ h
      _ = A2 * (d1 * 2 ^ f1) := by rw [Nat.mul_assoc]
  · -- a larger exponent for the smaller quotient is impossible
    exfalso
    have l1' := l1 (by omega)
    have e : 2 ^ f1 = 2 ^ f2 * 2 ^ (f1 - f2) := by
      rw [← Nat.pow_add]; congr 1; omega
    have g2 : 2 ≤ 2 ^ (f1 - f2) := by
      have : 2 ^ 1 ≤ 2 ^ (f1 - f2) := Nat.pow_le_pow_right (by decide) (by omega)
      simpa using this
    have s1 : 2 ^ 52 * (d1 * 2 ^ f1) * d2 ≤ A1 * d2 := Nat.mul_le_mul_right _ l1'
    have s2 : A2 * d1 < 2 ^ 53 * (d2 * 2 ^ f2) * d1 := Nat.mul_lt_mul_of_pos_right u2 hd1
    have s3 : 2 ^ 53 * (d2 * 2 ^ f2) * d1 ≤ 2 ^ 52 * (d1 * 2 ^ f1) * d2 := by
      rw [e, show (2 : Nat) ^ 53 = 2 ^ 52 * 2 from by rw [Nat.pow_succ]]
      have : 2 ^ 52 * 2 * (d2 * 2 ^ f2) * d1 = 2 ^ 52 * d1 * d2 * 2 ^ f2 * 2 := by ac_rfl
      rw [this]
      have : 2 ^ 52 * (d1 * (2 ^ f2 * 2 ^ (f1 - f2))) * d2 = 2 ^ 52 * d1 * d2 * 2 ^ f2 * 2 ^ (f1 - f2) := by
        ac_rfl
      rw [this]
      exact Nat.mul_le_mul_left _ g2
    omega

/-! ### the value of `rnd n d` in terms of the scaled value -/

/-- 2^1024 in units of 2^-1074: the overflow threshold -/
def big : Nat := 2 ^ 2098

theorem ovf_iff (m f : Nat) (hm : m ≠ 0) : natLog2 m + f ≥ 2098 ↔ big ≤ m * 2 ^ f := by
  obtain ⟨a1, a2⟩ := natLog2_spec m (by omega)
  generalize natLog2 m = l at *
  unfold big
  constructor
  · intro h
    calc 2 ^ 2098 ≤ 2 ^ (l + f) := Nat.pow_le_pow_right (by decide) h
      _ = 2 ^ l * 2 ^ f := Nat.pow_add ..
      _ ≤ m * 2 ^ f := Nat.mul_le_mul_right _ a1
  · intro h
    apply Classical.byContradiction
    intro hn
    have h1 : m * 2 ^ f < 2 ^ (l + 1) * 2 ^ f := Nat.mul_lt_mul_of_pos_right a2 (two_pow_pos f)
    have h2 : 2 ^ (l + 1) * 2 ^ f = 2 ^ (l + 1 + f) := (Nat.pow_add ..).symm
    have h3 : 2 ^ (l + 1 + f) ≤ 2 ^ 2098 := Nat.pow_le_pow_right (by decide) (by omega)
    generalize 2 ^ 2098 = B at *
    omega

/-- what `packD` delivers: ±INF from `big` units on, otherwise a fraction worth `m * 2^f` units -/
theorem packD_val (neg : Bool) (m f : Nat) :
    (big ≤ m * 2 ^ f ∧ (packD neg m f).val = (if neg then .ninf else .pinf)) ∨
    (m * 2 ^ f < big ∧ ∃ (M Dn : Nat), 0 < Dn ∧
      (packD neg m f).val = .q (if neg then -(M : Int) else (M : Int)) Dn ∧ M * 2 ^ 1074 = m * 2 ^ f * Dn) := by
  have bigpos : 0 < big := two_pow_pos _
  by_cases hm : m = 0
  · subst hm
    right
    refine ⟨by simpa using bigpos, 0, 1, by decide, ?_, by simp⟩
    cases neg <;> simp [packD, D.val]
  · by_cases hov : natLog2 m + f ≥ 2098
    · left
      refine ⟨(ovf_iff m f hm).mp hov, ?_⟩
      cases neg <;> simp [packD, hm, hov, D.val]
    · right
      have hlt : m * 2 ^ f < big := by
        apply Classical.byContradiction
        intro h
        exact hov ((ovf_iff m f hm).mpr (Nat.le_of_not_lt h))
      refine ⟨hlt, ?_⟩
      by_cases hf : f ≥ 1074
      · have e : 2 ^ f = 2 ^ (f - 1074) * 2 ^ 1074 := by rw [← Nat.pow_add]; congr 1; omega
        refine ⟨m * 2 ^ (f - 1074), 2 ^ 0, two_pow_pos 0, ?_, by rw [e, Nat.pow_zero, Nat.mul_one, Nat.mul_assoc]⟩
        cases neg
        · simp only [packD, hm, hov, hf, if_true, if_false, D.val, Bool.false_eq_true]
          congr 1
        · simp only [packD, hm, hov, hf, if_true, if_false, D.val]
          have : (-(m : Int) * 2 ^ (f - 1074)) = -((m * 2 ^ (f - 1074) : Nat) : Int) := by
            rw [Int.neg_mul, Int.natCast_mul, Int.natCast_pow]; rfl
          rw [this]
      · have e : 2 ^ 1074 = 2 ^ f * 2 ^ (1074 - f) := by rw [← Nat.pow_add]; congr 1; omega
        refine ⟨m, 2 ^ (1074 - f), two_pow_pos _, ?_, by rw [e, Nat.mul_assoc]⟩
        cases neg <;> simp only [packD, hm, hov, hf, if_true, if_false, D.val, Bool.false_eq_true]

/-! ### comparison of two results from their scaled values -/

theorem q_le (Z1 Z2 S1 S2 K : Int) (D1 D2 : Nat) (hK : 0 < K) (h1 : Z1 * K = S1 * D1) (h2 : Z2 * K = S2 * D2)
    (hS : S1 ≤ S2) : XV.lt (.q Z2 D2) (.q Z1 D1) = false := by
  simp only [XV.lt, decide_eq_false_iff_not, Int.not_lt]
  -- Z1 * D2 ≤ Z2 * D1, after multiplication by K
  apply Int.le_of_mul_le_mul_right _ hK
  have a : Z1 * ↑D2 * K = S1 * (↑D1 * ↑D2) := by
    rw [Int.mul_right_comm, h1, Int.mul_assoc]
  have b : Z2 * ↑D1 * K = S2 * (↑D1 * ↑D2) := by
    rw [Int.mul_right_comm, h2, Int.mul_assoc, Int.mul_comm (↑D2 : Int)]
  rw [a, b]
  exact Int.mul_le_mul_of_nonneg_right hS (Int.mul_nonneg (Int.natCast_nonneg _) (Int.natCast_nonneg _))

theorem XV.lt_pinf_left (x : XV) : XV.lt .pinf x = false := by cases x <;> rfl
theorem XV.lt_ninf_right (x : XV) : XV.lt x .ninf = false := by cases x <;> rfl

/-- `v` is the extended value with `S` units of 2^-1074, saturating at ±2^1024 (`big` units) -/
def HasS (v : XV) (S : Int) : Prop :=
  ((big : Int) ≤ S ∧ v = .pinf) ∨ (S ≤ -(big : Int) ∧ v = .ninf) ∨
  (-(big : Int) < S ∧ S < (big : Int) ∧
    ∃ (Z : Int) (Dn : Nat), 0 < Dn ∧ v = .q Z Dn ∧ Z * ((2 ^ 1074 : Nat) : Int) = S * (Dn : Int))

theorem bigpos : (0 : Int) < (big : Int) := Int.natCast_pos.mpr (two_pow_pos _)

/-- values with ordered scaled values are ordered -/
theorem hasS_le (v1 v2 : XV) (S1 S2 : Int) (h1 : HasS v1 S1) (h2 : HasS v2 S2) (hS : S1 ≤ S2) :
    XV.lt v2 v1 = false := by
  have hK : (0 : Int) < ((2 ^ 1074 : Nat) : Int) := Int.natCast_pos.mpr (two_pow_pos _)
  have bp := bigpos
  rcases h2 with ⟨o2, rfl⟩ | ⟨o2, rfl⟩ | ⟨a2, b2, Z2, D2, p2, rfl, e2⟩
  · exact XV.lt_pinf_left _
  · rcases h1 with ⟨o1, rfl⟩ | ⟨o1, rfl⟩ | ⟨a1, b1, Z1, D1, p1, rfl, e1⟩
    · omega
    · rfl
    · omega
  · rcases h1 with ⟨o1, rfl⟩ | ⟨o1, rfl⟩ | ⟨a1, b1, Z1, D1, p1, rfl, e1⟩
    · omega
    · exact XV.lt_ninf_right _
    · exact q_le _ _ _ _ _ D1 D2 hK e1 e2 hS

theorem packD_hasS (neg : Bool) (m f : Nat) :
    HasS (packD neg m f).val (if neg then -((m * 2 ^ f : Nat) : Int) else ((m * 2 ^ f : Nat) : Int)) := by
  have bp := bigpos
  have cast_eq : ∀ (M U D : Nat), M * 2 ^ 1074 = U * D →
      (M : Int) * ((2 ^ 1074 : Nat) : Int) = (U : Int) * (D : Int) := by
    intro M U D h; rw [← Int.natCast_mul, ← Int.natCast_mul, h]
  rcases packD_val neg m f with ⟨o, v⟩ | ⟨l, M, Dn, p, v, e⟩
  · have o' : (big : Int) ≤ ((m * 2 ^ f : Nat) : Int) := Int.ofNat_le.mpr o
    cases neg
    · left; exact ⟨by simpa using o', by simpa using v⟩
    · right; left; exact ⟨by simp only [if_true]; omega, by simpa using v⟩
  · have l' : ((m * 2 ^ f : Nat) : Int) < (big : Int) := Int.ofNat_lt.mpr l
    have nn : (0 : Int) ≤ ((m * 2 ^ f : Nat) : Int) := Int.natCast_nonneg _
    right; right
    cases neg
    · refine ⟨by simp only [Bool.false_eq_true, if_false]; omega, by simpa using l', M, Dn, p, by simpa using v, ?_⟩
      simp only [Bool.false_eq_true, if_false]; exact cast_eq _ _ _ e
    · refine ⟨by simp only [if_true]; omega, by simp only [if_true]; omega, -(M : Int), Dn, p, by simpa using v, ?_⟩
      simp only [if_true]; rw [Int.neg_mul, Int.neg_mul, cast_eq _ _ _ e]

/-! ### monotonicity of `rnd` -/

/-- the signed rounded value of `n / d` in units of 2^-1074 -/
def sS (n : Int) (d : Nat) : Int :=
  if n < 0 then -(((if n = 0 then 0 else sv (n.natAbs * 2 ^ 1074) d) : Nat) : Int)
  else (((if n = 0 then 0 else sv (n.natAbs * 2 ^ 1074) d) : Nat) : Int)

theorem natAbs_scaled_pos (n : Int) (hn : n ≠ 0) : 1 ≤ n.natAbs * 2 ^ 1074 :=
  Nat.mul_pos (by omega) (two_pow_pos _)

/-- `rnd n d` has the scaled value `sS n d` -/
theorem rnd_hasS (n : Int) (d : Nat) (hd : 0 < d) : HasS (rnd n d).val (sS n d) := by
  by_cases hn : n = 0
  · subst hn
    have : rnd 0 d = packD false 0 0 := by simp [rnd, packD]
    rw [this]
    have := packD_hasS false 0 0
    simpa [sS] using this
  · have hd' : d ≠ 0 := by omega
    have e : rnd n d = packD (decide (n < 0))
        (rhe (n.natAbs * 2 ^ 1074) (d * 2 ^ pickF (n.natAbs * 2 ^ 1074) d)) (pickF (n.natAbs * 2 ^ 1074) d) := by
      simp only [rnd, hn, hd', or_self, if_false]
    rw [e]
    have := packD_hasS (decide (n < 0)) (rhe (n.natAbs * 2 ^ 1074) (d * 2 ^ pickF (n.natAbs * 2 ^ 1074) d))
      (pickF (n.natAbs * 2 ^ 1074) d)
    simpa only [sS, hn, if_false, sv, decide_eq_true_eq] using this

/-- the scaled value is monotone in the quotient -/
theorem sS_mono (n1 n2 : Int) (d1 d2 : Nat) (hd1 : 0 < d1) (hd2 : 0 < d2)
    (h : n1 * (d2 : Int) ≤ n2 * (d1 : Int)) : sS n1 d1 ≤ sS n2 d2 := by
  unfold sS
  have hd1' : (0 : Int) < (d1 : Int) := Int.natCast_pos.mpr hd1
  have hd2' : (0 : Int) < (d2 : Int) := Int.natCast_pos.mpr hd2
  have scale : ∀ (a1 a2 e1 e2 : Nat), a1 * e2 ≤ a2 * e1 → a1 * 2 ^ 1074 * e2 ≤ a2 * 2 ^ 1074 * e1 := by
    intro a1 a2 e1 e2 h'
    rw [Nat.mul_right_comm a1, Nat.mul_right_comm a2]
    exact Nat.mul_le_mul_right _ h'
  rcases Int.lt_trichotomy n1 0 with neg1 | zero1 | pos1
  · have hn1 : n1 ≠ 0 := by omega
    simp only [neg1, if_true, hn1, if_false]
    rcases Int.lt_trichotomy n2 0 with neg2 | zero2 | pos2
    · have hn2 : n2 ≠ 0 := by omega
      simp only [neg2, if_true, hn2, if_false]
      have habs : n2.natAbs * d1 ≤ n1.natAbs * d2 := by
        apply Int.ofNat_le.mp
        rw [Int.natCast_mul, Int.natCast_mul, Int.ofNat_natAbs_of_nonpos (by omega),
          Int.ofNat_natAbs_of_nonpos (by omega), Int.neg_mul, Int.neg_mul]
        omega
      have := sv_mono _ _ _ _ (natAbs_scaled_pos n2 hn2) (natAbs_scaled_pos n1 hn1) hd2 hd1 (scale _ _ _ _ habs)
      omega
    · subst zero2
      simp only [Int.lt_irrefl, if_false, if_true]
      omega
    · have hn2 : n2 ≠ 0 := by omega
      have : ¬ n2 < 0 := by omega
      simp only [this, if_false, hn2]
      omega
  · subst zero1
    simp only [Int.lt_irrefl, if_false, if_true, Int.zero_mul] at h ⊢
    have hn2 : 0 ≤ n2 := by
      apply Classical.byContradiction
      intro hneg
      have : n2 * (d1 : Int) < 0 := Int.mul_neg_of_neg_of_pos (by omega) hd1'
      omega
    have : ¬ n2 < 0 := by omega
    simp only [this, if_false]
    split <;> omega
  · have hn1 : n1 ≠ 0 := by omega
    have nn1 : ¬ n1 < 0 := by omega
    have pos2 : 0 < n2 := by
      apply Classical.byContradiction
      intro hneg
      have a : 0 < n1 * (d2 : Int) := Int.mul_pos pos1 hd2'
      have b : n2 * (d1 : Int) ≤ 0 := Int.mul_nonpos_of_nonpos_of_nonneg (by omega) (by omega)
      omega
    have hn2 : n2 ≠ 0 := by omega
    have nn2 : ¬ n2 < 0 := by omega
    simp only [nn1, nn2, if_false, hn1, hn2]
    have habs : n1.natAbs * d2 ≤ n2.natAbs * d1 := by
      apply Int.ofNat_le.mp
      rw [Int.natCast_mul, Int.natCast_mul, Int.natAbs_of_nonneg (by omega), Int.natAbs_of_nonneg (by omega)]
      exact h
    have := sv_mono _ _ _ _ (natAbs_scaled_pos n1 hn1) (natAbs_scaled_pos n2 hn2) hd1 hd2 (scale _ _ _ _ habs)
    exact Int.ofNat_le.mpr this

/-- **`rnd` is monotone**: `n1 / d1 ≤ n2 / d2` implies `rnd n1 d1 ≤ rnd n2 d2` (as extended values:
the second result is not below the first one). -/
theorem rnd_mono (n1 n2 : Int) (d1 d2 : Nat) (hd1 : 0 < d1) (hd2 : 0 < d2)
    (h : n1 * (d2 : Int) ≤ n2 * (d1 : Int)) :
    XV.lt (rnd n2 d2).val (rnd n1 d1).val = false :=
  hasS_le _ _ _ _ (rnd_hasS n1 d1 hd1) (rnd_hasS n2 d2 hd2) (sS_mono n1 n2 d1 d2 hd1 hd2 h)

/-! ### values with at most 53 significant bits are fixed points -/

theorem rhe_exact (q c : Nat) (hc : 0 < c) : rhe (q * c) c = q := by
  unfold rhe
  have h1 : q * c / c = q := Nat.mul_div_cancel q hc
  have h2 : q * c % c = 0 := Nat.mul_mod_left q c
  rw [h1, h2]
  have : ¬ (2 * 0 > c ∨ 2 * 0 = c ∧ q % 2 = 1) := by omega
  simp only [this, if_false]

/-- a quotient `A / d = m * 2^g` with `m < 2^53` is rounded to itself -/
theorem sv_exact (m g d : Nat) (hm0 : 1 ≤ m) (hm : m < 2 ^ 53) (hd : 1 ≤ d) :
    sv (m * 2 ^ g * d) d = m * 2 ^ g := by
  have hA : 1 ≤ m * 2 ^ g * d := Nat.mul_pos (Nat.mul_pos hm0 (two_pow_pos g)) hd
  obtain ⟨u, l⟩ := pickF_spec (m * 2 ^ g * d) d hA hd
  unfold sv
  generalize pickF (m * 2 ^ g * d) d = f at *
  -- the exponent does not exceed g
  have hfg : f ≤ g := by
    by_cases hf0 : f = 0
    · omega
    · have l' := l hf0
      apply Classical.byContradiction
      intro hgt
      have e : 2 ^ f = 2 ^ (g + 1) * 2 ^ (f - (g + 1)) := by rw [← Nat.pow_add]; congr 1; omega
      have g1 : 2 ^ (g + 1) ≤ 2 ^ f := by
        rw [e]; exact Nat.le_mul_of_pos_right _ (two_pow_pos _)
      -- 2^52 * d * 2^f ≤ m * 2^g * d < 2^53 * 2^g * d ≤ 2^52 * d * 2^f
      have a : m * 2 ^ g * d < 2 ^ 53 * 2 ^ g * d :=
        Nat.mul_lt_mul_of_pos_right (Nat.mul_lt_mul_of_pos_right hm (two_pow_pos g)) hd
      have b : 2 ^ 53 * 2 ^ g * d = 2 ^ 52 * (d * 2 ^ (g + 1)) := by
        have p53 : (2 : Nat) ^ 53 = 2 ^ 52 * 2 := by decide
        have pg : (2 : Nat) ^ (g + 1) = 2 ^ g * 2 := Nat.pow_succ ..
        rw [p53, pg]
        generalize (2 : Nat) ^ 52 = X
        generalize (2 : Nat) ^ g = Y
        ac_rfl
      have c : 2 ^ 52 * (d * 2 ^ (g + 1)) ≤ 2 ^ 52 * (d * 2 ^ f) :=
        Nat.mul_le_mul_left _ (Nat.mul_le_mul_left _ g1)
      omega
  have e : m * 2 ^ g * d = m * 2 ^ (g - f) * (d * 2 ^ f) := by
    have : 2 ^ g = 2 ^ (g - f) * 2 ^ f := by rw [← Nat.pow_add]; congr 1; omega
    rw [this]; ac_rfl
  rw [e, rhe_exact _ _ (Nat.mul_pos hd (two_pow_pos f)), Nat.mul_assoc, ← Nat.pow_add]
  congr 2; omega

/-- integers up to 2^53 in magnitude are promoted exactly -/
theorem sS_small_int (n : Int) (h : n.natAbs ≤ 2 ^ 53) : sS n 1 = n * ((2 ^ 1074 : Nat) : Int) := by
  unfold sS
  by_cases hn : n = 0
  · subst hn; simp
  · simp only [hn, if_false]
    have key : sv (n.natAbs * 2 ^ 1074) 1 = n.natAbs * 2 ^ 1074 := by
      by_cases hlt : n.natAbs < 2 ^ 53
      · have := sv_exact n.natAbs 1074 1 (by omega) hlt (Nat.le_refl 1)
        rwa [Nat.mul_one] at this
      · have heq : n.natAbs = 2 ^ 53 := by omega
        have := sv_exact (2 ^ 52) 1075 1 (two_pow_pos 52) (by decide) (Nat.le_refl 1)
        rw [Nat.mul_one] at this
        have e : (2 : Nat) ^ 52 * 2 ^ 1075 = 2 ^ 53 * 2 ^ 1074 := by
          rw [← Nat.pow_add, ← Nat.pow_add]
        rw [heq, ← e]; exact this
    rw [key]
    by_cases hneg : n < 0
    · simp only [hneg, if_true]
      rw [Int.natCast_mul, Int.ofNat_natAbs_of_nonpos (by omega), Int.neg_mul, Int.neg_neg]
    · simp only [hneg, if_false]
      rw [Int.natCast_mul, Int.natAbs_of_nonneg (by omega)]

/-- beyond 2^53 the nearest double is an integer (or ±INF) -/
theorem rnd_large_shape (n : Int) (h : 2 ^ 53 < n.natAbs) :
    rnd n 1 = .pinf ∨ rnd n 1 = .ninf ∨ ∃ M : Int, rnd n 1 = .fin M 0 := by
  have hn : n ≠ 0 := by
    intro h0; subst h0; simp at h
  have hA := natAbs_scaled_pos n hn
  obtain ⟨u, l⟩ := pickF_spec (n.natAbs * 2 ^ 1074) 1 hA (Nat.le_refl 1)
  have e : rnd n 1 = packD (decide (n < 0))
      (rhe (n.natAbs * 2 ^ 1074) (1 * 2 ^ pickF (n.natAbs * 2 ^ 1074) 1)) (pickF (n.natAbs * 2 ^ 1074) 1) := by
    simp only [rnd, hn, Nat.one_ne_zero, or_self, if_false]
  rw [e]
  generalize pickF (n.natAbs * 2 ^ 1074) 1 = f at *
  have hf : 1074 < f := by
    apply Classical.byContradiction
    intro hle
    have g1 : 2 ^ f ≤ 2 ^ 1074 := Nat.pow_le_pow_right (by decide) (by omega)
    have a : 2 ^ 53 * 2 ^ 1074 < n.natAbs * 2 ^ 1074 := Nat.mul_lt_mul_of_pos_right h (two_pow_pos _)
    have b : 2 ^ 53 * (1 * 2 ^ f) ≤ 2 ^ 53 * 2 ^ 1074 := by
      rw [Nat.one_mul]; exact Nat.mul_le_mul_left _ g1
    omega
  have hm : 2 ^ 52 ≤ rhe (n.natAbs * 2 ^ 1074) (1 * 2 ^ f) :=
    le_rhe_of_le _ _ _ (Nat.mul_pos (by decide) (two_pow_pos f)) (l (by omega))
  generalize rhe (n.natAbs * 2 ^ 1074) (1 * 2 ^ f) = m at *
  have hm0 : m ≠ 0 := by
    have := two_pow_pos 52; omega
  have hf' : f ≥ 1074 := by omega
  unfold packD
  simp only [hm0, if_false, hf', if_true]
  by_cases hov : natLog2 m + f ≥ 2098
  · simp only [hov, if_true]
    cases decide (n < 0) <;> simp
  · simp only [hov, if_false]
    right; right; exact ⟨_, rfl⟩

/-- a binary64 value has, exactly, the scaled value that `rnd` assigns to it -/
theorem isRep_hasS (M : Int) (k : Nat) (h : D.isRep (.fin M k) = true) :
    HasS (.q M (2 ^ k)) (sS M (2 ^ k)) := by
  have H := rnd_hasS M (2 ^ k) (two_pow_pos k)
  simp only [D.isRep] at h
  rcases H with ⟨_, v⟩ | ⟨_, v⟩ | ⟨a, b, Z, Dn, p, v, e⟩
  · rw [v] at h; simp [XV.eqv] at h
  · rw [v] at h; simp [XV.eqv] at h
  · rw [v] at h
    simp only [XV.eqv, decide_eq_true_eq] at h
    refine Or.inr (Or.inr ⟨a, b, M, 2 ^ k, two_pow_pos k, rfl, ?_⟩)
    have hD : (Dn : Int) ≠ 0 := by
      have : (0 : Int) < (Dn : Int) := Int.natCast_pos.mpr p
      omega
    apply Int.eq_of_mul_eq_mul_right hD
    generalize ((2 ^ 1074 : Nat) : Int) = K at *
    generalize ((2 ^ k : Nat) : Int) = P at *
    -- M * K * Dn = (M * Dn) * K = (Z * P) * K = (Z * K) * P = S * Dn * P
    calc M * K * ↑Dn = M * ↑Dn * K := by rw [Int.mul_right_comm]
      _ = Z * P * K := by rw [h]
      _ = Z * K * P := by rw [Int.mul_right_comm]
      _ = sS M (2 ^ k) * ↑Dn * P := by rw [e]
      _ = sS M (2 ^ k) * P * ↑Dn := by rw [Int.mul_right_comm]

end EPV.Seq

/-
C19 — helper lemmas for the sequential reading of the model (EPV/Model/Globals.lean):
enter/exit bracket, evaluation trees without nested locale scopes, histories.
-/
import EPV.Model.Globals
namespace EPV.Globals

/-- two states agree on everything except the ghost log -/
def State.same (a b : State) : Prop :=
  a.lock = b.lock ∧ a.lc = b.lc ∧ a.env = b.env ∧ a.dec = b.dec

theorem State.same_refl (a : State) : a.same a := ⟨rfl, rfl, rfl, rfl⟩

theorem State.same_trans {a b c : State} (h1 : a.same b) (h2 : b.same c) : a.same c :=
  ⟨h1.1.trans h2.1, h1.2.1.trans h2.2.1, h1.2.2.1.trans h2.2.2.1, h1.2.2.2.trans h2.2.2.2⟩

/-! ### `setloc` -/

theorem setloc_some {w : World} {σ σ' : State} {n : Loc} (h : setloc w σ n = some σ') :
    w.avail n = true ∧ σ'.lc = n ∧ σ'.lock = σ.lock ∧ σ'.env = σ.env ∧ σ'.dec = σ.dec := by
  unfold setloc at h
  split at h
  · cases h; simp_all
  · cases h

theorem setloc_none {w : World} {σ : State} {n : Loc} (h : setloc w σ n = none) :
    w.avail n = false := by
  unfold setloc at h
  split at h
  · cases h
  · simp_all

theorem setloc_avail {w : World} (σ : State) {n : Loc} (h : w.avail n = true) :
    ∃ σ', setloc w σ n = some σ' := by
  unfold setloc; simp [h]

/-! ### `enter` -/

/-- a manager without a locale does nothing on entry -/
theorem enter_noLocale (w : World) (m : Mgr) (σ : State) (h : m.lc = none) :
    enter w m σ = .ok none σ := by
  unfold enter; simp [h]

/-- `enter` on a free lock: either the scope is open (lock held, the old name saved, the current
locale is an installed one: the requested one or the fallback) or FOCH0002 was raised with the
lock released and the locale untouched.  It never blocks and never raises anything else. -/
theorem enter_free (w : World) (m : Mgr) (σ : State) (req : Req) (hm : m.lc = some req)
    (hl : σ.lock = false) :
    (∃ σ', enter w m σ = .ok (some σ.lc) σ' ∧ σ'.lock = true ∧ w.avail σ'.lc = true ∧
        (σ'.lc = w.norm req ∨ (m.fallback = true ∧ w.avail (w.norm req) = false ∧ σ'.lc = enUS)) ∧
        σ'.env = σ.env ∧ σ'.dec = σ.dec) ∨
    (∃ σ', enter w m σ = .err .FOCH0002 σ' ∧ σ'.same σ ∧ w.avail (w.norm req) = false ∧
        (m.fallback = true → w.avail enUS = false)) := by
  unfold enter
  simp only [hm, hl]
  cases h1 : setloc w { σ with lock := true } (w.norm req) with
  | some σ2 =>
    left
    have := setloc_some h1
    exact ⟨σ2, by simp, by simp_all, by simp_all, by simp_all, by simp_all, by simp_all⟩
  | none =>
    have hna := setloc_none h1
    cases hfb : m.fallback with
    | false =>
      right
      simp only [Bool.false_eq_true, ↓reduceIte]
      refine ⟨_, rfl, ?_, hna, by simp⟩
      simp [State.same, logFail, hl]
    | true =>
      cases h2 : setloc w (logFail { σ with lock := true } (w.norm req)) enUS with
      | some σ2 =>
        left
        have := setloc_some h2
        refine ⟨σ2, by simp, ?_, ?_, ?_, ?_, ?_⟩ <;> simp_all [logFail]
      | none =>
        right
        have := setloc_none h2
        simp only [↓reduceIte]
        refine ⟨_, rfl, ?_, hna, fun _ => this⟩
        simp [State.same, logFail, hl]

/-- `enter` on a held lock with a locale-switching manager blocks (non-reentrant lock) -/
theorem enter_held (w : World) (m : Mgr) (σ : State) (hm : m.lc.isSome = true)
    (hl : σ.lock = true) : enter w m σ = .stuck σ := by
  unfold enter
  cases h : m.lc with
  | none => simp [h] at hm
  | some r => simp [hl]

/-! ### `exit` / `finish` -/

theorem finish_none (w : World) (p : Out) (σ : State) : finish w none p σ = .ok p σ := by
  simp [finish, exit]

/-- leaving an open scope whose saved name is an installed locale: restored and released -/
theorem finish_some (w : World) (p : Out) (σ : State) (s : Loc) (hs : w.avail s = true) :
    ∃ σ', finish w (some s) p σ = .ok p σ' ∧ σ'.lock = false ∧ σ'.lc = s ∧
      σ'.env = σ.env ∧ σ'.dec = σ.dec := by
  obtain ⟨σ1, h1⟩ := setloc_avail σ hs
  have := setloc_some h1
  refine ⟨{ σ1 with lock := false }, ?_, rfl, ?_, ?_, ?_⟩ <;> simp_all [finish, exit]

/-! ### evaluation trees -/

mutual
/-- an evaluation tree in which no manager switches the locale leaves the state untouched and
returns (value or error): used for the bodies of open locale scopes -/
theorem evalEv_noLocale (w : World) : ∀ (ev : Ev) (σ : State), nestFree true ev = true →
    ∃ out, evalEv w ev σ = .ok out σ
  | .call mk inner raises, σ, h => by
    simp only [nestFree, Bool.true_and, Bool.true_or, Bool.and_eq_true, Bool.not_eq_eq_eq_not,
      Bool.not_true] at h
    obtain ⟨hu, hi⟩ := h
    cases mk with
    | error e => exact ⟨.err e, by simp [evalEv]⟩
    | ok m =>
      have hm : m.lc = none := by
        simp only [usesLocale] at hu
        cases hl : m.lc <;> simp_all
      rcases evalEvs_noLocale w inner σ hi with h1 | ⟨x, h1⟩
      · cases raises with
        | none => exact ⟨.ok, by simp [evalEv, enter_noLocale w m σ hm, h1, finish_none]⟩
        | some c =>
          exact ⟨.err (.body c), by simp [evalEv, enter_noLocale w m σ hm, h1, finish_none]⟩
      · exact ⟨.err x, by simp [evalEv, enter_noLocale w m σ hm, h1, finish_none]⟩
theorem evalEvs_noLocale (w : World) : ∀ (es : List Ev) (σ : State), nestFreeL true es = true →
    (evalEvs w es σ = .ok () σ ∨ ∃ x, evalEvs w es σ = .err x σ)
  | [], σ, _ => by simp [evalEvs]
  | e :: es, σ, h => by
    simp only [nestFreeL, Bool.and_eq_true] at h
    obtain ⟨out, h1⟩ := evalEv_noLocale w e σ h.1
    cases out with
    | ok =>
      rcases evalEvs_noLocale w es σ h.2 with h2 | ⟨x, h2⟩
      · left; simp [evalEvs, h1, h2]
      · right; exact ⟨x, by simp [evalEvs, h1, h2]⟩
    | err x => right; exact ⟨x, by simp [evalEvs, h1]⟩
end

/-- the state a top-level evaluation must hand back: lock free, everything but the log as before -/
def Restored (σ σ' : State) : Prop := σ'.lock = false ∧ σ'.same σ

mutual
/-- an evaluation tree without nested locale scopes, started with the lock free in an installed
locale, returns (never blocks) with the lock free and locale / environment / decimal context
as before -/
theorem evalEv_nestFree (w : World) : ∀ (ev : Ev) (σ : State), nestFree false ev = true →
    σ.lock = false → w.avail σ.lc = true →
    ∃ out σ', evalEv w ev σ = .ok out σ' ∧ Restored σ σ'
  | .call mk inner raises, σ, h, hl, ha => by
    simp only [nestFree, Bool.false_and, Bool.not_false, Bool.true_and, Bool.false_or] at h
    cases mk with
    | error e => exact ⟨.err e, σ, by simp [evalEv], hl, σ.same_refl⟩
    | ok m =>
      cases hm : m.lc with
      | none =>
        have hu : usesLocale (.ok m) = false := by simp [usesLocale, hm]
        rw [hu] at h
        rcases evalEvs_nestFree w inner σ h hl ha with ⟨σ2, h1, hr⟩ | ⟨x, σ2, h1, hr⟩
        · cases raises with
          | none =>
            exact ⟨.ok, σ2, by simp [evalEv, enter_noLocale w m σ hm, h1, finish_none], hr⟩
          | some c =>
            exact ⟨.err (.body c), σ2,
              by simp [evalEv, enter_noLocale w m σ hm, h1, finish_none], hr⟩
        · exact ⟨.err x, σ2, by simp [evalEv, enter_noLocale w m σ hm, h1, finish_none], hr⟩
      | some req =>
        have hu : usesLocale (.ok m) = true := by simp [usesLocale, hm]
        rw [hu] at h
        rcases enter_free w m σ req hm hl with ⟨σ1, he, _, _, _, henv, hdec⟩ | ⟨σ1, he, hs, _⟩
        · -- scope open: the body cannot touch the state, exit restores
          have fin : ∀ p, ∃ σ', finish w (some σ.lc) p σ1 = .ok p σ' ∧ Restored σ σ' := by
            intro p
            obtain ⟨σ', hf, h1, h2, h3, h4⟩ := finish_some w p σ1 σ.lc ha
            exact ⟨σ', hf, h1, by simp_all, h2, by simp_all, by simp_all⟩
          rcases evalEvs_noLocale w inner σ1 h with h1 | ⟨x, h1⟩
          · cases raises with
            | none =>
              obtain ⟨σ', hf, hr⟩ := fin .ok
              exact ⟨.ok, σ', by simp [evalEv, he, h1, hf], hr⟩
            | some c =>
              obtain ⟨σ', hf, hr⟩ := fin (.err (.body c))
              exact ⟨.err (.body c), σ', by simp [evalEv, he, h1, hf], hr⟩
          · obtain ⟨σ', hf, hr⟩ := fin (.err x)
            exact ⟨.err x, σ', by simp [evalEv, he, h1, hf], hr⟩
        · exact ⟨.err .FOCH0002, σ1, by simp [evalEv, he], by simpa [hl] using hs.1, hs⟩
theorem evalEvs_nestFree (w : World) : ∀ (es : List Ev) (σ : State), nestFreeL false es = true →
    σ.lock = false → w.avail σ.lc = true →
    (∃ σ', evalEvs w es σ = .ok () σ' ∧ Restored σ σ') ∨
    (∃ x σ', evalEvs w es σ = .err x σ' ∧ Restored σ σ')
  | [], σ, _, hl, _ => by left; exact ⟨σ, by simp [evalEvs], hl, σ.same_refl⟩
  | e :: es, σ, h, hl, ha => by
    simp only [nestFreeL, Bool.and_eq_true] at h
    obtain ⟨out, σ1, h1, hr1⟩ := evalEv_nestFree w e σ h.1 hl ha
    cases out with
    | ok =>
      have ha1 : w.avail σ1.lc = true := by rw [hr1.2.2.1]; exact ha
      rcases evalEvs_nestFree w es σ1 h.2 hr1.1 ha1 with ⟨σ2, h2, hr2⟩ | ⟨x, σ2, h2, hr2⟩
      · left; exact ⟨σ2, by simp [evalEvs, h1, h2], hr2.1, State.same_trans hr2.2 hr1.2⟩
      · right; exact ⟨x, σ2, by simp [evalEvs, h1, h2], hr2.1, State.same_trans hr2.2 hr1.2⟩
    | err x => right; exact ⟨x, σ1, by simp [evalEvs, h1], hr1⟩
end

/-! ### frame: nothing writes `env` / `dec` -/

/-- `σ'` has the environment and decimal context of `σ` -/
def Frame (σ σ' : State) : Prop := σ'.env = σ.env ∧ σ'.dec = σ.dec

/-- every state carried by a result is in `Frame` with `σ` -/
def Res.framed {α : Type} (r : Res α) (σ : State) : Prop :=
  match r with
  | .ok _ σ' => Frame σ σ'
  | .err _ σ' => Frame σ σ'
  | .stuck σ' => Frame σ σ'

theorem Frame.refl (σ : State) : Frame σ σ := ⟨rfl, rfl⟩
theorem Frame.trans {a b c : State} (h1 : Frame a b) (h2 : Frame b c) : Frame a c :=
  ⟨h2.1.trans h1.1, h2.2.trans h1.2⟩

theorem Res.framed_trans {α : Type} {r : Res α} {a b : State} (h1 : Frame a b)
    (h2 : r.framed b) : r.framed a := by
  cases r <;> exact Frame.trans h1 h2

theorem setloc_frame {w : World} {σ σ' : State} {n : Loc} (h : setloc w σ n = some σ') :
    Frame σ σ' := by
  have := setloc_some h; exact ⟨this.2.2.2.1, this.2.2.2.2⟩

theorem enter_frame (w : World) (m : Mgr) (σ : State) : (enter w m σ).framed σ := by
  unfold enter
  cases m.lc with
  | none => exact Frame.refl σ
  | some req =>
    simp only
    split
    · exact Frame.refl σ
    · split
      · next σ2 h => have := setloc_frame h; exact ⟨this.1, this.2⟩
      · split
        · split
          · next σ2 h => have := setloc_frame h; exact ⟨this.1, this.2⟩
          · exact ⟨rfl, rfl⟩
        · exact ⟨rfl, rfl⟩

theorem finish_frame (w : World) (saved : Option Loc) (p : Out) (σ : State) :
    (finish w saved p σ).framed σ := by
  unfold finish exit
  cases saved with
  | none => exact Frame.refl σ
  | some s =>
    simp only
    cases h : setloc w σ s with
    | some σ' => have := setloc_frame h; exact ⟨this.1, this.2⟩
    | none => exact ⟨rfl, rfl⟩

mutual
theorem evalEv_frame (w : World) : ∀ (ev : Ev) (σ : State), (evalEv w ev σ).framed σ
  | .call mk inner raises, σ => by
    cases mk with
    | error e => simp only [evalEv]; exact Frame.refl σ
    | ok m =>
      have he := enter_frame w m σ
      simp only [evalEv]
      cases h1 : enter w m σ with
      | stuck τ => rw [h1] at he; exact he
      | err e τ => rw [h1] at he; exact he
      | ok saved σ1 =>
        rw [h1] at he
        have hi := evalEvs_frame w inner σ1
        simp only
        cases h2 : evalEvs w inner σ1 with
        | stuck τ => rw [h2] at hi; exact Frame.trans he hi
        | err e σ2 =>
          rw [h2] at hi
          exact Res.framed_trans (Frame.trans he hi) (finish_frame w saved _ σ2)
        | ok u σ2 =>
          rw [h2] at hi
          cases raises <;>
            exact Res.framed_trans (Frame.trans he hi) (finish_frame w saved _ σ2)
theorem evalEvs_frame (w : World) : ∀ (es : List Ev) (σ : State), (evalEvs w es σ).framed σ
  | [], σ => by simp only [evalEvs]; exact Frame.refl σ
  | e :: es, σ => by
    have h1 := evalEv_frame w e σ
    simp only [evalEvs]
    cases h : evalEv w e σ with
    | stuck τ => rw [h] at h1; exact h1
    | err x τ => rw [h] at h1; exact h1
    | ok out τ =>
      rw [h] at h1
      cases out with
      | err x => exact h1
      | ok => exact Res.framed_trans h1 (evalEvs_frame w es τ)
end

end EPV.Globals

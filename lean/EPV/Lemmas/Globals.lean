/-
C19 — helper lemmas for the sequential reading of the model (EPV/Model/Globals.lean):
the probe / comparison brackets, evaluation trees of any shape, histories, frame.
-/
import EPV.Model.Globals
namespace EPV.Globals

/-- two states agree on everything except the ghost log -/
def State.same (a b : State) : Prop :=
  a.lock = b.lock ∧ a.lc = b.lc ∧ a.env = b.env ∧ a.dec = b.dec

theorem State.same_refl (a : State) : a.same a := ⟨rfl, rfl, rfl, rfl⟩

theorem State.same_trans {a b c : State} (h1 : a.same b) (h2 : b.same c) : a.same c :=
  ⟨h1.1.trans h2.1, h1.2.1.trans h2.2.1, h1.2.2.1.trans h2.2.2.1, h1.2.2.2.trans h2.2.2.2⟩

/-- the state a top-level evaluation must hand back: lock free, everything but the log as before -/
def Restored (σ σ' : State) : Prop := σ'.lock = false ∧ σ'.same σ

theorem Restored.trans {a b c : State} (h1 : Restored a b) (h2 : Restored b c) : Restored a c :=
  ⟨h2.1, State.same_trans h2.2 h1.2⟩

/-! ### `setloc`, `leave` -/

theorem setloc_some {w : World} {σ σ' : State} {n : Loc} (h : setloc w σ n = some σ') :
    w.avail n = true ∧ σ'.lc = n ∧ σ'.lock = σ.lock ∧ σ'.env = σ.env ∧ σ'.dec = σ.dec := by
  unfold setloc at h
  split at h
  · cases h; simp_all
  · cases h

theorem setloc_none {w : World} {σ : State} {n : Loc} (h : setloc w σ n = none) :
    w.avail n = false := by
  unfold setloc at h
  split at h
  · cases h
  · simp_all

theorem setloc_avail {w : World} (σ : State) {n : Loc} (h : w.avail n = true) :
    ∃ σ', setloc w σ n = some σ' := by
  unfold setloc; simp [h]

theorem setloc_unavail {w : World} (σ : State) {n : Loc} (h : w.avail n = false) :
    setloc w σ n = none := by
  unfold setloc; simp [h]

/-- leaving a bracket whose saved name is an installed locale: restored, released, and the
pending result delivered -/
theorem leave_avail (w : World) (saved : Loc) (hs : w.avail saved = true) {α : Type} (a : α)
    (σ : State) :
    ∃ σ', leave w saved (.ok a) σ = .ok a σ' ∧ σ'.lock = false ∧ σ'.lc = saved ∧
      σ'.env = σ.env ∧ σ'.dec = σ.dec := by
  obtain ⟨σ1, h1⟩ := setloc_avail σ hs
  have := setloc_some h1
  refine ⟨{ σ1 with lock := false }, ?_, rfl, ?_, ?_, ?_⟩ <;> simp_all [leave]

/-! ### the two brackets from a clean state -/

/-- `probe` only reads `lc` and `fallback` -/
theorem probe_congr (w : World) (m : Mgr) (req : Req) (hm : m.lc = some req) (σ : State) :
    probe w m σ = probe w ⟨some req, m.fallback⟩ σ := by
  unfold probe; simp [hm]

theorem probe_noLocale (w : World) (m : Mgr) (σ : State) (h : m.lc = none) :
    probe w m σ = .ok none σ := by
  unfold probe; simp [h]

/-- `__enter__` from a clean state: it returns the effective locale or raises FOCH0002 according
to the installed locales only, never blocks, and in both cases hands the state back restored -/
theorem probe_clean (w : World) (m : Mgr) (σ : State) (hl : σ.lock = false)
    (ha : w.avail σ.lc = true) :
    ∃ σ', Restored σ σ' ∧
      probe w m σ = (if m.supported w then .ok (m.effective w) σ' else .err .FOCH0002 σ') := by
  cases hm : m.lc with
  | none =>
    exact ⟨σ, ⟨hl, σ.same_refl⟩, by simp [probe_noLocale w m σ hm, Mgr.supported, Mgr.effective, hm]⟩
  | some req =>
    unfold probe
    simp only [hm, hl, Bool.false_eq_true, ↓reduceIte]
    by_cases h1 : w.avail (w.norm req) = true
    · obtain ⟨σ2, hs2⟩ := setloc_avail { σ with lock := true } h1
      have f2 := setloc_some hs2
      obtain ⟨σ3, hl3, h31, h32, h33, h34⟩ := leave_avail w σ.lc ha (some (w.norm req)) σ2
      refine ⟨σ3, ⟨h31, by simp [h31, hl], h32, by simp_all, by simp_all⟩, ?_⟩
      simp [hs2, hl3, Mgr.supported, Mgr.effective, hm, h1]
    · have h1' : w.avail (w.norm req) = false := by simpa using h1
      simp only [setloc_unavail _ h1']
      cases hfb : m.fallback with
      | false =>
        refine ⟨{ logFail { σ with lock := true } (w.norm req) with lock := false },
          ⟨rfl, by simp [State.same, logFail, hl]⟩, ?_⟩
        simp [Mgr.supported, Mgr.effective, hm, h1', hfb]
      | true =>
        simp only [↓reduceIte]
        by_cases h2 : w.avail enUS = true
        · obtain ⟨σ2, hs2⟩ := setloc_avail (logFail { σ with lock := true } (w.norm req)) h2
          have f2 := setloc_some hs2
          obtain ⟨σ3, hl3, h31, h32, h33, h34⟩ := leave_avail w σ.lc ha (some enUS) σ2
          refine ⟨σ3, ⟨h31, by simp [h31, hl], h32, by simp_all [logFail], by simp_all [logFail]⟩, ?_⟩
          simp [hs2, hl3, Mgr.supported, Mgr.effective, hm, h1', hfb, h2]
        · have h2' : w.avail enUS = false := by simpa using h2
          simp only [setloc_unavail _ h2']
          refine ⟨{ logFail (logFail { σ with lock := true } (w.norm req)) enUS with lock := false },
            ⟨rfl, by simp [State.same, logFail, hl]⟩, ?_⟩
          simp [Mgr.supported, Mgr.effective, hm, h1', hfb, h2']

/-- one comparison from a clean state: done under `eff` and restored, or — if `eff` is not an
installed locale — `locale.Error` with nothing changed; never blocks -/
theorem useLoc_clean (w : World) (eff : Loc) (σ : State) (hl : σ.lock = false)
    (ha : w.avail σ.lc = true) :
    ∃ σ', Restored σ σ' ∧
      useLoc w eff σ = (if w.avail eff then .ok () σ' else .err .localeError σ') := by
  unfold useLoc
  simp only [hl, Bool.false_eq_true, ↓reduceIte]
  by_cases h1 : w.avail eff = true
  · obtain ⟨σ2, hs2⟩ := setloc_avail { σ with lock := true } h1
    have f2 := setloc_some hs2
    obtain ⟨σ3, hl3, h31, h32, h33, h34⟩ :=
      leave_avail w σ.lc ha () { σ2 with log := σ2.log ++ [.coll eff σ2.lc] }
    refine ⟨σ3, ⟨h31, by simp [h31, hl], h32, by simp_all, by simp_all⟩, ?_⟩
    simp [hs2, hl3, h1]
  · have h1' : w.avail eff = false := by simpa using h1
    simp only [setloc_unavail _ h1']
    exact ⟨{ logFail { σ with lock := true } eff with lock := false },
      ⟨rfl, by simp [State.same, logFail, hl]⟩, by simp [h1']⟩

/-- a bracket on a held lock blocks (non-reentrant lock) -/
theorem probe_held (w : World) (m : Mgr) (σ : State) (hm : m.lc.isSome = true)
    (hl : σ.lock = true) : probe w m σ = .stuck σ := by
  unfold probe
  cases h : m.lc with
  | none => simp [h] at hm
  | some r => simp [hl]

/-! ### evaluation trees -/

/-- the result a body hands on, given its outcome -/
def resOf (o : Out) (σ : State) : Res Unit :=
  match o with
  | .ok => .ok () σ
  | .err x => .err x σ

theorem runBrs_append (w : World) (bs cs : List Br) (σ σ' : State)
    (h : runBrs w bs σ = some σ') : runBrs w (bs ++ cs) σ = runBrs w cs σ' := by
  induction bs generalizing σ with
  | nil => simp [runBrs] at h; subst h; rfl
  | cons b bs ih =>
    simp only [List.cons_append, runBrs] at h ⊢
    cases hb : runBr w b σ with
    | ok u τ => simp only [hb] at h ⊢; exact ih τ h
    | err e τ => simp only [hb] at h ⊢; exact ih τ h
    | stuck τ => simp [hb] at h

mutual
/-- **Any** evaluation tree — nested and interleaved scopes to any depth, comparisons anywhere,
bodies raising — started with the lock free in an installed locale: returns (never blocks) with
the outcome `outcome w encl ev` (a function of the tree and the installed locales), the state
restored, having performed exactly the brackets `compile w encl ev`. -/
theorem evalEv_clean (w : World) (encl : Option Loc) : ∀ (ev : Ev) (σ : State),
    σ.lock = false → w.avail σ.lc = true →
    ∃ σ', evalEv w encl ev σ = .ok (outcome w encl ev) σ' ∧ Restored σ σ' ∧
      runBrs w (compile w encl ev) σ = some σ'
  | .cmp, σ, hl, ha => by
    cases encl with
    | none => exact ⟨σ, by simp [evalEv, outcome], ⟨hl, σ.same_refl⟩, by simp [compile, runBrs]⟩
    | some eff =>
      obtain ⟨σ', hr, hu⟩ := useLoc_clean w eff σ hl ha
      refine ⟨σ', ?_, hr, ?_⟩
      · by_cases h : w.avail eff = true <;> simp [evalEv, outcome, Br.expected, hu, h]
      · by_cases h : w.avail eff = true <;> simp [compile, runBrs, runBr, hu, h]
  | .call mk body raises, σ, hl, ha => by
    cases mk with
    | error e =>
      exact ⟨σ, by simp [evalEv, outcome], ⟨hl, σ.same_refl⟩, by simp [compile, runBrs]⟩
    | ok m =>
      obtain ⟨σ1, hr1, hp⟩ := probe_clean w m σ hl ha
      have ha1 : w.avail σ1.lc = true := by rw [hr1.2.2.1]; exact ha
      -- the probe bracket in the compiled list
      have hpb : ∀ rest, runBrs w (m.probeBr ++ rest) σ = runBrs w rest σ1 := by
        intro rest
        unfold Mgr.probeBr
        cases hm : m.lc with
        | none =>
          have : σ1 = σ := by
            have := hp; rw [probe_noLocale w m σ hm] at this
            simp [Mgr.supported, hm] at this; exact this.2.symm
          simp [this]
        | some req =>
          simp only [List.cons_append, List.nil_append, runBrs, runBr, ← probe_congr w m req hm σ, hp]
          by_cases hs : m.supported w = true <;> simp [hs]
      by_cases hs : m.supported w = true
      · simp only [hs, ↓reduceIte] at hp
        obtain ⟨σ2, hb, hr2, hc⟩ := evalEvs_clean w (m.effective w) body σ1 hr1.1 ha1
        refine ⟨σ2, ?_, hr1.trans hr2, ?_⟩
        · cases ho : outcomeL w (m.effective w) body with
          | err x => simp [evalEv, outcome, hp, hb, ho, hs, resOf]
          | ok => cases raises <;> simp [evalEv, outcome, hp, hb, ho, hs, resOf]
        · simp only [compile, hs, ↓reduceIte]; rw [hpb]; exact hc
      · have hs' : m.supported w = false := by simpa using hs
        simp only [hs', Bool.false_eq_true, ↓reduceIte] at hp
        refine ⟨σ1, by simp [evalEv, outcome, hp, hs'], hr1, ?_⟩
        simp only [compile, hs', Bool.false_eq_true, ↓reduceIte]; rw [hpb]; rfl
theorem evalEvs_clean (w : World) (encl : Option Loc) : ∀ (es : List Ev) (σ : State),
    σ.lock = false → w.avail σ.lc = true →
    ∃ σ', evalEvs w encl es σ = resOf (outcomeL w encl es) σ' ∧ Restored σ σ' ∧
      runBrs w (compileL w encl es) σ = some σ'
  | [], σ, hl, _ => ⟨σ, by simp [evalEvs, outcomeL, resOf], ⟨hl, σ.same_refl⟩, by simp [compileL, runBrs]⟩
  | e :: es, σ, hl, ha => by
    obtain ⟨σ1, h1, hr1, hc1⟩ := evalEv_clean w encl e σ hl ha
    have ha1 : w.avail σ1.lc = true := by rw [hr1.2.2.1]; exact ha
    cases ho : outcome w encl e with
    | err x =>
      refine ⟨σ1, by simp [evalEvs, h1, ho, outcomeL, resOf], hr1, ?_⟩
      simp only [compileL, ho, List.append_nil]; exact hc1
    | ok =>
      obtain ⟨σ2, h2, hr2, hc2⟩ := evalEvs_clean w encl es σ1 hr1.1 ha1
      refine ⟨σ2, by simp [evalEvs, h1, ho, outcomeL, h2], hr1.trans hr2, ?_⟩
      simp only [compileL, ho]; rw [runBrs_append w _ _ σ σ1 hc1]; exact hc2
end

/-! ### frame: nothing writes `env` / `dec` -/

/-- `σ'` has the environment and decimal context of `σ` -/
def Frame (σ σ' : State) : Prop := σ'.env = σ.env ∧ σ'.dec = σ.dec

/-- every state carried by a result is in `Frame` with `σ` -/
def Res.framed {α : Type} (r : Res α) (σ : State) : Prop :=
  match r with
  | .ok _ σ' => Frame σ σ'
  | .err _ σ' => Frame σ σ'
  | .stuck σ' => Frame σ σ'

theorem Frame.refl (σ : State) : Frame σ σ := ⟨rfl, rfl⟩
theorem Frame.trans {a b c : State} (h1 : Frame a b) (h2 : Frame b c) : Frame a c :=
  ⟨h2.1.trans h1.1, h2.2.trans h1.2⟩

theorem Res.framed_trans {α : Type} {r : Res α} {a b : State} (h1 : Frame a b)
    (h2 : r.framed b) : r.framed a := by
  cases r <;> exact Frame.trans h1 h2

theorem setloc_frame {w : World} {σ σ' : State} {n : Loc} (h : setloc w σ n = some σ') :
    Frame σ σ' := by
  have := setloc_some h; exact ⟨this.2.2.2.1, this.2.2.2.2⟩

theorem leave_frame (w : World) (saved : Loc) {α : Type} (p : Except Err α) (σ : State) :
    (leave w saved p σ).framed σ := by
  unfold leave
  cases h : setloc w σ saved with
  | some σ' => have := setloc_frame h; cases p <;> exact ⟨this.1, this.2⟩
  | none => exact ⟨rfl, rfl⟩

theorem probe_frame (w : World) (m : Mgr) (σ : State) : (probe w m σ).framed σ := by
  unfold probe
  cases m.lc with
  | none => exact Frame.refl σ
  | some req =>
    simp only
    split
    · exact Frame.refl σ
    · split
      · next σ2 h =>
        have h1 := setloc_frame h
        exact Res.framed_trans ⟨h1.1, h1.2⟩ (leave_frame w _ _ σ2)
      · split
        · split
          · next σ2 h =>
            have h1 := setloc_frame h
            exact Res.framed_trans ⟨h1.1, h1.2⟩ (leave_frame w _ _ σ2)
          · exact ⟨rfl, rfl⟩
        · exact ⟨rfl, rfl⟩

theorem useLoc_frame (w : World) (eff : Loc) (σ : State) : (useLoc w eff σ).framed σ := by
  unfold useLoc
  split
  · exact Frame.refl σ
  · simp only
    cases h : setloc w { σ with lock := true } eff with
    | none => exact ⟨rfl, rfl⟩
    | some σ2 =>
      have h1 := setloc_frame h
      exact Res.framed_trans (b := { σ2 with log := σ2.log ++ [.coll eff σ2.lc] })
        ⟨h1.1, h1.2⟩ (leave_frame w _ _ _)

mutual
theorem evalEv_frame (w : World) (encl : Option Loc) :
    ∀ (ev : Ev) (σ : State), (evalEv w encl ev σ).framed σ
  | .cmp, σ => by
    cases encl with
    | none => simp only [evalEv]; exact Frame.refl σ
    | some eff =>
      have h := useLoc_frame w eff σ
      simp only [evalEv]
      cases hu : useLoc w eff σ <;> rw [hu] at h <;> exact h
  | .call mk body raises, σ => by
    cases mk with
    | error e => simp only [evalEv]; exact Frame.refl σ
    | ok m =>
      have he := probe_frame w m σ
      simp only [evalEv]
      cases h1 : probe w m σ with
      | stuck τ => rw [h1] at he; exact he
      | err e τ => rw [h1] at he; exact he
      | ok eff σ1 =>
        rw [h1] at he
        have hi := evalEvs_frame w eff body σ1
        simp only
        cases h2 : evalEvs w eff body σ1 with
        | stuck τ => rw [h2] at hi; exact Frame.trans he hi
        | err e σ2 => rw [h2] at hi; exact Frame.trans he hi
        | ok u σ2 => rw [h2] at hi; cases raises <;> exact Frame.trans he hi
theorem evalEvs_frame (w : World) (encl : Option Loc) :
    ∀ (es : List Ev) (σ : State), (evalEvs w encl es σ).framed σ
  | [], σ => by simp only [evalEvs]; exact Frame.refl σ
  | e :: es, σ => by
    have h1 := evalEv_frame w encl e σ
    simp only [evalEvs]
    cases h : evalEv w encl e σ with
    | stuck τ => rw [h] at h1; exact h1
    | err x τ => rw [h] at h1; exact h1
    | ok out τ =>
      rw [h] at h1
      cases out with
      | err x => exact h1
      | ok => exact Res.framed_trans h1 (evalEvs_frame w encl es τ)
end

/-! ### every comparison runs under the locale its manager wants -/

/-- all `strcoll`/`strxfrm` entries of the log were made under the wanted locale -/
def LogOK (σ : State) : Prop := ∀ want was, LogE.coll want was ∈ σ.log → was = want

def Res.logOK {α : Type} (r : Res α) : Prop :=
  match r with
  | .ok _ σ' => LogOK σ'
  | .err _ σ' => LogOK σ'
  | .stuck σ' => LogOK σ'

theorem setloc_logOK {w : World} {σ σ' : State} {n : Loc} (h : setloc w σ n = some σ')
    (hσ : LogOK σ) : LogOK σ' := by
  unfold setloc at h
  split at h
  · cases h
    intro a b hm
    simp only [List.mem_append, List.mem_singleton] at hm
    rcases hm with hm | hm
    · exact hσ a b hm
    · cases hm
  · cases h

theorem logFail_logOK {σ : State} (n : Loc) (hσ : LogOK σ) : LogOK (logFail σ n) := by
  intro a b hm
  simp only [logFail, List.mem_append, List.mem_singleton] at hm
  rcases hm with hm | hm
  · exact hσ a b hm
  · cases hm

theorem leave_logOK (w : World) (saved : Loc) {α : Type} (p : Except Err α) (σ : State)
    (hσ : LogOK σ) : (leave w saved p σ).logOK := by
  unfold leave
  cases h : setloc w σ saved with
  | some σ' => have := setloc_logOK h hσ; cases p <;> exact this
  | none => exact logFail_logOK saved hσ

theorem probe_logOK (w : World) (m : Mgr) (σ : State) (hσ : LogOK σ) : (probe w m σ).logOK := by
  unfold probe
  cases m.lc with
  | none => exact hσ
  | some req =>
    simp only
    split
    · exact hσ
    · have h1 : LogOK { σ with lock := true } := hσ
      cases h : setloc w { σ with lock := true } (w.norm req) with
      | some σ2 => exact leave_logOK w _ _ σ2 (setloc_logOK h h1)
      | none =>
        simp only
        have h2 := logFail_logOK (w.norm req) h1
        split
        · cases h' : setloc w (logFail { σ with lock := true } (w.norm req)) enUS with
          | some σ2 => exact leave_logOK w _ _ σ2 (setloc_logOK h' h2)
          | none => exact logFail_logOK enUS h2
        · exact h2

theorem useLoc_logOK (w : World) (eff : Loc) (σ : State) (hσ : LogOK σ) :
    (useLoc w eff σ).logOK := by
  unfold useLoc
  split
  · exact hσ
  · have h1 : LogOK { σ with lock := true } := hσ
    simp only
    cases h : setloc w { σ with lock := true } eff with
    | none => exact logFail_logOK eff h1
    | some σ2 =>
      have h2 := setloc_logOK h h1
      have hlc := (setloc_some h).2.1
      apply leave_logOK
      intro a b hm
      simp only [List.mem_append, List.mem_singleton] at hm
      rcases hm with hm | hm
      · exact h2 a b hm
      · cases hm; exact hlc

mutual
theorem evalEv_logOK (w : World) (encl : Option Loc) :
    ∀ (ev : Ev) (σ : State), LogOK σ → (evalEv w encl ev σ).logOK
  | .cmp, σ, hσ => by
    cases encl with
    | none => simp only [evalEv]; exact hσ
    | some eff =>
      have h := useLoc_logOK w eff σ hσ
      simp only [evalEv]
      cases hu : useLoc w eff σ <;> rw [hu] at h <;> exact h
  | .call mk body raises, σ, hσ => by
    cases mk with
    | error e => simp only [evalEv]; exact hσ
    | ok m =>
      have he := probe_logOK w m σ hσ
      simp only [evalEv]
      cases h1 : probe w m σ with
      | stuck τ => rw [h1] at he; exact he
      | err e τ => rw [h1] at he; exact he
      | ok eff σ1 =>
        rw [h1] at he
        have hi := evalEvs_logOK w eff body σ1 he
        simp only
        cases h2 : evalEvs w eff body σ1 with
        | stuck τ => rw [h2] at hi; exact hi
        | err e σ2 => rw [h2] at hi; exact hi
        | ok u σ2 => rw [h2] at hi; cases raises <;> exact hi
theorem evalEvs_logOK (w : World) (encl : Option Loc) :
    ∀ (es : List Ev) (σ : State), LogOK σ → (evalEvs w encl es σ).logOK
  | [], σ, hσ => by simp only [evalEvs]; exact hσ
  | e :: es, σ, hσ => by
    have h1 := evalEv_logOK w encl e σ hσ
    simp only [evalEvs]
    cases h : evalEv w encl e σ with
    | stuck τ => rw [h] at h1; exact h1
    | err x τ => rw [h] at h1; exact h1
    | ok out τ =>
      rw [h] at h1
      cases out with
      | err x => exact h1
      | ok => exact evalEvs_logOK w encl es τ h1
end

/-! ### the superseded protocol (record of F19b) -/

/-- `Scoped.enter` on a free lock, requested locale installed: the scope is open with the lock
held -/
theorem Scoped.enter_open (w : World) (m : Mgr) (σ : State) (req : Req) (hm : m.lc = some req)
    (hl : σ.lock = false) (ha : w.avail (w.norm req) = true) :
    ∃ σ', Scoped.enter w m σ = .ok (some σ.lc) σ' ∧ σ'.lock = true ∧ σ'.lc = w.norm req := by
  obtain ⟨σ2, hs⟩ := setloc_avail { σ with lock := true } ha
  have := setloc_some hs
  exact ⟨σ2, by simp [Scoped.enter, hm, hl, hs], by simp_all, this.2.1⟩

theorem Scoped.enter_held (w : World) (m : Mgr) (σ : State) (hm : m.lc.isSome = true)
    (hl : σ.lock = true) : Scoped.enter w m σ = .stuck σ := by
  unfold Scoped.enter
  cases h : m.lc with
  | none => simp [h] at hm
  | some r => simp [hl]

end EPV.Globals

/-
C11 — the lexical forms: the string forms of xs:dateTime / xs:date / xs:time values re-parse to the value
(`fromstring(str(v)) = v`): digits and zero padding, the maximal digit runs of the year and of the fraction,
the fixed-width fields, the timezone group (`tz_parse_canon_roundtrip`: kernel evaluation over the 1681 offsets), `strip`.
-/
import EPV.Model.CalendarLex
import EPV.Lemmas.CalendarTime
set_option linter.unusedVariables false
set_option linter.unusedSimpArgs false
namespace EPV.Cal
open EPV.CalLex (Str)
open EPV.Timeline (monthLen)

/-- every offset of −14:00 … +14:00 renders to a literal of the timezone group that re-parses to it -/
def tzRound (n : Nat) : Bool :=
  let v : Int := (n : Int) - 840
  EPV.CalLex.tzParse (EPV.CalLex.tzCanon v) == some v

theorem tzRound_all : (List.range 1681).all tzRound = true := by decide +kernel

theorem tz_parse_canon_roundtrip (v : Int) (h1 : -840 ≤ v) (h2 : v ≤ 840) :
    EPV.CalLex.tzParse (EPV.CalLex.tzCanon v) = some v := by
  have := List.all_eq_true.mp tzRound_all (v + 840).toNat (List.mem_range.mpr (by omega))
  have e : (((v + 840).toNat : Nat) : Int) - 840 = v := by omega
  simp only [tzRound, e, beq_iff_eq] at this
  exact this

theorem pad_all_digits (w n : Nat) : ∀ c ∈ pad w n, c.isDigit = true := by
  intro c hc
  unfold pad at hc
  rcases List.mem_append.mp hc with h | h
  · have := List.eq_of_mem_replicate h; subst this; decide
  · exact Nat.isDigit_of_mem_toDigits (by decide) (by decide) h

theorem digitsVal_pad (w n : Nat) : digitsVal (pad w n) = n := by
  unfold digitsVal pad
  rw [Nat.ofDigitChars_append, Nat.ofDigitChars_replicate_zero, Nat.mul_zero, Nat.ofDigitChars_ten_toDigits]

theorem pad_length_ge (w n : Nat) : w ≤ (pad w n).length := by
  unfold pad; simp only [List.length_append, List.length_replicate]; omega

theorem pad_ne_nil (w n : Nat) : pad w n ≠ [] := by
  unfold pad
  intro h
  have := Nat.toDigits_ne_nil (n := n) (b := 10)
  simp at h

/-- two-digit fields -/
def pad2ok (n : Nat) : Bool := match pad 2 n with | [a, b] => two a b == some n | _ => false

theorem pad2_two : ∀ n, n < 100 → pad2ok n = true := by decide

theorem pad2_shape (n : Nat) (h : n < 100) : ∃ a b, pad 2 n = [a, b] ∧ two a b = some n := by
  have := pad2_two n h
  unfold pad2ok at this
  generalize pad 2 n = l at this
  match l, this with
  | [a, b], h => exact ⟨a, b, rfl, by simpa using h⟩

theorem takeWhile_digits_append (ds rest : Str) (c : Char) (hd : ∀ x ∈ ds, x.isDigit = true) (hc : c.isDigit = false) :
    (ds ++ c :: rest).takeWhile Char.isDigit = ds ∧ (ds ++ c :: rest).dropWhile Char.isDigit = c :: rest := by
  induction ds with
  | nil => simp [List.takeWhile, List.dropWhile, hc]
  | cons x xs ih =>
    have hx := hd x (by simp)
    have := ih (fun y hy => hd y (by simp [hy]))
    simp [List.takeWhile, List.dropWhile, hx, this]

theorem takeWhile_digits_end (ds : Str) (hd : ∀ x ∈ ds, x.isDigit = true) :
    ds.takeWhile Char.isDigit = ds ∧ ds.dropWhile Char.isDigit = [] := by
  induction ds with
  | nil => simp
  | cons x xs ih =>
    have hx := hd x (by simp)
    have := ih (fun y hy => hd y (by simp [hy]))
    simp [List.takeWhile, List.dropWhile, hx, this]
theorem pad_length_eq (w n : Nat) (hw : 0 < w) (h : n < 10 ^ w) : (pad w n).length = w := by
  unfold pad
  have := (Nat.length_toDigits_le_iff (b := 10) (n := n) (k := w) (by decide) hw).mpr h
  simp only [List.length_append, List.length_replicate]; omega

theorem takeWhile_eq_replicate (l : Str) : l.takeWhile (· == '0') = List.replicate (l.takeWhile (· == '0')).length '0' := by
  apply List.eq_replicate_iff.mpr
  refine ⟨rfl, ?_⟩
  intro b hb
  have hall := List.all_takeWhile (l := l) (p := (· == '0'))
  have := List.all_eq_true.mp hall b hb
  simpa using this

theorem rstrip0_append (l : Str) : rstrip0 l ++ List.replicate (l.length - (rstrip0 l).length) '0' = l := by
  unfold rstrip0
  have h := List.takeWhile_append_dropWhile (p := (· == '0')) (l := l.reverse)
  have hl : l = (List.dropWhile (· == '0') l.reverse).reverse ++ (List.takeWhile (· == '0') l.reverse).reverse := by
    have := congrArg List.reverse h
    rw [List.reverse_append, List.reverse_reverse] at this
    exact this.symm
  have hrep := takeWhile_eq_replicate l.reverse
  have hlen : l.length - ((List.dropWhile (· == '0') l.reverse).reverse).length = (List.takeWhile (· == '0') l.reverse).length := by
    have := congrArg List.length h
    simp only [List.length_append, List.length_reverse] at this ⊢
    omega
  rw [hlen]
  conv => rhs; rw [hl]
  congr 1
  rw [hrep, List.reverse_replicate, List.length_replicate]

theorem fracUs_rstrip (u : Nat) (h : u < 1000000) : fracUs (some (rstrip0 (pad 6 u))) = (u : Int) := by
  unfold fracUs
  simp only []
  have hlen := pad_length_eq 6 u (by decide) (by simpa using h)
  have := rstrip0_append (pad 6 u)
  rw [hlen] at this
  rw [this]
  have ht : List.take 6 (pad 6 u) = pad 6 u := by
    have := List.take_length (l := pad 6 u)
    rw [hlen] at this; exact this
  rw [ht]
  unfold digitsVal pad
  rw [Nat.ofDigitChars_append, Nat.ofDigitChars_replicate_zero, Nat.mul_zero, Nat.ofDigitChars_ten_toDigits]
/-- what may follow the time / date part: nothing, or a timezone (its first character is no digit and no point) -/
def TzHead (tail : Str) : Prop := tail = [] ∨ ∃ c r, tail = c :: r ∧ c.isDigit = false ∧ c ≠ '.'

theorem rstrip0_mem (l : Str) : ∀ c ∈ rstrip0 l, c ∈ l := by
  intro c hc
  unfold rstrip0 at hc
  have := List.mem_reverse.mp hc
  have := (List.dropWhile_sublist (p := (· == '0')) (l := l.reverse)).subset this
  exact List.mem_reverse.mp this

theorem rstrip0_ne_nil (u : Nat) (hu : u ≠ 0) : rstrip0 (pad 6 u) ≠ [] := by
  intro h
  have := rstrip0_append (pad 6 u)
  rw [h] at this
  simp only [List.nil_append, List.length_nil, Nat.sub_zero] at this
  have hv := digitsVal_pad 6 u
  rw [← this] at hv
  unfold digitsVal at hv
  rw [Nat.ofDigitChars_replicate_zero] at hv
  omega

theorem parseTimeBody_fmt (us : Int) (h0 : 0 ≤ us) (h1 : us < 86400000000) (tail : Str) (ht : TzHead tail) :
    ∃ fd, parseTimeBody (fmtTimeOfDay us ++ tail) =
        some ((us.toNat / 3600000000), (us.toNat / 60000000 % 60), (us.toNat / 1000000 % 60), fd, tail) ∧
      fracUs fd = ((us.toNat % 1000000 : Nat) : Int) := by
  unfold fmtTimeOfDay
  simp only []
  generalize hu : us.toNat = u
  have hub : u < 86400000000 := by omega
  obtain ⟨a1, b1, e1, t1⟩ := pad2_shape (u / 3600000000) (by omega)
  obtain ⟨a2, b2, e2, t2⟩ := pad2_shape (u / 60000000 % 60) (by omega)
  obtain ⟨a3, b3, e3, t3⟩ := pad2_shape (u / 1000000 % 60) (by omega)
  rw [e1, e2, e3]
  by_cases hz : u % 1000000 = 0
  · refine ⟨none, ?_, by simp [fracUs, hz]⟩
    simp only [hz, ↓reduceIte, List.cons_append, List.nil_append, List.append_nil]
    unfold parseTimeBody
    simp only [t1, t2, t3]
    rcases ht with rfl | ⟨c, r, rfl, hc, hp⟩
    · rfl
    · have : c ≠ '.' := hp
      split
      · rename_i heq; cases heq; exact absurd rfl this
      · rfl
  · refine ⟨some (rstrip0 (pad 6 (u % 1000000))), ?_, fracUs_rstrip _ (by omega)⟩
    simp only [hz, ↓reduceIte, List.cons_append, List.nil_append, List.append_assoc]
    unfold parseTimeBody
    simp only [t1, t2, t3]
    have hdig : ∀ x ∈ rstrip0 (pad 6 (u % 1000000)), x.isDigit = true :=
      fun x hx => pad_all_digits _ _ x (rstrip0_mem _ x hx)
    have hne := rstrip0_ne_nil (u % 1000000) hz
    rcases ht with rfl | ⟨c, r, rfl, hc, hp⟩
    · have := takeWhile_digits_end _ hdig
      simp only [List.append_nil, this.1, this.2]
      have : (rstrip0 (pad 6 (u % 1000000))).isEmpty = false := by
        cases h : rstrip0 (pad 6 (u % 1000000)) with
        | nil => exact absurd h hne
        | cons _ _ => rfl
      simp [this]
    · have := takeWhile_digits_append _ r c hdig hc
      simp only [this.1, this.2]
      have : (rstrip0 (pad 6 (u % 1000000))).isEmpty = false := by
        cases h : rstrip0 (pad 6 (u % 1000000)) with
        | nil => exact absurd h hne
        | cons _ _ => rfl
      simp [this]
theorem digit_not_white (c : Char) (h : c.isDigit = true) : EPV.CalLex.isPyWhite c = false := by
  unfold Char.isDigit at h
  unfold EPV.CalLex.isPyWhite EPV.CalLex.pyWhiteCPs
  simp only [Bool.and_eq_true, decide_eq_true_eq] at h
  have h1 : 48 ≤ c.toNat := by
    have := h.1; unfold Char.toNat; exact UInt32.le_iff_toNat_le.mp this
  simp only [List.contains_cons, List.contains_nil, Bool.or_false, Bool.or_eq_false_iff, beq_eq_false_iff_ne, ne_eq]
  refine ⟨by omega, by omega, by omega, by omega⟩

theorem pyStrip_id (s : Str) (hne : s ≠ []) (hh : ∀ c, s.head? = some c → EPV.CalLex.isPyWhite c = false)
    (hl : ∀ c, s.getLast? = some c → EPV.CalLex.isPyWhite c = false) : EPV.CalLex.pyStrip s = s := by
  unfold EPV.CalLex.pyStrip EPV.CalLex.isPyStripWhite
  have h1 : s.dropWhile EPV.CalLex.isPyWhite = s := by
    cases s with
    | nil => exact absurd rfl hne
    | cons c r => have := hh c rfl; simp [List.dropWhile, this]
  rw [h1]
  have h2 : s.reverse.dropWhile EPV.CalLex.isPyWhite = s.reverse := by
    cases hr : s.reverse with
    | nil => rfl
    | cons c r =>
      have : s.getLast? = some c := by
        have := congrArg List.head? hr
        rw [List.head?_reverse] at this; simpa using this
      have := hl c this
      simp [List.dropWhile, this]
  rw [h2, List.reverse_reverse]

theorem matchTz_shape (s : Str) (h : EPV.CalLex.matchTz s = true) :
    s = ['Z'] ∨ ∃ sg a b c d e, s = [sg, a, b, c, d, e] ∧ (sg = '+' ∨ sg = '-') ∧ e.isDigit = true := by
  unfold EPV.CalLex.matchTz at h
  split at h
  · exact Or.inl rfl
  · rename_i sg a b c d e
    refine Or.inr ⟨sg, a, b, c, d, e, rfl, ?_, ?_⟩
    · simp only [Bool.and_eq_true, Bool.or_eq_true, beq_iff_eq] at h
      exact h.1
    · simp only [Bool.and_eq_true, Bool.or_eq_true, beq_iff_eq, EPV.CalLex.isDigit] at h
      rcases h.2 with h2 | h2
      · exact h2.2
      · rw [h2.2]; decide
  · cases h

theorem fmtTz_facts (tz : Option Int) (htz : ∀ z, tz = some z → -840 ≤ z ∧ z ≤ 840) :
    parseTzTail (fmtTz tz) = some tz ∧ TzHead (fmtTz tz) ∧
    (∀ c, (fmtTz tz).getLast? = some c → EPV.CalLex.isPyWhite c = false) := by
  cases tz with
  | none => exact ⟨rfl, Or.inl rfl, by intro c h; cases h⟩
  | some z =>
    have hz := htz z rfl
    have rt := (tz_parse_canon_roundtrip z hz.1 hz.2)
    have hm : EPV.CalLex.matchTz (EPV.CalLex.tzCanon z) = true := by
      unfold EPV.CalLex.tzParse at rt
      by_cases hm : EPV.CalLex.matchTz (EPV.CalLex.tzCanon z) = true
      · exact hm
      · simp [hm] at rt
    simp only [fmtTz]
    rcases matchTz_shape _ hm with hs | ⟨sg, a, b, c, d, e, hs, hsg, he⟩
    · rw [hs] at rt ⊢
      refine ⟨by simp [parseTzTail, rt], Or.inr ⟨'Z', [], rfl, by decide, by decide⟩, ?_⟩
      intro c hc; simp at hc; subst hc; decide
    · rw [hs] at rt ⊢
      refine ⟨by simp [parseTzTail, rt], Or.inr ⟨sg, _, rfl, ?_, ?_⟩, ?_⟩
      · rcases hsg with rfl | rfl <;> decide
      · rcases hsg with rfl | rfl <;> decide
      · intro x hx; simp at hx; subst hx; exact digit_not_white _ he
theorem toDigits_head (n : Nat) (hn : 0 < n) : (Nat.toDigits 10 n).head? ≠ some '0' := by
  induction n using Nat.strongRecOn with
  | _ n ih =>
    by_cases h : n < 10
    · rw [Nat.toDigits_of_lt_base h]
      have : n = 1 ∨ n = 2 ∨ n = 3 ∨ n = 4 ∨ n = 5 ∨ n = 6 ∨ n = 7 ∨ n = 8 ∨ n = 9 := by omega
      rcases this with rfl | rfl | rfl | rfl | rfl | rfl | rfl | rfl | rfl <;> decide
    · rw [Nat.toDigits_of_base_le (by decide) (by omega)]
      have hne := Nat.toDigits_ne_nil (n := n / 10) (b := 10)
      have := ih (n / 10) (by omega) (by omega)
      cases hl : Nat.toDigits 10 (n / 10) with
      | nil => exact absurd hl hne
      | cons c cs => rw [hl] at this; simpa using this

theorem pad4_no_leading_zero (k : Nat) : ¬ ((pad 4 k).head? = some '0' ∧ (pad 4 k).length > 4) := by
  intro ⟨h0, hl⟩
  unfold pad at h0 hl
  simp only [List.length_append, List.length_replicate] at hl
  have hlen : (Nat.toDigits 10 k).length > 4 := by omega
  have hrep : 4 - (Nat.toDigits 10 k).length = 0 := by omega
  rw [hrep] at h0
  simp only [List.replicate_zero, List.nil_append] at h0
  have hk : 0 < k := by
    by_cases hk : k = 0
    · subst hk; simp [Nat.toDigits_zero] at hlen
    · omega
  exact toDigits_head k hk h0

theorem lexYear_isoYear (v11 : Bool) (y : Int) (hy : y ≠ 0) : lexYear v11 (isoYear v11 y) = .ok y := by
  unfold lexYear isoYear
  cases v11 <;> simp only [Bool.false_eq_true, ↓reduceIte, or_true, or_false, Bool.true_eq_false]
  · have e : (if -9999 ≤ y ∧ y < -1 then y else if y = -1 then -1 else if 0 ≤ y ∧ y ≤ 9999 then y else y) = y := by
      repeat' split
      all_goals omega
    rw [e, if_neg hy]
  · congr 1
    repeat' split
    all_goals omega

theorem parseDateBody_fmt (v11 : Bool) (y : Int) (m d : Nat) (hm : m < 100) (hd : d < 100) (tail : Str) :
    parseDateBody (fmtYear v11 y ++ '-' :: pad 2 m ++ '-' :: pad 2 d ++ tail) =
      some (decide (isoYear v11 y < 0), pad 4 (isoYear v11 y).natAbs, m, d, tail) := by
  obtain ⟨a1, b1, e1, t1⟩ := pad2_shape m hm
  obtain ⟨a2, b2, e2, t2⟩ := pad2_shape d hd
  rw [e1, e2]
  unfold fmtYear
  simp only []
  generalize isoYear v11 y = n
  have hdig := pad_all_digits 4 n.natAbs
  have hsplit := takeWhile_digits_append (pad 4 n.natAbs) (a1 :: b1 :: '-' :: a2 :: b2 :: tail) '-' hdig (by decide)
  have hlen := pad_length_ge 4 n.natAbs
  unfold parseDateBody
  by_cases hn : n < 0
  · simp only [hn, ↓reduceIte, List.cons_append, List.nil_append, List.append_assoc, decide_true]
    simp only [splitYear, hsplit.1, hsplit.2]
    rw [if_neg (by omega)]
    simp only [t1, t2]
  · simp only [hn, ↓reduceIte, List.nil_append, List.cons_append, List.append_assoc, decide_false]
    have hne := pad_ne_nil 4 n.natAbs
    cases hp : pad 4 n.natAbs with
    | nil => exact absurd hp hne
    | cons c cs =>
      have hc : c.isDigit = true := by apply hdig; rw [hp]; simp
      have hcne : c ≠ '-' := by intro h; subst h; revert hc; decide
      rw [hp] at hsplit hlen
      have : splitYear (c :: cs ++ '-' :: a1 :: b1 :: '-' :: a2 :: b2 :: tail) =
          (false, (c :: cs ++ '-' :: a1 :: b1 :: '-' :: a2 :: b2 :: tail).takeWhile Char.isDigit,
            (c :: cs ++ '-' :: a1 :: b1 :: '-' :: a2 :: b2 :: tail).dropWhile Char.isDigit) := by
        unfold splitYear
        simp only [List.cons_append]
        split
        · rename_i heq; simp only [List.cons.injEq] at heq; exact absurd heq.1 hcne
        · rfl
      simp only [List.cons_append] at this hsplit ⊢
      rw [this]
      simp only [hsplit.1, hsplit.2]
      rw [if_neg (by simp only [List.length_cons] at hlen ⊢; omega)]
      simp only [t1, t2]

theorem nonwhite_of_ge (c : Char) (h : 33 ≤ c.toNat) : EPV.CalLex.isPyWhite c = false := by
  unfold EPV.CalLex.isPyWhite EPV.CalLex.pyWhiteCPs
  simp only [List.contains_cons, List.contains_nil, Bool.or_false, Bool.or_eq_false_iff, beq_eq_false_iff_ne, ne_eq]
  refine ⟨by omega, by omega, by omega, by omega⟩

theorem pyStrip_id_of_all (s : Str) (hne : s ≠ []) (h : ∀ c ∈ s, EPV.CalLex.isPyWhite c = false) : EPV.CalLex.pyStrip s = s := by
  apply pyStrip_id s hne
  · intro c hc; exact h c (List.mem_of_mem_head? hc)
  · intro c hc; exact h c (List.mem_of_getLast? hc)

/-- every character of a timezone rendering is visible -/
theorem fmtTz_nonwhite (tz : Option Int) (htz : ∀ z, tz = some z → -840 ≤ z ∧ z ≤ 840) :
    ∀ c ∈ fmtTz tz, EPV.CalLex.isPyWhite c = false := by
  cases tz with
  | none => intro c hc; cases hc
  | some z =>
    have hz := htz z rfl
    have rt := (tz_parse_canon_roundtrip z hz.1 hz.2)
    have hm : EPV.CalLex.matchTz (EPV.CalLex.tzCanon z) = true := by
      unfold EPV.CalLex.tzParse at rt
      by_cases hm : EPV.CalLex.matchTz (EPV.CalLex.tzCanon z) = true
      · exact hm
      · simp [hm] at rt
    simp only [fmtTz]
    generalize EPV.CalLex.tzCanon z = s at hm
    unfold EPV.CalLex.matchTz at hm
    split at hm
    · intro c hc; simp at hc; subst hc; decide
    · rename_i sg a b c d e
      simp only [Bool.and_eq_true, Bool.or_eq_true, beq_iff_eq, EPV.CalLex.isDigit, decide_eq_true_eq] at hm
      have ge0 : ∀ x : Char, '0' ≤ x → 33 ≤ x.toNat := by
        intro x hx
        have : (48 : Nat) ≤ x.toNat := by
          have := Char.le_def.mp hx
          exact UInt32.le_iff_toNat_le.mp this
        omega
      have dg : ∀ x : Char, x.isDigit = true → 33 ≤ x.toNat := by
        intro x hx
        unfold Char.isDigit at hx
        simp only [Bool.and_eq_true, decide_eq_true_eq] at hx
        have : (48 : Nat) ≤ x.toNat := UInt32.le_iff_toNat_le.mp hx.1
        omega
      intro x hx
      simp only [List.mem_cons, List.mem_nil_iff, or_false] at hx
      apply nonwhite_of_ge
      rcases hx with rfl | rfl | rfl | rfl | rfl | rfl
      · rcases hm.1 with h | h <;> (rw [h]; decide)
      · rcases hm.2 with h | h
        · rcases h.1.1.1 with h' | h' <;> (rw [h'.1]; decide)
        · rw [h.1.1.1.1]; decide
      · rcases hm.2 with h | h
        · rcases h.1.1.1 with h' | h'
          · exact dg _ h'.2
          · exact ge0 _ h'.2.1
        · rw [h.1.1.1.2]; decide
      · rcases hm.2 with h | h
        · rw [h.1.1.2]; decide
        · rw [h.1.1.2]; decide
      · rcases hm.2 with h | h
        · exact ge0 _ h.1.2.1
        · rw [h.1.2]; decide
      · rcases hm.2 with h | h
        · exact dg _ h.2
        · rw [h.2]; decide
    · cases hm

theorem pad_nonwhite (w n : Nat) : ∀ c ∈ pad w n, EPV.CalLex.isPyWhite c = false :=
  fun c hc => digit_not_white c (pad_all_digits w n c hc)

theorem fmtTimeOfDay_nonwhite (us : Int) : ∀ c ∈ fmtTimeOfDay us, EPV.CalLex.isPyWhite c = false := by
  intro c hc
  unfold fmtTimeOfDay at hc
  simp only [List.mem_append, List.mem_cons] at hc
  rcases hc with ((h | rfl | h) | rfl | h) | h
  · exact pad_nonwhite _ _ c h
  · decide
  · exact pad_nonwhite _ _ c h
  · decide
  · exact pad_nonwhite _ _ c h
  · by_cases hz : us.toNat % 1000000 = 0
    · rw [if_pos hz] at h; cases h
    · rw [if_neg hz] at h
      simp only [List.mem_cons] at h
      rcases h with rfl | h
      · decide
      · exact pad_nonwhite _ _ c (rstrip0_mem _ c h)

theorem fmtTimeOfDay_ne_nil (us : Int) : fmtTimeOfDay us ≠ [] := by
  unfold fmtTimeOfDay
  have := pad_ne_nil 2 (us.toNat / 3600000000)
  intro h
  simp at h

/-- **`Time.fromstring(str(t)) = t`** for every time of day and timezone -/
theorem time_lex_roundtrip (t : DT) (ht : IsTime t) : timeOfLex (fmtTime t) = .ok t := by
  obtain ⟨hy, hm, hd, h0, h1, hz⟩ := ht
  have tzf := fmtTz_facts t.tz hz
  have hstrip : pyStripAll (fmtTime t) = fmtTime t := by
    unfold pyStripAll fmtTime
    apply pyStrip_id_of_all
    · intro h; simp at h; exact fmtTimeOfDay_ne_nil _ h.1
    · intro c hc
      rcases List.mem_append.mp hc with h | h
      · exact fmtTimeOfDay_nonwhite _ c h
      · exact fmtTz_nonwhite t.tz hz c h
  unfold timeOfLex
  rw [hstrip]
  unfold fmtTime
  obtain ⟨fd, hp, hf⟩ := parseTimeBody_fmt t.us h0 (by simpa [US] using h1) (fmtTz t.tz) tzf.2.1
  rw [hp]
  simp only []
  rw [tzf.1]
  simp only []
  have hu : ((t.us.toNat : Nat) : Int) = t.us := Int.toNat_of_nonneg h0
  have h1' : t.us < 86400000000 := by simpa [US] using h1
  have hnb : endOfDayBad (t.us.toNat / 3600000000) fd = false := by
    unfold endOfDayBad
    have : (t.us.toNat / 3600000000 == 24) = false := by simp only [beq_eq_false_iff_ne, ne_eq]; omega
    rw [this]; rfl
  rw [hnb]
  simp only [Bool.false_eq_true, ↓reduceIte]
  rw [hf]
  unfold timeMk
  have h24 : ((((t.us.toNat / 3600000000 : Nat) : Int)) == 24) = false := by
    simp only [beq_eq_false_iff_ne, ne_eq]; omega
  simp only [h24, Bool.false_and, Bool.false_eq_true, ↓reduceIte]
  rw [mk_ok 2000 1 1 _ _ _ _ t.tz (by decide) (by decide) (by decide) (by decide) (by omega) (by omega) (by omega) (by omega)]
  obtain ⟨y, m, d, u, z⟩ := t
  simp only at hy hm hd hu h0 h1' ⊢
  subst hy hm hd
  have : timeUs ((u.toNat / 3600000000 : Nat) : Int) ((u.toNat / 60000000 % 60 : Nat) : Int) ((u.toNat / 1000000 % 60 : Nat) : Int)
      ((u.toNat % 1000000 : Nat) : Int) = u := by unfold timeUs; omega
  rw [this]

theorem fmtYear_nonwhite (v11 : Bool) (y : Int) : ∀ c ∈ fmtYear v11 y, EPV.CalLex.isPyWhite c = false := by
  intro c hc
  unfold fmtYear at hc
  simp only [List.mem_append] at hc
  rcases hc with h | h
  · split at h
    · simp at h; subst h; decide
    · cases h
  · exact pad_nonwhite _ _ c h

theorem fmtDateBody_nonwhite (v11 : Bool) (v : DT) : ∀ c ∈ fmtDateBody v11 v, EPV.CalLex.isPyWhite c = false := by
  intro c hc
  unfold fmtDateBody at hc
  simp only [List.mem_append, List.mem_cons] at hc
  rcases hc with (h | rfl | h) | rfl | h
  · exact fmtYear_nonwhite _ _ c h
  · decide
  · exact pad_nonwhite _ _ c h
  · decide
  · exact pad_nonwhite _ _ c h

theorem fmtDateBody_ne_nil (v11 : Bool) (v : DT) : fmtDateBody v11 v ≠ [] := by
  unfold fmtDateBody; intro h; simp at h

/-- the year group of a string form gives the stored year back -/
theorem yearOfLex_fmt (v11 : Bool) (y : Int) (hy : y ≠ 0) :
    yearOfLex v11 (decide (isoYear v11 y < 0)) (pad 4 (isoYear v11 y).natAbs) = .ok y := by
  unfold yearOfLex
  rw [if_neg (pad4_no_leading_zero _), digitsVal_pad]
  have e : (if decide (isoYear v11 y < 0) = true then -((isoYear v11 y).natAbs : Int) else ((isoYear v11 y).natAbs : Int)) = isoYear v11 y := by
    by_cases h : isoYear v11 y < 0 <;> simp [h] <;> omega
  rw [e]; exact lexYear_isoYear v11 y hy

theorem date_fields_ok (v : DT) (hv : v.Valid) :
    v.month.toNat < 100 ∧ v.day.toNat < 100 ∧ ((v.month.toNat : Nat) : Int) = v.month ∧ ((v.day.toNat : Nat) : Int) = v.day ∧
    (1 ≤ v.month ∧ v.month ≤ 12) ∧ (1 ≤ v.day ∧ v.day ≤ monthDays (proxyLeap v.year) v.month) := by
  obtain ⟨hy, ⟨hm1, hm12, hd1, hd2, hu0, hu1⟩, htz⟩ := hv
  simp only [absV] at hm1 hm12 hd1 hd2
  have := Timeline.monthLen_pos (astro v.year) v.month
  refine ⟨by omega, by omega, by omega, by omega, ⟨hm1, hm12⟩, hd1, ?_⟩
  rw [proxyLeap_eq v.year hy, monthDays_eq _ _ hm1 hm12]; exact hd2

/-- **`Date.fromstring(str(d)) = d`** in both XSD versions -/
theorem date_lex_roundtrip (v11 : Bool) (v : DT) (hv : v.Valid) (hus : v.us = 0) (hyb : v.year.natAbs ≤ 2 ^ 31) :
    dateOfLex v11 (fmtDate v11 v) = .ok v := by
  have tzf := fmtTz_facts v.tz hv.2.2
  obtain ⟨hm, hd, em, ed, hmb, hdb⟩ := date_fields_ok v hv
  have hstrip : pyStripAll (fmtDate v11 v) = fmtDate v11 v := by
    unfold pyStripAll fmtDate
    apply pyStrip_id_of_all
    · intro h; simp at h; exact fmtDateBody_ne_nil _ _ h.1
    · intro c hc
      rcases List.mem_append.mp hc with h | h
      · exact fmtDateBody_nonwhite _ _ c h
      · exact fmtTz_nonwhite v.tz hv.2.2 c h
  unfold dateOfLex
  rw [hstrip]
  have hshape : fmtDate v11 v = fmtYear v11 v.year ++ '-' :: pad 2 v.month.toNat ++ '-' :: pad 2 v.day.toNat ++ fmtTz v.tz := by
    unfold fmtDate fmtDateBody; simp only [List.append_assoc, List.cons_append]
  rw [hshape, parseDateBody_fmt v11 v.year _ _ hm hd]
  simp only []
  rw [tzf.1]
  simp only []
  rw [yearOfLex_fmt v11 v.year hv.1]
  simp only [bind, Except.bind]
  rw [em, ed, mk_ok v.year v.month v.day 0 0 0 0 v.tz hv.1 hyb hmb hdb (by omega) (by omega) (by omega) (by omega)]
  obtain ⟨y, m, d, u, z⟩ := v
  simp only at hus; subst hus; rfl

/-- **`DateTime.fromstring(str(d)) = d`** in both XSD versions: BCE years, years of more than four digits,
fractions of a second, every timezone -/
theorem dateTime_lex_roundtrip (v11 : Bool) (v : DT) (hv : v.Valid) (hyb : v.year.natAbs ≤ 2 ^ 31) :
    dateTimeOfLex v11 (fmtDateTime v11 v) = .ok v := by
  have tzf := fmtTz_facts v.tz hv.2.2
  obtain ⟨hm, hd, em, ed, hmb, hdb⟩ := date_fields_ok v hv
  have h0 : 0 ≤ v.us := hv.2.1.2.2.2.2.1
  have h1 : v.us < 86400000000 := by have := hv.2.1.2.2.2.2.2; simpa [absV, Timeline.US] using this
  have hstrip : pyStripAll (fmtDateTime v11 v) = fmtDateTime v11 v := by
    unfold pyStripAll fmtDateTime
    apply pyStrip_id_of_all
    · intro h; simp at h
    · intro c hc
      simp only [List.mem_append, List.mem_cons] at hc
      rcases hc with (h | rfl | h) | h
      · exact fmtDateBody_nonwhite _ _ c h
      · decide
      · exact fmtTimeOfDay_nonwhite _ c h
      · exact fmtTz_nonwhite v.tz hv.2.2 c h
  unfold dateTimeOfLex
  rw [hstrip]
  have hshape : fmtDateTime v11 v = fmtYear v11 v.year ++ '-' :: pad 2 v.month.toNat ++ '-' :: pad 2 v.day.toNat ++
      ('T' :: (fmtTimeOfDay v.us ++ fmtTz v.tz)) := by
    unfold fmtDateTime fmtDateBody; simp only [List.append_assoc, List.cons_append]
  rw [hshape, parseDateBody_fmt v11 v.year _ _ hm hd]
  simp only []
  obtain ⟨fd, hp, hf⟩ := parseTimeBody_fmt v.us h0 h1 (fmtTz v.tz) tzf.2.1
  rw [hp]
  simp only []
  rw [tzf.1]
  simp only []
  have hu : ((v.us.toNat : Nat) : Int) = v.us := Int.toNat_of_nonneg h0
  have hnb : endOfDayBad (v.us.toNat / 3600000000) fd = false := by
    unfold endOfDayBad
    have : (v.us.toNat / 3600000000 == 24) = false := by simp only [beq_eq_false_iff_ne, ne_eq]; omega
    rw [this]; rfl
  rw [hnb]
  simp only [Bool.false_eq_true, ↓reduceIte]
  rw [yearOfLex_fmt v11 v.year hv.1]
  simp only [bind, Except.bind]
  rw [em, ed, hf]
  rw [mk_ok v.year v.month v.day _ _ _ _ v.tz hv.1 hyb hmb hdb (by omega) (by omega) (by omega) (by omega)]
  obtain ⟨y, m, d, u, z⟩ := v
  simp only at hu h0 h1 ⊢
  have : timeUs ((u.toNat / 3600000000 : Nat) : Int) ((u.toNat / 60000000 % 60 : Nat) : Int) ((u.toNat / 1000000 % 60 : Nat) : Int)
      ((u.toNat % 1000000 : Nat) : Int) = u := by unfold timeUs; omega
  rw [this]

/-- shape of the value of a Gregorian partial type: the absent fields are the constructor's defaults -/
def GShape (k : GKind) (v : DT) : Prop :=
  v.us = 0 ∧
  match k with
  | .gYear => v.month = 1 ∧ v.day = 1
  | .gYearMonth => v.day = 1
  | .gMonth => v.year = 2000 ∧ v.day = 1
  | .gMonthDay => v.year = 2000
  | .gDay => v.year = 2000 ∧ v.month = 1

theorem splitYear_fmtYear (v11 : Bool) (y : Int) (tail : Str) (ht : tail = [] ∨ ∃ c r, tail = c :: r ∧ c.isDigit = false) :
    splitYear (fmtYear v11 y ++ tail) = (decide (isoYear v11 y < 0), pad 4 (isoYear v11 y).natAbs, tail) := by
  unfold fmtYear
  simp only []
  generalize isoYear v11 y = n
  have hdig := pad_all_digits 4 n.natAbs
  have hsplit : (pad 4 n.natAbs ++ tail).takeWhile Char.isDigit = pad 4 n.natAbs ∧
      (pad 4 n.natAbs ++ tail).dropWhile Char.isDigit = tail := by
    rcases ht with rfl | ⟨c, r, rfl, hc⟩
    · simpa using takeWhile_digits_end _ hdig
    · exact takeWhile_digits_append _ r c hdig hc
  by_cases hn : n < 0
  · simp only [hn, ↓reduceIte, List.cons_append, List.nil_append, decide_true]
    simp only [splitYear, hsplit.1, hsplit.2]
  · simp only [hn, ↓reduceIte, List.nil_append, decide_false]
    have hne := pad_ne_nil 4 n.natAbs
    cases hp : pad 4 n.natAbs with
    | nil => exact absurd hp hne
    | cons c cs =>
      have hc : c.isDigit = true := by apply hdig; rw [hp]; simp
      have hcne : c ≠ '-' := by intro h; subst h; revert hc; decide
      rw [hp] at hsplit
      unfold splitYear
      simp only [List.cons_append] at hsplit ⊢
      split
      · rename_i heq; simp only [List.cons.injEq] at heq; exact absurd heq.1 hcne
      · rw [hsplit.1, hsplit.2]

theorem tzHead_weak {tail : Str} (h : TzHead tail) : tail = [] ∨ ∃ c r, tail = c :: r ∧ c.isDigit = false := by
  rcases h with h | ⟨c, r, h1, h2, _⟩
  · exact Or.inl h
  · exact Or.inr ⟨c, r, h1, h2⟩

theorem mk_midnight (y m d : Int) (tz : Option Int) (hy : y ≠ 0) (hyb : y.natAbs ≤ 2 ^ 31) (hm : 1 ≤ m ∧ m ≤ 12)
    (hd : 1 ≤ d ∧ d ≤ monthDays (proxyLeap y) m) : mk y m d 0 0 0 0 tz = .ok ⟨y, m, d, 0, tz⟩ :=
  mk_ok y m d 0 0 0 0 tz hy hyb hm hd (by omega) (by omega) (by omega) (by omega)

/-- **`Gregorian*.fromstring(str(g)) = g`** for gYear, gYearMonth, gMonth, gMonthDay and gDay values -/
theorem g_lex_roundtrip (k : GKind) (v11 : Bool) (v : DT) (hs : GShape k v) (hv : v.Valid) (hyb : v.year.natAbs ≤ 2 ^ 31) :
    gOfLex k v11 (fmtG k v11 v) = .ok v := by
  have tzf := fmtTz_facts v.tz hv.2.2
  have tznw := fmtTz_nonwhite v.tz hv.2.2
  obtain ⟨hm, hd, em, ed, hmb, hdb⟩ := date_fields_ok v hv
  obtain ⟨y, m, d, u, z⟩ := v
  obtain ⟨hus, hshape⟩ := hs
  simp only at hus hm hd em ed hmb hdb hyb tzf tznw
  subst hus
  have hstrip : ∀ s : Str, s ≠ [] → (∀ c ∈ s, EPV.CalLex.isPyWhite c = false) → pyStripAll s = s :=
    fun s h1 h2 => pyStrip_id_of_all s h1 h2
  cases k with
  | gYear =>
    obtain ⟨rfl, rfl⟩ := hshape
    unfold gOfLex fmtG
    simp only []
    rw [hstrip _ (by
          intro h
          have := pad_ne_nil 4 (isoYear v11 y).natAbs
          unfold fmtYear at h
          have h2 := (List.append_eq_nil_iff.mp h).1
          have h3 := (List.append_eq_nil_iff.mp h2).2
          exact this h3) (by
          intro c hc; rcases List.mem_append.mp hc with h | h
          · exact fmtYear_nonwhite _ _ c h
          · exact tznw c h)]
    rw [splitYear_fmtYear v11 y _ (tzHead_weak tzf.2.1)]
    simp only []
    rw [if_neg (by have := pad_length_ge 4 (isoYear v11 y).natAbs; omega), tzf.1]
    simp only []
    rw [yearOfLex_fmt v11 y hv.1]
    simp only [bind, Except.bind, gMk]
    exact mk_midnight y 1 1 z hv.1 hyb (by decide) (by simp [monthDays])
  | gYearMonth =>
    have hd1 : d = 1 := hshape
    subst hd1
    obtain ⟨a1, b1, e1, t1⟩ := pad2_shape m.toNat hm
    unfold gOfLex fmtG
    simp only []
    rw [hstrip _ (by intro h; simp at h) (by
          intro c hc
          simp only [List.mem_append, List.mem_cons] at hc
          rcases hc with (h | rfl | h) | h
          · exact fmtYear_nonwhite _ _ c h
          · decide
          · exact pad_nonwhite _ _ c h
          · exact tznw c h)]
    have hshape2 : fmtYear v11 y ++ '-' :: pad 2 m.toNat ++ fmtTz z = fmtYear v11 y ++ ('-' :: a1 :: b1 :: fmtTz z) := by
      rw [e1]; simp only [List.append_assoc, List.cons_append, List.nil_append]
    rw [hshape2, splitYear_fmtYear v11 y _ (Or.inr ⟨'-', _, rfl, by decide⟩)]
    simp only []
    rw [if_neg (by have := pad_length_ge 4 (isoYear v11 y).natAbs; omega)]
    simp only [t1, tzf.1]
    rw [yearOfLex_fmt v11 y hv.1]
    simp only [bind, Except.bind, gMk]
    rw [em]
    exact mk_midnight y m 1 z hv.1 hyb hmb hdb
  | gMonth =>
    obtain ⟨rfl, rfl⟩ := hshape
    obtain ⟨a1, b1, e1, t1⟩ := pad2_shape m.toNat hm
    unfold gOfLex fmtG
    simp only []
    rw [hstrip _ (by intro h; simp at h) (by
          intro c hc
          simp only [List.mem_append, List.mem_cons] at hc
          rcases hc with (rfl | rfl | h) | h
          · decide
          · decide
          · exact pad_nonwhite _ _ c h
          · exact tznw c h)]
    rw [e1]
    simp only [List.cons_append, List.nil_append, t1, tzf.1, gMk]
    rw [em]
    exact mk_midnight 2000 m 1 z (by decide) (by decide) hmb hdb
  | gMonthDay =>
    have hy : y = 2000 := hshape
    subst hy
    obtain ⟨a1, b1, e1, t1⟩ := pad2_shape m.toNat hm
    obtain ⟨a2, b2, e2, t2⟩ := pad2_shape d.toNat hd
    unfold gOfLex fmtG
    simp only []
    rw [hstrip _ (by intro h; simp at h) (by
          intro c hc
          simp only [List.mem_append, List.mem_cons] at hc
          rcases hc with ((rfl | rfl | h) | rfl | h) | h
          · decide
          · decide
          · exact pad_nonwhite _ _ c h
          · decide
          · exact pad_nonwhite _ _ c h
          · exact tznw c h)]
    rw [e1, e2]
    simp only [List.cons_append, List.nil_append, t1, t2, tzf.1, gMk]
    rw [em, ed]
    exact mk_midnight 2000 m d z (by decide) (by decide) hmb hdb
  | gDay =>
    obtain ⟨rfl, rfl⟩ := hshape
    obtain ⟨a2, b2, e2, t2⟩ := pad2_shape d.toNat hd
    unfold gOfLex fmtG
    simp only []
    rw [hstrip _ (by intro h; simp at h) (by
          intro c hc
          simp only [List.mem_append, List.mem_cons] at hc
          rcases hc with (rfl | rfl | rfl | h) | h
          · decide
          · decide
          · decide
          · exact pad_nonwhite _ _ c h
          · exact tznw c h)]
    rw [e2]
    simp only [List.cons_append, List.nil_append, t2, tzf.1, gMk]
    rw [ed]
    exact mk_midnight 2000 1 d z (by decide) (by decide) hmb hdb


theorem digitsVal2 (a b : Char) : EPV.CalLex.digitsVal [a, b] = (a.toNat - 48) * 10 + (b.toNat - 48) := by
  unfold EPV.CalLex.digitsVal
  rw [Nat.ofDigitChars_cons, Nat.ofDigitChars_cons, Nat.ofDigitChars_nil]
  simp; omega

theorem char_range (c : Char) (lo hi : Char) (h1 : lo ≤ c) (h2 : c ≤ hi) : lo.toNat ≤ c.toNat ∧ c.toNat ≤ hi.toNat :=
  ⟨UInt32.le_iff_toNat_le.mp (Char.le_def.mp h1), UInt32.le_iff_toNat_le.mp (Char.le_def.mp h2)⟩

theorem digit_range (c : Char) (h : c.isDigit = true) : 48 ≤ c.toNat ∧ c.toNat ≤ 57 := by
  unfold Char.isDigit at h
  simp only [Bool.and_eq_true, decide_eq_true_eq] at h
  exact ⟨UInt32.le_iff_toNat_le.mp h.1, UInt32.le_iff_toNat_le.mp h.2⟩

/-- the timezone group only yields offsets within ±14:00 -/
theorem tzParse_range (s : Str) (z : Int) (h : EPV.CalLex.tzParse s = some z) : -840 ≤ z ∧ z ≤ 840 := by
  unfold EPV.CalLex.tzParse at h
  by_cases hm : EPV.CalLex.matchTz s = true
  · rw [if_pos hm] at h
    simp only [Option.some.injEq] at h
    subst h
    unfold EPV.CalLex.matchTz at hm
    split at hm
    · simp [EPV.CalLex.tzOfLex]
    · rename_i sg a b c d e
      simp only [Bool.and_eq_true, Bool.or_eq_true, beq_iff_eq, EPV.CalLex.isDigit, decide_eq_true_eq] at hm
      obtain ⟨hsg, hrest⟩ := hm
      have hab : EPV.CalLex.digitsVal [a, b] ≤ 14 ∧ (EPV.CalLex.digitsVal [a, b] = 14 → EPV.CalLex.digitsVal [d, e] = 0) ∧
          EPV.CalLex.digitsVal [d, e] ≤ 59 := by
        rw [digitsVal2, digitsVal2]
        rcases hrest with h | h
        · have hd := char_range d '0' '5' h.1.2.1 h.1.2.2
          have he := digit_range e h.2
          have h0 : ('0' : Char).toNat = 48 := by decide
          have h5 : ('5' : Char).toNat = 53 := by decide
          rcases h.1.1.1 with h' | h'
          · have hb := digit_range b h'.2
            rw [h'.1, h0] at *; omega
          · have hb := char_range b '0' '3' h'.2.1 h'.2.2
            have h1 : ('1' : Char).toNat = 49 := by decide
            have h3 : ('3' : Char).toNat = 51 := by decide
            rw [h'.1]; rw [h0, h3] at hb; rw [h0, h5] at hd; rw [h1]; omega
        · rw [h.1.1.1.1, h.1.1.1.2, h.1.2, h.2]; decide
      unfold EPV.CalLex.tzOfLex EPV.CalLex.intOfLex
      rcases hsg with rfl | rfl <;> simp <;> omega
    · cases hm
  · rw [if_neg hm] at h; cases h


theorem parseTzTail_ok (t : Str) (tz : Option Int) (h : parseTzTail t = some tz) : TzOk tz := by
  unfold parseTzTail at h
  split at h
  · cases h; intro z hz; cases hz
  · cases hp : EPV.CalLex.tzParse t with
    | none => rw [hp] at h; cases h
    | some z =>
      rw [hp] at h; simp only [Option.map_some, Option.some.injEq] at h
      subst h
      intro z' hz'; cases hz'; exact tzParse_range t z hp

theorem dateTimeOfLex_inv (v11 : Bool) (s : Str) (v : DT) (h : dateTimeOfLex v11 s = .ok v) :
    ∃ y mo d hh mi sec us tz, TzOk tz ∧ mk y mo d hh mi sec us tz = .ok v := by
  unfold dateTimeOfLex at h
  split at h
  · split at h
    · split at h
      · rename_i tz htz
        split at h
        · cases h
        · cases hy : yearOfLex v11 _ _ with
          | error e => rw [hy] at h; cases h
          | ok y => rw [hy] at h; exact ⟨y, _, _, _, _, _, _, tz, parseTzTail_ok _ _ htz, h⟩
      · cases h
    · cases h
  · cases h

theorem dateOfLex_inv (v11 : Bool) (s : Str) (v : DT) (h : dateOfLex v11 s = .ok v) :
    ∃ y mo d tz, TzOk tz ∧ mk y mo d 0 0 0 0 tz = .ok v := by
  unfold dateOfLex at h
  split at h
  · split at h
    · rename_i tz htz
      cases hy : yearOfLex v11 _ _ with
      | error e => rw [hy] at h; cases h
      | ok y => rw [hy] at h; exact ⟨y, _, _, tz, parseTzTail_ok _ _ htz, h⟩
    · cases h
  · cases h

/-- **canonicalisation is idempotent**: whatever literal `DateTime.fromstring` accepts, the string form of the value
it returns is read back to that same value — `str` maps every accepted literal to a fixed point of
`str ∘ fromstring`.  No hypothesis on the literal or the value. -/
theorem dateTime_canonical_fixed_point (v11 : Bool) (s : Str) (v : DT) (h : dateTimeOfLex v11 s = .ok v) :
    dateTimeOfLex v11 (fmtDateTime v11 v) = .ok v := by
  obtain ⟨y, mo, d, hh, mi, sec, us, tz, htz, hmk⟩ := dateTimeOfLex_inv v11 s v h
  have hv := mk_valid y mo d hh mi sec us tz v htz hmk
  exact dateTime_lex_roundtrip v11 v hv.1 hv.2



/-- a successful constructor call that is not the `24:00:00` form returns exactly the given fields -/
theorem mk_no24_inv (y m d h mi s us : Int) (tz : Option Int) (w : DT)
    (h24 : (h == 24 && mi == 0 && s == 0 && us == 0) = false) (hw : mk y m d h mi s us tz = .ok w) :
    w = ⟨y, m, d, timeUs h mi s us, tz⟩ ∧ 0 ≤ timeUs h mi s us ∧ timeUs h mi s us < US := by
  unfold mk at hw
  simp only [h24, Bool.false_and, Bool.false_eq_true, ↓reduceIte] at hw
  have inv := mkCore_ok_inv _ _ _ _ _ _ _ _ _ _ hw
  have hf := pyFieldsOk_inv _ _ _ _ _ _ _ inv.2.2
  rw [mkCore_ok y m d h mi s us tz inv.1 inv.2.1 ⟨hf.1, hf.2.1⟩ ⟨hf.2.2.1, hf.2.2.2.1⟩ ⟨hf.2.2.2.2.1, hf.2.2.2.2.2.1⟩
    ⟨hf.2.2.2.2.2.2.1, hf.2.2.2.2.2.2.2.1⟩ ⟨hf.2.2.2.2.2.2.2.2.1, hf.2.2.2.2.2.2.2.2.2.1⟩
    ⟨hf.2.2.2.2.2.2.2.2.2.2.1, hf.2.2.2.2.2.2.2.2.2.2.2⟩] at hw
  simp only [Except.ok.injEq] at hw
  refine ⟨hw.symm, ?_, ?_⟩
  · unfold timeUs; omega
  · unfold timeUs; simp only [US]; omega

theorem date_canonical_fixed_point (v11 : Bool) (s : Str) (v : DT) (h : dateOfLex v11 s = .ok v) :
    dateOfLex v11 (fmtDate v11 v) = .ok v := by
  obtain ⟨y, mo, d, tz, htz, hmk⟩ := dateOfLex_inv v11 s v h
  have hv := mk_valid y mo d 0 0 0 0 tz v htz hmk
  have hu : v.us = 0 := by
    have := (mk_no24_inv y mo d 0 0 0 0 tz v (by decide) hmk).1
    rw [this]; rfl
  exact date_lex_roundtrip v11 v hv.1 hu hv.2

theorem timeMk_inv (h mi s us : Int) (tz : Option Int) (t : DT) (htz : TzOk tz) (hw : timeMk h mi s us tz = .ok t) : IsTime t := by
  unfold timeMk at hw
  simp only [] at hw
  by_cases hc : (h == 24 && mi == 0 && s == 0 && us == 0) = true
  · rw [if_pos hc] at hw
    simp only [Bool.and_eq_true, beq_iff_eq] at hc
    obtain ⟨⟨⟨_, rfl⟩, rfl⟩, rfl⟩ := hc
    obtain ⟨e, h0, h1⟩ := mk_no24_inv 2000 1 1 0 0 0 0 tz t (by decide) hw
    rw [e]; exact ⟨rfl, rfl, rfl, h0, h1, htz⟩
  · have hc' : (h == 24 && mi == 0 && s == 0 && us == 0) = false := by simpa using hc
    rw [if_neg hc] at hw
    obtain ⟨e, h0, h1⟩ := mk_no24_inv 2000 1 1 h mi s us tz t hc' hw
    rw [e]; exact ⟨rfl, rfl, rfl, h0, h1, htz⟩

theorem time_canonical_fixed_point (s : Str) (t : DT) (h : timeOfLex s = .ok t) : timeOfLex (fmtTime t) = .ok t := by
  have ht : IsTime t := by
    unfold timeOfLex at h
    split at h
    · split at h
      · rename_i tz htz
        split at h
        · cases h
        · exact timeMk_inv _ _ _ _ tz t (parseTzTail_ok _ _ htz) h
      · cases h
    · cases h
  exact time_lex_roundtrip t ht

end EPV.Cal

/-
C07 — one pair of a general comparison: helper lemmas per group of type pairs (untypedAtomic against
each type, string-likes, numerics, binaries, QNames) for EPV/Lemmas/CompareGeneral.lean.
-/
import EPV.Lemmas.CompareValue
set_option linter.unusedSimpArgs false
namespace EPV.Cmp
open EPV.CmpSpec EPV.CmpFind

macro "gp_simp" : tactic => `(tactic|
  simp [pairGeneral, pairGeneralWith, iterCheck, iterMatch, qnMake, categoryOK, cmpCategory, kindName, pairSpec, castThen, castUntyped, valueOp, isBoolA, isStrLike3, isStr, isQN, isUri, isInteger,
     Atom.isDur, numRank, castNum, pyOp, pyBinop, subclassFirst, dunder, Atom.pyNum, numCmp, liftPy, dCmp_eq_six, isEqNe, isUA,
     sCmp, iCmp, bCmp, cmpBy_eq_six, Atom.isDT, Atom.isBin, Atom.dt, Atom.binVal, Atom.durVal, durInstanceOf,
     binOrdered, strLtS, strEqS, octLt, D.isNaN, Op.isOrd])

theorem six_swap_str (op : Op) (s t : Str) :
    six strLt (fun x y => decide (x = y)) op.swap t s = six strLt (fun x y => decide (x = y)) op s t := by
  cases op <;> simp [six, Op.swap] <;> grind

theorem strLt_eq : strLt = strLtS := rfl

/-- untypedAtomic (left) against integer / double -/
theorem pg_ua_num (m : Mode) (op : Op) (s : Str) (b : Atom) (y : D)
    (hb : (∃ v : Int, b = .int v) ∨ b = .dbl y ∨ (∃ q : Rat, b = .dec q) ∨ b = .flt y)
    (h5 : pairSpec m op (.ua s) b ≠ .error .unsupported) :
    pairGeneral m op (.ua s) b = pairSpec m op (.ua s) b := by
  rcases hb with ⟨v, rfl⟩ | rfl | ⟨q, rfl⟩ | rfl
  · revert h5
    gp_simp
    simp only [strToDouble, castDouble]
    cases lexNum s <;> simp [Except.map, valueOp, numRank, castNum]
  · revert h5
    gp_simp
    simp only [strToDouble, castDouble]
    cases lexNum s <;> simp [Except.map, valueOp, numRank, castNum]
  · revert h5
    gp_simp
    simp only [strToDouble, castDouble]
    cases lexNum s <;> simp [Except.map, valueOp, numRank, castNum]
  · revert h5
    gp_simp
    simp only [strToDouble, castDouble]
    cases lexNum s <;> simp [Except.map, valueOp, numRank, castNum]

/-- integer / double (left) against untypedAtomic: the reflected method of UntypedAtomic answers -/
theorem pg_num_ua (m : Mode) (op : Op) (s : Str) (a : Atom) (x : D)
    (ha : (∃ v : Int, a = .int v) ∨ a = .dbl x ∨ (∃ q : Rat, a = .dec q) ∨ a = .flt x)
    (h5 : pairSpec m op a (.ua s) ≠ .error .unsupported) :
    pairGeneral m op a (.ua s) = pairSpec m op a (.ua s) := by
  rcases ha with ⟨v, rfl⟩ | rfl | ⟨q, rfl⟩ | rfl
  · revert h5
    gp_simp
    simp only [strToDouble, castDouble]
    cases lexNum s <;> simp [Except.map, valueOp, numRank, castNum, six_swap]
  · revert h5
    gp_simp
    simp only [strToDouble, castDouble]
    cases lexNum s <;> simp [Except.map, valueOp, numRank, castNum, six_swap]
  · revert h5
    gp_simp
    simp only [strToDouble, castDouble]
    cases lexNum s <;> simp [Except.map, valueOp, numRank, castNum, six_swap]
  · revert h5
    gp_simp
    simp only [strToDouble, castDouble]
    cases lexNum s <;> simp [Except.map, valueOp, numRank, castNum, six_swap]

/-- string-like pairs (xs:string, xs:anyURI, xs:untypedAtomic against a string) -/
theorem pg_str_str (m : Mode) (op : Op) (s t : Str) :
    pairGeneral m op (.str s) (.str t) = pairSpec m op (.str s) (.str t) ∧
    pairGeneral m op (.str s) (.uri t) = pairSpec m op (.str s) (.uri t) ∧
    pairGeneral m op (.uri s) (.str t) = pairSpec m op (.uri s) (.str t) ∧
    pairGeneral m op (.uri s) (.uri t) = pairSpec m op (.uri s) (.uri t) ∧
    pairGeneral m op (.str s) (.ua t) = pairSpec m op (.str s) (.ua t) ∧
    pairGeneral m op (.ua s) (.str t) = pairSpec m op (.ua s) (.str t) := by
  refine ⟨?_, ?_, ?_, ?_, ?_, ?_⟩ <;> gp_simp <;>
    (cases op <;> simp [six, Op.swap, strLtS, strEqS, strLt] <;> grind)

theorem pg_ua_ua (m : Mode) (op : Op) (s t : Str) :
    pairGeneral m op (.ua s) (.ua t) = pairSpec m op (.ua s) (.ua t) := by
  gp_simp
  rfl

theorem strToBool_cases (s : Str) :
    (strToBool s = .ok true ∧ castBool s = .ok true) ∨ (strToBool s = .ok false ∧ castBool s = .ok false) ∨
    (strToBool s = .error .valueErr ∧ castBool s = .error .FORG0001) := by
  unfold strToBool castBool
  by_cases h1 : (strip s = sTrue || strip s = [49]) = true
  · simp [h1]
  · by_cases h2 : (strip s = sFalse || strip s = [48]) = true
    · simp [h1, h2]
    · simp [h1, h2]

/-- untypedAtomic against boolean, either side -/
theorem pg_ua_bool (m : Mode) (op : Op) (s : Str) (y : Bool) :
    pairGeneral m op (.ua s) (.bool y) = pairSpec m op (.ua s) (.bool y) ∧
    pairGeneral m op (.bool y) (.ua s) = pairSpec m op (.bool y) (.ua s) := by
  rcases strToBool_cases s with ⟨h1, h2⟩ | ⟨h1, h2⟩ | ⟨h1, h2⟩ <;> constructor <;> gp_simp <;>
    simp [h1, h2, Except.map, valueOp, numRank] <;> (cases op <;> cases y <;> decide +kernel)

theorem strToUri_cases (s : Str) :
    strToUri s = .error .unsupported ∨ (strToUri s = .ok (strip s) ∧ hasInnerWs s = false) := by
  unfold strToUri
  split
  · exact Or.inl rfl
  · rename_i h
    simp only [Bool.or_eq_true, not_or, Bool.not_eq_true] at h
    exact Or.inr ⟨rfl, h.1⟩

/-- untypedAtomic against anyURI -/
theorem pg_ua_uri (m : Mode) (op : Op) (s t : Str)
    (h6 : pairGeneral m op (.ua s) (.uri t) ≠ .error .unsupported) :
    pairGeneral m op (.ua s) (.uri t) = pairSpec m op (.ua s) (.uri t) := by
  rcases strToUri_cases s with h | ⟨h, hw⟩
  · exact absurd (by gp_simp; simp [h]) h6
  · gp_simp
    simp [h, hw, valueOp, numRank, strLtS, strEqS, strLt]
    rfl

/-- anyURI (left) against untypedAtomic: the untyped value is cast to xs:anyURI -/
theorem pg_uri_ua (m : Mode) (op : Op) (s t : Str)
    (h6 : pairGeneral m op (.uri s) (.ua t) ≠ .error .unsupported) :
    pairGeneral m op (.uri s) (.ua t) = pairSpec m op (.uri s) (.ua t) := by
  rcases strToUri_cases t with h | ⟨h, hw⟩
  · exact absurd (by gp_simp; simp [h]) h6
  · gp_simp
    simp [h, hw, valueOp, numRank, strLtS, strEqS, strLt]
    rfl

/-- untypedAtomic (left) against a date/time/duration: the cast fails with FORG0001 on both sides
(strings of the fragment are never valid lexicals of those types) -/
theorem pg_ua_temporal (m : Mode) (op : Op) (s : Str) (b : Atom) (hb : isTemporal b = true)
    (h5 : pairSpec m op (.ua s) b ≠ .error .unsupported) :
    pairGeneral m op (.ua s) b = pairSpec m op (.ua s) b := by
  by_cases hn : notTemporalLexical s = true
  · cases b <;> simp [isTemporal, Atom.isDT, Atom.isDur] at hb <;> gp_simp <;> simp [hn]
  · cases b <;> simp [isTemporal, Atom.isDT, Atom.isDur] at hb <;>
      exact absurd (by gp_simp; simp [hn]) h5

/-- a date/time/duration (left) against untypedAtomic: `fromstring` of the untyped value -/
theorem pg_temporal_ua (m : Mode) (op : Op) (s : Str) (a : Atom) (ha : isTemporal a = true)
    (h5 : pairSpec m op a (.ua s) ≠ .error .unsupported) :
    pairGeneral m op a (.ua s) = pairSpec m op a (.ua s) := by
  by_cases hn : notTemporalLexical s = true
  · cases a <;> simp [isTemporal, Atom.isDT, Atom.isDur] at ha <;> cases op <;> gp_simp <;> simp [hn, PyR.map]
  · cases a <;> simp [isTemporal, Atom.isDT, Atom.isDur] at ha <;>
      exact absurd (by gp_simp; simp [hn]) h5

/-- two binaries of the same kind through the Python protocol (any fuel ≥ 2) -/
theorem bin_protocol (m : Mode) (op : Op) (x y : List Nat) (f : Nat) :
    liftPy (pyBinop m op (.hex x) (.hex y) (f + 2)) = valueOp (binOrdered m) op (.hex x) (.hex y) ∧
    liftPy (pyBinop m op (.b64 x) (.b64 y) (f + 2)) = valueOp (binOrdered m) op (.b64 x) (.b64 y) := by
  constructor <;> cases op <;> cases m <;>
    simp [pyBinop, subclassFirst, dunder, liftPy, valueOp, numRank, Atom.isBin, Atom.binVal, binOrdered, isEqNe, bCmp, cmpBy,
      bytesLt_eq_lex, octLt, six, Op.swap, PyR.map] <;> grind

theorem chain_ne_notImpl (X Y fb : PyR) (hfb : fb ≠ .notImpl) :
    (match X with
     | .notImpl => (match Y with | .notImpl => fb | r => r)
     | r => r) ≠ .notImpl := by
  cases X <;> cases Y <;> simp [hfb]

theorem pyBinop_ne_notImpl (m : Mode) (op : Op) (a b : Atom) (f : Nat) : pyBinop m op a b f ≠ .notImpl := by
  cases f with
  | zero => simp [pyBinop]
  | succ f =>
    simp only [pyBinop]
    split <;> exact chain_ne_notImpl _ _ _ (by cases op <;> simp)

def fallbackOf (op : Op) : PyR := match op with | .eq => .ok false | .ne => .ok true | _ => .typeErr

/-- one step of `do_richcompare` when no subclass priority applies -/
theorem pyBinop_step (m : Mode) (op : Op) (a b : Atom) (f : Nat) (h : subclassFirst a b = false) :
    pyBinop m op a b (f + 1) =
      match dunder m op a b f with
      | .notImpl => (match dunder m op.swap b a f with | .notImpl => fallbackOf op | r => r)
      | r => r := by
  simp only [pyBinop, h, Bool.false_eq_true, if_false, fallbackOf]
  rfl

theorem strToHex_err {s : Str} {e : PyR} (h : strToHex s = .error e) : e = .unsupported ∨ e = .valueErr := by
  unfold strToHex at h
  split at h
  · cases h; exact Or.inl rfl
  · split at h
    · cases h
    · cases h; exact Or.inr rfl

theorem strToB64_err {s : Str} {e : PyR} (h : strToB64 s = .error e) : e = .unsupported ∨ e = .valueErr := by
  simp only [strToB64] at h
  split at h
  · cases h
  · cases h; exact Or.inr rfl

/-- the outer layer of the protocol when the left operand is untyped and the right one a binary -/
theorem pyOp_ua_hex (m : Mode) (op : Op) (s : Str) (y : List Nat) :
    pyOp m op (.ua s) (.hex y) =
      match strToHex s with
      | .ok x => pyBinop m op (.hex x) (.hex y) 6
      | .error e => e := by
  have h : dunder m op (.ua s) (.hex y) 7 =
      match strToHex s with
      | .ok x => pyBinop m op (.hex x) (.hex y) 6
      | .error e => e := by rfl
  show pyBinop m op (.ua s) (.hex y) (7 + 1) = _
  rw [pyBinop_step m op _ _ 7 rfl, h]
  cases hs : strToHex s with
  | ok x =>
    have := pyBinop_ne_notImpl m op (.hex x) (.hex y) 6
    simp only
    try (split <;> simp_all)
  | error e =>
    rcases strToHex_err hs with rfl | rfl <;> simp

theorem pyOp_ua_b64 (m : Mode) (op : Op) (s : Str) (y : List Nat) :
    pyOp m op (.ua s) (.b64 y) =
      match strToB64 s with
      | .ok x => pyBinop m op (.b64 x) (.b64 y) 6
      | .error e => e := by
  have h : dunder m op (.ua s) (.b64 y) 7 =
      match strToB64 s with
      | .ok x => pyBinop m op (.b64 x) (.b64 y) 6
      | .error e => e := by rfl
  show pyBinop m op (.ua s) (.b64 y) (7 + 1) = _
  rw [pyBinop_step m op _ _ 7 rfl, h]
  cases hs : strToB64 s with
  | ok x =>
    have := pyBinop_ne_notImpl m op (.b64 x) (.b64 y) 6
    simp only
    try (split <;> simp_all)
  | error e =>
    rcases strToB64_err hs with rfl | rfl <;> simp

/-- binary (left) against untypedAtomic: `AbstractBinary.__op__` returns NotImplemented, the
reflected UntypedAtomic method builds the binary from the string -/
theorem pyOp_hex_ua (m : Mode) (op : Op) (s : Str) (x : List Nat) :
    pyOp m op (.hex x) (.ua s) =
      match strToHex s with
      | .ok y => pyBinop m op.swap (.hex y) (.hex x) 6
      | .error e => e := by
  have h1 : dunder m op (.hex x) (.ua s) 7 = .notImpl := by
    cases op <;> simp [dunder, Atom.isBin, PyR.map]
  have h2 : dunder m op.swap (.ua s) (.hex x) 7 =
      match strToHex s with
      | .ok y => pyBinop m op.swap (.hex y) (.hex x) 6
      | .error e => e := by rfl
  show pyBinop m op (.hex x) (.ua s) (7 + 1) = _
  rw [pyBinop_step m op _ _ 7 rfl, h1]
  simp only [h2]
  cases hs : strToHex s with
  | ok y =>
    have := pyBinop_ne_notImpl m op.swap (.hex y) (.hex x) 6
    simp only
    try (split <;> simp_all)
  | error e =>
    rcases strToHex_err hs with rfl | rfl <;> simp

theorem pyOp_b64_ua (m : Mode) (op : Op) (s : Str) (x : List Nat) :
    pyOp m op (.b64 x) (.ua s) =
      match strToB64 s with
      | .ok y => pyBinop m op.swap (.b64 y) (.b64 x) 6
      | .error e => e := by
  have h1 : dunder m op (.b64 x) (.ua s) 7 = .notImpl := by
    cases op <;> simp [dunder, Atom.isBin, PyR.map]
  have h2 : dunder m op.swap (.ua s) (.b64 x) 7 =
      match strToB64 s with
      | .ok y => pyBinop m op.swap (.b64 y) (.b64 x) 6
      | .error e => e := by rfl
  show pyBinop m op (.b64 x) (.ua s) (7 + 1) = _
  rw [pyBinop_step m op _ _ 7 rfl, h1]
  simp only [h2]
  cases hs : strToB64 s with
  | ok y =>
    have := pyBinop_ne_notImpl m op.swap (.b64 y) (.b64 x) 6
    simp only
    try (split <;> simp_all)
  | error e =>
    rcases strToB64_err hs with rfl | rfl <;> simp

/-- two QNames through the Python protocol (any fuel ≥ 2); the prefix plays no role -/
theorem qn_protocol (m : Mode) (op : Op) (a p b c q d : Str) (f : Nat) :
    liftPy (pyBinop m op (.qn a p b) (.qn c q d) (f + 2)) = valueOp (binOrdered m) op (.qn a [] b) (.qn c q d) := by
  cases op <;> simp [pyBinop, subclassFirst, dunder, liftPy, valueOp, numRank, isEqNe, six, Op.swap, PyR.map] <;> grind

theorem strToQName_err {s : Str} {e : PyR} (h : strToQName s = .error e) :
    e = .unsupported ∨ e = .valueErr := by
  unfold strToQName at h
  split at h <;> cases h <;> simp

theorem valueOp_bin_swap (bo : Bool) (op : Op) (x y : List Nat) :
    valueOp bo op.swap (.hex y) (.hex x) = valueOp bo op (.hex x) (.hex y) ∧
    valueOp bo op.swap (.b64 y) (.b64 x) = valueOp bo op (.b64 x) (.b64 y) := by
  constructor <;> cases op <;> cases bo <;> simp [valueOp, numRank, isEqNe, Op.swap, six] <;> grind

theorem pairGeneral_ua_left (m : Mode) (op : Op) (s : Str) (b : Atom) (hb : b.isBin = true) :
    pairGeneral m op (.ua s) b = liftPy (pyOp m op (.ua s) b) := by
  cases b <;> simp_all [pairGeneral, pairGeneralWith, iterCheck, iterMatch, categoryOK, Atom.isBin]

/-- untypedAtomic against QName, either side: XPath 3.1 casts the untyped value to a QName (in no
namespace when unprefixed); the 2.0 parsers raise XPTY0004 (that cast is not permitted in XPath 2.0) -/
theorem pg_ua_qn (m : Mode) (op : Op) (s ns pre loc : Str)
    (h5 : pairSpec m op (.ua s) (.qn ns pre loc) ≠ .error .unsupported) :
    pairGeneral m op (.ua s) (.qn ns pre loc) = pairSpec m op (.ua s) (.qn ns pre loc) := by
  by_cases hm : m = .v31
  · subst hm
    revert h5
    simp only [pairGeneral, pairGeneralWith, iterCheck, iterMatch, qnMake, categoryOK, pairSpec, castThen, castUntyped, strToQName, if_true]
    cases ncName s with
    | valid v =>
      intro _
      have := qn_protocol .v31 op [] [] v ns pre loc 6
      simp only [pyOp, this]
    | invalid => intro _; simp [liftPy]
    | prefixed => intro h; simp at h
    | unsupported => intro h; simp at h
  · simp [pairGeneral, pairGeneralWith, iterCheck, iterMatch, qnMake, pairSpec, hm, liftPy]

theorem valueOp_qn_pre (bo : Bool) (op : Op) (a p b c q d : Str) :
    valueOp bo op (.qn a p b) (.qn c q d) = valueOp bo op (.qn a [] b) (.qn c [] d) := by
  simp [valueOp, numRank]

theorem pg_qn_ua (m : Mode) (op : Op) (s ns pre loc : Str)
    (h5 : pairSpec m op (.qn ns pre loc) (.ua s) ≠ .error .unsupported) :
    pairGeneral m op (.qn ns pre loc) (.ua s) = pairSpec m op (.qn ns pre loc) (.ua s) := by
  by_cases hm : m = .v31
  · subst hm
    revert h5
    simp only [pairGeneral, pairGeneralWith, iterCheck, iterMatch, qnMake, categoryOK, pairSpec, castThen, castUntyped, strToQName, if_true]
    cases ncName s with
    | valid v =>
      intro _
      have := qn_protocol .v31 op ns pre loc [] [] v 6
      simp only [pyOp, this]
      rw [valueOp_qn_pre, valueOp_qn_pre _ _ ns pre loc]
    | invalid => intro _; simp [liftPy]
    | prefixed => intro h; simp at h
    | unsupported => intro h; simp at h
  · simp [pairGeneral, pairGeneralWith, iterCheck, iterMatch, qnMake, pairSpec, hm, liftPy]

/-- untypedAtomic against hexBinary / base64Binary, either side -/
theorem pg_ua_hex (m : Mode) (op : Op) (s : Str) (y : List Nat)
    (h5 : pairSpec m op (.ua s) (.hex y) ≠ .error .unsupported) :
    pairGeneral m op (.ua s) (.hex y) = pairSpec m op (.ua s) (.hex y) := by
  rw [pairGeneral_ua_left _ _ _ _ rfl, pyOp_ua_hex]
  by_cases hw : hasInnerWs s = true
  · exact absurd (by simp [pairSpec, castUntyped, hw]) h5
  · cases hd : hexDecode (strip s) with
    | none => simp [strToHex, hw, hd, liftPy, pairSpec, castUntyped]
    | some b => simp [strToHex, hw, hd, pairSpec, castUntyped, (bin_protocol m op b y 4).1]

theorem pg_hex_ua (m : Mode) (op : Op) (s : Str) (x : List Nat)
    (h5 : pairSpec m op (.hex x) (.ua s) ≠ .error .unsupported) :
    pairGeneral m op (.hex x) (.ua s) = pairSpec m op (.hex x) (.ua s) := by
  have : pairGeneral m op (.hex x) (.ua s) = liftPy (pyOp m op (.hex x) (.ua s)) := by
    simp [pairGeneral, pairGeneralWith, iterCheck, iterMatch, categoryOK, Atom.isDur]
  rw [this, pyOp_hex_ua]
  by_cases hw : hasInnerWs s = true
  · exact absurd (by simp [pairSpec, castUntyped, hw]) h5
  · cases hd : hexDecode (strip s) with
    | none => simp [strToHex, hw, hd, liftPy, pairSpec, castUntyped]
    | some b =>
      simp [strToHex, hw, hd, pairSpec, castUntyped, (bin_protocol m op.swap b x 4).1, (valueOp_bin_swap _ op x b).1]

theorem b64_cases (s : Str) :
    (∃ x, strToB64 s = .ok x ∧ castUntyped s (.b64 []) = .ok (.b64 x)) ∨
    (strToB64 s = .error .valueErr ∧ castUntyped s (.b64 []) = .error .FORG0001) := by
  simp only [strToB64, castUntyped]
  cases b64Decode (s.filter fun c => !isWs c) with
  | some b => exact Or.inl ⟨b, rfl, rfl⟩
  | none => exact Or.inr ⟨rfl, rfl⟩

theorem castUntyped_b64 (s : Str) (y : List Nat) : castUntyped s (.b64 y) = castUntyped s (.b64 []) := rfl

theorem pg_ua_b64 (m : Mode) (op : Op) (s : Str) (y : List Nat)
    (h5 : pairSpec m op (.ua s) (.b64 y) ≠ .error .unsupported) :
    pairGeneral m op (.ua s) (.b64 y) = pairSpec m op (.ua s) (.b64 y) := by
  rw [pairGeneral_ua_left _ _ _ _ rfl, pyOp_ua_b64]
  rcases b64_cases s with ⟨x, h1, h2⟩ | ⟨h1, h2⟩
  · simp [h1, pairSpec, castUntyped_b64 s y, h2, (bin_protocol m op x y 4).2]
  · simp [h1, pairSpec, castUntyped_b64 s y, h2, liftPy]

theorem pg_b64_ua (m : Mode) (op : Op) (s : Str) (x : List Nat)
    (h5 : pairSpec m op (.b64 x) (.ua s) ≠ .error .unsupported) :
    pairGeneral m op (.b64 x) (.ua s) = pairSpec m op (.b64 x) (.ua s) := by
  have : pairGeneral m op (.b64 x) (.ua s) = liftPy (pyOp m op (.b64 x) (.ua s)) := by
    simp [pairGeneral, pairGeneralWith, iterCheck, iterMatch, categoryOK, Atom.isDur]
  rw [this, pyOp_b64_ua]
  rcases b64_cases s with ⟨y, h1, h2⟩ | ⟨h1, h2⟩
  · simp [h1, pairSpec, castUntyped_b64 s x, h2, (bin_protocol m op.swap y x 4).2, (valueOp_bin_swap _ op x y).2]
  · simp [h1, pairSpec, castUntyped_b64 s x, h2, liftPy]

set_option maxHeartbeats 1000000 in
/-- numeric against numeric -/
theorem pg_numeric (m : Mode) (op : Op) (a b : Atom) (i j : Nat)
    (hi : numRank a = some i) (hj : numRank b = some j)
    (h1 : trigTol op a b = false) (h2 : trigPromotion a b = false) :
    pairGeneral m op a b = pairSpec m op a b := by
  cases a <;> simp [numRank] at hi <;> cases b <;> simp [numRank] at hj <;>
    simp [trigPromotion, numRank, exactVal, castNum] at h2 <;>
    simp [trigTol] at h1 <;> gp_simp
  all_goals first
    | (simp [h2.1, h2.2, six_swap]; done)
    | (simp [h2, six_swap]; done)
    | (cases op <;> simp_all [Op.isEqNe, numericEqual_of_not_tol, numericNotEqual_of_not_tol, six])

end EPV.Cmp

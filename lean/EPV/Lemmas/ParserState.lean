/-
Lemmas about the parse-cursor model (EPV/Model/ParserState.lean).
-/
import EPV.Model.ParserState
namespace EPV.PState
variable {τ μ ε ρ : Type}

theorem resetCursor_fields (start : τ) (c : Cursor τ μ) :
    (resetCursor start c).tokens = [] ∧ (resetCursor start c).nextMatch = none ∧
    (resetCursor start c).token = start ∧ (resetCursor start c).nextToken = start ∧
    (resetCursor start c).source = c.source ∧ (resetCursor start c).parseArgs = c.parseArgs :=
  ⟨rfl, rfl, rfl, rfl, rfl, rfl⟩

/-- the cursor returned by `Parser.parse` is `resetCursor` of *something* — on every path -/
theorem baseParse_is_reset (cfg : Config τ μ ε ρ) (c : Cursor τ μ) (src : Src) :
    ∃ c0, (baseParse cfg c src).2 = resetCursor cfg.start c0 := by
  unfold baseParse
  split
  · exact ⟨_, rfl⟩
  · exact ⟨_, rfl⟩
  · exact ⟨_, rfl⟩

theorem init_clean (start : τ) : Clean start (Cursor.init (μ := μ) start) :=
  ⟨rfl, rfl, rfl, rfl, rfl⟩

theorem xpParse_clean (cfg : Config τ μ ε ρ) (c : Cursor τ μ) (src : Src) :
    Clean cfg.start (xpParse cfg c src).2 := by
  obtain ⟨c0, h⟩ := baseParse_is_reset cfg c src
  simp [xpParse, Clean, h, resetCursor]

/-- two clean cursors differ at most in `source` -/
theorem clean_eq_init {start : τ} {c : Cursor τ μ} (h : Clean start c) :
    c = { Cursor.init start with source := c.source } := by
  obtain ⟨h1, h2, h3, h4, h5⟩ := h
  cases c
  simp only [Cursor.init] at *
  simp [h1, h2, h3, h4, h5]

/-- on a clean cursor a call with a string source behaves exactly as on a new instance
(result and cursor); the old `source` is overwritten before anything reads it -/
theorem baseParse_clean_str (cfg : Config τ μ ε ρ) {c : Cursor τ μ} (h : Clean cfg.start c) (s : String) :
    baseParse cfg c (.str s) = baseParse cfg (Cursor.init cfg.start) (.str s) ∨
    (cfg.tokenize (.str s) = none ∧
      (baseParse cfg c (.str s)).1 = (baseParse cfg (Cursor.init cfg.start) (.str s)).1) := by
  rw [clean_eq_init h]
  unfold baseParse
  cases ht : cfg.tokenize (.str s) with
  | none => right; exact ⟨rfl, rfl⟩
  | some ms => left; rfl

theorem baseParse_result_clean (cfg : Config τ μ ε ρ) {c : Cursor τ μ} (h : Clean cfg.start c) (src : Src) :
    (baseParse cfg c src).1 = (baseParse cfg (Cursor.init cfg.start) src).1 := by
  cases src with
  | str s =>
    rcases baseParse_clean_str cfg h s with h1 | ⟨_, h2⟩
    · rw [h1]
    · exact h2
  | other t =>
    unfold baseParse
    cases cfg.tokenize (.other t) <;> rfl

theorem xpParse_result_clean (cfg : Config τ μ ε ρ) {c : Cursor τ μ} (h : Clean cfg.start c) (src : Src) :
    (xpParse cfg c src).1 = (xpParse cfg (Cursor.init cfg.start) src).1 := by
  simp only [xpParse, baseParse_result_clean cfg h src]

/-- with a string source that the tokenizer accepts also the whole cursor equals a new instance's -/
theorem xpParse_state_clean_str (cfg : Config τ μ ε ρ) {c : Cursor τ μ} (h : Clean cfg.start c) (s : String)
    (ht : cfg.tokenize (.str s) ≠ none) :
    xpParse cfg c (.str s) = xpParse cfg (Cursor.init cfg.start) (.str s) := by
  rcases baseParse_clean_str cfg h s with h1 | ⟨h2, _⟩
  · simp only [xpParse, h1]
  · exact absurd h2 ht

/-- a rejected (non-string) source leaves `source` as it was: the one attribute in which a reused
instance can be told from a new one -/
theorem xpParse_rejected_source (cfg : Config τ μ ε ρ) (c : Cursor τ μ) (src : Src)
    (ht : cfg.tokenize src = none) : (xpParse cfg c src).2.source = c.source := by
  simp only [xpParse, baseParse, ht]
  rfl

theorem runHistory_results (cfg : Config τ μ ε ρ) (srcs : List Src) :
    ∀ c, Clean cfg.start c →
      (runHistory cfg c srcs).map (·.1) = (freshRuns cfg srcs).map (·.1) := by
  induction srcs with
  | nil => intro c _; rfl
  | cons s rest ih =>
    intro c hc
    simp only [runHistory, freshRuns, List.map_cons]
    rw [xpParse_result_clean cfg hc s]
    congr 1
    exact ih _ (xpParse_clean cfg c s)

theorem runHistory_clean (cfg : Config τ μ ε ρ) (srcs : List Src) :
    ∀ c, ∀ rc ∈ runHistory cfg c srcs, Clean cfg.start rc.2 := by
  induction srcs with
  | nil => intro c rc h; cases h
  | cons s rest ih =>
    intro c rc h
    simp only [runHistory, List.mem_cons] at h
    rcases h with h | h
    · rw [h]; exact xpParse_clean cfg c s
    · exact ih _ rc h

theorem runHistory_length (cfg : Config τ μ ε ρ) (srcs : List Src) :
    ∀ c, (runHistory cfg c srcs).length = srcs.length := by
  induction srcs with
  | nil => intro c; rfl
  | cons s rest ih => intro c; simp only [runHistory, List.length_cons, ih]

end EPV.PState

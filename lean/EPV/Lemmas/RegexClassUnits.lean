/-
C12 helper lemmas: bracket expressions given by their units (plain characters, ordered ranges of plain
characters, single-character escapes; `^`; nested subtraction) on the specification side — the grammar
`pClass` of Spec/XsdRegex.lean reads them as the class whose XSD set is `GClass.Den` — and, with
Lemmas/RegexClassGrammar.lean, the class side condition of the translation theorem for them.
-/
import EPV.Lemmas.RegexClassPlain
namespace EPV.Regex
open EPV.USet (CP memL strictGroup GroupRes)

/-- what may follow a complete part of a group: anything but a hyphen, or the `-[` of a subtraction -/
def ContOK (rest : List Ch) : Prop := ∀ nx r, rest = 45 :: nx :: r → nx = 91

theorem pst_eta (st : PSt) (b : Bool) (hb : b = false) :
    ({ opened := st.opened, closed := st.closed, unclear := st.unclear || b } : PSt) = st := by
  subst hb; cases st; simp

theorem pParts_chr_step (f : Nat) (ng : Bool) (c : Nat) (rest : List Ch) (acc : List CItem) (st : PSt)
    (hp : Plain c) (hr : ContOK rest) :
    pParts xo (f + 2) ng (c :: rest) acc st = pParts xo f ng rest (.chr c :: acc) st := by
  obtain ⟨h1, h2, h3, h4⟩ := hp
  rw [pParts.eq_def]
  simp only
  split
  all_goals (first
    | (rename_i heq; simp only [List.cons.injEq, reduceCtorEq] at heq; obtain ⟨hh, _⟩ := heq
       first | exact absurd hh h4 | exact absurd hh h2 | exact absurd hh h1)
    | skip)
  · rename_i heq; cases heq
  · rw [pSingle.eq_def]
    simp only [pSingleChar_plain xo c rest ⟨h1, h2, h3, h4⟩]
    split
    · rename_i nx rest2 _ _ _ _
      have hnx : nx = 91 := hr nx rest2 rfl
      subst hnx
      simp
    · simp


theorem pParts_rng_step (f : Nat) (ng : Bool) (a b : Nat) (rest : List Ch) (acc : List CItem) (st : PSt)
    (ha : Plain a) (hb : Plain b) (hab : a ≤ b) :
    pParts xo (f + 2) ng (a :: 45 :: b :: rest) acc st = pParts xo f ng rest (.range a b :: acc) st := by
  obtain ⟨h1, h2, h3, h4⟩ := ha
  rw [pParts.eq_def]
  simp only
  split
  all_goals (first
    | (rename_i heq; simp only [List.cons.injEq, reduceCtorEq] at heq; obtain ⟨hh, _⟩ := heq
       first | exact absurd hh h4 | exact absurd hh h2 | exact absurd hh h1)
    | skip)
  · rename_i heq; cases heq
  · rw [pSingle.eq_def]
    simp only [pSingleChar_plain xo a _ ⟨h1, h2, h3, h4⟩]
    have e1 : (b == 93 || b == 91) = false := by simp [hb.2.2.1, hb.2.2.2]
    have e2 : (b == 45) = false := by simp [hb.2.1]
    simp [e1, e2, pSingleChar_plain xo b rest hb, hab]

theorem singleEsc_single (e : Ch) (he : e ∈ singleEscs) : singleEsc xo e = some (escChar e) ∧ multiEsc e = none ∧
    (e == 112 || e == 80) = false := by
  simp only [singleEscs, List.mem_cons, List.not_mem_nil, or_false] at he
  rcases he with h|h|h|h|h|h|h|h|h|h|h|h|h|h|h <;> subst h <;> decide

theorem pParts_tok_step (f : Nat) (ng : Bool) (e : Ch) (he : e ∈ singleEscs) (rest : List Ch) (acc : List CItem) (st : PSt)
    (hr : ContOK rest) :
    pParts xo (f + 2) ng (92 :: e :: rest) acc st = pParts xo f ng rest (.chr (escChar e) :: acc) st := by
  obtain ⟨hs, hm, hp⟩ := singleEsc_single e he
  rw [pParts]
  simp only [hm, hp, Bool.false_eq_true, if_false]
  rw [pSingle.eq_def]
  simp only [pSingleChar, hs, Option.map_some]
  split
  · rename_i nx rest2
    have hnx : nx = 91 := hr nx rest2 rfl
    subst hnx
    simp
  · simp


/-! ### literal runs given by their units -/

inductive LUnit where
  | chr (c : Ch)
  | rng (a b : Ch)

def LUnit.text : LUnit → List Ch
  | .chr c => [c]
  | .rng a b => [a, 45, b]
def LUnit.cp : LUnit → CP
  | .chr c => .one c
  | .rng a b => .rng a (b + 1)
def LUnit.item : LUnit → CItem
  | .chr c => .chr c
  | .rng a b => .range a b
def LUnit.OK : LUnit → Prop
  | .chr c => Plain c
  | .rng a b => Plain a ∧ Plain b ∧ a ≤ b

def renderUnits (us : List LUnit) : List Ch := us.flatMap LUnit.text

theorem renderUnits_cons (u : LUnit) (us : List LUnit) : renderUnits (u :: us) = u.text ++ renderUnits us := by
  simp [renderUnits]

theorem renderUnits_head (us : List LUnit) (h : ∀ u ∈ us, u.OK) (rest : List Ch) (hr : rest.head? ≠ some 45) :
    (renderUnits us ++ rest).head? ≠ some 45 := by
  cases us with
  | nil => simpa [renderUnits] using hr
  | cons u r =>
    cases u with
    | chr c => simpa [renderUnits, LUnit.text] using (h (.chr c) (by simp)).2.1
    | rng a b => simpa [renderUnits, LUnit.text] using (h (.rng a b) (by simp)).1.2.1

theorem contOK_of_head {rest : List Ch} (h : rest.head? ≠ some 45) : ContOK rest := by
  intro nx r heq; subst heq; simp at h

open EPV.USet (charOrEsc afterChar strictGoF strictGo) in
theorem strictGoF_units : ∀ (us : List LUnit) (fuel : Nat), (∀ u ∈ us, u.OK) → us.length < fuel →
    strictGoF fuel (renderUnits us) = .ok (us.map LUnit.cp) := by
  intro us
  induction us with
  | nil => intro fuel _ hf; obtain ⟨f, rfl⟩ : ∃ f, fuel = f + 1 := ⟨fuel - 1, by omega⟩; simp [strictGoF, renderUnits]
  | cons u us ih =>
    intro fuel hok hf
    obtain ⟨f, rfl⟩ : ∃ f, fuel = f + 1 := ⟨fuel - 1, by omega⟩
    have ih' := ih f (fun d hd => hok d (List.mem_cons_of_mem _ hd)) (by simp at hf; omega)
    have hhead := renderUnits_head us (fun d hd => hok d (List.mem_cons_of_mem _ hd)) [] (by simp)
    simp only [List.append_nil] at hhead
    cases u with
    | chr c =>
      have hc : Plain c := hok (.chr c) (by simp)
      rw [renderUnits_cons]
      simp only [LUnit.text, List.cons_append, List.nil_append]
      rw [strictGoF]
      · simp only [charOrEsc_plain c _ hc]
        unfold afterChar
        split
        · rename_i heq; rw [heq] at hhead; simp at hhead
        · rw [ih']; rfl
      · intro heq; cases heq
      · intro heq
        simp only [List.cons.injEq] at heq
        exact hc.2.1 heq.1
    | rng a b =>
      obtain ⟨ha, hb, hab⟩ : Plain a ∧ Plain b ∧ a ≤ b := hok (.rng a b) (by simp)
      rw [renderUnits_cons]
      simp only [LUnit.text, List.cons_append, List.nil_append]
      rw [strictGoF]
      · simp only [charOrEsc_plain a _ ha]
        unfold afterChar
        simp only [charOrEsc_plain b _ hb]
        have : ¬ a > b := Nat.not_lt.2 hab
        simp [this, ih', LUnit.cp, GroupRes.map]
      · intro heq; cases heq
      · intro heq
        simp only [List.cons.injEq] at heq
        exact ha.2.1 heq.1


theorem units_len (us : List LUnit) : us.length ≤ (renderUnits us).length := by
  induction us with
  | nil => simp
  | cons u r ih =>
    rw [renderUnits_cons, List.length_append, List.length_cons]
    cases u <;> simp [LUnit.text] <;> omega

open EPV.USet (charOrEsc afterChar strictGoF strictGo) in
theorem strictGroup_units (us : List LUnit) (hne : us ≠ []) (hok : ∀ u ∈ us, u.OK) :
    strictGroup (renderUnits us) = .ok (us.map LUnit.cp) := by
  have hgo : strictGo (renderUnits us) = .ok (us.map LUnit.cp) :=
    strictGoF_units us _ hok (Nat.lt_succ_of_le (units_len us))
  match us, hne, hok, hgo with
  | [.chr c], _, hok, _ =>
    have hc : Plain c := hok (.chr c) (by simp)
    simp [renderUnits, LUnit.text, strictGroup, charOrEsc_plain c [] hc, LUnit.cp]
  | .chr c :: u2 :: r, _, hok, hgo =>
    have hc : Plain c := hok (.chr c) (by simp)
    obtain ⟨d, t, ht⟩ : ∃ d t, renderUnits (u2 :: r) = d :: t := by
      cases u2 <;> simp [renderUnits, LUnit.text]
    have htxt : renderUnits (.chr c :: u2 :: r) = c :: d :: t := by
      rw [renderUnits_cons, ht]; rfl
    rw [htxt] at hgo ⊢
    rw [strictGroup]
    · exact hgo
    · intro x heq; cases heq
    · intro rest heq
      simp only [List.cons.injEq] at heq
      exact hc.2.1 heq.1
  | .rng a b :: r, _, hok, hgo =>
    have ha : Plain a := (hok (.rng a b) (by simp)).1
    have htxt : renderUnits (.rng a b :: r) = a :: 45 :: (b :: renderUnits r) := by
      rw [renderUnits_cons]; rfl
    rw [htxt] at hgo ⊢
    rw [strictGroup]
    · exact hgo
    · intro x heq; cases heq
    · intro rest heq
      simp only [List.cons.injEq] at heq
      exact ha.2.1 heq.1


theorem pParts_units (ng : Bool) : ∀ (us : List LUnit) (rest : List Ch) (acc : List CItem) (st : PSt) (f : Nat),
    (∀ u ∈ us, u.OK) → ContOK rest →
    pParts xo (f + 2 * us.length) ng (renderUnits us ++ rest) acc st =
      pParts xo f ng rest ((us.map LUnit.item).reverse ++ acc) st := by
  intro us
  induction us with
  | nil => intro rest acc st f _ _; simp [renderUnits]
  | cons u us ih =>
    intro rest acc st f hok hr
    have hok' : ∀ d ∈ us, d.OK := fun d hd => hok d (List.mem_cons_of_mem _ hd)
    have hfu : f + 2 * (u :: us).length = (f + 2 * us.length) + 2 := by simp; omega
    rw [hfu, renderUnits_cons]
    cases u with
    | chr c =>
      have hc : Plain c := hok (.chr c) (by simp)
      have hcont : ContOK (renderUnits us ++ rest) := by
        cases us with
        | nil => simpa [renderUnits] using hr
        | cons u2 r =>
          apply contOK_of_head
          cases u2 with
          | chr d => simpa [renderUnits, LUnit.text] using (hok' (.chr d) (by simp)).2.1
          | rng a b => simpa [renderUnits, LUnit.text] using (hok' (.rng a b) (by simp)).1.2.1
      simp only [LUnit.text, List.cons_append, List.nil_append]
      rw [pParts_chr_step _ ng c _ acc st hc hcont, ih rest _ st f hok' hr]
      simp [LUnit.item]
    | rng a b =>
      obtain ⟨ha, hb, hab⟩ : Plain a ∧ Plain b ∧ a ≤ b := hok (.rng a b) (by simp)
      simp only [LUnit.text, List.cons_append, List.nil_append]
      rw [pParts_rng_step _ ng a b _ acc st ha hb hab, ih rest _ st f hok' hr]
      simp [LUnit.item]


/-! ### segmented groups given by units, on the specification side -/

inductive USeg where
  | lit (us : List LUnit)
  | tok (e : Ch)

def USeg.toSeg : USeg → Seg
  | .lit us => .lit (renderUnits us) (us.map LUnit.cp)
  | .tok e => .tok e
def USeg.items : USeg → List CItem
  | .lit us => us.map LUnit.item
  | .tok e => [.chr (escChar e)]
def USeg.cost : USeg → Nat
  | .lit us => us.length
  | .tok _ => 1

def usegText (segs : List USeg) : List Ch := renderSegs (segs.map USeg.toSeg)
def usegItems (segs : List USeg) : List CItem := segs.flatMap USeg.items
def usegCost (segs : List USeg) : Nat := (segs.map USeg.cost).sum

/-- well-formed: runs are non-empty, made of plain characters and ordered plain ranges, never adjacent;
escapes are single-character escapes, and `\-` is not directly followed by another escape -/
def USegsOK : Option Ch → List USeg → Prop
  | _, [] => True
  | _, .lit us :: r => us ≠ [] ∧ (∀ u ∈ us, u.OK) ∧ (match r with | .lit _ :: _ => False | _ => True) ∧ USegsOK none r
  | pt, .tok e :: r => e ∈ singleEscs ∧ pt ≠ some 45 ∧ USegsOK (some e) r

theorem usegText_cons (sg : USeg) (r : List USeg) : usegText (sg :: r) = sg.toSeg.text ++ usegText r := by
  simp [usegText, renderSegs]

theorem usegText_head (segs : List USeg) (pt : Option Ch) (h : USegsOK pt segs) (rest : List Ch)
    (hr : rest.head? ≠ some 45) : (usegText segs ++ rest).head? ≠ some 45 := by
  cases segs with
  | nil => simpa [usegText, renderSegs] using hr
  | cons sg r =>
    cases sg with
    | lit us =>
      obtain ⟨hne, hok, _⟩ := h
      rw [usegText_cons, List.append_assoc]
      cases us with
      | nil => exact absurd rfl hne
      | cons u t =>
        cases u with
        | chr c => simpa [USeg.toSeg, Seg.text, renderUnits, LUnit.text] using (hok (.chr c) (by simp)).2.1
        | rng a b => simpa [USeg.toSeg, Seg.text, renderUnits, LUnit.text] using (hok (.rng a b) (by simp)).1.2.1
    | tok e => simp [usegText_cons, USeg.toSeg, Seg.text]


theorem pParts_usegs (ng : Bool) : ∀ (segs : List USeg) (pt : Option Ch) (term : List Ch) (acc : List CItem) (st : PSt)
    (f : Nat), USegsOK pt segs → ContOK term →
    pParts xo (f + 2 * usegCost segs) ng (usegText segs ++ term) acc st =
      pParts xo f ng term ((usegItems segs).reverse ++ acc) st := by
  intro segs
  induction segs with
  | nil => intro pt term acc st f _ _; simp [usegText, renderSegs, usegCost, usegItems]
  | cons sg r ih =>
    intro pt term acc st f hok hterm
    -- what follows this segment is a legal continuation
    have hcont : ∀ pt', USegsOK pt' r → ContOK (usegText r ++ term) := by
      intro pt' hr
      cases r with
      | nil => simpa [usegText, renderSegs] using hterm
      | cons sg2 r2 =>
        apply contOK_of_head
        cases sg2 with
        | lit us2 =>
          obtain ⟨hne2, hok2, _⟩ := hr
          rw [usegText_cons, List.append_assoc]
          cases us2 with
          | nil => exact absurd rfl hne2
          | cons u t =>
            cases u with
            | chr c => simpa [USeg.toSeg, Seg.text, renderUnits, LUnit.text] using (hok2 (.chr c) (by simp)).2.1
            | rng a b => simpa [USeg.toSeg, Seg.text, renderUnits, LUnit.text] using (hok2 (.rng a b) (by simp)).1.2.1
        | tok e => simp [usegText_cons, USeg.toSeg, Seg.text]
    cases sg with
    | lit us =>
      obtain ⟨_, hus, _, hr⟩ := hok
      have hc : usegCost (.lit us :: r) = usegCost r + us.length := by simp [usegCost, USeg.cost]; omega
      rw [hc, show f + 2 * (usegCost r + us.length) = (f + 2 * usegCost r) + 2 * us.length by omega, usegText_cons,
        List.append_assoc]
      simp only [USeg.toSeg, Seg.text]
      rw [pParts_units ng us _ acc st _ hus (hcont none hr), ih none term _ st f hr hterm]
      simp [usegItems, USeg.items]
    | tok e =>
      obtain ⟨he, _, hr⟩ := hok
      have hc : usegCost (.tok e :: r) = usegCost r + 1 := by simp [usegCost, USeg.cost]; omega
      rw [hc, show f + 2 * (usegCost r + 1) = (f + 2 * usegCost r) + 2 by omega, usegText_cons, List.append_assoc]
      simp only [USeg.toSeg, Seg.text, List.cons_append, List.nil_append]
      rw [pParts_tok_step _ ng e he _ acc st (hcont (some e) hr), ih (some e) term _ st f hr hterm]
      simp [usegItems, USeg.items]


/-! ### class expressions given by units: the grammar of the specification reads them as `GClass.Den` -/

inductive UClass where
  | plain (ng : Bool) (segs : List USeg)
  | minus (ng : Bool) (segs : List USeg) (sub : UClass)

def UClass.toG : UClass → GClass
  | .plain ng segs => .plain ng (segs.map USeg.toSeg)
  | .minus ng segs sub => .minus ng (segs.map USeg.toSeg) sub.toG

def UClass.toC : UClass → CClass
  | .plain ng segs => .mk ng (usegItems segs) none
  | .minus ng segs sub => .mk ng (usegItems segs) (some sub.toC)

/-- unit-level well-formedness (implies the segment-level one, `segsOK_of_usegs`) -/
def UClass.OK : UClass → Prop
  | .plain ng segs => segs ≠ [] ∧ USegsOK none segs ∧ (ng = false → (usegText segs).head? ≠ some 94)
  | .minus ng segs sub => segs ≠ [] ∧ USegsOK none segs ∧ (ng = false → (usegText segs).head? ≠ some 94) ∧ sub.OK

theorem usegCost_le (segs : List USeg) : usegCost segs ≤ (usegText segs).length := by
  induction segs with
  | nil => simp [usegCost]
  | cons sg r ih =>
    rw [usegText_cons, List.length_append]
    cases sg with
    | lit us => have := units_len us; simp [usegCost, USeg.cost, USeg.toSeg, Seg.text] at *; omega
    | tok e => simp [usegCost, USeg.cost, USeg.toSeg, Seg.text] at *; omega

theorem usegItems_ne_nil (segs : List USeg) (hne : segs ≠ []) (pt : Option Ch) (h : USegsOK pt segs) : usegItems segs ≠ [] := by
  cases segs with
  | nil => exact absurd rfl hne
  | cons sg r =>
    cases sg with
    | lit us =>
      obtain ⟨hus, _⟩ := h
      cases us with
      | nil => exact absurd rfl hus
      | cons u t => simp [usegItems, USeg.items]
    | tok e => simp [usegItems, USeg.items]

theorem usegText_ne_nil (segs : List USeg) (hne : segs ≠ []) (pt : Option Ch) (h : USegsOK pt segs) : usegText segs ≠ [] := by
  cases segs with
  | nil => exact absurd rfl hne
  | cons sg r =>
    rw [usegText_cons]
    cases sg with
    | lit us =>
      obtain ⟨hus, _⟩ := h
      cases us with
      | nil => exact absurd rfl hus
      | cons u t => cases u <;> simp [USeg.toSeg, Seg.text, renderUnits, LUnit.text]
    | tok e => simp [USeg.toSeg, Seg.text]

/-- the group part of a class on the specification side: `^`? and the parts, up to the terminator -/
theorem pClass_group (ng : Bool) (segs : List USeg) (hne : segs ≠ []) (hseg : USegsOK none segs)
    (h0 : ng = false → (usegText segs).head? ≠ some 94) (term : List Ch) (hterm : ContOK term) (f : Nat) (st : PSt) :
    pClass xo ((f + 2 * usegCost segs) + 1) (caret ng ++ usegText segs ++ term) st =
      pParts xo f ng term (usegItems segs).reverse st := by
  have hrun := pParts_usegs ng segs none term [] st f hseg hterm
  simp only [List.append_nil] at hrun
  cases ng with
  | true =>
    simp only [caret, if_true, List.cons_append, List.nil_append, List.append_assoc]
    rw [pClass]
    exact hrun
  | false =>
    simp only [caret, Bool.false_eq_true, if_false, List.nil_append, List.append_assoc]
    rw [pClass]
    · exact hrun
    · intro rest heq
      have hh := h0 rfl
      cases hu : usegText segs with
      | nil => exact absurd hu (usegText_ne_nil segs hne none hseg)
      | cons a b =>
        rw [hu] at heq hh
        simp only [List.cons_append, List.cons.injEq] at heq
        simp at hh
        exact hh heq.1


theorem items_rev_isEmpty (segs : List USeg) (hne : segs ≠ []) (h : USegsOK none segs) :
    (usegItems segs).reverse.isEmpty = false := by
  cases hh : usegItems segs with
  | nil => exact absurd hh (usegItems_ne_nil segs hne none h)
  | cons a b => simp

theorem pClass_uclass : ∀ (uc : UClass), uc.OK → ∀ (F : Nat) (tail : List Ch) (st : PSt),
    2 * uc.toG.render.length + 2 ≤ F →
    pClass xo (F + 1) (uc.toG.render ++ tail) st = some (uc.toC, tail, st) := by
  intro uc
  induction uc with
  | plain ng segs =>
    intro hok F tail st hF
    obtain ⟨hne, hseg, h0⟩ := hok
    have hcost := usegCost_le segs
    have htl : (renderSegs (segs.map USeg.toSeg)).length = (usegText segs).length := rfl
    simp only [UClass.toG, GClass.render, List.length_append, List.length_cons, List.length_nil] at hF
    obtain ⟨f, rfl⟩ : ∃ f, F = (f + 1) + 2 * usegCost segs := ⟨F - 2 * usegCost segs - 1, by omega⟩
    have hg := pClass_group ng segs hne hseg h0 (93 :: tail) (contOK_of_head (by simp)) (f + 1) st
    have hre : (UClass.plain ng segs).toG.render ++ tail = caret ng ++ usegText segs ++ 93 :: tail := by
      simp [UClass.toG, GClass.render, usegText]
    rw [hre, hg]
    simp [pParts, items_rev_isEmpty segs hne hseg, UClass.toC]
  | minus ng segs sub ih =>
    intro hok F tail st hF
    obtain ⟨hne, hseg, h0, hsub⟩ := hok
    have hcost := usegCost_le segs
    have htl : (renderSegs (segs.map USeg.toSeg)).length = (usegText segs).length := rfl
    simp only [UClass.toG, GClass.render, List.length_append, List.length_cons, List.length_nil] at hF
    obtain ⟨f, rfl⟩ : ∃ f, F = ((f + 1) + 1) + 2 * usegCost segs := ⟨F - 2 * usegCost segs - 2, by omega⟩
    have hg := pClass_group ng segs hne hseg h0 (45 :: 91 :: (sub.toG.render ++ 93 :: tail))
      (fun nx r heq => by simp only [List.cons.injEq] at heq; exact heq.2.1.symm) (f + 1 + 1) st
    have hre : (UClass.minus ng segs sub).toG.render ++ tail =
        caret ng ++ usegText segs ++ 45 :: 91 :: (sub.toG.render ++ 93 :: tail) := by
      simp [UClass.toG, GClass.render, usegText]
    have hsubp := ih hsub f (93 :: tail) st (by omega)
    rw [hre, hg]
    simp [pParts, items_rev_isEmpty segs hne hseg, hsubp, UClass.toC]


/-! ### from units to the segment-level side conditions -/

theorem unit_text_nobr (u : LUnit) (h : u.OK) : ∀ c ∈ u.text, NoBr c := by
  cases u with
  | chr c =>
    intro d hd; simp [LUnit.text] at hd; subst hd
    exact ⟨h.1, h.2.2.1, h.2.2.2⟩
  | rng a b =>
    obtain ⟨ha, hb, _⟩ := h
    intro d hd
    simp [LUnit.text] at hd
    rcases hd with rfl | rfl | rfl
    · exact ⟨ha.1, ha.2.2.1, ha.2.2.2⟩
    · exact ⟨by decide, by decide, by decide⟩
    · exact ⟨hb.1, hb.2.2.1, hb.2.2.2⟩

theorem renderUnits_nobr (us : List LUnit) (h : ∀ u ∈ us, u.OK) : ∀ c ∈ renderUnits us, NoBr c := by
  intro c hc
  simp only [renderUnits, List.mem_flatMap] at hc
  obtain ⟨u, hu, hcu⟩ := hc
  exact unit_text_nobr u (h u hu) c hcu

theorem renderUnits_getLast (us : List LUnit) (hne : us ≠ []) (h : ∀ u ∈ us, u.OK) :
    (renderUnits us).getLast? ≠ some 45 := by
  induction us with
  | nil => exact absurd rfl hne
  | cons u r ih =>
    rw [renderUnits_cons]
    cases r with
    | nil =>
      cases u with
      | chr c => simpa [renderUnits, LUnit.text] using (h (.chr c) (by simp)).2.1
      | rng a b => simpa [renderUnits, LUnit.text] using (h (.rng a b) (by simp)).2.1.2.1
    | cons u2 r2 =>
      have := ih (by simp) (fun d hd => h d (List.mem_cons_of_mem _ hd))
      have hne2 : renderUnits (u2 :: r2) ≠ [] := by cases u2 <;> simp [renderUnits, LUnit.text]
      rw [List.getLast?_append]
      cases hl : (renderUnits (u2 :: r2)).getLast? with
      | none => simp at hl; exact absurd hl hne2
      | some e => rw [hl] at this; simpa using this

theorem renderUnits_ne_nil (us : List LUnit) (hne : us ≠ []) : renderUnits us ≠ [] := by
  cases us with
  | nil => exact absurd rfl hne
  | cons u r => cases u <;> simp [renderUnits, LUnit.text]

theorem segsOK_of_usegs : ∀ (segs : List USeg) (pt : Option Ch) (afterTok : Bool) (prev : Option Ch),
    USegsOK pt segs → (prev = some 45 → pt = some 45) → SegsOK afterTok prev (segs.map USeg.toSeg) := by
  intro segs
  induction segs with
  | nil => intro _ _ _ _ _; trivial
  | cons sg r ih =>
    intro pt afterTok prev hok hprev
    cases sg with
    | lit us =>
      obtain ⟨hne, hus, hnext, hr⟩ := hok
      refine ⟨renderUnits_ne_nil us hne, renderUnits_nobr us hus, strictGroup_units us hne hus, fun _ => ?_, ?_, ?_⟩
      · have := renderUnits_head us hus [] (by simp)
        simpa using this
      · cases r with
        | nil => trivial
        | cons sg2 r2 => cases sg2 <;> simp_all [USeg.toSeg]
      · exact ih none false _ hr (fun h => absurd h (renderUnits_getLast us hne hus))
    | tok e =>
      obtain ⟨he, hpt, hr⟩ := hok
      exact ⟨he, fun h => hpt (hprev h), ih (some e) true (some e) hr id⟩


/-! ### the XSD set of the specification's reading equals `GClass.Den` -/

def LUnit.eitem : LUnit → Item
  | .chr c => ⟨false, .single c⟩
  | .rng a b => ⟨false, .range a b⟩
def USeg.eitems : USeg → List Item
  | .lit us => us.map LUnit.eitem
  | .tok e => [⟨false, .single (escChar e)⟩]
def usegEItems (segs : List USeg) : List Item := segs.flatMap USeg.eitems

def UClass.toE : UClass → ClassE
  | .plain ng segs => .plain ng (usegEItems segs)
  | .minus ng segs sub => .minus ng (usegEItems segs) sub.toE

theorem mapM_units (T : Tables) (us : List LUnit) : (us.map LUnit.item).mapM (CItem.toItem T) = some (us.map LUnit.eitem) := by
  induction us with
  | nil => rfl
  | cons u r ih => cases u <;> simp [List.mapM_cons, LUnit.item, LUnit.eitem, CItem.toItem, ih]

theorem mapM_usegs (T : Tables) (segs : List USeg) : (usegItems segs).mapM (CItem.toItem T) = some (usegEItems segs) := by
  induction segs with
  | nil => rfl
  | cons sg r ih =>
    have : usegItems (sg :: r) = sg.items ++ usegItems r := by simp [usegItems]
    rw [this, List.mapM_append]
    cases sg with
    | lit us =>
      simp only [USeg.items]
      rw [mapM_units, ih]
      simp [usegEItems, USeg.eitems]
    | tok e => simp [USeg.items, List.mapM_cons, CItem.toItem, ih, usegEItems, USeg.eitems]

theorem toClassE_uclass (T : Tables) : ∀ (uc : UClass), uc.toC.toClassE T = some uc.toE := by
  intro uc
  induction uc with
  | plain ng segs => simp [UClass.toC, CClass.toClassE, mapM_usegs, UClass.toE]
  | minus ng segs sub ih => simp [UClass.toC, CClass.toClassE, mapM_usegs, UClass.toE, ih]

theorem range_mem (a b x : Nat) : (SetE.range a b).mem x = true ↔ a ≤ x ∧ x < b + 1 := by
  simp [SetE.range, SetE.mem, memR]

theorem unit_den (u : LUnit) (x : Nat) : u.eitem.mem x = true ↔ u.cp.mem x := by
  cases u with
  | chr c =>
    simp only [LUnit.eitem, Item.mem, Bool.false_eq_true, if_false, single_mem, LUnit.cp, EPV.USet.CP.mem,
      EPV.USet.CP.lo, EPV.USet.CP.hi]
    constructor
    · rintro rfl; exact ⟨Nat.le_refl _, Nat.lt_succ_self _⟩
    · rintro ⟨h1, h2⟩; omega
  | rng a b =>
    simp only [LUnit.eitem, Item.mem, Bool.false_eq_true, if_false, range_mem, LUnit.cp, EPV.USet.CP.mem,
      EPV.USet.CP.lo, EPV.USet.CP.hi]

theorem units_den (us : List LUnit) (x : Nat) : (us.map LUnit.eitem).any (·.mem x) = true ↔ memL x (us.map LUnit.cp) := by
  induction us with
  | nil => simp [memL]
  | cons u r ih => simp only [List.map_cons, List.any_cons, Bool.or_eq_true, memL, ih, unit_den]

theorem usegs_den (segs : List USeg) (x : Nat) :
    (usegEItems segs).any (·.mem x) = true ↔ SegsDen (segs.map USeg.toSeg) x := by
  induction segs with
  | nil => simp [usegEItems, SegsDen]
  | cons sg r ih =>
    have : usegEItems (sg :: r) = sg.eitems ++ usegEItems r := by simp [usegEItems]
    rw [this, List.any_append, Bool.or_eq_true, ih, List.map_cons, SegsDen_cons]
    cases sg with
    | lit us => simp only [USeg.eitems, USeg.toSeg, units_den]
    | tok e =>
      simp only [USeg.eitems, USeg.toSeg, List.any_cons, List.any_nil, Bool.or_false, Item.mem, Bool.false_eq_true,
        if_false, single_mem]

theorem uclass_den : ∀ (uc : UClass) (x : Nat), specClass uc.toE x = true ↔ uc.toG.Den x := by
  intro uc
  induction uc with
  | plain ng segs =>
    intro x
    simp only [UClass.toE, specClass, specGroup, UClass.toG, GClass.Den]
    cases ng
    · simp only [Bool.false_eq_true, if_false]; exact usegs_den segs x
    · simp only [if_true, Bool.not_eq_true', ← usegs_den segs x]
      cases (usegEItems segs).any (·.mem x) <;> simp
  | minus ng segs sub ih =>
    intro x
    simp only [UClass.toE, specClass, specGroup, UClass.toG, GClass.Den, Bool.and_eq_true, Bool.not_eq_true', ← ih x]
    have hg : ((if ng = true then !(usegEItems segs).any (·.mem x) else (usegEItems segs).any (·.mem x)) = true) ↔
        (if ng = true then ¬ SegsDen (segs.map USeg.toSeg) x else SegsDen (segs.map USeg.toSeg) x) := by
      cases ng
      · simp only [Bool.false_eq_true, if_false]; exact usegs_den segs x
      · simp only [if_true, Bool.not_eq_true', ← usegs_den segs x]
        cases (usegEItems segs).any (·.mem x) <;> simp
    rw [hg]
    cases specClass sub.toE x <;> simp


/-- the translator's hyphen checks at every level -/
def UClass.checks (v10 : Bool) : UClass → Bool
  | .plain _ segs => translatorChecks v10 (usegText segs)
  | .minus _ segs sub => translatorChecks v10 (usegText segs) && sub.checks v10

theorem uclass_wf (v10 : Bool) : ∀ (uc : UClass), uc.OK → uc.checks v10 = true → uc.toG.WF v10 := by
  intro uc
  induction uc with
  | plain ng segs =>
    intro ⟨hne, hseg, h0⟩ hchk
    exact ⟨by simpa using hne, segsOK_of_usegs segs none false none hseg (fun h => by cases h), h0, hchk⟩
  | minus ng segs sub ih =>
    intro ⟨hne, hseg, h0, hsub⟩ hchk
    simp only [UClass.checks, Bool.and_eq_true] at hchk
    exact ⟨⟨by simpa using hne, segsOK_of_usegs segs none false none hseg (fun h => by cases h), h0, hchk.1⟩, ih hsub hchk.2⟩

/-- **The class side condition of the translation theorem, for bracket expressions of the XSD group
grammar**: groups made of plain characters, ordered ranges of plain characters and single-character
escapes, with `^` and any depth of subtraction.  The transcribed class scanner and the grammar of the
specification accept the same text, leave the same rest, and denote the same set. -/
theorem stepOK_class_uclass (Tm : MTables) (T : Tables) (v10 atStart : Bool) (nested : Nat) (uc : UClass)
    (hok : uc.OK) (hchk : uc.checks v10 = true) (tail : List Ch) :
    StepOK Tm T v10 atStart nested (91 :: (uc.toG.render ++ tail)) := by
  simp only [StepOK]
  intro c rest' st hpc
  have hF : 2 * uc.toG.render.length + 2 ≤ 3 * (uc.toG.render ++ tail).length + 3 := by simp; omega
  rw [show 3 * (uc.toG.render ++ tail).length + 4 = (3 * (uc.toG.render ++ tail).length + 3) + 1 by omega,
    pClass_uclass uc hok _ tail {} hF] at hpc
  simp only [Option.some.injEq, Prod.mk.injEq] at hpc
  obtain ⟨rfl, rfl, _⟩ := hpc
  obtain ⟨cc, hparse, _, hcc⟩ := parseClassM_grammar Tm v10 uc.toG (uclass_wf v10 uc hok hchk)
    ((uc.toG.render ++ tail).length + 1) tail (by have := uc.toG.depth_le_render; simp; omega)
  refine ⟨cc, uc.toE, hparse, toClassE_uclass T uc, fun x hx => ?_⟩
  have h1 := hcc x hx
  have h2 := uclass_den uc x
  cases hc : cc.contains x <;> cases hs : specClass uc.toE x <;> simp_all

end EPV.Regex

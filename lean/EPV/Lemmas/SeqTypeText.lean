/-
C18 — the string-level splitting of typed function tests (`helpers.split_function_test`) against the AST.
-/
import EPV.Lemmas.SeqType
set_option linter.unusedSimpArgs false
namespace EPV.SeqType

/-! ### the depth-aware scan -/

theorem splitScan_atom (d : Nat) (s : String) (r cur : List Tok) :
    splitScan d (.atom s :: r) cur = splitScan d r (cur ++ [.atom s]) := by cases d <;> rfl
theorem splitScan_opn (d : Nat) (s : String) (r cur : List Tok) :
    splitScan d (.opn s :: r) cur = splitScan (d + 1) r (cur ++ [.opn s]) := by cases d <;> rfl
theorem splitScan_cls (d : Nat) (s : String) (r cur : List Tok) :
    splitScan (d + 1) (.cls s :: r) cur = splitScan d r (cur ++ [.cls s]) := rfl
theorem splitScan_comma_succ (d : Nat) (r cur : List Tok) :
    splitScan (d + 1) (.comma :: r) cur = splitScan (d + 1) r (cur ++ [.comma]) := rfl
theorem splitScan_closeAs_succ (d : Nat) (r cur : List Tok) :
    splitScan (d + 1) (.closeAs :: r) cur = splitScan d r (cur ++ [.closeAs]) := rfl
theorem splitScan_comma_zero (r cur : List Tok) :
    splitScan 0 (.comma :: r) cur = (cur :: (splitScan 0 r []).1, (splitScan 0 r []).2) := rfl
theorem splitScan_closeAs_zero (r cur : List Tok) :
    splitScan 0 (.closeAs :: r) cur = (if cur.isEmpty then [] else [cur], r) := rfl

variable (nm ln : Nat → String)

mutual
/-- the text of a type is balanced: at every depth the scan runs over it without splitting -/
theorem scan_render : ∀ (t : Ty) (d : Nat) (rest cur : List Tok),
    splitScan d (t.render nm ln ++ rest) cur = splitScan d rest (cur ++ t.render nm ln)
  | .empty, d, rest, cur => by simp [Ty.render, splitScan_atom]
  | .leaf l o, d, rest, cur => by
    cases l <;> simp [Ty.render, splitScan_atom, splitScan_opn, splitScan_comma_succ, splitScan_cls]
  | .func a r, d, rest, cur => by
    simp only [Ty.render, List.cons_append, List.append_assoc, splitScan_opn]
    rw [scan_renderArgs a d, splitScan_closeAs_succ, scan_render r d]
    simp [List.append_assoc]
  | .map k v o, d, rest, cur => by
    simp only [Ty.render, List.cons_append, List.append_assoc, splitScan_opn, splitScan_comma_succ]
    rw [scan_render v (d + 1)]
    simp [splitScan_cls, List.append_assoc]
  | .array m o, d, rest, cur => by
    simp only [Ty.render, List.cons_append, List.append_assoc, splitScan_opn]
    rw [scan_render m (d + 1)]
    simp [splitScan_cls, List.append_assoc]
/-- inside a parenthesis the `', '` between parameters does not split either -/
theorem scan_renderArgs : ∀ (a : Tys) (d : Nat) (rest cur : List Tok),
    splitScan (d + 1) (a.renderArgs nm ln ++ rest) cur = splitScan (d + 1) rest (cur ++ a.renderArgs nm ln)
  | .nil, d, rest, cur => by simp [Tys.renderArgs]
  | .cons x .nil, d, rest, cur => by
    simp only [Tys.renderArgs]; exact scan_render x (d + 1) rest cur
  | .cons x (.cons y ys), d, rest, cur => by
    have ih := scan_renderArgs (.cons y ys) d rest
    simp only [Tys.renderArgs, List.append_assoc, List.cons_append] at ih ⊢
    rw [scan_render x (d + 1), splitScan_comma_succ, ih]
    simp [List.append_assoc]
end

theorem render_ne_nil : ∀ t : Ty, t.render nm ln ≠ []
  | .empty => by simp [Ty.render]
  | .leaf l o => by cases l <;> simp [Ty.render]
  | .func _ _ => by simp [Ty.render]
  | .map _ _ _ => by simp [Ty.render]
  | .array _ _ => by simp [Ty.render]

/-- the parameter list of a function test, scanned at depth 0, comes apart at the `', '` between the parameters -/
theorem scan_args (R : List Tok) : ∀ a : Tys,
    splitScan 0 (a.renderArgs nm ln ++ .closeAs :: R) [] = (a.argTexts nm ln, R)
  | .nil => by simp [Tys.renderArgs, Tys.argTexts, splitScan_closeAs_zero]
  | .cons x .nil => by
    simp only [Tys.renderArgs, Tys.argTexts]
    rw [scan_render, splitScan_closeAs_zero]
    have := render_ne_nil nm ln x
    simp [this]
  | .cons x (.cons y ys) => by
    have ih := scan_args R (.cons y ys)
    simp only [Tys.renderArgs, Tys.argTexts, List.append_assoc, List.cons_append] at ih ⊢
    rw [scan_render, splitScan_comma_zero, ih]
    simp

/-- **`split_function_test` agrees with the AST for every typed function test**: the parameter texts are the texts
of the parameters (none for `function() as r`), the last piece is the text of the return type. -/
theorem pySplit_eq (a : Tys) (r : Ty) :
    pySplit ((Ty.func a r).render nm ln) = (a.argTexts nm ln, r.render nm ln) := by
  simp only [pySplit, Ty.render, List.tail_cons]
  exact scan_args nm ln _ a

theorem argTexts_length : ∀ a : Tys, (a.argTexts nm ln).length = a.toList.length
  | .nil => rfl
  | .cons x xs => by simp [Tys.argTexts, Tys.toList, argTexts_length xs]

/-! ### separator-free texts -/

def noSep (l : List Tok) : Bool := l.all (fun t => !t.isSep)

theorem noSep_append (a b : List Tok) : noSep (a ++ b) = (noSep a && noSep b) := by simp [noSep]

/-- a type is `simple` exactly when its text contains neither `', '` nor `') as '` -/
theorem simple_iff_noSep : ∀ t : Ty, t.simple = true ↔ noSep (t.render nm ln) = true
  | .empty => by simp [Ty.simple, Ty.render, noSep, Tok.isSep]
  | .leaf l _ => by cases l <;> simp [Ty.simple, Ty.render, noSep, Tok.isSep]
  | .func a r => by simp [Ty.simple, Ty.render, noSep, Tok.isSep]
  | .map _ _ _ => by simp [Ty.simple, Ty.render, noSep, Tok.isSep]
  | .array m o => by
    have ih := simple_iff_noSep m
    simp only [Ty.simple, Ty.render]
    rw [ih]
    simp [noSep, Tok.isSep]

end EPV.SeqType

/-
C18 — the string-level splitting of typed function tests (`helpers.split_function_test`) against the AST.
-/
import EPV.Lemmas.SeqType
set_option linter.unusedSimpArgs false
namespace EPV.SeqType

/-! ### the depth-aware scan -/

theorem splitScan_atom (d : Nat) (s : String) (r cur : List Tok) :
    splitScan d (.atom s :: r) cur = splitScan d r (cur ++ [.atom s]) := by cases d <;> rfl
theorem splitScan_opn (d : Nat) (s : String) (r cur : List Tok) :
    splitScan d (.opn s :: r) cur = splitScan (d + 1) r (cur ++ [.opn s]) := by cases d <;> rfl
theorem splitScan_cls (d : Nat) (s : String) (r cur : List Tok) :
    splitScan (d + 1) (.cls s :: r) cur = splitScan d r (cur ++ [.cls s]) := rfl
theorem splitScan_comma_succ (d : Nat) (r cur : List Tok) :
    splitScan (d + 1) (.comma :: r) cur = splitScan (d + 1) r (cur ++ [.comma]) := rfl
theorem splitScan_closeAs_succ (d : Nat) (r cur : List Tok) :
    splitScan (d + 1) (.closeAs :: r) cur = splitScan d r (cur ++ [.closeAs]) := rfl
theorem splitScan_comma_zero (r cur : List Tok) :
    splitScan 0 (.comma :: r) cur = (cur :: (splitScan 0 r []).1, (splitScan 0 r []).2) := rfl
theorem splitScan_closeAs_zero (r cur : List Tok) :
    splitScan 0 (.closeAs :: r) cur = (if cur.isEmpty then [] else [cur], r) := rfl

variable (nm ln : Nat → String)

mutual
/-- the text of a type is balanced: at every depth the scan runs over it without splitting -/
theorem scan_render : ∀ (t : Ty) (d : Nat) (rest cur : List Tok),
    splitScan d (t.render nm ln ++ rest) cur = splitScan d rest (cur ++ t.render nm ln)
  | .empty, d, rest, cur => by simp [Ty.render, splitScan_atom]
  | .leaf l o, d, rest, cur => by
    cases l <;> simp [Ty.render, splitScan_atom, splitScan_opn, splitScan_comma_succ, splitScan_cls]
  | .func a r, d, rest, cur => by
    simp only [Ty.render, List.cons_append, List.append_assoc, splitScan_opn]
    rw [scan_renderArgs a d, splitScan_closeAs_succ, scan_render r d]
    simp [List.append_assoc]
  | .map k v o, d, rest, cur => by
    simp only [Ty.render, List.cons_append, List.append_assoc, splitScan_opn, splitScan_comma_succ]
    rw [scan_render v (d + 1)]
    simp [splitScan_cls, List.append_assoc]
  | .array m o, d, rest, cur => by
    simp only [Ty.render, List.cons_append, List.append_assoc, splitScan_opn]
    rw [scan_render m (d + 1)]
    simp [splitScan_cls, List.append_assoc]
/-- inside a parenthesis the `', '` between parameters does not split either -/
theorem scan_renderArgs : ∀ (a : Tys) (d : Nat) (rest cur : List Tok),
    splitScan (d + 1) (a.renderArgs nm ln ++ rest) cur = splitScan (d + 1) rest (cur ++ a.renderArgs nm ln)
  | .nil, d, rest, cur => by simp [Tys.renderArgs]
  | .cons x .nil, d, rest, cur => by
    simp only [Tys.renderArgs]; exact scan_render x (d + 1) rest cur
  | .cons x (.cons y ys), d, rest, cur => by
    have ih := scan_renderArgs (.cons y ys) d rest
    simp only [Tys.renderArgs, List.append_assoc, List.cons_append] at ih ⊢
    rw [scan_render x (d + 1), splitScan_comma_succ, ih]
    simp [List.append_assoc]
end

theorem render_ne_nil : ∀ t : Ty, t.render nm ln ≠ []
  | .empty => by simp [Ty.render]
  | .leaf l o => by cases l <;> simp [Ty.render]
  | .func _ _ => by simp [Ty.render]
  | .map _ _ _ => by simp [Ty.render]
  | .array _ _ => by simp [Ty.render]

/-- the parameter list of a function test, scanned at depth 0, comes apart at the `', '` between the parameters -/
theorem scan_args (R : List Tok) : ∀ a : Tys,
    splitScan 0 (a.renderArgs nm ln ++ .closeAs :: R) [] = (a.argTexts nm ln, R)
  | .nil => by simp [Tys.renderArgs, Tys.argTexts, splitScan_closeAs_zero]
  | .cons x .nil => by
    simp only [Tys.renderArgs, Tys.argTexts]
    rw [scan_render, splitScan_closeAs_zero]
    have := render_ne_nil nm ln x
    simp [this]
  | .cons x (.cons y ys) => by
    have ih := scan_args R (.cons y ys)
    simp only [Tys.renderArgs, Tys.argTexts, List.append_assoc, List.cons_append] at ih ⊢
    rw [scan_render, splitScan_comma_zero, ih]
    simp

/-- **`split_function_test` agrees with the AST for every typed function test**: the parameter texts are the texts
of the parameters (none for `function() as r`), the last piece is the text of the return type. -/
theorem pySplit_eq (a : Tys) (r : Ty) :
    pySplit ((Ty.func a r).render nm ln) = (a.argTexts nm ln, r.render nm ln) := by
  simp only [pySplit, Ty.render, List.tail_cons]
  exact scan_args nm ln _ a

theorem argTexts_length : ∀ a : Tys, (a.argTexts nm ln).length = a.toList.length
  | .nil => rfl
  | .cons x xs => by simp [Tys.argTexts, Tys.toList, argTexts_length xs]

/-! ### the splitting before `fix-c18-6` (`partition(') as ')`, `split(', ')`): agrees exactly on simple parameters -/

def noSep (l : List Tok) : Bool := l.all (fun t => !t.isSep)
def noCloseAs (l : List Tok) : Bool := l.all (fun t => t != .closeAs)

theorem noSep_append (a b : List Tok) : noSep (a ++ b) = (noSep a && noSep b) := by simp [noSep]
theorem noCloseAs_append (a b : List Tok) : noCloseAs (a ++ b) = (noCloseAs a && noCloseAs b) := by simp [noCloseAs]

theorem noCloseAs_of_noSep (l : List Tok) (h : noSep l = true) : noCloseAs l = true := by
  simp only [noSep, noCloseAs, List.all_eq_true] at h ⊢
  intro t ht; have := h t ht; cases t <;> simp_all [Tok.isSep]

/-- a type is `simple` exactly when its text contains neither `', '` nor `') as '` -/
theorem simple_iff_noSep : ∀ t : Ty, t.simple = true ↔ noSep (t.render nm ln) = true
  | .empty => by simp [Ty.simple, Ty.render, noSep, Tok.isSep]
  | .leaf l _ => by cases l <;> simp [Ty.simple, Ty.render, noSep, Tok.isSep]
  | .func a r => by simp [Ty.simple, Ty.render, noSep, Tok.isSep]
  | .map _ _ _ => by simp [Ty.simple, Ty.render, noSep, Tok.isSep]
  | .array m o => by
    have ih := simple_iff_noSep m
    simp only [Ty.simple, Ty.render]
    rw [ih]
    simp [noSep, Tok.isSep]

/-! ### partition / split on separator-free texts -/

theorem partitionCloseAs_append (xs ys : List Tok) (h : noCloseAs xs = true) :
    partitionCloseAs (xs ++ .closeAs :: ys) = (xs, ys) := by
  induction xs with
  | nil => rfl
  | cons x xs ih =>
    simp only [noCloseAs, List.all_cons, Bool.and_eq_true, bne_iff_ne, ne_eq] at h
    have ih := ih (by simpa [noCloseAs] using h.2)
    cases x with
    | closeAs => exact absurd rfl h.1
    | atom s => simp [partitionCloseAs, ih]
    | opn s => simp [partitionCloseAs, ih]
    | cls s => simp [partitionCloseAs, ih]
    | comma => simp [partitionCloseAs, ih]

theorem partitionCloseAs_fst_noCloseAs : ∀ l : List Tok, noCloseAs (partitionCloseAs l).1 = true
  | [] => rfl
  | .closeAs :: r => rfl
  | .atom s :: r | .opn s :: r | .cls s :: r => by
    have ih := partitionCloseAs_fst_noCloseAs r
    simp only [partitionCloseAs, noCloseAs, List.all_cons] at ih ⊢
    simp [ih]
  | .comma :: r => by
    have ih := partitionCloseAs_fst_noCloseAs r
    simp only [partitionCloseAs, noCloseAs, List.all_cons] at ih ⊢
    simp [ih]

theorem splitComma_ne_nil : ∀ l : List Tok, splitComma l ≠ []
  | [] => by simp [splitComma]
  | .comma :: r => by simp [splitComma]
  | .atom s :: r | .opn s :: r | .cls s :: r => by
    simp only [splitComma]; split <;> simp
  | .closeAs :: r => by
    simp only [splitComma]; split <;> simp

theorem splitComma_noSep (xs : List Tok) (h : noSep xs = true) : splitComma xs = [xs] := by
  induction xs with
  | nil => rfl
  | cons x xs ih =>
    simp only [noSep, List.all_cons, Bool.and_eq_true, Bool.not_eq_true'] at h
    have ih := ih (by simpa [noSep] using h.2)
    cases x <;> simp [Tok.isSep] at h <;> simp [splitComma, ih]

theorem splitComma_append_comma (xs ys : List Tok) (h : noSep xs = true) :
    splitComma (xs ++ .comma :: ys) = xs :: splitComma ys := by
  induction xs with
  | nil => rfl
  | cons x xs ih =>
    simp only [noSep, List.all_cons, Bool.and_eq_true, Bool.not_eq_true'] at h
    have ih := ih (by simpa [noSep] using h.2)
    cases x <;> simp [Tok.isSep] at h <;> simp [splitComma, ih]

/-- every piece that `split(', ')` returns from a text without `') as '` is separator free -/
theorem splitComma_pieces_noSep : ∀ l : List Tok, noCloseAs l = true → ∀ p ∈ splitComma l, noSep p = true
  | [], _, p, hp => by simp [splitComma] at hp; subst hp; rfl
  | .comma :: r, h, p, hp => by
    simp only [splitComma, List.mem_cons] at hp
    rcases hp with rfl | hp
    · rfl
    · exact splitComma_pieces_noSep r (by simpa [noCloseAs] using h) p hp
  | .closeAs :: r, h, _, _ => by simp [noCloseAs] at h
  | .atom s :: r, h, p, hp | .opn s :: r, h, p, hp | .cls s :: r, h, p, hp => by
    have ih := splitComma_pieces_noSep r (by simpa [noCloseAs] using h)
    simp only [splitComma] at hp
    split at hp
    · rename_i q qs heq
      simp only [List.mem_cons] at hp
      rcases hp with rfl | hp
      · have := ih q (by rw [heq]; simp)
        simpa [noSep, Tok.isSep] using this
      · exact ih p (by rw [heq]; simp [hp])
    · rename_i heq; exact absurd heq (splitComma_ne_nil r)

/-! ### the arguments of a typed function test -/

theorem renderArgs_split : ∀ a : Tys, a ≠ .nil → a.allSimple = true →
    splitComma (a.renderArgs nm ln) = a.argTexts nm ln ∧ noCloseAs (a.renderArgs nm ln) = true
  | .nil, h, _ => absurd rfl h
  | .cons x .nil, _, h => by
    simp only [Tys.allSimple, Bool.and_eq_true] at h
    have hx := (simple_iff_noSep nm ln x).1 h.1
    simp only [Tys.renderArgs, Tys.argTexts]
    exact ⟨splitComma_noSep _ hx, noCloseAs_of_noSep _ hx⟩
  | .cons x (.cons y ys), _, h => by
    simp only [Tys.allSimple, Bool.and_eq_true] at h
    have hx := (simple_iff_noSep nm ln x).1 h.1
    have ih := renderArgs_split (.cons y ys) (by simp) (by simp [Tys.allSimple, h.2])
    simp only [Tys.renderArgs, Tys.argTexts]
    refine ⟨?_, ?_⟩
    · rw [splitComma_append_comma _ _ hx]
      have := ih.1
      simp only [Tys.renderArgs, Tys.argTexts] at this
      rw [this]
    · rw [noCloseAs_append]
      have h2 := ih.2
      simp only [Tys.renderArgs] at h2
      rw [noCloseAs_of_noSep _ hx, Bool.true_and]
      simp only [noCloseAs, List.all_cons] at h2 ⊢
      simp [h2]

/-- if every piece of `argTexts` is separator free, every argument is `simple` -/
theorem argTexts_noSep_simple : ∀ a : Tys, a ≠ .nil → (∀ p ∈ a.argTexts nm ln, noSep p = true) → a.allSimple = true
  | .nil, h, _ => absurd rfl h
  | .cons x .nil, _, hp => by
    have := hp (x.render nm ln) (by simp [Tys.argTexts])
    simp [Tys.allSimple, (simple_iff_noSep nm ln x).2 this]
  | .cons x (.cons y ys), _, hp => by
    have hx := hp (x.render nm ln) (by simp [Tys.argTexts])
    have ih := argTexts_noSep_simple (.cons y ys) (by simp) (fun p h => hp p (by
      simp only [Tys.argTexts, List.mem_cons] at h ⊢; exact Or.inr h))
    simp only [Tys.allSimple, Bool.and_eq_true] at ih ⊢
    exact ⟨(simple_iff_noSep nm ln x).2 hx, ih⟩

/-- **the string-level splitting agrees with the AST exactly on simple argument lists.**
`→`: when every argument is `simple`, `st[9:].partition(') as ')` / `.split(', ')` return the texts of the
arguments and the text of the return type.  `←`: whenever the argument pieces come out right, every argument
is `simple` — so for every typed function test with a typed function test or a typed map test among its
arguments (at any depth) the code compares other pieces than the AST says (the region `¬ Ty.flat`). -/
theorem pySplitOld_agrees_iff (a : Tys) (r : Ty) (ha : a ≠ .nil) :
    (pySplitOld ((Ty.func a r).render nm ln)).1 = a.argTexts nm ln ↔ a.allSimple = true := by
  constructor
  · intro h
    apply argTexts_noSep_simple nm ln a ha
    intro p hp
    rw [← h] at hp
    exact splitComma_pieces_noSep _ (partitionCloseAs_fst_noCloseAs _) p hp
  · intro h
    have hs := renderArgs_split nm ln a ha h
    simp only [pySplitOld, Ty.render, List.tail_cons]
    rw [partitionCloseAs_append _ _ hs.2]
    exact hs.1

end EPV.SeqType

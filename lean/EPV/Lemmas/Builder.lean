/-
Helper lemmas for C02: position segments, the lazy namespace / attribute formulas, and the
segment invariant of the recursive builder (every subtree occupies a half-open interval of
positions, listed increasingly by `iter`).
-/
import EPV.Model.Builder
namespace EPV.Builder

/-- the positions of a node list -/
def poss (l : List Rec) : List Nat := l.map (·.pos)

@[simp] theorem poss_nil : poss [] = [] := rfl
@[simp] theorem poss_cons (r : Rec) (l : List Rec) : poss (r :: l) = r.pos :: poss l := rfl
@[simp] theorem poss_append (a b : List Rec) : poss (a ++ b) = poss a ++ poss b := by simp [poss]

/-- `l` is strictly increasing and lies inside `[lo, hi)` -/
def Seg (lo hi : Nat) (l : List Nat) : Prop := l.Pairwise (· < ·) ∧ ∀ x ∈ l, lo ≤ x ∧ x < hi

theorem Seg.nil (lo hi : Nat) : Seg lo hi [] := ⟨List.Pairwise.nil, by simp⟩

theorem Seg.widen {a b a' b' : Nat} {l : List Nat} (h : Seg a b l) (ha : a' ≤ a) (hb : b ≤ b') :
    Seg a' b' l :=
  ⟨h.1, fun x hx => ⟨Nat.le_trans ha (h.2 x hx).1, Nat.lt_of_lt_of_le (h.2 x hx).2 hb⟩⟩

theorem Seg.append {a b c : Nat} {l₁ l₂ : List Nat} (h₁ : Seg a b l₁) (h₂ : Seg b c l₂)
    (hab : a ≤ b) (hbc : b ≤ c) : Seg a c (l₁ ++ l₂) := by
  refine ⟨List.pairwise_append.2 ⟨h₁.1, h₂.1, ?_⟩, ?_⟩
  · intro x hx y hy
    have := (h₁.2 x hx).2; have := (h₂.2 y hy).1; omega
  · intro x hx
    rcases List.mem_append.1 hx with hx | hx
    · have := h₁.2 x hx; omega
    · have := h₂.2 x hx; omega

theorem Seg.cons {lo hi x : Nat} {l : List Nat} (hx : lo ≤ x) (h : Seg (x + 1) hi l) (hhi : x < hi) :
    Seg lo hi (x :: l) := by
  refine ⟨List.pairwise_cons.2 ⟨?_, h.1⟩, ?_⟩
  · intro y hy; have := (h.2 y hy).1; omega
  · intro y hy
    rcases List.mem_cons.1 hy with rfl | hy
    · exact ⟨hx, hhi⟩
    · have := h.2 y hy; omega

theorem Seg.range' (s n : Nat) : Seg s (s + n) (List.range' s n) := by
  refine ⟨List.pairwise_lt_range', ?_⟩
  intro x hx
  have := List.mem_range'_1.1 hx
  omega

theorem Seg.singleton (p : Nat) : Seg p (p + 1) [p] := by
  have := Seg.range' p 1
  simpa using this

/-! ### `enumFrom` hands out consecutive positions -/

theorem poss_enumFrom {α : Type} (f : Nat → α → Rec) (hf : ∀ q a, (f q a).pos = q) (p : Nat) (l : List α) :
    poss (enumFrom f p l) = List.range' p l.length := by
  induction l generalizing p with
  | nil => rfl
  | cons a l ih => simp [enumFrom, hf, ih, List.range'_succ]

@[simp] theorem length_enumFrom {α β : Type} (f : Nat → α → β) (p : Nat) (l : List α) :
    (enumFrom f p l).length = l.length := by
  induction l generalizing p with
  | nil => rfl
  | cons a l ih => simp [enumFrom, ih]

/-- the entries that get their own namespace node besides the fixed `xml` one -/
def nonXml (m : NsMap) : NsMap := m.filter fun kv => kv.1 != some "xml"

theorem nonXml_length_le (m : NsMap) : (nonXml m).length ≤ m.length := List.length_filter_le _ _

theorem nonXml_length_lt (m : NsMap) (h : hasXml m = true) : (nonXml m).length < m.length := by
  induction m with
  | nil => simp [hasXml] at h
  | cons kv m ih =>
    simp only [hasXml, List.any_cons, Bool.or_eq_true] at h
    by_cases hk : kv.1 = some "xml"
    · have : (nonXml (kv :: m)) = nonXml m := by simp [nonXml, hk]
      rw [this]; have := nonXml_length_le m; simp; omega
    · have h' : hasXml m = true := by
        rcases h with h | h
        · exact absurd (by simpa using h) hk
        · exact h
      have : (nonXml (kv :: m)) = kv :: nonXml m := by simp [nonXml, hk]
      rw [this]; have := ih h'; simp; omega

theorem poss_namespaceNodes (p : Nat) (m : NsMap) :
    poss (namespaceNodes p m) = List.range' (p + 1) (1 + (nonXml m).length) := by
  unfold namespaceNodes
  rw [poss_cons, poss_enumFrom _ (by intros; rfl)]
  show _ = List.range' (p + 1) (1 + (nonXml m).length)
  rw [Nat.add_comm 1, List.range'_succ]
  rfl

theorem poss_attributeNodes (p : Nat) (m : NsMap) (a : Attrib) :
    poss (attributeNodes p m a) = List.range' (p + m.length + (if hasXml m then 0 else 1) + 1) a.length := by
  unfold attributeNodes
  rw [poss_enumFrom _ (by intros; rfl)]

theorem nonXml_bound (m : NsMap) :
    (nonXml m).length + 1 ≤ m.length + (if hasXml m then 0 else 1) := by
  by_cases hx : hasXml m = true
  · have := nonXml_length_lt m hx; simp [hx]; omega
  · have := nonXml_length_le m; simp [hx]; omega

/-- the lazy nodes of an element at `p` lie, increasing, strictly between `p` and the next position
handed out by the builder (`p + nsOffset m + len(attrib)`) — for every map, even an ill-formed one -/
theorem lazy_seg (p : Nat) (m : NsMap) (a : Attrib) :
    Seg (p + 1) (p + nsOffset m + a.length) (poss (namespaceNodes p m ++ attributeNodes p m a)) := by
  rw [poss_append, poss_namespaceNodes, poss_attributeNodes]
  have hb := nonXml_bound m
  have h1 := Seg.range' (p + 1) (1 + (nonXml m).length)
  have h2 := Seg.range' (p + m.length + (if hasXml m then 0 else 1) + 1) a.length
  unfold nsOffset
  generalize (if hasXml m then 0 else 1) = x at *
  exact Seg.append (h1.widen (Nat.le_refl _) (by omega)) (h2.widen (Nat.le_refl _) (by omega))
    (by omega) (by omega)

theorem textNode_seg (p : Nat) (o : Option String) (par : Option Nat) :
    p ≤ (textNode p o).2 ∧ (textNode p o).2 ≤ p + 1 ∧
    Seg p (textNode p o).2 (poss (iterKids par (textNode p o).1)) := by
  cases o with
  | none => simp [textNode, iterKids, Seg.nil]
  | some s => simp [textNode, iterKids, iterNode, Seg.singleton]

theorem iterKids_append (par : Option Nat) (a b : List PNode) :
    iterKids par (a ++ b) = iterKids par a ++ iterKids par b := by
  induction a with
  | nil => simp [iterKids]
  | cons n a ih => simp [iterKids, ih]

theorem iterKids_cons (par : Option Nat) (n : PNode) (l : List PNode) :
    iterKids par (n :: l) = iterNode par n ++ iterKids par l := by simp [iterKids]

/-! ### the segment invariant of the builder -/

mutual
/-- a subtree built at `p` occupies exactly an interval `[p, next)` of strictly increasing positions -/
theorem buildOne_seg (c : Cfg) : ∀ (t : XTree) (p : Nat) (par : Option Nat),
    p < (buildOne c p t).2 ∧ Seg p (buildOne c p t).2 (poss (iterNode par (buildOne c p t).1))
  | .elem name nsmap attrib text kids tail, p, par => by
    have hl := lazy_seg p (c.nsmapOf nsmap) attrib
    have ht := textNode_seg (p + nsOffset (c.nsmapOf nsmap) + attrib.length) text (some p)
    have hk := buildKids_seg c kids (textNode (p + nsOffset (c.nsmapOf nsmap) + attrib.length) text).2 (some p)
    have hoff : 1 ≤ nsOffset (c.nsmapOf nsmap) := by unfold nsOffset; omega
    simp only [buildOne, iterNode, iterKids_append, poss_cons, poss_append]
    rw [poss_append] at hl
    refine ⟨by omega, Seg.cons (Nat.le_refl _) ?_ (by omega)⟩
    exact Seg.append hl (Seg.append ht.2.2 hk.2 ht.1 hk.1) (by omega) (by omega)
  | .comment s tl, p, par => by simp [buildOne, iterNode, Seg.singleton]
  | .pi t s tl, p, par => by simp [buildOne, iterNode, Seg.singleton]
theorem buildKids_seg (c : Cfg) : ∀ (ts : List XTree) (p : Nat) (par : Option Nat),
    p ≤ (buildKids c p ts).2 ∧ Seg p (buildKids c p ts).2 (poss (iterKids par (buildKids c p ts).1))
  | [], p, par => by simp [buildKids, iterKids, Seg.nil]
  | t :: ts, p, par => by
    have h1 := buildOne_seg c t p par
    have h2 := textNode_seg (buildOne c p t).2 t.tail par
    have h3 := buildKids_seg c ts (textNode (buildOne c p t).2 t.tail).2 par
    simp only [buildKids, iterKids_cons, iterKids_append, poss_append, List.append_assoc]
    have := h1.1; have := h2.1; have := h3.1
    refine ⟨by omega, ?_⟩
    have h23 := Seg.append h2.2.2 h3.2 h2.1 h3.1
    have h12 := h1.2
    exact Seg.append h12 h23 (by omega) (by omega)
end

theorem buildSiblings_seg : ∀ (ts : List XTree) (p : Nat) (par : Option Nat),
    p ≤ (buildSiblings p ts).2 ∧ Seg p (buildSiblings p ts).2 (poss (iterKids par (buildSiblings p ts).1))
  | [], p, par => by simp [buildSiblings, iterKids, Seg.nil]
  | .comment s tl :: ts, p, par => by
    have h := buildSiblings_seg ts (p + 1) par
    simp only [buildSiblings, iterKids_cons, iterNode, poss_cons, List.singleton_append]
    exact ⟨by omega, Seg.cons (Nat.le_refl _) h.2 (by omega)⟩
  | .pi t s tl :: ts, p, par => by
    have h := buildSiblings_seg ts (p + 1) par
    simp only [buildSiblings, iterKids_cons, iterNode, poss_cons, List.singleton_append]
    exact ⟨by omega, Seg.cons (Nat.le_refl _) h.2 (by omega)⟩
  | .elem .. :: ts, p, par => by
    have h := buildSiblings_seg ts p par
    simpa only [buildSiblings] using h

/-! ### whole trees -/

theorem buildOne_pos (c : Cfg) (p : Nat) (t : XTree) : (buildOne c p t).1.pos = p := by
  cases t <;> simp [buildOne, PNode.pos]

theorem iter_doc_seg (d hi : Nat) (kids : List PNode)
    (h : Seg (d + 1) hi (poss (iterKids (some d) kids))) (hd : d < hi) :
    Seg d hi (poss (iter (.doc d kids))) := by
  simp only [iter, iterNode, poss_cons]
  exact Seg.cons (Nat.le_refl _) h hd

theorem iter_single_doc_seg (c : Cfg) (d : Nat) (e : XTree) :
    Seg d (buildOne c (d + 1) e).2 (poss (iter (.doc d [(buildOne c (d + 1) e).1]))) := by
  have h := buildOne_seg c e (d + 1) (some d)
  refine iter_doc_seg d _ _ ?_ (by omega)
  simpa [iterKids] using h.2

theorem buildLxmlDoc_seg (i : Input) : ∃ hi, Seg 1 hi (poss (iter (buildLxmlDoc i))) := by
  unfold buildLxmlDoc
  cases i.top with
  | none => exact ⟨2, by simp [iter, iterNode, iterKids, Seg.singleton]⟩
  | some e =>
    have h1 := buildSiblings_seg i.prolog 2 (some 1)
    have h2 := buildOne_seg i.cfg e (buildSiblings 2 i.prolog).2 (some 1)
    have h3 := buildSiblings_seg i.epilog (buildOne i.cfg (buildSiblings 2 i.prolog).2 e).2 (some 1)
    refine ⟨(buildSiblings (buildOne i.cfg (buildSiblings 2 i.prolog).2 e).2 i.epilog).2, ?_⟩
    refine iter_doc_seg 1 _ _ ?_ (by omega)
    simp only [iterKids_append, iterKids_cons, poss_append]
    have h23 := Seg.append h2.2 h3.2 (by omega) h3.1
    exact Seg.append h1.2 h23 h1.1 (by omega)

/-- every successfully built tree lists its positions strictly increasingly, starting at the root's -/
theorem build_seg (i : Input) (root : PNode) (h : build i = .ok root) :
    ∃ hi, Seg root.pos hi (poss (iter root)) := by
  unfold build at h
  split at h
  · -- lxml
    unfold buildLxml at h
    have doc : ∀ r, (Except.ok (buildLxmlDoc i) : Except Err PNode) = Except.ok r → ∃ hi, Seg r.pos hi (poss (iter r)) := by
      intro r hr
      injection hr with hr
      subst hr
      have ⟨hi, hs⟩ := buildLxmlDoc_seg i
      refine ⟨hi, ?_⟩
      have : (buildLxmlDoc i).pos = 1 := by unfold buildLxmlDoc; cases i.top <;> rfl
      rw [this]; exact hs
    have one : ∀ e r, (Except.ok (buildOne i.cfg 1 e).1 : Except Err PNode) = Except.ok r → ∃ hi, Seg r.pos hi (poss (iter r)) := by
      intro e r hr
      injection hr with hr
      subst hr
      rw [buildOne_pos]
      exact ⟨_, (buildOne_seg i.cfg e 1 none).2⟩
    repeat' split at h
    all_goals first
      | contradiction
      | exact doc _ h
      | exact one _ _ h
  · -- xml.etree
    unfold buildET at h
    split at h
    · injection h with h; subst h
      exact ⟨2, by simp [iter, iterNode, iterKids, PNode.pos, Seg.singleton]⟩
    · split at h
      · contradiction
      · split at h
        · injection h with h; subst h
          rw [buildOne_pos]; exact ⟨_, (buildOne_seg i.cfg _ 1 none).2⟩
        · injection h with h; subst h
          exact ⟨_, iter_single_doc_seg i.cfg 1 _⟩
    · split at h
      · contradiction
      · split at h
        · injection h with h; subst h
          rw [buildOne_pos]
          exact ⟨_, iter_single_doc_seg i.cfg 0 _⟩
        · injection h with h; subst h
          rw [buildOne_pos]; exact ⟨_, (buildOne_seg i.cfg _ 1 none).2⟩
    · contradiction

end EPV.Builder

/-
Lemmas for histories of walks on one lazy tree (Model/LazyHist.lean): `Good` is kept by every walk, and in a
`Good` state the path of every node that exists is the eager path.
-/
import EPV.Model.LazyHist
import EPV.Lemmas.LazyPath
namespace EPV.NodePath

theorem goodL_iff (l : List LNode) : GoodL l ↔ ∀ c ∈ l, Good c := by
  induction l with
  | nil => simp [GoodL]
  | cons c cs ih => simp [GoodL, ih]

theorem fresh_good (c : LNode) (h : Fresh c) : Good c := by
  cases c with
  | lazy s ch => simp only [Fresh] at h; subst h; simp [Good]
  | text => simp [Good]
  | comment => simp [Good]
  | pi t => simp [Good]

theorem fin_reach (c : LNode) (is : List Nat) : fin (reach c is) = fin c := by
  cases is with
  | nil => rfl
  | cons i is => cases c <;> simp [reach, fin]

theorem map_set_same {α β : Type} (f : α → β) (l : List α) (i : Nat) (c x : α) (hc : l[i]? = some c)
    (hx : f x = f c) : (l.set i x).map f = l.map f := by
  apply List.ext_getElem?
  intro j
  simp only [List.getElem?_map, List.getElem?_set]
  by_cases hij : i = j
  · subst hij
    have hlt : i < l.length := by
      rcases Nat.lt_or_ge i l.length with h | h
      · exact h
      · rw [List.getElem?_eq_none h] at hc; cases hc
    have hci : l[i] = c := by
      rw [List.getElem?_eq_getElem hlt] at hc; exact Option.some.inj hc
    simp [hlt, hx, hci]
  · simp [hij]

theorem good_lazy_of (src : ETree) (ch : List LNode) (h1 : ch.map fin = (lazyChildrenOf src).map fin)
    (h2 : ∀ c ∈ ch, Good c) : Good (.lazy src ch) := by
  simp only [Good]; exact Or.inr ⟨h1, (goodL_iff ch).mpr h2⟩

/-- a walk keeps the invariant -/
theorem good_reach (is : List Nat) : ∀ t : LNode, Good t → Good (reach t is) := by
  induction is with
  | nil => intro t h; exact h
  | cons i is ih =>
    intro t h
    cases t with
    | text => exact h
    | comment => exact h
    | pi t => exact h
    | lazy src ch =>
      -- the children list after `__iter__`: complete and good
      have hb : ((LNode.lazy src ch).built).map fin = (lazyChildrenOf src).map fin ∧
          ∀ c ∈ (LNode.lazy src ch).built, Good c := by
        cases ch with
        | nil =>
          exact ⟨rfl, fun c hc => fresh_good c (lazyChildrenOf_fresh src c hc)⟩
        | cons c0 cs =>
          simp only [Good] at h
          rcases h with h | ⟨h1, h2⟩
          · cases h
          · exact ⟨h1, (goodL_iff _).mp h2⟩
      simp only [reach]
      cases hci : ((LNode.lazy src ch).built)[i]? with
      | none => exact good_lazy_of src _ hb.1 hb.2
      | some c =>
        have hmem : c ∈ (LNode.lazy src ch).built := List.mem_of_getElem? hci
        apply good_lazy_of
        · rw [map_set_same fin _ i c _ hci (fin_reach c is)]; exact hb.1
        · intro x hx
          rcases List.mem_or_eq_of_mem_set hx with hx | hx
          · exact hb.2 x hx
          · subst hx; exact ih c (hb.2 c hmem)

theorem fin_reachMany (ws : List (List Nat)) : ∀ t, fin (reachMany t ws) = fin t := by
  induction ws with
  | nil => intro t; rfl
  | cons w ws ih => intro t; simp only [reachMany, List.foldl_cons] at ih ⊢; rw [ih, fin_reach]

theorem good_reachMany (ws : List (List Nat)) : ∀ t, Good t → Good (reachMany t ws) := by
  induction ws with
  | nil => intro t h; exact h
  | cons w ws ih =>
    intro t h; simp only [reachMany, List.foldl_cons] at ih ⊢; exact ih _ (good_reach w t h)

theorem heads_view_fin (ch : List LNode) : (ch.map view).map hd = (ch.map fin).map hd := by
  simp only [List.map_map]
  apply List.map_congr_left
  intro c _
  exact hd_view_fin c

/-- in a `Good` state: what exists in the tree as it stands exists in the completed tree, with the same
head and the same path -/
theorem good_path (is : List Nat) : ∀ (t : LNode) (n : Node), Good t → descend (view t) is = some n →
    pathTo (view t) is = pathTo (fin t) is ∧ ∃ m, descend (fin t) is = some m ∧ hd n = hd m := by
  induction is with
  | nil =>
    intro t n _ hd'
    simp only [descend, Option.some.injEq] at hd'
    subst hd'
    exact ⟨rfl, fin t, rfl, hd_view_fin t⟩
  | cons i is ih =>
    intro t n hg hdesc
    cases t with
    | text => simp [descend, view, Node.kids] at hdesc
    | comment => simp [descend, view, Node.kids] at hdesc
    | pi t => simp [descend, view, Node.kids] at hdesc
    | lazy src ch =>
      cases src with
      | comment tl => simp [descend, view, Node.kids] at hdesc
      | pi tg tl => simp [descend, view, Node.kids] at hdesc
      | elem nm nss attrs text tail kids =>
        have hvk : (view (.lazy (.elem nm nss attrs text tail kids) ch)).kids = ch.map view := by
          simp [view, Node.kids, viewKids_eq_map]
        simp only [descend, hvk, List.getElem?_map] at hdesc
        cases hci : ch[i]? with
        | none => simp [hci] at hdesc
        | some c =>
          simp only [hci, Option.map_some] at hdesc
          have hne : ch ≠ [] := by intro h; subst h; simp at hci
          simp only [Good] at hg
          rcases hg with hg | ⟨h1, h2⟩
          · exact absurd hg hne
          · have hgc : Good c := (goodL_iff ch).mp h2 c (List.mem_of_getElem? hci)
            obtain ⟨hp, m, hm, hhm⟩ := ih c n hgc hdesc
            have hek : (fin (.lazy (.elem nm nss attrs text tail kids) ch)).kids = ch.map fin := by
              simp only [fin]; rw [eager_kids, h1]
            have hv1 : (view (.lazy (.elem nm nss attrs text tail kids) ch)).kids[i]? = some (view c) := by
              rw [hvk]; simp [hci]
            have hv2 : (fin (.lazy (.elem nm nss attrs text tail kids) ch)).kids[i]? = some (fin c) := by
              rw [hek]; simp [hci]
            have hpos := gcp_congr (view (.lazy (.elem nm nss attrs text tail kids) ch)).kids
              (fin (.lazy (.elem nm nss attrs text tail kids) ch)).kids i (view c) (fin c)
              (by rw [hvk, hek]; exact heads_view_fin ch) (hd_view_fin c)
            have hstep : ∀ p, childStep (view c) p = childStep (fin c) p := by
              intro p; rw [childStep_hd, hd_view_fin, ← childStep_hd]
            refine ⟨?_, m, ?_, hhm⟩
            · simp only [pathTo] at hp ⊢
              simp only [pathToWith, hv1, hv2, hp, hpos, hstep]
            · simp only [descend, hv2, hm]

/-- all selectors -/
theorem good_pathOf (t : LNode) (r : Ref) (hg : Good t) (hv : Valid (view t) r) :
    pathOf (view t) r = pathOf (fin t) r := by
  unfold Valid at hv
  cases h1 : descend (view t) r.path with
  | none => rw [h1] at hv; exact hv.elim
  | some n =>
    obtain ⟨hp, m, hm, hhm⟩ := good_path r.path t n hg h1
    have ha : n.attrs = m.attrs := by rw [← hd_attrs n, hhm, hd_attrs]
    have hn : n.nss = m.nss := by rw [← hd_nss n, hhm, hd_nss]
    simp only [pathTo] at hp
    simp only [pathOf, pathOfWith, hp, h1, hm]
    cases pathToWith sameKind (fin t) r.path with
    | none => rfl
    | some st => cases r.sel <;> simp [ha, hn]

end EPV.NodePath

/-
C17: freshness of the carriage-return mark on the WHOLE serialized element (all emitted strings, attribute values included).
-/
import EPV.Lemmas.JsonXmlText
import EPV.Model.XmlCrMark
namespace EPV.Json

theorem replaceAll_noop (k : Nat) (r t : Str) (h : ∀ c ∈ t, c ≠ k) : replaceAll [k] r t = t := by
  rw [replaceAll_single]
  induction t with
  | nil => rfl
  | cons a t ih =>
    have ha : a ≠ k := h a (by simp)
    simp only [List.flatMap_cons, ha, if_false]
    rw [ih (fun c hc => h c (by simp [hc]))]
    rfl

theorem no_mark_etAttr (k : Nat) (s : Str) (hk : 0xE000 ≤ k) (hs : ∀ x ∈ s, x ≠ k) : ∀ c ∈ etEscapeAttr s, c ≠ k := by
  rw [etEscapeAttr_flatMap]
  intro c hc
  obtain ⟨x, hx, hcx⟩ := List.mem_flatMap.mp hc
  have hxk := hs x hx
  unfold etAttrChar at hcx
  repeat (split at hcx; · simp at hcx; omega)
  simp at hcx; omega

/-- one piece: replacing the mark in what ElementTree wrote for the marked copy gives the wanted text, PROVIDED the mark
does not occur in the piece's source string -/
theorem piece_exact (k : Nat) (hk : 0xE000 ≤ k) (p : Piece) (hp : ∀ x ∈ p.src, x ≠ k) :
    replaceAll [k] [38, 35, 49, 51, 59] (p.emitMarked k) = p.emitWanted := by
  cases p with
  | markup s => exact replaceAll_noop k _ s hp
  | raw s => exact replaceAll_noop k _ s hp
  | nsuri s => exact replaceAll_noop k _ _ (no_mark_etAttr k s hk hp)
  | attr s => exact replaceAll_noop k _ _ (no_mark_etAttr k s hk hp)
  | chars s =>
    have := repoEscapeText_eq k s hk hp
    simp only [Piece.emitMarked, Piece.emitWanted, lxEscapeText_flatMap]
    simpa [repoEscapeText] using this

theorem replaceAll_flatMap_pieces (k : Nat) (r : Str) (f : Piece → Str) (ps : List Piece) :
    replaceAll [k] r (ps.flatMap f) = ps.flatMap (fun p => replaceAll [k] r (f p)) := by
  simp only [replaceAll_single, List.flatMap_assoc]

theorem chooseMark_spec (used : Str) (k : Nat) (h : chooseMark used = some k) :
    0xE000 ≤ k ∧ k < 0xF8FF ∧ ∀ x ∈ used, x ≠ k := by
  unfold chooseMark at h
  have hm := List.mem_of_find?_eq_some h
  have hp := List.find?_some h
  obtain ⟨i, hi, rfl⟩ := List.mem_map.mp hm
  have hi' := List.mem_range.mp hi
  refine ⟨by omega, by omega, fun x hx hxk => ?_⟩
  subst hxk
  simp at hp
  exact hp hx

theorem flatMap_congr_pieces {f g : Piece → Str} (ps : List Piece) (h : ∀ p ∈ ps, f p = g p) : ps.flatMap f = ps.flatMap g := by
  induction ps with
  | nil => rfl
  | cons a t ih => simp [List.flatMap_cons, h a (by simp), ih (fun p hp => h p (by simp [hp]))]

end EPV.Json

/-
C07 — one pair of a general comparison, left operand in hexBinary, base64Binary: part of the 17 x 17 case analysis of
EPV/Lemmas/CompareGeneral.lean (split so that every file compiles in well under a minute).
-/
import EPV.Lemmas.CompareGeneralLemmas
set_option linter.unusedSimpArgs false
set_option linter.unusedVariables false
namespace EPV.Cmp
open EPV.CmpSpec EPV.CmpFind

def grpG4 : Atom → Bool
  | .hex _ => true | .b64 _ => true | _ => false

set_option maxHeartbeats 4000000 in
theorem pairGeneral_conforms_G4 (m : Mode) (op : Op) (a b : Atom) (hg : grpG4 a = true)
    (h1 : trigTol op a b = false) (h2 : trigPromotion a b = false)
    (h5 : pairSpec m op a b ≠ .error .unsupported) (h6 : pairGeneral m op a b ≠ .error .unsupported)
    (h8 : dtConsistent a b = true) :
    pairGeneral m op a b = pairSpec m op a b := by
  cases a <;> simp [grpG4] at hg <;> cases b <;>
      first
      | (gp_simp; done)
      | (simp [dtConsistent, Atom.isDT, Atom.dt] at h8; gp_simp; simp [dtCompare_eq_six _ _ _ h8]; done)
      | skip
  case hex.ua x s => exact pg_hex_ua m op s x h5
  case b64.ua x s => exact pg_b64_ua m op s x h5
  case hex.hex x y =>
    have : pairGeneral m op (.hex x) (.hex y) = liftPy (pyBinop m op (.hex x) (.hex y) (6 + 2)) := by
      simp [pairGeneral, pairGeneralWith, iterCheck, iterMatch, categoryOK, cmpCategory, kindName, Atom.isDur, pyOp]
    rw [this, (bin_protocol m op x y 6).1]; rfl
  case b64.b64 x y =>
    have : pairGeneral m op (.b64 x) (.b64 y) = liftPy (pyBinop m op (.b64 x) (.b64 y) (6 + 2)) := by
      simp [pairGeneral, pairGeneralWith, iterCheck, iterMatch, categoryOK, cmpCategory, kindName, Atom.isDur, pyOp]
    rw [this, (bin_protocol m op x y 6).2]; rfl

end EPV.Cmp

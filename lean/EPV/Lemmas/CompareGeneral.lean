/-
C07 — one pair of a general comparison (no compatibility mode): the code's isinstance dispatch +
Python operator against XPath 3.1 §3.7.2 (untypedAtomic conversion) + §3.7.1, pair by pair.
The 17 x 17 case analysis is split by the type of the left operand over CompareGeneral{GN,GU,G1,...,G6}.lean.
-/
import EPV.Lemmas.CompareGeneralGN
import EPV.Lemmas.CompareGeneralGU
import EPV.Lemmas.CompareGeneralG1
import EPV.Lemmas.CompareGeneralG2
import EPV.Lemmas.CompareGeneralG3
import EPV.Lemmas.CompareGeneralG4
import EPV.Lemmas.CompareGeneralG5
import EPV.Lemmas.CompareGeneralG6
set_option linter.unusedSimpArgs false
namespace EPV.Cmp
open EPV.CmpSpec EPV.CmpFind

theorem pairGeneral_conforms (m : Mode) (op : Op) (a b : Atom)
    (h1 : trigTol op a b = false) (h2 : trigPromotion a b = false)
    (h5 : pairSpec m op a b ≠ .error .unsupported) (h6 : pairGeneral m op a b ≠ .error .unsupported)
    (h8 : dtConsistent a b = true) :
    pairGeneral m op a b = pairSpec m op a b := by
  cases hi : numRank a with
  | some i => exact pairGeneral_conforms_GN m op a b i hi h1 h2 h5 h6 h8
  | none =>
    cases a <;> simp [numRank] at hi
    case str => exact pairGeneral_conforms_G1 m op _ b rfl h1 h2 h5 h6 h8
    case bool => exact pairGeneral_conforms_G1 m op _ b rfl h1 h2 h5 h6 h8
    case uri => exact pairGeneral_conforms_G1 m op _ b rfl h1 h2 h5 h6 h8
    case qn => exact pairGeneral_conforms_G1 m op _ b rfl h1 h2 h5 h6 h8
    case ua => exact pairGeneral_conforms_GU m op _ b rfl h1 h2 h5 h6 h8
    case date => exact pairGeneral_conforms_G2 m op _ b rfl h1 h2 h5 h6 h8
    case dtm => exact pairGeneral_conforms_G2 m op _ b rfl h1 h2 h5 h6 h8
    case time => exact pairGeneral_conforms_G2 m op _ b rfl h1 h2 h5 h6 h8
    case dur => exact pairGeneral_conforms_G3 m op _ b rfl h1 h2 h5 h6 h8
    case ymd => exact pairGeneral_conforms_G5 m op _ b rfl h1 h2 h5 h6 h8
    case dtd => exact pairGeneral_conforms_G6 m op _ b rfl h1 h2 h5 h6 h8
    case hex => exact pairGeneral_conforms_G4 m op _ b rfl h1 h2 h5 h6 h8
    case b64 => exact pairGeneral_conforms_G4 m op _ b rfl h1 h2 h5 h6 h8

/-- all pair-level finding triggers of a general comparison are off for the pair, and the pair lies
in the lexical fragment on which model and specification are defined -/
def PairClean (m : Mode) (op : Op) (a b : Atom) : Prop :=
  trigTol op a b = false ∧ trigPromotion a b = false ∧
  pairSpec m op a b ≠ .error .unsupported ∧ pairGeneral m op a b ≠ .error .unsupported ∧
  atomTzOK a = true ∧ atomTzOK b = true

theorem pairGeneral_conforms_clean (m : Mode) (op : Op) (a b : Atom) (h : PairClean m op a b) :
    pairGeneral m op a b = pairSpec m op a b :=
  pairGeneral_conforms m op a b h.1 h.2.1 h.2.2.1 h.2.2.2.1
    (dtConsistent_of_tzOK a b h.2.2.2.2.1 h.2.2.2.2.2)

end EPV.Cmp

/-
C11 — lemmas about the specification itself (EPV/Spec/Timeline.lean): the executable closed forms
used by the driver equal the definitional sums, the day number is strictly monotone, and `civil`
inverts it.  No model definitions here.
-/
import EPV.Spec.Timeline
namespace EPV.Timeline

theorem yearLen_eq (y : Int) : yearLen y =
    365 + (if y % 4 = 0 then 1 else 0) - (if y % 100 = 0 then 1 else 0) + (if y % 400 = 0 then 1 else 0) := by
  unfold yearLen isLeap
  by_cases h4 : y % 4 = 0 <;> by_cases h100 : y % 100 = 0 <;> by_cases h400 : y % 400 = 0 <;>
    simp [h4, h100, h400] <;> omega

/-- consecutive closed-form year starts differ by the length of the year — every `Int` year -/
theorem daysBeforeYearC_succ (a : Int) : daysBeforeYearC (a + 1) = daysBeforeYearC a + yearLen a := by
  rw [yearLen_eq]
  unfold daysBeforeYearC
  split <;> split <;> split <;> omega

theorem sumYearsUp_closed (n : Nat) : sumYearsUp n = daysBeforeYearC ((n : Int) + 1) := by
  induction n with
  | zero => simp [sumYearsUp, daysBeforeYearC]
  | succ k ih =>
    rw [sumYearsUp, ih]
    have := daysBeforeYearC_succ ((k : Int) + 1)
    push_cast
    omega

theorem sumYearsDown_closed (n : Nat) : sumYearsDown n = -daysBeforeYearC (1 - (n : Int)) := by
  induction n with
  | zero => simp [sumYearsDown, daysBeforeYearC]
  | succ k ih =>
    rw [sumYearsDown, ih]
    have := daysBeforeYearC_succ (-(k : Int))
    have e : (1 : Int) - ((k + 1 : Nat) : Int) = -(k : Int) := by push_cast; omega
    have e2 : -(k : Int) + 1 = 1 - (k : Int) := by omega
    rw [e, ← e2]
    omega

/-- the definitional sum of year lengths equals the closed form, for every `Int` year -/
theorem daysBeforeYear_eq_C (a : Int) : daysBeforeYear a = daysBeforeYearC a := by
  unfold daysBeforeYear
  split
  · rename_i h
    rw [sumYearsUp_closed]
    congr 1
    omega
  · rename_i h
    rw [sumYearsDown_closed]
    have : (1 : Int) - ((1 - a).toNat : Int) = a := by omega
    rw [this]; omega

theorem yearLen_pos (a : Int) : 365 ≤ yearLen a ∧ yearLen a ≤ 366 := by
  unfold yearLen; split <;> omega

end EPV.Timeline

/-
C11 — lemmas about the specification itself (EPV/Spec/Timeline.lean): the executable closed forms
used by the driver equal the definitional sums, the day number is strictly monotone, and `civil`
inverts it.  No model definitions here.
-/
import EPV.Spec.Timeline
namespace EPV.Timeline

theorem yearLen_eq (y : Int) : yearLen y =
    365 + (if y % 4 = 0 then 1 else 0) - (if y % 100 = 0 then 1 else 0) + (if y % 400 = 0 then 1 else 0) := by
  unfold yearLen isLeap
  by_cases h4 : y % 4 = 0 <;> by_cases h100 : y % 100 = 0 <;> by_cases h400 : y % 400 = 0 <;>
    simp [h4, h100, h400] <;> omega

/-- consecutive closed-form year starts differ by the length of the year — every `Int` year -/
theorem daysBeforeYearC_succ (a : Int) : daysBeforeYearC (a + 1) = daysBeforeYearC a + yearLen a := by
  rw [yearLen_eq]
  unfold daysBeforeYearC
  split <;> split <;> split <;> omega

theorem sumYearsUp_closed (n : Nat) : sumYearsUp n = daysBeforeYearC ((n : Int) + 1) := by
  induction n with
  | zero => simp [sumYearsUp, daysBeforeYearC]
  | succ k ih =>
    rw [sumYearsUp, ih]
    have := daysBeforeYearC_succ ((k : Int) + 1)
    push_cast
    omega

theorem sumYearsDown_closed (n : Nat) : sumYearsDown n = -daysBeforeYearC (1 - (n : Int)) := by
  induction n with
  | zero => simp [sumYearsDown, daysBeforeYearC]
  | succ k ih =>
    rw [sumYearsDown, ih]
    have := daysBeforeYearC_succ (-(k : Int))
    have e : (1 : Int) - ((k + 1 : Nat) : Int) = -(k : Int) := by push_cast; omega
    have e2 : -(k : Int) + 1 = 1 - (k : Int) := by omega
    rw [e, ← e2]
    omega

/-- the definitional sum of year lengths equals the closed form, for every `Int` year -/
theorem daysBeforeYear_eq_C (a : Int) : daysBeforeYear a = daysBeforeYearC a := by
  unfold daysBeforeYear
  split
  · rename_i h
    rw [sumYearsUp_closed]
    congr 1
    omega
  · rename_i h
    rw [sumYearsDown_closed]
    have : (1 : Int) - ((1 - a).toNat : Int) = a := by omega
    rw [this]; omega

theorem yearLen_pos (a : Int) : 365 ≤ yearLen a ∧ yearLen a ≤ 366 := by
  unfold yearLen; split <;> omega

theorem daysBeforeMonth_eq_C (a m : Int) (h1 : 1 ≤ m) (h12 : m ≤ 12) :
    daysBeforeMonth a m = daysBeforeMonthC a m := by
  have hm : m = 1 ∨ m = 2 ∨ m = 3 ∨ m = 4 ∨ m = 5 ∨ m = 6 ∨ m = 7 ∨ m = 8 ∨ m = 9 ∨ m = 10 ∨ m = 11 ∨ m = 12 := by omega
  rcases hm with rfl | rfl | rfl | rfl | rfl | rfl | rfl | rfl | rfl | rfl | rfl | rfl <;>
    simp [daysBeforeMonth, sumMonths, monthLen, daysBeforeMonthC] <;> split <;> omega

theorem monthLen_pos (a m : Int) : 28 ≤ monthLen a m ∧ monthLen a m ≤ 31 := by
  unfold monthLen; split <;> (try split) <;> omega

/-- end of December: the months of a year add up to its length -/
theorem daysBeforeMonthC_13 (a : Int) : daysBeforeMonthC a 12 + monthLen a 12 = yearLen a := by
  simp [daysBeforeMonthC, monthLen, yearLen]; split <;> omega

theorem daysBeforeMonthC_succ (a m : Int) (h1 : 1 ≤ m) (h12 : m < 12) :
    daysBeforeMonthC a (m + 1) = daysBeforeMonthC a m + monthLen a m := by
  have hm : m = 1 ∨ m = 2 ∨ m = 3 ∨ m = 4 ∨ m = 5 ∨ m = 6 ∨ m = 7 ∨ m = 8 ∨ m = 9 ∨ m = 10 ∨ m = 11 := by omega
  rcases hm with rfl | rfl | rfl | rfl | rfl | rfl | rfl | rfl | rfl | rfl | rfl <;>
    simp [monthLen, daysBeforeMonthC] <;> split <;> omega

theorem yearOfDay_spec (n : Int) :
    daysBeforeYearC (yearOfDay n) ≤ n ∧ n < daysBeforeYearC (yearOfDay n + 1) := by
  unfold yearOfDay
  simp only []
  split
  · rename_i h
    constructor
    · exact h
    · unfold daysBeforeYearC at *; omega
  · rename_i h
    split
    · rename_i h2
      exact ⟨h2, by omega⟩
    · rename_i h2
      constructor
      · unfold daysBeforeYearC at *; omega
      · have : n * 400 / 146097 + 1 - 1 + 1 = n * 400 / 146097 + 1 := by omega
        rw [this]; omega

theorem daysBeforeYearC_mono {a b : Int} (h : a ≤ b) : daysBeforeYearC a ≤ daysBeforeYearC b := by
  unfold daysBeforeYearC; omega

theorem daysBeforeMonthC_nonneg (a m : Int) : 0 ≤ daysBeforeMonthC a m := by
  unfold daysBeforeMonthC; simp only []; repeat' split
  all_goals omega

theorem daysBeforeMonthC_le (a m : Int) : daysBeforeMonthC a m ≤ 335 := by
  unfold daysBeforeMonthC; simp only []; repeat' split
  all_goals omega

theorem monthOfDoy_spec (a : Int) (k : Nat) : ∀ (m r : Int), m + k = 12 → 1 ≤ m → 0 ≤ r →
    daysBeforeMonthC a m + r < yearLen a →
    m ≤ (monthOfDoy a k m r).1 ∧ (monthOfDoy a k m r).1 ≤ 12 ∧ 1 ≤ (monthOfDoy a k m r).2 ∧
    (monthOfDoy a k m r).2 ≤ monthLen a (monthOfDoy a k m r).1 ∧
    daysBeforeMonthC a (monthOfDoy a k m r).1 + (monthOfDoy a k m r).2 - 1 = daysBeforeMonthC a m + r := by
  induction k with
  | zero =>
    intro m r hm h1 hr hlt
    have : m = 12 := by omega
    subst this
    have := daysBeforeMonthC_13 a
    simp only [monthOfDoy]
    omega
  | succ k ih =>
    intro m r hm h1 hr hlt
    simp only [monthOfDoy]
    split
    · rename_i h
      simp only []
      omega
    · rename_i h
      have hs := daysBeforeMonthC_succ a m h1 (by omega)
      have := ih (m + 1) (r - monthLen a m) (by omega) (by omega) (by omega) (by omega)
      omega

/-- `civil` inverts the closed-form day number and yields a calendar date — every `Int` day -/
theorem civil_spec (n : Int) :
    1 ≤ (civil n).2.1 ∧ (civil n).2.1 ≤ 12 ∧ 1 ≤ (civil n).2.2 ∧
    (civil n).2.2 ≤ monthLen (civil n).1 (civil n).2.1 ∧
    dayNumC (civil n).1 (civil n).2.1 (civil n).2.2 = n := by
  have hy := yearOfDay_spec n
  have hs := daysBeforeYearC_succ (yearOfDay n)
  have h0 : daysBeforeMonthC (yearOfDay n) 1 = 0 := by simp [daysBeforeMonthC]
  have := monthOfDoy_spec (yearOfDay n) 11 1 (n - daysBeforeYearC (yearOfDay n)) (by omega) (by omega)
    (by omega) (by omega)
  simp only [civil, dayNumC]
  omega

theorem dayNum_eq_C (a m d : Int) (h1 : 1 ≤ m) (h12 : m ≤ 12) : dayNum a m d = dayNumC a m d := by
  simp only [dayNum, dayNumC, daysBeforeYear_eq_C, daysBeforeMonth_eq_C a m h1 h12]

theorem daysBeforeMonthC_le_of_lt (a : Int) (k : Nat) : ∀ m : Int, 1 ≤ m → m + 1 + k ≤ 12 →
    daysBeforeMonthC a m + monthLen a m ≤ daysBeforeMonthC a (m + 1 + k) := by
  induction k with
  | zero => intro m h1 h; have := daysBeforeMonthC_succ a m h1 (by omega); simp; omega
  | succ k ih =>
    intro m h1 h
    have := ih m h1 (by omega)
    have hs := daysBeforeMonthC_succ a (m + 1 + k) (by omega) (by omega)
    have := monthLen_pos a (m + 1 + k)
    have e : m + 1 + ((k + 1 : Nat) : Int) = m + 1 + k + 1 := by push_cast; omega
    rw [e]; omega

theorem daysBeforeMonthC_lt (a m m' : Int) (h1 : 1 ≤ m) (h : m < m') (h12 : m' ≤ 12) :
    daysBeforeMonthC a m + monthLen a m ≤ daysBeforeMonthC a m' := by
  have := daysBeforeMonthC_le_of_lt a (m' - m - 1).toNat m h1 (by omega)
  have e : m + 1 + ((m' - m - 1).toNat : Int) = m' := by omega
  rwa [e] at this

/-- a calendar date is determined by its day number -/
theorem dayNumC_inj {a m d a' m' d' : Int}
    (hm : 1 ≤ m ∧ m ≤ 12) (hd : 1 ≤ d ∧ d ≤ monthLen a m)
    (hm' : 1 ≤ m' ∧ m' ≤ 12) (hd' : 1 ≤ d' ∧ d' ≤ monthLen a' m')
    (h : dayNumC a m d = dayNumC a' m' d') : a = a' ∧ m = m' ∧ d = d' := by
  have b1 : daysBeforeMonthC a m + monthLen a m ≤ yearLen a := by
    by_cases h12 : m = 12
    · subst h12; exact Int.le_of_eq (daysBeforeMonthC_13 a)
    · have := daysBeforeMonthC_lt a m 12 hm.1 (by omega) (by omega)
      have := daysBeforeMonthC_13 a; have := monthLen_pos a 12; omega
  have b2 : daysBeforeMonthC a' m' + monthLen a' m' ≤ yearLen a' := by
    by_cases h12 : m' = 12
    · subst h12; exact Int.le_of_eq (daysBeforeMonthC_13 a')
    · have := daysBeforeMonthC_lt a' m' 12 hm'.1 (by omega) (by omega)
      have := daysBeforeMonthC_13 a'; have := monthLen_pos a' 12; omega
  have n1 := daysBeforeMonthC_nonneg a m
  have n2 := daysBeforeMonthC_nonneg a' m'
  have s1 := daysBeforeYearC_succ a
  have s2 := daysBeforeYearC_succ a'
  unfold dayNumC at h
  have ha : a = a' := by
    rcases Int.lt_trichotomy a a' with hlt | heq | hgt
    · have := daysBeforeYearC_mono (show a + 1 ≤ a' by omega); omega
    · exact heq
    · have := daysBeforeYearC_mono (show a' + 1 ≤ a by omega); omega
  subst ha
  have hmm : m = m' := by
    rcases Int.lt_trichotomy m m' with hlt | heq | hgt
    · have := daysBeforeMonthC_lt a m m' hm.1 hlt hm'.2; omega
    · exact heq
    · have := daysBeforeMonthC_lt a m' m hm'.1 hgt hm.2; omega
  subst hmm
  exact ⟨rfl, rfl, by omega⟩

/-- valid values with the same timezone and the same instant are equal -/
theorem instant_inj {v w : Val} (hv : v.Valid) (hw : w.Valid) (htz : v.tz = w.tz)
    (h : v.instant = w.instant) : v = w := by
  obtain ⟨y, m, d, u, z⟩ := v
  obtain ⟨y', m', d', u', z'⟩ := w
  simp only [Val.Valid] at hv hw
  simp only at htz
  subst htz
  simp only [Val.instant, Val.localT] at h
  rw [dayNum_eq_C _ _ _ hv.1 hv.2.1, dayNum_eq_C _ _ _ hw.1 hw.2.1] at h
  simp only [US] at h hv hw
  have hday : dayNumC y m d = dayNumC y' m' d' := by omega
  have := dayNumC_inj ⟨hv.1, hv.2.1⟩ ⟨hv.2.2.1, hv.2.2.2.1⟩ ⟨hw.1, hw.2.1⟩ ⟨hw.2.2.1, hw.2.2.2.1⟩ hday
  obtain ⟨rfl, rfl, rfl⟩ := this
  have : u = u' := by omega
  subst this; rfl

end EPV.Timeline

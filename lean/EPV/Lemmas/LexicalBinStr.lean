/-
C10 helper lemmas: the string forms produced for binary values (`str(HexBinary)`, `str(Base64Binary)` after a
cast) are accepted by the constructors again and denote the same octets (binary ↔ string casts).
-/
import EPV.Lemmas.LexicalHex
namespace EPV.LexLemmas
open EPV Lex

theorem hexUpper_isHex : ∀ n : Fin 16, isHexDigit (hexDigitUpper n.val) = true := by decide
theorem hexLower_isHex : ∀ n : Fin 16, isHexDigit (hexDigitLower n.val) = true := by decide
theorem hexUpper_notWhite : ∀ n : Fin 16, isPyWhite (hexDigitUpper n.val) = false := by decide
theorem hexLower_notWhite : ∀ n : Fin 16, isPyWhite (hexDigitLower n.val) = false := by decide

theorem hexEncodeUpper_chars (bs : List Byte) :
    ∀ c ∈ hexEncodeUpper bs, isHexDigit c = true ∧ isPyWhite c = false := by
  induction bs with
  | nil => intro c hc; cases hc
  | cons b r ih =>
    intro c hc
    have h1 : b.val / 16 < 16 := by have := b.isLt; omega
    have h2 : b.val % 16 < 16 := by omega
    simp only [hexEncodeUpper, List.mem_cons] at hc
    rcases hc with h | h | h
    · subst h; exact ⟨hexUpper_isHex ⟨_, h1⟩, hexUpper_notWhite ⟨_, h1⟩⟩
    · subst h; exact ⟨hexUpper_isHex ⟨_, h2⟩, hexUpper_notWhite ⟨_, h2⟩⟩
    · exact ih c h

theorem hexEncodeUpper_length (bs : List Byte) : (hexEncodeUpper bs).length = 2 * bs.length := by
  induction bs with
  | nil => rfl
  | cons b r ih => simp [hexEncodeUpper, ih]; omega

/-- `xs:hexBinary(xs:string(h))`: the upper-case string of a hexBinary value is a literal of the lexical
space, is stored unchanged, and decodes to the same octets -/
theorem hexCtor_hexEncodeUpper (bs : List Byte) :
    hexCtor (hexEncodeUpper bs) = .ok (hexEncodeUpper bs) ∧ hexDecode (hexEncodeUpper bs) = some bs := by
  refine ⟨?_, hexDecode_hexEncodeUpper bs⟩
  have hnw : ∀ c ∈ hexEncodeUpper bs, isPyWhite c = false := fun c hc => (hexEncodeUpper_chars bs c hc).2
  rw [hexCtor_eq, collapse_of_no_white _ hnw]
  have : XSD.hexLex (hexEncodeUpper bs) = true := by
    unfold XSD.hexLex
    rw [hexEncodeUpper_length]
    simp only [Nat.mul_mod_right, beq_self_eq_true, Bool.true_and, List.all_eq_true]
    intro c hc; rw [← isHexDigit_eq]; exact (hexEncodeUpper_chars bs c hc).1
  rw [this]; rfl

theorem b64Char_isB64 : ∀ n : Fin 64, isB64 (b64Char n.val) = true ∧ isPyWhite (b64Char n.val) = false := by decide
theorem b64Char_b16 : ∀ n : Fin 16, isB16 (b64Char (n.val * 4)) = true := by decide
theorem b64Char_b04 : ∀ n : Fin 4, isB04 (b64Char (n.val * 16)) = true := by decide

/-- the base64 text produced by the encoder matches the pattern (padding characters included) -/
theorem matchB64_b64Encode (bs : List Byte) : matchB64 (b64Encode bs) = true := by
  induction bs using b64Encode.induct with
  | case1 => rfl
  | case2 a =>
    have ha := a.isLt
    have h1 := (b64Char_isB64 ⟨a.val / 4, by omega⟩).1
    have h2 := (b64Char_isB64 ⟨a.val % 4 * 16, by omega⟩).1
    have h3 := b64Char_b04 ⟨a.val % 4, by omega⟩
    simp only [b64Encode, matchB64] at *
    simp [h1, h2, h3]
  | case3 a b =>
    have ha := a.isLt
    have hb := b.isLt
    have h1 := (b64Char_isB64 ⟨a.val / 4, by omega⟩).1
    have h2 := (b64Char_isB64 ⟨a.val % 4 * 16 + b.val / 16, by omega⟩).1
    have h3 := b64Char_b16 ⟨b.val % 16, by omega⟩
    simp only [b64Encode, matchB64] at *
    simp [h1, h2, h3]
  | case4 a b c r ih =>
    have ha := a.isLt
    have hb := b.isLt
    have hc := c.isLt
    have h1 := (b64Char_isB64 ⟨a.val / 4, by omega⟩).1
    have h2 := (b64Char_isB64 ⟨a.val % 4 * 16 + b.val / 16, by omega⟩).1
    have h3 := (b64Char_isB64 ⟨b.val % 16 * 4 + c.val / 64, by omega⟩).1
    have h4 := (b64Char_isB64 ⟨c.val % 64, by omega⟩).1
    simp only [b64Encode]
    cases hr : b64Encode r with
    | nil => simp only [matchB64]; simp [h1, h2, h3, h4]
    | cons x xs =>
      rw [hr] at ih
      rw [matchB64]
      · simp [h1, h2, h3, h4, ih]
      · simp

theorem b64Encode_noWhite (bs : List Byte) : ∀ c ∈ b64Encode bs, isPyWhite c = false := by
  induction bs using b64Encode.induct with
  | case1 => intro c hc; cases hc
  | case2 a =>
    have ha := a.isLt
    intro c hc
    simp only [b64Encode, List.mem_cons, List.mem_nil_iff, or_false] at hc
    rcases hc with h | h | h | h
    · subst h; exact (b64Char_isB64 ⟨a.val / 4, by omega⟩).2
    · subst h; exact (b64Char_isB64 ⟨a.val % 4 * 16, by omega⟩).2
    · subst h; decide
    · subst h; decide
  | case3 a b =>
    have ha := a.isLt
    have hb := b.isLt
    intro c hc
    simp only [b64Encode, List.mem_cons, List.mem_nil_iff, or_false] at hc
    rcases hc with h | h | h | h
    · subst h; exact (b64Char_isB64 ⟨a.val / 4, by omega⟩).2
    · subst h; exact (b64Char_isB64 ⟨a.val % 4 * 16 + b.val / 16, by omega⟩).2
    · subst h; exact (b64Char_isB64 ⟨b.val % 16 * 4, by omega⟩).2
    · subst h; decide
  | case4 a b c r ih =>
    have ha := a.isLt
    have hb := b.isLt
    have hc := c.isLt
    intro x hx
    simp only [b64Encode, List.mem_cons] at hx
    rcases hx with h | h | h | h | h
    · subst h; exact (b64Char_isB64 ⟨a.val / 4, by omega⟩).2
    · subst h; exact (b64Char_isB64 ⟨a.val % 4 * 16 + b.val / 16, by omega⟩).2
    · subst h; exact (b64Char_isB64 ⟨b.val % 16 * 4 + c.val / 64, by omega⟩).2
    · subst h; exact (b64Char_isB64 ⟨c.val % 64, by omega⟩).2
    · exact ih x h

/-- `xs:base64Binary(xs:string(b))`: the text of a base64Binary value is accepted again, stored unchanged,
and decodes to the same octets -/
theorem b64Ctor_b64Encode (bs : List Byte) :
    b64Ctor (b64Encode bs) = .ok (b64Encode bs) ∧ b64Decode (b64Encode bs) = some bs := by
  refine ⟨?_, b64Decode_b64Encode bs⟩
  have hnw := b64Encode_noWhite bs
  have hf : (b64Encode bs).filter (· != ' ') = b64Encode bs := by
    rw [List.filter_eq_self]
    intro c hc
    have := hnw c hc
    have : c ≠ ' ' := by intro e; subst e; exact absurd this (by decide)
    simpa using this
  unfold b64Ctor b64IsValid
  simp only [collapse_of_no_white _ hnw, hf, matchB64_b64Encode, ↓reduceIte]

end EPV.LexLemmas

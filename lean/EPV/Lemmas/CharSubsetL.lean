/-
List form of the character-subset parser (C13).

`iterparseGo` (Model/CharSubsetParse.lean) transcribes the Python loop with its index arithmetic
(`k == length - 1`, `k >= length - 2`, `s[k + 1]`, `next(iterator)`).  `parseL` is the same
automaton reading the *remaining text* as a list with look-ahead; `iterparseGo_eq_parseL` proves
the two equal for every string, state and start index, so the theorems about the accepted
language (Lemmas/CharSubsetStrict.lean) can be proved by induction on the text.
-/
import EPV.Model.CharSubsetParse
namespace EPV.USet

/-- decoding of the end of a character range from the text after the hyphen:
(number of characters consumed, end character, "bad range" error, range ends with an escaped backslash) -/
def rangeEnd : List Nat → Nat × Nat × Bool × Bool
  | e0 :: e1 :: _ =>
    if e0 == cpBackslash then
      if isEscapable e1 then (2, e1, false, false)
      else if isMultiEsc e1 then (1, e0, true, false)
      else if e1 == cpBackslash then (1, e0, false, true)
      else (1, e0, false, false)
    else (1, e0, false, false)
  | [e0] => (1, e0, false, false)
  | [] => (1, 0, false, false)

theorem rangeEnd_cnt (r : List Nat) : (rangeEnd r).1 = 1 ∨ (rangeEnd r).1 = 2 := by
  unfold rangeEnd; split <;> (try split) <;> (try split) <;> (try split) <;> (try split) <;> simp

/-- `followedByRange rest`: the Python test `not (k >= length - 2 or s[k + 1] != '-')` -/
def hyphenNext (rest : List Nat) : Bool :=
  match rest with
  | c :: _ :: _ => c == cpHyphen
  | _ => false

/-- the loop of `iterparse_character_subset` on the remaining text; `multi` is `length > 1` -/
def parseL (multi : Bool) (st : PState) (l : List Nat) : Option (List CP) :=
  match l with
  | [] => some (if st.escaped then [.one cpBackslash] else [])
  | c :: rest =>
    if c == cpHyphen then
      if st.escaped || rest.isEmpty then
        (parseL multi { char := c, escaped := false, onRange := false } rest).map (.one c :: ·)
      else if st.onRange then
        (parseL multi { st with char := c, onRange := false } rest).map (.one c :: ·)
      else
        let re := rangeEnd rest
        if re.2.2.1 then none
        else if st.char > re.2.1 then none
        else (parseL multi { st with onRange := true, escaped := re.2.2.2 } (rest.drop re.1)).map
              (.rng st.char (re.2.1 + 1) :: ·)
    else if isSpecial c then
      (parseL multi { escaped := false, onRange := false, char := c } rest).map (.one c :: ·)
    else if isBracket c then
      if !st.escaped && multi then none
      else
        let r := parseL multi { escaped := false, onRange := false, char := c } rest
        if hyphenNext rest then r else r.map (.one c :: ·)
    else if c == cpBackslash then
      if st.escaped then
        (parseL multi { escaped := false, onRange := false, char := c } rest).map (.one c :: ·)
      else parseL multi { st with escaped := true } rest
    else
      let pre : List CP := if st.escaped then [.one cpBackslash] else []
      let r := parseL multi { escaped := false, onRange := false, char := c } rest
      if hyphenNext rest then r.map (pre ++ ·) else r.map (pre ++ .one c :: ·)
termination_by l.length
decreasing_by
  all_goals simp_wf
  all_goals (try simp only [List.length_drop]) <;> omega

/-- the whole generator on a list, including the `k == 0` branch -/
def parseTopL (l : List Nat) : Option (List CP) :=
  match l with
  | [] => some []
  | c :: rest =>
    let multi := !rest.isEmpty
    if c == cpBackslash then parseL multi { escaped := true, char := c } rest
    else if isBracket c && multi then none
    else
      let r := parseL multi { char := c } rest
      if hyphenNext rest then r else r.map (.one c :: ·)

end EPV.USet

namespace EPV.USet

theorem drop_cons (s : Array Nat) (k : Nat) (h : k < s.size) :
    s.toList.drop k = s[k]! :: s.toList.drop (k + 1) := by
  have h' : k < s.toList.length := by simpa using h
  rw [List.drop_eq_getElem_cons h']
  simp [getElem!_pos, h]

theorem drop_nil (s : Array Nat) (k : Nat) (h : s.size ≤ k) : s.toList.drop k = [] := by
  apply List.drop_eq_nil_of_le; simpa using h

theorem hyphenNext_drop (s : Array Nat) (k : Nat) (h : k < s.size) :
    hyphenNext (s.toList.drop (k + 1)) = !(decide (k ≥ s.size - 2) || s[k + 1]! != cpHyphen) := by
  by_cases h1 : k + 1 < s.size
  · rw [drop_cons s (k + 1) h1]
    by_cases h2 : k + 2 < s.size
    · rw [drop_cons s (k + 2) h2]
      have : ¬ (k ≥ s.size - 2) := by omega
      simp only [hyphenNext, this, decide_false, Bool.false_or]
      cases hb : (s[k + 1]! == cpHyphen) <;> simp [bne, hb]
    · rw [drop_nil s (k + 1 + 1) (by omega)]
      have : k ≥ s.size - 2 := by omega
      simp [hyphenNext, this]
  · rw [drop_nil s (k + 1) (by omega)]
    have : k ≥ s.size - 2 := by omega
    simp [hyphenNext, this]

end EPV.USet

namespace EPV.USet

theorem rangeEnd_drop (s : Array Nat) (k1 : Nat) (h : k1 < s.size) :
    rangeEnd (s.toList.drop k1) =
      (if s[k1]! == cpBackslash && decide (k1 < s.size - 1) then
        if isEscapable s[k1 + 1]! then (2, s[k1 + 1]!, false, false)
        else if isMultiEsc s[k1 + 1]! then (1, s[k1]!, true, false)
        else if s[k1 + 1]! == cpBackslash then (1, s[k1]!, false, true)
        else (1, s[k1]!, false, false)
      else (1, s[k1]!, false, false)) := by
  rw [drop_cons s k1 h]
  by_cases h2 : k1 + 1 < s.size
  · rw [drop_cons s (k1 + 1) h2]
    have : k1 < s.size - 1 := by omega
    simp only [rangeEnd, this, decide_true, Bool.and_true]
  · rw [drop_nil s (k1 + 1) (by omega)]
    have : ¬ k1 < s.size - 1 := by omega
    simp only [rangeEnd, this, decide_false, Bool.and_false]
    simp

theorem iterparseGo_eq_parseL (s : Array Nat) :
    ∀ fuel k st, s.size + 1 ≤ fuel + k →
      iterparseGo s fuel k st = parseL (decide (s.size > 1)) st (s.toList.drop k) := by
  intro fuel
  induction fuel using Nat.strongRecOn with
  | ind fuel ih =>
    intro k st hf
    cases fuel with
    | zero =>
      rw [drop_nil s k (by omega)]
      simp [iterparseGo, parseL]
    | succ fuel =>
      unfold iterparseGo
      by_cases hk : k ≥ s.size
      · rw [drop_nil s k hk]; simp [hk, parseL]
      · have hk' : k < s.size := by omega
        rw [drop_cons s k hk', parseL]
        simp only [hk, if_false]
        have ih1 := fun st' => ih fuel (by omega) (k + 1) st' (by omega)
        have hemp : (s.toList.drop (k + 1)).isEmpty = (k == s.size - 1) := by
          by_cases h1 : k + 1 < s.size
          · rw [drop_cons s (k + 1) h1]
            have : ¬ k = s.size - 1 := by omega
            simp [this]
          · rw [drop_nil s (k + 1) (by omega)]
            have : k = s.size - 1 := by omega
            simp [this]
        have hhn := hyphenNext_drop s k hk'
        by_cases hc : s[k]! == cpHyphen
        · simp only [hc, if_true, hemp]
          by_cases h1 : (st.escaped || k == s.size - 1)
          · simp only [h1, if_true, ih1]
          · simp only [h1, Bool.false_eq_true, if_false]
            by_cases h2 : st.onRange
            · simp only [h2, if_true, ih1]
            · simp only [h2, Bool.false_eq_true, if_false]
              have hk1 : k + 1 < s.size := by
                simp only [Bool.or_eq_true, beq_iff_eq, not_or] at h1
                omega
              rw [rangeEnd_drop s (k + 1) hk1]
              by_cases hb : (s[k + 1]! == cpBackslash && decide (k + 1 < s.size - 1))
              · simp only [hb, if_true]
                have hk2 : k + 2 < s.size := by
                  simp only [Bool.and_eq_true, decide_eq_true_eq] at hb
                  omega
                by_cases he : isEscapable s[k + 1 + 1]!
                · simp only [he, if_true, Bool.false_eq_true, if_false]
                  split
                  · rfl
                  · rw [ih (fuel - (k + 1 + 1 - k)) (by omega) (k + 1 + 1 + 1) _ (by omega)]
                    simp [List.drop_drop, Nat.add_comm, Nat.add_left_comm]
                · simp only [he, Bool.false_eq_true, if_false]
                  by_cases hm : isMultiEsc s[k + 1 + 1]!
                  · simp [hm]
                  · simp only [hm, Bool.false_eq_true, if_false]
                    by_cases hbb : s[k + 1 + 1]! == cpBackslash
                    · simp only [hbb, if_true, Bool.false_eq_true, if_false]
                      split
                      · rfl
                      · rw [ih (fuel - (k + 1 - k)) (by omega) (k + 1 + 1) _ (by omega)]
                        simp [List.drop_drop, Nat.add_comm, Nat.add_left_comm]
                    · simp only [hbb, Bool.false_eq_true, if_false]
                      split
                      · rfl
                      · rw [ih (fuel - (k + 1 - k)) (by omega) (k + 1 + 1) _ (by omega)]
                        simp [List.drop_drop, Nat.add_comm, Nat.add_left_comm]
              · simp only [hb, Bool.false_eq_true, if_false]
                split
                · rfl
                · rw [ih (fuel - (k + 1 - k)) (by omega) (k + 1 + 1) _ (by omega)]
                  simp [List.drop_drop, Nat.add_comm, Nat.add_left_comm]
        · simp only [hc, Bool.false_eq_true, if_false]
          by_cases hs : isSpecial s[k]!
          · simp only [hs, if_true, ih1]
          · simp only [hs, Bool.false_eq_true, if_false]
            by_cases hbr : isBracket s[k]!
            · simp only [hbr, if_true, ih1, hhn]
              by_cases hx : (!st.escaped && decide (s.size > 1))
              · simp [hx]
              · simp only [hx, Bool.false_eq_true, if_false]
                cases hq : (decide (k ≥ s.size - 2) || s[k + 1]! != cpHyphen) <;> simp
            · simp only [hbr, Bool.false_eq_true, if_false]
              by_cases hbs : s[k]! == cpBackslash
              · simp only [hbs, if_true, ih1]
              · simp only [hbs, Bool.false_eq_true, if_false, ih1, hhn]
                cases hq : (decide (k ≥ s.size - 2) || s[k + 1]! != cpHyphen) <;> simp

end EPV.USet

namespace EPV.USet

/-- the Python generator and its list form are the same function of the text -/
theorem iterparse_eq_parseTopL (s : Array Nat) : iterparse s = parseTopL s.toList := by
  unfold iterparse
  by_cases h0 : s.size = 0
  · have : s.toList = [] := by
      apply List.eq_nil_of_length_eq_zero; simpa using h0
    simp [h0, this, parseTopL]
  · have hpos : 0 < s.size := by omega
    have hd := drop_cons s 0 hpos
    simp only [List.drop_zero] at hd
    rw [hd, parseTopL]
    have hmulti : (!(s.toList.drop (0 + 1)).isEmpty) = decide (s.size > 1) := by
      by_cases h1 : 0 + 1 < s.size
      · rw [drop_cons s (0 + 1) h1]; simp; omega
      · rw [drop_nil s (0 + 1) (by omega)]; simp; omega
    have hhn := hyphenNext_drop s 0 hpos
    have hgo := fun st => iterparseGo_eq_parseL s s.size 1 st (by omega)
    simp only [Nat.zero_add] at hmulti hhn
    simp only [h0, beq_iff_eq, if_false, hgo, hmulti, hhn]
    by_cases hb : s[0]! = cpBackslash
    · simp [hb]
    · simp only [hb, if_false]
      by_cases hbr : (isBracket s[0]! && decide (s.size > 1))
      · simp [hbr]
      · simp only [hbr, Bool.false_eq_true, if_false]
        have e1 : decide (s.size ≤ 2) = decide (0 ≥ s.size - 2) := by
          apply decide_eq_decide.mpr; omega
        rw [e1]
        generalize parseL (decide (s.size > 1)) { char := s[0]! } (List.drop (0 + 1) s.toList) = r
        cases (decide (0 ≥ s.size - 2) || s[1]! != cpHyphen) <;> simp

end EPV.USet

/-
C15 — map:merge on the spec side (F&O §17.1.2 as written in EPV/Spec/FOMaps.lean): what the
merged map returns for a key, for each `duplicates` policy, as a fold over all entries of all
operand maps in order; `reject` = concatenation or FOJS0003.
-/
import EPV.Lemmas.MapArrayLaws
namespace EPV.MapArray
open Spec

theorem mergeStep_new (pol : Policy) (acc : Entries (List β)) (e : Key × List β)
    (h : Spec.contains acc e.1 = false) : Spec.mergeStep pol acc e = .ok (acc ++ [e]) := by
  simp [Spec.mergeStep, h]

theorem contains_of_sameKey {acc : Entries α} {a b : Key} (h : Spec.contains acc a = true)
    (hab : sameKey a b = true) : Spec.contains acc b = true := by
  obtain ⟨x, hx, hxa⟩ := List.any_eq_true.1 (by unfold Spec.contains at h; exact h)
  exact List.any_eq_true.2 ⟨x, hx, sameKey_trans hxa hab⟩

theorem get_of_not_contains {acc : Entries (List β)} {k : Key} (h : Spec.contains acc k = false) :
    Spec.get acc k = [] := by
  unfold Spec.get
  have : acc.find? (fun e => sameKey e.1 k) = none := by
    rw [List.find?_eq_none]; intro e he hek
    have : Spec.contains acc k = true := List.any_eq_true.2 ⟨e, he, hek⟩
    rw [h] at this; exact absurd this (by simp)
  simp [this]

theorem get_snoc (acc : Entries (List β)) (e : Key × List β) (k : Key) :
    Spec.get (acc ++ [e]) k =
      if Spec.contains acc k then Spec.get acc k else if sameKey e.1 k then e.2 else [] := by
  unfold Spec.get Spec.contains
  rw [List.find?_append]
  by_cases h : acc.any (fun e => sameKey e.1 k) = true
  · rw [if_pos h]
    obtain ⟨x, hx⟩ := Option.isSome_iff_exists.1 (List.find?_isSome.2 (by
      obtain ⟨e, he, hek⟩ := List.any_eq_true.1 h; exact ⟨e, he, hek⟩))
    simp [hx]
  · rw [if_neg h]
    have : acc.find? (fun e => sameKey e.1 k) = none := by
      rw [List.find?_eq_none]; intro e he hek; exact h (List.any_eq_true.2 ⟨e, he, hek⟩)
    cases hek : sameKey e.1 k <;> simp [this, hek]

/-- map:put on the spec side: the two lookup laws, for every map and all keys -/
theorem spec_get_put_same (m : Entries (List β)) (k : Key) (v : List β) : Spec.get (Spec.put m k v) k = v := by
  unfold Spec.put
  rw [get_snoc]
  have : Spec.contains (m.filter fun e => !sameKey e.1 k) k = false := by
    unfold Spec.contains
    rw [List.any_eq_false]; intro x hx
    simp only [List.mem_filter, Bool.not_eq_eq_eq_not, Bool.not_true] at hx
    simp [hx.2]
  simp [this, sameKey_refl]

theorem spec_get_put_other (m : Entries (List β)) (k k' : Key) (v : List β) (h : sameKey k k' = false) :
    Spec.get (Spec.put m k v) k' = Spec.get m k' := by
  have hf : (m.filter fun e => !sameKey e.1 k).find? (fun e => sameKey e.1 k') = m.find? (fun e => sameKey e.1 k') := by
    rw [List.find?_filter]
    congr 1; funext e
    cases he : sameKey e.1 k' with
    | false => simp
    | true =>
      cases h2 : sameKey e.1 k with
      | false => simp
      | true =>
        have : sameKey k k' = true := sameKey_trans (by rw [sameKey_symm]; exact h2) he
        rw [this] at h; exact absurd h (by simp)
  unfold Spec.put Spec.get
  rw [List.find?_append, hf]
  simp [h]

theorem spec_contains_put (m : Entries α) (k k' : Key) (v : α) :
    Spec.contains (Spec.put m k v) k' = (Spec.contains m k' || sameKey k k') := by
  simp only [Spec.contains, Spec.put, List.any_append, List.any_cons, List.any_nil, Bool.or_false]
  cases hk : sameKey k k' with
  | true => simp
  | false =>
    simp only [Bool.or_false, List.any_filter]
    congr 1; funext e
    cases h1 : sameKey e.1 k' with
    | false => simp
    | true =>
      cases h2 : sameKey e.1 k with
      | false => simp
      | true =>
        have : sameKey k k' = true := sameKey_trans (by rw [sameKey_symm]; exact h2) h1
        rw [this] at hk; exact absurd hk (by simp)

theorem get_cons (a : Key × List β) (rest : Entries (List β)) (k : Key) :
    Spec.get (a :: rest) k = if sameKey a.1 k then a.2 else Spec.get rest k := by
  unfold Spec.get
  rw [List.find?_cons]
  cases sameKey a.1 k <;> simp

theorem contains_cons (a : Key × α) (rest : Entries α) (k : Key) :
    Spec.contains (a :: rest) k = (sameKey a.1 k || Spec.contains rest k) := by
  simp [Spec.contains]

/-- combine on an existing key: the first entry with that key gets the new value appended -/
theorem get_combine (acc : Entries (List β)) (e : Key × List β) (k : Key) :
    Spec.get (acc.map fun a => if sameKey a.1 e.1 then (a.1, a.2 ++ e.2) else a) k =
      if sameKey e.1 k && Spec.contains acc k then Spec.get acc k ++ e.2 else Spec.get acc k := by
  induction acc with
  | nil => simp [Spec.get, Spec.contains]
  | cons a rest ih =>
    rw [List.map_cons, get_cons, get_cons, contains_cons, ih]
    have hkey : (if sameKey a.1 e.1 then (a.1, a.2 ++ e.2) else a).1 = a.1 := by split <;> rfl
    rw [hkey]
    by_cases hak : sameKey a.1 k = true
    · by_cases hek : sameKey e.1 k = true
      · have : sameKey a.1 e.1 = true := sameKey_trans hak (by rw [sameKey_symm]; exact hek)
        simp [this, hak, hek]
      · have hek' : sameKey e.1 k = false := by simpa using hek
        have : sameKey a.1 e.1 = false := by
          cases h : sameKey a.1 e.1 with
          | false => rfl
          | true =>
            have : sameKey e.1 k = true := sameKey_trans (by rw [sameKey_symm]; exact h) hak
            rw [this] at hek'; exact absurd hek' (by simp)
        simp [this, hak, hek']
    · have hak' : sameKey a.1 k = false := by simpa using hak
      simp [hak']

theorem contains_combine (acc : Entries (List β)) (e : Key × List β) (k : Key) :
    Spec.contains (acc.map fun a => if sameKey a.1 e.1 then (a.1, a.2 ++ e.2) else a) k = Spec.contains acc k := by
  simp only [Spec.contains, List.any_map]
  congr 1; funext a
  simp only [Function.comp]
  split <;> rfl

/-- what one entry does to the lookup of a key, by policy -/
def stepVal (pol : Policy) (e : Key × List β) (k : Key) (present : Bool) (d : List β) : List β :=
  if sameKey e.1 k then
    match pol with
    | .useLast => e.2
    | .combine => d ++ e.2
    | _ => if present then d else e.2
  else d

theorem mergeStep_spec (pol : Policy) (acc : Entries (List β)) (e : Key × List β) (acc' : Entries (List β))
    (h : Spec.mergeStep pol acc e = .ok acc') (k : Key) :
    Spec.get acc' k = stepVal pol e k (Spec.contains acc k) (Spec.get acc k) ∧
    Spec.contains acc' k = (Spec.contains acc k || sameKey e.1 k) := by
  by_cases hc : Spec.contains acc e.1 = true
  · have hk : sameKey e.1 k = true → Spec.contains acc k = true := fun hek => contains_of_sameKey hc hek
    unfold Spec.mergeStep at h
    simp only [hc, Bool.not_true, Bool.false_eq_true, ↓reduceIte] at h
    cases pol with
    | reject => simp at h
    | useFirst =>
      injection h with h; subst h
      cases hek : sameKey e.1 k <;> simp [stepVal, hek, hk]
    | useAny =>
      injection h with h; subst h
      cases hek : sameKey e.1 k <;> simp [stepVal, hek, hk]
    | useLast =>
      injection h with h; subst h
      cases hek : sameKey e.1 k with
      | true =>
        have h1 := spec_get_put_same acc e.1 e.2
        have : Spec.get (Spec.put acc e.1 e.2) k = e.2 := by
          have hfun : (fun x : Key × List β => sameKey x.1 k) = (fun x => sameKey x.1 e.1) :=
            funext fun x => (sameKey_congr_right hek x.1).symm
          unfold Spec.get at h1 ⊢
          rw [hfun]; exact h1
        simp [stepVal, hek, this, spec_contains_put]
      | false => simp [stepVal, hek, spec_get_put_other acc e.1 k e.2 hek, spec_contains_put]
    | combine =>
      injection h with h; subst h
      rw [get_combine, contains_combine]
      cases hek : sameKey e.1 k with
      | true => simp [stepVal, hek, hk]
      | false => simp [stepVal, hek]
  · have hc' : Spec.contains acc e.1 = false := by simpa using hc
    rw [mergeStep_new pol acc e hc'] at h
    injection h with h; subst h
    have hcn : Spec.contains (acc ++ [e]) k = (Spec.contains acc k || sameKey e.1 k) := by simp [Spec.contains]
    refine ⟨?_, hcn⟩
    rw [get_snoc]
    cases hek : sameKey e.1 k with
    | false =>
      cases hck : Spec.contains acc k with
      | true => simp [stepVal, hek]
      | false => simp [stepVal, hek, get_of_not_contains hck]
    | true =>
      have hnk : Spec.contains acc k = false := by
        cases hck : Spec.contains acc k with
        | false => rfl
        | true =>
          have := contains_of_sameKey hck (by rw [sameKey_symm]; exact hek)
          rw [hc'] at this; exact absurd this (by simp)
      cases pol <;> simp [stepVal, hek, hnk, get_of_not_contains hnk]

/-- the fold that defines the value of key `k` in the merge of a list of entries -/
def foldVal (pol : Policy) (k : Key) : Bool × List β → List (Key × List β) → Bool × List β
  | s, [] => s
  | (present, d), e :: rest =>
    foldVal pol k (present || sameKey e.1 k, stepVal pol e k present d) rest

theorem mergeLoop_spec (pol : Policy) (acc : Entries (List β)) (l : List (Key × List β)) (m : Entries (List β))
    (h : Spec.mergeLoop pol acc l = .ok m) (k : Key) :
    (Spec.contains m k, Spec.get m k) = foldVal pol k (Spec.contains acc k, Spec.get acc k) l := by
  induction l generalizing acc with
  | nil => simp only [Spec.mergeLoop] at h; injection h with h; subst h; rfl
  | cons e rest ih =>
    simp only [Spec.mergeLoop] at h
    cases hs : Spec.mergeStep pol acc e with
    | error x => rw [hs] at h; simp at h
    | ok acc' =>
      rw [hs] at h
      have := mergeStep_spec pol acc e acc' hs k
      rw [ih acc' h, this.1, this.2]
      rfl

/-- only `reject` can fail -/
theorem mergeLoop_total (pol : Policy) (hp : pol ≠ .reject) (acc : Entries (List β)) (l : List (Key × List β)) :
    ∃ m, Spec.mergeLoop pol acc l = .ok m := by
  induction l generalizing acc with
  | nil => exact ⟨acc, rfl⟩
  | cons e rest ih =>
    simp only [Spec.mergeLoop]
    have : ∃ acc', Spec.mergeStep pol acc e = .ok acc' := by
      unfold Spec.mergeStep
      split
      · exact ⟨_, rfl⟩
      · cases pol <;> first | exact absurd rfl hp | exact ⟨_, rfl⟩
    obtain ⟨acc', hs⟩ := this
    rw [hs]; exact ih acc'

/-- `reject`: the merge is the plain concatenation when no key occurs twice, FOJS0003 otherwise -/
theorem mergeLoop_reject (acc : Entries (List β)) (l : List (Key × List β)) :
    Spec.mergeLoop .reject acc l =
      if (∀ e ∈ l, Spec.contains acc e.1 = false) ∧ (l.map (·.1)).Pairwise (fun a b => sameKey a b = false)
      then .ok (acc ++ l) else .error .FOJS0003 := by
  induction l generalizing acc with
  | nil => simp [Spec.mergeLoop]
  | cons e rest ih =>
    simp only [Spec.mergeLoop]
    by_cases hc : Spec.contains acc e.1 = true
    · have : Spec.mergeStep .reject acc e = .error .FOJS0003 := by simp [Spec.mergeStep, hc]
      rw [this, if_neg]
      rintro ⟨h1, _⟩
      have := h1 e (by simp)
      rw [hc] at this; exact absurd this (by simp)
    · have hc' : Spec.contains acc e.1 = false := by simpa using hc
      rw [mergeStep_new _ acc e hc']
      simp only []
      rw [ih (acc ++ [e])]
      have hiff : ((∀ x ∈ rest, Spec.contains (acc ++ [e]) x.1 = false) ∧
            (rest.map (·.1)).Pairwise (fun a b => sameKey a b = false)) ↔
          ((∀ x ∈ e :: rest, Spec.contains acc x.1 = false) ∧
            ((e :: rest).map (·.1)).Pairwise (fun a b => sameKey a b = false)) := by
        simp only [List.map_cons, List.pairwise_cons, List.mem_cons, forall_eq_or_imp, List.mem_map,
          forall_exists_index, and_imp, forall_apply_eq_imp_iff₂]
        have hsplit : ∀ x : Key × List β, Spec.contains (acc ++ [e]) x.1 = false ↔
            (Spec.contains acc x.1 = false ∧ sameKey e.1 x.1 = false) := by
          intro x; simp [Spec.contains]
        constructor
        · rintro ⟨h1, h2⟩
          exact ⟨⟨hc', fun x hx => ((hsplit x).1 (h1 x hx)).1⟩, fun x hx => ((hsplit x).1 (h1 x hx)).2, h2⟩
        · rintro ⟨⟨_, h1⟩, h2, h3⟩
          exact ⟨fun x hx => (hsplit x).2 ⟨h1 x hx, h2 x hx⟩, h3⟩
      by_cases hA : (∀ x ∈ rest, Spec.contains (acc ++ [e]) x.1 = false) ∧
            (rest.map (·.1)).Pairwise (fun a b => sameKey a b = false)
      · rw [if_pos hA, if_pos (hiff.1 hA)]; simp
      · rw [if_neg hA, if_neg (fun h => hA (hiff.2 h))]

/-- no two entries have the same key (F&O: what makes a list of entries a map) -/
def SpecWF (es : Entries α) : Prop := es.Pairwise fun a b => sameKey a.1 b.1 = false

theorem contains_append (a b : Entries α) (k : Key) :
    Spec.contains (a ++ b) k = (Spec.contains a k || Spec.contains b k) := by
  simp [Spec.contains]

theorem get_append (a b : Entries (List β)) (k : Key) :
    Spec.get (a ++ b) k = if Spec.contains a k then Spec.get a k else Spec.get b k := by
  unfold Spec.get Spec.contains
  rw [List.find?_append]
  by_cases h : a.any (fun e => sameKey e.1 k) = true
  · rw [if_pos h]
    obtain ⟨x, hx⟩ := Option.isSome_iff_exists.1 (List.find?_isSome.2 (by
      obtain ⟨e, he, hek⟩ := List.any_eq_true.1 h; exact ⟨e, he, hek⟩))
    simp [hx]
  · rw [if_neg h]
    have : a.find? (fun e => sameKey e.1 k) = none := by
      rw [List.find?_eq_none]; intro e he hek; exact h (List.any_eq_true.2 ⟨e, he, hek⟩)
    simp [this]

theorem mergeStep_dup (pol : Policy) (acc : Entries (List β)) (e : Key × List β)
    (h : Spec.contains acc e.1 = true) : Spec.mergeStep pol acc e =
      match pol with
      | .reject => .error .FOJS0003
      | .useFirst | .useAny => .ok acc
      | .useLast => .ok (Spec.put acc e.1 e.2)
      | .combine => .ok (acc.map fun a => if sameKey a.1 e.1 then (a.1, a.2 ++ e.2) else a) := by
  simp only [Spec.mergeStep, h, Bool.not_true, Bool.false_eq_true, ↓reduceIte]
  cases pol <;> rfl

/-! use-first (and use-any): the merged map looks a key up like the concatenation of all maps does -/

theorem mergeLoop_first (pol : Policy) (hp : pol = .useFirst ∨ pol = .useAny)
    (acc : Entries (List β)) (l : List (Key × List β)) :
    ∃ m, Spec.mergeLoop pol acc l = .ok m ∧
      (∀ k, Spec.get m k = Spec.get (acc ++ l) k) ∧ (∀ k, Spec.contains m k = Spec.contains (acc ++ l) k) := by
  induction l generalizing acc with
  | nil => exact ⟨acc, rfl, by simp, by simp⟩
  | cons e rest ih =>
    simp only [Spec.mergeLoop]
    by_cases hc : Spec.contains acc e.1 = true
    · have hstep : Spec.mergeStep pol acc e = .ok acc := by
        rw [mergeStep_dup pol acc e hc]; rcases hp with rfl | rfl <;> rfl
      rw [hstep]
      obtain ⟨m, hm, hg, hcn⟩ := ih acc
      refine ⟨m, hm, fun k => ?_, fun k => ?_⟩
      · rw [hg k, get_append, get_append]
        by_cases hk : Spec.contains acc k = true
        · simp [hk]
        · simp only [hk, Bool.false_eq_true, ↓reduceIte]
          -- e is shadowed by the entry of acc with the same key, which is not k
          have hek : sameKey e.1 k = false := by
            cases hek : sameKey e.1 k with
            | false => rfl
            | true =>
              exfalso; apply hk
              obtain ⟨x, hx, hxe⟩ := List.any_eq_true.1 (by unfold Spec.contains at hc; exact hc)
              exact List.any_eq_true.2 ⟨x, hx, sameKey_trans hxe hek⟩
          simp [Spec.get, hek]
      · rw [hcn k, contains_append, contains_append]
        have : Spec.contains (e :: rest) k = (sameKey e.1 k || Spec.contains rest k) := by simp [Spec.contains]
        rw [this]
        cases hek : sameKey e.1 k with
        | false => simp
        | true =>
          have : Spec.contains acc k = true := by
            obtain ⟨x, hx, hxe⟩ := List.any_eq_true.1 (by unfold Spec.contains at hc; exact hc)
            exact List.any_eq_true.2 ⟨x, hx, sameKey_trans hxe hek⟩
          simp [this]
    · have hc' : Spec.contains acc e.1 = false := by simpa using hc
      rw [mergeStep_new pol acc e hc']
      obtain ⟨m, hm, hg, hcn⟩ := ih (acc ++ [e])
      exact ⟨m, hm, fun k => by rw [hg k]; simp, fun k => by rw [hcn k]; simp⟩

end EPV.MapArray

/-
C07 — XPath2Parser in XPath 1.0 compatibility mode (mode v2c) against XPath 2.0 §3.5.2 rules 1-4
(EPV/Spec/FOCompare.lean `generalAllowed .v2c`), outside the F07-compat trigger.
-/
import EPV.Lemmas.CompareCompat
import EPV.Lemmas.CompareGeneral
import EPV.Lemmas.CompareContext
set_option linter.unusedSimpArgs false
set_option linter.unusedVariables false
namespace EPV.Cmp
open EPV.CmpSpec EPV.CmpFind

theorem exact_of (a : Atom) (q : Rat) (he : exactVal a = some q) (h : inexactDouble a = false) :
    toD64 q = .fin q := by
  simpa [inexactDouble, he] using h

set_option maxHeartbeats 4000000 in
/-- rule 4 (a, b) of §3.5.2 changes nothing for a pair of two numerics that are exact doubles, of two
strings, or of two values that are neither numeric nor strings: it then coincides with the
non-compatibility rules -/
theorem pairCompat_eq_pairSpec (m : Mode) (op : Op) (a b : Atom)
    (h1 : isNumeric a = isNumeric b) (h2 : inexactDouble a = false) (h3 : inexactDouble b = false)
    (h4 : isNumeric a = false → isStr a = isStr b) (h5 : trigPromotion a b = false) :
    pairCompat m op a b = pairSpec m op a b := by
  cases a <;> cases b <;> simp [isNumeric, numRank, isStr] at h1 h4 <;>
    simp [pairCompat, isNumeric, numRank, pairSpec, castThen, fnNumber, castString, valueOp, castNum,
      inexactDouble, exactVal, trigPromotion] at h2 h3 h5 ⊢
  all_goals first
    | (rw [h5, h2]; done)
    | (rw [h5, h3]; done)
    | simp [h2, h3]

/-! ### ordering operators: every item goes through fn:number / float() -/

def numOfA (a : Atom) : D := (fnNumber a).getD .nan

theorem float_clean {a : Atom} (h : floatFails a = false) : pyFloat a = .ok (numOfA a) ∧ fnNumber a = some (numOfA a) := by
  cases a <;> simp [floatFails, pyFloat] at h <;> simp [numOfA, fnNumber, pyFloat]
  case int v =>
    rcases pyFloat_int_cases v with ⟨e, he⟩ | hok
    · simp [pyFloat] at he; simp [he] at h
    · simpa [pyFloat] using hok
  case str s =>
    revert h; simp only [strToDouble, castDouble]; cases lexNum s <;> simp
  case ua s =>
    revert h; simp only [strToDouble, castDouble]; cases lexNum s <;> simp

theorem mapFloat_clean2 (l : List Atom) (h : ∀ a ∈ l, floatFails a = false) : mapFloat l = .ok (l.map numOfA) := by
  induction l with
  | nil => rfl
  | cons a l ih =>
    have h1 := (float_clean (h a (by simp))).1
    simp [mapFloat, h1, ih (fun b hb => h b (by simp [hb]))]

/-- the permitted outcomes of a list of pairs that all compare without error -/
theorem allowed_of_oks (ps : List (Atom × Atom)) (G : Atom × Atom → Bool) :
    ∃ allowed, allowedOfPairs (ps.map fun p => (.ok (G p) : Except Err Bool)) = some allowed ∧
      Out.ofBool (ps.any G) ∈ allowed := by
  have := anyPairs_in_allowed (fun a b => (.ok (G (a, b)) : R)) ps (by intro p _; simp)
  obtain ⟨al, h1, h2⟩ := this
  refine ⟨al, h1, ?_⟩
  rw [anyPairs_total (fun a b => (.ok (G (a, b)) : R)) (fun a b => G (a, b)) ps (by intro p _; rfl)] at h2
  cases hb : ps.any G <;> simp_all [outOfR, Out.ofBool]

theorem compat_ord_v2c (op : Op) (l r : List Atom) (ho : op.isOrd = true)
    (hl : ∀ a ∈ l, floatFails a = false) (hr : ∀ a ∈ r, floatFails a = false) :
    ∃ allowed, allowedOfPairs ((pairsOf l r).map fun p => pairOrdCompat op p.1 p.2) = some allowed ∧
      outOfR (compatLoop .v2c op l r) ∈ allowed := by
  have hm : compatLoop .v2c op l r =
      .ok ((product l r).any fun p => six numLt numEq op (numOfA p.1) (numOfA p.2)) := by
    simp only [compatLoop, compatLoopWith, ho, if_true, mapFloat_clean2 l hl, mapFloat_clean2 r hr, List.map_map]
    have e : ∀ X : List Atom, List.map (Atom.dbl ∘ numOfA) X = X.map (fun a => Atom.dbl (numOfA a)) := fun X => rfl
    rw [e, e, product_map, anyPairs_map (fun a b => liftPy (pyOp Mode.v2c op a b)) (fun a => Atom.dbl (numOfA a))]
    exact anyPairs_total _ (fun a b => six numLt numEq op (numOfA a) (numOfA b)) _
      (by intro p _; simp [pyOp_dbl_dbl, liftPy])
  have hs : ((pairsOf l r).map fun p => pairOrdCompat op p.1 p.2) =
      (product l r).map fun p => (.ok (six numLt numEq op (numOfA p.1) (numOfA p.2)) : Except Err Bool) := by
    apply List.map_congr_left
    intro ⟨a, b⟩ hp
    obtain ⟨ha, hb⟩ := mem_product.mp hp
    simp [pairOrdCompat, (float_clean (hl a ha)).2, (float_clean (hr b hb)).2]
  rw [hm, hs]
  obtain ⟨al, h1, h2⟩ := allowed_of_oks (product l r) (fun p => six numLt numEq op (numOfA p.1) (numOfA p.2))
  refine ⟨al, h1, ?_⟩
  cases hb : (product l r).any (fun p => six numLt numEq op (numOfA p.1) (numOfA p.2)) <;>
    simp_all [outOfR, Out.ofBool]

/-! ### `=` / `!=`: the type-checking loop against rule 4 -/

def pairCond (a b : Atom) : Prop :=
  isNumeric a = isNumeric b ∧ inexactDouble a = false ∧ inexactDouble b = false ∧
  (isNumeric a = false → isStr a = isStr b)

theorem compat_eq_v2c (op : Op) (l r : List Atom) (ho : op.isOrd = false)
    (hp : ∀ p ∈ product l r, pairCond p.1 p.2 ∧ PairClean .v2c op p.1 p.2) :
    ∃ allowed, allowedOfPairs ((pairsOf l r).map fun p => pairCompat .v2c op p.1 p.2) = some allowed ∧
      outOfR (compatLoop .v2c op l r) ∈ allowed := by
  have hm : compatLoop .v2c op l r = anyPairs (pairGeneral .v2c op) (product l r) := by
    simp [compatLoop, compatLoopWith, ho]
  have hs : ((pairsOf l r).map fun p => pairCompat .v2c op p.1 p.2) =
      (product l r).map fun p => pairGeneral .v2c op p.1 p.2 := by
    apply List.map_congr_left
    intro ⟨a, b⟩ hq
    obtain ⟨⟨c1, c2, c3, c4⟩, hc⟩ := hp (a, b) hq
    simp only
    rw [pairCompat_eq_pairSpec .v2c op a b c1 c2 c3 c4 hc.2.1, pairGeneral_conforms_clean .v2c op a b hc]
  rw [hm, hs]
  exact anyPairs_in_allowed (pairGeneral .v2c op) _ (fun p hq => (hp p hq).2.2.2.2.1)

/-! ### rule 1: a single boolean operand -/

theorem ebvAtom_spec (a : Atom) : outOfR (ebvAtom a) = ebv [.atom a] := by
  cases a with
  | dbl d =>
    cases d <;> simp [ebvAtom, CmpSpec.ebv, outOfR, D.isNaN, D.isZero, D.rank, D.val, Out.ofBool]
    rename_i q; by_cases h : q = 0 <;> simp [h]
  | flt d =>
    cases d <;> simp [ebvAtom, CmpSpec.ebv, outOfR, D.isNaN, D.isZero, D.rank, D.val, Out.ofBool]
    rename_i q; by_cases h : q = 0 <;> simp [h]
  | int v => simp only [ebvAtom, CmpSpec.ebv, Out.ofBool]; by_cases h : v = 0 <;> simp [h, outOfR]
  | dec q => simp only [ebvAtom, CmpSpec.ebv, Out.ofBool]; by_cases h : q = 0 <;> simp [h, outOfR]
  | bool b => cases b <;> rfl
  | str s => cases s <;> rfl
  | ua s => cases s <;> rfl
  | uri s => cases s <;> rfl
  | _ => rfl

theorem pyOp_bool_bool (m : Mode) (op : Op) (x y : Bool) :
    liftPy (pyOp m op (.bool x) (.bool y)) =
      .ok (if op.isOrd then six numLt numEq op (.fin (if x then 1 else 0)) (.fin (if y then 1 else 0))
           else six (fun u v => !u && v) (· == ·) op x y) := by
  cases m <;> cases op <;> cases x <;> cases y <;> decide +kernel

/-! ### the theorem -/

def isSingleBoolItems : List Item → Bool | [.atom (.bool _)] => true | _ => false

theorem singleBool?_items (L : List Item) :
    (∃ x, L = [.atom (.bool x)] ∧ singleBool? (L.map (atomize .v2c)) = some x) ∨
    (isSingleBoolItems L = false ∧ singleBool? (L.map (atomize .v2c)) = none ∧
      singleBool (L.map (atomize .v2c)) = false) := by
  match L with
  | [] => exact Or.inr ⟨rfl, rfl, rfl⟩
  | [.node s] => exact Or.inr ⟨rfl, rfl, rfl⟩
  | [.atom a] => cases a <;> first | exact Or.inl ⟨_, rfl, rfl⟩ | exact Or.inr ⟨rfl, rfl, rfl⟩
  | x :: y :: rest =>
    refine Or.inr ⟨?_, ?_, ?_⟩
    · cases x with
      | node s => rfl
      | atom a => cases a <;> rfl
    · cases x with
      | node s => rfl
      | atom a => cases a <;> rfl
    · cases x with
      | node s => rfl
      | atom a => cases a <;> rfl

/-- rule 1 with the boolean on the left: `true() op $a` for a single atom `a` -/
theorem bool_rule_left (op : Op) (x : Bool) (a : Atom) :
    ∃ allowed, generalAllowed .v2c op [.atom (.bool x)] [.atom a] = some allowed ∧
      outOfR (generalCmp .v2c op [.atom (.bool x)] [.atom a]) ∈ allowed := by
  have hs := ebvAtom_spec a
  cases he : ebvAtom a with
  | error e =>
    have hm : generalCmp .v2c op [.atom (.bool x)] [.atom a] = .error e := by
      simp [generalCmp, generalCmpWith, Mode.compat, atomize, singleBool?, ebvList, he]
    simp only [he, outOfR] at hs
    simp only [hm, generalAllowed, ← hs]
    exact ⟨_, rfl, by simp [outOfR]⟩
  | ok y =>
    have hm : generalCmp .v2c op [.atom (.bool x)] [.atom a] = liftPy (pyOp .v2c op (.bool x) (.bool y)) := by
      simp [generalCmp, generalCmpWith, Mode.compat, atomize, singleBool?, ebvList, he]
    simp only [he] at hs
    cases y <;> simp [outOfR] at hs <;>
      simp only [hm, generalAllowed, ← hs, pyOp_bool_bool] <;>
      cases ho : op.isOrd <;>
      simp [outOfR, Out.ofBool, show (Out.f == Out.t) = false from by decide, show (Out.t == Out.t) = true from by decide] <;>
      (try split) <;> simp_all

/-- rule 1 with the boolean on the right: `$a op true()` for a single non-boolean atom `a` -/
theorem bool_rule_right (op : Op) (y : Bool) (a : Atom) (ha : isBoolA a = false) :
    ∃ allowed, generalAllowed .v2c op [.atom a] [.atom (.bool y)] = some allowed ∧
      outOfR (generalCmp .v2c op [.atom a] [.atom (.bool y)]) ∈ allowed := by
  have hs := ebvAtom_spec a
  cases he : ebvAtom a with
  | error e =>
    have hm : generalCmp .v2c op [.atom a] [.atom (.bool y)] = .error e := by
      cases a <;> simp [isBoolA] at ha <;>
        simp_all [generalCmp, generalCmpWith, Mode.compat, atomize, singleBool?, ebvList]
    simp only [he, outOfR] at hs
    refine ⟨[.err e], ?_, by simp [hm, outOfR]⟩
    cases a <;> simp [isBoolA] at ha <;> (simp only [generalAllowed]; rw [← hs])
  | ok x =>
    have hm : generalCmp .v2c op [.atom a] [.atom (.bool y)] = liftPy (pyOp .v2c op (.bool x) (.bool y)) := by
      cases a <;> simp [isBoolA] at ha <;>
        simp_all [generalCmp, generalCmpWith, Mode.compat, atomize, singleBool?, ebvList]
    simp only [he] at hs
    rw [hm, pyOp_bool_bool]
    cases x <;> simp [outOfR] at hs <;>
      (cases a <;> simp [isBoolA] at ha <;> simp only [generalAllowed, ← hs]) <;>
      cases ho : op.isOrd <;>
      simp [outOfR, Out.ofBool, show (Out.f == Out.t) = false from by decide, show (Out.t == Out.t) = true from by decide] <;>
      (try split) <;> simp_all

theorem atomizeS_eq (m : Mode) : atomizeS m = atomize m := by funext x; cases x <;> rfl

/-- XPath2Parser(compatibility_mode=True) vs XPath 2.0 §3.5.2 rules 1-4.  For any two operand
sequences and any operator: outside the F07-compat trigger, and with every pair of the product
`PairClean`, the code's result is one of the outcomes the specification permits. -/
theorem compat_v2c_conforms (op : Op) (L Rr : List Item)
    (ht : trigCompat .v2c op (L.map (atomize .v2c)) (Rr.map (atomize .v2c)) (L.any isNode) (Rr.any isNode) = false)
    (hclean : ∀ a ∈ L.map (atomize .v2c), ∀ b ∈ Rr.map (atomize .v2c), PairClean .v2c op a b) :
    ∃ allowed, generalAllowed .v2c op L Rr = some allowed ∧ outOfR (generalCmp .v2c op L Rr) ∈ allowed := by
  simp only [trigCompat, Mode.compat, Bool.true_and, Bool.or_eq_false_iff, Bool.and_eq_false_iff, Bool.not_eq_false'] at ht
  obtain ⟨⟨⟨hex', hA⟩, hB⟩, hC⟩ := ht
  rcases singleBool?_items L with ⟨x, rfl, hsl⟩ | ⟨hnl, hsl, hsl'⟩
  · -- rule 1, boolean on the left
    have hA' := hA.resolve_left (by simp [singleBool, atomize])
    obtain ⟨⟨⟨hne, hlen⟩, hnode⟩, -⟩ := hA'
    match Rr, hne, hlen, hnode with
    | [.atom a], _, _, _ => exact bool_rule_left op x a
    | [], h, _, _ => simp at h
    | [.node s], _, _, h => simp [isNode] at h
    | _ :: _ :: _, _, h, _ => simp at h
  · rcases singleBool?_items Rr with ⟨y, rfl, hsr⟩ | ⟨hnr, hsr, hsr'⟩
    · -- rule 1, boolean on the right
      have hB' := hB.resolve_left (by rw [hsl']; simp [singleBool, atomize])
      obtain ⟨⟨⟨hne, hlen⟩, hnode⟩, -⟩ := hB'
      match L, hnl, hsl, hne, hlen, hnode with
      | [.atom a], hnl, hsl, _, _, _ =>
        exact bool_rule_right op y a (by cases a <;> simp_all [isSingleBoolItems, isBoolA])
      | [], _, _, h, _, _ => simp at h
      | [.node s], _, _, _, _, h => simp [isNode] at h
      | _ :: _ :: _, _, _, _, h, _ => simp at h
    · -- rules 2-4
      have hC' := hC.resolve_left (by simp [hsl', hsr'])
      have hga : generalAllowed .v2c op L Rr =
          rules24 .v2c op (L.map (atomize .v2c)) (Rr.map (atomize .v2c)) := by
        match L, hnl, Rr, hnr with
        | [], _, [], _ => simp [generalAllowed, atomizeS_eq]
        | [], _, [.node _], _ => simp [generalAllowed, atomizeS_eq]
        | [], _, [.atom b], h => cases b <;> simp [isSingleBoolItems] at h <;> simp [generalAllowed, atomizeS_eq]
        | [], _, _ :: _ :: _, _ => simp [generalAllowed, atomizeS_eq]
        | [.node _], _, [], _ => simp [generalAllowed, atomizeS_eq]
        | [.node _], _, [.node _], _ => simp [generalAllowed, atomizeS_eq]
        | [.node _], _, [.atom b], h => cases b <;> simp [isSingleBoolItems] at h <;> simp [generalAllowed, atomizeS_eq]
        | [.node _], _, _ :: _ :: _, _ => simp [generalAllowed, atomizeS_eq]
        | [.atom a], h, [], _ => cases a <;> simp [isSingleBoolItems] at h <;> simp [generalAllowed, atomizeS_eq]
        | [.atom a], h, [.node _], _ => cases a <;> simp [isSingleBoolItems] at h <;> simp [generalAllowed, atomizeS_eq]
        | [.atom a], h, [.atom b], h' =>
          cases a <;> simp [isSingleBoolItems] at h <;> cases b <;> simp [isSingleBoolItems] at h' <;>
            simp [generalAllowed, atomizeS_eq]
        | [.atom a], h, _ :: _ :: _, _ => cases a <;> simp [isSingleBoolItems] at h <;> simp [generalAllowed, atomizeS_eq]
        | _ :: _ :: _, _, [], _ => simp [generalAllowed, atomizeS_eq]
        | _ :: _ :: _, _, [.node _], _ => simp [generalAllowed, atomizeS_eq]
        | _ :: _ :: _, _, [.atom b], h => cases b <;> simp [isSingleBoolItems] at h <;> simp [generalAllowed, atomizeS_eq]
        | _ :: _ :: _, _, _ :: _ :: _, _ => simp [generalAllowed, atomizeS_eq]
      have hgm : generalCmp .v2c op L Rr =
          if (L.map (atomize .v2c)).isEmpty || (Rr.map (atomize .v2c)).isEmpty then .ok false
          else compatLoop .v2c op (L.map (atomize .v2c)) (Rr.map (atomize .v2c)) := by
        simp only [generalCmp, generalCmpWith, Mode.compat, if_true, hsl, hsr]
        by_cases h1 : (L.map (atomize .v2c)).isEmpty = true
        · simp [h1]
        · by_cases h2 : (Rr.map (atomize .v2c)).isEmpty = true
          · simp [h1, h2]
          · simp [h1, h2, compatLoop]
      -- the pair list is empty when an operand is: both sides say false
      have hcore : ∃ allowed, generalAllowed .v2c op L Rr = some allowed ∧
          outOfR (compatLoop .v2c op (L.map (atomize .v2c)) (Rr.map (atomize .v2c))) ∈ allowed := by
        rw [hga]
        unfold rules24
        cases ho : op.isOrd with
        | true =>
          simp only [ho, if_true] at hC' ⊢
          have hf : ∀ a ∈ L.map (atomize .v2c) ++ Rr.map (atomize .v2c), floatFails a = false := by
            intro a ha
            have := List.any_eq_false.mp hC' a ha
            simpa using this
          exact compat_ord_v2c op _ _ ho (fun a ha => hf a (by simp [ha])) (fun a ha => hf a (by simp [ha]))
        | false =>
          simp only [ho, Bool.false_eq_true, if_false] at hC' ⊢
          refine compat_eq_v2c op _ _ ho ?_
          intro ⟨a, b⟩ hp
          obtain ⟨ha, hb⟩ := mem_product.mp hp
          have hx : ∀ c ∈ L.map (atomize .v2c) ++ Rr.map (atomize .v2c), inexactDouble c = false := by
            intro c hc; have := List.any_eq_false.mp hex' c hc; simpa using this
          have := List.any_eq_false.mp hC' (a, b) hp
          refine ⟨⟨?_, hx a (by simp [ha]), hx b (by simp [hb]), ?_⟩, hclean a ha b hb⟩
          · cases h1 : isNumeric a <;> cases h2 : isNumeric b <;> simp_all
          · intro hn
            cases h2 : isNumeric b <;> cases h3 : isStr a <;> cases h4 : isStr b <;> simp_all
      obtain ⟨allowed, h1, h2⟩ := hcore
      refine ⟨allowed, h1, ?_⟩
      rw [hgm]
      by_cases he : ((L.map (atomize .v2c)).isEmpty || (Rr.map (atomize .v2c)).isEmpty) = true
      · simp only [he, if_true]
        have hnil : pairsOf (L.map (atomize .v2c)) (Rr.map (atomize .v2c)) = [] := by
          simp only [Bool.or_eq_true, List.isEmpty_iff] at he
          rcases he with he | he <;> simp [he, pairsOf]
        rw [hga] at h1
        cases ho : op.isOrd <;>
          simp [rules24, ho, hnil, allowedOfPairs, isUnsupportedR, isTrueR, isFalseR, errOutR] at h1 <;>
          (subst h1; simp [outOfR])
      · simp only [he, Bool.false_eq_true, if_false]
        exact h2

end EPV.Cmp

/-
C11 — the constructor `AbstractDateTime.__init__` against the specification's lexical mapping
(`Timeline.ofFields`): calendar validity in the proleptic Gregorian year and the `24:00:00` form.
-/
import EPV.Lemmas.CalendarOps
set_option linter.unusedVariables false
set_option linter.unusedSimpArgs false
namespace EPV.Cal
open EPV.Timeline (isLeap yearLen monthLen daysBeforeYearC daysBeforeMonthC dayNumC Val)

theorem civil_unique (n a m d : Int) (hm : 1 ≤ m ∧ m ≤ 12) (hd : 1 ≤ d ∧ d ≤ monthLen a m)
    (h : dayNumC a m d = n) : Timeline.civil n = (a, m, d) := by
  have c := Timeline.civil_spec n
  have := Timeline.dayNumC_inj ⟨c.1, c.2.1⟩ ⟨c.2.2.1, c.2.2.2.1⟩ hm hd (by rw [c.2.2.2.2, h])
  obtain ⟨e1, e2, e3⟩ := this
  generalize Timeline.civil n = p at *
  obtain ⟨x, y, z⟩ := p
  simp only at e1 e2 e3
  subst e1 e2 e3; rfl

/-- a date that is not the 31st of December has its successor in the same year -/
theorem not_last_day (a m d : Int) (hm : 1 ≤ m ∧ m ≤ 12) (hd : 1 ≤ d ∧ d ≤ monthLen a m)
    (hn : ¬ (m = 12 ∧ d = 31)) : dayNumC a m d + 1 < daysBeforeYearC (a + 1) := by
  have s1 := Timeline.daysBeforeYearC_succ a
  have h13 := Timeline.daysBeforeMonthC_13 a
  have ml12 : monthLen a 12 = 31 := by simp [monthLen]
  unfold dayNumC
  by_cases h12 : m = 12
  · subst h12; omega
  · have := Timeline.daysBeforeMonthC_lt a m 12 hm.1 (by omega) (by omega)
    omega

theorem ofLocal_day (n : Int) (a m d : Int) (tz : Option Int) (hm : 1 ≤ m ∧ m ≤ 12) (hd : 1 ≤ d ∧ d ≤ monthLen a m)
    (h : dayNumC a m d = n) : Timeline.ofLocal (n * Timeline.US) tz = ⟨a, m, d, 0, tz⟩ := by
  unfold Timeline.ofLocal
  have e1 : n * Timeline.US / Timeline.US = n := by simp only [Timeline.US]; omega
  have e2 : n * Timeline.US % Timeline.US = 0 := by simp only [Timeline.US]; omega
  rw [e1, e2, civil_unique n a m d hm hd h]

theorem astro_succ (year : Int) (hy : year ≠ 0) :
    astro (if year == -1 then 1 else year + 1) = astro year + 1 ∧ (if year == -1 then (1 : Int) else year + 1) ≠ 0 := by
  unfold astro
  by_cases h : year = -1
  · subst h; decide
  · have : (year == -1) = false := by simpa using h
    rw [this]; simp only [Bool.false_eq_true, ↓reduceIte]
    constructor
    · split <;> split <;> omega
    · omega

/-- **the constructor builds the value of the lexical fields**: for a non-zero year (|year| < 2^31), a
real calendar date of that year and either a time of day or the form `24:00:00`, the result denotes
`Timeline.ofFields` — `24:00:00` is the first instant of the next day, also on the 31st of December
of BCE years and of years ≥ 9999 (former F11f), with the leap years of the proleptic Gregorian
calendar in both eras (former F11c/F11e). -/
theorem mk_spec (year m d h mi s us : Int) (tz : Option Int) (hy : year ≠ 0) (hyb : year.natAbs ≤ 2 ^ 31)
    (hnext : (m = 12 ∧ d = 31 ∧ h = 24) → (year + 1).natAbs ≤ 2 ^ 31)
    (hm : 1 ≤ m ∧ m ≤ 12) (hd : 1 ≤ d ∧ d ≤ monthLen (astro year) m)
    (ht : (0 ≤ h ∧ h ≤ 23 ∧ 0 ≤ mi ∧ mi ≤ 59 ∧ 0 ≤ s ∧ s ≤ 59 ∧ 0 ≤ us ∧ us ≤ 999999) ∨
          (h = 24 ∧ mi = 0 ∧ s = 0 ∧ us = 0)) :
    ∃ w, mk year m d h mi s us tz = .ok w ∧ w.year ≠ 0 ∧
      absV w = Timeline.ofFields (astro year) m d h mi s us tz := by
  have hmd : 1 ≤ d ∧ d ≤ monthDays (proxyLeap year) m := by
    rw [proxyLeap_eq year hy, monthDays_eq _ _ hm.1 hm.2]; exact hd
  rcases ht with ⟨h0, h23, hmi0, hmi1, hs0, hs1, hu0, hu1⟩ | ⟨rfl, rfl, rfl, rfl⟩
  · refine ⟨_, mk_ok year m d h mi s us tz hy (by omega) hm hmd ⟨h0, h23⟩ ⟨hmi0, hmi1⟩ ⟨hs0, hs1⟩ ⟨hu0, hu1⟩, hy, ?_⟩
    unfold Timeline.ofFields
    rw [if_neg (by omega)]; rfl
  · -- 24:00:00
    unfold mk Timeline.ofFields
    simp only [BEq.rfl, Bool.and_self, Bool.true_and, ↓reduceIte]
    have hspec : dayNumC (astro year) m d * Timeline.US + Timeline.US = (dayNumC (astro year) m d + 1) * Timeline.US := by
      simp only [Timeline.US]; omega
    rw [hspec]
    by_cases hroll : (m == 12 && d == 31 && !(decide (0 ≤ year) && decide (year < 9999))) = true
    · rw [if_pos hroll]
      simp only [Bool.and_eq_true, beq_iff_eq, Bool.not_eq_true', Bool.and_eq_false_imp, decide_eq_true_eq, decide_eq_false_iff_not] at hroll
      obtain ⟨⟨rfl, rfl⟩, hyr⟩ := hroll
      have hs := astro_succ year hy
      have hbound : (if year == -1 then (1 : Int) else year + 1).natAbs ≤ 2 ^ 31 := by
        by_cases h1 : year = -1
        · subst h1; decide
        · have : (year == -1) = false := by simpa using h1
          rw [this]; simp only [Bool.false_eq_true, ↓reduceIte]; exact hnext ⟨rfl, rfl, rfl⟩
      have hjan : 1 ≤ (1 : Int) ∧ (1 : Int) ≤ monthDays (proxyLeap (if year == -1 then 1 else year + 1)) 1 := by
        simp [monthDays]
      have := mkCore_ok (if year == -1 then 1 else year + 1) 1 1 0 0 0 0 tz hs.2 hbound (by omega) hjan
        (by omega) (by omega) (by omega) (by omega)
      refine ⟨_, this, hs.2, ?_⟩
      have hday : dayNumC (astro year + 1) 1 1 = dayNumC (astro year) 12 31 + 1 := by
        have s1 := Timeline.daysBeforeYearC_succ (astro year)
        have h13 := Timeline.daysBeforeMonthC_13 (astro year)
        have ml12 : monthLen (astro year) 12 = 31 := by simp [monthLen]
        have d1 : daysBeforeMonthC (astro year + 1) 1 = 0 := by simp [daysBeforeMonthC]
        unfold dayNumC; omega
      rw [ofLocal_day _ (astro year + 1) 1 1 tz (by omega) (by simp [monthLen]) hday]
      simp only [absV, hs.1, timeUs]; rfl
    · have hroll' : (m == 12 && d == 31 && !(decide (0 ≤ year) && decide (year < 9999))) = false := by simpa using hroll
      rw [hroll']
      simp only [Bool.false_eq_true, ↓reduceIte]
      have hnot : ¬ (m = 12 ∧ d = 31) ∨ (0 ≤ year ∧ year < 9999) := by
        simp only [Bool.and_eq_false_imp, Bool.and_eq_true, beq_iff_eq, Bool.not_eq_false', decide_eq_true_eq, and_imp] at hroll'
        by_cases hmd2 : m = 12 ∧ d = 31
        · exact Or.inr (hroll' hmd2.1 hmd2.2)
        · exact Or.inl hmd2
      have ht0 : timeUs 0 0 0 0 = 0 := by decide
      unfold mkCore
      rw [ht0]
      have hfields : ∀ lp, lp = proxyLeap year → pyFieldsOk lp m d 0 0 0 0 = true := by
        intro lp hlp; subst hlp; unfold pyFieldsOk; simp; omega
      by_cases hr : 1 ≤ year ∧ year ≤ 9999
      · rw [if_pos hr]
        have hleq : isleap year = proxyLeap year := by unfold proxyLeap; rw [if_neg (by omega)]
        rw [hfields _ hleq]
        simp only [Bool.not_true, Bool.false_eq_true, ↓reduceIte]
        have ha : astro year = year := by unfold astro; rw [if_pos (by omega)]
        rw [ha] at hd ⊢
        have hx : pyOrdUs year m d 0 + US = (dayNumC year m d + 2) * US := by
          unfold pyOrdUs; rw [pyYmd2ord_eq]; simp only [US]; omega
        have b := dayNumC_bounds year m d hm hd
        have hlo := Timeline.daysBeforeYearC_mono (show (1 : Int) ≤ year by omega)
        have e1 : daysBeforeYearC 1 = 0 := by decide
        have e9 : daysBeforeYearC 9999 = 3651694 := by decide
        have e10 : daysBeforeYearC 10000 = 3652059 := by decide
        have hup : dayNumC year m d + 2 ≤ MAXORD := by
          unfold MAXORD
          rcases hnot with hn | hn
          · have := not_last_day year m d hm hd hn
            have := Timeline.daysBeforeYearC_mono (show year + 1 ≤ 10000 by omega)
            omega
          · have := Timeline.daysBeforeYearC_mono (show year + 1 ≤ 9999 by omega)
            omega
        have hq : (pyOrdUs year m d 0 + US) / US = dayNumC year m d + 2 ∧ (pyOrdUs year m d 0 + US) % US = 0 := by
          rw [hx]; simp only [US]; omega
        obtain ⟨y2, m2, d2, hok, hm1, hm12, hd1, hd2, hday⟩ := pyOfOrdUs_ok (pyOrdUs year m d 0 + US) (by rw [hq.1]; omega)
        rw [hok, hq.2]
        simp only []
        rw [hq.1] at hday
        have b2 := dayNumC_bounds y2 m2 d2 ⟨hm1, hm12⟩ ⟨hd1, hd2⟩
        have hy2 : 1 ≤ y2 := by
          by_cases h0 : y2 ≤ 0
          · have := Timeline.daysBeforeYearC_mono (show y2 + 1 ≤ 1 by omega); omega
          · omega
        have ha2 : astro y2 = y2 := by unfold astro; rw [if_pos (by omega)]
        refine ⟨_, rfl, by show y2 ≠ 0; omega, ?_⟩
        rw [ofLocal_day _ y2 m2 d2 tz ⟨hm1, hm12⟩ ⟨hd1, hd2⟩ (by omega)]
        simp only [absV, ha2]
      · rw [if_neg hr, if_neg hy, if_neg (by omega)]
        simp only []
        rw [hfields _ rfl]
        simp only [Bool.not_true, Bool.false_eq_true, ↓reduceIte]
        have hn : ¬ (m = 12 ∧ d = 31) := by
          rcases hnot with hn | hn
          · exact hn
          · omega
        have p46 := proxy46 (proxyLeap year)
        have hleap : isLeap (if proxyLeap year then 4 else 6) = isLeap (astro year) := by
          rw [p46.1, proxyLeap_eq year hy]
        generalize (if proxyLeap year then (4 : Int) else 6) = P at *
        have hml : ∀ k, monthLen P k = monthLen (astro year) k := by intro k; unfold monthLen; rw [hleap]
        have hdbm : ∀ k, daysBeforeMonthC P k = daysBeforeMonthC (astro year) k := by
          intro k; unfold daysBeforeMonthC; rw [hleap]
        have hdP : 1 ≤ d ∧ d ≤ monthLen P m := by rw [hml]; exact hd
        have hx : pyOrdUs P m d 0 + US = (dayNumC P m d + 2) * US := by
          unfold pyOrdUs; rw [pyYmd2ord_eq]; simp only [US]; omega
        have b := dayNumC_bounds P m d hm hdP
        have nl := not_last_day P m d hm hdP hn
        have hlo := Timeline.daysBeforeYearC_mono (show (1 : Int) ≤ P by omega)
        have hhi := Timeline.daysBeforeYearC_mono (show P + 1 ≤ 9999 by omega)
        have e1 : daysBeforeYearC 1 = 0 := by decide
        have e9 : daysBeforeYearC 9999 = 3651694 := by decide
        have hq : (pyOrdUs P m d 0 + US) / US = dayNumC P m d + 2 ∧ (pyOrdUs P m d 0 + US) % US = 0 := by
          rw [hx]; simp only [US]; omega
        obtain ⟨y2, m2, d2, hok, hm1, hm12, hd1, hd2, hday⟩ :=
          pyOfOrdUs_ok (pyOrdUs P m d 0 + US) (by rw [hq.1]; unfold MAXORD; omega)
        rw [hok, hq.2]
        simp only []
        rw [hq.1] at hday
        have hy2 : y2 = P := year_unique P y2 m2 d2 ⟨hm1, hm12⟩ ⟨hd1, hd2⟩ (by omega) (by omega)
        subst hy2
        refine ⟨_, rfl, hy, ?_⟩
        rw [ofLocal_day _ (astro year) m2 d2 tz ⟨hm1, hm12⟩ (by rw [← hml]; exact ⟨hd1, hd2⟩)
          (by unfold dayNumC at hday ⊢; rw [← hdbm, ← hdbm]; omega)]
        simp only [absV]
/-- a date that does not exist in the (proleptic Gregorian) year is rejected with `ValueError` -/
theorem mk_invalid_date (year m d h mi s us : Int) (tz : Option Int) (hy : year ≠ 0) (hyb : year.natAbs ≤ 2 ^ 31)
    (hh : 0 ≤ h ∧ h ≤ 23) (hbad : ¬ (1 ≤ m ∧ m ≤ 12 ∧ 1 ≤ d ∧ d ≤ monthLen (astro year) m)) :
    mk year m d h mi s us tz = .error .value := by
  have h24 : (h == 24) = false := by simp; omega
  have hfields : pyFieldsOk (proxyLeap year) m d h mi s us = false := by
    unfold pyFieldsOk
    rw [decide_eq_false_iff_not]
    intro hc
    apply hbad
    refine ⟨hc.1, hc.2.1, hc.2.2.1, ?_⟩
    rw [← monthDays_eq _ _ hc.1 hc.2.1, ← proxyLeap_eq year hy]; exact hc.2.2.2.1
  unfold mk
  simp only [h24, Bool.false_and, Bool.false_eq_true, ↓reduceIte]
  unfold mkCore
  split
  · rename_i hr
    have : isleap year = proxyLeap year := by unfold proxyLeap; rw [if_neg (by omega)]
    rw [this, hfields]; rfl
  · rw [if_neg (by omega)]
    simp only []
    rw [hfields]; rfl

/-- what a successful `mkCore` says about its arguments -/
theorem mkCore_ok_inv (y m d h mi s us : Int) (ad : Bool) (tz : Option Int) (w : DT)
    (hw : mkCore y m d h mi s us ad tz = .ok w) :
    y ≠ 0 ∧ y.natAbs ≤ 2 ^ 31 ∧ pyFieldsOk (proxyLeap y) m d h mi s us = true := by
  unfold mkCore at hw
  by_cases hr : 1 ≤ y ∧ y ≤ 9999
  · rw [if_pos hr] at hw
    have hl : isleap y = proxyLeap y := by unfold proxyLeap; rw [if_neg (by omega)]
    rw [hl] at hw
    by_cases hf : pyFieldsOk (proxyLeap y) m d h mi s us = true
    · exact ⟨by omega, by omega, hf⟩
    · have : pyFieldsOk (proxyLeap y) m d h mi s us = false := by simpa using hf
      rw [this] at hw; simp at hw
  · rw [if_neg hr] at hw
    by_cases h0 : y = 0
    · rw [if_pos h0] at hw; cases hw
    · rw [if_neg h0] at hw
      by_cases hb : y.natAbs > 2 ^ 31
      · rw [if_pos hb] at hw; cases hw
      · rw [if_neg hb] at hw
        simp only [] at hw
        by_cases hf : pyFieldsOk (proxyLeap y) m d h mi s us = true
        · exact ⟨h0, by omega, hf⟩
        · have : pyFieldsOk (proxyLeap y) m d h mi s us = false := by simpa using hf
          rw [this] at hw; simp at hw

theorem pyFieldsOk_inv (lp : Bool) (m d h mi s us : Int) (hf : pyFieldsOk lp m d h mi s us = true) :
    1 ≤ m ∧ m ≤ 12 ∧ 1 ≤ d ∧ d ≤ monthDays lp m ∧ 0 ≤ h ∧ h ≤ 23 ∧ 0 ≤ mi ∧ mi ≤ 59 ∧ 0 ≤ s ∧ s ≤ 59 ∧ 0 ≤ us ∧ us ≤ 999999 := by
  unfold pyFieldsOk at hf; simpa using hf

theorem ofLocal_valid (t : Int) (tz : Option Int) : (Timeline.ofLocal t tz).Valid ∧ (Timeline.ofLocal t tz).tz = tz := by
  unfold Timeline.ofLocal
  have c := Timeline.civil_spec (t / Timeline.US)
  generalize Timeline.civil (t / Timeline.US) = p at c
  obtain ⟨a, m, d⟩ := p
  simp only at c ⊢
  refine ⟨⟨c.1, c.2.1, c.2.2.1, c.2.2.2.1, ?_, ?_⟩, trivial⟩ <;> simp only [Timeline.US] <;> omega

theorem ofFields_valid (a m d h mi s us : Int) (tz : Option Int) (hm : 1 ≤ m ∧ m ≤ 12) (hd : 1 ≤ d ∧ d ≤ monthLen a m)
    (ht : (0 ≤ h ∧ h ≤ 23 ∧ 0 ≤ mi ∧ mi ≤ 59 ∧ 0 ≤ s ∧ s ≤ 59 ∧ 0 ≤ us ∧ us ≤ 999999) ∨ (h = 24 ∧ mi = 0 ∧ s = 0 ∧ us = 0)) :
    (Timeline.ofFields a m d h mi s us tz).Valid ∧ (Timeline.ofFields a m d h mi s us tz).tz = tz := by
  unfold Timeline.ofFields
  split
  · exact ofLocal_valid _ tz
  · rename_i h24
    rcases ht with ⟨h0, h23, a1, a2, b1, b2, c1, c2⟩ | ⟨h24', _⟩
    · refine ⟨⟨hm.1, hm.2, hd.1, hd.2, ?_, ?_⟩, rfl⟩ <;> simp only [Timeline.US] <;> omega
    · exact absurd h24' h24

theorem pyOfOrdUs_year (t y m d us : Int) (h : pyOfOrdUs t = .ok (y, m, d, us)) : 1 ≤ y ∧ y ≤ 9999 := by
  by_cases hr : 1 ≤ t / US ∧ t / US ≤ MAXORD
  · obtain ⟨y', m', d', hok, hm1, hm12, hd1, hd2, hday⟩ := pyOfOrdUs_ok t hr
    rw [hok] at h
    simp only [Except.ok.injEq, Prod.mk.injEq] at h
    obtain ⟨rfl, rfl, rfl, _⟩ := h
    have b := dayNumC_bounds y' m' d' ⟨hm1, hm12⟩ ⟨hd1, hd2⟩
    constructor
    · by_cases hy0 : y' ≤ 0
      · have := Timeline.daysBeforeYearC_mono (show y' + 1 ≤ 1 by omega)
        have e1 : daysBeforeYearC 1 = 0 := by decide
        omega
      · omega
    · by_cases hy1 : y' ≥ 10000
      · have := Timeline.daysBeforeYearC_mono (show 10000 ≤ y' by omega)
        have e1 : daysBeforeYearC 10000 = 3652059 := by decide
        unfold MAXORD at hr; omega
      · omega
  · rw [pyOfOrdUs_err t hr] at h; cases h

theorem mkCore_year_bound (y m d h mi s us : Int) (ad : Bool) (tz : Option Int) (w : DT)
    (hw : mkCore y m d h mi s us ad tz = .ok w) : w.year.natAbs ≤ 2 ^ 31 := by
  have inv := mkCore_ok_inv y m d h mi s us ad tz w hw
  unfold mkCore at hw
  by_cases hr : 1 ≤ y ∧ y ≤ 9999
  · rw [if_pos hr] at hw
    have hl : isleap y = proxyLeap y := by unfold proxyLeap; rw [if_neg (by omega)]
    rw [hl, inv.2.2] at hw
    simp only [Bool.not_true, Bool.false_eq_true, ↓reduceIte] at hw
    cases ad with
    | false => simp only [Bool.false_eq_true, ↓reduceIte, Except.ok.injEq] at hw; subst hw; simp only; omega
    | true =>
      simp only [↓reduceIte] at hw
      generalize hp : pyOfOrdUs _ = r at hw
      cases r with
      | error e => cases hw
      | ok q =>
        obtain ⟨y2, m2, d2, u2⟩ := q
        simp only [Except.ok.injEq] at hw
        subst hw
        have := pyOfOrdUs_year _ _ _ _ _ hp
        simp only; omega
  · rw [if_neg hr, if_neg inv.1, if_neg (by omega)] at hw
    simp only [] at hw
    rw [inv.2.2] at hw
    simp only [Bool.not_true, Bool.false_eq_true, ↓reduceIte] at hw
    cases ad with
    | false => simp only [Bool.false_eq_true, ↓reduceIte, Except.ok.injEq] at hw; subst hw; exact inv.2.1
    | true =>
      simp only [↓reduceIte] at hw
      generalize hp : pyOfOrdUs _ = r at hw
      cases r with
      | error e => cases hw
      | ok q =>
        obtain ⟨y2, m2, d2, u2⟩ := q
        simp only [Except.ok.injEq] at hw
        subst hw
        exact inv.2.1

/-- **every value the constructor returns is well formed**: a successful `AbstractDateTime.__init__` (any year, month,
day, time of day incl. `24:00:00`, timezone within ±14:00) yields a value with a non-zero year of at most 2^31 in
magnitude, a real calendar date of that (proleptic Gregorian) year and a time inside the day. -/
theorem mk_valid (y m d h mi s us : Int) (tz : Option Int) (w : DT) (htz : TzOk tz)
    (hw : mk y m d h mi s us tz = .ok w) : w.Valid ∧ w.year.natAbs ≤ 2 ^ 31 := by
  unfold mk at hw
  simp only [] at hw
  by_cases hroll : ((h == 24 && mi == 0 && s == 0 && us == 0) && m == 12 && d == 31 &&
      !(decide (0 ≤ y) && decide (y < 9999))) = true
  · -- 24:00:00 on a 31st of December outside 0..9998: the 1st of January of the next year
    rw [if_pos hroll] at hw
    have hb := mkCore_year_bound _ _ _ _ _ _ _ _ _ _ hw
    have inv := mkCore_ok_inv _ _ _ _ _ _ _ _ _ _ hw
    have hf := pyFieldsOk_inv _ _ _ _ _ _ _ inv.2.2
    have hjan : (1 : Int) ≤ 1 ∧ (1 : Int) ≤ monthDays (proxyLeap (if y == -1 then 1 else y + 1)) 1 := by simp [monthDays]
    rw [mkCore_ok _ 1 1 _ _ _ _ tz inv.1 inv.2.1 (by omega) hjan ⟨hf.2.2.2.2.1, hf.2.2.2.2.2.1⟩
      ⟨hf.2.2.2.2.2.2.1, hf.2.2.2.2.2.2.2.1⟩ ⟨hf.2.2.2.2.2.2.2.2.1, hf.2.2.2.2.2.2.2.2.2.1⟩
      ⟨hf.2.2.2.2.2.2.2.2.2.2.1, hf.2.2.2.2.2.2.2.2.2.2.2⟩] at hw
    simp only [Except.ok.injEq] at hw
    subst hw
    refine ⟨⟨inv.1, ⟨by simp [absV], by simp [absV], by simp [absV], by simp [absV, monthLen], ?_, ?_⟩, htz⟩, by simpa using hb⟩
    · simp only [absV, timeUs]; omega
    · simp only [absV, timeUs, Timeline.US]; omega
  · have hroll' : ((h == 24 && mi == 0 && s == 0 && us == 0) && m == 12 && d == 31 &&
        !(decide (0 ≤ y) && decide (y < 9999))) = false := by simpa using hroll
    rw [hroll'] at hw
    simp only [Bool.false_eq_true, ↓reduceIte] at hw
    have hb := mkCore_year_bound _ _ _ _ _ _ _ _ _ _ hw
    have inv := mkCore_ok_inv _ _ _ _ _ _ _ _ _ _ hw
    have hf := pyFieldsOk_inv _ _ _ _ _ _ _ inv.2.2
    have hmd : 1 ≤ d ∧ d ≤ monthLen (astro y) m := by
      have := hf.2.2.2.1
      rw [proxyLeap_eq y inv.1, monthDays_eq _ _ hf.1 hf.2.1] at this
      exact ⟨hf.2.2.1, this⟩
    by_cases h24 : (h == 24 && mi == 0 && s == 0 && us == 0) = true
    · simp only [Bool.and_eq_true, beq_iff_eq] at h24
      obtain ⟨⟨⟨rfl, rfl⟩, rfl⟩, rfl⟩ := h24
      have hnext : (m = 12 ∧ d = 31 ∧ (24 : Int) = 24) → (y + 1).natAbs ≤ 2 ^ 31 := by
        intro ⟨hm12, hd31, _⟩
        subst hm12 hd31
        simp at hroll'
        omega
      obtain ⟨w', h1, h2, h3⟩ := mk_spec y m d 24 0 0 0 tz inv.1 inv.2.1 hnext ⟨hf.1, hf.2.1⟩ hmd (Or.inr ⟨rfl, rfl, rfl, rfl⟩)
      have hmk : mk y m d 24 0 0 0 tz = .ok w := by
        unfold mk; simp only []; rw [hroll']; simp only [Bool.false_eq_true, ↓reduceIte]; exact hw
      rw [hmk] at h1; cases h1
      have hv := ofFields_valid (astro y) m d 24 0 0 0 tz ⟨hf.1, hf.2.1⟩ hmd (Or.inr ⟨rfl, rfl, rfl, rfl⟩)
      rw [← h3] at hv
      exact ⟨⟨h2, hv.1, by have : w.tz = tz := hv.2; rw [this]; exact htz⟩, hb⟩
    · have h24' : (h == 24 && mi == 0 && s == 0 && us == 0) = false := by simpa using h24
      rw [h24'] at hw hf inv
      simp only [Bool.false_eq_true, ↓reduceIte] at hw hf inv
      have ht : 0 ≤ h ∧ h ≤ 23 ∧ 0 ≤ mi ∧ mi ≤ 59 ∧ 0 ≤ s ∧ s ≤ 59 ∧ 0 ≤ us ∧ us ≤ 999999 := hf.2.2.2.2
      obtain ⟨w', h1, h2, h3⟩ := mk_spec y m d h mi s us tz inv.1 inv.2.1 (fun hc => by omega) ⟨hf.1, hf.2.1⟩ hmd (Or.inl ht)
      have hmk : mk y m d h mi s us tz = .ok w := by
        unfold mk; simp only []; rw [hroll', h24']; simp only [Bool.false_eq_true, ↓reduceIte]; exact hw
      rw [hmk] at h1; cases h1
      have hv := ofFields_valid (astro y) m d h mi s us tz ⟨hf.1, hf.2.1⟩ hmd (Or.inl ht)
      rw [← h3] at hv
      exact ⟨⟨h2, hv.1, by have : w.tz = tz := hv.2; rw [this]; exact htz⟩, hb⟩

end EPV.Cal

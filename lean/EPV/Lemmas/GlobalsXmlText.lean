/-
C19 — the prolog scanner (`XmlText.misc` / `scanProlog`) against the small prolog grammar of
EPV/Spec/GlobalsSpec.lean: it reports a DOCTYPE exactly when the text has one.
-/
import EPV.Spec.GlobalsSpec
namespace EPV.Globals.XmlText
open EPV.GlobalsSpec.PrologGrammar

theorem lit_comment : "<!--".toList = ['<', '!', '-', '-'] := by decide
theorem lit_pi : "<?".toList = ['<', '?'] := by decide
theorem lit_doctype : "<!DOCTYPE".toList = ['<', '!', 'D', 'O', 'C', 'T', 'Y', 'P', 'E'] := by decide
theorem lit_dd : "--".toList = ['-', '-'] := by decide
theorem lit_qg : "?>".toList = ['?', '>'] := by decide
theorem lit_xml : "xml".toList = ['x', 'm', 'l'] := by decide
theorem lit_xmldecl : "<?xml".toList = ['<', '?', 'x', 'm', 'l'] := by decide

theorem skipWs_ws_append (w x : List Char) (hw : w.all isWs = true) :
    skipWs (w ++ x) = skipWs x := by
  induction w with
  | nil => rfl
  | cons c t ih =>
    simp only [List.all_cons, Bool.and_eq_true] at hw
    have := ih hw.2
    simp only [skipWs] at this ⊢
    simp [List.dropWhile, hw.1, this]

theorem skipWs_lt (x : List Char) : skipWs ('<' :: x) = '<' :: x := by
  simp [skipWs, List.dropWhile, isWs]

/-- the first `--` of a well-formed comment body followed by `-->` is the closing one -/
theorem after_dd (b rest : List Char) (hb : noDD b = true) :
    after ['-', '-'] (b ++ '-' :: '-' :: '>' :: rest) = some ('>' :: rest) := by
  induction b using noDD.induct with
  | case1 => simp [after, stripPrefix]
  | case2 => simp [noDD] at hb
  | case3 t => simp [noDD] at hb
  | case4 c t h1 h2 ih =>
    have hb' : noDD t = true := by
      unfold noDD at hb
      split at hb <;> simp_all
    have ih' := ih hb'
    simp only [List.cons_append, after]
    by_cases hc : c = '-'
    · subst hc
      -- then t does not start with '-' and is not empty
      cases t with
      | nil => simp [noDD] at hb
      | cons d t' =>
        have hd : d ≠ '-' := by
          intro hd; subst hd; exact h2 t' rfl rfl
        simp only [List.cons_append, stripPrefix, beq_self_eq_true, ↓reduceIte]
        have : ('-' == d) = false := by simp [Ne.symm hd]
        simp only [this, Bool.false_eq_true, ↓reduceIte]
        exact ih'
    · have : ('-' == c) = false := by simp [Ne.symm hc]
      simp only [stripPrefix, this, Bool.false_eq_true, ↓reduceIte]
      exact ih'

theorem afterComment_render (b rest : List Char) (hb : noDD b = true) :
    afterComment (b ++ '-' :: '-' :: '>' :: rest) = some rest := by
  simp [afterComment, lit_dd, after_dd b rest hb, stripPrefix]

/-- the first `?>` after text without `?>` is the one that follows it -/
theorem after_qg (x rest : List Char) (hx : noQG x = true) :
    after ['?', '>'] (x ++ '?' :: '>' :: rest) = some rest := by
  induction x using noQG.induct with
  | case1 => simp [after, stripPrefix]
  | case2 t => simp [noQG] at hx
  | case3 c t h ih =>
    have hx' : noQG t = true := by
      unfold noQG at hx
      split at hx <;> simp_all
    have ih' := ih hx'
    simp only [List.cons_append, after]
    by_cases hc : c = '?'
    · subst hc
      cases t with
      | nil => simp [stripPrefix, after]
      | cons d t' =>
        have hd : d ≠ '>' := by
          intro hd; subst hd; exact h t' rfl rfl
        have : ('>' == d) = false := by simp [Ne.symm hd]
        simp only [List.cons_append, stripPrefix, beq_self_eq_true, ↓reduceIte, this,
          Bool.false_eq_true]
        exact ih'
    · have : ('?' == c) = false := by simp [Ne.symm hc]
      simp only [stripPrefix, this, Bool.false_eq_true, ↓reduceIte]
      exact ih'

theorem splitAt_qg (x rest : List Char) (hx : noQG x = true) :
    splitAt ['?', '>'] (x ++ '?' :: '>' :: rest) = some (x, rest) := by
  induction x using noQG.induct with
  | case1 => simp [splitAt, stripPrefix]
  | case2 t => simp [noQG] at hx
  | case3 c t h ih =>
    have hx' : noQG t = true := by
      unfold noQG at hx
      split at hx <;> simp_all
    have ih' := ih hx'
    simp only [List.cons_append, splitAt]
    by_cases hc : c = '?'
    · subst hc
      cases t with
      | nil => simp [stripPrefix, splitAt]
      | cons d t' =>
        have hd : d ≠ '>' := by
          intro hd; subst hd; exact h t' rfl rfl
        have : ('>' == d) = false := by simp [Ne.symm hd]
        simp only [List.cons_append, stripPrefix, beq_self_eq_true, ↓reduceIte, this,
          Bool.false_eq_true]
        simp only [List.cons_append] at ih'
        simp [ih']
    · have : ('?' == c) = false := by simp [Ne.symm hc]
      simp only [stripPrefix, this, Bool.false_eq_true, ↓reduceIte]
      simp [ih']

theorem noQG_append_left (a b : List Char) (h : noQG (a ++ b) = true) : noQG b = true := by
  induction a using noQG.induct with
  | case1 => simpa using h
  | case2 t => simp [noQG] at h
  | case3 c t hne ih =>
    apply ih
    have : noQG (c :: (t ++ b)) = true := by simpa using h
    unfold noQG at this
    split at this
    · next heq => cases heq
    · next heq =>
      simp only [List.cons.injEq] at heq
      obtain ⟨rfl, h2⟩ := heq
      cases t with
      | nil => cases this
      | cons d t' =>
        simp only [List.cons_append, List.cons.injEq] at h2
        exact (hne t' rfl (by rw [h2.1])).elim
    · next heq =>
      simp only [List.cons.injEq] at heq
      rw [heq.2]; exact this

theorem span_loop {α : Type} (p : α → Bool) (l acc : List α) :
    List.span.loop p l acc = (acc.reverse ++ l.takeWhile p, l.dropWhile p) := by
  induction l generalizing acc with
  | nil => simp [List.span.loop]
  | cons a t ih =>
    cases h : p a <;> simp [List.span.loop, h, ih, List.takeWhile, List.dropWhile]

theorem span_eq {α : Type} (p : α → Bool) (l : List α) :
    l.span p = (l.takeWhile p, l.dropWhile p) := by
  simp [List.span, span_loop]

/-- a PI target followed by something that is not a name character is read back exactly -/
theorem takeName_target (t y : List Char) (ht : t.all isNameChar = true)
    (hy : match y with | [] => True | c :: _ => isNameChar c = false) :
    takeName (t ++ y) = (t, y) := by
  unfold takeName
  rw [span_eq]
  have ht' : ∀ a ∈ t, isNameChar a = true := by simpa using ht
  rw [List.takeWhile_append_of_pos ht', List.dropWhile_append_of_pos ht']
  cases y with
  | nil => simp
  | cons c r => simp [List.takeWhile, List.dropWhile, hy]

theorem isWs_not_name (c : Char) (h : isWs c = true) : isNameChar c = false := by
  simp only [isWs, Bool.or_eq_true, beq_iff_eq] at h
  rcases h with ((h | h) | h) | h <;> subst h <;> decide

/-- once a DOCTYPE has been recorded, `misc` keeps it -/
theorem misc_doctype_kept : ∀ (f : Nat) (s : List Char) (n : Nat) (d : Bool × List Decl) (c xd : Bool),
    (misc f s n (some d) c xd).doctype = some d
  | 0, _, _, _, _, _ => rfl
  | f + 1, s, n, d, c, xd => by
    unfold misc
    simp only
    split
    · split
      · exact misc_doctype_kept f _ _ d c xd
      · rfl
    · split
      · split
        · rfl
        · split
          · exact misc_doctype_kept f _ _ d c xd
          · rfl
      · split
        · simp
        · split <;> rfl

/-- the two admissible tails start with `<` -/
theorem tail_lt (tail : List Char) (ht : startsDoctype tail = true ∨ startsRoot tail = true) :
    ∃ r, tail = '<' :: r := by
  rcases ht with h | h
  · unfold startsDoctype at h
    rw [lit_doctype] at h
    cases tail with
    | nil => simp [stripPrefix] at h
    | cons a r =>
      by_cases ha : a = '<'
      · exact ⟨r, by rw [ha]⟩
      · have : ('<' == a) = false := by simp [Ne.symm ha]
        simp [stripPrefix, this] at h
  · unfold startsRoot at h
    split at h
    · exact ⟨_, rfl⟩
    · cases h

/-- `misc` on `Misc* S? tail`: a DOCTYPE is recorded iff the tail is a DOCTYPE declaration -/
theorem misc_finds_doctype : ∀ (items : List (List Char × MiscItem)) (pad tail : List Char)
    (fuel n : Nat) (c xd : Bool), items.length < fuel → miscWf items = true → pad.all isWs = true →
    (startsDoctype tail = true ∨ startsRoot tail = true) →
    (misc fuel (renderMisc items ++ pad ++ tail) n none c xd).doctype.isSome = startsDoctype tail
  | [], pad, tail, fuel, n, c, xd, hf, _, hp, ht => by
    obtain ⟨f, rfl⟩ : ∃ f, fuel = f + 1 := ⟨fuel - 1, by simp at hf; omega⟩
    obtain ⟨r, rfl⟩ := tail_lt tail ht
    unfold misc
    simp only [renderMisc, List.nil_append, skipWs_ws_append pad _ hp, skipWs_lt]
    rcases ht with h | h
    · -- DOCTYPE
      have h' := h
      unfold startsDoctype at h'
      rw [lit_doctype] at h'
      cases hs : stripPrefix ['<', '!', 'D', 'O', 'C', 'T', 'Y', 'P', 'E'] ('<' :: r) with
      | none => simp [hs] at h'
      | some t =>
        -- r = '!' :: 'D' :: ...
        cases r with
        | nil => simp [stripPrefix] at hs
        | cons a r1 =>
          have ha : a = '!' := by
            by_cases ha : a = '!'
            · exact ha
            · have : ('!' == a) = false := by simp [Ne.symm ha]
              simp [stripPrefix, this] at hs
          subst ha
          cases r1 with
          | nil => simp [stripPrefix] at hs
          | cons b r2 =>
            have hb : b = 'D' := by
              by_cases hb : b = 'D'
              · exact hb
              · have : ('D' == b) = false := by simp [Ne.symm hb]
                simp [stripPrefix, this] at hs
            subst hb
            rw [lit_comment, lit_pi, lit_doctype, h]
            have c1 : stripPrefix ['<', '!', '-', '-'] ('<' :: '!' :: 'D' :: r2) = none := by
              simp [stripPrefix]
            have c2 : stripPrefix ['<', '?'] ('<' :: '!' :: 'D' :: r2) = none := by
              simp [stripPrefix]
            simp only [c1, c2, hs, Option.isSome_none, Bool.false_eq_true, ↓reduceIte]
            split
            · rw [misc_doctype_kept]; rfl
            · rfl
    · -- root element
      have hnd : startsDoctype ('<' :: r) = false := by
        unfold startsRoot at h
        unfold startsDoctype
        rw [lit_doctype]
        cases r with
        | nil => simp [stripPrefix]
        | cons a r1 =>
          simp only [Bool.and_eq_true, bne_iff_ne, ne_eq] at h
          have : ('!' == a) = false := by simp [Ne.symm h.1]
          simp [stripPrefix, this]
      rw [hnd]
      unfold startsRoot at h
      cases r with
      | nil => simp at h
      | cons a r1 =>
        simp only [Bool.and_eq_true, bne_iff_ne, ne_eq] at h
        have e1 : ('!' == a) = false := by simp [Ne.symm h.1]
        have e2 : ('?' == a) = false := by simp [Ne.symm h.2]
        rw [lit_comment, lit_pi, lit_doctype]
        simp [stripPrefix, e1, e2]
  | (w, it) :: rest, pad, tail, fuel, n, c, xd, hf, hi, hp, ht => by
    obtain ⟨f, rfl⟩ : ∃ f, fuel = f + 1 := ⟨fuel - 1, by simp at hf; omega⟩
    have hf' : rest.length < f := by simp at hf; omega
    simp only [miscWf, List.all_cons, Bool.and_eq_true] at hi
    obtain ⟨⟨hw, hit⟩, hrest⟩ := hi
    have ih := fun n' => misc_finds_doctype rest pad tail f n' c xd hf' (by simpa [miscWf] using hrest) hp ht
    unfold misc
    simp only [renderMisc, List.append_assoc, skipWs_ws_append w _ hw]
    cases it with
    | comment b =>
      simp only [MiscItem.wf] at hit
      simp only [MiscItem.render, List.cons_append, List.append_assoc, List.nil_append, skipWs_lt]
      rw [lit_comment]
      simp only [stripPrefix, beq_self_eq_true, ↓reduceIte,
        afterComment_render b _ hit, Option.isNone_none]
      have := ih (n + 1)
      simpa [List.append_assoc] using this
    | pi t b =>
      simp only [MiscItem.wf, Bool.and_eq_true, Bool.not_eq_eq_eq_not, Bool.not_true,
        bne_iff_ne, ne_eq] at hit
      obtain ⟨⟨⟨⟨hne, hall⟩, hxml⟩, hb⟩, hq⟩ := hit
      simp only [MiscItem.render, List.cons_append, List.append_assoc, List.nil_append, skipWs_lt]
      rw [lit_comment, lit_pi]
      have e2 : ('!' == '?') = false := by decide
      simp only [stripPrefix, beq_self_eq_true, ↓reduceIte, e2, Bool.false_eq_true]
      have hy : match b ++ ('?' :: '>' :: (renderMisc rest ++ (pad ++ tail))) with
          | [] => True | c :: _ => isNameChar c = false := by
        cases b with
        | nil => simp only [List.nil_append]; decide
        | cons c0 b' => simp only [List.cons_append]; exact isWs_not_name c0 (by simpa using hb)
      rw [takeName_target t _ hall hy]
      have hx : (t.map Char.toLower == "xml".toList) = false := by
        simpa using hxml
      simp only [hx, Bool.false_eq_true, ↓reduceIte]
      have haft : after "?>".toList (t ++ (b ++ '?' :: '>' :: (renderMisc rest ++ (pad ++ tail))))
          = some (renderMisc rest ++ (pad ++ tail)) := by
        rw [lit_qg, ← List.append_assoc]
        exact after_qg (t ++ b) _ hq
      simp only [haft, Option.isNone_none, ↓reduceIte]
      have := ih (n + 1)
      simpa [List.append_assoc] using this

theorem stripPrefix_eq : ∀ (p s r : List Char), stripPrefix p s = some r → s = p ++ r
  | [], s, r, h => by simp [stripPrefix] at h; simp [h]
  | _ :: _, [], r, h => by simp [stripPrefix] at h
  | a :: p, c :: s, r, h => by
    simp only [stripPrefix] at h
    split at h
    · next hac =>
      have := stripPrefix_eq p s r h
      simp only [beq_iff_eq] at hac
      simp [hac, this]
    · cases h

theorem length_renderMisc (items : List (List Char × MiscItem)) :
    items.length ≤ (renderMisc items).length := by
  induction items with
  | nil => simp [renderMisc]
  | cons x r ih =>
    obtain ⟨w, it⟩ := x
    cases it <;> simp [renderMisc, MiscItem.render] <;> omega

/-- `Misc* S? tail` (no XML declaration in front) never looks like an XML declaration -/
theorem no_xmldecl (items : List (List Char × MiscItem)) (pad tail : List Char)
    (hi : miscWf items = true) (hp : pad.all isWs = true)
    (ht : startsDoctype tail = true ∨ startsRoot tail = true) (c : Char) (r : List Char)
    (h : stripPrefix ['<', '?', 'x', 'm', 'l'] (renderMisc items ++ pad ++ tail) = some (c :: r)) :
    isWs c = false := by
  -- a text that starts with white space does not start with `<`
  have ws_start : ∀ (w x : List Char), w ≠ [] → w.all isWs = true →
      stripPrefix ['<', '?', 'x', 'm', 'l'] (w ++ x) = none := by
    intro w x hne hw
    cases w with
    | nil => exact absurd rfl hne
    | cons a w' =>
      simp only [List.all_cons, Bool.and_eq_true] at hw
      have : ('<' == a) = false := by
        have h1 := hw.1
        simp only [isWs, Bool.or_eq_true, beq_iff_eq] at h1
        rcases h1 with ((h1 | h1) | h1) | h1 <;> subst h1 <;> decide
      simp [stripPrefix, this]
  have tail_case : ∀ x, stripPrefix ['<', '?', 'x', 'm', 'l'] tail = some x → False := by
    intro x hx
    obtain ⟨r0, rfl⟩ := tail_lt tail ht
    cases r0 with
    | nil => simp [stripPrefix] at hx
    | cons a r1 =>
      have ha : a = '?' := by
        by_cases ha : a = '?'
        · exact ha
        · have : ('?' == a) = false := by simp [Ne.symm ha]
          simp [stripPrefix, this] at hx
      subst ha
      rcases ht with h1 | h1
      · unfold startsDoctype at h1; rw [lit_doctype] at h1; simp [stripPrefix] at h1
      · simp [startsRoot] at h1
  cases items with
  | nil =>
    simp only [renderMisc, List.nil_append] at h
    cases pad with
    | nil => exact (tail_case _ h).elim
    | cons a p' => rw [ws_start (a :: p') tail (by simp) hp] at h; cases h
  | cons x rest =>
    obtain ⟨w, it⟩ := x
    simp only [miscWf, List.all_cons, Bool.and_eq_true] at hi
    obtain ⟨⟨hw, hit⟩, _⟩ := hi
    simp only [renderMisc, List.append_assoc] at h
    cases w with
    | cons a w' => rw [ws_start (a :: w') _ (by simp) hw] at h; cases h
    | nil =>
      simp only [List.nil_append] at h
      cases it with
      | comment b => simp [MiscItem.render, stripPrefix] at h
      | pi t b =>
        simp only [MiscItem.wf, Bool.and_eq_true, Bool.not_eq_eq_eq_not, Bool.not_true,
          bne_iff_ne, ne_eq] at hit
        obtain ⟨⟨⟨⟨_, hall⟩, hxml⟩, hb⟩, _⟩ := hit
        simp only [MiscItem.render, List.cons_append, List.append_assoc, stripPrefix,
          beq_self_eq_true, ↓reduceIte] at h
        -- h : stripPrefix ['x','m','l'] (t ++ (b ++ ..)) = some (c :: r)
        cases hc : isWs c with
        | false => rfl
        | true =>
          exfalso
          apply hxml
          have hy : match b ++ '?' :: '>' :: ([] ++ (renderMisc rest ++ (pad ++ tail))) with
              | [] => True | c :: _ => isNameChar c = false := by
            cases b with
            | nil => simp only [List.nil_append]; decide
            | cons c0 b' => simp only [List.cons_append]; exact isWs_not_name c0 (by simpa using hb)
          have e1 := takeName_target t _ hall hy
          have hsplit := stripPrefix_eq _ _ _ h
          have e2 := takeName_target ['x', 'm', 'l'] (c :: r) (by decide)
            (by simpa using isWs_not_name c hc)
          rw [hsplit] at e1
          simp only [List.cons_append, List.nil_append] at e1 e2
          rw [e2] at e1
          have : t = ['x', 'm', 'l'] := (Prod.mk.inj e1).1.symm
          rw [this, lit_xml]; decide

/-- **The scanner finds a DOCTYPE exactly when the text has one.**  For every text of the form
`XMLDecl? Misc* S? tail` built from well-formed pieces, where `tail` is either a DOCTYPE
declaration or the root element's start tag: `scanProlog` records a DOCTYPE iff `tail` is the
DOCTYPE declaration. -/
theorem scanProlog_finds_doctype (xd : Option (Char × List Char))
    (items : List (List Char × MiscItem)) (pad tail : List Char)
    (hx : xmlDeclWf xd = true) (hi : miscWf items = true) (hp : pad.all isWs = true)
    (ht : startsDoctype tail = true ∨ startsRoot tail = true) :
    (scanProlog (renderXmlDecl xd ++ (renderMisc items ++ pad ++ tail))).doctype.isSome
      = startsDoctype tail := by
  cases xd with
  | none =>
    simp only [renderXmlDecl, List.nil_append]
    unfold scanProlog
    rw [lit_xmldecl]
    have hlen : items.length < (renderMisc items ++ pad ++ tail).length + 1 := by
      have := length_renderMisc items
      simp only [List.length_append]; omega
    split
    · next c r heq =>
      have := no_xmldecl items pad tail hi hp ht c r heq
      simp only [this, Bool.false_eq_true, ↓reduceIte]
      exact misc_finds_doctype items pad tail _ 0 false false hlen hi hp ht
    · exact misc_finds_doctype items pad tail _ 0 false false hlen hi hp ht
  | some p =>
    obtain ⟨w, body⟩ := p
    simp only [xmlDeclWf, Bool.and_eq_true] at hx
    obtain ⟨⟨hw, hq⟩, hv⟩ := hx
    unfold scanProlog
    rw [lit_xmldecl]
    simp only [renderXmlDecl, List.cons_append, List.append_assoc, stripPrefix, beq_self_eq_true,
      ↓reduceIte, hw]
    rw [lit_qg, splitAt_qg body _ hq]
    simp only [Option.isNone_iff_eq_none]
    have hlen : items.length < (renderMisc items ++ (pad ++ tail)).length + 1 := by
      have := length_renderMisc items
      simp only [List.length_append]; omega
    have := misc_finds_doctype items pad tail ((renderMisc items ++ (pad ++ tail)).length + 1) 0
      false true (by simpa [List.append_assoc] using hlen) hi hp ht
    have lv : "version".toList = ['v', 'e', 'r', 's', 'i', 'o', 'n'] := by decide
    have hv' : ¬ stripPrefix "version".toList (skipWs body) = none := by
      intro h0; rw [lv] at h0; simp [h0] at hv
    simp only [hv', ↓reduceIte]
    simpa [List.append_assoc] using this

end EPV.Globals.XmlText

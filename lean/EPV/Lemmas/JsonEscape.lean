/-
C17 helper lemmas: Python `str.replace` with a one-character pattern is a per-character map, and
`escape_json_string` (a chain of eight replaces and a generator expression) is therefore one.
-/
import EPV.Model.Json
namespace EPV.Json

theorem replaceAll_single (c : Nat) (w s : Str) :
    replaceAll [c] w s = s.flatMap (fun x => if x = c then w else [x]) := by
  unfold replaceAll
  induction s with
  | nil => simp [replaceAux]
  | cons x t ih =>
    by_cases h : x = c
    · subst h; simp [replaceAux, List.isPrefixOf, ih]
    · have h' : ¬ c = x := fun e => h e.symm
      simp [replaceAux, List.isPrefixOf, h, h', ih]

/-- the per-character reading of `escape_json_string(s, escaped=False)` -/
def escChar (x : Nat) : Str :=
  if x = 92 then [92, 92] else if x = 34 then [92, 34] else if x = 8 then [92, 98]
  else if x = 13 then [92, 114] else if x = 10 then [92, 110] else if x = 9 then [92, 116]
  else if x = 12 then [92, 102] else if x = 47 then [92, 47]
  else ctrlEscape x

theorem escape_flatMap (s : Str) : escapeJsonString s = s.flatMap escChar := by
  simp only [escapeJsonString, escapeChain, replaceAll_single, List.flatMap_assoc, Bool.false_eq_true, if_false]
  congr 1
  funext x
  unfold escChar
  by_cases h1 : x = 92
  · subst h1; decide
  by_cases h2 : x = 34
  · subst h2; decide
  by_cases h3 : x = 8
  · subst h3; decide
  by_cases h4 : x = 13
  · subst h4; decide
  by_cases h5 : x = 10
  · subst h5; decide
  by_cases h6 : x = 9
  · subst h6; decide
  by_cases h7 : x = 12
  · subst h7; decide
  by_cases h8 : x = 47
  · subst h8; decide
  simp [h1, h2, h3, h4, h5, h6, h7, h8]

/-- away from NUL, `escape_json_string` is the RFC 8259 §7 map with the optional escapes of `/`
and of DEL..U+009F, upper-case hex -/
theorem escChar_eq_rfc (x : Nat) (hx : x ≠ 0) :
    escChar x = rfcEscapeChar (fun c => c == 47 || (127 ≤ c && c ≤ 159)) upperHex x := by
  unfold escChar rfcEscapeChar ctrlEscape hex4U
  have e : hexDigitU = upperHex := rfl
  by_cases h1 : x = 92
  · subst h1; decide
  by_cases h2 : x = 34
  · subst h2; decide
  by_cases h3 : x = 8
  · subst h3; decide
  by_cases h4 : x = 13
  · subst h4; decide
  by_cases h5 : x = 10
  · subst h5; decide
  by_cases h6 : x = 9
  · subst h6; decide
  by_cases h7 : x = 12
  · subst h7; decide
  by_cases h8 : x = 47
  · subst h8; decide
  simp only [h1, h2, h3, h4, h5, h6, h7, h8, if_false, e, false_and]
  by_cases hc : (1 ≤ x ∧ x ≤ 31) ∨ (127 ≤ x ∧ x ≤ 159)
  · simp [hc]; omega
  · simp [hc]; omega

theorem hexRun_hex4U : ∀ x, x < 160 → hexRun? (hex4U x) = some x := by decide +kernel

theorem escChar_simple (x : Nat)
    (hs : x = 92 ∨ x = 34 ∨ x = 8 ∨ x = 13 ∨ x = 10 ∨ x = 9 ∨ x = 12 ∨ x = 47) :
    ∃ e, escChar x = [92, e] ∧ simpleUnescape? e = some x := by
  rcases hs with h | h | h | h | h | h | h | h <;> subst h
  · exact ⟨92, by decide⟩
  · exact ⟨34, by decide⟩
  · exact ⟨98, by decide⟩
  · exact ⟨114, by decide⟩
  · exact ⟨110, by decide⟩
  · exact ⟨116, by decide⟩
  · exact ⟨102, by decide⟩
  · exact ⟨47, by decide⟩

theorem escChar_ctrl (x : Nat) (hc : (1 ≤ x ∧ x ≤ 31) ∨ (127 ≤ x ∧ x ≤ 159))
    (hs : ¬ (x = 92 ∨ x = 34 ∨ x = 8 ∨ x = 13 ∨ x = 10 ∨ x = 9 ∨ x = 12 ∨ x = 47)) :
    escChar x = 92 :: 117 :: hex4U x := by
  unfold escChar ctrlEscape
  have : x ≠ 92 ∧ x ≠ 34 ∧ x ≠ 8 ∧ x ≠ 13 ∧ x ≠ 10 ∧ x ≠ 9 ∧ x ≠ 12 ∧ x ≠ 47 := by omega
  simp [this, hc]

theorem escChar_raw (x : Nat) (hc : ¬ ((1 ≤ x ∧ x ≤ 31) ∨ (127 ≤ x ∧ x ≤ 159)))
    (hs : ¬ (x = 92 ∨ x = 34 ∨ x = 8 ∨ x = 13 ∨ x = 10 ∨ x = 9 ∨ x = 12 ∨ x = 47)) :
    escChar x = [x] := by
  unfold escChar ctrlEscape
  have : x ≠ 92 ∧ x ≠ 34 ∧ x ≠ 8 ∧ x ≠ 13 ∧ x ≠ 10 ∧ x ≠ 9 ∧ x ≠ 12 ∧ x ≠ 47 := by omega
  simp [this, hc]

theorem unescapeF_escape (s : Str) : ∀ f, (s.flatMap escChar).length ≤ f →
    unescapeF f (s.flatMap escChar) = some s := by
  induction s with
  | nil => intro f _; cases f <;> simp [unescapeF]
  | cons x t ih =>
    intro f hf
    rw [List.flatMap_cons] at hf ⊢
    by_cases hs : x = 92 ∨ x = 34 ∨ x = 8 ∨ x = 13 ∨ x = 10 ∨ x = 9 ∨ x = 12 ∨ x = 47
    · obtain ⟨e, he, hd⟩ := escChar_simple x hs
      rw [he] at hf ⊢
      simp only [List.length_append, List.length_cons, List.length_nil] at hf
      obtain ⟨f', rfl⟩ : ∃ f', f = f' + 1 := ⟨f - 1, by omega⟩
      have := ih f' (by omega)
      simp [unescapeF, escapeAt, hd, this]
    · by_cases hc : (1 ≤ x ∧ x ≤ 31) ∨ (127 ≤ x ∧ x ≤ 159)
      · rw [escChar_ctrl x hc hs] at hf ⊢
        have hx : hexRun? (hex4U x) = some x := hexRun_hex4U x (by omega)
        have hl : (hex4U x).length = 4 := rfl
        simp only [List.length_append, List.length_cons, hl] at hf
        obtain ⟨f', rfl⟩ : ∃ f', f = f' + 1 := ⟨f - 1, by omega⟩
        have := ih f' (by omega)
        have ht : List.take 4 (hex4U x ++ List.flatMap escChar t) = hex4U x := by
          rw [List.take_append_of_le_length (by simp [hl])]; exact List.take_of_length_le (by simp [hl])
        have hd : List.drop 4 (hex4U x ++ List.flatMap escChar t) = List.flatMap escChar t := by
          rw [List.drop_append_of_le_length (by simp [hl])]; simp [List.drop_of_length_le, hl]
        have hlen : ¬ (hex4U x ++ List.flatMap escChar t).length < 4 := by
          simp only [List.length_append, hl]; omega
        simp only [unescapeF, List.cons_append, if_true, escapeAt]
        simp only [simpleUnescape?, hlen, ht, hd, hx]
        simp [this]
      · rw [escChar_raw x hc hs] at hf ⊢
        have hne : x ≠ 92 := by omega
        simp only [List.length_append, List.length_cons, List.length_nil] at hf
        obtain ⟨f', rfl⟩ : ∃ f', f = f' + 1 := ⟨f - 1, by omega⟩
        have := ih f' (by omega)
        simp [unescapeF, hne, this]

end EPV.Json

/-
C18 — from Boolean checks over the generated rows (evaluated by `decide +kernel`) to the quantified
statements about `Tables.atomSub` / `Tables.listSub` used by the theorems.
-/
import EPV.Lemmas.SeqTypeRestr
namespace EPV.SeqType

/-- `row ⊇ rows[b]` for every `b` in `row`, for every row -/
def transCheck (rows : List (List Nat)) : Bool :=
  rows.all fun row => row.all fun b => (rows.getD b []).all fun c => row.contains c

theorem trans_of_check (rows : List (List Nat)) (h : transCheck rows = true) (a b c : Nat)
    (h1 : (rows.getD a []).contains b = true) (h2 : (rows.getD b []).contains c = true) :
    (rows.getD a []).contains c = true := by
  by_cases ha : a < rows.length
  · have hm : rows.getD a [] ∈ rows := by
      rw [List.getD_eq_getElem?_getD, List.getElem?_eq_getElem ha]; exact List.getElem_mem ha
    simp only [transCheck, List.all_eq_true] at h
    have := h _ hm b (by simpa using h1) c (by simpa using h2)
    exact this
  · rw [List.getD_eq_getElem?_getD, List.getElem?_eq_none (by omega)] at h1
    simp at h1

/-- every row contains its own index -/
def reflCheck (rows : List (List Nat)) : Bool :=
  (List.range rows.length).all fun a => (rows.getD a []).contains a

theorem refl_of_check (rows : List (List Nat)) (h : reflCheck rows = true) (a : Nat) (ha : a < rows.length) :
    (rows.getD a []).contains a = true := by
  simp only [reflCheck, List.all_eq_true, List.mem_range] at h
  exact h a ha

theorem Tables.trans_of_checks (tb : Tables) (h1 : transCheck tb.subRows = true)
    (h2 : transCheck tb.listRows = true) : tb.Trans :=
  ⟨fun a b c => trans_of_check tb.subRows h1 a b c, fun a b c => trans_of_check tb.listRows h2 a b c⟩

end EPV.SeqType

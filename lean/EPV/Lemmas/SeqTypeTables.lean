/-
C18 — from Boolean checks over the generated rows (evaluated by `decide +kernel`) to the quantified
statements about `Tables.atomSub` / `Tables.listSub` used by the theorems.
-/
import EPV.Lemmas.SeqTypeSound
namespace EPV.SeqType

/-- `row ⊇ rows[b]` for every `b` in `row`, for every row -/
def transCheck (rows : List (List Nat)) : Bool :=
  rows.all fun row => row.all fun b => (rows.getD b []).all fun c => row.contains c

theorem trans_of_check (rows : List (List Nat)) (h : transCheck rows = true) (a b c : Nat)
    (h1 : (rows.getD a []).contains b = true) (h2 : (rows.getD b []).contains c = true) :
    (rows.getD a []).contains c = true := by
  by_cases ha : a < rows.length
  · have hm : rows.getD a [] ∈ rows := by
      rw [List.getD_eq_getElem?_getD, List.getElem?_eq_getElem ha]; exact List.getElem_mem ha
    simp only [transCheck, List.all_eq_true] at h
    have := h _ hm b (by simpa using h1) c (by simpa using h2)
    exact this
  · rw [List.getD_eq_getElem?_getD, List.getElem?_eq_none (by omega)] at h1
    simp at h1

/-- every row contains its own index -/
def reflCheck (rows : List (List Nat)) : Bool :=
  (List.range rows.length).all fun a => (rows.getD a []).contains a

theorem refl_of_check (rows : List (List Nat)) (h : reflCheck rows = true) (a : Nat) (ha : a < rows.length) :
    (rows.getD a []).contains a = true := by
  simp only [reflCheck, List.all_eq_true, List.mem_range] at h
  exact h a ha

theorem Tables.trans_of_checks (tb : Tables) (h1 : transCheck tb.subRows = true)
    (h2 : transCheck tb.listRows = true) : tb.Trans :=
  ⟨fun a b c => trans_of_check tb.subRows h1 a b c, fun a b c => trans_of_check tb.listRows h2 a b c⟩

/-- `isinstance(v, A)` and `issubclass(A, B)` give `isinstance(v, B)`, for both XSD versions of the parser -/
def instUpCheck (tb : Tables) : Bool :=
  [true, false].all fun x => tb.instRows.all fun row => row.all fun a => (tb.subRows.getD a []).all fun b =>
    (tb.xsd11Only.contains a && !x) || (!(tb.xsd11Only.contains b && !x) && row.contains b)

theorem Tables.instUp_of_check (tb : Tables) (h : instUpCheck tb = true) : tb.InstUp := by
  constructor
  intro x c a b h1 h2
  simp only [instAtomic] at h1 ⊢
  split at h1
  · exact absurd h1 (by simp)
  · rename_i hna
    simp only [Tables.inst] at h1 ⊢
    simp only [Tables.atomSub] at h2
    by_cases hc : c < tb.instRows.length
    · have hm : tb.instRows.getD c [] ∈ tb.instRows := by
        rw [List.getD_eq_getElem?_getD, List.getElem?_eq_getElem hc]; exact List.getElem_mem hc
      simp only [instUpCheck, List.all_eq_true] at h
      have hx : x ∈ [true, false] := by cases x <;> simp
      have := h x hx _ hm a (by simpa using h1) b (by simpa using h2)
      simp only [Bool.or_eq_true, Bool.and_eq_true, Bool.not_eq_true'] at this
      rcases this with h3 | h3
      · simp only [Bool.and_eq_true, Bool.not_eq_true'] at hna h3
        exact absurd h3 (by simpa using hna)
      · rw [if_neg (by rw [h3.1]; simp)]
        exact h3.2
    · rw [List.getD_eq_getElem?_getD, List.getElem?_eq_none (by omega)] at h1
      simp at h1

end EPV.SeqType

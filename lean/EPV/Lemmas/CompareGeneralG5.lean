/-
C07 — one pair of a general comparison, left operand in yearMonthDuration: part of the 17 x 17 case analysis of
EPV/Lemmas/CompareGeneral.lean (split so that every file compiles in well under a minute).
-/
import EPV.Lemmas.CompareGeneralLemmas
set_option linter.unusedSimpArgs false
set_option linter.unusedVariables false
namespace EPV.Cmp
open EPV.CmpSpec EPV.CmpFind

def grpG5 : Atom → Bool
  | .ymd _ => true | _ => false

set_option maxHeartbeats 4000000 in
theorem pairGeneral_conforms_G5 (m : Mode) (op : Op) (a b : Atom) (hg : grpG5 a = true)
    (h1 : trigTol op a b = false) (h2 : trigPromotion a b = false)
    (h5 : pairSpec m op a b ≠ .error .unsupported) (h6 : pairGeneral m op a b ≠ .error .unsupported)
    (h8 : dtConsistent a b = true) :
    pairGeneral m op a b = pairSpec m op a b := by
  cases a <;> simp [grpG5] at hg <;> cases b <;>
      first
      | (gp_simp; done)
      | (simp [dtConsistent, Atom.isDT, Atom.dt] at h8; gp_simp; simp [dtCompare_eq_six _ _ _ h8]; done)
      | skip
  case ymd.ua => exact pg_temporal_ua m op _ _ rfl h5
  all_goals
    cases op <;> gp_simp <;>
      (try simp [six, durCmp4_dtd, durCmp4_ymd, iCmp, cmpBy, PyR.map, Op.swap]) <;>
      first
      | done
      | grind
      | (rename_i s t; by_cases h : s = t <;> simp [h] <;> grind)

end EPV.Cmp

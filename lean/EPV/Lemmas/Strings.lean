/-
C09 helper lemmas, part 1: rounding (`round_half_up` of the code = `fn:round`) and position
selection (`selectPos` of the spec = Python slicing), leading to `substring{2,3}_eq_spec`.
-/
import EPV.Model.Strings
namespace EPV.Strings
open EPV.FOStrings (Str Num Err selectPos)

theorem specRound_isRound (n : Int) (d : Nat) (hd : 0 < d) :
    FOStrings.IsRoundHalfUp n d (FOStrings.roundHalfUp n d) := by
  unfold FOStrings.IsRoundHalfUp FOStrings.roundHalfUp
  have hd' : (0:Int) < 2 * (d:Int) := by omega
  have h1 := Int.mul_ediv_add_emod (2 * n + d) (2 * d)
  have h2 := Int.emod_nonneg (2 * n + d) (b := 2 * (d:Int)) (by omega)
  have h3 := Int.emod_lt_of_pos (2 * n + d) hd'
  generalize (2 * n + (d:Int)) / (2 * d) = r at *
  generalize (2 * n + (d:Int)) % (2 * d) = m at *
  constructor <;> grind

theorem isRound_unique (n : Int) (d : Nat) (hd : 0 < d) (r r' : Int)
    (h : FOStrings.IsRoundHalfUp n d r) (h' : FOStrings.IsRoundHalfUp n d r') : r = r' := by
  unfold FOStrings.IsRoundHalfUp at *
  -- 2rd - d ≤ 2n < 2r'd + d  →  2(r - r')d < 2d → r - r' < 1
  have hd' : (0:Int) < d := by omega
  rcases Int.lt_trichotomy r r' with hlt | heq | hgt
  · exfalso
    have : (r + 1) * (d:Int) ≤ r' * d := Int.mul_le_mul_of_nonneg_right (by omega) (by omega)
    grind
  · exact heq
  · exfalso
    have : (r' + 1) * (d:Int) ≤ r * d := Int.mul_le_mul_of_nonneg_right (by omega) (by omega)
    grind

theorem modelRound_isRound (n : Int) (d : Nat) (hd : 0 < d) :
    FOStrings.IsRoundHalfUp n d (roundHalfUp n d) := by
  unfold FOStrings.IsRoundHalfUp roundHalfUp
  have hd' : (0:Int) < (d:Int) := by omega
  have h1 := Int.mul_ediv_add_emod n d
  have h2 := Int.emod_nonneg n (b := (d:Int)) (by omega)
  have h3 := Int.emod_lt_of_pos n hd'
  generalize n / (d:Int) = q at *
  generalize n % (d:Int) = m at *
  simp only
  split <;> constructor <;> grind

theorem roundHalfUp_eq_spec (n : Int) (d : Nat) (hd : 0 < d) :
    roundHalfUp n d = FOStrings.roundHalfUp n d :=
  isRound_unique n d hd _ _ (modelRound_isRound n d hd) (specRound_isRound n d hd)
theorem selectPos_interval (lo hi : Int) (s : Str) (p0 : Nat) :
    selectPos (fun p => decide (lo ≤ p) && decide (p < hi)) p0 s
      = (s.take (hi - p0).toNat).drop (lo - p0).toNat := by
  induction s generalizing p0 with
  | nil => simp [selectPos]
  | cons c cs ih =>
    simp only [selectPos, ih]
    push_cast
    by_cases h1 : lo ≤ (p0 : Int) <;> by_cases h2 : (p0 : Int) < hi
    · have e1 : (hi - (p0:Int)).toNat = (hi - ((p0:Int) + 1)).toNat + 1 := by omega
      have e2 : (lo - (p0:Int)).toNat = 0 := by omega
      have e3 : (lo - ((p0:Int) + 1)).toNat = 0 := by omega
      simp [h1, h2, e1, e2, e3]
    · have e1 : (hi - (p0:Int)).toNat = 0 := by omega
      have e2 : (hi - ((p0:Int) + 1)).toNat = 0 := by omega
      simp [h1, h2, e1, e2]
    · have e2 : (lo - (p0:Int)).toNat = (lo - ((p0:Int) + 1)).toNat + 1 := by omega
      by_cases h3 : (hi - (p0:Int)).toNat = 0
      · have e4 : (hi - ((p0:Int) + 1)).toNat = 0 := by omega
        simp [h1, h3, e4]
      · have e1 : (hi - (p0:Int)).toNat = (hi - ((p0:Int) + 1)).toNat + 1 := by omega
        simp [h1, e1, e2]
    · have e1 : (hi - (p0:Int)).toNat = 0 := by omega
      have e2 : (hi - ((p0:Int) + 1)).toNat = 0 := by omega
      simp [h1, h2, e1, e2]

theorem selectPos_from (lo : Int) (s : Str) (p0 : Nat) :
    selectPos (fun p => decide (lo ≤ p)) p0 s = s.drop (lo - p0).toNat := by
  induction s generalizing p0 with
  | nil => simp [selectPos]
  | cons c cs ih =>
    simp only [selectPos, ih]
    push_cast
    by_cases h1 : lo ≤ (p0 : Int)
    · have e2 : (lo - (p0:Int)).toNat = 0 := by omega
      have e3 : (lo - ((p0:Int) + 1)).toNat = 0 := by omega
      simp [h1, e2, e3]
    · have e2 : (lo - (p0:Int)).toNat = (lo - ((p0:Int) + 1)).toNat + 1 := by omega
      simp [h1, e2]

theorem selectPos_false (s : Str) (p0 : Nat) : selectPos (fun _ => false) p0 s = [] := by
  induction s generalizing p0 with
  | nil => rfl
  | cons c cs ih => simp [selectPos, ih]

theorem selectPos_true (s : Str) (p0 : Nat) : selectPos (fun _ => true) p0 s = s := by
  induction s generalizing p0 with
  | nil => rfl
  | cons c cs ih => simp [selectPos, ih]

theorem specRound_nonpos (m : Int) (e : Nat) (he : 0 < e) (hm : m ≤ 0) :
    FOStrings.roundHalfUp m e ≤ 0 := by
  have h := specRound_isRound m e he
  unfold FOStrings.IsRoundHalfUp at h
  generalize FOStrings.roundHalfUp m e = r at *
  apply Int.not_lt.mp
  intro hr
  have : 1 * (e:Int) ≤ r * e := Int.mul_le_mul_of_nonneg_right (by omega) (by omega)
  grind

theorem substring2_eq_spec (s : Str) (a : Num) (ha : a.wf) :
    substring2 s a = FOStrings.substring2 s a := by
  cases a with
  | nan => simp [substring2, FOStrings.substring2, FOStrings.round, FOStrings.XInt.leInt, selectPos_false]
  | pinf => simp [substring2, FOStrings.substring2, FOStrings.round, FOStrings.XInt.leInt, selectPos_false]
  | ninf => simp [substring2, FOStrings.substring2, FOStrings.round, FOStrings.XInt.leInt, selectPos_true]
  | fin n d =>
    simp only [substring2, FOStrings.substring2, FOStrings.round, FOStrings.XInt.leInt,
      selectPos_from, pySliceFrom, clamp0, roundHalfUp_eq_spec n d ha]
    congr 1
    omega

theorem substring3_eq_spec (s : Str) (a b : Num) (ha : a.wf) (hb : b.wf) :
    substring3 s a b = FOStrings.substring3 s a b := by
  cases a with
  | nan => cases b <;> simp [substring3, FOStrings.substring3, FOStrings.round, FOStrings.XInt.leInt, selectPos_false]
  | pinf => cases b <;> simp [substring3, FOStrings.substring3, FOStrings.round, FOStrings.XInt.leInt, selectPos_false]
  | ninf => cases b <;> simp [substring3, FOStrings.substring3, FOStrings.round, FOStrings.XInt.leInt, FOStrings.XInt.add, FOStrings.XInt.gtInt, selectPos_false]
  | fin n d =>
    cases b with
    | nan => simp [substring3, FOStrings.substring3, FOStrings.round, FOStrings.XInt.add, FOStrings.XInt.gtInt, selectPos_false]
    | ninf => simp [substring3, FOStrings.substring3, FOStrings.round, FOStrings.XInt.add, FOStrings.XInt.gtInt, selectPos_false]
    | pinf =>
      simp only [substring3, FOStrings.substring3, FOStrings.round, FOStrings.XInt.leInt,
        FOStrings.XInt.add, FOStrings.XInt.gtInt, Bool.and_true,
        selectPos_from, pySliceFrom, clamp0, roundHalfUp_eq_spec n d ha]
      congr 1
      omega
    | fin m e =>
      simp only [substring3, FOStrings.substring3, FOStrings.round, FOStrings.XInt.leInt,
        FOStrings.XInt.add, FOStrings.XInt.gtInt,
        selectPos_interval, pySlice, clamp0, roundHalfUp_eq_spec n d ha, roundHalfUp_eq_spec m e hb]
      by_cases hm : m ≤ 0
      · have := specRound_nonpos m e hb hm
        simp only [hm, if_true]
        symm
        apply List.drop_eq_nil_of_le
        simp only [List.length_take]
        omega
      · simp only [hm, if_false]
        congr 1
        · omega
        · congr 1
          omega
end EPV.Strings

/-
Lemmas about the live comment handling of `XPath2Parser.advance` (EPV/Model/Lexer.lean: `find2`,
`commentScan`, `commentSkip`, `advance3`): termination and coded errors only.
-/
import EPV.Lemmas.ParserStateComments
namespace EPV.Lexer
open EPV.PState

theorem find2_bounds (a b : Char) : ∀ (l : List Char) (i k : Nat),
    find2 a b l i = some k → i ≤ k ∧ k + 2 ≤ i + l.length := by
  intro l
  induction l with
  | nil => intro i k h; simp [find2] at h
  | cons x rest ih =>
    intro i k h
    cases rest with
    | nil => simp [find2] at h
    | cons y rest' =>
      unfold find2 at h
      split at h
      · cases h
        simp only [List.length_cons]; omega
      · have := ih (i + 1) k h
        simp only [List.length_cons] at this ⊢; omega

/-- **the raw-source comment scanner terminates**: with more fuel than characters left it never runs
out of fuel; a returned offset lies inside the source and — for a positive level — at least two
characters further -/
theorem commentScan_spec (src : List Char) : ∀ (fuel level pos : Nat), src.length - pos < fuel →
    commentScan src fuel level pos ≠ none ∧
    ∀ p, commentScan src fuel level pos = some (some p) →
      (level = 0 ∧ p = pos) ∨ (pos + 2 ≤ p ∧ p ≤ src.length) := by
  intro fuel
  induction fuel with
  | zero => intro level pos h; omega
  | succ fuel ih =>
    intro level pos h
    cases level with
    | zero =>
      refine ⟨by simp [commentScan], fun p hp => .inl ⟨rfl, ?_⟩⟩
      simp only [commentScan, Option.some.injEq] at hp
      exact hp.symm
    | succ level =>
      unfold commentScan
      cases he : find2 ':' ')' (src.drop pos) pos with
      | none => exact ⟨by simp, fun p hp => by simp at hp⟩
      | some e =>
        have hb := find2_bounds ':' ')' (src.drop pos) pos e he
        simp only [List.length_drop] at hb
        have hstep : ∀ q lvl, pos ≤ q → q + 2 ≤ pos + (src.length - pos) →
            commentScan src fuel lvl (q + 2) ≠ none ∧
            ∀ p, commentScan src fuel lvl (q + 2) = some (some p) → (pos + 2 ≤ p ∧ p ≤ src.length) := by
          intro q lvl h1 h2
          have := ih lvl (q + 2) (by omega)
          refine ⟨this.1, fun p hp => ?_⟩
          rcases this.2 p hp with ⟨_, h3⟩ | ⟨h3, h4⟩
          · omega
          · omega
        cases hs : find2 '(' ':' (src.drop pos) pos with
        | none =>
          simp only []
          have := hstep e level hb.1 hb.2
          exact ⟨this.1, fun p hp => .inr (this.2 p hp)⟩
        | some s =>
          have hbs := find2_bounds '(' ':' (src.drop pos) pos s hs
          simp only [List.length_drop] at hbs
          simp only []
          split
          · have := hstep s (level + 2) hbs.1 hbs.2
            exact ⟨this.1, fun p hp => .inr (this.2 p hp)⟩
          · have := hstep e level hb.1 hb.2
            exact ⟨this.1, fun p hp => .inr (this.2 p hp)⟩

/-- in the found case the white-space loop leaves `next_match` on the match it stopped at -/
theorem nextNonSpace_nm (nm : Option Match) (l : List Match) (m : Match)
    (h : (nextNonSpace nm l).1 = some m) : (nextNonSpace nm l).2.1 = some m := by
  induction l generalizing nm with
  | nil => simp [nextNonSpace] at h
  | cons a rest ih =>
    unfold nextNonSpace at h ⊢
    split
    · rename_i hsp
      simp only [hsp, if_true] at h
      exact ih (some a) h
    · rename_i hsp
      simp only [hsp] at h
      simp only at h ⊢
      exact h

/-- a successful base `advance` whose look-ahead is not `(end)` has its `next_match` among the
matches that were pending -/
theorem advance_nextMatch (tb : Table) (o : Oracles) (symbols : List String) (c : Cursor Tok Match) :
    (advance tb o symbols c).1 = .ok () →
    (advance tb o symbols c).2.nextToken.symbol ≠ "(end)" →
    ∃ m, (advance tb o symbols c).2.nextMatch = some m ∧ m ∈ c.tokens := by
  unfold advance
  split
  · intro h; cases h
  · split
    · intro h; cases h
    · simp only []
      rcases nextNonSpace_spec c.nextMatch c.tokens with ⟨g1, g2⟩ | ⟨m, g1, gm, _, _⟩
      · split
        · rename_i nm rest heq
          split
          · rename_i t hmk
            intro _ hne
            exact absurd (mk_symbol hmk) hne
          · intro h; cases h
        · rename_i m' nm rest heq
          rw [heq] at g1; cases g1
      · have hnm := nextNonSpace_nm c.nextMatch c.tokens m g1
        split
        · rename_i nm rest heq
          rw [heq] at g1; cases g1
        · rename_i m' nm rest heq
          rw [heq] at hnm g1
          simp only at hnm g1
          cases g1
          intro _ _
          refine ⟨m, ?_, gm⟩
          split <;> split <;> simp only [hnm]

/-- what the theorems assume about `tokenizer.finditer(source, p)`: every match comes from the
5-alternative pattern, ends after `p` and inside the source -/
def OracleOK (src : List Char) (tokFrom : Nat → List Match) : Prop :=
  ∀ p, ∀ m ∈ tokFrom p, FromPattern m = true ∧ p < m.stop ∧ m.stop ≤ src.length

/-- **the comment loop terminates and fails only with coded errors**: neither the fuel nor the
`assert self.next_match is not None` can fail -/
theorem commentSkip_spec (tb : Table) (o : Oracles) (hs : Specials tb) (src : List Char)
    (tokFrom : Nat → List Match) (ho : OracleOK src tokFrom) :
    ∀ (fuel : Nat) (c : Cursor Tok Match),
      (c.nextToken.symbol = "(:" → ∃ m, c.nextMatch = some m ∧ src.length - m.stop < fuel) → 0 < fuel →
      (commentSkip tb o src tokFrom fuel c).1 = .ok () ∨
      ∃ e, (commentSkip tb o src tokFrom fuel c).1 = .error e ∧ LexErr e := by
  intro fuel
  induction fuel with
  | zero => intro c _ h; omega
  | succ fuel ih =>
    intro c hc _
    unfold commentSkip
    split
    · left; rfl
    · rename_i hsym
      have hsym' : c.nextToken.symbol = "(:" := by simpa using hsym
      obtain ⟨m, hm, hfuel⟩ := hc hsym'
      split
      · right; exact ⟨_, rfl, wrongSyntax_lexErr _⟩
      · simp only [hm]
        have hscan := commentScan_spec src (src.length + 1) 1 m.stop (by omega)
        cases hcs : commentScan src (src.length + 1) 1 m.stop with
        | none => exact absurd hcs hscan.1
        | some r =>
          cases r with
          | none =>
            simp only []
            obtain ⟨lab, _, hmk⟩ := mk_of_has "(end)" hs.end_
            rw [hmk]
            right; exact ⟨_, rfl, wrongSyntax_lexErr _⟩
          | some p =>
            simp only []
            have hp : m.stop + 2 ≤ p ∧ p ≤ src.length := by
              rcases hscan.2 p hcs with ⟨h0, _⟩ | h
              · cases h0
              · exact h
            have hm2 : ∀ x ∈ (tokFrom p), FromPattern x = true := fun x hx => (ho p x hx).1
            have htot := advance_total' tb o [] { c with tokens := tokFrom p, nextToken := c.token } hs hm2
            have hnm := advance_nextMatch tb o [] { c with tokens := tokFrom p, nextToken := c.token }
            simp only [hm] at htot hnm
            split
            · rename_i e c3 heq
              rw [heq] at htot
              right
              rcases htot with ⟨h, _⟩ | ⟨e', h, he⟩
              · cases h
              · simp only at h; cases h; exact ⟨_, rfl, .inl he⟩
            · rename_i c3 heq
              rw [heq] at hnm
              simp only at hnm
              split
              · right; exact ⟨_, rfl, wrongSyntax_lexErr _⟩
              · apply ih c3
                · intro h3
                  have hne : c3.nextToken.symbol ≠ "(end)" := by rw [h3]; decide
                  obtain ⟨m', hm', hin⟩ := hnm trivial hne
                  have := ho p m' hin
                  exact ⟨m', hm', by omega⟩
                · omega

/-- **the live `XPath2Parser.advance` terminates and raises XPST0003 / XPST0017 only** -/
theorem advance3_spec (tb : Table) (o : Oracles) (hs : Specials tb) (src : List Char)
    (tokFrom : Nat → List Match) (ho : OracleOK src tokFrom) (symbols : List String) (c : Cursor Tok Match)
    (hm : ∀ m ∈ c.tokens, FromPattern m = true) :
    (advance3 tb o src tokFrom symbols c).1 = .ok () ∨
    ∃ e, (advance3 tb o src tokFrom symbols c).1 = .error e ∧ LexErr e := by
  unfold advance3
  have htot := advance_total' tb o symbols c hs hm
  have hnm := advance_nextMatch tb o symbols c
  split
  · rename_i e c1 heq
    rw [heq] at htot
    right
    rcases htot with ⟨h, _⟩ | ⟨e', h, he⟩
    · cases h
    · simp only at h; cases h; exact ⟨_, rfl, .inl he⟩
  · rename_i c1 heq
    rw [heq] at hnm
    simp only at hnm
    apply commentSkip_spec tb o hs src tokFrom ho (src.length + 2) c1
    · intro h3
      have hne : c1.nextToken.symbol ≠ "(end)" := by rw [h3]; decide
      obtain ⟨m', hm', _⟩ := hnm trivial hne
      exact ⟨m', hm', by omega⟩
    · omega

end EPV.Lexer

/-
C07 — order laws of the value spaces (specification side), stated on Boolean `lt`/`eq` functions.
-/
import EPV.Lemmas.CompareValue
namespace EPV.CmpSpec
open EPV.Cmp

/-- `eq` is an equivalence and `lt` a strict total order compatible with it, on the values
satisfying `P` -/
structure OrderLawsOn {α} (P : α → Prop) (lt eq : α → α → Bool) : Prop where
  eq_refl : ∀ a, P a → eq a a = true
  eq_symm : ∀ a b, eq a b = eq b a
  eq_trans : ∀ a b c, eq a b = true → eq b c = true → eq a c = true
  lt_irrefl : ∀ a, lt a a = false
  lt_trans : ∀ a b c, lt a b = true → lt b c = true → lt a c = true
  trichotomy : ∀ a b, P a → P b →
    (lt a b = true ∧ eq a b = false ∧ lt b a = false) ∨
    (lt a b = false ∧ eq a b = true ∧ lt b a = false) ∨
    (lt a b = false ∧ eq a b = false ∧ lt b a = true)
  lt_congr : ∀ a b c, eq a b = true → lt a c = lt b c ∧ lt c a = lt c b

/-- consequences for the six operators -/
theorem six_ne {α} (lt eq : α → α → Bool) (a b : α) : six lt eq .ne a b = !six lt eq .eq a b := rfl
theorem six_le {α} (lt eq : α → α → Bool) (a b : α) :
    six lt eq .le a b = (six lt eq .lt a b || six lt eq .eq a b) := rfl
theorem six_ge {α} (lt eq : α → α → Bool) (a b : α) :
    six lt eq .ge a b = (six lt eq .gt a b || six lt eq .eq a b) := rfl
theorem six_gt {α} (lt eq : α → α → Bool) (a b : α) : six lt eq .gt a b = six lt eq .lt b a := rfl

theorem ratLaws : OrderLawsOn (fun _ : Rat => True) (fun p q => decide (p < q)) (fun p q => decide (p = q)) where
  eq_refl := by simp
  eq_symm := by intro a b; exact decide_eq_decide.mpr eq_comm
  eq_trans := by simp <;> grind
  lt_irrefl := by simp [Rat.lt_irrefl]
  lt_trans := by simp <;> grind
  trichotomy := by simp <;> grind
  lt_congr := by simp <;> grind

theorem intLaws : OrderLawsOn (fun _ : Int => True) (fun p q => decide (p < q)) (fun p q => decide (p = q)) where
  eq_refl := by simp
  eq_symm := by intro a b; exact decide_eq_decide.mpr eq_comm
  eq_trans := by simp <;> grind
  lt_irrefl := by simp
  lt_trans := by simp <;> grind
  trichotomy := by simp <;> grind
  lt_congr := by simp <;> grind

theorem boolLaws : OrderLawsOn (fun _ : Bool => True) (fun p q => !p && q) (fun p q => p == q) where
  eq_refl := by decide
  eq_symm := by decide
  eq_trans := by decide
  lt_irrefl := by decide
  lt_trans := by decide
  trichotomy := by decide
  lt_congr := by decide

instance : Std.Irrefl (fun (a b : Nat) => a < b) := ⟨Nat.lt_irrefl⟩
instance : Std.Asymm (fun (a b : Nat) => a < b) := ⟨fun _ _ h => Nat.lt_asymm h⟩
instance : Std.Trichotomous (fun (a b : Nat) => a < b) := ⟨fun _ _ h1 h2 => by omega⟩

theorem listLaws : OrderLawsOn (fun _ : List Nat => True) (fun p q => decide (p < q)) (fun p q => decide (p = q)) where
  eq_refl := by simp
  eq_symm := by intro a b; exact decide_eq_decide.mpr eq_comm
  eq_trans := by simp <;> grind
  lt_irrefl := by simp [List.lt_irrefl]
  lt_trans := by
    simp only [decide_eq_true_eq]
    intro a b c h1 h2
    exact List.lt_trans h1 h2
  trichotomy := by
    simp only [decide_eq_true_eq, decide_eq_false_iff_not, forall_const]
    intro a b
    by_cases h : a = b
    · subst h; simp [List.lt_irrefl]
    · by_cases h1 : a < b
      · exact Or.inl ⟨h1, h, List.lt_asymm h1⟩
      · refine Or.inr (Or.inr ⟨h1, h, ?_⟩)
        have h2 : b ≤ a := List.not_lt.mp h1
        rcases List.le_iff_lt_or_eq.mp h2 with h3 | h3
        · exact h3
        · exact absurd h3.symm h
  lt_congr := by
    simp only [decide_eq_true_eq]
    intro a b c h; subst h; simp

/-- the double value space without NaN: -INF < finite values by value (−0 = +0) < +INF -/
theorem doubleLaws : OrderLawsOn (fun d : D => d.isNaN = false) numLt numEq where
  eq_refl := by intro a h; cases a <;> simp_all [numEq, D.isNaN, D.val]
  eq_symm := numEq_comm
  eq_trans := by
    intro a b c
    cases a <;> cases b <;> cases c <;> simp [numEq, D.val] <;> grind
  lt_irrefl := by intro a; cases a <;> simp [numLt, D.val, Rat.lt_irrefl]
  lt_trans := by
    intro a b c
    cases a <;> cases b <;> cases c <;> simp [numLt, D.val] <;> grind
  trichotomy := by
    intro a b ha hb
    cases a <;> cases b <;> simp_all [numLt, numEq, D.val, D.isNaN] <;> grind
  lt_congr := by
    intro a b c
    cases a <;> cases b <;> cases c <;> simp [numLt, numEq, D.val] <;> grind

/-- NaN is unequal to, and unordered with, everything (itself included) -/
theorem nan_six (op : Op) (y : D) :
    six numLt numEq op .nan y = (op == .ne) ∧ six numLt numEq op y .nan = (op == .ne) := by
  cases op <;> cases y <;> simp [six, numLt, numEq] <;> rfl

end EPV.CmpSpec

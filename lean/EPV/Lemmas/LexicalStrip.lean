/-
C10 — `str.strip(' \t\n\r')` against `collapse_white_spaces`: for every string either the two results are the same
string, or the stripped string still contains a white character and the collapsed one contains a space.  Hence a
recogniser that rejects every string with a white character gives the same verdict on both (`strip_vs_collapse`).
-/
import EPV.Lemmas.LexicalHex
namespace EPV.LexLemmas
open EPV

theorem stripSp_cons_sp (x : List Char) : Lex.stripSp (' ' :: x) = Lex.stripSp x := by
  unfold Lex.stripSp
  rw [List.dropWhile_cons_of_pos (by decide)]

theorem subWhite_false_true (r : List Char) :
    Lex.subWhite false r = Lex.subWhite true r ∨ Lex.subWhite false r = ' ' :: Lex.subWhite true r := by
  cases r with
  | nil => exact Or.inl rfl
  | cons c r =>
    by_cases hc : Lex.isPyWhite c = true
    · right; simp [Lex.subWhite, hc]
    · left; simp [Lex.subWhite, hc]

theorem stripSp_subWhite_true (r : List Char) :
    Lex.stripSp (Lex.subWhite true r) = Lex.stripSp (Lex.subWhite false r) := by
  rcases subWhite_false_true r with h | h
  · rw [h]
  · rw [h, stripSp_cons_sp]

theorem collapse_cons_white (c : Char) (r : List Char) (hc : Lex.isPyWhite c = true) :
    Lex.collapse (c :: r) = Lex.collapse r := by
  unfold Lex.collapse
  simp only [Lex.subWhite, hc, if_true, Bool.false_eq_true, if_false]
  rw [stripSp_cons_sp, stripSp_subWhite_true]

theorem collapse_dropWhile : (s : List Char) → Lex.collapse (s.dropWhile Lex.isPyWhite) = Lex.collapse s
  | [] => rfl
  | c :: r => by
    by_cases hc : Lex.isPyWhite c = true
    · rw [List.dropWhile_cons_of_pos hc, collapse_dropWhile r, collapse_cons_white c r hc]
    · rw [List.dropWhile_cons_of_neg hc]

theorem subWhite_snoc_white (c : Char) (hc : Lex.isPyWhite c = true) : (x : List Char) → (b : Bool) →
    Lex.subWhite b (x ++ [c]) = Lex.subWhite b x ∨ Lex.subWhite b (x ++ [c]) = Lex.subWhite b x ++ [' ']
  | [], b => by cases b <;> simp [Lex.subWhite, hc]
  | d :: x, b => by
    by_cases hd : Lex.isPyWhite d = true
    · cases b
      · rcases subWhite_snoc_white c hc x true with h | h
        · left; simp [Lex.subWhite, hd, h]
        · right; simp [Lex.subWhite, hd, h]
      · rcases subWhite_snoc_white c hc x true with h | h
        · left; simp [Lex.subWhite, hd, h]
        · right; simp [Lex.subWhite, hd, h]
    · rcases subWhite_snoc_white c hc x false with h | h
      · left; simp [Lex.subWhite, hd, h]
      · right; simp [Lex.subWhite, hd, h]

theorem stripSp_snoc_sp (y : List Char) : Lex.stripSp (y ++ [' ']) = Lex.stripSp y := by
  unfold Lex.stripSp
  rw [List.dropWhile_append]
  by_cases he : (y.dropWhile (· == ' ')).isEmpty = true
  · rw [if_pos he]
    have : y.dropWhile (· == ' ') = [] := List.isEmpty_iff.1 he
    rw [this]; rfl
  · rw [if_neg he, List.reverse_append]
    rfl

theorem collapse_snoc_white (c : Char) (x : List Char) (hc : Lex.isPyWhite c = true) :
    Lex.collapse (x ++ [c]) = Lex.collapse x := by
  unfold Lex.collapse
  rcases subWhite_snoc_white c hc x false with h | h
  · rw [h]
  · rw [h, stripSp_snoc_sp]

theorem collapse_dropWhile_rev : (l : List Char) →
    Lex.collapse (l.dropWhile Lex.isPyWhite).reverse = Lex.collapse l.reverse
  | [] => rfl
  | c :: r => by
    by_cases hc : Lex.isPyWhite c = true
    · rw [List.dropWhile_cons_of_pos hc, collapse_dropWhile_rev r, List.reverse_cons, collapse_snoc_white c _ hc]
    · rw [List.dropWhile_cons_of_neg hc]

/-- collapsing ignores what `strip` removes -/
theorem collapse_pyStrip (s : List Char) : Lex.collapse (Lex.pyStrip s) = Lex.collapse s := by
  unfold Lex.pyStrip
  have e : Lex.isPyStripWhite = Lex.isPyWhite := rfl
  rw [e, collapse_dropWhile_rev, List.reverse_reverse, collapse_dropWhile]

/-! ### a white character inside the stripped string leaves a space in the collapsed one -/

theorem subWhite_nonwhite_prefix : (u : List Char) → (∀ c ∈ u, Lex.isPyWhite c = false) → (b : Bool) → (rest : List Char) →
    Lex.subWhite b (u ++ rest) = u ++ Lex.subWhite (if u.isEmpty then b else false) rest
  | [], _, b, rest => rfl
  | c :: u, h, b, rest => by
    have hc := h c (List.mem_cons_self ..)
    have ih := subWhite_nonwhite_prefix u (fun x hx => h x (List.mem_cons_of_mem _ hx)) false rest
    simp only [List.cons_append, Lex.subWhite, hc, Bool.false_eq_true, if_false, ih, List.isEmpty_cons]
    cases u <;> rfl

theorem mem_subWhite_of_nonwhite (l : Char) (hl : Lex.isPyWhite l = false) : (v : List Char) → (b : Bool) → l ∈ v →
    l ∈ Lex.subWhite b v
  | c :: v, b, h => by
    rcases List.mem_cons.1 h with h | h
    · subst h
      simp [Lex.subWhite, hl]
    · have ih := fun b => mem_subWhite_of_nonwhite l hl v b h
      unfold Lex.subWhite
      split
      · split
        · exact ih _
        · exact List.mem_cons_of_mem _ (ih _)
      · exact List.mem_cons_of_mem _ (ih _)

/-- trailing strip keeps everything in front of a non-space character -/
theorem rstrip_keeps (A B : List Char) (l : Char) (hl : (l == ' ') = false) :
    ∃ T, ((A ++ l :: B).reverse.dropWhile (· == ' ')).reverse = A ++ l :: T := by
  rw [List.reverse_append, List.reverse_cons, List.append_assoc, List.dropWhile_append]
  have h1 : ([l] ++ A.reverse).dropWhile (· == ' ') = [l] ++ A.reverse := by
    rw [List.singleton_append, List.dropWhile_cons_of_neg (by simp [hl])]
  split
  · rw [h1]; exact ⟨[], by simp⟩
  · exact ⟨(B.reverse.dropWhile (· == ' ')).reverse, by simp⟩

theorem nonwhite_ne_sp (c : Char) (h : Lex.isPyWhite c = false) : (c == ' ') = false := by
  apply Bool.eq_false_iff.2
  intro e
  have : c = ' ' := by simpa using e
  subst this
  exact absurd h (by decide)

theorem mem_takeWhile_pred {α} (p : α → Bool) : (l : List α) → (c : α) → c ∈ l.takeWhile p → p c = true
  | a :: l, c, h => by
    by_cases ha : p a = true
    · rw [List.takeWhile_cons_of_pos ha] at h
      rcases List.mem_cons.1 h with h | h
      · rw [h]; exact ha
      · exact mem_takeWhile_pred p l c h
    · rw [List.takeWhile_cons_of_neg ha] at h; cases h

/-- a string that starts and ends with non-white characters and has a white character keeps a space -/
theorem sp_mem_collapse (m : List Char) (h0 : ∀ c, m.head? = some c → Lex.isPyWhite c = false)
    (h1 : ∀ c, m.getLast? = some c → Lex.isPyWhite c = false) (w : Char) (hw : w ∈ m) (hww : Lex.isPyWhite w = true) :
    ' ' ∈ Lex.collapse m := by
  -- split at the first white character
  have hsplit : m = m.takeWhile (fun c => !Lex.isPyWhite c) ++ m.dropWhile (fun c => !Lex.isPyWhite c) :=
    (List.takeWhile_append_dropWhile ..).symm
  generalize hu : m.takeWhile (fun c => !Lex.isPyWhite c) = u at hsplit
  generalize hv : m.dropWhile (fun c => !Lex.isPyWhite c) = v at hsplit
  have hun : ∀ c ∈ u, Lex.isPyWhite c = false := by
    intro c hc; rw [← hu] at hc
    simpa using mem_takeWhile_pred _ _ _ hc
  cases v with
  | nil =>
    rw [List.append_nil] at hsplit
    rw [hsplit] at hw
    rw [hun w hw] at hww; exact Bool.noConfusion hww
  | cons x v =>
    have hx : Lex.isPyWhite x = true := by
      have := head?_dropWhile_false (fun c => !Lex.isPyWhite c) m x (by rw [hv]; rfl)
      simpa using this
    -- u is not empty: the head of m is not white
    cases u with
    | nil =>
      rw [List.nil_append] at hsplit
      have := h0 x (by rw [hsplit]; rfl)
      rw [this] at hx; exact Bool.noConfusion hx
    | cons a u =>
      -- the last character of m is a non-white character of v
      have hlast : ∃ l, l ∈ v ∧ Lex.isPyWhite l = false := by
        cases hvl : v.getLast? with
        | none =>
          have : v = [] := List.getLast?_eq_none_iff.1 hvl
          subst this
          have := h1 x (by rw [hsplit, List.getLast?_append]; rfl)
          rw [this] at hx; exact Bool.noConfusion hx
        | some l =>
          refine ⟨l, List.mem_of_getLast? hvl, h1 l ?_⟩
          rw [hsplit, List.getLast?_append]
          cases v with
          | nil => cases hvl
          | cons y v => rw [List.getLast?_cons_cons, hvl]; rfl
      rcases hlast with ⟨l, hlv, hlw⟩
      have hsub : Lex.subWhite false m = (a :: u) ++ ' ' :: Lex.subWhite true v := by
        rw [hsplit, subWhite_nonwhite_prefix (a :: u) hun false (x :: v)]
        simp [Lex.subWhite, hx]
      have hlm : l ∈ Lex.subWhite true v := mem_subWhite_of_nonwhite l hlw v true hlv
      rcases List.append_of_mem hlm with ⟨B1, B2, hB⟩
      have ha := hun a (List.mem_cons_self ..)
      unfold Lex.collapse Lex.stripSp
      rw [hsub, List.cons_append, List.dropWhile_cons_of_neg (by simp [nonwhite_ne_sp a ha]), hB]
      have : a :: (u ++ ' ' :: (B1 ++ l :: B2)) = (a :: u ++ ' ' :: B1) ++ l :: B2 := by simp
      rw [this]
      rcases rstrip_keeps (a :: u ++ ' ' :: B1) B2 l (nonwhite_ne_sp l hlw) with ⟨T, hT⟩
      rw [hT]
      simp

theorem pyStrip_ends (s : List Char) : (∀ c, (Lex.pyStrip s).head? = some c → Lex.isPyWhite c = false) ∧
    (∀ c, (Lex.pyStrip s).getLast? = some c → Lex.isPyWhite c = false) := by
  unfold Lex.pyStrip
  have e : Lex.isPyStripWhite = Lex.isPyWhite := rfl
  rw [e]
  constructor
  · intro c hc
    rw [List.head?_reverse] at hc
    by_cases hB : ((s.dropWhile Lex.isPyWhite).reverse.dropWhile Lex.isPyWhite) = []
    · rw [hB] at hc; cases hc
    · rw [getLast?_dropWhile _ _ hB, List.getLast?_reverse] at hc
      exact head?_dropWhile_false _ _ _ hc
  · intro c hc
    rw [List.getLast?_reverse] at hc
    exact head?_dropWhile_false _ _ _ hc

/-- **strip against collapse**: the two normalisations give the same string, or both results still contain
white space (the stripped one some white character, the collapsed one a space) -/
theorem pyStrip_or_white (s : List Char) :
    Lex.pyStrip s = Lex.collapse s ∨ ((∃ w ∈ Lex.pyStrip s, Lex.isPyWhite w = true) ∧ ' ' ∈ Lex.collapse s) := by
  by_cases h : ∀ c ∈ Lex.pyStrip s, Lex.isPyWhite c = false
  · left
    rw [← collapse_pyStrip s, collapse_of_no_white _ h]
  · right
    have : ∃ w ∈ Lex.pyStrip s, Lex.isPyWhite w = true := by
      apply Classical.byContradiction
      intro hn
      apply h
      intro c hc
      cases hw : Lex.isPyWhite c with
      | false => rfl
      | true => exact absurd ⟨c, hc, hw⟩ hn
    refine ⟨this, ?_⟩
    rcases this with ⟨w, hw, hww⟩
    rw [← collapse_pyStrip s]
    exact sp_mem_collapse _ (pyStrip_ends s).1 (pyStrip_ends s).2 w hw hww

/-- a recogniser that rejects every string containing a white character cannot tell `strip` from `collapse` -/
theorem strip_vs_collapse (P : List Char → Bool) (hP : ∀ x, (∃ w ∈ x, Lex.isPyWhite w = true) → P x = false) (s : List Char) :
    P (Lex.pyStrip s) = P (Lex.collapse s) := by
  rcases pyStrip_or_white s with h | ⟨h1, h2⟩
  · rw [h]
  · rw [hP _ h1, hP _ ⟨' ', h2, by decide⟩]

/-! ### xs:hexBinary: `validate` strips, the constructor collapses -/

theorem white_not_hex (c : Char) (h : Lex.isPyWhite c = true) : XSD.isHexDigit c = false := by
  have hc : c.toNat = 9 ∨ c.toNat = 10 ∨ c.toNat = 13 ∨ c.toNat = 32 := by
    simpa [Lex.isPyWhite, Lex.pyWhiteCPs] using h
  have : c = Char.ofNat 9 ∨ c = Char.ofNat 10 ∨ c = Char.ofNat 13 ∨ c = Char.ofNat 32 := by
    rcases hc with h | h | h | h
    · exact Or.inl (char_eq_of_toNat _ _ h)
    · exact Or.inr (Or.inl (char_eq_of_toNat _ _ h))
    · exact Or.inr (Or.inr (Or.inl (char_eq_of_toNat _ _ h)))
    · exact Or.inr (Or.inr (Or.inr (char_eq_of_toNat _ _ h)))
  rcases this with h | h | h | h <;> subst h <;> decide

/-- what the pattern (with Python's `$`) accepts: hex digits, possibly followed by one final newline -/
theorem matchHex_chars (m : List Char) (h : Lex.matchHex m = true) :
    ∀ c ∈ m, XSD.isHexDigit c = true ∨ m.getLast? = some '\n' := by
  induction m using Lex.matchHex.induct with
  | case1 a b r hab ih =>
    rw [Lex.matchHex, if_pos hab] at h
    simp only [Bool.and_eq_true, isHexDigit_eq] at hab
    intro c hc
    rcases List.mem_cons.1 hc with hc | hc
    · exact Or.inl (hc ▸ hab.1)
    rcases List.mem_cons.1 hc with hc | hc
    · exact Or.inl (hc ▸ hab.2)
    rcases ih h c hc with h1 | h1
    · exact Or.inl h1
    · right
      cases r with
      | nil => cases hc
      | cons x r => rw [List.getLast?_cons_cons, List.getLast?_cons_cons]; exact h1
  | case2 a b r hab =>
    rw [Lex.matchHex, if_neg hab] at h
    cases r <;> simp [Lex.atEnd] at h
  | case3 r hr =>
    match r with
    | [] => intro c hc; cases hc
    | [x] =>
      intro c hc
      have hx : x = '\n' := by
        simp only [Lex.matchHex, Lex.atEnd] at h
        split at h <;> simp_all
      subst hx
      exact Or.inr rfl
    | a :: b :: r => exact absurd rfl (hr a b r)

theorem hexLex_sp (x : List Char) (h : ' ' ∈ x) : XSD.hexLex x = false := by
  unfold XSD.hexLex
  have : x.all XSD.isHexDigit = false := by
    apply Bool.eq_false_iff.2
    intro ha
    have := List.all_eq_true.1 ha _ h
    exact absurd this (by decide)
  rw [this, Bool.and_false]

/-- `HexBinary.validate` (strip, then the pattern) decides the lexical space of the collapsed string, for every string -/
theorem hexIsValid_eq (s : List Char) : Lex.hexIsValid s = XSD.hexLex (Lex.collapse s) := by
  unfold Lex.hexIsValid
  rcases pyStrip_or_white s with h | ⟨⟨w, hw, hww⟩, h2⟩
  · rw [h, matchHex_eq _ (collapse_no_nl s)]
  · rw [hexLex_sp _ h2]
    apply Bool.eq_false_iff.2
    intro hm
    rcases matchHex_chars _ hm w hw with h1 | h1
    · rw [white_not_hex w hww] at h1; exact Bool.noConfusion h1
    · have := (pyStrip_ends s).2 _ h1
      exact absurd this (by decide)

end EPV.LexLemmas

/-
Lemmas for C20, part 2: the path evaluator commutes with any relabelling of the annotations
(no axis, node test or predicate reads the annotation), provided the two configurations agree on
the attribute lists and on the `*`-under-document flag.
-/
import EPV.Lemmas.SchemaTyping
namespace EPV.Xsd.Sel
open EPV.Xsd

variable {α β : Type}

def Item.map (f : α → β) : Item α → Item β
  | .doc kids => .doc (kids.map f)
  | .elem i a n ats kids => .elem i (f a) n ats (kids.map f)
  | .attr i n v => .attr i n v
  | .leaf i k t => .leaf i k t

theorem fsize_map (f : α → β) (t : Forest α) : fsize (t.map f) = fsize t := by
  induction t with
  | nil => rfl
  | leaf k txt r ih => simp [Forest.map, fsize, ih]
  | elem a n ats x k r ihk ihr => simp [Forest.map, fsize, ihk, ihr]

theorem sibs_map (f : α → β) (t : Forest α) : ∀ start,
    sibs start (t.map f) = (sibs start t).map (Item.map f) := by
  induction t with
  | nil => intro _; rfl
  | leaf k txt r ih => intro start; simp [Forest.map, sibs, ih, Item.map]
  | elem a n ats x k r _ ihr => intro start; simp [Forest.map, sibs, ihr, Item.map, fsize_map]

theorem descF_map (f : α → β) (t : Forest α) : ∀ start,
    descF start (t.map f) = (descF start t).map (Item.map f) := by
  induction t with
  | nil => intro _; rfl
  | leaf k txt r ih => intro start; simp [Forest.map, descF, ih, Item.map]
  | elem a n ats x k r ihk ihr =>
    intro start; simp [Forest.map, descF, ihk, ihr, Item.map, fsize_map]

theorem children_map (f : α → β) (c : Item α) :
    children (c.map f) = (children c).map (Item.map f) := by
  cases c <;> simp [Item.map, children, sibs_map]

theorem descendants_map (f : α → β) (c : Item α) :
    descendants (c.map f) = (descendants c).map (Item.map f) := by
  cases c <;> simp [Item.map, descendants, descF_map]

theorem idx_map (f : α → β) (c : Item α) : (c.map f).idx? = c.idx? := by
  cases c <;> rfl

theorem isDoc_map (f : α → β) (c : Item α) : isDoc (c.map f) = isDoc c := by
  cases c <;> rfl

theorem testOk_map (f : α → β) (ax : Axis) (t : NTest) (c : Item α) :
    testOk ax t (c.map f) = testOk ax t c := by
  cases c <;> cases ax <;> cases t <;> rfl

/-- the two configurations agree modulo the relabelling -/
structure Agree (f : α → β) (ca : Cfg α) (cb : Cfg β) : Prop where
  drop : cb.dropRoot = ca.dropRoot
  dummy : cb.dummy = ca.dummy
  attrs : ∀ a ats, cb.attrsOf (f a) ats = ca.attrsOf a ats

theorem attributes_map {f : α → β} {ca : Cfg α} {cb : Cfg β} (h : Agree f ca cb) (c : Item α) :
    attributes cb (c.map f) = (attributes ca c).map (Item.map f) := by
  cases c <;> simp [Item.map, attributes, h.attrs, Function.comp_def]

theorem hasChildIdx_map {f : α → β} {ca : Cfg α} {cb : Cfg β} (h : Agree f ca cb) (i : Nat) (p : Item α) :
    hasChildIdx cb i (p.map f) = hasChildIdx ca i p := by
  unfold hasChildIdx
  rw [children_map, attributes_map h, ← List.map_append, List.any_map]
  congr 1
  funext x
  simp [idx_map]

theorem isDocB_map (f : α → β) (p : Item α) : parentOf.isDocB (p.map f) = parentOf.isDocB p := by
  cases p <;> rfl

theorem parentOf_map {f : α → β} {ca : Cfg α} {cb : Cfg β} (h : Agree f ca cb) (rt c : Item α) :
    parentOf cb (rt.map f) (c.map f) = (parentOf ca rt c).map (Item.map f) := by
  unfold parentOf
  rw [idx_map]
  cases c.idx? with
  | none => rfl
  | some i =>
    simp only
    have hl : (rt.map f :: descendants (rt.map f)) = (rt :: descendants rt).map (Item.map f) := by
      simp [descendants_map]
    rw [hl, List.find?_map]
    have hp : (hasChildIdx cb i ∘ Item.map f) = hasChildIdx ca i := by
      funext p; exact hasChildIdx_map h i p
    rw [hp]
    cases (rt :: descendants rt).find? (hasChildIdx ca i) with
    | none => rfl
    | some p =>
      simp only [Option.map_some, isDocB_map, h.dummy]
      split <;> rfl

theorem ancestorsOf_map {f : α → β} {ca : Cfg α} {cb : Cfg β} (h : Agree f ca cb) (rt : Item α) :
    ∀ (n : Nat) (c : Item α),
      ancestorsOf cb (rt.map f) n (c.map f) = (ancestorsOf ca rt n c).map (Item.map f)
  | 0, _ => rfl
  | n + 1, c => by
    simp only [ancestorsOf, parentOf_map h]
    cases parentOf ca rt c with
    | none => rfl
    | some p => simp [ancestorsOf_map h rt n p]

theorem isAttrItem_map (f : α → β) (c : Item α) : isAttrItem (c.map f) = isAttrItem c := by
  cases c <;> rfl

theorem idxLt_map (f : α → β) (a b : Item α) : idxLt (a.map f) (b.map f) = idxLt a b := by
  simp [idxLt, idx_map]

theorem siblings_map {f : α → β} {ca : Cfg α} {cb : Cfg β} (h : Agree f ca cb) (rt c : Item α) :
    siblings cb (rt.map f) (c.map f) = (siblings ca rt c).map (Item.map f) := by
  unfold siblings
  rw [isAttrItem_map, parentOf_map h]
  split
  · rfl
  · cases parentOf ca rt c with
    | none => rfl
    | some p => simp [children_map]

theorem axisNodes_map {f : α → β} {ca : Cfg α} {cb : Cfg β} (h : Agree f ca cb) (rt : Item α) (ax : Axis)
    (c : Item α) : axisNodes cb (rt.map f) ax (c.map f) = (axisNodes ca rt ax c).map (Item.map f) := by
  cases ax
  case parent =>
    simp only [axisNodes, parentOf_map h]
    cases parentOf ca rt c <;> rfl
  case ancestor =>
    simp only [axisNodes, descendants_map, List.length_map, ancestorsOf_map h]
  case follSibling =>
    simp only [axisNodes, siblings_map h, List.filter_map]
    congr 1
    apply List.filter_congr
    intro x _
    simp [idxLt_map]
  case precSibling =>
    simp only [axisNodes, siblings_map h, List.filter_map, List.map_reverse]
    congr 2
    apply List.filter_congr
    intro x _
    simp [idxLt_map]
  all_goals simp [axisNodes, children_map, descendants_map, attributes_map h]

theorem stepNodes_map {f : α → β} {ca : Cfg α} {cb : Cfg β} (h : Agree f ca cb) (rt : Item α) (ax : Axis)
    (t : NTest) (c : Item α) :
    stepNodes cb (rt.map f) ax t (c.map f) = (stepNodes ca rt ax t c).map (Item.map f) := by
  unfold stepNodes
  rw [h.drop, isDoc_map, axisNodes_map h]
  split
  · rfl
  · rw [List.filter_map]
    congr 1
    apply List.filter_congr
    intro x _
    simp [testOk_map]

theorem dedup_map (f : α → β) (l : List (Item α)) : ∀ seen,
    dedup (l.map (Item.map f)) seen = (dedup l seen).map (Item.map f) := by
  induction l with
  | nil => intro _; rfl
  | cons x xs ih =>
    intro seen
    simp only [List.map_cons, dedup, idx_map]
    split
    · exact ih seen
    · simp [ih]

theorem filterPosAux_map (f : α → β) (g : Item β → Nat → Nat → Bool) (h : Item α → Nat → Nat → Bool)
    (hgh : ∀ it i n, g (it.map f) i n = h it i n) (n : Nat) (l : List (Item α)) : ∀ i,
    filterPosAux g n (l.map (Item.map f)) i = (filterPosAux h n l i).map (Item.map f) := by
  induction l with
  | nil => intro _; rfl
  | cons x xs ih =>
    intro i
    simp only [List.map_cons, filterPosAux, hgh]
    split <;> simp [ih]

theorem filterPos_map (f : α → β) (g : Item β → Nat → Nat → Bool) (h : Item α → Nat → Nat → Bool)
    (hgh : ∀ it i n, g (it.map f) i n = h it i n) (l : List (Item α)) :
    filterPos g (l.map (Item.map f)) = (filterPos h l).map (Item.map f) := by
  unfold filterPos
  rw [List.length_map]
  exact filterPosAux_map f g h hgh _ l 1

/-- **evaluation commutes with relabelling** -/
theorem eval_map {f : α → β} {ca : Cfg α} {cb : Cfg β} (h : Agree f ca cb) (rt : Item α) (e : E) :
    ∀ (c : Item α) (pos size : Nat),
      eval cb (rt.map f) e (c.map f) pos size =
        ((eval ca rt e c pos size).1.map (Item.map f), (eval ca rt e c pos size).2) := by
  induction e with
  | here => intro c pos size; simp [eval]
  | root => intro c pos size; simp [eval]
  | step p ax t q1 q2 ihp ih1 ih2 =>
    intro c pos size
    have hflat : ((eval ca rt p c pos size).1.map (Item.map f)).flatMap (fun c' =>
          filterPos (fun it i n => (eval cb (rt.map f) q2 it i n).2)
            (filterPos (fun it i n => (eval cb (rt.map f) q1 it i n).2) (stepNodes cb (rt.map f) ax t c'))) =
        ((eval ca rt p c pos size).1.flatMap (fun c' =>
          filterPos (fun it i n => (eval ca rt q2 it i n).2)
            (filterPos (fun it i n => (eval ca rt q1 it i n).2) (stepNodes ca rt ax t c')))).map (Item.map f) := by
      rw [List.flatMap_map, List.map_flatMap]
      congr 1
      funext c'
      rw [stepNodes_map h,
        filterPos_map f _ (fun it i n => (eval ca rt q1 it i n).2) (by intro it i n; simp [ih1]),
        filterPos_map f _ (fun it i n => (eval ca rt q2 it i n).2) (by intro it i n; simp [ih2])]
    simp only [eval, ihp, hflat, dedup_map]
    simp
  | ptrue => intro c pos size; simp [eval]
  | pos n => intro c pos size; simp [eval]
  | last => intro c pos size; simp [eval]
  | posLe n => intro c pos size; simp [eval]
  | exist p ih => intro c pos size; simp [eval, ih]
  | countGt p n ih => intro c pos size; simp [eval, ih]
  | not q ih => intro c pos size; simp [eval, ih]
  | and q r ihq ihr => intro c pos size; simp [eval, ihq, ihr]
  | or q r ihq ihr => intro c pos size; simp [eval, ihq, ihr]

theorem startItem_map (f : α → β) (fromDoc : Bool) (t : Forest α) :
    startItem fromDoc (t.map f) = (startItem fromDoc t).map f := by
  unfold startItem
  cases fromDoc with
  | true => rfl
  | false =>
    simp only [Bool.false_eq_true, if_false, sibs_map]
    cases sibs 0 t <;> rfl

theorem select_map {f : α → β} {ca : Cfg α} {cb : Cfg β} (h : Agree f ca cb) (fromDoc : Bool)
    (t : Forest α) (e : E) : select cb fromDoc (t.map f) e = select ca fromDoc t e := by
  unfold select
  have hrt : (Item.doc (t.map f) : Item β) = (Item.doc t : Item α).map f := rfl
  rw [startItem_map, hrt, eval_map h]
  congr 1
  simp only [List.filterMap_map]
  congr 1
  funext x
  simp [idx_map]

end EPV.Xsd.Sel

/-
C12 helper lemmas for the `CharacterClass` model: exactness of the emptiness test of symbolic
sets, and the set-level meaning of `add`, `complement`, `__isub__` on *pure* classes (classes with
an empty positive or an empty negative part — all classes outside finding F12).
-/
import EPV.Spec.XsdRegex
namespace EPV.Regex

/-! ### emptiness of a symbolic set is decided on its bounds -/

theorem memR_congr (l : List (Nat × Nat)) (x y : Nat)
    (h : ∀ r ∈ l, ((r.1 ≤ x ↔ r.1 ≤ y) ∧ (r.2 ≤ x ↔ r.2 ≤ y))) : memR x l = memR y l := by
  unfold memR
  induction l with
  | nil => rfl
  | cons r l ih =>
    simp only [List.any_cons]
    rw [ih (fun r' hr' => h r' (List.mem_cons_of_mem _ hr'))]
    have ⟨h1, h2⟩ := h r List.mem_cons_self
    have h3 : (x < r.2) ↔ (y < r.2) := by rw [← Nat.not_le, ← Nat.not_le, h2]
    simp [h1, h3]

theorem mem_congr (e : SetE) (x y : Nat) (h : ∀ b ∈ e.bounds, (b ≤ x ↔ b ≤ y)) : e.mem x = e.mem y := by
  induction e with
  | ranges l =>
    simp only [SetE.mem]
    apply memR_congr
    intro r hr
    simp only [SetE.bounds, List.mem_flatMap] at h
    exact ⟨h r.1 ⟨r, hr, by simp⟩, h r.2 ⟨r, hr, by simp⟩⟩
  | union a b iha ihb | inter a b iha ihb | diff a b iha ihb =>
    simp only [SetE.bounds, List.mem_append] at h
    simp only [SetE.mem, iha (fun b hb => h b (.inl hb)), ihb (fun b hb => h b (.inr hb))]

theorem memR_bound {l : List (Nat × Nat)} {x : Nat} (h : memR x l = true) : ∃ r ∈ l, r.1 ≤ x := by
  unfold memR at h
  simp only [List.any_eq_true, Bool.and_eq_true, decide_eq_true_eq] at h
  obtain ⟨r, hr, h1, _⟩ := h
  exact ⟨r, hr, h1⟩

theorem mem_bound {e : SetE} {x : Nat} (h : e.mem x = true) : ∃ b ∈ e.bounds, b ≤ x := by
  induction e with
  | ranges l =>
    obtain ⟨r, hr, h1⟩ := memR_bound h
    exact ⟨r.1, by simp only [SetE.bounds, List.mem_flatMap]; exact ⟨r, hr, by simp⟩, h1⟩
  | union a b iha ihb =>
    simp only [SetE.mem, Bool.or_eq_true] at h
    simp only [SetE.bounds, List.mem_append]
    rcases h with h | h
    · obtain ⟨b', hb, hle⟩ := iha h; exact ⟨b', .inl hb, hle⟩
    · obtain ⟨b', hb, hle⟩ := ihb h; exact ⟨b', .inr hb, hle⟩
  | inter a b iha _ | diff a b iha _ =>
    simp only [SetE.mem, Bool.and_eq_true] at h
    simp only [SetE.bounds, List.mem_append]
    obtain ⟨b', hb, hle⟩ := iha h.1; exact ⟨b', .inl hb, hle⟩

theorem exists_max_le (B : List Nat) (x : Nat) (h : ∃ b ∈ B, b ≤ x) :
    ∃ m ∈ B, m ≤ x ∧ ∀ b ∈ B, b ≤ x → b ≤ m := by
  induction B with
  | nil => obtain ⟨b, hb, _⟩ := h; cases hb
  | cons a B ih =>
    by_cases hB : ∃ b ∈ B, b ≤ x
    · obtain ⟨m, hm, hmx, hmax⟩ := ih hB
      by_cases ha : a ≤ x ∧ m < a
      · refine ⟨a, List.mem_cons_self, ha.1, ?_⟩
        intro b hb hbx
        rcases List.mem_cons.1 hb with rfl | hb
        · exact Nat.le_refl _
        · have := hmax b hb hbx; omega
      · refine ⟨m, List.mem_cons_of_mem _ hm, hmx, ?_⟩
        intro b hb hbx
        rcases List.mem_cons.1 hb with rfl | hb
        · omega
        · exact hmax b hb hbx
    · obtain ⟨b, hb, hbx⟩ := h
      rcases List.mem_cons.1 hb with rfl | hb
      · refine ⟨b, List.mem_cons_self, hbx, ?_⟩
        intro b' hb' hbx'
        rcases List.mem_cons.1 hb' with rfl | hb'
        · exact Nat.le_refl _
        · exact absurd ⟨b', hb', hbx'⟩ hB
      · exact absurd ⟨b, hb, hbx⟩ hB

/-- `SetE.isEmpty` is exact: it answers `true` iff no natural number belongs to the set -/
theorem isEmpty_iff (e : SetE) : e.isEmpty = true ↔ ∀ x, e.mem x = false := by
  unfold SetE.isEmpty
  constructor
  · intro h x
    cases hx : e.mem x with
    | false => rfl
    | true =>
      obtain ⟨m, hm, hmx, hmax⟩ := exists_max_le e.bounds x (mem_bound hx)
      have hc : e.mem m = e.mem x := mem_congr e m x (fun b hb =>
        ⟨fun h1 => Nat.le_trans h1 hmx, fun h1 => hmax b hb h1⟩)
      have := (List.all_eq_true.1 h) m hm
      simp [hc, hx] at this
  · intro h
    exact List.all_eq_true.2 (fun b _ => by simp [h b])

theorem isEmpty_false_iff (e : SetE) : e.isEmpty = false ↔ ∃ x, e.mem x = true := by
  constructor
  · intro h
    apply Classical.byContradiction
    intro hn
    have : e.isEmpty = true := (isEmpty_iff e).2 (fun x => by
      cases hx : e.mem x with
      | false => rfl
      | true => exact absurd ⟨x, hx⟩ hn)
    simp [this] at h
  · rintro ⟨x, hx⟩
    cases he : e.isEmpty with
    | false => rfl
    | true => have := (isEmpty_iff e).1 he x; simp [this] at hx

/-! ### pure classes -/

/-- a class with an empty positive or an empty negative part (every class outside F12) -/
def CC.Pure (c : CC) : Prop := c.neg.isEmpty = true ∨ c.pos.isEmpty = true

theorem all_mem (x : Nat) : SetE.all.mem x = decide (x < maxCP1) := by
  simp [SetE.all, SetE.mem, memR]

theorem none_mem (x : Nat) : SetE.none.mem x = false := by
  simp [SetE.none, SetE.mem, memR]

theorem none_isEmpty : SetE.none.isEmpty = true := (isEmpty_iff _).2 none_mem

/-- `complement()` of a pure class is pure and denotes the set complement (within the code points) -/
theorem complement_pure (c : CC) (hp : c.Pure) :
    c.complement.Pure ∧ ∀ x, x < maxCP1 → c.complement.contains x = !c.contains x := by
  unfold CC.Pure at *
  cases hpe : c.pos.isEmpty <;> cases hne : c.neg.isEmpty
  · simp [hpe, hne] at hp
  · -- positive non-empty, negative empty: swap
    have hN := (isEmpty_iff _).1 hne
    refine ⟨?_, ?_⟩
    · simp [CC.complement, hpe, hne]
    · intro x _
      simp [CC.complement, CC.contains, hpe, hne, hN x]
  · have hP := (isEmpty_iff _).1 hpe
    refine ⟨?_, ?_⟩
    · simp [CC.complement, hpe, hne]
    · intro x _
      simp [CC.complement, CC.contains, hpe, hne, hP x]
  · have hP := (isEmpty_iff _).1 hpe
    refine ⟨?_, ?_⟩
    · simp [CC.complement, hpe, hne]
    · intro x hx
      simp [CC.complement, CC.contains, hpe, hne, hP x, all_mem, hx]

theorem union_isEmpty (a b : SetE) : (SetE.union a b).isEmpty = (a.isEmpty && b.isEmpty) := by
  cases ha : a.isEmpty <;> cases hb : b.isEmpty
  · obtain ⟨x, hx⟩ := (isEmpty_false_iff a).1 ha
    exact (isEmpty_false_iff _).2 ⟨x, by simp [SetE.mem, hx]⟩
  · obtain ⟨x, hx⟩ := (isEmpty_false_iff a).1 ha
    exact (isEmpty_false_iff _).2 ⟨x, by simp [SetE.mem, hx]⟩
  · obtain ⟨x, hx⟩ := (isEmpty_false_iff b).1 hb
    exact (isEmpty_false_iff _).2 ⟨x, by simp [SetE.mem, hx]⟩
  · have h1 := (isEmpty_iff a).1 ha
    have h2 := (isEmpty_iff b).1 hb
    exact (isEmpty_iff _).2 (fun x => by simp [SetE.mem, h1 x, h2 x])

theorem diff_isEmpty_of_left {a b : SetE} (h : a.isEmpty = true) : (SetE.diff a b).isEmpty = true :=
  (isEmpty_iff _).2 (fun x => by simp [SetE.mem, (isEmpty_iff a).1 h x])

theorem inter_isEmpty_of_left {a b : SetE} (h : a.isEmpty = true) : (SetE.inter a b).isEmpty = true :=
  (isEmpty_iff _).2 (fun x => by simp [SetE.mem, (isEmpty_iff a).1 h x])

theorem contains_mk (p n : SetE) (x : Nat) :
    (CC.mk p n).contains x = if !n.isEmpty then !n.mem x || p.mem x else p.mem x := rfl

/-- `self -= other` on pure classes is pure and denotes the set difference -/
theorem isub_pure (c o : CC) (hc : c.Pure) (ho : o.Pure) :
    (c.isub o).Pure ∧ ∀ x, (c.isub o).contains x = (c.contains x && !o.contains x) := by
  unfold CC.Pure at *
  cases hcn : c.neg.isEmpty <;> cases hon : o.neg.isEmpty
  · -- both have a negative part, hence empty positive parts
    have hcp : c.pos.isEmpty = true := by simpa [hcn] using hc
    have hop : o.pos.isEmpty = true := by simpa [hon] using ho
    have hCP := (isEmpty_iff _).1 hcp
    have hOP := (isEmpty_iff _).1 hop
    have hneg : (SetE.union SetE.none o.pos).isEmpty = true := by
      rw [union_isEmpty, none_isEmpty, hop]; rfl
    have hrew : c.isub o = ⟨.diff (.union c.pos (.diff o.neg c.neg)) o.pos, .union .none o.pos⟩ := by
      simp [CC.isub, hcn, hon]
    rw [hrew]
    refine ⟨.inl hneg, fun x => ?_⟩
    rw [contains_mk, hneg]
    simp [CC.contains, hcn, hon, SetE.mem, hCP x, hOP x, Bool.and_comm]
  · -- self negative, other positive only
    have hcp : c.pos.isEmpty = true := by simpa [hcn] using hc
    have hCP := (isEmpty_iff _).1 hcp
    have hON := (isEmpty_iff _).1 hon
    have hneg : (SetE.union c.neg o.pos).isEmpty = false := by
      rw [union_isEmpty, hcn]; rfl
    have hrew : c.isub o = ⟨.diff c.pos o.pos, .union c.neg o.pos⟩ := by
      simp [CC.isub, hcn, hon]
    rw [hrew]
    refine ⟨.inr (diff_isEmpty_of_left hcp), fun x => ?_⟩
    rw [contains_mk, hneg]
    simp [CC.contains, hcn, hon, SetE.mem, hCP x]
  · -- self positive only, other negative
    have hop : o.pos.isEmpty = true := by simpa [hon] using ho
    have hOP := (isEmpty_iff _).1 hop
    have hCN := (isEmpty_iff _).1 hcn
    have hrew : c.isub o = ⟨.diff (.inter c.pos o.neg) o.pos, c.neg⟩ := by
      simp [CC.isub, hcn, hon]
    rw [hrew]
    refine ⟨.inl hcn, fun x => ?_⟩
    rw [contains_mk, hcn]
    simp [CC.contains, hcn, hon, SetE.mem, hOP x]
  · -- both positive only
    have hrew : c.isub o = ⟨.diff c.pos o.pos, c.neg⟩ := by
      simp [CC.isub, hcn, hon]
    rw [hrew]
    refine ⟨.inl hcn, fun x => ?_⟩
    rw [contains_mk, hcn]
    simp [CC.contains, hcn, hon, SetE.mem]

/-! ### building a class from its items -/

theorem any_congr_mem {α} {l : List α} {f g : α → Bool} (h : ∀ a ∈ l, f a = g a) : l.any f = l.any g := by
  induction l with
  | nil => rfl
  | cons a l ih =>
    simp only [List.any_cons, h a List.mem_cons_self, ih (fun b hb => h b (List.mem_cons_of_mem _ hb))]

theorem foldl_addItem_pos (items : List Item) (c : CC) (x : Nat) :
    (items.foldl CC.addItem c).pos.mem x = (c.pos.mem x || items.any fun it => !it.neg && it.set.mem x) := by
  induction items generalizing c with
  | nil => simp
  | cons it items ih =>
    simp only [List.foldl_cons, List.any_cons, ih]
    unfold CC.addItem
    cases it.neg <;> simp [SetE.mem, Bool.or_assoc]

theorem foldl_addItem_neg (items : List Item) (c : CC) (x : Nat) :
    (items.foldl CC.addItem c).neg.mem x = (c.neg.mem x || items.any fun it => it.neg && it.set.mem x) := by
  induction items generalizing c with
  | nil => simp
  | cons it items ih =>
    simp only [List.foldl_cons, List.any_cons, ih]
    unfold CC.addItem
    cases it.neg <;> simp [SetE.mem, Bool.or_assoc]

/-- outside F12 the class built from the items is pure and denotes the union of the items -/
theorem group_base (items : List Item) (h12 : f12Group items = false) (hne : negNonempty items = true) :
    (items.foldl CC.addItem CC.new).Pure ∧
    ∀ x, (items.foldl CC.addItem CC.new).contains x = items.any (·.mem x) := by
  by_cases hneg : items.any (·.neg) = true
  · -- a negated escape, hence it is the only item
    have hlen : ¬ 2 ≤ items.length := by
      intro h2; simp [f12Group, hneg, h2] at h12
    match items, hneg, hlen, hne with
    | [it], hneg, _, hne =>
      have hn : it.neg = true := by simpa using hneg
      have hse : it.set.isEmpty = false := by simpa [negNonempty, hn] using hne
      have hpos : (SetE.union SetE.none it.set).isEmpty = false := by
        rw [union_isEmpty, hse]; simp
      refine ⟨?_, ?_⟩
      · right
        simp [CC.addItem, hn, CC.new, none_isEmpty]
      · intro x
        simp [CC.addItem, hn, CC.new, CC.contains, hpos, Item.mem, SetE.mem, none_mem]
    | [], hneg, _, _ => simp at hneg
    | _ :: _ :: _, _, hlen, _ => simp at hlen
  · have hall : ∀ it ∈ items, it.neg = false := by
      intro it hit
      cases h : it.neg with
      | false => rfl
      | true => exact absurd (List.any_eq_true.2 ⟨it, hit, h⟩) hneg
    have hN : ∀ x, (items.foldl CC.addItem CC.new).neg.mem x = false := by
      intro x
      rw [foldl_addItem_neg]
      simp only [CC.new, none_mem, Bool.false_or]
      apply Bool.eq_false_iff.2
      intro h
      obtain ⟨it, hit, h⟩ := List.any_eq_true.1 h
      simp [hall it hit] at h
    have hne' := (isEmpty_iff _).2 hN
    refine ⟨.inl hne', ?_⟩
    intro x
    simp only [CC.contains, hne', Bool.not_true]
    rw [foldl_addItem_pos]
    simp only [CC.new, none_mem, Bool.false_or]
    simp only [Bool.false_eq_true, if_false]
    exact any_congr_mem (fun it hit => by simp [Item.mem, hall it hit])

theorem evalGroup_spec (ng : Bool) (items : List Item) (h12 : f12Group items = false)
    (hne : negNonempty items = true) :
    (evalGroup ng items).Pure ∧ ∀ x, x < maxCP1 → (evalGroup ng items).contains x = specGroup ng items x := by
  have ⟨hp, hc⟩ := group_base items h12 hne
  cases ng with
  | false => exact ⟨by simpa [evalGroup] using hp, fun x _ => by simp [evalGroup, specGroup, hc x]⟩
  | true =>
    have ⟨hp', hc'⟩ := complement_pure _ hp
    refine ⟨by simpa [evalGroup] using hp', fun x hx => ?_⟩
    simp only [evalGroup, specGroup, if_true]
    rw [hc' x hx, hc x]

theorem evalClass_spec (e : ClassE) (h12 : e.f12 = false) (hne : e.negTablesNonempty = true) :
    (evalClass e).Pure ∧ ∀ x, x < maxCP1 → (evalClass e).contains x = specClass e x := by
  induction e with
  | plain ng items => exact evalGroup_spec ng items h12 hne
  | minus ng items sub ih =>
    simp only [ClassE.f12, Bool.or_eq_false_iff] at h12
    simp only [ClassE.negTablesNonempty, Bool.and_eq_true] at hne
    have ⟨hp1, hc1⟩ := evalGroup_spec ng items h12.1 hne.1
    have ⟨hp2, hc2⟩ := ih h12.2 hne.2
    have ⟨hp, hc⟩ := isub_pure _ _ hp1 hp2
    refine ⟨by simpa [evalClass] using hp, fun x hx => ?_⟩
    simp only [evalClass, specClass]
    rw [hc x, hc1 x hx, hc2 x hx]

end EPV.Regex

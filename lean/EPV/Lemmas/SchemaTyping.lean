/-
Lemmas for C20, part 1: the match cache of `apply_schema` is transparent, and the walk computes the
declarative type assignment of `EPV/Spec/XsdTyping.lean`.
-/
import EPV.Spec.XsdTyping
namespace EPV.Xsd
open EPV.Xsd.Spec

/-! ## cache transparency -/

/-- every cache entry is the result of the particle loop for its (content model, name) key -/
def CacheOK (s : Schema) (c : Cache) : Prop :=
  ∀ id name v, c.get? id name = some v →
    ∀ ty ps, modelGroup s ty = some (id, ps) → findParticle s name ps = some v

theorem cacheOK_nil (s : Schema) : CacheOK s [] := by
  intro id name v h; simp [Cache.get?] at h

theorem modelGroup_id {s : Schema} {ty : Ty} {id : Nat} {ps : List Particle}
    (h : modelGroup s ty = some (id, ps)) :
    ∃ ct, s.ctype? id = some ct ∧ ps = ct.particles := by
  unfold modelGroup at h
  split at h
  · simp at h
  · rename_i id'
    split at h
    · simp at h
    · rename_i ct hct
      split at h
      · simp at h
      · simp at h; obtain ⟨rfl, rfl⟩ := h; exact ⟨ct, hct, rfl⟩

theorem modelGroup_ps_unique {s : Schema} {ty ty' : Ty} {id : Nat} {ps ps' : List Particle}
    (h : modelGroup s ty = some (id, ps)) (h' : modelGroup s ty' = some (id, ps')) : ps = ps' := by
  obtain ⟨ct, hct, rfl⟩ := modelGroup_id h
  obtain ⟨ct', hct', rfl⟩ := modelGroup_id h'
  rw [hct] at hct'; cases hct'; rfl

theorem Cache.get?_cons (c : Cache) (id id' : Nat) (name name' : String) (d : Option ElemDecl) :
    Cache.get? (((id, name), d) :: c) id' name' =
      if (id == id' && name == name') then some d else Cache.get? c id' name' := by
  simp only [Cache.get?, List.find?_cons]
  split <;> simp_all

theorem declForC_spec (s : Schema) (ctx : Option Ty) (name : String) (c : Cache) (hc : CacheOK s c) :
    (declForC s ctx name c).1 = declFor s ctx name ∧ CacheOK s (declForC s ctx name c).2 := by
  unfold declForC declFor
  cases ctx with
  | none => exact ⟨rfl, hc⟩
  | some ty =>
    simp only
    cases hmg : modelGroup s ty with
    | none => exact ⟨rfl, hc⟩
    | some idps =>
      obtain ⟨id, ps⟩ := idps
      simp only
      cases hget : Cache.get? c id name with
      | some d =>
        simp only
        have := hc id name d hget ty ps hmg
        exact ⟨by rw [this]; rfl, hc⟩
      | none =>
        simp only
        cases hfp : findParticle s name ps with
        | none => exact ⟨rfl, hc⟩
        | some d =>
          refine ⟨rfl, ?_⟩
          intro id' name' v hv ty' ps' hmg'
          rw [Cache.get?_cons] at hv
          split at hv
          · rename_i heq
            simp only [Bool.and_eq_true, beq_iff_eq] at heq
            obtain ⟨rfl, rfl⟩ := heq
            cases hv
            rw [← modelGroup_ps_unique hmg hmg']; exact hfp
          · exact hc id' name' v hv ty' ps' hmg'

theorem assignC_spec (s : Schema) (ctx : Option Ty) (name : String) (x : Xsi) (c : Cache)
    (hc : CacheOK s c) :
    (assignC s ctx name x c).1 = assign s ctx name x ∧ CacheOK s (assignC s ctx name x c).2 := by
  unfold assignC assign
  cases x with
  | absent =>
    have := declForC_spec s ctx name c hc
    simp only
    constructor
    · rw [← this.1]
    · exact this.2
  | unresolvable => exact ⟨rfl, hc⟩
  | name t => exact ⟨rfl, hc⟩

/-- the walk with the cache returns the same annotated forest as the walk without it, from any
cache state that satisfies the invariant, and keeps the invariant -/
theorem applyFC_spec (s : Schema) (t : Forest Unit) :
    ∀ (ctx : Option Ty) (c : Cache), CacheOK s c →
      (applyFC s ctx c t).1 = applyF s ctx t ∧ CacheOK s (applyFC s ctx c t).2 := by
  induction t with
  | nil => intro ctx c hc; exact ⟨rfl, hc⟩
  | leaf k txt r ih =>
    intro ctx c hc
    have := ih ctx c hc
    simp only [applyFC, applyF]
    exact ⟨by rw [this.1], this.2⟩
  | elem a n ats x kids rest ihk ihr =>
    intro ctx c hc
    have ha := assignC_spec s ctx n x c hc
    simp only [applyFC, applyF]
    rw [← ha.1]
    rcases hA : assignC s ctx n x c with ⟨⟨oty, d⟩, c1⟩
    rw [hA] at ha
    cases oty with
    | none =>
      have hr := ihr ctx c1 ha.2
      simp only
      exact ⟨by rw [hr.1], hr.2⟩
    | some ty =>
      have hk := ihk (some ty) c1 ha.2
      have hr := ihr ctx (applyFC s (some ty) c1 kids).2 hk.2
      simp only
      exact ⟨by rw [hk.1, hr.1], hr.2⟩

/-! ## the walk computes the declarative typing -/

theorem resolve_eq_declOf (s : Schema) (p : Particle) (name : String) :
    p.resolve s name = declOf s p name := by
  cases p with
  | elem d sub =>
    simp only [Particle.resolve, declOf, Schema.getElement]
    by_cases h : d.name = name <;> simp [h]
  | any ns sk => rfl

theorem getElement_some {s : Schema} {name : String} {d : ElemDecl}
    (h : s.getElement name = some d) : d ∈ s.elements ∧ d.name = name := by
  unfold Schema.getElement at h
  have h1 := List.mem_of_find?_eq_some h
  have h2 := List.find?_some h
  exact ⟨h1, by simpa using h2⟩

theorem getElement_of_mem {s : Schema} (hu : Consistent s) {name : String} {d : ElemDecl}
    (hm : d ∈ s.elements) (hn : d.name = name) : s.getElement name = some d := by
  unfold Schema.getElement
  cases hf : s.elements.find? (·.name == name) with
  | none =>
    have := List.find?_eq_none.mp hf d hm
    simp [hn] at this
  | some d' =>
    have h1 := List.mem_of_find?_eq_some hf
    have h2 := List.find?_some hf
    have : d'.name = name := by simpa using h2
    rw [hu.globalsUnique d' h1 d hm (by rw [this, hn])]

theorem declares_matches {p : Particle} {name : String} (h : p.declares name = true) :
    p.matches name = true := by
  cases p with
  | elem d sub => simp only [Particle.declares] at h; simp [Particle.matches, h]
  | any ns sk => simp [Particle.declares] at h

def elemMatch (name : String) (p : Particle) : Bool := !p.isWild && p.matches name
def wildMatch (name : String) (p : Particle) : Bool := p.isWild && p.matches name

def combine (fb e w : Option Particle) : Option Particle :=
  match fb with
  | some f => if f.isWild then (match e with | some x => some x | none => some f) else some f
  | none => match e with | some x => some x | none => w

theorem scan_eq (name : String) : ∀ (ps : List Particle) (fb : Option Particle),
    scanParticles name ps fb =
      match ps.find? (·.declares name) with
      | some p => some p
      | none => combine fb (ps.find? (elemMatch name)) (ps.find? (wildMatch name)) := by
  intro ps
  induction ps with
  | nil => intro fb; cases fb <;> simp [scanParticles, combine]
  | cons q qs ih =>
    intro fb
    simp only [scanParticles, List.find?_cons]
    by_cases hd : q.declares name = true
    · simp [hd]
    · simp only [hd, Bool.false_eq_true, if_false]
      rw [ih]
      cases hf : qs.find? (·.declares name) with
      | some p => simp
      | none =>
        have hw2 : q.isWild = true ∨ q.isWild = false := by cases q.isWild <;> simp
        have hm2 : q.matches name = true ∨ q.matches name = false := by cases q.matches name <;> simp
        rcases hm2 with hm | hm <;> rcases hw2 with hw | hw <;> cases fb with
        | none =>
          simp only [elemMatch, wildMatch, betterThan, hm, hw, combine] <;>
            (cases qs.find? (elemMatch name) <;> simp [elemMatch, wildMatch, hw, hm])
        | some f =>
          have hf2 : f.isWild = true ∨ f.isWild = false := by cases f.isWild <;> simp
          rcases hf2 with hfw | hfw <;>
            simp only [elemMatch, wildMatch, betterThan, hm, hw, hfw, combine] <;>
            (cases qs.find? (elemMatch name) <;> simp [elemMatch, wildMatch, hfw, hw, hm])

theorem scan_none_eq (name : String) (ps : List Particle) :
    scanParticles name ps none =
      match ps.find? (·.declares name) with
      | some p => some p
      | none => match ps.find? (elemMatch name) with
        | some p => some p
        | none => ps.find? (wildMatch name) := by
  rw [scan_eq]; rfl

theorem find?_some_of_mem {p : Particle → Bool} {l : List Particle} {x : Particle} (hx : x ∈ l) (hp : p x = true) :
    ∃ y, l.find? p = some y := by
  cases h : l.find? p with
  | some y => exact ⟨y, rfl⟩
  | none => have := List.find?_eq_none.mp h x hx; simp [hp] at this

theorem modelGroup_complex {s : Schema} {id : Nat} {ct : CType} (hct : s.ctypes[id]? = some ct)
    (hns : ∀ t, ct.content ≠ .simple t) : modelGroup s (.complex id) = some (id, ct.particles) := by
  unfold modelGroup Schema.ctype?
  simp only [hct]

theorem modelGroup_complex_inv {s : Schema} {ty : Ty} {id : Nat} {ps : List Particle}
    (hmg : modelGroup s ty = some (id, ps)) :
    ty = .complex id ∧ ∃ ct, s.ctypes[id]? = some ct ∧ ps = ct.particles ∧ ∀ t, ct.content ≠ .simple t := by
  cases ty with
  | simple t => simp [modelGroup] at hmg
  | complex id' =>
    obtain ⟨ct, hct, rfl⟩ := modelGroup_id hmg
    have hid : id' = id := by
      unfold modelGroup at hmg
      split at hmg
      · simp at hmg
      · rename_i id'' heq
        cases heq
        split at hmg
        · simp at hmg
        · split at hmg
          · simp at hmg
          · simp at hmg; exact hmg.1
    subst hid
    refine ⟨rfl, ct, by simpa [Schema.ctype?] using hct, rfl, ?_⟩
    intro t hc
    simp [modelGroup, hct, hc] at hmg

/-- soundness: a declaration found by the walk is a governing declaration -/
theorem declFor_sound {s : Schema} {ctx : Option Ty} {name : String} {d : ElemDecl}
    (h : declFor s ctx name = some d) : GovDecl s ctx name d := by
  unfold declFor at h
  cases ctx with
  | none =>
    obtain ⟨h1, h2⟩ := getElement_some h
    exact .root name d h1 h2
  | some ty =>
    simp only at h
    cases hmg : modelGroup s ty with
    | none => rw [hmg] at h; simp at h
    | some idps =>
      obtain ⟨id, ps⟩ := idps
      rw [hmg] at h
      simp only [findParticle, scan_none_eq] at h
      obtain ⟨rfl, ct, hct, rfl, hns⟩ := modelGroup_complex_inv hmg
      cases hfd : ct.particles.find? (·.declares name) with
      | some p =>
        rw [hfd] at h
        simp only [Option.map_some, Option.join_some] at h
        have hp := List.mem_of_find?_eq_some hfd
        have hdec := List.find?_some hfd
        cases p with
        | any ns sk => simp [Particle.declares] at hdec
        | elem d' sub =>
          simp only [Particle.declares, beq_iff_eq] at hdec
          simp only [Particle.resolve, hdec, beq_self_eq_true, if_true, Option.some.injEq] at h
          subst h; subst hdec
          exact .declared id ct d' sub hct hns hp
      | none =>
        rw [hfd] at h
        have hno : ∀ d' sub', Particle.elem d' sub' ∈ ct.particles → d'.name ≠ name := by
          intro d' sub' hm hn
          have := List.find?_eq_none.mp hfd _ hm
          simp [Particle.declares, hn] at this
        cases hfe : ct.particles.find? (elemMatch name) with
        | some p =>
          rw [hfe] at h
          simp only [Option.map_some, Option.join_some] at h
          have hp := List.mem_of_find?_eq_some hfe
          have hm := List.find?_some hfe
          cases p with
          | any ns sk => simp [elemMatch, Particle.isWild] at hm
          | elem hd sub =>
            simp only [elemMatch, Particle.isWild, Bool.not_false, Bool.true_and] at hm
            have hne := hno hd sub hp
            have hsub : name ∈ sub := by
              simp only [Particle.matches, Bool.or_eq_true, beq_iff_eq, List.contains_eq_mem,
                decide_eq_true_eq] at hm
              rcases hm with hm | hm
              · exact absurd hm hne
              · exact hm
            exact .substitution id ct hd sub name d hct hns hno hp hsub (by rw [← resolve_eq_declOf]; exact h)
        | none =>
          rw [hfe] at h
          simp only at h
          cases hfw : ct.particles.find? (wildMatch name) with
          | none => rw [hfw] at h; simp at h
          | some p =>
            rw [hfw] at h
            simp only [Option.map_some, Option.join_some] at h
            have hp := List.mem_of_find?_eq_some hfw
            have hm := List.find?_some hfw
            cases p with
            | elem hd sub => simp [wildMatch, Particle.isWild] at hm
            | any ns sk =>
              simp only [wildMatch, Particle.isWild, Bool.true_and] at hm
              refine .wildcard id ct ns sk name d hct hns ?_ hp hm (by rw [← resolve_eq_declOf]; exact h)
              intro d' sub' hmem
              have := List.find?_eq_none.mp hfe _ hmem
              simpa [elemMatch, Particle.isWild] using this

/-- completeness: under a consistent schema the walk finds every governing declaration -/
theorem declFor_complete {s : Schema} (hs : Consistent s) {ctx : Option Ty} {name : String}
    {d : ElemDecl} (h : GovDecl s ctx name d) : declFor s ctx name = some d := by
  cases h with
  | root _ _ hm hn => exact getElement_of_mem hs hm hn
  | declared id ct _ sub hct hns hp =>
    unfold declFor
    simp only [modelGroup_complex hct hns, findParticle, scan_none_eq]
    obtain ⟨q, hq⟩ := find?_some_of_mem (p := (·.declares d.name)) hp (by simp [Particle.declares])
    rw [hq]
    simp only [Option.map_some, Option.join_some]
    have hqm := List.mem_of_find?_eq_some hq
    have hdec := List.find?_some hq
    cases q with
    | any ns sk => simp [Particle.declares] at hdec
    | elem d' sub' =>
      simp only [Particle.declares, beq_iff_eq] at hdec
      have := hs.edc id ct hct d' sub' d sub hqm hp hdec
      subst this
      simp [Particle.resolve]
  | substitution id ct hd sub _ _ hct hns hno hp hsub hdo =>
    unfold declFor
    simp only [modelGroup_complex hct hns, findParticle, scan_none_eq]
    have hfd : ct.particles.find? (·.declares name) = none := by
      apply List.find?_eq_none.mpr
      intro q hq
      cases q with
      | any ns sk => simp [Particle.declares]
      | elem d' sub' => simpa [Particle.declares] using hno d' sub' hq
    have hmatch : Particle.matches (.elem hd sub) name = true := by simp [Particle.matches, hsub]
    obtain ⟨q, hq⟩ := find?_some_of_mem (p := elemMatch name) hp (by simp [elemMatch, Particle.isWild, hmatch])
    rw [hfd, hq]
    simp only [Option.map_some, Option.join_some]
    have hqm := List.mem_of_find?_eq_some hq
    have hqe := List.find?_some hq
    cases q with
    | any ns sk => simp [elemMatch, Particle.isWild] at hqe
    | elem h' sub' =>
      simp only [elemMatch, Particle.isWild, Bool.not_false, Bool.true_and] at hqe
      rw [resolve_eq_declOf, hs.substConsistent id ct hct h' sub' hd sub name hqm hp hqe hmatch, hdo]
  | wildcard id ct ns sk _ _ hct hns hnoe hp hm hdo =>
    unfold declFor
    simp only [modelGroup_complex hct hns, findParticle, scan_none_eq]
    have hfd : ct.particles.find? (·.declares name) = none := by
      apply List.find?_eq_none.mpr
      intro q hq
      cases q with
      | any ns sk => simp [Particle.declares]
      | elem d' sub' =>
        have h1 := hnoe d' sub' hq
        cases hdq : (Particle.elem d' sub').declares name with
        | false => simp
        | true => rw [declares_matches hdq] at h1; cases h1
    have hfe : ct.particles.find? (elemMatch name) = none := by
      apply List.find?_eq_none.mpr
      intro q hq
      cases q with
      | any ns sk => simp [elemMatch, Particle.isWild]
      | elem d' sub' => simp [elemMatch, Particle.isWild, hnoe d' sub' hq]
    obtain ⟨q, hq⟩ := find?_some_of_mem (p := wildMatch name) hp (by simp [wildMatch, Particle.isWild, hm])
    rw [hfd, hfe, hq]
    simp only [Option.map_some, Option.join_some]
    have hqm := List.mem_of_find?_eq_some hq
    have hqe := List.find?_some hq
    cases q with
    | elem h' sub' => simp [wildMatch, Particle.isWild] at hqe
    | any ns' sk' =>
      simp only [wildMatch, Particle.isWild, Bool.true_and] at hqe
      rw [resolve_eq_declOf, hs.wildConsistent id ct hct ns' sk' ns sk name hqm hp hqe hm, hdo]

theorem assign_sound {s : Schema} {ctx : Option Ty} {n : String} {x : Xsi} {ty : Ty}
    {d : Option ElemDecl} (h : assign s ctx n x = (some ty, d)) : Governs s ctx n x ty d := by
  unfold assign at h
  cases x with
  | unresolvable => simp at h
  | name t =>
    simp only [Prod.mk.injEq] at h
    obtain ⟨h1, rfl⟩ := h
    exact .xsi ctx n t ty h1
  | absent =>
    simp only [Prod.mk.injEq] at h
    obtain ⟨h1, rfl⟩ := h
    cases hd : declFor s ctx n with
    | none => rw [hd] at h1; simp at h1
    | some d =>
      rw [hd] at h1
      simp at h1
      subst h1
      exact .declared ctx n d (declFor_sound hd)

theorem assign_complete {s : Schema} (hs : Consistent s) {ctx : Option Ty} {n : String} {x : Xsi}
    {ty : Ty} {d : Option ElemDecl} (h : Governs s ctx n x ty d) :
    assign s ctx n x = (some ty, d) := by
  cases h with
  | xsi tn hg => rename_i hg'; simp [assign, hg']
  | declared d hg => simp [assign, declFor_complete hs hg]

theorem assign_none_iff {s : Schema} (hs : Consistent s) {ctx : Option Ty} {n : String} {x : Xsi}
    (h : (assign s ctx n x).1 = none) : ∀ ty d, ¬ Governs s ctx n x ty d := by
  intro ty d hg
  rw [assign_complete hs hg] at h
  cases h

theorem assign_none_snd {s : Schema} {ctx : Option Ty} {n : String} {x : Xsi}
    (h : (assign s ctx n x).1 = none) : assign s ctx n x = (none, none) := by
  unfold assign at h ⊢
  cases x with
  | unresolvable => rfl
  | name t => simp only at h ⊢; rw [h]
  | absent =>
    simp only at h ⊢
    cases hd : declFor s ctx n with
    | none => rfl
    | some d => rw [hd] at h; simp at h

theorem clearF_eq (k : Forest Unit) : clearF k = k.map (fun _ => (⟨none, none⟩ : Ann)) := rfl

/-- the annotated forest produced by the walk satisfies the declarative typing -/
theorem applyF_typing {s : Schema} (hs : Consistent s) (t : Forest Unit) :
    ∀ ctx, Typing s ctx t (applyF s ctx t) := by
  induction t with
  | nil => intro ctx; exact .nil ctx
  | leaf k txt r ih => intro ctx; exact .leaf ctx k txt r _ (ih ctx)
  | elem a n ats x kids rest ihk ihr =>
    intro ctx
    simp only [applyF]
    rcases hA : assign s ctx n x with ⟨oty, d⟩
    cases oty with
    | none =>
      simp only
      have hn : (assign s ctx n x).1 = none := by rw [hA]
      exact .untyped ctx n ats x kids rest _ (assign_none_iff hs hn) (ihr ctx)
    | some ty =>
      simp only
      exact .typed ctx n ats x ty d kids rest _ _ (assign_sound hA) (ihk (some ty)) (ihr ctx)

/-- the declarative typing is functional and the walk computes it -/
theorem typing_unique {s : Schema} (hs : Consistent s) {ctx : Option Ty} {t : Forest Unit}
    {a : Forest Ann} (h : Typing s ctx t a) : a = applyF s ctx t := by
  induction h with
  | nil ctx => rfl
  | leaf ctx k txt r r' _ ih => simp only [applyF, ih]
  | typed ctx n ats x ty d kids rest kids' rest' hg _ _ ihk ihr =>
    simp only [applyF, assign_complete hs hg, ihk, ihr]
  | untyped ctx n ats x kids rest rest' hno _ ihr =>
    simp only [applyF]
    rcases hA : assign s ctx n x with ⟨oty, d⟩
    cases oty with
    | none => simp only [ihr, clearF_eq, Ann.untyped]
    | some ty => exact absurd (assign_sound hA) (hno ty d)

/-- assessed (reduced-valid) forests are fully typed by the walk -/
theorem assessed_allTyped {s : Schema} (hs : Consistent s) {ctx : Option Ty} {t : Forest Unit}
    (h : Assessed s ctx t) : allTyped (applyF s ctx t) := by
  induction h with
  | nil ctx => trivial
  | leaf ctx k txt r _ ih => simpa [applyF, allTyped] using ih
  | elem ctx n ats x ty d kids rest hg _ _ ihk ihr =>
    simp only [applyF, assign_complete hs hg, allTyped]
    exact ⟨rfl, ihk, ihr⟩

/-- the walk keeps the tree: forgetting the annotations gives the input back -/
theorem map_unit_id (t : Forest Unit) : t.map (fun _ => ()) = t := by
  induction t with
  | nil => rfl
  | leaf k txt r ih => simp [Forest.map, ih]
  | elem a n ats x k r ihk ihr => simp [Forest.map, ihk, ihr]

theorem map_map {α β γ : Type} (f : α → β) (g : β → γ) (t : Forest α) :
    (t.map f).map g = t.map (g ∘ f) := by
  induction t with
  | nil => rfl
  | leaf k txt r ih => simp [Forest.map, ih]
  | elem a n ats x k r ihk ihr => simp [Forest.map, ihk, ihr]

theorem applyF_erase (s : Schema) (t : Forest Unit) : ∀ ctx, (applyF s ctx t).erase = t := by
  induction t with
  | nil => intro ctx; rfl
  | leaf k txt r ih => intro ctx; simp [applyF, Forest.erase, Forest.map] ; exact ih ctx
  | elem a n ats x kids rest ihk ihr =>
    intro ctx
    simp only [applyF]
    rcases hA : assign s ctx n x with ⟨oty, d⟩
    cases oty with
    | none =>
      simp only [Forest.erase, Forest.map, clearF, map_map]
      have := ihr ctx
      simp only [Forest.erase] at this
      rw [this]
      congr 1
      exact map_unit_id kids
    | some ty =>
      simp only [Forest.erase, Forest.map]
      have h1 := ihk (some ty); have h2 := ihr ctx
      simp only [Forest.erase] at h1 h2
      rw [h1, h2]

end EPV.Xsd

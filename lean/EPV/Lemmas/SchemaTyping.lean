/-
Lemmas for C20, part 1: the match cache of `apply_schema` is transparent, and the walk computes the
declarative type assignment of `EPV/Spec/XsdTyping.lean`.
-/
import EPV.Spec.XsdTyping
namespace EPV.Xsd
open EPV.Xsd.Spec

/-! ## cache transparency -/

/-- every cache entry is the result of the particle loop for its (content model, name) key -/
def CacheOK (s : Schema) (c : Cache) : Prop :=
  ∀ id name v, c.get? id name = some v →
    ∀ ty ps, modelGroup s ty = some (id, ps) → findParticle s name ps = some v

theorem cacheOK_nil (s : Schema) : CacheOK s [] := by
  intro id name v h; simp [Cache.get?] at h

theorem modelGroup_id {s : Schema} {ty : Ty} {id : Nat} {ps : List Particle}
    (h : modelGroup s ty = some (id, ps)) :
    ∃ ct, s.ctype? id = some ct ∧ ps = ct.particles := by
  unfold modelGroup at h
  split at h
  · simp at h
  · rename_i id'
    split at h
    · simp at h
    · rename_i ct hct
      split at h
      · simp at h
      · simp at h; obtain ⟨rfl, rfl⟩ := h; exact ⟨ct, hct, rfl⟩

theorem modelGroup_ps_unique {s : Schema} {ty ty' : Ty} {id : Nat} {ps ps' : List Particle}
    (h : modelGroup s ty = some (id, ps)) (h' : modelGroup s ty' = some (id, ps')) : ps = ps' := by
  obtain ⟨ct, hct, rfl⟩ := modelGroup_id h
  obtain ⟨ct', hct', rfl⟩ := modelGroup_id h'
  rw [hct] at hct'; cases hct'; rfl

theorem Cache.get?_cons (c : Cache) (id id' : Nat) (name name' : String) (d : Option ElemDecl) :
    Cache.get? (((id, name), d) :: c) id' name' =
      if (id == id' && name == name') then some d else Cache.get? c id' name' := by
  simp only [Cache.get?, List.find?_cons]
  split <;> simp_all

theorem declForC_spec (s : Schema) (ctx : Option Ty) (name : String) (c : Cache) (hc : CacheOK s c) :
    (declForC s ctx name c).1 = declFor s ctx name ∧ CacheOK s (declForC s ctx name c).2 := by
  unfold declForC declFor
  cases ctx with
  | none => exact ⟨rfl, hc⟩
  | some ty =>
    simp only
    cases hmg : modelGroup s ty with
    | none => exact ⟨rfl, hc⟩
    | some idps =>
      obtain ⟨id, ps⟩ := idps
      simp only
      cases hget : Cache.get? c id name with
      | some d =>
        simp only
        have := hc id name d hget ty ps hmg
        exact ⟨by rw [this]; rfl, hc⟩
      | none =>
        simp only
        cases hfp : findParticle s name ps with
        | none => exact ⟨rfl, hc⟩
        | some d =>
          refine ⟨rfl, ?_⟩
          intro id' name' v hv ty' ps' hmg'
          rw [Cache.get?_cons] at hv
          split at hv
          · rename_i heq
            simp only [Bool.and_eq_true, beq_iff_eq] at heq
            obtain ⟨rfl, rfl⟩ := heq
            cases hv
            rw [← modelGroup_ps_unique hmg hmg']; exact hfp
          · exact hc id' name' v hv ty' ps' hmg'

theorem assignC_spec (s : Schema) (ctx : Option Ty) (name : String) (x : Xsi) (c : Cache)
    (hc : CacheOK s c) :
    (assignC s ctx name x c).1 = assign s ctx name x ∧ CacheOK s (assignC s ctx name x c).2 := by
  unfold assignC assign
  cases x with
  | absent =>
    have := declForC_spec s ctx name c hc
    simp only
    constructor
    · rw [← this.1]
    · exact this.2
  | unresolvable => exact ⟨rfl, hc⟩
  | name t => exact ⟨rfl, hc⟩

/-- the walk with the cache returns the same annotated forest as the walk without it, from any
cache state that satisfies the invariant, and keeps the invariant -/
theorem applyFC_spec (s : Schema) (t : Forest Unit) :
    ∀ (ctx : Option Ty) (c : Cache), CacheOK s c →
      (applyFC s ctx c t).1 = applyF s ctx t ∧ CacheOK s (applyFC s ctx c t).2 := by
  induction t with
  | nil => intro ctx c hc; exact ⟨rfl, hc⟩
  | leaf k txt r ih =>
    intro ctx c hc
    have := ih ctx c hc
    simp only [applyFC, applyF]
    exact ⟨by rw [this.1], this.2⟩
  | elem a n ats x kids rest ihk ihr =>
    intro ctx c hc
    have ha := assignC_spec s ctx n x c hc
    simp only [applyFC, applyF]
    rw [← ha.1]
    rcases hA : assignC s ctx n x c with ⟨⟨oty, d⟩, c1⟩
    rw [hA] at ha
    cases oty with
    | none =>
      have hr := ihr ctx c1 ha.2
      simp only
      exact ⟨by rw [hr.1], hr.2⟩
    | some ty =>
      have hk := ihk (some ty) c1 ha.2
      have hr := ihr ctx (applyFC s (some ty) c1 kids).2 hk.2
      simp only
      exact ⟨by rw [hk.1, hr.1], hr.2⟩

/-! ## the walk computes the declarative typing -/

theorem resolve_eq_declOf (s : Schema) (p : Particle) (name : String) :
    p.resolve s name = declOf s p name := by
  cases p with
  | elem d sub =>
    simp only [Particle.resolve, declOf, Schema.getElement]
    by_cases h : d.name = name <;> simp [h]
  | any ns => rfl

theorem getElement_some {s : Schema} {name : String} {d : ElemDecl}
    (h : s.getElement name = some d) : d ∈ s.elements ∧ d.name = name := by
  unfold Schema.getElement at h
  have h1 := List.mem_of_find?_eq_some h
  have h2 := List.find?_some h
  exact ⟨h1, by simpa using h2⟩

theorem getElement_of_mem {s : Schema} (hu : Consistent s) {name : String} {d : ElemDecl}
    (hm : d ∈ s.elements) (hn : d.name = name) : s.getElement name = some d := by
  unfold Schema.getElement
  cases hf : s.elements.find? (·.name == name) with
  | none =>
    have := List.find?_eq_none.mp hf d hm
    simp [hn] at this
  | some d' =>
    have h1 := List.mem_of_find?_eq_some hf
    have h2 := List.find?_some hf
    have : d'.name = name := by simpa using h2
    rw [hu.globalsUnique d' h1 d hm (by rw [this, hn])]

theorem findParticle_some {s : Schema} {name : String} {ps : List Particle} {r : Option ElemDecl}
    (h : findParticle s name ps = some r) :
    ∃ p ∈ ps, p.matches name = true ∧ p.resolve s name = r := by
  induction ps with
  | nil => simp [findParticle] at h
  | cons p ps ih =>
    simp only [findParticle] at h
    split at h
    · rename_i hm
      exact ⟨p, List.mem_cons_self, hm, by simpa using h⟩
    · obtain ⟨q, hq, h1, h2⟩ := ih h
      exact ⟨q, List.mem_cons_of_mem _ hq, h1, h2⟩

theorem findParticle_none {s : Schema} {name : String} {ps : List Particle}
    (h : findParticle s name ps = none) : ∀ p ∈ ps, p.matches name = false := by
  induction ps with
  | nil => intro p hp; cases hp
  | cons p ps ih =>
    simp only [findParticle] at h
    split at h
    · simp at h
    · rename_i hm
      intro q hq
      cases hq with
      | head => simpa using hm
      | tail _ hq => exact ih h q hq

theorem modelGroup_complex {s : Schema} {id : Nat} {ct : CType} (hct : s.ctypes[id]? = some ct)
    (hns : ∀ t, ct.content ≠ .simple t) : modelGroup s (.complex id) = some (id, ct.particles) := by
  unfold modelGroup Schema.ctype?
  simp only [hct]

/-- soundness: a declaration found by the walk is a governing declaration -/
theorem declFor_sound {s : Schema} {ctx : Option Ty} {name : String} {d : ElemDecl}
    (h : declFor s ctx name = some d) : GovDecl s ctx name d := by
  unfold declFor at h
  cases ctx with
  | none =>
    obtain ⟨h1, h2⟩ := getElement_some h
    exact .root name d h1 h2
  | some ty =>
    simp only at h
    cases hmg : modelGroup s ty with
    | none => rw [hmg] at h; simp at h
    | some idps =>
      obtain ⟨id, ps⟩ := idps
      rw [hmg] at h
      simp only at h
      cases hfp : findParticle s name ps with
      | none => rw [hfp] at h; simp at h
      | some r =>
        rw [hfp] at h
        simp at h
        subst h
        obtain ⟨p, hp, hm, hr⟩ := findParticle_some hfp
        -- ty is complex id with a model group
        cases ty with
        | simple t => simp [modelGroup] at hmg
        | complex id' =>
          obtain ⟨ct, hct, rfl⟩ := modelGroup_id hmg
          have hid : id' = id := by
            unfold modelGroup at hmg
            split at hmg
            · simp at hmg
            · rename_i id'' heq
              cases heq
              split at hmg
              · simp at hmg
              · split at hmg
                · simp at hmg
                · simp at hmg; exact hmg.1
          subst hid
          have hns : ∀ t, ct.content ≠ .simple t := by
            intro t hc
            simp [modelGroup, hct, hc] at hmg
          refine .particle id' ct p name d (by simpa [Schema.ctype?] using hct) hns hp hm ?_
          rw [← resolve_eq_declOf]; exact hr

/-- completeness: under a consistent schema the walk finds every governing declaration -/
theorem declFor_complete {s : Schema} (hs : Consistent s) {ctx : Option Ty} {name : String}
    {d : ElemDecl} (h : GovDecl s ctx name d) : declFor s ctx name = some d := by
  cases h with
  | root _ _ hm hn => exact getElement_of_mem hs hm hn
  | particle id ct p _ _ hct hns hp hm hd =>
    unfold declFor
    simp only [modelGroup_complex hct hns]
    cases hfp : findParticle s name ct.particles with
    | none =>
      have := findParticle_none hfp p hp
      rw [hm] at this; cases this
    | some r =>
      obtain ⟨q, hq, hqm, hqr⟩ := findParticle_some hfp
      have := hs.edc id ct hct q hq p hp name hqm hm
      rw [← resolve_eq_declOf, hqr, hd] at this
      simp [this]

theorem assign_sound {s : Schema} {ctx : Option Ty} {n : String} {x : Xsi} {ty : Ty}
    {d : Option ElemDecl} (h : assign s ctx n x = (some ty, d)) : Governs s ctx n x ty d := by
  unfold assign at h
  cases x with
  | unresolvable => simp at h
  | name t =>
    simp only [Prod.mk.injEq] at h
    obtain ⟨h1, rfl⟩ := h
    exact .xsi ctx n t ty h1
  | absent =>
    simp only [Prod.mk.injEq] at h
    obtain ⟨h1, rfl⟩ := h
    cases hd : declFor s ctx n with
    | none => rw [hd] at h1; simp at h1
    | some d =>
      rw [hd] at h1
      simp at h1
      subst h1
      exact .declared ctx n d (declFor_sound hd)

theorem assign_complete {s : Schema} (hs : Consistent s) {ctx : Option Ty} {n : String} {x : Xsi}
    {ty : Ty} {d : Option ElemDecl} (h : Governs s ctx n x ty d) :
    assign s ctx n x = (some ty, d) := by
  cases h with
  | xsi tn hg => rename_i hg'; simp [assign, hg']
  | declared d hg => simp [assign, declFor_complete hs hg]

theorem assign_none_iff {s : Schema} (hs : Consistent s) {ctx : Option Ty} {n : String} {x : Xsi}
    (h : (assign s ctx n x).1 = none) : ∀ ty d, ¬ Governs s ctx n x ty d := by
  intro ty d hg
  rw [assign_complete hs hg] at h
  cases h

theorem assign_none_snd {s : Schema} {ctx : Option Ty} {n : String} {x : Xsi}
    (h : (assign s ctx n x).1 = none) : assign s ctx n x = (none, none) := by
  unfold assign at h ⊢
  cases x with
  | unresolvable => rfl
  | name t => simp only at h ⊢; rw [h]
  | absent =>
    simp only at h ⊢
    cases hd : declFor s ctx n with
    | none => rfl
    | some d => rw [hd] at h; simp at h

theorem clearF_eq (k : Forest Unit) : clearF k = k.map (fun _ => (⟨none, none⟩ : Ann)) := rfl

/-- the annotated forest produced by the walk satisfies the declarative typing -/
theorem applyF_typing {s : Schema} (hs : Consistent s) (t : Forest Unit) :
    ∀ ctx, Typing s ctx t (applyF s ctx t) := by
  induction t with
  | nil => intro ctx; exact .nil ctx
  | leaf k txt r ih => intro ctx; exact .leaf ctx k txt r _ (ih ctx)
  | elem a n ats x kids rest ihk ihr =>
    intro ctx
    simp only [applyF]
    rcases hA : assign s ctx n x with ⟨oty, d⟩
    cases oty with
    | none =>
      simp only
      have hn : (assign s ctx n x).1 = none := by rw [hA]
      exact .untyped ctx n ats x kids rest _ (assign_none_iff hs hn) (ihr ctx)
    | some ty =>
      simp only
      exact .typed ctx n ats x ty d kids rest _ _ (assign_sound hA) (ihk (some ty)) (ihr ctx)

/-- the declarative typing is functional and the walk computes it -/
theorem typing_unique {s : Schema} (hs : Consistent s) {ctx : Option Ty} {t : Forest Unit}
    {a : Forest Ann} (h : Typing s ctx t a) : a = applyF s ctx t := by
  induction h with
  | nil ctx => rfl
  | leaf ctx k txt r r' _ ih => simp only [applyF, ih]
  | typed ctx n ats x ty d kids rest kids' rest' hg _ _ ihk ihr =>
    simp only [applyF, assign_complete hs hg, ihk, ihr]
  | untyped ctx n ats x kids rest rest' hno _ ihr =>
    simp only [applyF]
    rcases hA : assign s ctx n x with ⟨oty, d⟩
    cases oty with
    | none => simp only [ihr, clearF_eq, Ann.untyped]
    | some ty => exact absurd (assign_sound hA) (hno ty d)

/-- assessed (reduced-valid) forests are fully typed by the walk -/
theorem assessed_allTyped {s : Schema} (hs : Consistent s) {ctx : Option Ty} {t : Forest Unit}
    (h : Assessed s ctx t) : allTyped (applyF s ctx t) := by
  induction h with
  | nil ctx => trivial
  | leaf ctx k txt r _ ih => simpa [applyF, allTyped] using ih
  | elem ctx n ats x ty d kids rest hg _ _ ihk ihr =>
    simp only [applyF, assign_complete hs hg, allTyped]
    exact ⟨rfl, ihk, ihr⟩

/-- the walk keeps the tree: forgetting the annotations gives the input back -/
theorem map_unit_id (t : Forest Unit) : t.map (fun _ => ()) = t := by
  induction t with
  | nil => rfl
  | leaf k txt r ih => simp [Forest.map, ih]
  | elem a n ats x k r ihk ihr => simp [Forest.map, ihk, ihr]

theorem map_map {α β γ : Type} (f : α → β) (g : β → γ) (t : Forest α) :
    (t.map f).map g = t.map (g ∘ f) := by
  induction t with
  | nil => rfl
  | leaf k txt r ih => simp [Forest.map, ih]
  | elem a n ats x k r ihk ihr => simp [Forest.map, ihk, ihr]

theorem applyF_erase (s : Schema) (t : Forest Unit) : ∀ ctx, (applyF s ctx t).erase = t := by
  induction t with
  | nil => intro ctx; rfl
  | leaf k txt r ih => intro ctx; simp [applyF, Forest.erase, Forest.map] ; exact ih ctx
  | elem a n ats x kids rest ihk ihr =>
    intro ctx
    simp only [applyF]
    rcases hA : assign s ctx n x with ⟨oty, d⟩
    cases oty with
    | none =>
      simp only [Forest.erase, Forest.map, clearF, map_map]
      have := ihr ctx
      simp only [Forest.erase] at this
      rw [this]
      congr 1
      exact map_unit_id kids
    | some ty =>
      simp only [Forest.erase, Forest.map]
      have h1 := ihk (some ty); have h2 := ihr ctx
      simp only [Forest.erase] at h1 h2
      rw [h1, h2]

end EPV.Xsd

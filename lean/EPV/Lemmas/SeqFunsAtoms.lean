/-
C08 helper lemmas: functions whose result depends on the item values (index-of,
distinct-values, effective boolean value, aggregates, string-join, comparisons).
-/
import EPV.Lemmas.SeqFunsList
namespace EPV.Seq
open EPV.Seq.Spec

/-! ### equality of items -/

theorem eqv_ofInt (x y : Int) : D.eqv (D.ofInt x) (D.ofInt y) = decide (x = y) := by
  simp [D.eqv, D.ofInt, pow2]

theorem eqv_decide (a b : D) : D.eqv a b = decide (eqD a b) := by
  rw [Bool.eq_iff_iff, decide_eq_true_iff]; exact D.eqv_iff a b

theorem lt_decide (a b : D) : D.lt a b = decide (ltD a b) := by
  rw [Bool.eq_iff_iff, decide_eq_true_iff]; exact D.lt_iff a b

theorem le_decide (a b : D) : D.le a b = decide (leD a b) := by
  rw [Bool.eq_iff_iff, decide_eq_true_iff]; exact D.le_iff a b

theorem pyEq_same_kind (x v : Atom) :
    ((x.isBool == v.isBool) && pyEq x v) = (eqAtom? x v == some true) := by
  cases x <;> cases v <;>
    simp [pyEq, eqAtom?, Atom.isBool, Atom.pyNum?, kind, numVal, eqv_decide, D.ofInt] <;>
    first | done | exact decide_eq_decide.mpr Iff.rfl | skip
  case bool.bool a b => cases a <;> cases b <;> simp [eqD]

theorem indexOfLoop_eq (v : Atom) (xs : Seq) (pos : Nat) :
    indexOfLoop v pos xs = ((xs.zipIdx pos).filter fun t => eqAtom? t.1 v == some true).map Prod.snd := by
  induction xs generalizing pos with
  | nil => rfl
  | cons x xs ih =>
    simp only [indexOfLoop, List.zipIdx_cons, List.filter_cons, pyEq_same_kind]
    split <;> simp_all

theorem indexOf_eq (xs : Seq) (v : Atom) : indexOf xs v = Spec.indexOf xs v := by
  simp [indexOf, Spec.indexOf, indexOfLoop_eq, positions, List.map_map, Function.comp_def]

/-! ### effective boolean value -/

theorem ebv_eq (s : Seq) : ebv s = Spec.ebv s := by
  match s with
  | [] => rfl
  | [.int n] => rfl
  | [.bool b] => rfl
  | [.str t] =>
    simp only [ebv, Spec.ebv]
    congr 1
    by_cases h : t = "" <;> simp [h]
  | [.dbl d] =>
    cases d <;> simp [ebv, Spec.ebv, eqD] <;> first | done | exact decide_eq_false id
  | _ :: _ :: _ => simp [ebv, Spec.ebv]

/-! ### string-join -/

theorem pyJoin_eq (sep : String) (l : List String) : pyJoin sep l = String.intercalate sep l := by
  match l with
  | [] => simp [pyJoin]
  | [a] => simp [pyJoin]
  | a :: b :: rest =>
    rw [pyJoin, String.intercalate_cons_cons, pyJoin_eq sep (b :: rest)]

theorem stringValue_eq (a : Atom) : a.stringValue? = stringOf? a := by
  cases a with
  | bool b => cases b <;> rfl
  | _ => rfl

theorem fnStringJoin_eq (s : Seq) (sep : Option Seq) : fnStringJoin s sep = Spec.fnStringJoin s sep := by
  unfold fnStringJoin Spec.fnStringJoin
  have : s.mapM Atom.stringValue? = s.mapM stringOf? := by
    congr 1; funext a; exact stringValue_eq a
  rw [this]
  cases s.mapM stringOf? with
  | none => rfl
  | some strs =>
    simp only [pyJoin_eq]
    split <;> simp_all

/-! ### distinct-values -/

theorem cross_trans (m1 m2 m3 P1 P2 P3 : Int) (h2 : P2 ≠ 0) (a : m1 * P2 = m2 * P1) (b : m2 * P3 = m3 * P2) :
    m1 * P3 = m3 * P1 := by
  apply Int.eq_of_mul_eq_mul_right h2
  have : m1 * P3 * P2 = (m1 * P2) * P3 := by grind
  rw [this, a]
  have : m3 * P1 * P2 = (m3 * P2) * P1 := by grind
  rw [this, ← b]
  grind

theorem eqD_symm {a b : D} (h : eqD a b) : eqD b a := by
  cases a <;> cases b <;> simp_all [eqD]

theorem eqD_trans {a b c : D} (h1 : eqD a b) (h2 : eqD b c) : eqD a c := by
  cases a <;> cases b <;> cases c <;> simp_all [eqD]
  rename_i m1 k1 m2 k2 m3 k3
  exact cross_trans m1 m2 m3 _ _ _ (Int.ne_of_gt (pow2_pos k2)) h1 h2

theorem eqAtom_symm (a b : Atom) : (eqAtom? a b == some true) = (eqAtom? b a == some true) := by
  cases a <;> cases b <;> simp [eqAtom?, kind, numVal]
  all_goals first
    | exact decide_eq_decide.mpr ⟨eqD_symm, eqD_symm⟩
    | exact decide_eq_decide.mpr ⟨Eq.symm, Eq.symm⟩
    | exact ⟨Eq.symm, Eq.symm⟩
    | skip

theorem sameValue_symm (a b : Atom) : sameValue a b = sameValue b a := by
  unfold sameValue
  rw [eqAtom_symm a b, Bool.and_comm]

theorem eqAtom_trans {a b c : Atom} (h1 : (eqAtom? a b == some true) = true)
    (h2 : (eqAtom? b c == some true) = true) : (eqAtom? a c == some true) = true := by
  cases a <;> cases b <;> cases c <;> simp_all [eqAtom?, kind, numVal]
  all_goals first
    | exact eqD_trans h1 h2
    | exact decide_eq_true (eqD_trans (of_decide_eq_true h1) (of_decide_eq_true h2))

theorem eqAtom_nan_left (b : Atom) : (eqAtom? (.dbl .nan) b == some true) = false := by
  cases b <;> simp [eqAtom?, kind, numVal, eqD] <;> first | done | exact decide_eq_false id

theorem eqAtom_nan_right (a : Atom) : (eqAtom? a (.dbl .nan) == some true) = false := by
  rw [eqAtom_symm]; exact eqAtom_nan_left a

theorem sameValue_trans {a b c : Atom} (h1 : sameValue a b = true) (h2 : sameValue b c = true) :
    sameValue a c = true := by
  unfold sameValue at *
  by_cases hb : b = .dbl .nan
  · subst hb
    simp [eqAtom_nan_left, eqAtom_nan_right] at h1 h2
    simp [h1, h2]
  · have e1 : (eqAtom? a b == some true) = true := by
      simp only [Bool.or_eq_true, Bool.and_eq_true, beq_iff_eq] at h1
      rcases h1 with ⟨_, h⟩ | h
      · exact absurd h hb
      · simpa using h
    have e2 : (eqAtom? b c == some true) = true := by
      simp only [Bool.or_eq_true, Bool.and_eq_true, beq_iff_eq] at h2
      rcases h2 with ⟨h, _⟩ | h
      · exact absurd h hb
      · simpa using h
    simp [eqAtom_trans e1 e2]

/-- "has been produced already": the NaN flag or an equal member of `results` -/
def seenP (nan : Bool) (results : Seq) (y : Atom) : Bool :=
  (nan && y == .dbl .nan) || results.any fun x => sameValue x y

theorem dbl_test_eq (d : D) (hd : d.isNaN = false) (x : Atom) :
    (x.isNumeric && pyEq (.dbl d) x) = sameValue x (.dbl d) := by
  have hne : (Atom.dbl d == Atom.dbl .nan) = false := by
    cases d <;> simp_all [D.isNaN]
  unfold sameValue
  rw [hne, Bool.and_false, Bool.false_or]
  cases x <;> simp [Atom.isNumeric, pyEq, Atom.pyNum?, eqAtom?, kind, numVal, eqv_decide, D.ofInt]
  all_goals exact decide_eq_decide.mpr ⟨eqD_symm, eqD_symm⟩

theorem other_test_eq (v : Atom) (hv : v.isDbl = false) (x : Atom) :
    ((x.isBool == v.isBool) && pyEq x v) = sameValue x v := by
  rw [pyEq_same_kind]
  unfold sameValue
  have : (v == Atom.dbl .nan) = false := by cases v <;> simp_all [Atom.isDbl]
  rw [this, Bool.and_false, Bool.false_or]

theorem seenP_append (nan : Bool) (results : Seq) (v y : Atom) :
    seenP nan (results ++ [v]) y = (seenP nan results y || sameValue v y) := by
  simp [seenP, List.any_append, Bool.or_assoc]

theorem distinctLoop_eq (vs : Seq) : ∀ (nan : Bool) (results : Seq), (∀ x ∈ results, x ≠ Atom.dbl .nan) →
    distinctLoop nan results vs =
      (Spec.distinctValues vs).filter fun y => !seenP nan results y := by
  induction vs with
  | nil => intros; rfl
  | cons v vs ih =>
    intro nan results hres
    -- when `v` has been seen, everything equal to `v` has been seen
    have absorb : seenP nan results v = true →
        ((Spec.distinctValues vs).filter fun y => !sameValue v y).filter (fun y => !seenP nan results y)
          = (Spec.distinctValues vs).filter fun y => !seenP nan results y := by
      intro hseen
      rw [List.filter_filter]
      apply List.filter_congr
      intro y _
      by_cases hy : seenP nan results y = true
      · simp [hy]
      · have : sameValue v y = false := by
          cases hvy : sameValue v y with
          | false => rfl
          | true =>
            exfalso; apply hy
            simp only [seenP, Bool.or_eq_true, Bool.and_eq_true, List.any_eq_true, beq_iff_eq] at hseen ⊢
            rcases hseen with ⟨hn, hv⟩ | ⟨x, hx, hxv⟩
            · left; refine ⟨hn, ?_⟩
              subst hv
              simpa [sameValue, eqAtom_nan_left] using hvy
            · right; exact ⟨x, hx, sameValue_trans hxv hvy⟩
        simp [this]
    have fresh : seenP nan results v = false → ∀ (nan' : Bool) (results' : Seq),
        (∀ y, seenP nan' results' y = (seenP nan results y || sameValue v y)) →
        ((Spec.distinctValues vs).filter fun y => !seenP nan' results' y)
          = ((Spec.distinctValues vs).filter fun y => !sameValue v y).filter (fun y => !seenP nan results y) := by
      intro _ nan' results' h
      rw [List.filter_filter]
      apply List.filter_congr
      intro y _
      rw [h]; simp [Bool.and_comm]
    simp only [Spec.distinctValues, List.filter_cons]
    cases v with
    | dbl d =>
      cases hd : d.isNaN with
      | true =>
        have hdn : d = .nan := by cases d <;> simp_all [D.isNaN]
        subst hdn
        have hseenv : seenP nan results (.dbl .nan) = nan := by
          simp only [seenP, beq_self_eq_true, Bool.and_true]
          have : (results.any fun x => sameValue x (Atom.dbl D.nan)) = false := by
            rw [List.any_eq_false]
            intro x hx
            have := hres x hx
            simp [sameValue, eqAtom_nan_right, this]
          simp [this]
        simp only [distinctLoop, D.isNaN, if_true, hseenv]
        cases nan with
        | false =>
          simp only [Bool.not_false, if_true, Bool.false_eq_true, if_false]
          congr 1
          rw [ih true results hres]
          apply fresh hseenv
          intro y
          simp [seenP, sameValue, eqAtom_nan_left, Bool.or_comm]
        | true =>
          simp only [Bool.not_true, Bool.false_eq_true, if_false]
          rw [ih true results hres, absorb hseenv]
      | false =>
        have hall : (results.all fun x => !(x.isNumeric && pyEq (.dbl d) x)) = !seenP nan results (.dbl d) := by
          have hne : (Atom.dbl d == Atom.dbl .nan) = false := by cases d <;> simp_all [D.isNaN]
          simp only [seenP, hne, Bool.and_false, Bool.false_or, List.all_eq_not_any_not, Bool.not_not]
          congr 2; funext x; exact dbl_test_eq d hd x
        simp only [distinctLoop, hd, Bool.false_eq_true, if_false, hall]
        cases hs : seenP nan results (.dbl d) with
        | true =>
          simp only [Bool.not_true, Bool.false_eq_true, if_false]
          rw [ih nan results hres, absorb hs]
        | false =>
          simp only [Bool.not_false, if_true]
          congr 1
          have hres' : ∀ x ∈ results ++ [Atom.dbl d], x ≠ Atom.dbl .nan := by
            intro x hx
            rcases List.mem_append.mp hx with h | h
            · exact hres x h
            · simp at h; subst h; intro h; cases d <;> simp_all [D.isNaN]
          rw [ih nan _ hres']
          exact fresh hs nan _ (seenP_append nan results _)
    | int n =>
      have hall : (results.all fun x => !((x.isBool == (Atom.int n).isBool) && pyEq x (.int n))) = !seenP nan results (.int n) := by
        simp only [seenP, show (Atom.int n == Atom.dbl .nan) = false by simp, Bool.and_false, Bool.false_or,
          List.all_eq_not_any_not, Bool.not_not]
        congr 2; funext x; exact other_test_eq _ rfl x
      simp only [distinctLoop, hall]
      cases hs : seenP nan results (.int n) with
      | true =>
        simp only [Bool.not_true, Bool.false_eq_true, if_false]
        rw [ih nan results hres, absorb hs]
      | false =>
        simp only [Bool.not_false, if_true]
        congr 1
        have hres' : ∀ x ∈ results ++ [Atom.int n], x ≠ Atom.dbl .nan := by
          intro x hx
          rcases List.mem_append.mp hx with h | h
          · exact hres x h
          · simp at h; subst h; simp
        rw [ih nan _ hres']
        exact fresh hs nan _ (seenP_append nan results _)
    | str t =>
      have hall : (results.all fun x => !((x.isBool == (Atom.str t).isBool) && pyEq x (.str t))) = !seenP nan results (.str t) := by
        simp only [seenP, show (Atom.str t == Atom.dbl .nan) = false by simp, Bool.and_false, Bool.false_or,
          List.all_eq_not_any_not, Bool.not_not]
        congr 2; funext x; exact other_test_eq _ rfl x
      simp only [distinctLoop, hall]
      cases hs : seenP nan results (.str t) with
      | true =>
        simp only [Bool.not_true, Bool.false_eq_true, if_false]
        rw [ih nan results hres, absorb hs]
      | false =>
        simp only [Bool.not_false, if_true]
        congr 1
        have hres' : ∀ x ∈ results ++ [Atom.str t], x ≠ Atom.dbl .nan := by
          intro x hx
          rcases List.mem_append.mp hx with h | h
          · exact hres x h
          · simp at h; subst h; simp
        rw [ih nan _ hres']
        exact fresh hs nan _ (seenP_append nan results _)
    | bool b =>
      have hall : (results.all fun x => !((x.isBool == (Atom.bool b).isBool) && pyEq x (.bool b))) = !seenP nan results (.bool b) := by
        simp only [seenP, show (Atom.bool b == Atom.dbl .nan) = false by simp, Bool.and_false, Bool.false_or,
          List.all_eq_not_any_not, Bool.not_not]
        congr 2; funext x; exact other_test_eq _ rfl x
      simp only [distinctLoop, hall]
      cases hs : seenP nan results (.bool b) with
      | true =>
        simp only [Bool.not_true, Bool.false_eq_true, if_false]
        rw [ih nan results hres, absorb hs]
      | false =>
        simp only [Bool.not_false, if_true]
        congr 1
        have hres' : ∀ x ∈ results ++ [Atom.bool b], x ≠ Atom.dbl .nan := by
          intro x hx
          rcases List.mem_append.mp hx with h | h
          · exact hres x h
          · simp at h; subst h; simp
        rw [ih nan _ hres']
        exact fresh hs nan _ (seenP_append nan results _)

theorem distinctValues_eq (xs : Seq) : distinctValues xs = Spec.distinctValues xs := by
  unfold distinctValues
  rw [distinctLoop_eq xs false [] (by simp)]
  simp [seenP]

end EPV.Seq

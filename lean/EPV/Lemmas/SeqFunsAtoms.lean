/-
C08 helper lemmas: functions whose result depends on the item values (index-of,
distinct-values, effective boolean value, string-join).
-/
import EPV.Lemmas.SeqFunsList
namespace EPV.Seq
open EPV.Seq.Spec

/-! ### the numeric views of model and specification coincide -/

theorem isDbl_eq (a : Atom) : a.isDbl = isDouble a := by cases a <;> rfl
theorem toD_eq (a : Atom) : a.toD = toDouble a := by cases a <;> rfl
theorem xv_eq (a : Atom) : a.xv = exact a := by cases a <;> rfl
theorem atomize_eq (doc : List String) (a : Atom) : atomize doc a = atomized doc a := by cases a <;> rfl

theorem numEqP_eq (a b : Atom) : numEqP a b = numEq a b := by
  simp only [numEqP, numEq, isDbl_eq, toD_eq, xv_eq, D.eqv_eq]

theorem numLtP_eq (a b : Atom) : numLtP a b = numLt a b := by
  simp only [numLtP, numLt, isDbl_eq, toD_eq, xv_eq, D.lt_eq]

theorem isNumeric_kind (a : Atom) : a.isNumeric = (kind a == .num) := by cases a <;> rfl

/-! ### equality of items -/

@[simp] theorem atom_bool_beq (x y : Bool) : (Atom.bool x == Atom.bool y) = (x == y) := by
  cases x <;> cases y <;> rfl

theorem beq_symm' {α : Type} [BEq α] [LawfulBEq α] (a b : α) : (a == b) = (b == a) := by
  by_cases h : a = b
  · subst h; rfl
  · have h1 : (a == b) = false := by simpa using h
    have h2 : (b == a) = false := by simpa using (fun h' => h h'.symm)
    rw [h1, h2]

theorem keyEq_eq (cl : Coll) (x v : Atom) : keyEq cl (cmpKey x) (cmpKey v) = (eqAtomC? cl x v == some true) := by
  cases x <;> cases v <;>
    simp [keyEq, cmpKey, eqAtomC?, eqAtom?, kind, Atom.isBool, Atom.isNumeric, otherEq, stringOfKey, numEqP_eq]

theorem indexOfLoop_eq (cl : Coll) (v : Atom) (xs : Seq) (pos : Nat) :
    indexOfLoop cl (cmpKey v) pos xs =
      ((xs.zipIdx pos).filter fun t => eqAtomC? cl t.1 v == some true).map Prod.snd := by
  induction xs generalizing pos with
  | nil => rfl
  | cons x xs ih =>
    simp only [indexOfLoop, List.zipIdx_cons, List.filter_cons, keyEq_eq]
    split <;> simp_all

theorem indexOf_eq (cl : Coll) (xs : Seq) (v : Atom) : indexOf cl xs v = Spec.indexOf cl xs v := by
  simp [indexOf, Spec.indexOf, indexOfLoop_eq, positions, List.map_map, Function.comp_def]

/-! ### effective boolean value -/

theorem ebv_eq (s : Seq) : ebv s = Spec.ebv s := by
  match s with
  | [] => rfl
  | .node _ :: _ => simp [ebv, Spec.ebv]
  | [.int n] => rfl
  | [.dec m k] => rfl
  | [.bool b] => rfl
  | [.str t] =>
    simp only [ebv, Spec.ebv]
    congr 1
    by_cases h : t = "" <;> simp [h]
  | [.untyped t] =>
    simp only [ebv, Spec.ebv]
    congr 1
    by_cases h : t = "" <;> simp [h]
  | [.dbl d] =>
    cases d <;> simp [ebv, Spec.ebv, eqD, D.isNaN, D.isZero, D.val, XV.eqv]
  | .int _ :: _ :: _ => simp [ebv, Spec.ebv]
  | .dec _ _ :: _ :: _ => simp [ebv, Spec.ebv]
  | .dbl _ :: _ :: _ => simp [ebv, Spec.ebv]
  | .str _ :: _ :: _ => simp [ebv, Spec.ebv]
  | .bool _ :: _ :: _ => simp [ebv, Spec.ebv]
  | .untyped _ :: _ :: _ => simp [ebv, Spec.ebv]

/-! ### string-join -/

theorem pyJoin_eq (sep : String) (l : List String) : pyJoin sep l = String.intercalate sep l := by
  match l with
  | [] => simp [pyJoin]
  | [a] => simp [pyJoin]
  | a :: b :: rest =>
    rw [pyJoin, String.intercalate_cons_cons, pyJoin_eq sep (b :: rest)]

theorem stringValue_eq (doc : List String) (a : Atom) : stringValue? doc a = stringOf? doc a := by
  cases a with
  | bool b => cases b <;> rfl
  | _ => rfl

theorem fnStringJoin_eq (doc : List String) (s : Seq) (sep : Option Seq) :
    fnStringJoin doc s sep = Spec.fnStringJoin doc s sep := by
  unfold fnStringJoin Spec.fnStringJoin
  have : s.mapM (stringValue? doc) = s.mapM (stringOf? doc) := by
    congr 1; funext a; exact stringValue_eq doc a
  rw [this]
  cases s.mapM (stringOf? doc) with
  | none => rfl
  | some strs =>
    simp only [pyJoin_eq]
    split <;> simp_all

/-! ### distinct-values -/

/-- what the loop tests for the key `ky` of a new value against a stored key `kx` -/
def keyTest (cl : Coll) (ky kx : Atom) : Bool :=
  if ky.isNumeric then kx.isNumeric && numEqP ky kx
  else (ky.isBool == kx.isBool) && otherEq cl ky kx

/-- "has been produced already", as the loop decides it -/
def seenM (cl : Coll) (nan : Bool) (results : Seq) (y : Atom) : Bool :=
  if (cmpKey y).isNaN then nan else results.any fun kx => keyTest cl (cmpKey y) kx

theorem isNaN_cmpKey (y : Atom) : (cmpKey y).isNaN = (y == .dbl .nan) := by
  cases y with
  | dbl d => cases d <;> simp [cmpKey, Atom.isNaN]
  | _ => simp [cmpKey, Atom.isNaN]

theorem XV.eqv_symm (a b : XV) : XV.eqv a b = XV.eqv b a := by
  cases a <;> cases b <;> simp [XV.eqv, eq_comm]

theorem numEq_symm (a b : Atom) : numEq a b = numEq b a := by
  simp only [numEq, eqD, Bool.or_comm (isDouble a)]
  split <;> exact XV.eqv_symm _ _

theorem collEq_symm (cl : Coll) (s t : String) : collEq cl s t = collEq cl t s := by
  cases cl <;> simp only [collEq] <;> exact beq_symm' _ _

theorem eqAtom_symm (cl : Coll) (a b : Atom) : (eqAtomC? cl a b == some true) = (eqAtomC? cl b a == some true) := by
  cases a <;> cases b <;> simp [eqAtomC?, eqAtom?, kind, stringOfKey] <;>
    first | done | exact numEq_symm _ _ | exact collEq_symm _ _ _ | exact beq_symm' _ _ | (rw [numEq_symm]) | (rw [collEq_symm])

theorem sameValue_symm (cl : Coll) (a b : Atom) : sameValue cl a b = sameValue cl b a := by
  unfold sameValue
  rw [eqAtom_symm cl a b, Bool.and_comm]

theorem XV.eqv_nan_left (b : XV) : XV.eqv .nan b = false := by cases b <;> rfl
theorem XV.eqv_nan_right (a : XV) : XV.eqv a .nan = false := by cases a <;> rfl

theorem eqAtom_nan_left (cl : Coll) (b : Atom) : (eqAtomC? cl (.dbl .nan) b == some true) = false := by
  cases b <;> simp [eqAtomC?, eqAtom?, kind, numEq, isDouble, eqD, toDouble, D.val, XV.eqv_nan_left]

theorem eqAtom_nan_right (cl : Coll) (a : Atom) : (eqAtomC? cl a (.dbl .nan) == some true) = false := by
  rw [eqAtom_symm]; exact eqAtom_nan_left cl a

/-- the test of the loop against the key of a kept value is `sameValue` (for a kept value
that is not NaN) -/
theorem keyTest_eq (cl : Coll) (y k : Atom) (hy : (y == Atom.dbl .nan) = false) (hk : (k == Atom.dbl .nan) = false) :
    keyTest cl (cmpKey y) (cmpKey k) = sameValue cl k y := by
  unfold sameValue
  rw [hk, Bool.false_and, Bool.false_or, eqAtom_symm]
  cases y <;> cases k <;>
    simp [keyTest, cmpKey, eqAtomC?, eqAtom?, kind, Atom.isBool, Atom.isNumeric, otherEq, stringOfKey, numEqP_eq, collEq_symm]

theorem sameValue_nan_left (cl : Coll) (y : Atom) : sameValue cl (.dbl .nan) y = (y == .dbl .nan) := by
  unfold sameValue
  simp [eqAtom_nan_left]

theorem sameValue_nan_right (cl : Coll) (k : Atom) : sameValue cl k (.dbl .nan) = (k == .dbl .nan) := by
  rw [sameValue_symm, sameValue_nan_left]

theorem distinctLoop_step (cl : Coll) (nan : Bool) (results : Seq) (v : Atom) (vs : Seq) :
    distinctLoop cl nan results (v :: vs) =
      if seenM cl nan results v then distinctLoop cl nan results vs
      else v :: distinctLoop cl (nan || (cmpKey v).isNaN)
        (if (cmpKey v).isNaN then results else results ++ [cmpKey v]) vs := by
  simp only [distinctLoop, seenM, keyTest]
  by_cases hnum : (cmpKey v).isNumeric
  · simp only [hnum, if_true]
    by_cases hnan : (cmpKey v).isNaN
    · simp only [hnan, if_true, Bool.or_true]
      cases nan <;> simp
    · simp only [hnan, Bool.false_eq_true, if_false, Bool.or_false, List.all_eq_not_any_not, Bool.not_not]
      cases results.any fun x => x.isNumeric && numEqP (cmpKey v) x <;> simp
  · have hnan : (cmpKey v).isNaN = false := by
      cases v with
      | dbl d => simp [cmpKey, Atom.isNumeric] at hnum
      | _ => simp [cmpKey, Atom.isNaN]
    simp only [hnum, hnan, Bool.false_eq_true, if_false, Bool.or_false, List.all_eq_not_any_not, Bool.not_not]
    cases results.any fun x => (cmpKey v).isBool == x.isBool && otherEq cl (cmpKey v) x <;> simp

theorem distinctLoop_eq (cl : Coll) (vs : Seq) : ∀ (nan : Bool) (results kept : Seq),
    (∀ y, seenM cl nan results y = kept.any fun k => sameValue cl k y) →
    distinctLoop cl nan results vs = Spec.distinctFrom cl kept vs := by
  induction vs with
  | nil => intros; rfl
  | cons v vs ih =>
    intro nan results kept hinv
    rw [distinctLoop_step, Spec.distinctFrom, hinv v]
    split
    · exact ih nan results kept hinv
    · rename_i hseen
      congr 1
      apply ih
      intro y
      rw [List.any_append, ← hinv y]
      simp only [List.any_cons, List.any_nil, Bool.or_false]
      by_cases hv : (v == Atom.dbl .nan) = true
      · -- v is NaN: only the flag changes
        have hvn : (cmpKey v).isNaN = true := by rw [isNaN_cmpKey]; exact hv
        have hv' : v = .dbl .nan := by simpa using hv
        subst hv'
        simp only [hvn, if_true, Bool.or_true, sameValue_nan_left, seenM, isNaN_cmpKey]
        by_cases hy : (y == Atom.dbl .nan) = true
        · simp [hy]
        · simp [hy]
      · have hvn : (cmpKey v).isNaN = false := by rw [isNaN_cmpKey]; simpa using hv
        have hv0 : (v == Atom.dbl .nan) = false := by simpa using hv
        simp only [hvn, Bool.false_eq_true, if_false, Bool.or_false, seenM, isNaN_cmpKey]
        by_cases hy : (y == Atom.dbl .nan) = true
        · have hy' : y = .dbl .nan := by simpa using hy
          subst hy'
          simp [sameValue_nan_right, hv0]
        · have hy0 : (y == Atom.dbl .nan) = false := by simpa using hy
          simp only [hy0, Bool.false_eq_true, if_false, List.any_append, List.any_cons, List.any_nil, Bool.or_false]
          rw [keyTest_eq cl y v hy0 hv0]

theorem distinctValues_eq (cl : Coll) (xs : Seq) : distinctValues cl xs = Spec.distinctValues cl xs := by
  unfold distinctValues Spec.distinctValues
  apply distinctLoop_eq
  intro y
  simp [seenM]

end EPV.Seq

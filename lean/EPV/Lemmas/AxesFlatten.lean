/-
C01 — `flatten` produces well-formed arrays: `WF r.mode r.flatten` for every tree `r`.
Method: a segment invariant `SegOK o p s` ("`s` is a sequence of sibling subtrees placed at absolute
index `o` whose roots have parent `p`"), closed under concatenation of siblings and under wrapping
by an element / document record, then `SegOK 0 none a` + the shape of the root ⇒ `WF`.
-/
import EPV.Model.AxesTree
import EPV.Lemmas.AxesWF
namespace EPV.XP

/-! ### accessors on cons / append -/

theorem get_app_l {s1 s2 : Arr} {j : Nat} (h : j < s1.length) : (s1 ++ s2)[j]? = s1[j]? :=
  List.getElem?_append_left h
theorem get_app_r (s1 s2 : Arr) (j : Nat) : (s1 ++ s2)[s1.length + j]? = s2[j]? := by
  rw [List.getElem?_append_right (Nat.le_add_right _ _)]; simp

theorem sz_app_l {s1 s2 : Arr} {j : Nat} (h : j < s1.length) : sz (s1 ++ s2) j = sz s1 j := by
  simp only [sz, get_app_l h]
theorem par_app_l {s1 s2 : Arr} {j : Nat} (h : j < s1.length) : par (s1 ++ s2) j = par s1 j := by
  simp only [par, get_app_l h]
theorem kd_app_l {s1 s2 : Arr} {j : Nat} (h : j < s1.length) : kd (s1 ++ s2) j = kd s1 j := by
  simp only [kd, get_app_l h]
theorem sz_app_r (s1 s2 : Arr) (j : Nat) : sz (s1 ++ s2) (s1.length + j) = sz s2 j := by
  simp only [sz, get_app_r]
theorem par_app_r (s1 s2 : Arr) (j : Nat) : par (s1 ++ s2) (s1.length + j) = par s2 j := by
  simp only [par, get_app_r]
theorem kd_app_r (s1 s2 : Arr) (j : Nat) : kd (s1 ++ s2) (s1.length + j) = kd s2 j := by
  simp only [kd, get_app_r]
theorem isAN_app_l {s1 s2 : Arr} {j : Nat} (h : j < s1.length) : isAN (s1 ++ s2) j = isAN s1 j := by
  simp only [isAN, kd_app_l h]
theorem isAN_app_r (s1 s2 : Arr) (j : Nat) : isAN (s1 ++ s2) (s1.length + j) = isAN s2 j := by
  simp only [isAN, kd_app_r]
theorem isED_app_l {s1 s2 : Arr} {j : Nat} (h : j < s1.length) : isED (s1 ++ s2) j = isED s1 j := by
  simp only [isED, kd_app_l h]
theorem isED_app_r (s1 s2 : Arr) (j : Nat) : isED (s1 ++ s2) (s1.length + j) = isED s2 j := by
  simp only [isED, kd_app_r]

theorem sz_cons_zero (r : Rec) (s : Arr) : sz (r :: s) 0 = r.size := rfl
theorem par_cons_zero (r : Rec) (s : Arr) : par (r :: s) 0 = r.parent := rfl
theorem kd_cons_zero (r : Rec) (s : Arr) : kd (r :: s) 0 = r.kind := rfl
theorem sz_cons_succ (r : Rec) (s : Arr) (j : Nat) : sz (r :: s) (j + 1) = sz s j := by simp [sz]
theorem par_cons_succ (r : Rec) (s : Arr) (j : Nat) : par (r :: s) (j + 1) = par s j := by simp [par]
theorem kd_cons_succ (r : Rec) (s : Arr) (j : Nat) : kd (r :: s) (j + 1) = kd s j := by simp [kd]
theorem isAN_cons_succ (r : Rec) (s : Arr) (j : Nat) : isAN (r :: s) (j + 1) = isAN s j := by
  simp only [isAN, kd_cons_succ]
theorem isED_cons_succ (r : Rec) (s : Arr) (j : Nat) : isED (r :: s) (j + 1) = isED s j := by
  simp only [isED, kd_cons_succ]

/-! ### the segment invariant -/

structure SegOK (o : Nat) (p : Option Nat) (s : Arr) : Prop where
  bound : ∀ j, j < s.length → j + sz s j < s.length
  link : ∀ j, j < s.length →
    (par s j = p ∧ (∀ q, q < j → q + sz s q < j) ∧ isAN s j = false) ∨
    (∃ q, par s j = some (o + q) ∧ q < j ∧ j ≤ q + sz s q ∧
      (∀ q', q < q' → q' < j → q' + sz s q' < j) ∧
      (isAN s j = true → kd s q = .elem ∧ ∀ q', q < q' → q' < j → isAN s q' = true))
  nest : ∀ j q, j < s.length → q < j → j ≤ q + sz s q → j + sz s j ≤ q + sz s q
  leaf : ∀ j, j < s.length → isED s j = false → sz s j = 0
  nodoc : ∀ j, j < s.length → kd s j = .doc → o + j = 0

theorem segOK_nil (o : Nat) (p : Option Nat) : SegOK o p [] :=
  ⟨fun j h => by simp at h, fun j h => by simp at h, fun j q h => by simp at h,
   fun j h => by simp at h, fun j h => by simp at h⟩

/-- siblings: concatenation -/
theorem segOK_append {o : Nat} {p : Option Nat} {s1 s2 : Arr} (h1 : SegOK o p s1)
    (h2 : SegOK (o + s1.length) p s2) : SegOK o p (s1 ++ s2) := by
  have split : ∀ j, j < (s1 ++ s2).length → j < s1.length ∨ ∃ j', j = s1.length + j' ∧ j' < s2.length := by
    intro j hj
    rw [List.length_append] at hj
    by_cases h : j < s1.length
    · exact Or.inl h
    · exact Or.inr ⟨j - s1.length, by omega, by omega⟩
  -- size of any earlier record, seen from the second part
  have early : ∀ q, q < s1.length → q + sz (s1 ++ s2) q < s1.length := by
    intro q hq; rw [sz_app_l hq]; exact h1.bound q hq
  refine ⟨?_, ?_, ?_, ?_, ?_⟩
  · intro j hj
    rw [List.length_append]
    rcases split j hj with h | ⟨j', rfl, h⟩
    · rw [sz_app_l h]; have := h1.bound j h; omega
    · rw [sz_app_r]; have := h2.bound j' h; omega
  · intro j hj
    rcases split j hj with h | ⟨j', rfl, h⟩
    · rw [par_app_l h, isAN_app_l h]
      rcases h1.link j h with ⟨a1, a2, a3⟩ | ⟨q, a1, a2, a3, a4, a5⟩
      · refine Or.inl ⟨a1, ?_, a3⟩
        intro q hq; rw [sz_app_l (by omega)]; exact a2 q hq
      · refine Or.inr ⟨q, a1, a2, ?_, ?_, ?_⟩
        · rw [sz_app_l (by omega)]; exact a3
        · intro q' h1' h2'; rw [sz_app_l (by omega)]; exact a4 q' h1' h2'
        · intro han
          have := a5 han
          refine ⟨by rw [kd_app_l (by omega)]; exact this.1, ?_⟩
          intro q' h1' h2'; rw [isAN_app_l (by omega)]; exact this.2 q' h1' h2'
    · rw [par_app_r, isAN_app_r]
      rcases h2.link j' h with ⟨a1, a2, a3⟩ | ⟨q, a1, a2, a3, a4, a5⟩
      · refine Or.inl ⟨a1, ?_, a3⟩
        intro q hq
        by_cases hq1 : q < s1.length
        · have := early q hq1; omega
        · obtain ⟨q', rfl⟩ : ∃ q', q = s1.length + q' := ⟨q - s1.length, by omega⟩
          rw [sz_app_r]; have := a2 q' (by omega); omega
      · refine Or.inr ⟨s1.length + q, ?_, by omega, ?_, ?_, ?_⟩
        · rw [a1]; congr 1; omega
        · rw [sz_app_r]; omega
        · intro q' h1' h2'
          obtain ⟨q'', rfl⟩ : ∃ q'', q' = s1.length + q'' := ⟨q' - s1.length, by omega⟩
          rw [sz_app_r]; have := a4 q'' (by omega) (by omega); omega
        · intro han
          have := a5 han
          refine ⟨by rw [kd_app_r]; exact this.1, ?_⟩
          intro q' h1' h2'
          obtain ⟨q'', rfl⟩ : ∃ q'', q' = s1.length + q'' := ⟨q' - s1.length, by omega⟩
          rw [isAN_app_r]; exact this.2 q'' (by omega) (by omega)
  · intro j q hj hq hle
    rcases split j hj with h | ⟨j', rfl, h⟩
    · rw [sz_app_l h, sz_app_l (by omega)] at *
      exact h1.nest j q h hq hle
    · by_cases hq1 : q < s1.length
      · have := early q hq1; omega
      · obtain ⟨q', rfl⟩ : ∃ q', q = s1.length + q' := ⟨q - s1.length, by omega⟩
        rw [sz_app_r] at hle ⊢
        rw [sz_app_r]
        have := h2.nest j' q' h (by omega) (by omega); omega
  · intro j hj
    rcases split j hj with h | ⟨j', rfl, h⟩
    · rw [isED_app_l h, sz_app_l h]; exact h1.leaf j h
    · rw [isED_app_r, sz_app_r]; exact h2.leaf j' h
  · intro j hj
    rcases split j hj with h | ⟨j', rfl, h⟩
    · rw [kd_app_l h]; exact h1.nodoc j h
    · rw [kd_app_r]; intro hk; have := h2.nodoc j' h hk; omega

/-- a single leaf-like record (text, comment, PI, or the dummy document at index 0) -/
theorem segOK_single (o : Nat) (p : Option Nat) (r : Rec) (hp : r.parent = p) (hs : r.size = 0)
    (han : r.kind ≠ .attr ∧ r.kind ≠ .ns) (hd : r.kind = .doc → o = 0) : SegOK o p [r] := by
  have j0 : ∀ j, j < [r].length → j = 0 := by intro j h; simp at h; exact h
  refine ⟨?_, ?_, ?_, ?_, ?_⟩
  · intro j hj; obtain rfl := j0 j hj; simp [sz_cons_zero, hs]
  · intro j hj; obtain rfl := j0 j hj
    refine Or.inl ⟨by simp [par_cons_zero, hp], fun q hq => by omega, ?_⟩
    simp [isAN, kd_cons_zero, han.1, han.2]
  · intro j q hj hq; obtain rfl := j0 j hj; omega
  · intro j hj _; obtain rfl := j0 j hj; simp [sz_cons_zero, hs]
  · intro j hj hk; obtain rfl := j0 j hj
    rw [kd_cons_zero] at hk; have := hd hk; omega

/-! ### wrapping siblings by their parent record -/

section wrap
variable (r : Rec) (hdr body : Arr)

theorem wsz0 : sz (r :: (hdr ++ body)) 0 = r.size := rfl
theorem wpar0 : par (r :: (hdr ++ body)) 0 = r.parent := rfl
theorem wkd0 : kd (r :: (hdr ++ body)) 0 = r.kind := rfl
theorem wszH {j : Nat} (h : j < hdr.length) : sz (r :: (hdr ++ body)) (j + 1) = sz hdr j := by
  rw [sz_cons_succ, sz_app_l h]
theorem wparH {j : Nat} (h : j < hdr.length) : par (r :: (hdr ++ body)) (j + 1) = par hdr j := by
  rw [par_cons_succ, par_app_l h]
theorem wkdH {j : Nat} (h : j < hdr.length) : kd (r :: (hdr ++ body)) (j + 1) = kd hdr j := by
  rw [kd_cons_succ, kd_app_l h]
theorem wanH {j : Nat} (h : j < hdr.length) : isAN (r :: (hdr ++ body)) (j + 1) = isAN hdr j := by
  rw [isAN_cons_succ, isAN_app_l h]
theorem wedH {j : Nat} (h : j < hdr.length) : isED (r :: (hdr ++ body)) (j + 1) = isED hdr j := by
  rw [isED_cons_succ, isED_app_l h]
theorem wszB (j : Nat) : sz (r :: (hdr ++ body)) (hdr.length + j + 1) = sz body j := by
  rw [sz_cons_succ, sz_app_r]
theorem wparB (j : Nat) : par (r :: (hdr ++ body)) (hdr.length + j + 1) = par body j := by
  rw [par_cons_succ, par_app_r]
theorem wkdB (j : Nat) : kd (r :: (hdr ++ body)) (hdr.length + j + 1) = kd body j := by
  rw [kd_cons_succ, kd_app_r]
theorem wanB (j : Nat) : isAN (r :: (hdr ++ body)) (hdr.length + j + 1) = isAN body j := by
  rw [isAN_cons_succ, isAN_app_r]
theorem wedB (j : Nat) : isED (r :: (hdr ++ body)) (hdr.length + j + 1) = isED body j := by
  rw [isED_cons_succ, isED_app_r]

theorem wsplit (j : Nat) (hj : j < (r :: (hdr ++ body)).length) :
    j = 0 ∨ (∃ jh, j = jh + 1 ∧ jh < hdr.length) ∨ (∃ jb, j = hdr.length + jb + 1 ∧ jb < body.length) := by
  simp only [List.length_cons, List.length_append] at hj
  by_cases h0 : j = 0
  · exact Or.inl h0
  · by_cases h1 : j - 1 < hdr.length
    · exact Or.inr (Or.inl ⟨j - 1, by omega, h1⟩)
    · exact Or.inr (Or.inr ⟨j - 1 - hdr.length, by omega, by omega⟩)

end wrap

theorem segOK_wrap {o : Nat} {p : Option Nat} (r : Rec) (hdr body : Arr)
    (hk : r.kind = .elem ∨ (r.kind = .doc ∧ o = 0 ∧ hdr = []))
    (hp : r.parent = p) (hsz : r.size = hdr.length + body.length)
    (hh : ∀ j, j < hdr.length → isAN hdr j = true ∧ sz hdr j = 0 ∧ par hdr j = some o)
    (hb : SegOK (o + 1 + hdr.length) (some o) body) :
    SegOK o p (r :: (hdr ++ body)) := by
  have hlen : (r :: (hdr ++ body)).length = hdr.length + body.length + 1 := by
    simp only [List.length_cons, List.length_append]
  have r_notAN : isAN (r :: (hdr ++ body)) 0 = false := by
    unfold isAN; rw [wkd0]
    rcases hk with h | ⟨h, _, _⟩ <;> simp [h]
  have r_ED : isED (r :: (hdr ++ body)) 0 = true := by
    unfold isED; rw [wkd0]
    rcases hk with h | ⟨h, _, _⟩ <;> simp [h]
  -- sizes of records before a body index
  have szq : ∀ q, q < (r :: (hdr ++ body)).length → 0 < q →
      (∃ qh, q = qh + 1 ∧ qh < hdr.length ∧ sz (r :: (hdr ++ body)) q = 0) ∨
      (∃ qb, q = hdr.length + qb + 1 ∧ qb < body.length ∧ sz (r :: (hdr ++ body)) q = sz body qb) := by
    intro q hq hq0
    rcases wsplit r hdr body q hq with rfl | ⟨qh, rfl, h⟩ | ⟨qb, rfl, h⟩
    · omega
    · exact Or.inl ⟨qh, rfl, h, by rw [wszH r hdr body h]; exact (hh qh h).2.1⟩
    · exact Or.inr ⟨qb, rfl, h, wszB r hdr body qb⟩
  refine ⟨?_, ?_, ?_, ?_, ?_⟩
  · -- bound
    intro j hj
    rw [hlen]
    rcases wsplit r hdr body j hj with rfl | ⟨jh, rfl, h⟩ | ⟨jb, rfl, h⟩
    · rw [wsz0, hsz]; omega
    · rw [wszH r hdr body h, (hh jh h).2.1]; omega
    · rw [wszB]; have := hb.bound jb h; omega
  · -- link
    intro j hj
    rcases wsplit r hdr body j hj with rfl | ⟨jh, rfl, h⟩ | ⟨jb, rfl, h⟩
    · exact Or.inl ⟨by rw [wpar0, hp], fun q hq => by omega, r_notAN⟩
    · refine Or.inr ⟨0, ?_, by omega, ?_, ?_, ?_⟩
      · rw [wparH r hdr body h, (hh jh h).2.2]; rfl
      · rw [wsz0, hsz]; omega
      · intro q' h1 h2
        rcases szq q' (by omega) h1 with ⟨qh, rfl, _, e⟩ | ⟨qb, rfl, _, _⟩
        · rw [e]; omega
        · omega
      · intro _
        refine ⟨?_, ?_⟩
        · rw [wkd0]
          rcases hk with h' | ⟨_, _, h'⟩
          · exact h'
          · subst h'; simp at h
        · intro q' h1 h2
          obtain ⟨qh, rfl⟩ : ∃ qh, q' = qh + 1 := ⟨q' - 1, by omega⟩
          have hq : qh < hdr.length := by omega
          rw [wanH r hdr body hq]; exact (hh qh hq).1
    · rw [wparB, wanB]
      rcases hb.link jb h with ⟨a1, a2, a3⟩ | ⟨qb, a1, a2, a3, a4, a5⟩
      · refine Or.inr ⟨0, by rw [a1]; rfl, by omega, ?_, ?_, ?_⟩
        · rw [wsz0, hsz]; omega
        · intro q' h1 h2
          rcases szq q' (by omega) h1 with ⟨qh, rfl, _, e⟩ | ⟨qb, rfl, _, e⟩
          · rw [e]; omega
          · rw [e]; have := a2 qb (by omega); omega
        · intro han; rw [a3] at han; cases han
      · refine Or.inr ⟨hdr.length + qb + 1, ?_, by omega, ?_, ?_, ?_⟩
        · rw [a1]; congr 1; omega
        · rw [wszB]; omega
        · intro q' h1 h2
          obtain ⟨qb', rfl⟩ : ∃ qb', q' = hdr.length + qb' + 1 := ⟨q' - hdr.length - 1, by omega⟩
          rw [wszB]; have := a4 qb' (by omega) (by omega); omega
        · intro han
          have := a5 han
          refine ⟨by rw [wkdB]; exact this.1, ?_⟩
          intro q' h1 h2
          obtain ⟨qb', rfl⟩ : ∃ qb', q' = hdr.length + qb' + 1 := ⟨q' - hdr.length - 1, by omega⟩
          rw [wanB]; exact this.2 qb' (by omega) (by omega)
  · -- nest
    intro j q hj hq hle
    by_cases hq0 : q = 0
    · subst hq0
      rw [wsz0, hsz]
      rcases wsplit r hdr body j hj with rfl | ⟨jh, rfl, h⟩ | ⟨jb, rfl, h⟩
      · omega
      · rw [wszH r hdr body h, (hh jh h).2.1]; omega
      · rw [wszB]; have := hb.bound jb h; omega
    · rcases szq q (by omega) (by omega) with ⟨qh, rfl, _, e⟩ | ⟨qb, rfl, hqb, e⟩
      · rw [e] at hle; omega
      · rw [e] at hle ⊢
        obtain ⟨jb, rfl⟩ : ∃ jb, j = hdr.length + jb + 1 := ⟨j - hdr.length - 1, by omega⟩
        have hjb : jb < body.length := by rw [hlen] at hj; omega
        rw [wszB]
        have := hb.nest jb qb hjb (by omega) (by omega); omega
  · -- leaf
    intro j hj hed
    rcases wsplit r hdr body j hj with rfl | ⟨jh, rfl, h⟩ | ⟨jb, rfl, h⟩
    · rw [r_ED] at hed; cases hed
    · rw [wszH r hdr body h]; exact (hh jh h).2.1
    · rw [wedB] at hed; rw [wszB]; exact hb.leaf jb h hed
  · -- nodoc
    intro j hj hkd
    rcases wsplit r hdr body j hj with rfl | ⟨jh, rfl, h⟩ | ⟨jb, rfl, h⟩
    · rw [wkd0] at hkd
      rcases hk with h' | ⟨_, h', _⟩
      · rw [h'] at hkd; cases hkd
      · omega
    · rw [wkdH r hdr body h] at hkd
      have := (hh jh h).1
      unfold isAN at this; rw [hkd] at this; simp at this
    · rw [wkdB] at hkd
      have := hb.nodoc jb h hkd; omega

/-! ### `flatten` satisfies the invariant -/

theorem acc_of_forall (l : Arr) (i : Nat)
    (h : ∀ r ∈ l, (r.kind = .attr ∨ r.kind = .ns) ∧ r.size = 0 ∧ r.parent = some i) :
    ∀ j, j < l.length → isAN l j = true ∧ sz l j = 0 ∧ par l j = some i := by
  intro j hj
  have hm : l[j] ∈ l := List.getElem_mem hj
  have hg : l[j]? = some l[j] := List.getElem?_eq_getElem hj
  obtain ⟨h1, h2, h3⟩ := h _ hm
  simp only [isAN, kd, sz, par, hg]
  rcases h1 with e | e <;> simp [e, h2, h3]

theorem hdr_facts (i : Nat) (nss : List String) (attrs : List (String × String)) :
    ∀ j, j < (hdrRecs i nss attrs).length →
      isAN (hdrRecs i nss attrs) j = true ∧ sz (hdrRecs i nss attrs) j = 0 ∧
      par (hdrRecs i nss attrs) j = some i := by
  apply acc_of_forall
  intro r hr
  unfold hdrRecs at hr
  rw [List.mem_append, List.mem_map, List.mem_map] at hr
  rcases hr with ⟨_, _, rfl⟩ | ⟨_, _, rfl⟩ <;> simp

mutual
  theorem flatNode_ok : ∀ (t : XNode) (p : Option Nat) (o : Nat), SegOK o p (flatNode p o t)
    | .elem u n nss attrs kids, p, o => by
      unfold flatNode
      exact segOK_wrap _ _ _ (Or.inl rfl) rfl rfl (hdr_facts o nss attrs)
        (flatForest_ok kids (some o) (o + 1 + (hdrRecs o nss attrs).length))
    | .leaf k nm, p, o => by
      unfold flatNode
      exact segOK_single o p _ rfl rfl (by cases k <;> simp [LeafKind.toKind])
        (by cases k <;> simp [LeafKind.toKind])
  theorem flatForest_ok : ∀ (ks : XForest) (p : Option Nat) (o : Nat), SegOK o p (flatForest p o ks)
    | .nil, p, o => by unfold flatForest; exact segOK_nil o p
    | .cons k ks, p, o => by
      unfold flatForest
      exact segOK_append (flatNode_ok k p o) (flatForest_ok ks p (o + (flatNode p o k).length))
end

/-! ### from the invariant at offset 0 to `WF` -/

theorem wf_of_seg (m : Mode) (a : Arr) (hs : SegOK 0 none a) (hpos : 0 < a.length)
    (hshape : match m with
      | .doc => kd a 0 = .doc ∧ sz a 0 + 1 = a.length
      | .frag => kd a 0 = .elem ∧ sz a 0 + 1 = a.length
      | .dummy => kd a 0 = .doc ∧ sz a 0 = 0 ∧ 2 ≤ a.length ∧ kd a 1 = .elem ∧ sz a 1 + 2 = a.length) :
    WF m a := by
  -- inside links, with offset 0
  have inside : ∀ i p, i < a.length → par a i = some p →
      p < i ∧ i ≤ p + sz a p ∧ (∀ q', p < q' → q' < i → q' + sz a q' < i) ∧
      (isAN a i = true → kd a p = .elem ∧ ∀ q', p < q' → q' < i → isAN a q' = true) := by
    intro i p hi hp
    rcases hs.link i hi with ⟨a1, _, _⟩ | ⟨q, a1, a2, a3, a4, a5⟩
    · rw [hp] at a1; cases a1
    · rw [hp, Nat.zero_add] at a1
      obtain rfl : p = q := by simpa using a1
      exact ⟨a2, a3, a4, a5⟩
  have hroot : ∀ i, i < a.length → isRoot m i = true → par a i = none := by
    intro i hi hr
    cases hp : par a i with
    | none => rfl
    | some p =>
      exfalso
      have ⟨h1, h2, _⟩ := inside i p hi hp
      unfold isRoot at hr
      simp only [Bool.or_eq_true, beq_iff_eq, Bool.and_eq_true] at hr
      rcases hr with rfl | ⟨rfl, rfl⟩
      · omega
      · simp only at hshape; have : p = 0 := by omega
        subst this; omega
  have hsome : ∀ i, i < a.length → isRoot m i = false → ∃ p, par a i = some p := by
    intro i hi hr
    rcases hs.link i hi with ⟨_, a2, _⟩ | ⟨q, a1, _⟩
    · exfalso
      unfold isRoot at hr
      simp only [Bool.or_eq_false_iff, beq_eq_false_iff_ne, ne_eq, Bool.and_eq_false_iff] at hr
      cases m with
      | doc => simp only at hshape; have := a2 0 (by omega); omega
      | frag => simp only at hshape; have := a2 0 (by omega); omega
      | dummy =>
        simp only at hshape
        have hi1 : i ≠ 1 := by rcases hr.2 with h | h; simp at h; exact h
        have := a2 1 (by omega); omega
    · exact ⟨_, a1⟩
  exact {
    pos := hpos
    bound := hs.bound
    rootNone := hroot
    parSome := hsome
    parLt := fun i p hi hp => ⟨(inside i p hi hp).1, (inside i p hi hp).2.1⟩
    nearest := fun i p q hi hp h1 h2 => (inside i p hi hp).2.2.1 q h1 h2
    nest := hs.nest
    owner := fun i p hi hp han => ((inside i p hi hp).2.2.2 han).1
    anFirst := fun i p q hi hp han h1 h2 => ((inside i p hi hp).2.2.2 han).2 q h1 h2
    leaf := hs.leaf
    docZero := fun i hi hk => by have := hs.nodoc i hi hk; omega
    shape := by cases m <;> exact hshape }

/-- **flatten_wf**: the array of every tree is well-formed -/
theorem flatten_WF : ∀ (r : Root), WF r.mode r.flatten
  | .frag u n nss attrs kids => by
    apply wf_of_seg
    · exact flatNode_ok _ none 0
    · simp [Root.flatten, flatNode]
    · simp [Root.mode, Root.flatten, flatNode, kd, sz]
  | .doc kids => by
    apply wf_of_seg
    · have := segOK_wrap (o := 0) (p := none)
        ⟨.doc, "", "", none, (flatForest (some 0) 1 kids).length⟩ [] (flatForest (some 0) 1 kids)
        (Or.inr ⟨rfl, rfl, rfl⟩) rfl (by simp) (fun j h => by simp at h) (flatForest_ok kids (some 0) 1)
      simpa [Root.flatten] using this
    · simp [Root.flatten]
    · simp [Root.mode, Root.flatten, kd, sz]
  | .dummy u n nss attrs kids => by
    apply wf_of_seg
    · have h1 : SegOK 0 none [(⟨.doc, "", "", none, 0⟩ : Rec)] :=
        segOK_single 0 none _ rfl rfl (by simp) (fun _ => rfl)
      have := segOK_append h1 (flatNode_ok (.elem u n nss attrs kids) none (0 + 1))
      simpa [Root.flatten] using this
    · simp [Root.flatten]
    · simp [Root.mode, Root.flatten, flatNode, kd, sz]

end EPV.XP

/-
C12 helper lemmas about the transcribed class scanner (`parseClassText`, `scanGroup`, `reSplit`,
`iterparse` of Model/CharClass.lean) on class texts made of plain characters.
-/
import EPV.Lemmas.RegexClass
namespace EPV.Regex

/-- a class-body character with no special role for the scanner -/
def Plain (c : Ch) : Prop := c ≠ 92 ∧ c ≠ 45 ∧ c ≠ 91 ∧ c ≠ 93

theorem forbidden_none (b : Bool) (l : List Ch) (h : ∀ c ∈ l, c ≠ 92) (prev : Option Ch) :
    forbiddenEscape b prev l = false := by
  induction l generalizing prev with
  | nil => rfl
  | cons c l ih =>
    have hc : c ≠ 92 := h c List.mem_cons_self
    unfold forbiddenEscape
    split
    · rename_i heq; cases heq
    · rename_i heq; cases heq; exact absurd rfl hc
    · rename_i heq; cases heq
      exact ih (fun c hc => h c (List.mem_cons_of_mem _ hc)) _

theorem scanGroup_step (c : Ch) (l acc : List Ch) (h : Plain c) :
    scanGroup (c :: l) acc = scanGroup l (c :: acc) := by
  obtain ⟨h1, h2, h3, h4⟩ := h
  rw [scanGroup.eq_def]
  split
  all_goals (rename_i heq; first
    | (simp only [List.cons.injEq, reduceCtorEq] at heq)
    | skip)
  all_goals first
    | (exact absurd heq.1 h3)
    | (exact absurd heq.1 h1)
    | (exact absurd heq.1 h4)
    | (exact absurd heq.1 h2)
    | (obtain ⟨rfl, rfl⟩ := heq; rfl)
    | skip

theorem scanGroup_plain (body rest : List Ch) (h : ∀ c ∈ body, Plain c) (acc : List Ch) :
    scanGroup (body ++ 93 :: rest) acc = some (acc.reverse ++ body, 93 :: rest) := by
  induction body generalizing acc with
  | nil => simp [scanGroup]
  | cons c body ih =>
    have ih' := ih (fun c hc => h c (List.mem_cons_of_mem _ hc)) (c :: acc)
    rw [List.cons_append, scanGroup_step c _ acc (h c List.mem_cons_self), ih']
    simp

theorem noDoubleHyphen (l : List Ch) (h : ∀ c ∈ l, c ≠ 45) (p : Option Ch) : hasDoubleHyphen p l = false := by
  induction l generalizing p with
  | nil => rfl
  | cons c l ih =>
    have hc := h c List.mem_cons_self
    unfold hasDoubleHyphen
    split
    · rename_i heq; cases heq; exact absurd rfl hc
    · rename_i heq; cases heq; exact ih (fun c hc => h c (List.mem_cons_of_mem _ hc)) _
    · rename_i heq; cases heq

theorem noInvalidHyphen (l : List Ch) (h : ∀ c ∈ l, c ≠ 45) : hasInvalidHyphen l = false := by
  induction l with
  | nil => rfl
  | cons c l ih =>
    unfold hasInvalidHyphen
    split
    · rename_i heq; cases heq
      exact absurd rfl (h 45 (by simp))
    · rename_i heq; cases heq; exact ih (fun c hc => h c (List.mem_cons_of_mem _ hc))
    · rename_i heq; cases heq

theorem escTokenLen_none (c : Ch) (rest : List Ch) (h : c ≠ 92) : escTokenLen (c :: rest) = none := by
  unfold escTokenLen
  split
  · rename_i heq; cases heq; exact absurd rfl h
  · rfl

theorem reSplit_plain (l : List Ch) (h : ∀ c ∈ l, c ≠ 92) (fuel : Nat) (hf : l.length ≤ fuel)
    (p2 p1 : Option Ch) (cur : List Ch) : reSplit fuel l p2 p1 cur = [(false, cur.reverse ++ l)] := by
  induction l generalizing fuel p2 p1 cur with
  | nil => cases fuel <;> simp [reSplit]
  | cons c l ih =>
    cases fuel with
    | zero => simp at hf
    | succ fuel =>
      have hc := h c List.mem_cons_self
      simp only [reSplit, escTokenLen_none c l hc]
      simp only [ite_self]
      rw [ih (fun c hc => h c (List.mem_cons_of_mem _ hc)) fuel (by simpa using hf)]
      simp


def ones (l : List Ch) : List (Nat × Nat) := l.map fun c => (c, c + 1)

theorem iterparse_plain_step (s : Array Ch) (fuel k : Nat) (onR : Bool) (ch : Ch) (acc : List (Nat × Nat))
    (hk1 : 1 ≤ k) (hk : k < s.size) (hp : Plain s[k]!) (hnext : k + 1 < s.size → s[k + 1]! ≠ 45) :
    iterparse s (fuel + 1) k false onR ch acc = iterparse s fuel (k + 1) false false s[k]! ((s[k]!, s[k]! + 1) :: acc) := by
  obtain ⟨h1, h2, h3, h4⟩ := hp
  have e0 : (k == 0) = false := by simp; omega
  have e45 : (s[k]! == 45) = false := by simpa using h2
  have e91 : (s[k]! == 91) = false := by simpa using h3
  have e93 : (s[k]! == 93) = false := by simpa using h4
  have e92 : (s[k]! == 92) = false := by simpa using h1
  have hge : ¬ k ≥ s.size := by omega
  have hcond : (decide (k ≥ s.size - 2) || s[k + 1]! != 45) = true := by
    by_cases hn : k + 1 < s.size
    · have := hnext hn
      simp [this]
    · have : k ≥ s.size - 2 := by omega
      simp [this]
  rw [iterparse]
  simp only [hge, if_false, e0, e45, e91, e93, e92, Bool.or_self, Bool.false_eq_true, Bool.false_and]
  by_cases hch : chIn s[k]! "|.^?*+{}()" = true
  · simp only [hch, if_true]
  · simp only [hch, hcond, if_true]
    rfl


theorem getElem!_toArray_plain (body : List Ch) (h : ∀ c ∈ body, Plain c) (k : Nat) (hk : k < body.length) :
    Plain body.toArray[k]! := by
  have : body.toArray[k]! = body[k] := by simp [hk]
  rw [this]
  exact h _ (List.getElem_mem hk)

theorem iterparse_plain_loop (body : List Ch) (h : ∀ c ∈ body, Plain c) :
    ∀ (fuel k : Nat) (onR : Bool) (ch : Ch) (acc : List (Nat × Nat)), 1 ≤ k → k ≤ body.length →
      body.length - k < fuel →
      iterparse body.toArray fuel k false onR ch acc = some ((ones (body.drop k)).reverse ++ acc) := by
  intro fuel
  induction fuel with
  | zero => intro k _ _ _ _ _ hf; omega
  | succ fuel ih =>
    intro k onR ch acc hk1 hk hf
    by_cases hlt : k < body.length
    · have hs : k < body.toArray.size := by simpa using hlt
      have hp := getElem!_toArray_plain body h k hlt
      have hnext : k + 1 < body.toArray.size → body.toArray[k + 1]! ≠ 45 := fun hn =>
        (getElem!_toArray_plain body h (k + 1) (by simpa using hn)).2.1
      rw [iterparse_plain_step _ fuel k onR ch acc hk1 hs hp hnext]
      rw [ih (k + 1) false _ _ (by omega) (by omega) (by omega)]
      have hd : body.drop k = body[k] :: body.drop (k + 1) := by
        rw [List.drop_eq_getElem_cons hlt]
      have he : body.toArray[k]! = body[k] := by simp [hlt]
      have ho : ones (body.drop k) = (body[k], body[k] + 1) :: ones (body.drop (k + 1)) := by
        rw [hd]; rfl
      rw [ho, he]
      simp
    · have : k = body.length := by omega
      subst this
      rw [iterparse]
      simp [ones]

theorem iterparse_plain (body : List Ch) (h : ∀ c ∈ body, Plain c) (hne : body ≠ []) :
    iterparse body.toArray (body.length + 2) 0 false false 0 [] = some (ones body).reverse := by
  cases body with
  | nil => exact absurd rfl hne
  | cons c rest =>
    have hp := getElem!_toArray_plain (c :: rest) h 0 (by simp)
    have hc : (c :: rest).toArray[0]! = c := by simp
    rw [hc] at hp
    obtain ⟨h1, h2, h3, h4⟩ := hp
    have hcond : (decide ((c :: rest).toArray.size ≤ 2) || (c :: rest).toArray[1]! != 45) = true := by
      cases rest with
      | nil => simp
      | cons d rest' =>
        have hd := (getElem!_toArray_plain (c :: d :: rest') h 1 (by simp)).2.1
        have : (c :: d :: rest').toArray[1]! = d := by simp
        rw [this] at hd ⊢
        simp [hd]
    rw [iterparse]
    have e92 : (c == 92) = false := by simpa using h1
    have e91 : (c == 91) = false := by simpa using h3
    have e93 : (c == 93) = false := by simpa using h4
    have hge : ¬ (0 ≥ (c :: rest).toArray.size) := by simp
    simp only [hge, if_false, hc, beq_self_eq_true, if_true, e92, e91, e93, Bool.or_self, Bool.false_and,
      Bool.false_eq_true, hcond]
    rw [iterparse_plain_loop (c :: rest) h _ 1 false c _ (Nat.le_refl _) (by simp) (by simp; omega)]
    simp [ones]

theorem memR_ones (l : List Ch) (x : Nat) : memR x (ones l).reverse = decide (x ∈ l) := by
  unfold memR ones
  rw [List.any_reverse]
  induction l with
  | nil => simp
  | cons c l ih =>
    simp only [List.map_cons, List.any_cons, ih]
    by_cases hx : x = c
    · subst hx; simp
    · have h1 : (decide (c ≤ x) && decide (x < c + 1)) = false := by
        apply Bool.eq_false_iff.2
        intro hh
        have := (Bool.and_eq_true _ _).mp hh
        have h3 : @LE.le Nat _ c x := of_decide_eq_true this.1
        have h4 : @LT.lt Nat _ x (c + 1) := of_decide_eq_true this.2
        omega
      rw [h1]
      simp [hx]


theorem addPart_plain (T : MTables) (c : CC) (part : List Ch) (h : part.head? ≠ some 92) :
    addPart T c part = (parseSubset part).map fun s => c.addItem ⟨false, s⟩ := by
  unfold addPart
  split
  · rename_i heq; simp at h
  · rename_i heq; simp at h
  · rfl

theorem parseSubset_plain (body : List Ch) (h : ∀ c ∈ body, Plain c) (hne : body ≠ []) :
    parseSubset body = some (.ranges (ones body).reverse) := by
  unfold parseSubset
  rw [iterparse_plain body h hne]
  rfl

/-- The transcribed class scanner on a class text `[` body `]` whose body consists of plain
characters (no backslash, hyphen or bracket; not starting with `^`): it accepts, and the class
contains exactly the characters of the body. -/
theorem scanner_plain (T : MTables) (v10 xp : Bool) (body : List Ch) (hne : body ≠ [])
    (hp : ∀ c ∈ body, Plain c) (h0 : body.head? ≠ some 94) :
    ∃ cc, parseClassText T v10 xp (91 :: (body ++ [93])) = some cc ∧ ∀ x, cc.contains x = decide (x ∈ body) := by
  have h92 : ∀ c ∈ 91 :: (body ++ [93]), c ≠ 92 := by
    intro c hc
    simp only [List.mem_cons, List.mem_append, List.not_mem_nil, or_false] at hc
    rcases hc with rfl | hc | rfl
    · decide
    · exact (hp c hc).1
    · decide
  have h45 : ∀ c ∈ body, c ≠ 45 := fun c hc => (hp c hc).2.1
  have hb92 : ∀ c ∈ body, c ≠ 92 := fun c hc => (hp c hc).1
  have hscan := scanGroup_plain body [] hp []
  have hhead : body.head? ≠ some 92 := by
    cases body with
    | nil => simp
    | cons c r => simpa using (hp c List.mem_cons_self).1
  have hmk : mkClass T body = some (CC.new.addItem ⟨false, .ranges (ones body).reverse⟩) := by
    unfold mkClass
    rw [reSplit_plain body hb92 _ (Nat.le_succ _)]
    simp [List.foldlM, addPart_plain T CC.new body hhead, parseSubset_plain body hp hne]
  refine ⟨CC.new.addItem ⟨false, .ranges (ones body).reverse⟩, ?_, ?_⟩
  · unfold parseClassText
    rw [forbidden_none xp _ h92 none]
    simp only [Bool.false_eq_true, if_false, List.length_append, List.length_cons, List.length_nil]
    cases body with
    | nil => exact absurd rfl hne
    | cons c r =>
      have hc94 : c ≠ 94 := by simpa using h0
      rw [parseClassM]
      case x_3 =>
        intro rest heq
        simp only [List.cons_append, List.cons.injEq] at heq
        exact hc94 heq.1
      have hm : (match (c :: r ++ [93] : List Ch) with | 94 :: rest => (true, rest) | _ => (false, c :: r ++ [93]))
          = (false, c :: r ++ [93]) := by
        split
        · rename_i heq; simp at heq; exact absurd heq.1 hc94
        · rfl
      simp only [List.cons_append] at hm ⊢
      simp only [List.cons_append, List.reverse_nil, List.nil_append] at hscan
      first
        | rw [hm, hscan]
        | rw [hscan]
      simp [noDoubleHyphen (c :: r) h45 none, noInvalidHyphen (c :: r) h45, hmk]
  · intro x
    simp [CC.addItem, CC.new, CC.contains, none_isEmpty, SetE.mem, none_mem, memR_ones]

end EPV.Regex

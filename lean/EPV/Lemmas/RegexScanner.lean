/-
C12 helper lemmas about the transcribed class scanner (`parseClassText`, `scanGroup`, `reSplit`,
`addPart` of Model/CharClass.lean): scanning facts used by Lemmas/RegexClassGrammar.lean.
-/
import EPV.Lemmas.RegexClass
namespace EPV.Regex

/-- a class-body character with no special role for the scanner -/
def Plain (c : Ch) : Prop := c ≠ 92 ∧ c ≠ 45 ∧ c ≠ 91 ∧ c ≠ 93

theorem forbidden_none (b : Bool) (l : List Ch) (h : ∀ c ∈ l, c ≠ 92) (prev : Option Ch) :
    forbiddenEscape b prev l = false := by
  induction l generalizing prev with
  | nil => rfl
  | cons c l ih =>
    have hc : c ≠ 92 := h c List.mem_cons_self
    unfold forbiddenEscape
    split
    · rename_i heq; cases heq
    · rename_i heq; cases heq; exact absurd rfl hc
    · rename_i heq; cases heq
      exact ih (fun c hc => h c (List.mem_cons_of_mem _ hc)) _

theorem scanGroup_step (c : Ch) (l acc : List Ch) (h : Plain c) :
    scanGroup (c :: l) acc = scanGroup l (c :: acc) := by
  obtain ⟨h1, h2, h3, h4⟩ := h
  rw [scanGroup.eq_def]
  split
  all_goals (rename_i heq; first
    | (simp only [List.cons.injEq, reduceCtorEq] at heq)
    | skip)
  all_goals first
    | (exact absurd heq.1 h3)
    | (exact absurd heq.1 h1)
    | (exact absurd heq.1 h4)
    | (exact absurd heq.1 h2)
    | (obtain ⟨rfl, rfl⟩ := heq; rfl)
    | skip

theorem scanGroup_plain (body rest : List Ch) (h : ∀ c ∈ body, Plain c) (acc : List Ch) :
    scanGroup (body ++ 93 :: rest) acc = some (acc.reverse ++ body, 93 :: rest) := by
  induction body generalizing acc with
  | nil => simp [scanGroup]
  | cons c body ih =>
    have ih' := ih (fun c hc => h c (List.mem_cons_of_mem _ hc)) (c :: acc)
    rw [List.cons_append, scanGroup_step c _ acc (h c List.mem_cons_self), ih']
    simp

theorem noDoubleHyphen (l : List Ch) (h : ∀ c ∈ l, c ≠ 45) (p : Option Ch) : hasDoubleHyphen p l = false := by
  induction l generalizing p with
  | nil => rfl
  | cons c l ih =>
    have hc := h c List.mem_cons_self
    unfold hasDoubleHyphen
    split
    · rename_i heq; cases heq; exact absurd rfl hc
    · rename_i heq; cases heq; exact ih (fun c hc => h c (List.mem_cons_of_mem _ hc)) _
    · rename_i heq; cases heq

theorem noInvalidHyphen (l : List Ch) (h : ∀ c ∈ l, c ≠ 45) : hasInvalidHyphen l = false := by
  induction l with
  | nil => rfl
  | cons c l ih =>
    unfold hasInvalidHyphen
    split
    · rename_i heq; cases heq
      exact absurd rfl (h 45 (by simp))
    · rename_i heq; cases heq; exact ih (fun c hc => h c (List.mem_cons_of_mem _ hc))
    · rename_i heq; cases heq

theorem escTokenLen_none (c : Ch) (rest : List Ch) (h : c ≠ 92) : escTokenLen (c :: rest) = none := by
  unfold escTokenLen
  split
  · rename_i heq; cases heq; exact absurd rfl h
  · rfl

theorem reSplit_plain (l : List Ch) (h : ∀ c ∈ l, c ≠ 92) (fuel : Nat) (hf : l.length ≤ fuel)
    (p2 p1 : Option Ch) (cur : List Ch) : reSplit fuel l p2 p1 cur = [(false, cur.reverse ++ l)] := by
  induction l generalizing fuel p2 p1 cur with
  | nil => cases fuel <;> simp [reSplit]
  | cons c l ih =>
    cases fuel with
    | zero => simp at hf
    | succ fuel =>
      have hc := h c List.mem_cons_self
      simp only [reSplit, escTokenLen_none c l hc]
      simp only [ite_self]
      rw [ih (fun c hc => h c (List.mem_cons_of_mem _ hc)) fuel (by simpa using hf)]
      simp


theorem addPart_plain (T : MTables) (c : CC) (part : List Ch) (h : part.head? ≠ some 92) :
    addPart T c part = (parseSubset part).map fun s => c.addItem ⟨false, s⟩ := by
  unfold addPart
  split
  · rename_i heq; simp at h
  · rename_i heq; simp at h
  · rfl

end EPV.Regex

import EPV.Lemmas.USetDiscard
namespace EPV.USet

theorem canon_lb {c : CP} {cs : List CP} (h : Canon (c :: cs)) : ∀ x, memL x cs → c.hi + 1 ≤ x := by
  obtain ⟨_, hh, hc⟩ := canon_cons.mp h
  exact headLoGe_lb (canon_winv hc) hh

theorem cp_ext {c d : CP} (hc : c.canon) (hd : d.canon) (hlo : c.lo = d.lo) (hhi : c.hi = d.hi) : c = d := by
  cases c <;> cases d <;> simp only [CP.canon, CP.lo_one, CP.hi_one, CP.lo_rng, CP.hi_rng] at * <;>
    first | (subst hlo; subst hhi; rfl) | omega | (subst hlo; rfl)

/-- **extensionality**: two canonical lists denoting the same set are equal -/
theorem canon_ext : ∀ (a b : List CP), Canon a → Canon b → (∀ x, memL x a ↔ memL x b) → a = b := by
  intro a
  induction a with
  | nil =>
    intro b _ hb h
    cases b with
    | nil => rfl
    | cons d ds =>
      have hd := CP.canon_lt (canon_cons.mp hb).1
      have : memL d.lo (d :: ds) := Or.inl ⟨Nat.le_refl _, hd⟩
      exact ((h d.lo).mpr this).elim
  | cons c cs ih =>
    intro b ha hb h
    obtain ⟨hcc, hch, hcs⟩ := canon_cons.mp ha
    have hclt := CP.canon_lt hcc
    cases b with
    | nil =>
      have : memL c.lo (c :: cs) := Or.inl ⟨Nat.le_refl _, hclt⟩
      exact ((h c.lo).mp this).elim
    | cons d ds =>
      obtain ⟨hdc, hdh, hds⟩ := canon_cons.mp hb
      have hdlt := CP.canon_lt hdc
      have hlba := canon_lb ha
      have hlbb := canon_lb hb
      -- a member of `c :: cs` is ≥ c.lo
      have gea : ∀ x, memL x (c :: cs) → c.lo ≤ x := by
        intro x hx; rcases hx with hx | hx
        · exact hx.1
        · have := hlba x hx; omega
      have geb : ∀ x, memL x (d :: ds) → d.lo ≤ x := by
        intro x hx; rcases hx with hx | hx
        · exact hx.1
        · have := hlbb x hx; omega
      have hlo : c.lo = d.lo := by
        have h1 := geb c.lo ((h c.lo).mp (Or.inl ⟨Nat.le_refl _, hclt⟩))
        have h2 := gea d.lo ((h d.lo).mpr (Or.inl ⟨Nat.le_refl _, hdlt⟩))
        omega
      have hhi : c.hi = d.hi := by
        rcases Nat.lt_trichotomy c.hi d.hi with hlt | heq | hgt
        · -- c.hi ∈ d, so it must be in cs, but cs starts after c.hi
          have : memL c.hi (d :: ds) := Or.inl ⟨by omega, hlt⟩
          rcases (h c.hi).mpr this with hx | hx
          · have := hx.2; omega
          · have := hlba c.hi hx; omega
        · exact heq
        · have : memL d.hi (c :: cs) := Or.inl ⟨by omega, hgt⟩
          rcases (h d.hi).mp this with hx | hx
          · have := hx.2; omega
          · have := hlbb d.hi hx; omega
      have hcd : c = d := cp_ext hcc hdc hlo hhi
      subst hcd
      have htl : ∀ x, memL x cs ↔ memL x ds := by
        intro x
        constructor
        · intro hx
          rcases (h x).mp (Or.inr hx) with hx' | hx'
          · have := hlba x hx; have := hx'.2; omega
          · exact hx'
        · intro hx
          rcases (h x).mpr (Or.inr hx) with hx' | hx'
          · have := hlbb x hx; have := hx'.2; omega
          · exact hx'
      rw [ih ds hcs hds htl]

end EPV.USet

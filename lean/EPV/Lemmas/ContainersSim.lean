/-
C16 extension (phase 5) — the container layer: the model simulates the specification (`Sim`), never
raises `stale` with the F16 repair (`NS`), never raises `scope`/`arity` on the reference tree (`Good`).
-/
import EPV.Lemmas.ClosuresStep
import EPV.Lemmas.ClosuresFlags
import EPV.Lemmas.ClosuresInv
import EPV.Model.Containers
namespace EPV.Clo

/-! ### lookups: the code's index arithmetic / dict lookup = `array:get` / `map:get` -/

theorem arrGet_eq (ms : List Seq) (k : Int) : arrGet ms k = specArrGet ms k := by
  unfold arrGet specArrGet
  by_cases h0 : k ≤ 0
  · have : ¬ (1 ≤ k ∧ k ≤ (ms.length : Int)) := by omega
    simp [h0, this]
  · by_cases h1 : k ≤ (ms.length : Int)
    · have hlt : k.toNat - 1 < ms.length := by omega
      have : (1 ≤ k ∧ k ≤ (ms.length : Int)) := by omega
      simp [h0, this, List.getD, List.getElem?_eq_getElem hlt]
    · have hge : ms.length ≤ k.toNat - 1 := by omega
      have : ¬ (1 ≤ k ∧ k ≤ (ms.length : Int)) := by omega
      simp [h0, this, List.getElem?_eq_none hge]

theorem mapGet_eq : ∀ (kv : List (Int × Seq)) (k : Int), mapGet kv k = specMapGet kv k
  | [], k => rfl
  | (k', m) :: kv, k => by
    have ih := mapGet_eq kv k
    unfold mapGet specMapGet at ih ⊢
    by_cases h : k = k'
    · subst h; simp [List.lookup, List.find?]
    · have h' : (k == k') = false := by simpa using h
      have h'' : (k' == k) = false := by simpa using (fun e => h (Eq.symm e))
      simp only [List.lookup, h', List.find?, h'']
      exact ih

theorem contGet_eq (isMap : Bool) (kv : List (Int × Seq)) (k : Int) :
    contGet isMap kv k = specGet isMap kv k := by
  unfold contGet specGet
  rw [mapGet_eq, arrGet_eq]

/-- a call with a number of arguments that is not the arity of the function item raises XPTY0004
(`check_arguments_number` / the arity check of `_InlineFunction.__call__`), from any state -/
theorem callFn_arity_mismatch (cfg : Cfg) (ev : Expr → ICtx → Env → IM (Seq × Env)) (c : ICtx) (D : Env)
    (a : Nat) (args : List Seq) (st : St) (o : FObj) (h : st.heap[a]? = some o) (hn : o.arity ≠ args.length) :
    callFn cfg ev c D a args st = (Flags.none, .error .XPTY0004) := by
  unfold callFn
  rw [IM.bind_def]
  simp only [IM.getObj, h]
  have hno : o.nargsOk args.length = false := by
    simp only [FObj.nargsOk, beq_eq_false_iff_ne, ne_eq]; exact hn
  cases hc : o.code <;> simp [hno, IM.throw, Flags.or, Flags.none]

/-! ### simulation -/
section
variable (cfg : Cfg) (ev : Expr → ICtx → Env → IM (Seq × Env)) (sev : Expr → SCtx → SM Seq)
variable (hev : ∀ e c D, Sim Prod.fst (ev e c D) (sev e (eraseCtx c)))
include hev

theorem runLets_sim {α β} (q : α → β) (k : ICtx → Env → IM α) (k' : SCtx → SM β)
    (hk : ∀ c D, Sim q (k c D) (k' (eraseCtx c))) :
    ∀ (bs : List (Nat × Expr)) (c : ICtx) (D : Env),
      Sim q (runLets ev k c D bs) (specLets sev k' (eraseCtx c) bs)
  | [], c, D => hk c D
  | (x, e) :: r, c, D => by
    simp only [runLets, specLets]
    apply Sim.bnd (hev e c D); intro xv
    exact runLets_sim q k k' hk r _ _

theorem useBody_sim (c : ICtx) (D : Env) (tgt : Seq) (u : CUse) :
    Sim Prod.fst (useBody cfg ev c D tgt u) (specUse sev (eraseCtx c) tgt u) := by
  cases u with
  | get k => exact Sim.ret _ _ _ rfl
  | call k args =>
    simp only [useBody, specUse]
    apply Sim.bnd (p := id) (Sim.single _); intro a
    cases args.any Option.isNone
    · simp only [Bool.false_eq_true, if_false]
      apply Sim.bnd (evalList_sim ev sev hev c _ _); intro vals
      exact callFn_sim cfg ev sev hev c _ _ _
    · simp only [if_true]
      exact partialApply_sim cfg ev sev hev c _ _ _
  | each x k args =>
    simp only [useBody, specUse]
    have := forLoop_sim ev sev hev c x (.call (.var x) args) tgt D []
    simp only [List.nil_append, bind_pure] at this
    exact Sim.map this _ (fun _ => rfl)

theorem hofMembers_sim (c : ICtx) (a : Nat) : ∀ (ls : List (List Seq)) (D : Env) (acc : Seq),
    Sim Prod.fst (hofMembers cfg ev c a D acc ls)
      (specMembers (specCall sev) a ls >>= fun rs => pure (acc ++ rs))
  | [], D, acc => by
    simp only [hofMembers, specMembers, pure_bind, List.append_nil]
    exact Sim.ret _ _ _ rfl
  | as :: rest, D, acc => by
    simp only [hofMembers, specMembers, bind_assoc, pure_bind]
    apply Sim.bnd (callFn_sim cfg ev sev hev c D a _)
    intro r
    have := hofMembers_sim c a rest r.2 (acc ++ r.1)
    simpa only [List.append_assoc] using this

theorem runUses_sim (isMap : Bool) (kv : List (Int × Seq)) (c : ICtx) :
    ∀ (us : List CStep) (D : Env) (acc : Seq),
      Sim Prod.fst (runUses cfg ev isMap kv c D acc us) (specUses sev isMap kv (eraseCtx c) acc us)
  | [], D, acc => Sim.ret _ _ _ rfl
  | .use u :: us, D, acc => by
    simp only [runUses, specUses]
    rw [contGet_eq]
    cases specGet isMap kv u.key with
    | error x => exact Sim.ret _ _ _ rfl
    | ok tgt =>
      simp only
      apply Sim.bnd (useBody_sim cfg ev sev hev c D tgt u); intro r
      exact runUses_sim isMap kv c us _ _
  | .forEach f :: us, D, acc => by
    simp only [runUses, specUses]
    apply Sim.bnd (funArgCheck_sim ev sev hev c D f _); intro fa
    have h1 := hofMembers_sim cfg ev sev hev c fa.1 (argLists isMap kv) fa.2 []
    simp only [List.nil_append, bind_pure] at h1
    exact Sim.bnd h1 (fun r => runUses_sim isMap kv c us _ _)

theorem runCont_sim (p : CProg) (c : ICtx) (D : Env) :
    Sim Prod.fst (runCont cfg ev p c D) (specCont sev p (eraseCtx c)) := by
  unfold runCont specCont
  apply runLets_sim ev sev hev
  intro c1 D1
  cases (if p.isMap then firstDup [] (p.entries.map (·.1)) 0 else none) with
  | some j =>
    simp only
    apply Sim.bnd (evalList_sim ev sev hev c1 _ _); intro r
    exact Sim.ret _ _ _ rfl
  | none =>
    simp only
    apply Sim.bnd (evalList_sim ev sev hev c1 _ _); intro ms
    apply runLets_sim ev sev hev
    intro c2 D2
    exact runUses_sim cfg ev sev hev p.isMap _ c2 p.uses D2 []

end

/-! ### `stale` is never raised with the F16 repair -/
section
variable (cfg : Cfg) (hs : cfg.share = false)
variable (ev : Expr → ICtx → Env → IM (Seq × Env)) (hev : ∀ e c D, NS (ev e c D))
include hev

omit hs in
theorem ns_runLets {α} (k : ICtx → Env → IM α) (hk : ∀ c D, NS (k c D)) :
    ∀ (bs : List (Nat × Expr)) (c : ICtx) (D : Env), NS (runLets ev k c D bs)
  | [], c, D => hk c D
  | (x, e) :: r, c, D => by
    simp only [runLets]
    exact NS.bnd (hev e c D) (fun xv => ns_runLets k hk r _ _)

include hs in
theorem ns_useBody (c : ICtx) (D : Env) (tgt : Seq) (u : CUse) : NS (useBody cfg ev c D tgt u) := by
  cases u with
  | get k => exact NS.ret _
  | call k args =>
    simp only [useBody]
    apply NS.bnd (NS.single _); intro a
    split
    · exact ns_partialApply cfg hs ev hev c D a args
    · exact NS.bnd (ns_evalList ev hev c _ _) (fun vals => ns_callFn cfg hs ev hev c _ a _)
  | each x k args =>
    simp only [useBody]
    exact NS.bnd (ns_forLoop ev hev c x _ tgt D []) (fun r => NS.ret _)

include hs in
theorem ns_hofMembers (c : ICtx) (a : Nat) : ∀ (ls : List (List Seq)) (D : Env) (acc : Seq),
    NS (hofMembers cfg ev c a D acc ls)
  | [], D, acc => NS.ret _
  | as :: rest, D, acc => by
    simp only [hofMembers]
    exact NS.bnd (ns_callFn cfg hs ev hev _ _ _ _) (fun r => ns_hofMembers c a rest _ _)

include hs in
theorem ns_runUses (isMap : Bool) (kv : List (Int × Seq)) (c : ICtx) :
    ∀ (us : List CStep) (D : Env) (acc : Seq), NS (runUses cfg ev isMap kv c D acc us)
  | [], D, acc => NS.ret _
  | .use u :: us, D, acc => by
    simp only [runUses]
    split
    · exact NS.ret _
    · exact NS.bnd (ns_useBody cfg hs ev hev c D _ u) (fun r => ns_runUses isMap kv c us _ _)
  | .forEach f :: us, D, acc => by
    simp only [runUses]
    apply NS.bnd (ns_funArgCheck ev hev c D f _); intro fa
    exact NS.bnd (ns_hofMembers cfg hs ev hev c _ _ _ _) (fun r => ns_runUses isMap kv c us _ _)

include hs in
theorem ns_runCont (p : CProg) (c : ICtx) (D : Env) : NS (runCont cfg ev p c D) := by
  unfold runCont
  apply ns_runLets ev hev
  intro c1 D1
  split
  · exact NS.bnd (ns_evalList ev hev c1 _ _) (fun r => NS.ret _)
  · apply NS.bnd (ns_evalList ev hev c1 _ _); intro ms
    apply ns_runLets ev hev
    intro c2 D2
    exact ns_runUses cfg hs ev hev p.isMap _ c2 p.uses D2 []

end

/-! ### `scope` and `arity` are never raised on the reference tree -/
section
variable (cfg : Cfg) (hs : cfg.share = false) (hl : cfg.leak = false) (hx : cfg.lexical = true)
variable (ev : Expr → ICtx → Env → IM (Seq × Env))
variable (hev : ∀ e c D, EnvEq D c.lex → Good (fun r => r.2 = D) (ev e c D))
include hev

theorem g_runLets {α} (k : ICtx → Env → IM α) (hk : ∀ c D, EnvEq D c.lex → Good (fun _ => True) (k c D)) :
    ∀ (bs : List (Nat × Expr)) (c : ICtx) (D : Env), EnvEq D c.lex → Good (fun _ => True) (runLets ev k c D bs)
  | [], c, D, hD => hk c D hD
  | (x, e) :: r, c, D, hD => by
    simp only [runLets]
    apply Good.bnd (hev e c D hD); intro xv hxv
    rw [hxv]
    exact g_runLets k hk r _ _ (hD.set x xv.1)

include hs hl hx in
theorem g_useBody (c : ICtx) (D : Env) (hD : EnvEq D c.lex) (tgt : Seq) (u : CUse) :
    Good (fun r => r.2 = D) (useBody cfg ev c D tgt u) := by
  cases u with
  | get k => exact Good.ret _ rfl
  | call k args =>
    simp only [useBody]
    apply Good.bnd (Good.single _); intro a _
    split
    · exact g_partialApply cfg hs ev hev c D hD a args
    · apply Good.bnd (g_evalList ev hev c _ D hD); intro vals hvals
      rw [hvals.1]
      exact g_callFn cfg hs hl hx ev hev c D a _
  | each x k args =>
    simp only [useBody]
    apply Good.bnd (g_forLoop ev hev c x _ tgt D [] (hD.toX x)); intro r _
    exact Good.ret _ rfl

include hs hl hx in
theorem g_hofMembers (c : ICtx) (a : Nat) : ∀ (ls : List (List Seq)) (D : Env) (acc : Seq),
    Good (fun r => r.2 = D) (hofMembers cfg ev c a D acc ls)
  | [], D, acc => Good.ret _ rfl
  | as :: rest, D, acc => by
    simp only [hofMembers]
    apply Good.bnd (g_callFn cfg hs hl hx ev hev c D a _); intro r hr
    rw [hr]
    exact g_hofMembers c a rest D _

include hs hl hx in
theorem g_runUses (isMap : Bool) (kv : List (Int × Seq)) (c : ICtx) :
    ∀ (us : List CStep) (D : Env) (acc : Seq), EnvEq D c.lex →
      Good (fun _ => True) (runUses cfg ev isMap kv c D acc us)
  | [], D, acc, _ => Good.ret _ trivial
  | .use u :: us, D, acc, hD => by
    simp only [runUses]
    split
    · exact Good.ret _ trivial
    · apply Good.bnd (g_useBody cfg hs hl hx ev hev c D hD _ u); intro r hr
      rw [hr]
      exact g_runUses isMap kv c us D _ hD
  | .forEach f :: us, D, acc, hD => by
    simp only [runUses]
    apply Good.bnd (g_funArgCheck ev hev c D hD f _); intro fa hfa
    apply Good.bnd (g_hofMembers cfg hs hl hx ev hev c _ _ _ _); intro r hr
    rw [hr, hfa]
    exact g_runUses isMap kv c us D _ hD

include hs hl hx in
theorem g_runCont (p : CProg) (c : ICtx) (D : Env) (hD : EnvEq D c.lex) :
    Good (fun _ => True) (runCont cfg ev p c D) := by
  unfold runCont
  apply g_runLets ev hev _ _ p.pre c D hD
  intro c1 D1 hD1
  split
  · apply Good.bnd (g_evalList ev hev c1 _ D1 hD1); intro r _
    exact Good.ret _ trivial
  · apply Good.bnd (g_evalList ev hev c1 _ D1 hD1); intro ms hms
    rw [hms.1]
    apply g_runLets ev hev _ _ p.post c1 D1 hD1
    intro c2 D2 hD2
    exact g_runUses cfg hs hl hx ev hev p.isMap _ c2 p.uses D2 [] hD2

end

end EPV.Clo

/-
C14 lemmas about `etree_iter_paths`: the counters of the loop are the like-sibling counts of
`get_child_position`, so both generators produce the same steps.
-/
import EPV.Lemmas.NodePath
namespace EPV.NodePath

/-- loop invariant of `etree_iter_paths`: the counters are the numbers of comments / PIs per
target / elements per tag among the children already visited (`done`) -/
structure CInv (cs : Counters) (done : List Node) : Prop where
  c : cs.comments = (done.filter (sameKind .comment)).length
  p : ∀ t, cs.pis t = (done.filter (sameKind (.pi t))).length
  e : ∀ nm nss attrs kids, cs.positions nm = (done.filter (sameKind (.elem nm nss attrs kids))).length

theorem CInv.zero : CInv Counters.zero [] := ⟨rfl, fun _ => rfl, fun _ _ _ _ => rfl⟩

theorem sameKind_elem_irrel (nm : Name) (nss nss' : List (String × String)) (attrs attrs' : List (Name × String))
    (kids kids' : List Node) : sameKind (.elem nm nss attrs kids) = sameKind (.elem nm nss' attrs' kids') := by
  funext c; cases c <;> rfl

/-- position of the child at index `done.length` = like siblings already seen + 1 -/
theorem gcp_at (done : List Node) (k : Node) (ks : List Node) :
    getChildPosition (done ++ k :: ks) done.length k = (done.filter (sameKind k)).length + 1 := by
  unfold getChildPosition getChildPositionWith
  rw [gcpLoop_eq sameKind k _ _ 0 (by simp)]
  have : (done ++ k :: ks).take (done.length + 1) = done ++ [k] := by
    rw [List.take_append]; simp [List.take_of_length_le]
  have hk : sameKind k k = true := by rw [sameKind_eq_test]; exact test_self k
  rw [this, List.filter_append]
  simp [hk]

theorem get_at (done : List Node) (k : Node) (ks : List Node) : (done ++ k :: ks)[done.length]? = some k := by
  simp

theorem filter_snoc_len {α : Type} (p : α → Bool) (l : List α) (a : α) :
    ((l ++ [a]).filter p).length = (l.filter p).length + (if p a then 1 else 0) := by
  simp only [List.filter_append, List.length_append, List.filter_cons, List.filter_nil]
  split <;> rfl

theorem CInv.snoc {cs cs' : Counters} {done : List Node} {k : Node} (h : CInv cs done)
    (hc : cs'.comments = cs.comments + if sameKind .comment k then 1 else 0)
    (hp : ∀ t, cs'.pis t = cs.pis t + if sameKind (.pi t) k then 1 else 0)
    (he : ∀ nm a b c, cs'.positions nm = cs.positions nm + if sameKind (.elem nm a b c) k then 1 else 0) :
    CInv cs' (done ++ [k]) := by
  refine ⟨?_, ?_, ?_⟩
  · rw [filter_snoc_len, hc, h.c]
  · intro t; rw [filter_snoc_len, hp t, h.p t]
  · intro nm a b c; rw [filter_snoc_len, he nm a b c, h.e nm a b c]

theorem CInv.step_comment {cs : Counters} {done : List Node} (h : CInv cs done) :
    CInv { cs with comments := cs.comments + 1 } (done ++ [.comment]) :=
  h.snoc (by simp [sameKind]) (by simp [sameKind]) (by simp [sameKind])

theorem CInv.step_text {cs : Counters} {done : List Node} (h : CInv cs done) : CInv cs (done ++ [.text]) :=
  h.snoc (by simp [sameKind]) (by simp [sameKind]) (by simp [sameKind])

theorem CInv.step_pi {cs : Counters} {done : List Node} (h : CInv cs done) (t : String) :
    CInv { cs with pis := bump cs.pis t } (done ++ [.pi t]) :=
  h.snoc (by simp [sameKind]) (by intro u; by_cases hu : u = t <;> simp [sameKind, bump, hu])
    (by simp [sameKind])

theorem CInv.step_elem {cs : Counters} {done : List Node} (h : CInv cs done) (nm : Name)
    (nss : List (String × String)) (attrs : List (Name × String)) (kids : List Node) :
    CInv { cs with positions := bump cs.positions nm } (done ++ [.elem nm nss attrs kids]) :=
  h.snoc (by simp [sameKind]) (by simp [sameKind])
    (by intro m a b c; by_cases hm : m = nm <;> simp [sameKind, bump, hm])

mutual
/-- every pair yielded by `iterPaths n ip path` is (`ip` extended by a child-index path, `path`
extended by the steps `node.path` generates for that child-index path) -/
theorem iterPaths_sound : ∀ (n : Node) (ip : List Nat) (path : List Step) (x : List Nat × List Step),
    x ∈ iterPaths n ip path →
    ∃ rest srest, x.1 = ip ++ rest ∧ pathTo n rest = some srest ∧ x.2 = path ++ srest
  | .elem nm nss attrs kids, ip, path, x, hx => by
    simp only [iterPaths, List.mem_cons] at hx
    rcases hx with rfl | hx
    · exact ⟨[], [], by simp, rfl, by simp⟩
    · obtain ⟨j, c, rest, srest, hj, h1, h2, h3⟩ :=
        iterKids_sound kids [] 0 ip path Counters.zero x rfl CInv.zero hx
      simp only [List.nil_append] at hj h3
      refine ⟨j :: rest, childStep c (getChildPosition kids j c) :: srest, h1, ?_, h3⟩
      simp only [pathTo] at h2 ⊢
      simp only [pathToWith, Node.kids, hj, h2]
      rfl
  | .text, ip, path, x, hx => by
    simp only [iterPaths, List.mem_singleton] at hx; subst hx; exact ⟨[], [], by simp, rfl, by simp⟩
  | .comment, ip, path, x, hx => by
    simp only [iterPaths, List.mem_singleton] at hx; subst hx; exact ⟨[], [], by simp, rfl, by simp⟩
  | .pi t, ip, path, x, hx => by
    simp only [iterPaths, List.mem_singleton] at hx; subst hx; exact ⟨[], [], by simp, rfl, by simp⟩
/-- the loop over the children: `done` = children already visited, `i = done.length` -/
theorem iterKids_sound : ∀ (kids done : List Node) (i : Nat) (ip : List Nat) (path : List Step) (cs : Counters)
    (x : List Nat × List Step), i = done.length → CInv cs done → x ∈ iterKids kids i ip path cs →
    ∃ j c rest srest, (done ++ kids)[j]? = some c ∧ x.1 = ip ++ j :: rest ∧ pathTo c rest = some srest ∧
      x.2 = path ++ childStep c (getChildPosition (done ++ kids) j c) :: srest
  | [], _, _, _, _, _, x, _, _, hx => by simp [iterKids] at hx
  | .comment :: ks, done, i, ip, path, cs, x, hi, hinv, hx => by
    subst hi
    simp only [iterKids, List.mem_cons] at hx
    rcases hx with rfl | hx
    · refine ⟨done.length, .comment, [], [], get_at done _ ks, rfl, rfl, ?_⟩
      simp only [gcp_at, childStep, hinv.c]
    · obtain ⟨j, c, rest, srest, h⟩ :=
        iterKids_sound ks (done ++ [.comment]) (done.length + 1) ip path _ x (by simp) hinv.step_comment hx
      rw [List.append_assoc] at h
      exact ⟨j, c, rest, srest, h⟩
  | .pi t :: ks, done, i, ip, path, cs, x, hi, hinv, hx => by
    subst hi
    simp only [iterKids, List.mem_cons] at hx
    rcases hx with rfl | hx
    · refine ⟨done.length, .pi t, [], [], get_at done _ ks, rfl, rfl, ?_⟩
      simp only [gcp_at, childStep, bump, hinv.p t, if_true]
    · obtain ⟨j, c, rest, srest, h⟩ :=
        iterKids_sound ks (done ++ [.pi t]) (done.length + 1) ip path _ x (by simp) (hinv.step_pi t) hx
      rw [List.append_assoc] at h
      exact ⟨j, c, rest, srest, h⟩
  | .text :: ks, done, i, ip, path, cs, x, hi, hinv, hx => by
    subst hi
    simp only [iterKids] at hx
    obtain ⟨j, c, rest, srest, h⟩ :=
      iterKids_sound ks (done ++ [.text]) (done.length + 1) ip path _ x (by simp) hinv.step_text hx
    rw [List.append_assoc] at h
    exact ⟨j, c, rest, srest, h⟩
  | .elem nm nss attrs kids :: ks, done, i, ip, path, cs, x, hi, hinv, hx => by
    subst hi
    simp only [iterKids, List.mem_append] at hx
    rcases hx with hx | hx
    · obtain ⟨rest, srest, h1, h2, h3⟩ := iterPaths_sound (.elem nm nss attrs kids) _ _ x hx
      refine ⟨done.length, .elem nm nss attrs kids, rest, srest, get_at done _ ks, ?_, h2, ?_⟩
      · rw [h1, List.append_assoc]; rfl
      · rw [h3, List.append_assoc]
        simp only [gcp_at, childStep, bump, hinv.e nm nss attrs kids, if_true, List.singleton_append]
    · obtain ⟨j, c, rest, srest, h⟩ :=
        iterKids_sound ks (done ++ [.elem nm nss attrs kids]) (done.length + 1) ip path _ x (by simp)
          (hinv.step_elem nm nss attrs kids) hx
      rw [List.append_assoc] at h
      exact ⟨j, c, rest, srest, h⟩
end

theorem descend_leaf_cons (n : Node) (h : n.kids = []) (j : Nat) (rest : List Nat) : descend n (j :: rest) = none := by
  simp [descend, h]

mutual
/-- every node below `n` that is not a text node is yielded by `iterPaths` -/
theorem iterPaths_complete : ∀ (n : Node) (ip : List Nat) (path : List Step) (rest : List Nat) (m : Node),
    descend n rest = some m → m ≠ .text → ∃ st, (ip ++ rest, st) ∈ iterPaths n ip path
  | .elem nm nss attrs kids, ip, path, [], m, _, _ => ⟨path, by simp [iterPaths]⟩
  | .elem nm nss attrs kids, ip, path, j :: rest, m, hd, hm => by
    simp only [descend, Node.kids] at hd
    cases hc : kids[j]? with
    | none => simp [hc] at hd
    | some c =>
      simp only [hc] at hd
      obtain ⟨st, h⟩ := iterKids_complete kids 0 ip path Counters.zero j c rest m hc hd hm
      simp only [Nat.zero_add] at h
      exact ⟨st, by simp only [iterPaths, List.mem_cons]; exact Or.inr h⟩
  | .text, ip, path, [], m, hd, hm => by simp only [descend, Option.some.injEq] at hd; exact absurd hd.symm hm
  | .text, ip, path, j :: rest, m, hd, _ => by rw [descend_leaf_cons _ rfl] at hd; cases hd
  | .comment, ip, path, [], m, _, _ => ⟨path, by simp [iterPaths]⟩
  | .comment, ip, path, j :: rest, m, hd, _ => by rw [descend_leaf_cons _ rfl] at hd; cases hd
  | .pi t, ip, path, [], m, _, _ => ⟨path, by simp [iterPaths]⟩
  | .pi t, ip, path, j :: rest, m, hd, _ => by rw [descend_leaf_cons _ rfl] at hd; cases hd
theorem iterKids_complete : ∀ (kids : List Node) (i : Nat) (ip : List Nat) (path : List Step) (cs : Counters)
    (j : Nat) (c : Node) (rest : List Nat) (m : Node), kids[j]? = some c → descend c rest = some m → m ≠ .text →
    ∃ st, (ip ++ (i + j) :: rest, st) ∈ iterKids kids i ip path cs
  | [], _, _, _, _, j, c, _, _, hc, _, _ => by simp at hc
  | k :: ks, i, ip, path, cs, 0, c, rest, m, hc, hd, hm => by
    simp only [List.getElem?_cons_zero, Option.some.injEq] at hc
    subst hc
    cases k with
    | elem nm nss attrs kids =>
      obtain ⟨st, h⟩ := iterPaths_complete (.elem nm nss attrs kids) (ip ++ [i])
        (path ++ [.child nm (bump cs.positions nm nm)]) rest m hd hm
      rw [List.append_assoc] at h
      exact ⟨st, by simp only [iterKids, List.mem_append, Nat.add_zero]; exact Or.inl h⟩
    | text =>
      cases rest with
      | nil => simp only [descend, Option.some.injEq] at hd; exact absurd hd.symm hm
      | cons j rest => rw [descend_leaf_cons _ rfl] at hd; cases hd
    | comment =>
      cases rest with
      | nil => exact ⟨_, by simp only [iterKids, Nat.add_zero]; exact List.mem_cons_self⟩
      | cons j rest => rw [descend_leaf_cons _ rfl] at hd; cases hd
    | pi t =>
      cases rest with
      | nil => exact ⟨_, by simp only [iterKids, Nat.add_zero]; exact List.mem_cons_self⟩
      | cons j rest => rw [descend_leaf_cons _ rfl] at hd; cases hd
  | k :: ks, i, ip, path, cs, j + 1, c, rest, m, hc, hd, hm => by
    simp only [List.getElem?_cons_succ] at hc
    have hidx : i + (j + 1) = (i + 1) + j := by omega
    rw [hidx]
    cases k with
    | elem nm nss attrs kids =>
      obtain ⟨st, h⟩ := iterKids_complete ks (i + 1) ip path
        { cs with positions := bump cs.positions nm } j c rest m hc hd hm
      exact ⟨st, by simp only [iterKids, List.mem_append]; exact Or.inr h⟩
    | text =>
      obtain ⟨st, h⟩ := iterKids_complete ks (i + 1) ip path cs j c rest m hc hd hm
      exact ⟨st, by simp only [iterKids]; exact h⟩
    | comment =>
      obtain ⟨st, h⟩ := iterKids_complete ks (i + 1) ip path
        { cs with comments := cs.comments + 1 } j c rest m hc hd hm
      exact ⟨st, by simp only [iterKids]; exact List.mem_cons_of_mem _ h⟩
    | pi t =>
      obtain ⟨st, h⟩ := iterKids_complete ks (i + 1) ip path
        { cs with pis := bump cs.pis t } j c rest m hc hd hm
      exact ⟨st, by simp only [iterKids]; exact List.mem_cons_of_mem _ h⟩
end

end EPV.NodePath

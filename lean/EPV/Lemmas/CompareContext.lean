/-
C07 — the implicit timezone of the dynamic context: the code's pair-by-pair filling against the
specification's "every timezone-less date/time value takes the implicit timezone".
-/
import EPV.Lemmas.CompareGeneral
set_option linter.unusedSimpArgs false
namespace EPV.Cmp
open EPV.CmpSpec EPV.CmpFind

/-! ### the implicit timezone -/

theorem DT.fill_none (d : DT) : d.fill none = d := by
  unfold DT.fill; cases d.tz <;> rfl

theorem Atom.fillTz_none (a : Atom) : a.fillTz none = a := by
  cases a <;> simp [Atom.fillTz, DT.fill_none]

theorem fillPair_none (a b : Atom) : fillPair none a b = (a, b) := by
  unfold fillPair; split <;> simp [Atom.fillTz_none]

theorem pairGeneralCtx_none (m : Mode) (op : Op) : pairGeneralCtx none m op = pairGeneral m op := by
  funext a b; simp [pairGeneralCtx, fillPair_none]

theorem valuePairCtx_none (m : Mode) (op : Op) : valuePairCtx none m op = valuePair m op := by
  funext a b; simp [valuePairCtx, fillPair_none]

theorem generalCmpCtx_none (m : Mode) (op : Op) (L Rr : List Item) : generalCmpCtx none m op L Rr = generalCmp m op L Rr := by
  simp [generalCmpCtx, generalCmp, pairGeneralCtx_none]

theorem valueCmpCtx_none (m : Mode) (op : Op) (L Rr : List Item) : valueCmpCtx none m op L Rr = valueCmp m op L Rr := by
  simp [valueCmpCtx, valueCmp, valuePairCtx_none]

/-- the specification's per-item filling is the model's `fillTz` -/
theorem withImplicitTz_atomize (itz : Option Int) (m : Mode) (x : Item) :
    atomizeS m (withImplicitTz itz x) = (atomize m x).fillTz itz := by
  cases x with
  | node s => simp [withImplicitTz, atomizeS, atomize]; split <;> rfl
  | atom a =>
    cases a <;> simp [withImplicitTz, atomizeS, atomize, Atom.fillTz, DT.fill] <;>
      (rename_i v; cases h1 : v.tz <;> cases itz <;> simp [h1] <;> (try (cases v; simp_all)))

set_option maxHeartbeats 2000000 in
/-- filling only when both operands are dates/times (as the code does) or filling every date/time
value (as the specification says) makes no difference for one pair: a lone date/time value meets a
type error or an untyped cast whatever its timezone -/
theorem pairGeneral_fill_insens (itz : Option Int) (m : Mode) (op : Op) (a b : Atom) :
    pairGeneralCtx itz m op a b = pairGeneral m op (a.fillTz itz) (b.fillTz itz) := by
  unfold pairGeneralCtx fillPair
  by_cases h : (a.isDT && b.isDT) = true
  · simp [h]
  · simp only [h, Bool.false_eq_true, if_false]
    cases a <;> cases b <;> simp [Atom.isDT] at h <;> simp only [Atom.fillTz] <;> gp_simp

set_option maxHeartbeats 2000000 in
theorem valuePair_fill_insens (itz : Option Int) (m : Mode) (op : Op) (a b : Atom) :
    valuePairCtx itz m op a b = valuePair m op (a.fillTz itz) (b.fillTz itz) := by
  unfold valuePairCtx fillPair
  by_cases h : (a.isDT && b.isDT) = true
  · simp [h]
  · simp only [h, Bool.false_eq_true, if_false]
    cases a <;> cases b <;> simp [Atom.isDT] at h <;> simp only [Atom.fillTz] <;> vp_simp

theorem product_map (f : Atom → Atom) (l r : List Atom) :
    product (l.map f) (r.map f) = (product l r).map fun p => (f p.1, f p.2) := by
  simp [product, List.flatMap_map, List.map_flatMap, List.map_map, Function.comp_def]

theorem anyPairs_map (g : Atom → Atom → R) (f : Atom → Atom) (ps : List (Atom × Atom)) :
    anyPairs g (ps.map fun p => (f p.1, f p.2)) = anyPairs (fun a b => g (f a) (f b)) ps := by
  induction ps with
  | nil => rfl
  | cons p ps ih => obtain ⟨a, b⟩ := p; simp only [List.map_cons, anyPairs, ih]

/-- CONTEXT REDUCTION (general comparison, no compatibility mode): evaluating under a dynamic context
with implicit timezone `itz` — the code fills the timezone pair by pair, on copies — equals evaluating
without implicit timezone on the operands in which every timezone-less date/time value has been given
the implicit timezone (the specification's reading) -/
theorem generalCmpCtx_eq_filled (itz : Option Int) (m : Mode) (op : Op) (L Rr : List Item) (hm : m.compat = false) :
    generalCmpCtx itz m op L Rr =
      generalCmp m op (L.map (withImplicitTz itz)) (Rr.map (withImplicitTz itz)) := by
  have hl : ∀ X : List Item, (X.map (withImplicitTz itz)).map (atomize m) = (X.map (atomize m)).map (Atom.fillTz itz) := by
    intro X
    simp only [List.map_map]
    apply List.map_congr_left
    intro x _
    have := withImplicitTz_atomize itz m x
    have e : atomizeS m = atomize m := by funext y; cases y <;> rfl
    rw [e] at this
    simpa using this
  simp only [generalCmpCtx, generalCmp, generalCmpWith, hm, Bool.false_eq_true, if_false, hl]
  rw [product_map, anyPairs_map]
  congr 1
  funext a b
  exact pairGeneral_fill_insens itz m op a b

theorem atomize_withImplicitTz (itz : Option Int) (m : Mode) (x : Item) :
    atomize m (withImplicitTz itz x) = (atomize m x).fillTz itz := by
  have := withImplicitTz_atomize itz m x
  have e : atomizeS m = atomize m := by funext y; cases y <;> rfl
  rwa [e] at this

/-! ### the compatibility branch of XPath2Parser under an implicit timezone -/

theorem ebvAtom_fillTz (itz : Option Int) (a : Atom) : ebvAtom (a.fillTz itz) = ebvAtom a := by
  cases a <;> rfl

theorem ebvList_fillTz (itz : Option Int) (l : List Atom) :
    ebvList ((l.map (Atom.fillTz itz)).map .atom) = ebvList (l.map .atom) := by
  match l with
  | [] => rfl
  | [a] => simp [ebvList, ebvAtom_fillTz]
  | _ :: _ :: _ => rfl

theorem singleBool?_fillTz (itz : Option Int) (l : List Atom) :
    singleBool? (l.map (Atom.fillTz itz)) = singleBool? l := by
  match l with
  | [] => rfl
  | [a] => cases a <;> rfl
  | a :: _ :: _ => cases a <;> simp [singleBool?, Atom.fillTz]

theorem pyFloat_fillTz (itz : Option Int) (a : Atom) : pyFloat (a.fillTz itz) = pyFloat a := by
  cases a <;> rfl

theorem mapFloat_fillTz (itz : Option Int) (l : List Atom) : mapFloat (l.map (Atom.fillTz itz)) = mapFloat l := by
  induction l with
  | nil => rfl
  | cons a l ih => simp [mapFloat, pyFloat_fillTz, ih]

/-- CONTEXT REDUCTION, XPath2Parser(compatibility_mode=True): the single-boolean rule and the float()
path never look at a timezone (a date/time value has no effective boolean value and no float()), the
`=`/`!=` path goes through the same pair loop as without compatibility mode -/
theorem generalCmpCtx_eq_filled_v2c (itz : Option Int) (op : Op) (L Rr : List Item) :
    generalCmpCtx itz .v2c op L Rr =
      generalCmp .v2c op (L.map (withImplicitTz itz)) (Rr.map (withImplicitTz itz)) := by
  have hl : ∀ X : List Item, (X.map (withImplicitTz itz)).map (atomize .v2c) =
      (X.map (atomize .v2c)).map (Atom.fillTz itz) := by
    intro X
    simp only [List.map_map]
    apply List.map_congr_left
    intro x _
    simpa using atomize_withImplicitTz itz .v2c x
  have hloop : ∀ l r : List Atom,
      compatLoopWith (pairGeneralCtx itz .v2c op) .v2c op l r =
        compatLoopWith (pairGeneral .v2c op) .v2c op (l.map (Atom.fillTz itz)) (r.map (Atom.fillTz itz)) := by
    intro l r
    unfold compatLoopWith
    by_cases ho : op.isOrd = true
    · simp [ho, mapFloat_fillTz]
    · simp only [ho, Bool.false_eq_true, if_false, reduceCtorEq]
      rw [product_map, anyPairs_map]
      congr 1
      funext a b
      exact pairGeneral_fill_insens itz .v2c op a b
  simp only [generalCmpCtx, generalCmp, generalCmpWith, Mode.compat, if_true, hl, List.isEmpty_map,
    singleBool?_fillTz, ebvList_fillTz, hloop]


theorem atomizedOperand_filled (itz : Option Int) (m : Mode) (L : List Item) :
    atomizedOperand m (L.map (withImplicitTz itz)) =
      (atomizedOperand m L).map (fun o => o.map (Atom.fillTz itz)) := by
  match L with
  | [] => rfl
  | _ :: _ :: _ => rfl
  | [x] =>
    simp only [List.map, atomizedOperand, atomize_withImplicitTz]
    cases atomize m x <;> simp [Atom.fillTz, Except.map]

/-- CONTEXT REDUCTION (value comparison): same statement as for the general comparison -/
theorem valueCmpCtx_eq_filled (itz : Option Int) (m : Mode) (op : Op) (L Rr : List Item) :
    valueCmpCtx itz m op L Rr =
      valueCmp m op (L.map (withImplicitTz itz)) (Rr.map (withImplicitTz itz)) := by
  simp only [valueCmpCtx, valueCmp, valueCmpWith, atomizedOperand_filled]
  cases atomizedOperand m L with
  | error e => simp [Except.map]
  | ok x =>
    cases atomizedOperand m Rr with
    | error e => simp [Except.map]
    | ok y =>
      cases x <;> cases y <;> simp [Except.map, valuePair_fill_insens]

end EPV.Cmp

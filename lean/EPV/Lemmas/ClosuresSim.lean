/-
Simulation machinery for C16: a run of the model that raises no trigger flag computes what the
specification computes, on the erased heap (ghost fields and token slots forgotten).
-/
import EPV.Model.Closures
namespace EPV.Clo

/-! ### flags -/

theorem Flags.or_none_iff (a b : Flags) : a.or b = Flags.none ↔ a = Flags.none ∧ b = Flags.none := by
  cases a; cases b
  simp only [Flags.or, Flags.none, Flags.mk.injEq, Bool.or_eq_false_iff]
  constructor
  · rintro ⟨⟨h1, h1'⟩, ⟨h2, h2'⟩, ⟨h3, h3'⟩⟩
    exact ⟨⟨h1, h2, h3⟩, ⟨h1', h2', h3'⟩⟩
  · rintro ⟨⟨h1, h2, h3⟩, ⟨h1', h2', h3'⟩⟩
    exact ⟨⟨h1, h1'⟩, ⟨h2, h2'⟩, ⟨h3, h3'⟩⟩

@[simp] theorem Flags.none_or (a : Flags) : Flags.none.or a = a := by
  cases a; simp [Flags.or, Flags.none]

/-! ### the two monads, unfolded -/

theorem IM.bind_def {α β} (m : IM α) (f : α → IM β) (st : St) :
    (m >>= f) st = match m st with
      | (fl, Except.error e) => (fl, Except.error e)
      | (fl, Except.ok (a, st')) => ((fl.or (f a st').1), (f a st').2) := by
  show (match m st with
      | (fl, Except.error e) => (fl, Except.error e)
      | (fl, Except.ok (a, st')) => let r := f a st'; (fl.or r.1, r.2)) = _
  split <;> rfl

theorem IM.pure_def {α} (a : α) (st : St) : (pure a : IM α) st = (Flags.none, .ok (a, st)) := rfl

theorem SM.bind_def {α β} (m : SM α) (f : α → SM β) (h : SHeap) :
    (m >>= f) h = match m h with
      | .error e => .error e
      | .ok (a, h') => f a h' := rfl

theorem SM.pure_def {α} (a : α) (h : SHeap) : (pure a : SM α) h = .ok (a, h) := rfl

theorem SM.bind_assoc {α β γ} (m : SM α) (f : α → SM β) (g : β → SM γ) :
    (m >>= f) >>= g = m >>= fun a => f a >>= g := by
  funext h
  simp only [SM.bind_def]
  cases m h with
  | error e => rfl
  | ok r => rfl

theorem SM.pure_bind {α β} (a : α) (f : α → SM β) : (pure a : SM α) >>= f = f a := by
  funext h; rfl

theorem SM.bind_pure {α} (m : SM α) : m >>= pure = m := by
  funext h
  simp only [SM.bind_def]
  cases m h with
  | error e => rfl
  | ok r => rfl

theorem SM.throw_bind {α β} (e : Err) (f : α → SM β) : (SM.throw e : SM α) >>= f = SM.throw e := by
  funext h; rfl

@[simp] theorem Flags.or_none' (a : Flags) : a.or Flags.none = a := by
  cases a; simp [Flags.or, Flags.none]

theorem Flags.or_assoc (a b c : Flags) : (a.or b).or c = a.or (b.or c) := by
  cases a; cases b; cases c; simp [Flags.or, Bool.or_assoc]

theorem IM.bind_assoc {α β γ} (m : IM α) (f : α → IM β) (g : β → IM γ) :
    (m >>= f) >>= g = m >>= fun a => f a >>= g := by
  funext st
  simp only [IM.bind_def]
  generalize m st = r
  obtain ⟨fl, r⟩ := r
  cases r with
  | error e => rfl
  | ok v =>
    obtain ⟨a, st'⟩ := v
    simp only
    generalize f a st' = r2
    obtain ⟨fl2, r2⟩ := r2
    cases r2 with
    | error e => rfl
    | ok w =>
      obtain ⟨b, st''⟩ := w
      simp only [Flags.or_assoc]

theorem IM.pure_bind {α β} (a : α) (f : α → IM β) : (pure a : IM α) >>= f = f a := by
  funext st
  simp only [IM.bind_def, IM.pure_def, Flags.none_or]

theorem IM.bind_pure {α} (m : IM α) : m >>= pure = m := by
  funext st
  simp only [IM.bind_def, IM.pure_def]
  generalize m st = r
  obtain ⟨fl, r⟩ := r
  cases r with
  | error e => rfl
  | ok v => obtain ⟨a, st'⟩ := v; simp

instance : LawfulMonad IM := LawfulMonad.mk' IM
  (id_map := fun x => by show x >>= (fun a => pure (id a)) = x; exact IM.bind_pure x)
  (pure_bind := fun a f => IM.pure_bind a f)
  (bind_assoc := fun m f g => IM.bind_assoc m f g)

instance : LawfulMonad SM := LawfulMonad.mk' SM
  (id_map := fun x => by show x >>= (fun a => pure (id a)) = x; exact SM.bind_pure x)
  (pure_bind := fun a f => SM.pure_bind a f)
  (bind_assoc := fun m f g => SM.bind_assoc m f g)

/-! ### erasure -/

/-- position and size are part of the lexical focus only when there is one -/
def eraseFocus (li : Option Item) (pos size : Nat) : Focus :=
  if li.isSome then (li, pos, size) else (none, 1, 1)

def eraseObj (o : FObj) : SObj :=
  { code := o.code, lex := o.lex, fixed := o.fixed, focus := eraseFocus o.fitem o.fpos o.fsize,
    sig := o.sig }
def eraseHeap (h : List FObj) : SHeap := h.map eraseObj
def eraseCtx (c : ICtx) : SCtx :=
  { lex := c.lex, item := c.item, pos := (eraseFocus c.item c.pos c.size).2.1,
    size := (eraseFocus c.item c.pos c.size).2.2 }

@[simp] theorem eraseHeap_length (h : List FObj) : (eraseHeap h).length = h.length := by
  simp [eraseHeap]

theorem eraseHeap_append (h : List FObj) (o : FObj) :
    eraseHeap (h ++ [o]) = eraseHeap h ++ [eraseObj o] := by simp [eraseHeap]

theorem eraseHeap_get (h : List FObj) (a : Nat) : (eraseHeap h)[a]? = (h[a]?).map eraseObj := by
  simp [eraseHeap]

@[simp] theorem eraseObj_arity (o : FObj) : (eraseObj o).arity = o.arity := rfl

/-! ### the simulation relation -/

/-- `m` (model) and `s` (specification) agree through the projection `p` on every state from
which `m` runs without raising a flag -/
def Sim {α β} (p : α → β) (m : IM α) (s : SM β) : Prop :=
  ∀ st, (m st).1 = Flags.none →
    s (eraseHeap st.heap) = (m st).2.map (fun r => (p r.1, eraseHeap r.2.heap))

theorem Sim.ret {α β} (p : α → β) (a : α) (b : β) (h : p a = b) : Sim p (pure a) (pure b) := by
  intro st _
  simp [IM.pure_def, SM.pure_def, Except.map, h]

theorem Sim.thr {α β} (p : α → β) (e : Err) : Sim p (IM.throw e) (SM.throw e) := by
  intro st _
  simp [IM.throw, SM.throw, Except.map]

theorem Sim.bnd {α β γ δ} {p : α → β} {q : γ → δ} {m : IM α} {s : SM β} {f : α → IM γ} {g : β → SM δ}
    (hm : Sim p m s) (hf : ∀ a, Sim q (f a) (g (p a))) : Sim q (m >>= f) (s >>= g) := by
  intro st hfl
  have hm' := hm st
  rw [IM.bind_def] at hfl ⊢
  rw [SM.bind_def]
  generalize m st = r at hfl hm' ⊢
  obtain ⟨fl, r⟩ := r
  cases r with
  | error e =>
    simp only at hfl hm' ⊢
    rw [hm' hfl]
    rfl
  | ok v =>
    obtain ⟨a, st'⟩ := v
    simp only at hfl hm' ⊢
    obtain ⟨h1, h2⟩ := (Flags.or_none_iff _ _).mp hfl
    rw [hm' h1]
    simp only [Except.map]
    exact hf a st' h2

/-- a flag in front: nothing to show when it is raised -/
theorem Sim.flag_bind {γ δ} {q : γ → δ} (fl : Flags) {f : Unit → IM γ} {s : SM δ}
    (h : fl = Flags.none → Sim q (f ()) s) : Sim q (IM.flag fl >>= f) s := by
  intro st hfl
  rw [IM.bind_def] at hfl ⊢
  simp only [IM.flag] at hfl ⊢
  obtain ⟨h1, h2⟩ := (Flags.or_none_iff _ _).mp hfl
  have := h h1 st h2
  rw [this]

/-- an operation of the model that neither touches the heap, nor fails, nor flags -/
def Silent {α} (m : IM α) : Prop := ∀ st, ∃ a st', m st = (Flags.none, .ok (a, st')) ∧ st'.heap = st.heap

theorem Sim.silent_bind {α γ δ} {q : γ → δ} {m : IM α} (hs : Silent m) {f : α → IM γ} {s : SM δ}
    (h : ∀ a, Sim q (f a) s) : Sim q (m >>= f) s := by
  intro st hfl
  obtain ⟨a, st', hm, hh⟩ := hs st
  rw [IM.bind_def] at hfl ⊢
  rw [hm] at hfl ⊢
  simp only [Flags.none_or] at hfl ⊢
  have := h a st' hfl
  rw [hh] at this
  exact this

theorem silent_setSlot (t : Nat) (v : Env × Env) : Silent (IM.setSlot t v) := by
  intro st; exact ⟨(), _, rfl, rfl⟩

theorem silent_getSlot (t : Nat) : Silent (IM.getSlot t) := by
  intro st; exact ⟨_, _, rfl, rfl⟩

theorem silent_pure {α} (a : α) : Silent (pure a : IM α) := by
  intro st; exact ⟨a, st, rfl, rfl⟩

theorem Sim.lift {α} (x : Except Err α) : Sim id (IM.lift x) (SM.lift x) := by
  cases x with
  | error e => exact Sim.thr _ e
  | ok a => exact Sim.ret _ a a rfl

theorem Sim.single (v : Seq) : Sim id (IM.single v) (SM.single v) := by
  match v with
  | [.fn a] => exact Sim.ret _ _ _ rfl
  | [] => exact Sim.thr _ _
  | [.int _] => exact Sim.thr _ _
  | [.bool _] => exact Sim.thr _ _
  | [.dec _] => exact Sim.thr _ _
  | [.dbl _] => exact Sim.thr _ _
  | [.str _] => exact Sim.thr _ _
  | [.nan] => exact Sim.thr _ _
  | [.inf _] => exact Sim.thr _ _
  | [.negz] => exact Sim.thr _ _
  | x :: y :: r => cases x <;> exact Sim.thr _ _

theorem Sim.alloc (o : FObj) : Sim id (IM.alloc o) (SM.alloc (eraseObj o)) := by
  intro st _
  simp [IM.alloc, SM.alloc, Except.map, eraseHeap_append]

theorem Sim.getObj (a : Nat) : Sim eraseObj (IM.getObj a) (SM.getObj a) := by
  intro st _
  simp only [IM.getObj, SM.getObj, eraseHeap_get]
  cases st.heap[a]? <;> simp [Except.map]

/-- post-processing the result of the model only -/
theorem Sim.map {α β γ} {p : α → β} {q : γ → β} {m : IM α} {s : SM β} (hm : Sim p m s) (k : α → γ)
    (hk : ∀ a, q (k a) = p a) : Sim q (m >>= fun a => pure (k a)) s := by
  have := Sim.bnd (q := q) (f := fun a => pure (k a)) (g := pure) hm (fun a => Sim.ret _ _ _ (hk a))
  rwa [bind_pure] at this

end EPV.Clo

/-
The parser behind `UnicodeSubset.update(str)` against the strict XSD character-group grammar
(Spec/CharGroupStrict.lean), for every text:

* `parse_strict_ok`: where the grammar gives a meaning, the parser accepts and yields exactly
  that set of code points;
* `parse_strict_error`: where the grammar demands an error, the parser raises.
-/
import EPV.Lemmas.CharSubsetL
import EPV.Spec.CharGroupStrict
import EPV.Spec.SetSpec
import EPV.Lemmas.USetOps
namespace EPV.USet

/-- "the parser accepts and denotes the set of `S`" -/
def Agrees (r : Option (List CP)) (S : List CP) : Prop :=
  ∃ l, r = some l ∧ ∀ x, memL x l ↔ memL x S

theorem xsdEscapable_iff (c : Nat) : xsdEscapable c = (isEscapable c || c == 92) := by
  rw [Bool.eq_iff_iff]
  simp only [xsdEscapable, isEscapable, isSpecial, isBracket, cpHyphen, List.contains_cons,
    List.contains_nil, Bool.or_false, Bool.or_eq_true, beq_iff_eq]
  constructor <;> intro h <;> omega


/-- the parser state right after a single character `a` was read -/
def stAfter (a : Nat) : PState := { escaped := false, onRange := false, char := a }

theorem isEscapable_cases {c : Nat} (h : xsdEscapable c = true) :
    c = cpHyphen ∨ isSpecial c = true ∨ isBracket c = true ∨ c = cpBackslash := by
  rw [xsdEscapable_iff] at h
  simp only [isEscapable, Bool.or_eq_true, beq_iff_eq] at h
  simp only [cpBackslash]
  rcases h with ((h | h) | h) | h
  · exact Or.inl h
  · exact Or.inr (Or.inl h)
  · exact Or.inr (Or.inr (Or.inl h))
  · exact Or.inr (Or.inr (Or.inr h))

/-- in the escaped state an escapable character is read as itself -/
theorem parseL_escaped_char (multi : Bool) (st : PState) (c : Nat) (r : List Nat)
    (he : st.escaped = true) (hc : xsdEscapable c = true) :
    (parseL multi st (c :: r) = parseL multi (stAfter c) r ∧ hyphenNext r = true) ∨
    parseL multi st (c :: r) = (parseL multi (stAfter c) r).map (.one c :: ·) := by
  rw [parseL]
  by_cases h1 : c == cpHyphen
  · right; simp [h1, he, stAfter]
  · simp only [h1, Bool.false_eq_true, if_false]
    by_cases h2 : isSpecial c
    · right; simp [h2, stAfter]
    · simp only [h2, Bool.false_eq_true, if_false]
      by_cases h3 : isBracket c
      · simp only [h3, if_true, he, Bool.not_true, Bool.false_and, Bool.false_eq_true, if_false]
        by_cases h4 : hyphenNext r
        · left; simp [h4, stAfter]
        · right; simp [h4, stAfter]
      · simp only [h3, Bool.false_eq_true, if_false]
        by_cases h5 : c == cpBackslash
        · right; simp [h5, he, stAfter]
        · exfalso
          rcases isEscapable_cases hc with h | h | h | h
          · simp [h] at h1
          · exact h2 h
          · exact h3 h
          · simp [h] at h5

/-- reading one `charOrEsc` from an unescaped state -/
theorem parseL_charOrEsc (multi : Bool) (st : PState) (l : List Nat) (a : Nat) (r : List Nat)
    (he : st.escaped = false) (h : charOrEsc l = .ok (a, r)) :
    (parseL multi st l = parseL multi (stAfter a) r ∧ hyphenNext r = true) ∨
    parseL multi st l = (parseL multi (stAfter a) r).map (.one a :: ·) := by
  unfold charOrEsc at h
  split at h
  · -- backslash + escapable
    rename_i c rest
    split at h
    · rename_i hx
      injection h with h; injection h with h1 h2; subst h1; subst h2
      have : parseL multi st (92 :: c :: rest) = parseL multi { st with escaped := true } (c :: rest) := by
        rw [parseL]; simp [cpHyphen, isSpecial, isBracket, cpBackslash, he]
      rw [this]
      exact parseL_escaped_char multi _ c rest rfl hx
    · cases h
  · rename_i c rest hne
    split at h
    · cases h
    · split at h
      · cases h
      · rename_i hb hb2
        injection h with h; injection h with h1 h2; subst h1; subst h2
        simp only [Bool.or_eq_true, beq_iff_eq, not_or] at hb hb2
        rw [parseL]
        have h1 : (c == cpHyphen) = false := by simp [cpHyphen, hb2.2]
        have h3 : isBracket c = false := by simp [isBracket, hb.1, hb.2]
        have h4 : (c == cpBackslash) = false := by simp [cpBackslash, hb2.1]
        simp only [h1, Bool.false_eq_true, if_false, h3, h4, he]
        by_cases h2 : isSpecial c
        · right; simp [h2, stAfter]
        · simp only [h2, Bool.false_eq_true, if_false]
          by_cases h5 : hyphenNext rest
          · left; simp [h5, stAfter]
          · right; simp [h5, stAfter]
  · cases h


/-- reading `'-' charOrEsc` after the single character `a` (the state says: `a` just read, no range
pending): a reversed range is rejected, otherwise the range `a..b` is produced (followed by a
redundant backslash when `b` was written as an escaped backslash) -/
theorem parseL_range (multi : Bool) (st : PState) (a b0 : Nat) (r1 : List Nat) (b : Nat) (r' : List Nat)
    (he : st.escaped = false) (hr : st.onRange = false) (hc : st.char = a)
    (h : charOrEsc (b0 :: r1) = .ok (b, r')) :
    (a > b → parseL multi st (45 :: b0 :: r1) = none) ∧
    (¬ a > b → ∃ st' : PState, st'.escaped = false ∧
      (parseL multi st (45 :: b0 :: r1) = (parseL multi st' r').map (.rng a (b + 1) :: ·) ∨
       (b = 92 ∧ parseL multi st (45 :: b0 :: r1) =
          (parseL multi st' r').map (fun x => .rng a (b + 1) :: .one 92 :: x)))) := by
  have hstep : parseL multi st (45 :: b0 :: r1) =
      (let re := rangeEnd (b0 :: r1)
       if re.2.2.1 then none
       else if a > re.2.1 then none
       else (parseL multi { st with onRange := true, escaped := re.2.2.2 } ((b0 :: r1).drop re.1)).map
              (.rng a (re.2.1 + 1) :: ·)) := by
    rw [parseL]; simp [cpHyphen, he, hr, hc]
  rw [hstep]
  by_cases hb0 : b0 = 92
  · subst hb0
    cases r1 with
    | nil => simp [charOrEsc] at h
    | cons c rest =>
      simp only [charOrEsc] at h
      split at h
      · rename_i hx
        injection h with h; injection h with h1 h2; subst h1; subst h2
        by_cases hesc : isEscapable c
        · have hre : rangeEnd (92 :: c :: rest) = (2, c, false, false) := by
            simp [rangeEnd, cpBackslash, hesc]
          simp only [hre]
          refine ⟨fun hgt => by simp [hgt], fun hle =>
            ⟨{ st with onRange := true, escaped := false }, rfl, Or.inl ?_⟩⟩
          simp [hle]
        · have hc92 : c = 92 := by
            rw [xsdEscapable_iff] at hx; simpa [hesc] using hx
          subst hc92
          have hre : rangeEnd (92 :: 92 :: rest) = (1, 92, false, true) := by
            simp [rangeEnd, cpBackslash, isEscapable, isSpecial, isBracket, cpHyphen, isMultiEsc]
          simp only [hre]
          refine ⟨fun hgt => by simp [hgt], fun hle => ⟨stAfter 92, rfl, Or.inr ⟨by simp, ?_⟩⟩⟩
          have : parseL multi { st with onRange := true, escaped := true } (92 :: rest) =
              (parseL multi (stAfter 92) rest).map (.one 92 :: ·) := by
            rw [parseL]; simp [cpHyphen, isSpecial, isBracket, cpBackslash, stAfter]
          simp [hle, this, Option.map_map, Function.comp_def]
      · cases h
  · have hco : charOrEsc (b0 :: r1) =
        (if b0 == 91 || b0 == 93 then .error else if b0 == 92 || b0 == 45 then .unspec else .ok (b0, r1)) := by
      rw [charOrEsc]
      intro c rest h1 _; exact hb0 h1
    rw [hco] at h
    split at h
    · cases h
    · split at h
      · cases h
      · rename_i hb hb2
        injection h with h; injection h with h1 h2; subst h1; subst h2
        have hre : rangeEnd (b0 :: r1) = (1, b0, false, false) := by
          cases r1 with
          | nil => simp [rangeEnd]
          | cons d rest' => simp [rangeEnd, cpBackslash, hb0]
        simp only [hre]
        refine ⟨fun hgt => by simp [hgt], fun hle =>
          ⟨{ st with onRange := true, escaped := false }, rfl, Or.inl ?_⟩⟩
        simp [hle]


theorem GroupRes.map_ok {α β} {f : α → β} {r : GroupRes α} {v : β} (h : r.map f = .ok v) :
    ∃ w, r = .ok w ∧ v = f w := by
  cases r with
  | ok w => exact ⟨w, rfl, by simpa [GroupRes.map] using h.symm⟩
  | error => cases h
  | unspec => cases h

theorem GroupRes.map_error {α β} {f : α → β} {r : GroupRes α} (h : r.map f = .error) : r = .error := by
  cases r with
  | ok w => cases h
  | error => rfl
  | unspec => cases h

theorem hyphenNext_true {r : List Nat} (h : hyphenNext r = true) : ∃ b0 r1, r = 45 :: b0 :: r1 := by
  match r, h with
  | c :: b0 :: r1, h => exact ⟨b0, r1, by simp [hyphenNext, cpHyphen] at h; simp [h]⟩

/-- after a character `a`, accepted continuation -/
theorem afterChar_ok (k : List Nat → GroupRes (List CP)) (multi : Bool) (a : Nat) (r : List Nat)
    (S : List CP) (X : Option (List CP))
    (hk : ∀ r' S' st, st.escaped = false → k r' = .ok S' → Agrees (parseL multi st r') S')
    (h : afterChar k a r = .ok S)
    (hX : (X = parseL multi (stAfter a) r ∧ hyphenNext r = true) ∨
          X = (parseL multi (stAfter a) r).map (.one a :: ·)) : Agrees X S := by
  unfold afterChar at h
  split at h
  · rename_i b0 r1
    split at h
    · rename_i b r' hco
      split at h
      · cases h
      · rename_i hle
        obtain ⟨S', hk', rfl⟩ := GroupRes.map_ok h
        have hR := (parseL_range multi (stAfter a) a b0 r1 b r' rfl rfl rfl hco).2 hle
        obtain ⟨st', hst', hP⟩ := hR
        obtain ⟨lq, hq, hmem⟩ := hk r' S' st' hst' hk'
        have hab : a ≤ b := by omega
        rcases hP with hP | ⟨hb, hP⟩
        · rcases hX with ⟨hX, _⟩ | hX
          · refine ⟨_, by rw [hX, hP, hq]; rfl, ?_⟩
            intro x; simp only [memL, hmem]
          · refine ⟨_, by rw [hX, hP, hq]; rfl, ?_⟩
            intro x; simp only [memL, hmem, CP.mem, CP.lo_one, CP.hi_one, CP.lo_rng, CP.hi_rng]
            constructor
            · rintro (h1 | h1 | h1)
              · left; omega
              · left; exact h1
              · right; exact h1
            · rintro (h1 | h1)
              · right; left; exact h1
              · right; right; exact h1
        · subst hb
          rcases hX with ⟨hX, _⟩ | hX
          · refine ⟨_, by rw [hX, hP, hq]; rfl, ?_⟩
            intro x; simp only [memL, hmem, CP.mem, CP.lo_one, CP.hi_one, CP.lo_rng, CP.hi_rng]
            constructor
            · rintro (h1 | h1 | h1)
              · left; exact h1
              · left; omega
              · right; exact h1
            · rintro (h1 | h1)
              · left; exact h1
              · right; right; exact h1
          · refine ⟨_, by rw [hX, hP, hq]; rfl, ?_⟩
            intro x; simp only [memL, hmem, CP.mem, CP.lo_one, CP.hi_one, CP.lo_rng, CP.hi_rng]
            constructor
            · rintro (h1 | h1 | h1 | h1)
              · left; omega
              · left; exact h1
              · left; omega
              · right; exact h1
            · rintro (h1 | h1)
              · right; left; exact h1
              · right; right; right; exact h1
    · cases h
  · rename_i hne
    obtain ⟨S', hk', rfl⟩ := GroupRes.map_ok h
    obtain ⟨lq, hq, hmem⟩ := hk r S' (stAfter a) rfl hk'
    rcases hX with ⟨_, hn⟩ | hX
    · obtain ⟨b0, r1, hr⟩ := hyphenNext_true hn
      exact absurd hr (hne b0 r1)
    · refine ⟨_, by rw [hX, hq]; rfl, ?_⟩
      intro x; simp only [memL, hmem]


/-- after a character `a`, continuation that the grammar makes an error -/
theorem afterChar_error (k : List Nat → GroupRes (List CP)) (a : Nat) (r : List Nat)
    (X : Option (List CP))
    (hk : ∀ r' st, st.escaped = false → k r' = .error → parseL true st r' = none)
    (h : afterChar k a r = .error)
    (hX : (X = parseL true (stAfter a) r ∧ hyphenNext r = true) ∨
          X = (parseL true (stAfter a) r).map (.one a :: ·)) : X = none := by
  have hP : parseL true (stAfter a) r = none := by
    unfold afterChar at h
    split at h
    · rename_i b0 r1
      split at h
      · rename_i b r' hco
        have hR := parseL_range true (stAfter a) a b0 r1 b r' rfl rfl rfl hco
        split at h
        · rename_i hgt
          exact hR.1 hgt
        · rename_i hle
          have hk' := GroupRes.map_error h
          obtain ⟨st', hst', hP⟩ := hR.2 hle
          have hq := hk r' st' hst' hk'
          rcases hP with hP | ⟨_, hP⟩ <;> rw [hP, hq] <;> rfl
      · cases h
    · exact hk r (stAfter a) rfl (GroupRes.map_error h)
  rcases hX with ⟨hX, _⟩ | hX <;> rw [hX, hP] <;> rfl

theorem charOrEsc_error {l : List Nat} (h : charOrEsc l = .error) :
    ∃ c rest, l = c :: rest ∧ (c = 91 ∨ c = 93) := by
  match l, h with
  | [], h => simp [charOrEsc] at h
  | [c], h =>
    refine ⟨c, [], rfl, ?_⟩
    simp only [charOrEsc] at h
    split at h
    · rename_i hb; simpa using hb
    · split at h <;> cases h
  | c :: d :: rest, h =>
    refine ⟨c, d :: rest, rfl, ?_⟩
    by_cases hc : c = 92
    · subst hc; simp only [charOrEsc] at h; split at h <;> cases h
    · have hco : charOrEsc (c :: d :: rest) =
          (if c == 91 || c == 93 then .error else if c == 92 || c == 45 then .unspec else .ok (c, d :: rest)) := by
        rw [charOrEsc]
        intro c' rest' h1 _; exact hc h1
      rw [hco] at h
      split at h
      · rename_i hb; simpa using hb
      · split at h <;> cases h

theorem strictGoF_ok : ∀ (fuel : Nat) (l : List Nat) (S : List CP), strictGoF fuel l = .ok S →
    ∀ (multi : Bool) (st : PState), st.escaped = false → Agrees (parseL multi st l) S := by
  intro fuel
  induction fuel with
  | zero => intro l S h; cases h
  | succ fuel ih =>
    intro l S h multi st he
    unfold strictGoF at h
    split at h
    · injection h with h; subst h
      exact ⟨[], by rw [parseL]; simp [he], fun x => Iff.rfl⟩
    · injection h with h; subst h
      refine ⟨[.one 45], ?_, fun x => Iff.rfl⟩
      rw [parseL]; simp [cpHyphen]; rw [parseL]; simp
    · split at h
      · rename_i a r hco
        exact afterChar_ok (strictGoF fuel) multi a r S _
          (fun r' S' st' hst' hk' => ih r' S' hk' multi st' hst') h
          (parseL_charOrEsc multi st l a r he hco)
      · cases h
      · cases h

theorem strictGoF_error : ∀ (fuel : Nat) (l : List Nat), strictGoF fuel l = .error →
    ∀ (st : PState), st.escaped = false → parseL true st l = none := by
  intro fuel
  induction fuel with
  | zero => intro l h; cases h
  | succ fuel ih =>
    intro l h st he
    unfold strictGoF at h
    split at h
    · cases h
    · cases h
    · split at h
      · rename_i a r hco
        exact afterChar_error (strictGoF fuel) a r _
          (fun r' st' hst' hk' => ih r' hk' st' hst') h
          (parseL_charOrEsc true st l a r he hco)
      · -- an unescaped bracket where a character is due
        rename_i hco
        obtain ⟨c, rest, rfl, hb⟩ := charOrEsc_error hco
        rw [parseL]
        have hbr : isBracket c = true := by simpa [isBracket] using hb
        have h1 : (c == cpHyphen) = false := by
          simp only [cpHyphen, beq_eq_false_iff_ne]; omega
        have h2 : isSpecial c = false := by
          rcases hb with hb | hb <;> subst hb <;> decide
        simp [h1, h2, hbr, he]
      · cases h


/-- the first character of a text of at least two characters, read by the `k == 0` branch -/
theorem parseTopL_first (c d : Nat) (rest : List Nat) (a : Nat) (r : List Nat)
    (hco : charOrEsc (c :: d :: rest) = .ok (a, r)) :
    (parseTopL (c :: d :: rest) = parseL true (stAfter a) r ∧ hyphenNext r = true) ∨
    parseTopL (c :: d :: rest) = (parseL true (stAfter a) r).map (.one a :: ·) := by
  by_cases hc : c = 92
  · subst hc
    simp only [charOrEsc] at hco
    split at hco
    · rename_i hx
      injection hco with hco; injection hco with h1 h2; subst h1; subst h2
      have : parseTopL (92 :: d :: rest) = parseL true { escaped := true, char := 92 } (d :: rest) := by
        simp [parseTopL, cpBackslash]
      rw [this]
      exact parseL_escaped_char true _ d rest rfl hx
    · cases hco
  · have hco' : charOrEsc (c :: d :: rest) =
        (if c == 91 || c == 93 then .error else if c == 92 || c == 45 then .unspec else .ok (c, d :: rest)) := by
      rw [charOrEsc]
      intro c' rest' h1 _; exact hc h1
    rw [hco'] at hco
    split at hco
    · cases hco
    · split at hco
      · cases hco
      · rename_i hb hb2
        injection hco with hco; injection hco with h1 h2; subst h1; subst h2
        simp only [Bool.or_eq_true, beq_iff_eq, not_or] at hb
        have hbr : isBracket c = false := by simp [isBracket, hb.1, hb.2]
        have hbs : (c == cpBackslash) = false := by simp [cpBackslash, hc]
        by_cases hn : hyphenNext (d :: rest)
        · left; simp [parseTopL, hbs, hbr, hn, stAfter]
        · right; simp [parseTopL, hbs, hbr, hn, stAfter]


theorem strictGo_hyphen_first {fuel : Nat} {b0 : Nat} {r1 : List Nat} {S : List CP}
    (h : strictGoF fuel (45 :: b0 :: r1) = .ok S) : False := by
  cases fuel with
  | zero => cases h
  | succ fuel => simp [strictGoF, charOrEsc] at h

theorem strictGoF_cons2 (n c d : Nat) (rest : List Nat) :
    strictGoF (n + 1) (c :: d :: rest) =
      (match charOrEsc (c :: d :: rest) with
       | .ok (a, r) => afterChar (strictGoF n) a r
       | .error => .error
       | .unspec => .unspec) := by
  rw [strictGoF]
  · rfl
  · intro h; cases h
  · intro h; cases h

theorem parseTopL_strict_ok (l : List Nat) (S : List CP) (h : strictGroup l = .ok S) :
    Agrees (parseTopL l) S := by
  match l, h with
  | [], h =>
    simp [strictGroup, strictGo, strictGoF] at h; subst h
    exact ⟨[], rfl, fun x => Iff.rfl⟩
  | [c], h =>
    have hp : c ≠ 92 → (c ≠ 91 ∧ c ≠ 93) → parseTopL [c] = some [.one c] := by
      intro h1 h2
      simp [parseTopL, cpBackslash, h1, isBracket, parseL, hyphenNext]
    simp only [strictGroup] at h
    split at h
    · rename_i a r hco
      injection h with h; subst h
      simp only [charOrEsc] at hco
      split at hco
      · cases hco
      · split at hco
        · cases hco
        · rename_i hb hb2
          injection hco with hco; injection hco with h1 h2; subst h1
          simp only [Bool.or_eq_true, beq_iff_eq, not_or] at hb hb2
          exact ⟨_, hp hb2.1 hb, fun x => Iff.rfl⟩
    · split at h
      · rename_i h45
        injection h with h; subst h
        have : c = 45 := by simpa using h45
        subst this
        exact ⟨_, hp (by decide) (by decide), fun x => Iff.rfl⟩
      · cases h
  | 45 :: d :: rest, h =>
    simp only [strictGroup] at h
    obtain ⟨S', hS', rfl⟩ := GroupRes.map_ok h
    obtain ⟨lq, hq, hmem⟩ := strictGoF_ok _ _ _ hS' true (stAfter 45) rfl
    have hn : hyphenNext (d :: rest) = false := by
      cases hh : hyphenNext (d :: rest) with
      | false => rfl
      | true =>
        obtain ⟨b0, r1, hr⟩ := hyphenNext_true hh
        rw [hr] at hS'
        exact (strictGo_hyphen_first hS').elim
    refine ⟨.one 45 :: lq, ?_, fun x => by simp only [memL, hmem]⟩
    have : parseTopL (45 :: d :: rest) = (parseL true (stAfter 45) (d :: rest)).map (.one 45 :: ·) := by
      simp [parseTopL, cpBackslash, isBracket, hn, stAfter]
    rw [this, hq]; rfl
  | c :: d :: rest, h =>
    by_cases hc : c = 45
    · subst hc
      simp only [strictGroup] at h
      obtain ⟨S', hS', rfl⟩ := GroupRes.map_ok h
      obtain ⟨lq, hq, hmem⟩ := strictGoF_ok _ _ _ hS' true (stAfter 45) rfl
      have hn : hyphenNext (d :: rest) = false := by
        cases hh : hyphenNext (d :: rest) with
        | false => rfl
        | true =>
          obtain ⟨b0, r1, hr⟩ := hyphenNext_true hh
          rw [hr] at hS'
          exact (strictGo_hyphen_first hS').elim
      refine ⟨.one 45 :: lq, ?_, fun x => by simp only [memL, hmem]⟩
      have : parseTopL (45 :: d :: rest) = (parseL true (stAfter 45) (d :: rest)).map (.one 45 :: ·) := by
        simp [parseTopL, cpBackslash, isBracket, hn, stAfter]
      rw [this, hq]; rfl
    · have hs : strictGroup (c :: d :: rest) = strictGo (c :: d :: rest) := by
        unfold strictGroup
        split
        · rename_i heq; simp at heq
        · rename_i heq; simp at heq; exact absurd heq.1 hc
        · rfl
      rw [hs] at h
      simp only [strictGo, List.length_cons, strictGoF_cons2] at h
      split at h
      · rename_i a r hco
        exact afterChar_ok _ true a r S _
          (fun r' S' st' hst' hk' => strictGoF_ok _ r' S' hk' true st' hst') h
          (parseTopL_first c d rest a r hco)
      · cases h
      · cases h

theorem allValid_cons {v : CP} {l : List CP} (hv : v.lo < v.hi) (hl : AllValid l) : AllValid (v :: l) := by
  intro w hw
  rcases List.mem_cons.mp hw with rfl | hw
  · exact hv
  · exact hl w hw

theorem allValid_map_cons {v : CP} {r : Option (List CP)} {out : List CP} (hv : v.lo < v.hi)
    (ih : ∀ o, r = some o → AllValid o) (h : r.map (v :: ·) = some out) : AllValid out := by
  cases r with
  | none => cases h
  | some o => injection h with h; subst h; exact allValid_cons hv (ih o rfl)

theorem allValid_map_pre {pre : List CP} {r : Option (List CP)} {out : List CP}
    (hp : AllValid pre) (ih : ∀ o, r = some o → AllValid o) (h : r.map (pre ++ ·) = some out) :
    AllValid out := by
  cases r with
  | none => cases h
  | some o =>
    injection h with h; subst h
    intro v hv
    rcases List.mem_append.mp hv with hv | hv
    · exact hp v hv
    · exact ih o rfl v hv

theorem parseL_allValid (multi : Bool) (st : PState) (l : List Nat) :
    ∀ out, parseL multi st l = some out → AllValid out := by
  fun_induction parseL multi st l
  all_goals intro out h
  all_goals first
    | (cases h; done)
    | (injection h with h; subst h; split <;> intro v hv <;> simp_all; done)
    | exact allValid_map_cons (by first | (simp; done) | (simp only [CP.lo_rng, CP.hi_rng]; omega)) (by assumption) h
    | skip
  case case9 => rename_i ih; exact ih out h
  case case12 => rename_i ih; exact ih out h
  case case13 =>
    rename_i pre r _ ih
    refine allValid_map_pre ?_ ih h
    intro v hv; simp only [pre] at hv; split at hv <;> simp_all
  case case14 =>
    rename_i c _ _ _ _ _ pre r _ ih
    have hp : AllValid (pre ++ [.one c]) := by
      intro v hv
      rcases List.mem_append.mp hv with hv | hv
      · simp only [pre] at hv; split at hv <;> simp_all
      · simp_all
    refine allValid_map_pre hp ih ?_
    simpa using h

theorem parseTopL_allValid (l : List Nat) : ∀ out, parseTopL l = some out → AllValid out := by
  intro out h
  unfold parseTopL at h
  split at h
  · injection h with h; subst h; intro v hv; cases hv
  · rename_i c rest
    simp only at h
    split at h
    · exact parseL_allValid _ _ _ out h
    · split at h
      · cases h
      · split at h
        · exact parseL_allValid _ _ _ out h
        · exact allValid_map_cons (by simp) (parseL_allValid _ _ _) h

theorem parseTopL_strict_error (l : List Nat) (h : strictGroup l = .error) : parseTopL l = none := by
  match l, h with
  | [], h => simp [strictGroup, strictGo, strictGoF] at h
  | [c], h =>
    simp only [strictGroup] at h
    split at h
    · cases h
    · split at h <;> cases h
  | c :: d :: rest, h =>
    by_cases hc : c = 45
    · subst hc
      simp only [strictGroup] at h
      have hS := GroupRes.map_error h
      have hq := strictGoF_error _ _ hS (stAfter 45) rfl
      have : parseTopL (45 :: d :: rest) =
          (if hyphenNext (d :: rest) then parseL true (stAfter 45) (d :: rest)
           else (parseL true (stAfter 45) (d :: rest)).map (.one 45 :: ·)) := by
        simp [parseTopL, cpBackslash, isBracket, stAfter]
      rw [this, hq]; split <;> rfl
    · have hs : strictGroup (c :: d :: rest) = strictGo (c :: d :: rest) := by
        unfold strictGroup
        split
        · rename_i heq; simp at heq
        · rename_i heq; simp at heq; exact absurd heq.1 hc
        · rfl
      rw [hs] at h
      simp only [strictGo, List.length_cons, strictGoF_cons2] at h
      split at h
      · rename_i a r hco
        exact afterChar_error _ a r _
          (fun r' st' hst' hk' => strictGoF_error _ r' hk' st' hst') h
          (parseTopL_first c d rest a r hco)
      · rename_i hco
        obtain ⟨c', rest', heq, hb⟩ := charOrEsc_error hco
        injection heq with h1 h2; subst h1
        have hbr : isBracket c = true := by simpa [isBracket] using hb
        have hbs : (c == cpBackslash) = false := by
          simp only [cpBackslash, beq_eq_false_iff_ne]; omega
        simp [parseTopL, hbs, hbr]
      · cases h

end EPV.USet

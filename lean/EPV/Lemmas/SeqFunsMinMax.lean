/-
C08 helper lemmas: fn:max / fn:min in the wording of F&O §14.4.3 / §14.4.4 ("convert every value
to xs:double, select an item such that no other item is greater").  The specification
`Spec.minMaxCore` (and the code) compare the exact values and promote the selected one; the two
readings agree when the promotion is monotone on the input (`promotionMonotoneOn`).
-/
import EPV.Lemmas.SeqFunsAgg
import EPV.Lemmas.SeqFunsRnd
namespace EPV.Seq
open EPV.Seq.Spec

/-! ### the exact order is a strict order on proper values -/

/-- not NaN, positive denominator -/
def XV.Valid : XV → Prop
  | .q _ d => 0 < d
  | .nan => False
  | _ => True

theorem XV.lt_irrefl (x : XV) : XV.lt x x = false := by
  cases x <;> simp [XV.lt]

theorem XV.lt_trans (x y z : XV) (hx : XV.Valid x) (hy : XV.Valid y) (hz : XV.Valid z)
    (h1 : XV.lt x y = true) (h2 : XV.lt y z = true) : XV.lt x z = true := by
  cases x <;> cases y <;> cases z <;> simp_all [XV.lt, XV.Valid]
  rename_i n1 d1 n2 d2 n3 d3
  have p1 : (0 : Int) < d1 := by omega
  have p2 : (0 : Int) < d2 := by omega
  have p3 : (0 : Int) < d3 := by omega
  have a : n1 * d2 * d3 < n2 * d1 * d3 := Int.mul_lt_mul_of_pos_right h1 p3
  have b : n2 * d3 * d1 < n3 * d2 * d1 := Int.mul_lt_mul_of_pos_right h2 p1
  have c : n1 * d3 * d2 < n3 * d1 * d2 := by
    have e1 : n1 * d3 * d2 = n1 * d2 * d3 := by rw [Int.mul_right_comm]
    have e2 : n2 * d1 * d3 = n2 * d3 * d1 := by rw [Int.mul_right_comm]
    have e3 : n3 * d2 * d1 = n3 * d1 * d2 := by rw [Int.mul_right_comm]
    omega
  exact Int.lt_of_mul_lt_mul_right c (Int.le_of_lt p2)

theorem D.val_valid (d : D) (h : d ≠ .nan) : XV.Valid d.val := by
  cases d with
  | nan => exact absurd rfl h
  | fin m k => exact Nat.pow_pos (by decide)
  | nzero => exact Nat.one_pos
  | _ => trivial

/-- the exact value of a numeric item other than NaN is a proper value -/
theorem exact_valid (a : Atom) (hk : kind a = .num) (hn : (a == Atom.dbl .nan) = false) :
    XV.Valid (exact a) := by
  cases a with
  | int n => exact Nat.one_pos
  | dec m k => exact Nat.pow_pos (by decide)
  | dbl d =>
    apply D.val_valid
    intro h; subst h; simp at hn
  | _ => simp [kind] at hk

/-! ### `extremum` selects an element that no other element exceeds -/

theorem extremum_mem {β : Type} (lt : β → β → Bool) (isMax : Bool) (b : β) (l : List β) :
    extremum lt isMax b l ∈ b :: l := by
  induction l generalizing b with
  | nil => simp [extremum]
  | cons x xs ih =>
    simp only [extremum]
    generalize hc : (if (if isMax then lt b x else lt x b) then x else b) = c
    have hcm : c = x ∨ c = b := by
      rw [← hc]
      cases (if isMax then lt b x else lt x b) <;> simp
    have := ih c
    rcases List.mem_cons.mp this with h | h
    · rw [h]; rcases hcm with h' | h'
      · rw [h']; exact List.mem_cons_of_mem _ List.mem_cons_self
      · rw [h']; exact List.mem_cons_self
    · exact List.mem_cons_of_mem _ (List.mem_cons_of_mem _ h)

theorem extremum_max_aux {β : Type} (lt : β → β → Bool) (P : β → Prop)
    (irrefl : ∀ x, P x → lt x x = false)
    (trans : ∀ x y z, P x → P y → P z → lt x y = true → lt y z = true → lt x z = true)
    (l : List β) : ∀ (b : β) (seen : List β), P b → (∀ y ∈ l, P y) → (∀ y ∈ seen, P y) →
      (∀ y ∈ seen, lt b y = false) →
      (∀ y ∈ seen, lt (extremum lt true b l) y = false) ∧
      (∀ y ∈ b :: l, lt (extremum lt true b l) y = false) := by
  induction l with
  | nil =>
    intro b seen hb _ _ hs
    simp only [extremum]
    exact ⟨hs, by intro y hy; simp at hy; subst hy; exact irrefl _ hb⟩
  | cons x xs ih =>
    intro b seen hb hl hP hs
    have hx : P x := hl x List.mem_cons_self
    have hxs : ∀ y ∈ xs, P y := fun y hy => hl y (List.mem_cons_of_mem _ hy)
    simp only [extremum, if_true]
    cases hbx : lt b x with
    | true =>
      simp only [if_true]
      have hseen : ∀ y ∈ b :: seen, lt x y = false := by
        intro y hy
        cases hxy : lt x y with
        | false => rfl
        | true =>
          rcases List.mem_cons.mp hy with h | h
          · subst h
            have := trans _ _ _ hb hx hb hbx hxy
            rw [irrefl _ hb] at this; cases this
          · have := trans _ _ _ hb hx (hP y h) hbx hxy
            rw [hs y h] at this; cases this
      have hP' : ∀ y ∈ b :: seen, P y := by
        intro y hy; rcases List.mem_cons.mp hy with h | h
        · subst h; exact hb
        · exact hP y h
      obtain ⟨r1, r2⟩ := ih x (b :: seen) hx hxs hP' hseen
      refine ⟨fun y hy => r1 y (List.mem_cons_of_mem _ hy), ?_⟩
      intro y hy
      rcases List.mem_cons.mp hy with h | h
      · subst h; exact r1 _ List.mem_cons_self
      · exact r2 y h
    | false =>
      simp only [Bool.false_eq_true, if_false]
      have hseen : ∀ y ∈ x :: seen, lt b y = false := by
        intro y hy; rcases List.mem_cons.mp hy with h | h
        · subst h; exact hbx
        · exact hs y h
      have hP' : ∀ y ∈ x :: seen, P y := by
        intro y hy; rcases List.mem_cons.mp hy with h | h
        · subst h; exact hx
        · exact hP y h
      obtain ⟨r1, r2⟩ := ih b (x :: seen) hb hxs hP' hseen
      refine ⟨fun y hy => r1 y (List.mem_cons_of_mem _ hy), ?_⟩
      intro y hy
      rcases List.mem_cons.mp hy with h | h
      · subst h; exact r2 _ List.mem_cons_self
      · rcases List.mem_cons.mp h with h' | h'
        · subst h'; exact r1 _ List.mem_cons_self
        · exact r2 y (List.mem_cons_of_mem _ h')

theorem extremum_min_flip {β : Type} (lt : β → β → Bool) (b : β) (l : List β) :
    extremum lt false b l = extremum (fun x y => lt y x) true b l := by
  induction l generalizing b with
  | nil => rfl
  | cons x xs ih => simp only [extremum, Bool.false_eq_true, if_false, if_true, ih]

/-- greatest: nothing is above the selected element; least: nothing is below it -/
theorem extremum_extreme {β : Type} (lt : β → β → Bool) (P : β → Prop)
    (irrefl : ∀ x, P x → lt x x = false)
    (trans : ∀ x y z, P x → P y → P z → lt x y = true → lt y z = true → lt x z = true)
    (isMax : Bool) (b : β) (l : List β) (hP : ∀ y ∈ b :: l, P y) :
    ∀ y ∈ b :: l, (if isMax then lt (extremum lt isMax b l) y else lt y (extremum lt isMax b l)) = false := by
  have hb := hP b List.mem_cons_self
  have hl : ∀ y ∈ l, P y := fun y hy => hP y (List.mem_cons_of_mem _ hy)
  cases isMax with
  | true =>
    simp only [if_true]
    exact (extremum_max_aux lt P irrefl trans l b [] hb hl (by simp) (by simp)).2
  | false =>
    simp only [Bool.false_eq_true, if_false]
    rw [extremum_min_flip]
    exact (extremum_max_aux (fun x y => lt y x) P irrefl
      (fun x y z hx hy hz h1 h2 => trans z y x hz hy hx h2 h1) l b [] hb hl (by simp) (by simp)).2

/-! ### F&O wording of fn:max / fn:min on numeric input with a double -/

theorem minMaxCore_fo_literal (cl : Coll) (isMax : Bool) (a : Atom) (rest : Seq)
    (hout : outsideAgg (a :: rest) = false) (hnum : allKind .num (a :: rest) = true)
    (hdbl : anyDouble (a :: rest) = true) (hnan : (a :: rest).any (· == Atom.dbl .nan) = false)
    (hmono : promotionMonotoneOn (a :: rest) = true) :
    ∃ r, Spec.minMaxCore cl isMax (a :: rest) = .ok [.dbl r] ∧ IsExtremeOfConverted isMax (a :: rest) r := by
  have hstr : allKind .str (a :: rest) = false := by
    have h1 : kind a = .num := by
      have := List.all_eq_true.mp hnum a List.mem_cons_self; simpa using this
    simp [allKind, h1]
  have hbool : allKind .bool (a :: rest) = false := by
    have h1 : kind a = .num := by
      have := List.all_eq_true.mp hnum a List.mem_cons_self; simpa using this
    simp [allKind, h1]
  refine ⟨toDouble (extremum (fun x y => XV.lt (exact x) (exact y)) isMax a rest), ?_, ?_, ?_⟩
  · simp only [Spec.minMaxCore, hout, hstr, hbool, hnum, hdbl, hnan, Bool.false_eq_true, if_false, if_true]
  · exact List.mem_map.mpr ⟨_, extremum_mem _ isMax a rest, rfl⟩
  · intro y hy
    obtain ⟨x, hx, rfl⟩ := List.mem_map.mp hy
    have hP : ∀ z ∈ a :: rest, XV.Valid (exact z) := by
      intro z hz
      apply exact_valid
      · have := List.all_eq_true.mp hnum z hz; simpa using this
      · have := List.any_eq_false.mp hnan z hz; simpa using this
    have hext := extremum_extreme (fun x y : Atom => XV.lt (exact x) (exact y)) (fun z => XV.Valid (exact z))
      (fun z _ => XV.lt_irrefl _) (fun x y z hx hy hz => XV.lt_trans _ _ _ hx hy hz) isMax a rest hP x hx
    have hm := extremum_mem (fun x y : Atom => XV.lt (exact x) (exact y)) isMax a rest
    have hall := List.all_eq_true.mp hmono
    cases isMax with
    | true =>
      simp only [if_true] at hext ⊢
      have := List.all_eq_true.mp (hall _ hm) x hx
      rw [hext] at this
      simpa using this
    | false =>
      simp only [Bool.false_eq_true, if_false] at hext ⊢
      have := List.all_eq_true.mp (hall x hx) _ hm
      rw [hext] at this
      simpa using this

/-! ### the hypothesis holds whenever the promotion is exact -/

/-- items whose promotion to xs:double is exact: doubles, integers up to 2^53 in magnitude -/
def exactlyPromotable : Atom → Bool
  | .int n => decide (n.natAbs ≤ 2 ^ 53)
  | .dbl _ => true
  | _ => false

theorem toDouble_val_of_exact (a : Atom) (h : exactlyPromotable a = true) : (toDouble a).val = exact a := by
  cases a with
  | int n =>
    have h' : n.natAbs ≤ 2 ^ 53 := by simpa [exactlyPromotable] using h
    simp [toDouble, D.ofInt, h', D.val, exact]
  | dbl d => rfl
  | _ => simp [exactlyPromotable] at h

theorem promotionMonotoneOn_of_exact (s : Seq) (h : s.all exactlyPromotable = true) :
    promotionMonotoneOn s = true := by
  unfold promotionMonotoneOn
  rw [List.all_eq_true]; intro x hx
  rw [List.all_eq_true]; intro y hy
  have ex := toDouble_val_of_exact x (List.all_eq_true.mp h x hx)
  have ey := toDouble_val_of_exact y (List.all_eq_true.mp h y hy)
  simp only [D.lt, ex, ey]
  cases XV.lt (exact x) (exact y) <;> rfl

/-! ### the hypothesis holds for every sequence of real xs:double values: `rnd` is monotone -/

/-- the exact value of a numeric item as a fraction (`none`: NaN, ±INF, or not a number) -/
def ratOf : Atom → Option (Int × Nat)
  | .int n => some (n, 1)
  | .dec m k => some (m, 10 ^ k)
  | .dbl (.fin m k) => some (m, 2 ^ k)
  | .dbl .nzero => some (0, 1)
  | _ => none

theorem ofInt_large (n : Int) (h : ¬ n.natAbs ≤ 2 ^ 53) : D.ofInt n = rnd n 1 := by
  unfold D.ofInt
  simp only [h, if_false]
  rcases rnd_large_shape n (by omega) with e | e | ⟨M, e⟩ <;> rw [e] <;> rfl

theorem small_int_range (n : Int) (h : n.natAbs ≤ 2 ^ 53) :
    -(big : Int) < n * ((2 ^ 1074 : Nat) : Int) ∧ n * ((2 ^ 1074 : Nat) : Int) < (big : Int) := by
  have hb : n.natAbs * 2 ^ 1074 < big := by
    unfold big
    calc n.natAbs * 2 ^ 1074 ≤ 2 ^ 53 * 2 ^ 1074 := Nat.mul_le_mul_right _ h
      _ = 2 ^ 1127 := by rw [← Nat.pow_add]
      _ < 2 ^ 2098 := Nat.pow_lt_pow_right (by decide) (by decide)
  have hb' : ((n.natAbs * 2 ^ 1074 : Nat) : Int) < (big : Int) := Int.ofNat_lt.mpr hb
  rw [Int.natCast_mul] at hb'
  have hK : (0 : Int) < ((2 ^ 1074 : Nat) : Int) := Int.natCast_pos.mpr (two_pow_pos _)
  generalize ((2 ^ 1074 : Nat) : Int) = K at *
  have hnn : (0 : Int) ≤ (n.natAbs : Int) * K := Int.mul_nonneg (Int.natCast_nonneg _) (Int.le_of_lt hK)
  by_cases hneg : n < 0
  · have e : n = -(n.natAbs : Int) := by omega
    rw [e, Int.neg_mul]
    constructor <;> omega
  · have e : n = (n.natAbs : Int) := by omega
    rw [e]
    constructor <;> omega

/-- a numeric item with a finite value: its exact value is `n / d` and its promotion has the scaled
value that `rnd` gives to `n / d` -/
theorem ratOf_spec (a : Atom) (n : Int) (d : Nat) (hr : ratOf a = some (n, d)) (hg : goodItem a = true) :
    0 < d ∧ exact a = .q n d ∧ HasS (toDouble a).val (sS n d) := by
  cases a with
  | int x =>
    simp only [ratOf, Option.some.injEq, Prod.mk.injEq] at hr
    obtain ⟨rfl, rfl⟩ := hr
    refine ⟨by decide, rfl, ?_⟩
    by_cases hs : x.natAbs ≤ 2 ^ 53
    · have e : toDouble (.int x) = .fin x 0 := by simp [toDouble, D.ofInt, hs]
      rw [e, sS_small_int x hs]
      obtain ⟨r1, r2⟩ := small_int_range x hs
      exact Or.inr (Or.inr ⟨r1, r2, x, 2 ^ 0, two_pow_pos 0, rfl, by simp⟩)
    · have e : toDouble (.int x) = rnd x 1 := ofInt_large x hs
      rw [e]; exact rnd_hasS x 1 (by decide)
  | dec m k =>
    simp only [ratOf, Option.some.injEq, Prod.mk.injEq] at hr
    obtain ⟨rfl, rfl⟩ := hr
    exact ⟨Nat.pow_pos (by decide), rfl, rnd_hasS m (10 ^ k) (Nat.pow_pos (by decide))⟩
  | dbl dd =>
    cases dd with
    | fin m k =>
      simp only [ratOf, Option.some.injEq, Prod.mk.injEq] at hr
      obtain ⟨rfl, rfl⟩ := hr
      exact ⟨two_pow_pos k, rfl, isRep_hasS m k hg⟩
    | nzero =>
      simp only [ratOf, Option.some.injEq, Prod.mk.injEq] at hr
      obtain ⟨rfl, rfl⟩ := hr
      refine ⟨by decide, rfl, ?_⟩
      have h0 : sS 0 1 = 0 := by simp [sS]
      rw [h0]
      have bp := bigpos
      exact Or.inr (Or.inr ⟨by omega, bp, 0, 1, by decide, rfl, by simp⟩)
    | _ => simp [ratOf] at hr
  | _ => simp [ratOf] at hr

/-- the other items: NaN, ±INF or not a number -/
theorem ratOf_none (a : Atom) (hr : ratOf a = none) :
    toDouble a = .nan ∨ (a = .dbl .pinf) ∨ (a = .dbl .ninf) := by
  cases a with
  | dbl dd => cases dd <;> simp_all [ratOf, toDouble]
  | int _ => simp [ratOf] at hr
  | dec _ _ => simp [ratOf] at hr
  | _ => left; rfl

theorem XV.lt_nan_left (x : XV) : XV.lt .nan x = false := by cases x <;> rfl
theorem XV.lt_nan_right (x : XV) : XV.lt x .nan = false := by cases x <;> rfl

/-- **the promotion to xs:double preserves the order** of any two items whose doubles are binary64
values: if the promoted `x` is below the promoted `y` then the exact `x` is below the exact `y` -/
theorem promotion_mono_pair (x y : Atom) (gx : goodItem x = true) (gy : goodItem y = true)
    (h : D.lt (toDouble x) (toDouble y) = true) : XV.lt (exact x) (exact y) = true := by
  unfold D.lt at h
  cases hx : ratOf x with
  | none =>
    rcases ratOf_none x hx with e | rfl | rfl
    · rw [e] at h; simp [D.val, XV.lt_nan_left] at h
    · simp [toDouble, D.val, XV.lt_pinf_left] at h
    · -- x = -INF: everything that is not -INF or NaN is above it
      cases hy : ratOf y with
      | none =>
        rcases ratOf_none y hy with e | rfl | rfl
        · rw [e] at h; simp [D.val, XV.lt_nan_right] at h
        · rfl
        · simp [toDouble, D.val, XV.lt] at h
      | some nd =>
        obtain ⟨_, ey, _⟩ := ratOf_spec y nd.1 nd.2 hy gy
        rw [ey]; rfl
  | some nd =>
    obtain ⟨dx, ex, sx⟩ := ratOf_spec x nd.1 nd.2 hx gx
    cases hy : ratOf y with
    | none =>
      rcases ratOf_none y hy with e | rfl | rfl
      · rw [e] at h; simp [D.val, XV.lt_nan_right] at h
      · rw [ex]; rfl
      · simp [toDouble, D.val, XV.lt_ninf_right] at h
    | some md =>
      obtain ⟨dy, ey, sy⟩ := ratOf_spec y md.1 md.2 hy gy
      rw [ex, ey]
      -- otherwise y ≤ x exactly, hence the promoted y is not above the promoted x
      apply Classical.byContradiction
      intro hn
      have hle : md.1 * (nd.2 : Int) ≤ nd.1 * (md.2 : Int) := by
        simp only [XV.lt, decide_eq_true_eq] at hn
        omega
      have := hasS_le _ _ _ _ sy sx (sS_mono md.1 nd.1 md.2 nd.2 dy dx hle)
      rw [this] at h
      cases h

/-- for every sequence whose doubles are binary64 values the promotion is monotone -/
theorem promotionMonotoneOn_of_good (s : Seq) (hg : s.all goodItem = true) : promotionMonotoneOn s = true := by
  unfold promotionMonotoneOn
  rw [List.all_eq_true]; intro x hx
  rw [List.all_eq_true]; intro y hy
  have gx := List.all_eq_true.mp hg x hx
  have gy := List.all_eq_true.mp hg y hy
  cases hlt : D.lt (toDouble x) (toDouble y) with
  | false => rfl
  | true => simp [promotion_mono_pair x y gx gy hlt]

end EPV.Seq

/-
C02 helper lemmas for the operator layer: on a node list with strictly increasing positions,
sorting any enumeration of a node set by position yields the set in document order.
-/
import EPV.Model.Builder
import EPV.Spec.XDMTree
namespace EPV.Builder
open EPV.XDM

/-- the node list has strictly increasing positions (what `build_positions_strict` provides) -/
def Strict (nodes : List Rec) : Prop := (nodes.map (·.pos)).Pairwise (· < ·)

theorem posOf_eq (nodes : List Rec) (i : Nat) (h : i < nodes.length) :
    posOf nodes i = (nodes.map (·.pos))[i]'(by simpa using h) := by
  simp [posOf, List.getElem?_eq_getElem h]

theorem posOf_lt (nodes : List Rec) (hs : Strict nodes) {i j : Nat} (hij : i < j) (hj : j < nodes.length) :
    posOf nodes i < posOf nodes j := by
  rw [posOf_eq nodes i (by omega), posOf_eq nodes j hj]
  exact (List.pairwise_iff_getElem.1 hs) i j (by simp; omega) (by simpa using hj) hij

theorem posOf_lt_iff (nodes : List Rec) (hs : Strict nodes) {i j : Nat} (hi : i < nodes.length)
    (hj : j < nodes.length) : posOf nodes i < posOf nodes j ↔ i < j := by
  constructor
  · intro h
    rcases Nat.lt_trichotomy i j with hlt | heq | hgt
    · exact hlt
    · subst heq; omega
    · have := posOf_lt nodes hs hgt hi; omega
  · intro h; exact posOf_lt nodes hs h hj

theorem posOf_le_iff (nodes : List Rec) (hs : Strict nodes) {i j : Nat} (hi : i < nodes.length)
    (hj : j < nodes.length) : posOf nodes i ≤ posOf nodes j ↔ i ≤ j := by
  have := posOf_lt_iff nodes hs hj hi
  constructor
  · intro h; by_cases hji : j < i
    · have := this.2 hji; omega
    · omega
  · intro h; by_cases hji : posOf nodes j < posOf nodes i
    · have := this.1 hji; omega
    · omega

/-! ### `<<` by walking the tree -/

theorem walk_spec (a b : Nat) (hab : a ≠ b) : ∀ (l : List Rec) (k : Nat), k ≤ a → k ≤ b →
    (a < k + l.length ∨ b < k + l.length) → walk a b k l = some (decide (a < b))
  | [], k, ha, hb, h => by simp at h; omega
  | r :: l, k, ha, hb, h => by
    simp only [walk]
    by_cases h1 : k = a
    · subst h1; simp; omega
    · by_cases h2 : k = b
      · subst h2; simp [h1]; omega
      · have h1' : (k == a) = false := by simpa using h1
        have h2' : (k == b) = false := by simpa using h2
        simp only [h1', h2', Bool.false_eq_true, if_false]
        exact walk_spec a b hab l (k + 1) (by omega) (by omega) (by simp at h; omega)

/-! ### sets -/

theorem mem_toSet (a : Nat) : ∀ (l : List Nat), a ∈ toSet l ↔ a ∈ l
  | [] => by simp [toSet]
  | b :: l => by
    simp only [toSet]
    split
    · rename_i h
      have hb : b ∈ l := by simpa using h
      rw [mem_toSet a l]
      constructor
      · intro h; exact List.mem_cons_of_mem _ h
      · intro h; rcases List.mem_cons.1 h with rfl | h
        · exact hb
        · exact h
    · simp [mem_toSet a l]

theorem nodup_toSet : ∀ (l : List Nat), (toSet l).Nodup
  | [] => by simp [toSet]
  | b :: l => by
    simp only [toSet]
    split
    · exact nodup_toSet l
    · rename_i h
      have hb : b ∉ l := by simpa using h
      exact List.nodup_cons.2 ⟨fun hm => hb ((mem_toSet b l).1 hm), nodup_toSet l⟩

theorem select_pairwise (n : Nat) (p : Nat → Bool) : (select n p).Pairwise (· < ·) :=
  List.Pairwise.filter _ List.pairwise_lt_range

theorem mem_select (n : Nat) (p : Nat → Bool) (i : Nat) : i ∈ select n p ↔ i < n ∧ p i = true := by
  simp [select]

/-- KEY: on strictly positioned nodes, sorting by position any enumeration `l'` of a set of valid
node identities gives the strictly increasing index list `s` with the same members -/
theorem sortByPos_eq (nodes : List Rec) (hs : Strict nodes) (s l' : List Nat)
    (hsorted : s.Pairwise (· < ·)) (hvalid : ∀ i ∈ s, i < nodes.length) (hperm : l'.Perm s) :
    sortByPos nodes l' = s := by
  unfold sortByPos
  have hp := (List.mergeSort_perm l' (fun i j => decide (posOf nodes i ≤ posOf nodes j))).trans hperm
  have hsort := List.pairwise_mergeSort (le := fun i j => decide (posOf nodes i ≤ posOf nodes j))
    (by intro a b c; simp only [decide_eq_true_eq]; omega)
    (by intro a b; simp only [Bool.or_eq_true, decide_eq_true_eq]; omega) l'
  refine List.Perm.eq_of_pairwise (le := fun i j => decide (posOf nodes i ≤ posOf nodes j) = true) ?_ hsort ?_ hp
  · intro a b ha hb h1 h2
    have ha' := hvalid a (hp.subset ha)
    have hb' := hvalid b hb
    simp only [decide_eq_true_eq] at h1 h2
    have := (posOf_le_iff nodes hs ha' hb').1 h1
    have := (posOf_le_iff nodes hs hb' ha').1 h2
    omega
  · refine List.Pairwise.imp_of_mem ?_ hsorted
    intro a b ha hb hab
    simp only [decide_eq_true_eq]
    exact Nat.le_of_lt (posOf_lt nodes hs hab (hvalid b hb))

/-- two duplicate-free lists with the same members are permutations of each other -/
theorem perm_of_nodup_mem {l₁ l₂ : List Nat} (h₁ : l₁.Nodup) (h₂ : l₂.Nodup) (h : ∀ a, a ∈ l₁ ↔ a ∈ l₂) :
    l₁.Perm l₂ := (List.perm_ext_iff_of_nodup h₁ h₂).2 h

theorem select_nodup (n : Nat) (p : Nat → Bool) : (select n p).Nodup :=
  (select_pairwise n p).imp (fun h => Nat.ne_of_lt h)

end EPV.Builder

/-
C08 helper lemmas: the loops of the structural sequence functions (counters, flags) equal
the F&O definitions on lists.
-/
import EPV.Lemmas.SeqFunsNum
namespace EPV.Seq
open EPV.Seq.Spec

variable {α : Type}

theorem count_eq_length (xs : List α) : count xs = xs.length := by
  unfold count
  have h : ∀ (n : Nat), xs.foldl (fun n _ => n + 1) n = n + xs.length := by
    induction xs with
    | nil => intro n; rfl
    | cons x xs ih => intro n; simp [List.foldl, ih]; omega
  exact (h 0).trans (by simp)

theorem reverse_eq (xs : List α) : reverse xs = xs.reverse := by
  unfold reverse
  have h : ∀ (acc : List α), xs.foldl (fun acc x => x :: acc) acc = xs.reverse ++ acc := by
    induction xs with
    | nil => intro acc; rfl
    | cons x xs ih => intro acc; simp [List.foldl, ih]
  exact (h []).trans (by simp)

/-! ### remove -/

theorem removeLoop_eq (position : Int) (xs : List α) (pos : Nat) :
    removeLoop position pos xs =
      ((xs.zipIdx pos).filter fun t => decide ((t.2 : Int) ≠ position)).map Prod.fst := by
  induction xs generalizing pos with
  | nil => rfl
  | cons x xs ih =>
    simp only [removeLoop, List.zipIdx_cons, List.filter_cons]
    split <;> simp_all

theorem remove_eq (xs : List α) (position : Int) : remove xs position = Spec.remove xs position := by
  simp [remove, Spec.remove, filterPos, positions, removeLoop_eq]

/-! ### subsequence -/

theorem subseqLoop2_eq (s : D) (xs : List α) (pos : Nat) :
    subseqLoop2 s pos xs =
      ((xs.zipIdx pos).filter fun t => leD s (ofPos t.2)).map Prod.fst := by
  induction xs generalizing pos with
  | nil => rfl
  | cons x xs ih =>
    simp only [subseqLoop2, List.zipIdx_cons, List.filter_cons]
    have h : D.le s (D.ofNat pos) = leD s (ofPos pos) := rfl
    rw [h]
    split <;> simp_all

theorem subseqLoop3_eq (s hi : D) (xs : List α) (pos : Nat) :
    subseqLoop3 s hi pos xs =
      ((xs.zipIdx pos).filter fun t => leD s (ofPos t.2) && ltD (ofPos t.2) hi).map Prod.fst := by
  induction xs generalizing pos with
  | nil => rfl
  | cons x xs ih =>
    simp only [subseqLoop3, List.zipIdx_cons, List.filter_cons]
    have h : D.le s (D.ofNat pos) = leD s (ofPos pos) := rfl
    have h' : D.lt (D.ofNat pos) hi = ltD (ofPos pos) hi := rfl
    rw [h, h']
    split <;> simp_all

theorem subsequence2R_eq (xs : List α) (s : D) : subsequence2R xs s = Spec.subsequence2R xs s := by
  simp [subsequence2R, Spec.subsequence2R, filterPos, positions, subseqLoop2_eq]

theorem subsequence3R_eq (xs : List α) (s l : D) : subsequence3R xs s l = Spec.subsequence3R xs s l := by
  simp [subsequence3R, Spec.subsequence3R, filterPos, positions, subseqLoop3_eq]

theorem subsequence2_eq (xs : List α) (start : D) :
    subsequence2 xs start = Spec.subsequence2 xs start := by
  simp [subsequence2, subsequence2R, Spec.subsequence2, filterPos, positions, subseqLoop2_eq, roundNumber_eq]

theorem subsequence3_eq (xs : List α) (start len : D) :
    subsequence3 xs start len = Spec.subsequence3 xs start len := by
  simp [subsequence3, subsequence3R, Spec.subsequence3, filterPos, positions, subseqLoop3_eq, roundNumber_eq]

/-! ### insert-before -/

theorem insertBeforeLoop_inserted (ins : List α) (insertAt : Int) (xs : List α) (pos : Nat) :
    insertBeforeLoop ins insertAt pos true xs = xs := by
  induction xs generalizing pos with
  | nil => rfl
  | cons x xs ih => simp [insertBeforeLoop, ih]

theorem insertBeforeLoop_eq (ins : List α) (xs : List α) (pos d : Nat) :
    insertBeforeLoop ins ((pos + d : Nat) : Int) pos false xs = xs.take d ++ ins ++ xs.drop d := by
  induction xs generalizing pos d with
  | nil => simp [insertBeforeLoop]
  | cons x xs ih =>
    cases d with
    | zero => simp [insertBeforeLoop, insertBeforeLoop_inserted]
    | succ d =>
      have hne : ¬ ((pos : Int) = ((pos + (d + 1) : Nat) : Int)) := by omega
      have hre : ((pos + (d + 1) : Nat) : Int) = ((pos + 1 + d : Nat) : Int) := by omega
      simp only [insertBeforeLoop, hne, decide_false, Bool.and_false, Bool.false_eq_true, if_false]
      rw [hre, ih]
      simp

theorem insertBefore_eq (xs : List α) (position : Int) (ins : List α) :
    insertBefore xs position ins = Spec.insertBefore xs position ins := by
  unfold insertBefore Spec.insertBefore
  have hat : max 0 (position - 1) = (((0 : Nat) + (max 0 (position - 1)).toNat : Nat) : Int) := by omega
  rw [hat, insertBeforeLoop_eq]
  by_cases h1 : position < 1
  · have : (max 0 (position - 1)).toNat = 0 := by omega
    simp [h1, this]
  · by_cases h2 : position > (xs.length : Int)
    · have hge : xs.length ≤ (max 0 (position - 1)).toNat := by omega
      simp [h1, h2, List.take_of_length_le hge, List.drop_eq_nil_of_le hge]
    · have : (max 0 (position - 1)).toNat = position.toNat - 1 := by omega
      simp [h1, h2, this]

/-! ### head, tail, emptiness, cardinality -/

theorem head_eq (xs : List α) : head xs = Spec.head xs := by
  cases xs <;> simp [head, Spec.head]

theorem tailLoop_succ (xs : List α) (k : Nat) : tailLoop (k + 1) xs = xs := by
  induction xs generalizing k with
  | nil => rfl
  | cons x xs ih => simp [tailLoop, ih]

theorem tail_eq (xs : List α) : tail xs = Spec.tail xs := by
  cases xs with
  | nil => rfl
  | cons x xs => simp [tail, tailLoop, Spec.tail, tailLoop_succ]

theorem isEmpty_eq (xs : List α) : isEmpty xs = decide (xs.length = 0) := by
  cases xs <;> simp [isEmpty]

theorem isExists_eq (xs : List α) : isExists xs = decide (xs.length ≠ 0) := by
  cases xs <;> simp [isExists]

theorem zeroOrOne_eq (xs : List α) : zeroOrOne xs = Spec.zeroOrOne xs := by
  match xs with
  | [] => rfl
  | [_] => rfl
  | _ :: _ :: _ => simp [zeroOrOne, Spec.zeroOrOne]

theorem oneOrMore_eq (xs : List α) : oneOrMore xs = Spec.oneOrMore xs := by
  cases xs <;> simp [oneOrMore, Spec.oneOrMore]

theorem exactlyOne_eq (xs : List α) : exactlyOne xs = Spec.exactlyOne xs := by
  match xs with
  | [] => rfl
  | [_] => rfl
  | _ :: _ :: _ => simp [exactlyOne, Spec.exactlyOne]

/-! ### range -/

theorem rangeLoop_eq (n : Nat) (cur : Int) :
    rangeLoop cur n = (List.range n).map fun (i : Nat) => cur + Int.ofNat i := by
  induction n generalizing cur with
  | zero => rfl
  | succ n ih =>
    rw [rangeLoop, ih, List.range_succ_eq_map]
    simp only [List.map_cons, List.map_map, Int.ofNat_eq_natCast, Int.cast_ofNat_Int, Int.add_zero,
      List.cons.injEq, true_and]
    apply List.map_congr_left
    intro i _
    simp only [Function.comp]
    omega

theorem rangeTo_eq (a b : Int) : rangeTo a b = Spec.rangeTo a b := by
  simp [rangeTo, Spec.rangeTo, rangeLoop_eq]

/-! ### focus -/

theorem focusLoop_eq (size : Nat) (xs : List α) (pos : Nat) :
    focusLoop size pos xs = (xs.zipIdx pos).map fun t => (t.2, size, t.1) := by
  induction xs generalizing pos with
  | nil => rfl
  | cons x xs ih => simp [focusLoop, ih]

theorem selectWithFocus_eq (xs : List α) :
    selectWithFocus xs = (positions xs).map fun t => (t.2, xs.length, t.1) := by
  simp [selectWithFocus, focusLoop_eq, count_eq_length, positions]

end EPV.Seq

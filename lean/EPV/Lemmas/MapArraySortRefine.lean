/-
C15 (phase 5) — the code's stable insertion (`isortBy`) and the specification's selection of the first
minimum (`Spec.selSort`) return the same list for every total preorder; hence array:sort of the code
equals array:sort of F&O.
-/
import EPV.Lemmas.MapArraySortKey
namespace EPV.MapArray

section refine
variable {α : Type}

theorem pickFirst_some (p : α → Bool) (l : List α) (x : α) (rest : List α)
    (h : Spec.pickFirst p l = some (x, rest)) :
    ∃ pre post, l = pre ++ x :: post ∧ rest = pre ++ post ∧ p x = true ∧ ∀ y ∈ pre, p y = false := by
  induction l generalizing rest with
  | nil => simp [Spec.pickFirst] at h
  | cons z zs ih =>
    simp only [Spec.pickFirst] at h
    by_cases hz : p z = true
    · simp only [hz, ↓reduceIte, Option.some.injEq, Prod.mk.injEq] at h
      obtain ⟨rfl, rfl⟩ := h
      exact ⟨[], zs, rfl, rfl, hz, by simp⟩
    · simp only [hz, Bool.false_eq_true, ↓reduceIte] at h
      cases hr : Spec.pickFirst p zs with
      | none => simp [hr] at h
      | some yr =>
        obtain ⟨y, r⟩ := yr
        simp only [hr, Option.map_some, Option.some.injEq, Prod.mk.injEq] at h
        obtain ⟨rfl, rfl⟩ := h
        obtain ⟨pre, post, h1, h2, h3, h4⟩ := ih r hr
        refine ⟨z :: pre, post, by simp [h1], by simp [h2], h3, ?_⟩
        intro w hw
        rcases List.mem_cons.1 hw with rfl | hw
        · simpa using hz
        · exact h4 w hw

theorem pickFirst_isSome (p : α → Bool) (l : List α) (m : α) (hm : m ∈ l) (hp : p m = true) :
    ∃ x rest, Spec.pickFirst p l = some (x, rest) := by
  induction l with
  | nil => cases hm
  | cons z zs ih =>
    simp only [Spec.pickFirst]
    by_cases hz : p z = true
    · exact ⟨z, zs, by simp [hz]⟩
    · rcases List.mem_cons.1 hm with rfl | hm'
      · exact absurd hp hz
      · obtain ⟨x, rest, h⟩ := ih hm'
        exact ⟨x, z :: rest, by simp [hz, h]⟩

variable (le : α → α → Bool)

theorem insertBy_min (x : α) (s : List α) (h : ∀ y ∈ s, le x y = true) : insertBy le x s = x :: s := by
  cases s with
  | nil => rfl
  | cons y ys => simp [insertBy, h y (by simp)]

/-- an element that is minimal and strictly below everything in front of it comes out first -/
theorem isortBy_first_min (pre post : List α) (x : α)
    (hmin : ∀ y ∈ pre ++ post, le x y = true) (hpre : ∀ y ∈ pre, le y x = false) :
    isortBy le (pre ++ x :: post) = x :: isortBy le (pre ++ post) := by
  induction pre with
  | nil =>
    simp only [List.nil_append, isortBy]
    exact insertBy_min le x _ fun y hy => hmin y (by simpa using (isortBy_perm le post).mem_iff.1 hy)
  | cons p ps ih =>
    have := ih (fun y hy => hmin y (by simp at hy ⊢; exact Or.inr hy)) (fun y hy => hpre y (by simp [hy]))
    simp only [List.cons_append, isortBy, this, insertBy, hpre p (by simp), Bool.false_eq_true, ↓reduceIte]

theorem selSort_eq_isortBy (lt : α → α → Bool)
    (htot : ∀ a b, (le a b || le b a) = true)
    (htr : ∀ a b c, le a b = true → le b c = true → le a c = true) :
    ∀ (n : Nat) (l : List α), l.length = n → (∀ a ∈ l, ∀ b ∈ l, lt a b = !le b a) →
      Spec.selSort lt n l = isortBy le l := by
  intro n
  induction n with
  | zero => intro l hl _; cases l with
    | nil => rfl
    | cons _ _ => simp at hl
  | succ n ih =>
    intro l hl hlt
    -- a minimal element exists: the head of the sorted list
    have hperm := isortBy_perm le l
    have hsorted := isortBy_pairwise le htot htr l
    obtain ⟨m, hm, hmmin⟩ : ∃ m ∈ l, ∀ y ∈ l, le m y = true := by
      cases hs : isortBy le l with
      | nil => have := hperm.length_eq; simp [hs, hl] at this
      | cons m tl =>
        rw [hs] at hperm hsorted
        refine ⟨m, hperm.mem_iff.1 (by simp), fun y hy => ?_⟩
        rcases List.mem_cons.1 (hperm.mem_iff.2 hy) with rfl | hy'
        · have := htot y y; simpa using this
        · exact (List.pairwise_cons.1 hsorted).1 y hy'
    have hpm : (l.all fun y => !lt y m) = true := by
      simp only [List.all_eq_true]
      intro y hy
      rw [hlt y hy m hm, hmmin y hy]; rfl
    obtain ⟨x, rest, hpick⟩ := pickFirst_isSome (fun x => l.all fun y => !lt y x) l m hm hpm
    obtain ⟨pre, post, h1, h2, h3, h4⟩ := pickFirst_some _ l x rest hpick
    have hxl : x ∈ l := by rw [h1]; simp
    have hsub : ∀ y, y ∈ pre ++ post → y ∈ l := by
      intro y hy; rw [h1]; simp at hy ⊢; rcases hy with h | h
      · exact Or.inl h
      · exact Or.inr (Or.inr h)
    -- x is minimal
    have hxmin : ∀ y ∈ l, le x y = true := by
      intro y hy
      simp only [List.all_eq_true] at h3
      have := h3 y hy
      rw [hlt y hy x hxl] at this
      simpa using this
    -- everything in front of x is strictly above x
    have hxpre : ∀ y ∈ pre, le y x = false := by
      intro y hy
      have hyl : y ∈ l := by rw [h1]; simp [hy]
      have := h4 y hy
      simp only [List.all_eq_false] at this
      obtain ⟨z, hz, hzy⟩ := this
      rw [hlt z hz y hyl] at hzy
      have hyz : le y z = false := by simpa using hzy
      cases hyx : le y x with
      | false => rfl
      | true => rw [htr y x z hyx (hxmin z hz)] at hyz; cases hyz
    simp only [Spec.selSort, hpick]
    rw [h1, isortBy_first_min le pre post x (fun y hy => hxmin y (hsub y hy)) hxpre, ← h2]
    congr 1
    refine ih rest ?_ ?_
    · have : l.length = rest.length + 1 := by rw [h1, h2]; simp; omega
      omega
    · intro a ha b hb
      exact hlt a (hsub a (h2 ▸ ha)) b (hsub b (h2 ▸ hb))

end refine

/-- the code's array:sort is F&O's array:sort (result or XPTY0004) -/
theorem arrSortPy_eq_spec (kf : KFn) (ms : List (List Key)) :
    arrSortPy kf ms = Spec.arrSort kf ms := by
  simp only [arrSortPy, Spec.arrSort]
  cases hk : sortKeysOf kf ms with
  | none => rfl
  | some keyed =>
    simp only [sortKeyed]
    have hks := sortKeysOf_spec kf ms keyed hk
    by_cases hlen : keyed.length ≤ 1
    · simp [hlen, hks.1]
    · simp only [hlen, ↓reduceIte]
      by_cases hs : sameClass (keyed.map (·.2)) = true
      · simp only [hs, ↓reduceIte]
        have hcc : ∀ a ∈ keyed, ∀ b ∈ keyed, clsCompat a.2 b.2 = true := by
          intro a ha b hb
          simp only [sameClass, List.all_eq_true] at hs
          exact hs a.2 (List.mem_map_of_mem ha) b.2 (List.mem_map_of_mem hb)
        have := selSort_eq_isortBy (fun a b : List Key × List XKey => xLe a.2 b.2)
          (fun a b => Spec.deepLt a.2 b.2) (fun a b => xLe_total a.2 b.2) (fun a b c => xLe_trans)
          keyed.length keyed rfl (fun a ha b hb => deepLt_eq_not_xLe a.2 b.2 (hcc a ha b hb))
        rw [this]
      · simp [hs]

end EPV.MapArray

/-
C10 helper lemmas: hexBinary / base64Binary recognisers.
-/
import EPV.Lemmas.LexicalBin
import EPV.Lemmas.LexicalInt
namespace EPV.LexLemmas
open EPV

theorem isHexDigit_eq (c : Char) : Lex.isHexDigit c = XSD.isHexDigit c := by
  unfold Lex.isHexDigit XSD.isHexDigit
  rw [← isDigit_eq]; rfl

/-- `^([0-9a-fA-F]{2})*$` on a newline-free string = hexOctet* -/
theorem matchHex_eq (s : List Char) (h : '\n' ∉ s) : Lex.matchHex s = XSD.hexLex s := by
  induction s using Lex.matchHex.induct with
  | case1 a b r hab ih =>
    have hr : '\n' ∉ r := fun hm => h (by simp [hm])
    rw [Lex.matchHex, if_pos hab, ih hr]
    simp only [Bool.and_eq_true] at hab
    unfold XSD.hexLex
    simp only [List.length_cons, List.all_cons, ← isHexDigit_eq, hab.1, hab.2, Bool.true_and]
    congr 1
    have : (r.length + 1 + 1) % 2 = r.length % 2 := by omega
    rw [this]
  | case2 a b r hab =>
    rw [Lex.matchHex, if_neg hab]
    unfold XSD.hexLex
    simp only [Lex.atEnd, List.all_cons, ← isHexDigit_eq]
    have : (Lex.isHexDigit a && (Lex.isHexDigit b && r.all XSD.isHexDigit)) = false := by
      cases ha : Lex.isHexDigit a <;> cases hb : Lex.isHexDigit b <;> simp_all
    simp [this]
  | case3 r hr =>
    match r with
    | [] => rfl
    | [c] =>
      have : c ≠ '\n' := fun e => h (by simp [e])
      simp [Lex.matchHex, Lex.atEnd, XSD.hexLex, this]
    | a :: b :: r => exact absurd rfl (hr a b r)

end EPV.LexLemmas

namespace EPV.LexLemmas
open EPV

/-! ### the collapsed string has no space at either end -/

theorem getLast?_dropWhile {α} (p : α → Bool) (l : List α) (h : l.dropWhile p ≠ []) :
    (l.dropWhile p).getLast? = l.getLast? := by
  induction l with
  | nil => simp at h
  | cons a t ih =>
    by_cases ha : p a = true
    · rw [List.dropWhile_cons_of_pos ha] at h ⊢
      rw [ih h]
      cases t with
      | nil => simp at h
      | cons b u => simp [List.getLast?_cons_cons]
    · rw [List.dropWhile_cons_of_neg ha]

theorem head?_dropWhile_false {α} (p : α → Bool) (l : List α) (c : α)
    (h : (l.dropWhile p).head? = some c) : p c = false := by
  cases hl : l.dropWhile p with
  | nil => rw [hl] at h; cases h
  | cons a t =>
    rw [hl] at h
    simp only [List.head?_cons, Option.some.injEq] at h
    subst h
    have := List.head_dropWhile_not p (l := l) (by rw [hl]; simp)
    simp only [hl, List.head_cons] at this
    simpa using this

theorem stripSp_ends (x : List Char) :
    (∀ c, (Lex.stripSp x).head? = some c → c ≠ ' ') ∧ (∀ c, (Lex.stripSp x).getLast? = some c → c ≠ ' ') := by
  unfold Lex.stripSp
  constructor
  · intro c hc
    rw [List.head?_reverse] at hc
    by_cases hB : ((x.dropWhile (· == ' ')).reverse.dropWhile (· == ' ')) = []
    · rw [hB] at hc; cases hc
    · rw [getLast?_dropWhile _ _ hB, List.getLast?_reverse] at hc
      have := head?_dropWhile_false _ _ _ hc
      simpa using this
  · intro c hc
    rw [List.getLast?_reverse] at hc
    have := head?_dropWhile_false _ _ _ hc
    simpa using this

theorem dropWhile_eq_self_of_head {α} (p : α → Bool) (l : List α)
    (h : ∀ c, l.head? = some c → p c = false) : l.dropWhile p = l := by
  cases l with
  | nil => rfl
  | cons a t =>
    have := h a rfl
    rw [List.dropWhile_cons_of_neg (by simp [this])]

/-- on the collapsed string `value.strip(' \\t\\n\\r')` is the identity -/
theorem pyStrip_collapse (s : List Char) : Lex.pyStrip (Lex.collapse s) = Lex.collapse s := by
  have hends := stripSp_ends (Lex.subWhite false s)
  have hchar : ∀ c ∈ Lex.collapse s, c ≠ ' ' → Lex.isPyStripWhite c = false := by
    intro c hc hne
    unfold Lex.isPyStripWhite
    rcases collapse_no_white s c hc with h | h
    · exact absurd h hne
    · exact h
  unfold Lex.pyStrip
  have h1 : (Lex.collapse s).dropWhile Lex.isPyStripWhite = Lex.collapse s := by
    apply dropWhile_eq_self_of_head
    intro c hc
    have hm : c ∈ Lex.collapse s := List.mem_of_mem_head? hc
    exact hchar c hm (hends.1 c hc)
  rw [h1]
  have h2 : (Lex.collapse s).reverse.dropWhile Lex.isPyStripWhite = (Lex.collapse s).reverse := by
    apply dropWhile_eq_self_of_head
    intro c hc
    rw [List.head?_reverse] at hc
    have hm : c ∈ Lex.collapse s := List.mem_of_getLast? hc
    exact hchar c hm (hends.2 c hc)
  rw [h2, List.reverse_reverse]

theorem hexDigit_ascii_nonspace (c : Char) (h : XSD.isHexDigit c = true) :
    Lex.isAscii c = true ∧ c ≠ ' ' ∧ c ≠ '\n' := by
  simp only [XSD.isHexDigit, XSD.isDigit, Char.le_def, Bool.or_eq_true, Bool.and_eq_true,
    decide_eq_true_eq, UInt32.le_iff_toNat_le, Char.reduceVal, UInt32.reduceToNat] at h
  have hb : c.toNat < 128 ∧ c.toNat ≠ 32 ∧ c.toNat ≠ 10 := by
    show c.val.toNat < 128 ∧ c.val.toNat ≠ 32 ∧ c.val.toNat ≠ 10
    omega
  refine ⟨by unfold Lex.isAscii; exact decide_eq_true hb.1, ?_, ?_⟩
  · intro e; subst e; exact hb.2.1 (by decide)
  · intro e; subst e; exact hb.2.2 (by decide)

/-- **hexBinary constructor** succeeds exactly when the collapsed string is hexOctet*, and then stores
the collapsed string itself -/
theorem hexCtor_eq (s : List Char) :
    Lex.hexCtor s = if XSD.hexLex (Lex.collapse s) then .ok (Lex.collapse s) else .error .value := by
  unfold Lex.hexCtor Lex.hexIsValid
  simp only
  by_cases hl : XSD.hexLex (Lex.collapse s) = true
  · -- all characters are hex digits
    have hall : ∀ c ∈ Lex.collapse s, XSD.isHexDigit c = true := by
      unfold XSD.hexLex at hl
      simp only [Bool.and_eq_true, List.all_eq_true] at hl
      exact hl.2
    have h160 : ∀ c ∈ Lex.collapse s, c.toNat = 160 → False := by
      intro c hc e
      have := (hexDigit_ascii_nonspace c (hall c hc)).1
      simp only [Lex.isAscii, decide_eq_true_eq] at this
      omega
    have hfil : (Lex.collapse s).filter (· != ' ') = Lex.collapse s := by
      rw [List.filter_eq_self]
      intro c hc
      simpa using (hexDigit_ascii_nonspace c (hall c hc)).2.1
    have hasc : ((Lex.collapse s).all Lex.isAscii) = true := by
      rw [List.all_eq_true]; intro c hc; exact (hexDigit_ascii_nonspace c (hall c hc)).1
    rw [pyStrip_collapse s, matchHex_eq _ (collapse_no_nl s), hl, hfil, hasc]
    rfl
  · simp only [hl, Bool.false_eq_true, ↓reduceIte]
    by_cases hm : Lex.matchHex (Lex.pyStrip (Lex.collapse s)) = true
    · simp only [hm, ↓reduceIte]
      by_cases hasc : ((Lex.collapse s).filter (· != ' ')).all Lex.isAscii = true
      · exfalso
        have h160 : ∀ c ∈ Lex.collapse s, c.toNat = 160 → False := by
          intro c hc e
          have hne : c ≠ ' ' := by intro e2; subst e2; revert e; decide
          have hcf : c ∈ (Lex.collapse s).filter (· != ' ') := by
            rw [List.mem_filter]; exact ⟨hc, by simpa using hne⟩
          rw [List.all_eq_true] at hasc
          have := hasc c hcf
          simp only [Lex.isAscii, decide_eq_true_eq] at this
          omega
        rw [pyStrip_collapse s, matchHex_eq _ (collapse_no_nl s)] at hm
        exact hl hm
      · simp [hasc]
    · simp [hm]

end EPV.LexLemmas

namespace EPV.LexLemmas
open EPV

/-! ### base64Binary -/

theorem isB64_eq (c : Char) : Lex.isB64 c = XSD.isB64Char c := by
  unfold Lex.isB64 XSD.isB64Char
  rw [← isDigit_eq]; rfl

/-- the spec's formulation on a space-free string -/
def b64P (u : List Char) : Bool :=
  let n := u.length
  n % 4 == 0 &&
  (n == 0 ||
    let body := u.take (n - 2)
    let c := u.getD (n - 2) ' '
    let d := u.getD (n - 1) ' '
    body.all XSD.isB64Char &&
    ((XSD.isB64Char c && XSD.isB64Char d) ||
     (d == '=' && "AEIMQUYcgkosw048".toList.contains c) ||
     (d == '=' && c == '=' && "AQgw".toList.contains (u.getD (n - 3) ' '))))

theorem base64Lex_eq (s : List Char) : XSD.base64Lex s = b64P (s.filter (· != ' ')) := rfl

theorem matchB64_len (u : List Char) (h : Lex.matchB64 u = true) : u.length % 4 = 0 := by
  induction u using Lex.matchB64.induct with
  | case1 => rfl
  | case2 a b c d => simp
  | case3 a b c d r hr ih =>
    rw [Lex.matchB64] at h
    · simp only [Bool.and_eq_true] at h
      have := ih h.2
      simp only [List.length_cons]; omega
    · exact hr
  | case4 u h1 h2 h3 =>
    rw [Lex.matchB64] at h
    · cases h
    · exact h1
    · exact h2
    · exact h3

theorem b64P_cons4 (a b c d : Char) (r : List Char) (hr : 4 ≤ r.length) :
    b64P (a :: b :: c :: d :: r) =
      (XSD.isB64Char a && XSD.isB64Char b && XSD.isB64Char c && XSD.isB64Char d && b64P r) := by
  unfold b64P
  simp only [List.length_cons]
  have e1 : r.length + 1 + 1 + 1 + 1 - 2 = (r.length - 2) + 1 + 1 + 1 + 1 := by omega
  have e2 : r.length + 1 + 1 + 1 + 1 - 1 = (r.length - 1) + 1 + 1 + 1 + 1 := by omega
  have e3 : r.length + 1 + 1 + 1 + 1 - 3 = (r.length - 3) + 1 + 1 + 1 + 1 := by omega
  have e4 : (r.length + 1 + 1 + 1 + 1) % 4 = r.length % 4 := by omega
  have n0 : (r.length + 1 + 1 + 1 + 1 == 0) = false := by simp
  have n1 : (r.length == 0) = false := by
    rw [beq_eq_false_iff_ne]; omega
  rw [e1, e2, e3, e4, n0, n1]
  simp only [List.take_succ_cons, List.getD_cons_succ, List.all_cons, Bool.false_or]
  cases XSD.isB64Char a <;> cases XSD.isB64Char b <;> cases XSD.isB64Char c <;> cases XSD.isB64Char d <;>
    simp

/-- the base64 pattern (full match on the space-free string) = the XSD lexical space -/
theorem matchB64_eq (u : List Char) : Lex.matchB64 u = b64P u := by
  induction u using Lex.matchB64.induct with
  | case1 => rfl
  | case2 a b c d =>
    simp only [Lex.matchB64, b64P, isB64_eq, Lex.isB16, Lex.isB04]
    simp only [List.length_cons, List.length_nil, List.take_succ_cons, List.take_zero, List.all_cons,
      List.all_nil, List.getD_cons_succ, List.getD_cons_zero]
    cases XSD.isB64Char a <;> cases XSD.isB64Char b <;> cases XSD.isB64Char c <;> cases XSD.isB64Char d <;>
      cases (d == '=') <;> cases (c == '=') <;> simp
  | case3 a b c d r hr ih =>
    have hrne : r ≠ [] := fun e => hr (by rw [e])
    rw [Lex.matchB64]
    · by_cases hlen : r.length % 4 = 0
      · have h4 : 4 ≤ r.length := by
          have := List.length_pos_iff.mpr hrne; omega
        rw [b64P_cons4 a b c d r h4, ih, isB64_eq, isB64_eq, isB64_eq, isB64_eq]
      · have hm : Lex.matchB64 r = false := by
          cases hh : Lex.matchB64 r with
          | false => rfl
          | true => exact absurd (matchB64_len r hh) hlen
        have hp : b64P (a :: b :: c :: d :: r) = false := by
          unfold b64P
          simp only [List.length_cons]
          have : ((r.length + 1 + 1 + 1 + 1) % 4 == 0) = false := by
            rw [beq_eq_false_iff_ne]; omega
          rw [this]; rfl
        rw [hm, hp]; simp
    · exact hr
  | case4 u h1 h2 h3 =>
    rw [Lex.matchB64]
    · -- length 1, 2, 3 or ≥ 5 with …: not a multiple of four is the only possibility here
      match u with
      | [] => exact absurd rfl h1
      | [_] => rfl
      | [_, _] => rfl
      | [_, _, _] => rfl
      | [a, b, c, d] => exact absurd rfl (h2 a b c d)
      | a :: b :: c :: d :: e :: r => exact (h3 a b c d (e :: r) (by simp)).elim
    · exact h1
    · exact h2
    · exact h3

/-- **base64Binary constructor**: succeeds exactly when the collapsed string is in the XSD lexical space,
and stores it without its spaces -/
theorem b64Ctor_eq (s : List Char) :
    Lex.b64Ctor s =
      if XSD.base64Lex (Lex.collapse s) then .ok ((Lex.collapse s).filter (· != ' ')) else .error .value := by
  unfold Lex.b64Ctor Lex.b64IsValid
  simp only
  rw [matchB64_eq, filter_collapse_collapse, ← base64Lex_eq]

end EPV.LexLemmas

/-
C10 helper lemmas: hexBinary / base64Binary recognisers.
-/
import EPV.Lemmas.LexicalBin
import EPV.Lemmas.LexicalInt
namespace EPV.LexLemmas
open EPV

theorem isHexDigit_eq (c : Char) : Lex.isHexDigit c = XSD.isHexDigit c := by
  unfold Lex.isHexDigit XSD.isHexDigit
  rw [← isDigit_eq]; rfl

/-- `^([0-9a-fA-F]{2})*$` on a newline-free string = hexOctet* -/
theorem matchHex_eq (s : List Char) (h : '\n' ∉ s) : Lex.matchHex s = XSD.hexLex s := by
  induction s using Lex.matchHex.induct with
  | case1 a b r hab ih =>
    have hr : '\n' ∉ r := fun hm => h (by simp [hm])
    rw [Lex.matchHex, if_pos hab, ih hr]
    simp only [Bool.and_eq_true] at hab
    unfold XSD.hexLex
    simp only [List.length_cons, List.all_cons, ← isHexDigit_eq, hab.1, hab.2, Bool.true_and]
    congr 1
    have : (r.length + 1 + 1) % 2 = r.length % 2 := by omega
    rw [this]
  | case2 a b r hab =>
    rw [Lex.matchHex, if_neg hab]
    unfold XSD.hexLex
    simp only [Lex.atEnd, List.all_cons, ← isHexDigit_eq]
    have : (Lex.isHexDigit a && (Lex.isHexDigit b && r.all XSD.isHexDigit)) = false := by
      cases ha : Lex.isHexDigit a <;> cases hb : Lex.isHexDigit b <;> simp_all
    simp [this]
  | case3 r hr =>
    match r with
    | [] => rfl
    | [c] =>
      have : c ≠ '\n' := fun e => h (by simp [e])
      simp [Lex.matchHex, Lex.atEnd, XSD.hexLex, this]
    | a :: b :: r => exact absurd rfl (hr a b r)

end EPV.LexLemmas

/-
C06: the XPath 1.0 parser — doubles and strings (converted with number()) against XPath 1.0 arithmetic;
kernel-checked witnesses for the exact-literal finding F06v and the lexical finding F06s.
-/
import EPV.Lemmas.ArithMixed
open EPV.FOArith
namespace EPV.Arith

theorem isPySpace_eq : isPySpace = isXmlSpace := by funext c; rfl

theorem scanMantissa_nondigit (c : Char) (t : List Char) (h1 : c.isDigit = false) (h2 : c ≠ '.') :
    scanMantissa (c :: t) = none := by
  unfold scanMantissa
  have hs : (c :: t).span Char.isDigit = ([], c :: t) := by simp [List.span, List.span.loop, h1]
  simp only [hs]
  split
  · rename_i r' heq
    injection heq with h _
    exact absurd h h2
  · simp

theorem scanMantissa_nil : scanMantissa [] = none := by
  simp [scanMantissa, List.span, List.span.loop]

theorem splitMinus_minus (t : List Char) : splitMinus ('-' :: t) = (true, t) := rfl
theorem splitSign_minus (t : List Char) : splitSign ('-' :: t) = (true, t) := rfl
theorem splitMinus_other (c : Char) (t : List Char) (h : c ≠ '-') : splitMinus (c :: t) = (false, c :: t) := by
  unfold splitMinus
  split
  · rename_i t' heq; injection heq with e _; exact absurd e h
  · rfl
theorem splitSign_other (c : Char) (t : List Char) (h : c ≠ '-') (h2 : c ≠ '+') : splitSign (c :: t) = (false, c :: t) := by
  unfold splitSign
  split
  · rename_i t' heq; injection heq with e _; exact absurd e h
  · rename_i t' heq; injection heq with e _; exact absurd e h2
  · rfl

theorem body_eq (R : Rounding) (neg : Bool) (m : Option (List Char × List Char × List Char)) :
    (if matchesBody m = true then getDoubleBody R neg m else Dbl.nan) = number10Body R neg m := by
  rcases m with _ | ⟨i, f, rest⟩
  · simp [matchesBody, number10Body]
  · cases rest with
    | nil => simp [matchesBody, number10Body, getDoubleBody, scanExp]
    | cons x xs => simp [matchesBody, number10Body]

theorem matchesBody_some (m : Option (List Char × List Char × List Char)) (h : matchesBody m = true) :
    m ≠ none := by
  intro e; subst e; simp [matchesBody] at h

/-- the string→number conversion of the 1.0 parser (`XPATH1_NUMBER_PATTERN` then `get_double`) IS XPath 1.0
number(), for every string -/
theorem pyNumber_eq_number10 (R : Rounding) (cs : List Char) : pyNumber R cs = number10 R cs := by
  unfold pyNumber matches10 getDouble number10
  rw [isPySpace_eq]
  generalize stripWith isXmlSpace cs = s
  simp only []
  by_cases hmb : matchesBody (scanMantissa (splitMinus s).2) = true
  · rw [if_pos hmb]
    have hsome := matchesBody_some _ hmb
    cases s with
    | nil => simp [splitMinus, scanMantissa_nil] at hsome
    | cons c t =>
      by_cases hm : c = '-'
      · subst hm
        rw [splitMinus_minus] at hmb hsome ⊢
        have hne : t ≠ ['I', 'N', 'F'] := by
          intro e; rw [e] at hsome
          exact hsome (scanMantissa_nondigit 'I' _ (by decide) (by decide))
        have n1 : ('-' :: t) ≠ ['I', 'N', 'F'] := by intro e; injection e with e1 _; revert e1; decide
        have n2 : ('-' :: t) ≠ ['-', 'I', 'N', 'F'] := by intro e; injection e with _ e2; exact hne e2
        have n3 : ('-' :: t) ≠ ['N', 'a', 'N'] := by intro e; injection e with e1 _; revert e1; decide
        rw [if_neg n1, if_neg n2, if_neg n3, splitSign_minus]
        have := body_eq R true (scanMantissa t)
        rw [if_pos hmb] at this
        exact this
      · rw [splitMinus_other c t hm] at hmb hsome ⊢
        have hd : c.isDigit = true ∨ c = '.' := by
          by_cases h1 : c.isDigit = true
          · exact Or.inl h1
          · by_cases h2 : c = '.'
            · exact Or.inr h2
            · have h1' : c.isDigit = false := by simpa using h1
              exact absurd (scanMantissa_nondigit c t h1' h2) hsome
        have n1 : (c :: t) ≠ ['I', 'N', 'F'] := by
          intro e; injection e with e1 _; subst e1; rcases hd with h | h <;> revert h <;> decide
        have n2 : (c :: t) ≠ ['-', 'I', 'N', 'F'] := by intro e; injection e with e1 _; exact hm e1
        have n3 : (c :: t) ≠ ['N', 'a', 'N'] := by
          intro e; injection e with e1 _; subst e1; rcases hd with h | h <;> revert h <;> decide
        have hplus : c ≠ '+' := by
          intro e; subst e; rcases hd with h | h <;> revert h <;> decide
        rw [if_neg n1, if_neg n2, if_neg n3, splitSign_other c t hm hplus]
        have := body_eq R false (scanMantissa (c :: t))
        rw [if_pos hmb] at this
        exact this
  · rw [if_neg hmb]
    have := body_eq R (splitMinus s).1 (scanMantissa (splitMinus s).2)
    rw [if_neg hmb] at this
    exact this


/-- the operand is a double or a string (not an integer/decimal literal) -/
def isDblOpnd : Opnd → Bool
  | .num (.dbl _) => true
  | .str _ => true
  | _ => false

/-- what the operand is converted to by the implementation -/
def opndDbl (R : Rounding) : Opnd → Dbl
  | .num (.dbl d) => d
  | .str cs => pyNumber R cs
  | _ => .nan

theorem conv10_dbl (R : Rounding) (a : Opnd) (h : isDblOpnd a = true) : conv10 R a = .dbl (opndDbl R a) := by
  cases a with
  | num n => cases n <;> simp_all [isDblOpnd, conv10, opndDbl]
  | str cs => rfl

theorem spec10_dbl (R : Rounding) (a : Opnd) (h : isDblOpnd a = true) :
    (absOpnd a).toDbl R = opndDbl R a := by
  cases a with
  | num n => cases n <;> simp_all [isDblOpnd, absOpnd, Opnd10.toDbl, opndDbl]
  | str cs => simp [absOpnd, Opnd10.toDbl, opndDbl, pyNumber_eq_number10]

/-- XPath 1.0 arithmetic on double and string operands — strings converted with number(), then IEEE
arithmetic — for `+ - * div mod`, ALL doubles and ALL strings. -/
theorem v10_ops_eq_spec10 (R : Rounding) (op : BinOp) (hop : op ≠ .idiv) (a b : Opnd)
    (ha : isDblOpnd a = true) (hb : isDblOpnd b = true) (hw : (opndDbl R a).wf) :
    (model10Bin R op a b).map absNum = spec10Bin R op (absOpnd a) (absOpnd b) := by
  unfold model10Bin spec10Bin
  rw [conv10_dbl R a ha, conv10_dbl R b hb, spec10_dbl R a ha, spec10_dbl R b hb]
  cases op with
  | add => exact (addsubmul_dbl_eq_spec R _ _).1
  | sub => exact (addsubmul_dbl_eq_spec R _ _).2.1
  | mul => exact (addsubmul_dbl_eq_spec R _ _).2.2
  | div => exact div_dbl_eq_spec R .v10 _ _ hw
  | idiv => exact absurd rfl hop
  | mod => exact mod_dbl_eq_spec R .v10 _ _

/-- unary minus, floor, ceiling, round of XPath 1.0 on a double or string operand -/
theorem v10_unops_eq_spec10 (R : Rounding) (op : UnOp) (hop : op = .neg ∨ op = .floor ∨ op = .ceiling ∨ op = .round 0)
    (a : Opnd) (ha : isDblOpnd a = true)
    (hk : trigF06p op (.dbl (opndDbl R a)) = false) :
    absNum (model10Un R op a) = spec10Un R op (absOpnd a) := by
  unfold spec10Un
  rw [spec10_dbl R a ha]
  rcases hop with rfl | rfl | rfl | rfl
  · simp only [model10Un, conv10_dbl R a ha]; rfl
  · simp only [model10Un, conv10_dbl R a ha, toDbl10, modelUn]
    show XVal.double (fnFloorCeil.go R false _) = _
    rw [floorceil_dbl_eq_spec]; rfl
  · simp only [model10Un, conv10_dbl R a ha, toDbl10, modelUn]
    show XVal.double (fnFloorCeil.go R true _) = _
    rw [floorceil_dbl_eq_spec]; rfl
  · simp only [model10Un, conv10_dbl R a ha, toDbl10, modelUn]
    simp only [true_or, if_true, fnRound1]
    rw [round_dbl_eq_spec R _ 0 hk]; rfl

/-- F06v witnesses (kernel-checked): with integer/decimal literals the 1.0 parser computes exactly:
`10000000000000000000001 + 0` stays exact, XPath 1.0 (IEEE double) says 1e22; `5 mod 0` raises FOAR0001,
XPath 1.0 says NaN -/
theorem v10_exact_literals_fail :
    trigF06v_bin ieee .add (.num (.int 10000000000000000000001)) (.num (.int 0)) = true ∧
    model10Bin ieee .add (.num (.int 10000000000000000000001)) (.num (.int 0)) = .ok (.int 10000000000000000000001) ∧
    spec10Bin ieee .add (.int 10000000000000000000001) (.int 0) = .ok (.double (.fin 10000000000000000000000)) ∧
    trigF06v_bin ieee .mod (.num (.int 5)) (.num (.int 0)) = true ∧
    model10Bin ieee .mod (.num (.int 5)) (.num (.int 0)) = .error .FOAR0001 ∧
    spec10Bin ieee .mod (.int 5) (.int 0) = .ok (.double .nan) := by
  refine ⟨by decide +kernel, by decide +kernel, by decide +kernel, by decide +kernel, by decide +kernel,
    by decide +kernel⟩

/-- tests (literals): `' 3.5 ' div '-.5'` = -7; `'1e3'`, `'+3'`, `'INF'` are NaN as in XPath 1.0 -/
example : model10Bin ieee .div (.str [' ', '3', '.', '5', ' ']) (.str ['-', '.', '5']) = .ok (.dbl (.fin (-7))) ∧
    pyNumber ieee ['1', 'e', '3'] = .nan ∧ pyNumber ieee ['+', '3'] = .nan ∧ pyNumber ieee ['I', 'N', 'F'] = .nan := by
  refine ⟨by decide +kernel, by decide +kernel, by decide +kernel, by decide +kernel⟩

end EPV.Arith

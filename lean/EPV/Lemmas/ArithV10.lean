/-
C06: the XPath 1.0 parser — doubles and strings (converted with number()) against XPath 1.0 arithmetic;
kernel-checked witnesses for the exact-literal finding F06v and the lexical finding F06s.
-/
import EPV.Lemmas.ArithMixed
open EPV.FOArith
namespace EPV.Arith

/-- the operand is a double or a string (not an integer/decimal literal) -/
def isDblOpnd : Opnd → Bool
  | .num (.dbl _) => true
  | .str _ => true
  | _ => false

/-- what the operand is converted to by the implementation -/
def opndDbl (R : Rounding) : Opnd → Dbl
  | .num (.dbl d) => d
  | .str cs => pyNumber R cs
  | _ => .nan

theorem conv10_dbl (R : Rounding) (a : Opnd) (h : isDblOpnd a = true) : conv10 R a = .dbl (opndDbl R a) := by
  cases a with
  | num n => cases n <;> simp_all [isDblOpnd, conv10, opndDbl]
  | str cs => rfl

theorem spec10_dbl (R : Rounding) (a : Opnd) (h : isDblOpnd a = true) (hs : trigF06s R a = false) :
    (absOpnd a).toDbl R = opndDbl R a := by
  cases a with
  | num n => cases n <;> simp_all [isDblOpnd, absOpnd, Opnd10.toDbl, opndDbl]
  | str cs =>
    simp only [trigF06s, Bool.not_eq_false', beq_iff_eq] at hs
    simp [absOpnd, Opnd10.toDbl, opndDbl, hs]

/-- PARTIAL (F06s, F06x): XPath 1.0 arithmetic on double and string operands — strings converted with
number(), then IEEE arithmetic — for `+ - * div mod`, all doubles and all strings on which the two
string→number conversions agree. -/
theorem v10_ops_eq_spec10 (R : Rounding) (op : BinOp) (hop : op ≠ .idiv) (a b : Opnd)
    (ha : isDblOpnd a = true) (hb : isDblOpnd b = true)
    (hsa : trigF06s R a = false) (hsb : trigF06s R b = false)
    (hw : (opndDbl R a).wf)
    (hx : trigF06x R .v10 op (.dbl (opndDbl R a)) (.dbl (opndDbl R b)) = false) :
    (model10Bin R op a b).map absNum = spec10Bin R op (absOpnd a) (absOpnd b) := by
  unfold model10Bin spec10Bin
  rw [conv10_dbl R a ha, conv10_dbl R b hb, spec10_dbl R a ha hsa, spec10_dbl R b hb hsb]
  cases op with
  | add => exact (addsubmul_dbl_eq_spec R _ _).1
  | sub => exact (addsubmul_dbl_eq_spec R _ _).2.1
  | mul => exact (addsubmul_dbl_eq_spec R _ _).2.2
  | div => exact div_dbl_eq_spec R .v10 _ _ hw
  | idiv => exact absurd rfl hop
  | mod => exact mod_dbl_eq_spec_partial R .v10 _ _ hx

/-- unary minus, floor, ceiling, round of XPath 1.0 on a double or string operand -/
theorem v10_unops_eq_spec10 (R : Rounding) (op : UnOp) (hop : op = .neg ∨ op = .floor ∨ op = .ceiling ∨ op = .round 0)
    (a : Opnd) (ha : isDblOpnd a = true) (hsa : trigF06s R a = false)
    (hk : trigF06p op (.dbl (opndDbl R a)) = false) :
    absNum (model10Un R op a) = spec10Un R op (absOpnd a) := by
  unfold spec10Un
  rw [spec10_dbl R a ha hsa]
  rcases hop with rfl | rfl | rfl | rfl
  · simp only [model10Un, conv10_dbl R a ha]; rfl
  · simp only [model10Un, conv10_dbl R a ha, toDbl10, modelUn]
    show XVal.double (fnFloorCeil.go R false _) = _
    rw [floorceil_dbl_eq_spec]; rfl
  · simp only [model10Un, conv10_dbl R a ha, toDbl10, modelUn]
    show XVal.double (fnFloorCeil.go R true _) = _
    rw [floorceil_dbl_eq_spec]; rfl
  · simp only [model10Un, conv10_dbl R a ha, toDbl10, modelUn]
    simp only [true_or, if_true, fnRound1]
    rw [round_dbl_eq_spec R _ 0 hk]; rfl

/-- F06v witnesses (kernel-checked): with integer/decimal literals the 1.0 parser computes exactly:
`10000000000000000000001 + 0` stays exact, XPath 1.0 (IEEE double) says 1e22; `5 mod 0` raises FOAR0001,
XPath 1.0 says NaN -/
theorem v10_exact_literals_fail :
    trigF06v_bin ieee .add (.num (.int 10000000000000000000001)) (.num (.int 0)) = true ∧
    model10Bin ieee .add (.num (.int 10000000000000000000001)) (.num (.int 0)) = .ok (.int 10000000000000000000001) ∧
    spec10Bin ieee .add (.int 10000000000000000000001) (.int 0) = .ok (.double (.fin 10000000000000000000000)) ∧
    trigF06v_bin ieee .mod (.num (.int 5)) (.num (.int 0)) = true ∧
    model10Bin ieee .mod (.num (.int 5)) (.num (.int 0)) = .error .FOAR0001 ∧
    spec10Bin ieee .mod (.int 5) (.int 0) = .ok (.double .nan) := by
  refine ⟨by decide +kernel, by decide +kernel, by decide +kernel, by decide +kernel, by decide +kernel,
    by decide +kernel⟩

/-- F06s witness: `'1e3'` is 1000 for the implementation, NaN for XPath 1.0 number() -/
theorem v10_string_exponent_fails :
    trigF06s ieee (.str ['1', 'e', '3']) = true ∧ pyNumber ieee ['1', 'e', '3'] = .fin 1000 ∧
    number10 ieee ['1', 'e', '3'] = .nan := by
  refine ⟨by decide +kernel, by decide +kernel, by decide +kernel⟩

/-- the hypotheses of `v10_ops_eq_spec10` are satisfiable: `' 3.5 ' div '-.5'` = -7 -/
example : trigF06s ieee (.str [' ', '3', '.', '5', ' ']) = false ∧ trigF06s ieee (.str ['-', '.', '5']) = false ∧
    model10Bin ieee .div (.str [' ', '3', '.', '5', ' ']) (.str ['-', '.', '5']) = .ok (.dbl (.fin (-7))) := by
  refine ⟨by decide +kernel, by decide +kernel, by decide +kernel⟩

end EPV.Arith

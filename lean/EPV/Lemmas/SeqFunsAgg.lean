/-
C08 helper lemmas: aggregates (sum, avg, min, max), value comparison, arithmetic, and the
function tables `applyFn1/2/3`.
-/
import EPV.Lemmas.SeqFunsAtoms
namespace EPV.Seq
open EPV.Seq.Spec

/-! ### kinds -/

theorem outside_eq (s : Seq) : s.any (fun a => a.isNode || a.isUntyped) = outsideAgg s := by
  unfold outsideAgg; congr 1; funext a; cases a <;> rfl

theorem kind_num_of (a : Atom) (h : (a.isNode || a.isUntyped) = false) :
    (kind a == Kind.num) = (!a.isBool && !a.isStr) := by
  cases a <;> simp_all [kind, Atom.isBool, Atom.isStr, Atom.isNode, Atom.isUntyped]

theorem kind_str_of (a : Atom) (h : (a.isNode || a.isUntyped) = false) :
    (kind a == Kind.str) = a.isStr := by
  cases a <;> simp_all [kind, Atom.isStr, Atom.isNode, Atom.isUntyped]

theorem outside_mem (s : Seq) (h : outsideAgg s = false) : ∀ x ∈ s, (x.isNode || x.isUntyped) = false := by
  rw [← outside_eq] at h
  exact fun x hx => List.any_eq_false.mp h x hx |> fun h' => by simpa using h'

theorem allKind_num (s : Seq) (h : outsideAgg s = false) :
    allKind .num s = (!s.any Atom.isBool && !s.any Atom.isStr) := by
  have hm := outside_mem s h
  clear h
  induction s with
  | nil => rfl
  | cons a s ih =>
    have ha := hm a List.mem_cons_self
    have hs := ih (fun x hx => hm x (List.mem_cons_of_mem _ hx))
    unfold allKind at hs ⊢
    rw [List.all_cons, List.any_cons, List.any_cons, hs, kind_num_of a ha]
    cases a.isBool <;> cases a.isStr <;> cases s.any Atom.isBool <;> cases s.any Atom.isStr <;> first | rfl | done

theorem allKind_str (s : Seq) (h : outsideAgg s = false) : allKind .str s = s.all Atom.isStr := by
  have hm := outside_mem s h
  clear h
  induction s with
  | nil => rfl
  | cons a s ih =>
    have ha := hm a List.mem_cons_self
    have hs := ih (fun x hx => hm x (List.mem_cons_of_mem _ hx))
    unfold allKind at hs ⊢
    rw [List.all_cons, List.all_cons, hs, kind_str_of a ha]

theorem allKind_bool (s : Seq) : allKind .bool s = s.all Atom.isBool := by
  unfold allKind; congr 1; funext a; cases a <;> simp [kind, Atom.isBool]

theorem allInt_eq (s : Seq) : allInt s = s.all Atom.isInt := by
  unfold allInt; congr 1

theorem anyDouble_eq (s : Seq) : anyDouble s = s.any Atom.isDbl := by
  unfold anyDouble; congr 1

theorem any_nan_eq (l : Seq) : l.any Atom.isNaN = l.any (· == Atom.dbl .nan) := by
  congr 1; funext a
  cases a with
  | dbl d => cases d <;> simp [Atom.isNaN]
  | _ => simp [Atom.isNaN]

theorem is_dbl_of (a : Atom) (h1 : (a.isNode || a.isUntyped) = false) (h2 : a.isBool = false)
    (h3 : a.isStr = false) (h4 : (a.isInt || a.isDec) = false) : a.isDbl = true := by
  cases a <;> simp_all [Atom.isBool, Atom.isStr, Atom.isInt, Atom.isDec, Atom.isDbl, Atom.isNode, Atom.isUntyped]

/-- no boolean, no string, nothing outside: not all integer / decimal means some double -/
theorem has_double (s : Seq) (ho : outsideAgg s = false) (hb : s.any Atom.isBool = false)
    (hs : s.any Atom.isStr = false) (hd : s.all (fun a => a.isInt || a.isDec) = false) :
    s.any Atom.isDbl = true := by
  obtain ⟨x, hx, hxd⟩ := List.all_eq_false.mp hd
  refine List.any_eq_true.mpr ⟨x, hx, ?_⟩
  exact is_dbl_of x (outside_mem s ho x hx) (List.any_eq_false.mp hb x hx |> fun h => by simpa using h)
    (List.any_eq_false.mp hs x hx |> fun h => by simpa using h) (by simpa using hxd)

theorem intdec_point (x : Atom) (h : (x.isInt || x.isDec) = true) :
    x.isBool = false ∧ x.isStr = false ∧ (x.isNode || x.isUntyped) = false ∧ x.isDbl = false := by
  cases x <;> simp_all [Atom.isInt, Atom.isDec, Atom.isBool, Atom.isStr, Atom.isNode, Atom.isUntyped, Atom.isDbl]

theorem no_double (s : Seq) (hd : s.all (fun a => a.isInt || a.isDec) = true) : s.any Atom.isDbl = false := by
  rw [List.any_eq_false]
  intro x hx
  have := (intdec_point x (List.all_eq_true.mp hd x hx)).2.2.2
  simp [this]

theorem intdec_props (s : Seq) (hd : s.all (fun a => a.isInt || a.isDec) = true) :
    s.any Atom.isBool = false ∧ s.any Atom.isStr = false ∧ outsideAgg s = false := by
  rw [← outside_eq]
  refine ⟨?_, ?_, ?_⟩ <;>
  · rw [List.any_eq_false]
    intro x hx
    have := intdec_point x (List.all_eq_true.mp hd x hx)
    simp [this.1, this.2.1, this.2.2.1]

/-! ### exact sums -/

theorem sumExact_fold (s : Seq) (hd : s.all (fun a => a.isInt || a.isDec) = true) (acc : Int × Nat) :
    (s.filterMap Atom.decParts?).foldl decAdd acc =
      s.foldl (fun acc a => match a with
        | .int n => (acc.1 + n * 10 ^ acc.2, acc.2)
        | .dec m k => (acc.1 * 10 ^ k + m * 10 ^ acc.2, acc.2 + k)
        | _ => acc) acc := by
  induction s generalizing acc with
  | nil => rfl
  | cons a s ih =>
    simp only [List.all_cons, Bool.and_eq_true] at hd
    cases a <;> simp_all [Atom.isInt, Atom.isDec, Atom.decParts?, decAdd]

theorem sumExact_eq (s : Seq) (hd : s.all (fun a => a.isInt || a.isDec) = true) :
    sumExact s = exactSum s := sumExact_fold s hd (0, 0)

theorem exactSum_ints_scale (s : Seq) (hi : s.all Atom.isInt = true) : ∀ acc : Int × Nat, acc.2 = 0 →
    (s.foldl (fun acc a => match a with
        | .int n => (acc.1 + n * 10 ^ acc.2, acc.2)
        | .dec m k => (acc.1 * 10 ^ k + m * 10 ^ acc.2, acc.2 + k)
        | _ => acc) acc).2 = 0 := by
  induction s with
  | nil => intro acc h; exact h
  | cons a s ih =>
    intro acc h
    simp only [List.all_cons, Bool.and_eq_true] at hi
    cases a <;> simp_all [Atom.isInt]

/-! ### the addition loop and NaN -/

theorem D.add_nan_left (b : D) : D.add .nan b = .nan := by cases b <;> rfl
theorem D.add_nan_right (a : D) : D.add a .nan = .nan := by cases a <;> rfl

theorem sumRightLoop_eq (acc : D) (l : List D) :
    sumRightLoop acc l = l.foldl (fun acc x => D.add x acc) acc := by
  induction l generalizing acc with
  | nil => rfl
  | cons x xs ih => simp [sumRightLoop, ih]

theorem sumDoubles_snoc (init : List D) (last : D) :
    sumDoubles (init ++ [last]) = init.foldr (fun x r => D.add x r) last := by
  induction init with
  | nil => rfl
  | cons x xs ih =>
    cases xs with
    | nil => rfl
    | cons y ys =>
      simp only [List.cons_append, List.foldr_cons] at ih ⊢
      rw [sumDoubles, ih]

theorem sumRight_eq (l : List D) : sumRight l = sumDoubles l := by
  unfold sumRight
  cases h : l.reverse with
  | nil => simp at h; subst h; rfl
  | cons last revInit =>
    have hl : l = revInit.reverse ++ [last] := by
      have := congrArg List.reverse h
      simpa using this
    show sumRightLoop last revInit = sumDoubles l
    rw [hl, sumDoubles_snoc, sumRightLoop_eq]
    have := List.foldl_reverse (l := revInit.reverse) (f := fun acc x => D.add x acc) (b := last)
    simpa using this

theorem sumDoubles_has_nan (l : List D) (h : D.nan ∈ l) : sumDoubles l = .nan := by
  induction l with
  | nil => cases h
  | cons x xs ih =>
    cases xs with
    | nil =>
      simp at h; subst h; rfl
    | cons y ys =>
      rw [sumDoubles]
      rcases List.mem_cons.mp h with h | h
      · subst h; exact D.add_nan_left _
      · rw [ih h]; exact D.add_nan_right _

theorem any_isNaN_mem (s : Seq) (h : s.any Atom.isNaN = true) : D.nan ∈ s.map toDouble := by
  induction s with
  | nil => simp at h
  | cons a s ih =>
    simp only [List.any_cons, Bool.or_eq_true] at h
    rcases h with h | h
    · have : a = .dbl .nan := by
        cases a with
        | dbl d => cases d <;> simp_all [Atom.isNaN]
        | _ => simp [Atom.isNaN] at h
      subst this; simp [toDouble]
    · simp [ih h]

theorem map_toD (s : Seq) : s.map Atom.toD = s.map toDouble := by
  congr 1

/-! ### sum -/

theorem zero_arg_eq (zero : Option Seq) :
    (match zero with
      | none => (Except.ok [Atom.int 0] : R)
      | some z => match z with
        | [] => .ok []
        | [a] => .ok [a]
        | _ => .error .XPTY0004) =
    (match zero with
      | none => .ok [.int 0]
      | some [] => .ok []
      | some [z] => .ok [z]
      | some _ => .error .XPTY0004) := by
  match zero with
  | none => rfl
  | some [] => rfl
  | some [_] => rfl
  | some (_ :: _ :: _) => rfl

theorem sumCore_eq (s : Seq) (zero : Option Seq) (ho : outsideAgg s = false) :
    sumCore s zero = Spec.sumCore foSum s zero := by
  unfold sumCore Spec.sumCore
  simp only [ho, Bool.false_eq_true, if_false]
  match s, ho with
  | [], _ => simp only [List.isEmpty_nil, if_true]; exact zero_arg_eq zero
  | [a], ho =>
    rw [← outside_eq] at ho
    cases a with
    | int n => rfl
    | dec m k => rfl
    | bool b => rfl
    | str t => rfl
    | untyped t => simp [Atom.isNode, Atom.isUntyped] at ho
    | node i => simp [Atom.isNode, Atom.isUntyped] at ho
    | dbl d =>
      cases d <;>
        simp [Atom.isBool, Atom.isInt, Atom.isDec, Atom.isStr, Atom.isNaN, kind, sumRight, sumRightLoop, Atom.toD]
  | a :: b :: rest, ho =>
    simp only [List.isEmpty_cons, Bool.false_eq_true, if_false]
    rw [allKind_num _ ho, allInt_eq, anyDouble_eq]
    cases hb : (a :: b :: rest).any Atom.isBool with
    | true => simp
    | false =>
      simp only [Bool.false_eq_true, if_false, Bool.not_false, Bool.true_and]
      cases hd : (a :: b :: rest).all (fun a => a.isInt || a.isDec) with
      | true =>
        obtain ⟨_, hs, _⟩ := intdec_props _ hd
        simp only [if_true, hs, Bool.not_false, Bool.not_true, Bool.false_eq_true, if_false,
          no_double _ hd, sumExact_eq _ hd]
      | false =>
        simp only [Bool.false_eq_true, if_false]
        cases hs : (a :: b :: rest).any Atom.isStr with
        | true => simp
        | false =>
          have hdbl := has_double _ ho hb hs hd
          simp only [hdbl, Bool.not_false, Bool.not_true, Bool.false_eq_true, if_false, if_true, foSum, map_toD,
            sumRight_eq]
          cases hn : (a :: b :: rest).any Atom.isNaN with
          | true =>
            simp only [if_true]
            rw [sumDoubles_has_nan _ (any_isNaN_mem _ hn)]
          | false => simp

/-! ### avg -/

theorem avgCore_eq (s : Seq) (ho : outsideAgg s = false) (hb : s.any Atom.isBool = false) :
    avgCore s = Spec.avgCore foSum s := by
  unfold avgCore Spec.avgCore
  simp only [ho, Bool.false_eq_true, if_false]
  match s, ho, hb with
  | [], _, _ => simp
  | a :: rest, ho, hb =>
    simp only [List.isEmpty_cons, Bool.false_eq_true, if_false]
    rw [allKind_num _ ho, allInt_eq, anyDouble_eq, count_eq_length]
    simp only [hb, Bool.not_false, Bool.true_and]
    cases hi : (a :: rest).all Atom.isInt with
    | true =>
      have hd : (a :: rest).all (fun a => a.isInt || a.isDec) = true := by
        rw [List.all_eq_true] at hi ⊢
        intro x hx; simp [hi x hx]
      obtain ⟨_, hs, _⟩ := intdec_props _ hd
      have hsc : (exactSum (a :: rest)).2 = 0 := exactSum_ints_scale _ hi (0, 0) rfl
      simp only [if_true, hs, Bool.not_false, Bool.not_true, Bool.false_eq_true, if_false,
        no_double _ hd, sumExact_eq _ hd, hsc, Nat.pow_zero, Nat.one_mul, true_and]
    | false =>
      simp only [Bool.false_eq_true, if_false]
      cases hd : (a :: rest).all (fun a => a.isInt || a.isDec) with
      | true =>
        obtain ⟨_, hs, _⟩ := intdec_props _ hd
        simp only [if_true, hs, Bool.not_false, Bool.not_true, Bool.false_eq_true, if_false,
          no_double _ hd, sumExact_eq _ hd, false_and]
      | false =>
        simp only [Bool.false_eq_true, if_false]
        cases hs : (a :: rest).any Atom.isStr with
        | true => simp
        | false =>
          have hdbl := has_double _ ho hb hs hd
          simp only [hdbl, Bool.not_false, Bool.not_true, Bool.false_eq_true, if_false, if_true, foSum, map_toD,
            sumRight_eq]

/-! ### min / max -/

theorem pyExtremum_eq {β : Type} (lt : β → β → Bool) (isMax : Bool) (xs : List β) (b : β) :
    pyExtremum (fun x best => if isMax then lt best x else lt x best) b xs = extremum lt isMax b xs := by
  induction xs generalizing b with
  | nil => rfl
  | cons x xs ih =>
    simp only [pyExtremum, extremum]
    by_cases h : (if isMax then lt b x else lt x b) = true <;> simp [h, ih]

theorem strs_of_allStr (l : Seq) (h : l.all Atom.isStr = true) : l.filterMap Atom.str? = l.map stringOfKey := by
  induction l with
  | nil => rfl
  | cons a l ih =>
    simp only [List.all_cons, Bool.and_eq_true] at h
    cases a <;> simp_all [Atom.isStr, Atom.str?, stringOfKey]

theorem bools_of_allBool (l : Seq) (h : l.all Atom.isBool = true) :
    l.filterMap Atom.bool? = l.map (· == Atom.bool true) := by
  induction l with
  | nil => rfl
  | cons a l ih =>
    simp only [List.all_cons, Bool.and_eq_true] at h
    cases a <;> simp_all [Atom.isBool, Atom.bool?]

theorem bool_better (isMax : Bool) :
    (fun (x best : Bool) => if isMax then (!best && x) else (best && !x)) =
    (fun x best => if isMax then (fun a b : Bool => !a && b) best x else (fun a b : Bool => !a && b) x best) := by
  funext x best; cases isMax <;> cases x <;> cases best <;> rfl

theorem xvlt_better (isMax : Bool) :
    (fun (x best : Atom) => if isMax then XV.lt best.xv x.xv else XV.lt x.xv best.xv) =
    (fun x best => if isMax then (fun a b : Atom => XV.lt (exact a) (exact b)) best x
                   else (fun a b : Atom => XV.lt (exact a) (exact b)) x best) := by
  funext x best; simp only [xv_eq]

theorem strLt_eq : strLt = fun x y => decide (strLtSpec x y) := rfl

theorem any_str_not_all_bool (l : Seq) (h : l.any Atom.isStr = true) : l.all Atom.isBool = false := by
  rw [List.all_eq_false]
  obtain ⟨x, hx, hxs⟩ := List.any_eq_true.mp h
  exact ⟨x, hx, by cases x <;> simp_all [Atom.isStr, Atom.isBool]⟩

theorem minMaxCore_eq (cl : Coll) (isMax : Bool) (s : Seq) (ho : outsideAgg s = false) :
    minMaxCore cl isMax s = Spec.minMaxCore cl isMax s := by
  cases s with
  | nil => simp [minMaxCore, Spec.minMaxCore, outsideAgg]
  | cons a rest =>
    simp only [minMaxCore, Spec.minMaxCore]
    cases hoo : outsideAgg (a :: rest) with
    | true => rw [hoo] at ho; cases ho
    | false =>
      simp only [Bool.false_eq_true, if_false]
      rw [allKind_str _ ho, allKind_bool, allKind_num _ ho, anyDouble_eq, ← any_nan_eq]
      cases hS : (a :: rest).all Atom.isStr with
      | true =>
        simp only [if_true]
        have hfm := strs_of_allStr _ hS
        simp only [List.map_cons] at hfm
        rw [hfm]
        exact congrArg (fun m => Except.ok [Atom.str m]) (pyExtremum_eq (fun x y => collLt cl x y) isMax _ _)
      | false =>
        simp only [Bool.false_eq_true, if_false]
        cases hs : (a :: rest).any Atom.isStr with
        | true => simp [any_str_not_all_bool _ hs]
        | false =>
          simp only [Bool.false_eq_true, if_false]
          cases hB : (a :: rest).all Atom.isBool with
          | true =>
            simp only [if_true]
            have hfm := bools_of_allBool _ hB
            simp only [List.map_cons] at hfm
            rw [hfm, bool_better]
            exact congrArg (fun m => Except.ok [Atom.bool m]) (pyExtremum_eq (fun a b : Bool => !a && b) isMax _ _)
          | false =>
            simp only [Bool.false_eq_true, if_false]
            cases hb : (a :: rest).any Atom.isBool with
            | true => simp
            | false =>
              simp only [Bool.false_eq_true, if_false, Bool.not_false, Bool.and_self, if_true]
              cases hd : (a :: rest).all (fun a => a.isInt || a.isDec) with
              | true =>
                simp only [if_true, no_double _ hd, Bool.false_eq_true, if_false]
                rw [xvlt_better]
                exact congrArg (fun m => Except.ok [m]) (pyExtremum_eq (fun a b : Atom => XV.lt (exact a) (exact b)) isMax _ _)
              | false =>
                have hdbl := has_double _ ho hb hs hd
                simp only [Bool.false_eq_true, if_false, hdbl, if_true]
                cases hn : (a :: rest).any Atom.isNaN with
                | true => simp
                | false =>
                  simp only [Bool.false_eq_true, if_false]
                  rw [xvlt_better, toD_eq]
                  exact congrArg (fun m => Except.ok [Atom.dbl (toDouble m)])
                    (pyExtremum_eq (fun a b : Atom => XV.lt (exact a) (exact b)) isMax _ _)

/-! ### the conversions in front of the aggregates -/

theorem map_atomize (doc : List String) (v : Seq) : v.map (atomize doc) = v.map (atomized doc) := by
  congr 1

theorem castDouble_eq (t : String) : castDouble t = Spec.castDouble t := rfl

theorem castUntypedItems_eq (s : Seq) : castUntypedItems s = castUntyped s := by
  induction s with
  | nil => rfl
  | cons a rest ih => cases a <;> simp [castUntypedItems, castUntyped, ih, castDouble_eq]

theorem castNodeItems_eq (doc : List String) (s : Seq) : castNodeItems doc s = castNodes doc s := by
  induction s with
  | nil => rfl
  | cons a rest ih =>
    cases a with
    | node i => simp only [castNodeItems, castNodes, ih]; cases lexDouble (doc.getD i "") <;> rfl
    | _ => simp [castNodeItems, castNodes, ih]

theorem avgConvert_eq (s : Seq) : avgConvert s = avgItems s := by
  induction s with
  | nil => rfl
  | cons a rest ih => cases a <;> simp [avgConvert, avgItems, ih, castDouble_eq]

theorem minMaxConvert_eq (s : Seq) : minMaxConvert s = castUntyped s := by
  induction s with
  | nil => rfl
  | cons a rest ih => cases a <;> simp [minMaxConvert, castUntyped, ih, castDouble_eq]

/-- no xs:untypedAtomic item -/
def noUntyped (s : Seq) : Bool := s.all fun a => !a.isUntyped
/-- no node item -/
def noNode (s : Seq) : Bool := s.all fun a => !a.isNode

theorem outsideAgg_of (s : Seq) (hu : noUntyped s = true) (hn : noNode s = true) : outsideAgg s = false := by
  rw [← outside_eq]
  induction s with
  | nil => rfl
  | cons a rest ih =>
    simp only [noUntyped, noNode, List.all_cons, Bool.and_eq_true] at hu hn
    simp only [List.any_cons, Bool.or_eq_false_iff]
    refine ⟨?_, ih hu.2 hn.2⟩
    have h1 := hu.1; have h2 := hn.1
    cases a <;> simp_all [Atom.isNode, Atom.isUntyped]

theorem castUntyped_out (s v : Seq) (h : castUntyped s = .ok v) :
    noUntyped v = true ∧ (noNode s = true → noNode v = true) := by
  induction s generalizing v with
  | nil => cases h; exact ⟨rfl, fun _ => rfl⟩
  | cons a rest ih =>
    cases a with
    | untyped t =>
      simp only [castUntyped, bind, Except.bind, pure, Except.pure] at h
      cases hd : Spec.castDouble t with
      | error e => rw [hd] at h; cases h
      | ok d =>
        rw [hd] at h
        cases hr : castUntyped rest with
        | error e => rw [hr] at h; cases h
        | ok r =>
          rw [hr] at h; cases h
          obtain ⟨h1, h2⟩ := ih r hr
          refine ⟨by simpa [noUntyped, Atom.isUntyped] using h1, fun hn => ?_⟩
          simp only [noNode, List.all_cons, Bool.and_eq_true] at hn ⊢
          exact ⟨by simp [Atom.isNode], h2 hn.2⟩
    | int _ | dec _ _ | dbl _ | str _ | bool _ | node _ =>
      simp only [castUntyped, bind, Except.bind, pure, Except.pure] at h
      cases hr : castUntyped rest with
      | error e => rw [hr] at h; cases h
      | ok r =>
        rw [hr] at h; cases h
        obtain ⟨h1, h2⟩ := ih r hr
        refine ⟨by simpa [noUntyped, Atom.isUntyped] using h1, fun hn => ?_⟩
        simp only [noNode, List.all_cons, Bool.and_eq_true] at hn ⊢
        exact ⟨hn.1, h2 hn.2⟩

theorem castNodes_out (doc : List String) (s v : Seq) (h : castNodes doc s = .ok v) :
    noNode v = true ∧ (noUntyped s = true → noUntyped v = true) := by
  induction s generalizing v with
  | nil => cases h; exact ⟨rfl, fun _ => rfl⟩
  | cons a rest ih =>
    cases a with
    | node i =>
      simp only [castNodes] at h
      cases hd : lexDouble (doc.getD i "") with
      | none => rw [hd] at h; cases h
      | some d =>
        rw [hd] at h
        simp only [bind, Except.bind, pure, Except.pure] at h
        cases hr : castNodes doc rest with
        | error e => rw [hr] at h; cases h
        | ok r =>
          rw [hr] at h; cases h
          obtain ⟨h1, h2⟩ := ih r hr
          refine ⟨by simpa [noNode, Atom.isNode] using h1, fun hn => ?_⟩
          simp only [noUntyped, List.all_cons, Bool.and_eq_true] at hn ⊢
          exact ⟨by simp [Atom.isUntyped], h2 hn.2⟩
    | int _ | dec _ _ | dbl _ | str _ | bool _ | untyped _ =>
      simp only [castNodes, bind, Except.bind, pure, Except.pure] at h
      cases hr : castNodes doc rest with
      | error e => rw [hr] at h; cases h
      | ok r =>
        rw [hr] at h; cases h
        obtain ⟨h1, h2⟩ := ih r hr
        refine ⟨by simpa [noNode, Atom.isNode] using h1, fun hn => ?_⟩
        simp only [noUntyped, List.all_cons, Bool.and_eq_true] at hn ⊢
        exact ⟨hn.1, h2 hn.2⟩

theorem atomized_noNode (doc : List String) (s : Seq) : noNode (s.map (atomized doc)) = true := by
  induction s with
  | nil => rfl
  | cons a rest ih =>
    simp only [noNode, List.map_cons, List.all_cons, Bool.and_eq_true]
    exact ⟨by cases a <;> simp [atomized, Atom.isNode], ih⟩

theorem avgItems_out (s v : Seq) (h : avgItems s = .ok v) :
    noUntyped v = true ∧ v.any Atom.isBool = false ∧ (noNode s = true → noNode v = true) := by
  induction s generalizing v with
  | nil => cases h; exact ⟨rfl, rfl, fun _ => rfl⟩
  | cons a rest ih =>
    cases a with
    | bool b => simp [avgItems] at h
    | untyped t =>
      simp only [avgItems, bind, Except.bind, pure, Except.pure] at h
      cases hd : Spec.castDouble t with
      | error e => rw [hd] at h; cases h
      | ok d =>
        rw [hd] at h
        cases hr : avgItems rest with
        | error e => rw [hr] at h; cases h
        | ok r =>
          rw [hr] at h; cases h
          obtain ⟨h1, h2, h3⟩ := ih r hr
          refine ⟨by simpa [noUntyped, Atom.isUntyped] using h1, by simpa [Atom.isBool] using h2, fun hn => ?_⟩
          simp only [noNode, List.all_cons, Bool.and_eq_true] at hn ⊢
          exact ⟨by simp [Atom.isNode], h3 hn.2⟩
    | int _ | dec _ _ | dbl _ | str _ | node _ =>
      simp only [avgItems, bind, Except.bind, pure, Except.pure] at h
      cases hr : avgItems rest with
      | error e => rw [hr] at h; cases h
      | ok r =>
        rw [hr] at h; cases h
        obtain ⟨h1, h2, h3⟩ := ih r hr
        refine ⟨by simpa [noUntyped, Atom.isUntyped] using h1, by simpa [Atom.isBool] using h2, fun hn => ?_⟩
        simp only [noNode, List.all_cons, Bool.and_eq_true] at hn ⊢
        exact ⟨hn.1, h3 hn.2⟩

theorem fnSum_eq (doc : List String) (s : Seq) (zero : Option Seq) :
    fnSum doc s zero = Spec.fnSum foSum doc s zero := by
  simp only [fnSum, Spec.fnSum, castUntypedItems_eq, castNodeItems_eq, bind]
  cases h1 : castUntyped s with
  | error e => rfl
  | ok v =>
    simp only [Except.bind]
    cases h2 : castNodes doc v with
    | error e => rfl
    | ok w =>
      simp only []
      obtain ⟨hu, _⟩ := castUntyped_out s v h1
      obtain ⟨hn, hk⟩ := castNodes_out doc v w h2
      exact sumCore_eq w zero (outsideAgg_of w (hk hu) hn)

theorem fnAvg_eq (doc : List String) (s : Seq) : fnAvg doc s = Spec.fnAvg foSum doc s := by
  simp only [fnAvg, Spec.fnAvg, avgConvert_eq, map_atomize, bind]
  cases h1 : avgItems (s.map (atomized doc)) with
  | error e => rfl
  | ok v =>
    simp only [Except.bind]
    obtain ⟨hu, hb, hn⟩ := avgItems_out _ v h1
    exact avgCore_eq v (outsideAgg_of v hu (hn (atomized_noNode doc s))) hb

theorem fnMinMax_eq (cl : Coll) (doc : List String) (isMax : Bool) (s : Seq) :
    fnMinMax cl doc isMax s = Spec.fnMinMax cl doc isMax s := by
  simp only [fnMinMax, Spec.fnMinMax, minMaxConvert_eq, map_atomize, bind]
  cases h1 : castUntyped (s.map (atomized doc)) with
  | error e => rfl
  | ok v =>
    simp only [Except.bind]
    obtain ⟨hu, hn⟩ := castUntyped_out _ v h1
    exact minMaxCore_eq cl isMax v (outsideAgg_of v hu (hn (atomized_noNode doc s)))

/-! ### value comparison -/

theorem codes_inj (s t : String) : s.toList.map Char.toNat = t.toList.map Char.toNat ↔ s = t := by
  constructor
  · intro h
    apply String.ext
    exact (List.map_inj_right (fun x y hxy => Char.toNat_inj.mp hxy)).mp h
  · intro h; rw [h]

theorem str_le (s t : String) : (!strLt t s) = (decide (strLtSpec s t) || (s == t)) := by
  have h := List.le_iff_lt_or_eq (l₁ := s.toList.map Char.toNat) (l₂ := t.toList.map Char.toNat)
  rw [codes_inj s t] at h
  unfold strLt strLtSpec
  by_cases h1 : s.toList.map Char.toNat < t.toList.map Char.toNat
  · have : ¬ (t.toList.map Char.toNat < s.toList.map Char.toNat) := h.mpr (Or.inl h1)
    simp [h1, this]
  · by_cases h2 : s = t
    · have : ¬ (t.toList.map Char.toNat < s.toList.map Char.toNat) := h.mpr (Or.inr h2)
      subst h2
      simp [this]
    · have : t.toList.map Char.toNat < s.toList.map Char.toNat := by
        apply Classical.byContradiction
        intro hn
        rcases h.mp hn with h3 | h3
        · exact h1 h3
        · exact h2 h3
      simp [h1, h2, this]

theorem str_ge (s t : String) : (!strLt s t) = (decide (strLtSpec t s) || (s == t)) := by
  rw [str_le t s, beq_symm' t s]

theorem cmpAtoms_eq (op : Cmp) (a b : Atom) : cmpAtoms op a b = compareAtoms op a b := by
  cases a <;> cases b <;> cases op <;>
    simp only [cmpAtoms, compareAtoms, cmpKey, eqAtom?, ltAtom?, kind, stringOfKey, Atom.isNumeric,
      Bool.and_self, Bool.and_false, Bool.false_and, if_true, if_false, Bool.false_eq_true,
      numEqP_eq, numLtP_eq, str_le, str_ge, bne, atom_bool_beq]
  all_goals first
    | rfl
    | exact congrArg Except.ok (congrArg (fun z => _ || z) (beq_symm' _ _))
    | (rename_i x y; cases x <;> cases y <;> rfl)

/-! ### arithmetic, rounding, arguments -/

theorem arithAtoms_eq (op : Arith) (x y : Atom) (hx : kind x = .num) (hy : kind y = .num) :
    arithAtoms op x y = .ok (arith op x y) := by
  cases x <;> cases y <;> simp [kind] at hx hy <;> cases op <;>
    simp [arithAtoms, arith, Atom.decParts?, Atom.isNumeric, isDouble, decOf, decAdd, decNeg, decMul, toD_eq]

theorem quant_floor (m : Int) (p : Nat) (hp0 : 0 < p) :
    (if m > 0 then Int.ofNat (quantHalfUp m.natAbs p) else -(Int.ofNat (quantHalfDown m.natAbs p)))
      = Int.fdiv (2 * m + (p : Int)) (2 * (p : Int)) := by
  rw [Int.fdiv_eq_ediv_of_nonneg _ (by omega)]
  have hdm := Nat.div_add_mod m.natAbs p
  have hlt := Nat.mod_lt m.natAbs hp0
  by_cases hm : m > 0
  · simp only [hm, if_true]
    unfold quantHalfUp
    have hm' : m = (p : Int) * ((m.natAbs / p : Nat) : Int) + ((m.natAbs % p : Nat) : Int) := by
      have : (m.natAbs : Int) = m := by omega
      rw [← this]; exact_mod_cast hdm.symm
    generalize m.natAbs / p = q at *
    generalize m.natAbs % p = r at *
    rw [hm']
    split
    · rw [floor_of_decomp _ (2 * (p : Int)) ((q : Int) + 1) (2 * r - p) (by omega) (by grind) (by omega) (by omega)]
      simp
    · rw [floor_of_decomp _ (2 * (p : Int)) (q : Int) (2 * r + p) (by omega) (by grind) (by omega) (by omega)]
      rfl
  · simp only [hm, if_false]
    unfold quantHalfDown
    have hm' : m = -((p : Int) * ((m.natAbs / p : Nat) : Int) + ((m.natAbs % p : Nat) : Int)) := by
      have : (m.natAbs : Int) = -m := by omega
      have h3 : ((p * (m.natAbs / p) + m.natAbs % p : Nat) : Int) = (m.natAbs : Int) := by exact_mod_cast hdm
      push_cast at h3
      omega
    generalize m.natAbs / p = q at *
    generalize m.natAbs % p = r at *
    rw [hm']
    split
    · rw [floor_of_decomp _ (2 * (p : Int)) (-(q : Int) - 1) (3 * p - 2 * r) (by omega) (by grind) (by omega) (by omega)]
      simp only [Int.ofNat_eq_natCast]; push_cast; omega
    · rw [floor_of_decomp _ (2 * (p : Int)) (-(q : Int)) (p - 2 * r) (by omega) (by grind) (by omega) (by omega)]
      rfl

theorem fnRound_eq (s : Seq) : fnRound s = Spec.fnRound s := by
  match s with
  | [] => rfl
  | [a] =>
    cases a with
    | dec m k =>
      simp only [fnRound, Spec.fnRound]
      have := quant_floor m (10 ^ k) (Nat.pow_pos (by decide))
      rw [this]
      simp
    | dbl d => simp [fnRound, Spec.fnRound, roundNumber_eq]
    | _ => rfl
  | _ :: _ :: _ => simp [fnRound, Spec.fnRound]

theorem singleton_eq (s : Seq) : singleton? s = atMostOne s := by
  match s with
  | [] => rfl
  | [_] => rfl
  | _ :: _ :: _ => rfl

theorem rangeOperand_eq (s : Seq) : rangeOperand s = atMostInt s := by
  match s with
  | [] => rfl
  | [a] => cases a <;> rfl
  | _ :: _ :: _ => rfl

theorem arithOperand_eq (s : Seq) : arithOperand s = numericOperand s := by
  match s with
  | [] => rfl
  | [a] => cases a <;> simp [arithOperand, numericOperand, Atom.isNumeric, Atom.isUntyped, Atom.isNode, kind]
  | _ :: _ :: _ => rfl

theorem predicateKeeps_eq (pos : Nat) (v : Seq) : predicateKeeps pos v = predicateTruth pos v := by
  match v with
  | [] => simp [predicateKeeps, predicateTruth, ebv_eq]
  | [a] => cases a <;> simp [predicateKeeps, predicateTruth, ebv_eq, Atom.isNumeric, kind, xv_eq]
  | _ :: _ :: _ => simp [predicateKeeps, predicateTruth, ebv_eq]

theorem intArg_eq (s : Seq) : intArg s = asInteger s := by
  match s with
  | [] => rfl
  | [a] => cases a <;> rfl
  | _ :: _ :: _ => rfl

theorem posArg_eq (s : Seq) : posArg s = asRoundedDouble s := by
  match s with
  | [] => rfl
  | [a] => cases a <;> simp [posArg, asRoundedDouble, roundD_ofInt, roundNumber_eq]
  | _ :: _ :: _ => simp [posArg, asRoundedDouble]

/-! ### the function tables -/

theorem applyFn1_eq (cl : Coll) (doc : List String) (f : Fn1) (v : Seq) :
    applyFn1 cl doc f v = Spec.applyFn1 foSum cl doc f v := by
  cases f <;> simp only [applyFn1, Spec.applyFn1, count_eq_length, Spec.count, isEmpty_eq, isExists_eq,
    head_eq, tail_eq, reverse_eq, Spec.reverse, zeroOrOne_eq, oneOrMore_eq, exactlyOne_eq, fnSum_eq,
    fnAvg_eq, fnMinMax_eq, distinctValues_eq, fnStringJoin_eq, ebv_eq, fnRound_eq, map_atomize]
  case not_ => cases Spec.ebv v <;> rfl
  case boolean => cases Spec.ebv v <;> rfl

theorem applyFn2_eq (cl : Coll) (doc : List String) (f : Fn2) (va vb : Seq) :
    applyFn2 cl doc f va vb = Spec.applyFn2 foSum cl doc f va vb := by
  cases f <;> simp only [applyFn2, Spec.applyFn2, intArg_eq, posArg_eq, fnStringJoin_eq, fnSum_eq]
  case remove => cases asInteger vb <;> simp [bind, Except.bind, Except.map, pure, Except.pure, remove_eq]
  case indexOf => split <;> simp_all [indexOf_eq, map_atomize, atomize_eq]
  case subseq => cases asRoundedDouble vb <;> simp [bind, Except.bind, Except.map, pure, Except.pure, subsequence2R_eq]

theorem applyFn3_eq (f : Fn3) (va vb vc : Seq) : applyFn3 f va vb vc = Spec.applyFn3 f va vb vc := by
  cases f <;> simp only [applyFn3, Spec.applyFn3, intArg_eq, posArg_eq]
  case insertBefore => cases asInteger vb <;> simp [bind, Except.bind, Except.map, pure, Except.pure, insertBefore_eq]
  case subseq =>
    cases asRoundedDouble vb <;> cases asRoundedDouble vc <;>
      simp [bind, Except.bind, Except.map, pure, Except.pure, subsequence3R_eq]

end EPV.Seq

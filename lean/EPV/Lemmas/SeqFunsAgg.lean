/-
C08 helper lemmas: aggregates (sum, avg, min, max), value comparison, arithmetic, and the
function tables `applyFn1/2/3`.
-/
import EPV.Lemmas.SeqFunsAtoms
namespace EPV.Seq
open EPV.Seq.Spec

/-! ### kinds -/

theorem kind_num_iff (a : Atom) : (kind a == Kind.num) = (!a.isBool && !a.isStr) := by
  cases a <;> simp [kind, Atom.isBool, Atom.isStr]

theorem allKind_num (s : Seq) : allKind .num s = (!s.any Atom.isBool && !s.any Atom.isStr) := by
  induction s with
  | nil => rfl
  | cons a s ih =>
    simp only [allKind, List.all_cons, List.any_cons] at *
    rw [ih, kind_num_iff]
    cases a.isBool <;> cases a.isStr <;> (try simp)

theorem allKind_str (s : Seq) : allKind .str s = s.all Atom.isStr := by
  unfold allKind; congr 1; funext a; cases a <;> simp [kind, Atom.isStr]

theorem allKind_bool (s : Seq) : allKind .bool s = s.all Atom.isBool := by
  unfold allKind; congr 1; funext a; cases a <;> simp [kind, Atom.isBool]

theorem allInt_eq (s : Seq) : allInt s = s.all Atom.isInt := by
  unfold allInt; congr 1

/-! ### sums -/

theorem foldl_add_int (l : List Int) (acc : Int) : l.foldl (· + ·) acc = acc + l.sum := by
  induction l generalizing acc with
  | nil => simp
  | cons x xs ih => simp [List.foldl, ih]; omega

theorem sumInts_eq (s : Seq) (h : s.all Atom.isInt = true) :
    sumInts (s.filterMap Atom.int?) = (s.map fun a => match a with | .int n => n | _ => 0).sum := by
  unfold sumInts
  rw [foldl_add_int]
  simp only [Int.zero_add]
  congr 1
  induction s with
  | nil => rfl
  | cons a s ih =>
    simp only [List.all_cons, Bool.and_eq_true] at h
    cases a <;> simp_all [Atom.isInt, Atom.int?]

theorem toD_eq_numVal (s : Seq) (hb : s.any Atom.isBool = false) (hs : s.any Atom.isStr = false) :
    s.filterMap Atom.toD? = s.map numVal := by
  induction s with
  | nil => rfl
  | cons a s ih =>
    simp only [List.any_cons, Bool.or_eq_false_iff] at hb hs
    cases a <;> simp_all [Atom.toD?, numVal, Atom.isBool, Atom.isStr, D.ofInt]

theorem sumD_eq (l : List D) : sumD l = l.foldl addD (.fin 0 0) := by
  unfold sumD
  have : D.add = addD := by funext a b; exact D.add_eq a b
  rw [this]; rfl

theorem addD_nan_left (b : D) : addD .nan b = .nan := by cases b <;> rfl
theorem addD_nan_right (a : D) : addD a .nan = .nan := by cases a <;> rfl

theorem foldl_addD_nan (l : List D) : l.foldl addD .nan = .nan := by
  induction l with
  | nil => rfl
  | cons x xs ih => simp [List.foldl, addD_nan_left, ih]

theorem foldl_addD_has_nan (l : List D) (acc : D) (h : D.nan ∈ l) : l.foldl addD acc = .nan := by
  induction l generalizing acc with
  | nil => cases h
  | cons x xs ih =>
    simp only [List.foldl]
    rcases List.mem_cons.mp h with h | h
    · subst h; rw [addD_nan_right, foldl_addD_nan]
    · exact ih _ h

theorem any_isNaN_mem (s : Seq) (h : s.any Atom.isNaN = true) : D.nan ∈ s.map numVal := by
  induction s with
  | nil => simp at h
  | cons a s ih =>
    simp only [List.any_cons, Bool.or_eq_true] at h
    rcases h with h | h
    · have : a = .dbl .nan := by
        cases a with
        | dbl d => cases d <;> simp_all [Atom.isNaN]
        | _ => simp [Atom.isNaN] at h
      subst this; simp [numVal]
    · simp [ih h]

theorem zero_arg_eq (zero : Option Seq) :
    (match zero with
      | none => (Except.ok [Atom.int 0] : R)
      | some z => match z with
        | [] => .ok []
        | [a] => .ok [a]
        | _ => .error .XPTY0004) =
    (match zero with
      | none => .ok [.int 0]
      | some [] => .ok []
      | some [z] => .ok [z]
      | some _ => .error .XPTY0004) := by
  match zero with
  | none => rfl
  | some [] => rfl
  | some [_] => rfl
  | some (_ :: _ :: _) => rfl

theorem fnSum_eq (s : Seq) (zero : Option Seq) : fnSum s zero = Spec.fnSum s zero := by
  cases s with
  | nil => simp only [fnSum, Spec.fnSum, List.isEmpty_nil, if_true]; exact zero_arg_eq zero
  | cons a s =>
    simp only [fnSum, Spec.fnSum, List.isEmpty_cons, Bool.false_eq_true, if_false]
    rw [allKind_num, allInt_eq]
    generalize a :: s = l
    cases hb : l.any Atom.isBool with
    | true => simp
    | false =>
      simp only [Bool.false_eq_true, if_false, Bool.not_false, Bool.true_and]
      cases hi : l.all Atom.isInt with
      | true =>
        have hs : l.any Atom.isStr = false := by
          rw [List.any_eq_false]; intro x hx
          have := List.all_eq_true.mp hi x hx
          cases x <;> simp_all [Atom.isInt, Atom.isStr]
        simp [hs, sumInts_eq l hi]
        rfl
      | false =>
        simp only [Bool.false_eq_true, if_false]
        cases hs : l.any Atom.isStr with
        | true => simp
        | false =>
          simp only [Bool.false_eq_true, if_false, Bool.not_false, Bool.not_true]
          rw [toD_eq_numVal l hb hs, sumD_eq]
          cases hn : l.any Atom.isNaN with
          | true => simp [foldl_addD_has_nan _ _ (any_isNaN_mem l hn)]
          | false => simp

theorem fnAvg_eq (s : Seq) : fnAvg s = Spec.fnAvg s := by
  cases s with
  | nil => simp [fnAvg, Spec.fnAvg]
  | cons a s =>
    simp only [fnAvg, Spec.fnAvg, List.isEmpty_cons, Bool.false_eq_true, if_false]
    rw [allKind_num, allInt_eq, count_eq_length]
    generalize a :: s = l
    cases hb : l.any Atom.isBool with
    | true => simp
    | false =>
      simp only [Bool.false_eq_true, if_false, Bool.not_false, Bool.true_and]
      cases hi : l.all Atom.isInt with
      | true =>
        have hs : l.any Atom.isStr = false := by
          rw [List.any_eq_false]; intro x hx
          have := List.all_eq_true.mp hi x hx
          cases x <;> simp_all [Atom.isInt, Atom.isStr]
        simp [hs, sumInts_eq l hi]
        rfl
      | false =>
        simp only [Bool.false_eq_true, if_false]
        cases hs : l.any Atom.isStr with
        | true => simp
        | false => simp [toD_eq_numVal l hb hs, sumD_eq]

/-! ### min / max -/

theorem pyExtremum_eq {β : Type} (lt : β → β → Bool) (isMax : Bool) (xs : List β) (b : β) :
    pyExtremum (fun x best => if isMax then lt best x else lt x best) b xs = extremum lt isMax b xs := by
  induction xs generalizing b with
  | nil => rfl
  | cons x xs ih =>
    simp only [pyExtremum, extremum]
    by_cases h : (if isMax then lt b x else lt x b) = true <;> simp [h, ih]

theorem strLt_eq : strLt = fun x y => decide (strLtSpec x y) := rfl
theorem dlt_eq : D.lt = fun x y => decide (ltD x y) := by funext x y; exact lt_decide x y

theorem str_filter_eq (l : Seq) :
    l.filterMap (fun | .str u => some u | _ => none) = l.filterMap Atom.str? := by
  rfl
theorem bool_filter_eq (l : Seq) :
    l.filterMap (fun | .bool u => some u | _ => none) = l.filterMap Atom.bool? := by
  rfl
theorem int_filter_eq (l : Seq) :
    l.filterMap (fun | .int u => some u | _ => none) = l.filterMap Atom.int? := by
  rfl

theorem any_nan_eq (l : Seq) : l.any Atom.isNaN = l.any (· == Atom.dbl .nan) := by
  congr 1; funext a
  cases a with
  | dbl d => cases d <;> simp [Atom.isNaN]
  | _ => simp [Atom.isNaN]

theorem bool_better (isMax : Bool) :
    (fun (x best : Bool) => if isMax then (!best && x) else (best && !x)) =
    (fun x best => if isMax then (fun a b : Bool => !a && b) best x else (fun a b : Bool => !a && b) x best) := by
  funext x best; cases isMax <;> cases x <;> cases best <;> rfl

theorem fnMinMax_eq (isMax : Bool) (s : Seq) : fnMinMax isMax s = Spec.fnMinMax isMax s := by
  cases s with
  | nil => rfl
  | cons a rest =>
    simp only [fnMinMax, Spec.fnMinMax]
    rw [allKind_str, allKind_bool, allKind_num, allInt_eq, ← any_nan_eq]
    cases hS : (a :: rest).all Atom.isStr with
    | true =>
      simp only [if_true]
      have ha : a.isStr = true := by simp [List.all_cons] at hS; exact hS.1
      cases a with
      | str t =>
        simp only [List.filterMap_cons, Atom.str?, str_filter_eq, strLt_eq]
        rw [pyExtremum_eq (fun x y => decide (strLtSpec x y))]
        rfl
      | _ => simp [Atom.isStr] at ha
    | false =>
      simp only [Bool.false_eq_true, if_false]
      cases hs : (a :: rest).any Atom.isStr with
      | true =>
        have hB : (a :: rest).all Atom.isBool = false := by
          rw [List.all_eq_false]
          obtain ⟨x, hx, hxs⟩ := List.any_eq_true.mp hs
          exact ⟨x, hx, by cases x <;> simp_all [Atom.isStr, Atom.isBool]⟩
        simp [hB]
      | false =>
        simp only [Bool.false_eq_true, if_false]
        cases hB : (a :: rest).all Atom.isBool with
        | true =>
          simp only [if_true]
          have ha : a.isBool = true := by simp [List.all_cons] at hB; exact hB.1
          cases a with
          | bool b =>
            simp only [List.filterMap_cons, Atom.bool?, bool_filter_eq]
            rw [bool_better, pyExtremum_eq (fun a b : Bool => !a && b)]
            rfl
          | _ => simp [Atom.isBool] at ha
        | false =>
          simp only [Bool.false_eq_true, if_false]
          cases hb : (a :: rest).any Atom.isBool with
          | true => simp
          | false =>
            simp only [Bool.false_eq_true, if_false, Bool.not_false, Bool.and_self, if_true]
            cases hI : (a :: rest).all Atom.isInt with
            | true =>
              simp only [if_true]
              have ha : a.isInt = true := by simp [List.all_cons] at hI; exact hI.1
              cases a with
              | int n =>
                simp only [List.filterMap_cons, Atom.int?, int_filter_eq]
                rw [pyExtremum_eq (fun x y : Int => decide (x < y))]
                rfl
              | _ => simp [Atom.isInt] at ha
            | false =>
              simp only [Bool.false_eq_true, if_false]
              cases hn : (a :: rest).any Atom.isNaN with
              | true => simp
              | false =>
                simp only [Bool.false_eq_true, if_false]
                rw [toD_eq_numVal _ hb hs, List.map_cons, dlt_eq]
                simp only []
                rw [pyExtremum_eq (fun x y => decide (ltD x y))]

/-! ### value comparison -/

theorem codes_inj (s t : String) : s.toList.map Char.toNat = t.toList.map Char.toNat ↔ s = t := by
  constructor
  · intro h
    apply String.ext
    exact (List.map_inj_right (fun x y hxy => Char.toNat_inj.mp hxy)).mp h
  · intro h; rw [h]

theorem dec_or (p q : Prop) [Decidable p] [Decidable q] [Decidable (p ∨ q)] :
    decide (p ∨ q) = (decide p || decide q) := by
  by_cases hp : p <;> by_cases hq : q <;> simp [hp, hq]

theorem leD_decide (x y : D) : decide (leD x y) = (decide (ltD x y) || decide (eqD x y)) := by
  unfold leD
  exact dec_or _ _

theorem eqD_decide_symm (x y : D) : decide (eqD x y) = decide (eqD y x) :=
  decide_eq_decide.mpr ⟨eqD_symm, eqD_symm⟩

theorem str_le (s t : String) : (!strLt t s) = (decide (strLtSpec s t) || (s == t)) := by
  have h := List.le_iff_lt_or_eq (l₁ := s.toList.map Char.toNat) (l₂ := t.toList.map Char.toNat)
  rw [codes_inj s t] at h
  unfold strLt strLtSpec
  by_cases h1 : s.toList.map Char.toNat < t.toList.map Char.toNat
  · have : ¬ (t.toList.map Char.toNat < s.toList.map Char.toNat) := h.mpr (Or.inl h1)
    simp [h1, this]
  · by_cases h2 : s = t
    · have : ¬ (t.toList.map Char.toNat < s.toList.map Char.toNat) := h.mpr (Or.inr h2)
      subst h2
      simp [this]
    · have : t.toList.map Char.toNat < s.toList.map Char.toNat := by
        apply Classical.byContradiction
        intro hn
        rcases h.mp hn with h3 | h3
        · exact h1 h3
        · exact h2 h3
      simp [h1, h2, this]

theorem cmpAtoms_eq (op : Cmp) (a b : Atom) : cmpAtoms op a b = compareAtoms op a b := by
  cases a <;> cases b <;>
    simp only [cmpAtoms, compareAtoms, eqAtom?, ltAtom?, kind, numVal, Atom.toD?, D.ofInt, and_self,
      if_true, reduceCtorEq, and_false, false_and, if_false]
  case bool.bool x y => cases op <;> cases x <;> cases y <;> rfl
  case str.str s t =>
    cases op <;> simp only [Except.ok.injEq]
    · rfl
    · rfl
    · exact str_le s t
    · rfl
    · rw [str_le t s]
      congr 1
      exact decide_eq_decide.mpr ⟨Eq.symm, Eq.symm⟩
  all_goals
    cases op <;> simp only [Except.ok.injEq, eqv_decide, lt_decide, le_decide, leD_decide]
    · exact decide_eq_decide.mpr Iff.rfl
    · exact congrArg _ (decide_eq_decide.mpr Iff.rfl)
    · exact decide_eq_decide.mpr Iff.rfl
    · exact congr (congrArg _ (decide_eq_decide.mpr Iff.rfl)) (decide_eq_decide.mpr Iff.rfl)
    · exact decide_eq_decide.mpr Iff.rfl
    · exact congr (congrArg _ (decide_eq_decide.mpr Iff.rfl)) (eqD_decide_symm _ _)

theorem singleton_eq (s : Seq) : singleton? s = atMostOne s := by
  match s with
  | [] => rfl
  | [_] => rfl
  | _ :: _ :: _ => rfl

theorem rangeOperand_eq (s : Seq) : rangeOperand s = atMostInt s := by
  match s with
  | [] => rfl
  | [a] => cases a <;> rfl
  | _ :: _ :: _ => rfl

theorem arithOperand_eq (s : Seq) : arithOperand s = numericOperand s := by
  match s with
  | [] => rfl
  | [a] => cases a <;> simp [arithOperand, numericOperand, Atom.isNumeric, kind]
  | _ :: _ :: _ => rfl

theorem arithAtoms_eq (op : Arith) (x y : Atom) (hx : kind x = .num) (hy : kind y = .num) :
    arithAtoms op x y = .ok (arith op x y) := by
  have hadd : D.add = addD := by funext a b; exact D.add_eq a b
  cases x <;> cases y <;> simp_all [kind, arithAtoms, arith, Atom.isNumeric, Atom.toD?, numVal, D.ofInt, mulD] <;>
    cases op <;> rfl

theorem predicateKeeps_eq (pos : Nat) (v : Seq) : predicateKeeps pos v = predicateTruth pos v := by
  match v with
  | [] => simp [predicateKeeps, predicateTruth, ebv_eq]
  | [a] =>
    cases a with
    | int n =>
      simp only [predicateKeeps, predicateTruth, Except.ok.injEq]
      apply decide_eq_decide.mpr
      simp [eqD, ofPos]
    | dbl d =>
      simp only [predicateKeeps, predicateTruth, Except.ok.injEq, eqv_decide]
      exact decide_eq_decide.mpr Iff.rfl
    | str t => simp [predicateKeeps, predicateTruth, ebv_eq]
    | bool b => simp [predicateKeeps, predicateTruth, ebv_eq]
  | _ :: _ :: _ => simp [predicateKeeps, predicateTruth, ebv_eq]

theorem intArg_eq (s : Seq) : intArg s = asInteger s := by
  match s with
  | [] => rfl
  | [a] => cases a <;> rfl
  | _ :: _ :: _ => rfl

theorem dblArg_eq (s : Seq) : dblArg s = asDouble s := by
  match s with
  | [] => rfl
  | [a] => cases a <;> rfl
  | _ :: _ :: _ => rfl

theorem fnRound_eq (s : Seq) : fnRound s = Spec.fnRound s := by
  match s with
  | [] => rfl
  | [a] => cases a <;> simp [fnRound, Spec.fnRound, roundNumber_eq]
  | _ :: _ :: _ => simp [fnRound, Spec.fnRound]

theorem avgToSeq_eq (r : AvgRes) : avgToSeq r = Spec.avgToSeq r := by
  cases r <;> rfl

/-! ### the function tables -/

theorem applyFn1_eq (f : Fn1) (v : Seq) : applyFn1 f v = Spec.applyFn1 f v := by
  cases f <;> simp only [applyFn1, Spec.applyFn1, count_eq_length, Spec.count, isEmpty_eq, isExists_eq,
    head_eq, tail_eq, reverse_eq, Spec.reverse, zeroOrOne_eq, oneOrMore_eq, exactlyOne_eq, fnSum_eq,
    fnAvg_eq, fnMinMax_eq, distinctValues_eq, fnStringJoin_eq, ebv_eq, fnRound_eq]
  case avg => cases Spec.fnAvg v <;> simp [bind, Except.bind, avgToSeq_eq]
  case not_ => cases Spec.ebv v <;> rfl
  case boolean => cases Spec.ebv v <;> rfl

theorem applyFn2_eq (f : Fn2) (va vb : Seq) : applyFn2 f va vb = Spec.applyFn2 f va vb := by
  cases f <;> simp only [applyFn2, Spec.applyFn2, intArg_eq, dblArg_eq, fnStringJoin_eq, fnSum_eq]
  case remove => cases asInteger vb <;> simp [bind, Except.bind, Except.map, pure, Except.pure, remove_eq]
  case indexOf => split <;> simp_all [indexOf_eq]
  case subseq => cases asDouble vb <;> simp [bind, Except.bind, Except.map, pure, Except.pure, subsequence2_eq]

theorem applyFn3_eq (f : Fn3) (va vb vc : Seq) : applyFn3 f va vb vc = Spec.applyFn3 f va vb vc := by
  cases f <;> simp only [applyFn3, Spec.applyFn3, intArg_eq, dblArg_eq]
  case insertBefore => cases asInteger vb <;> simp [bind, Except.bind, Except.map, pure, Except.pure, insertBefore_eq]
  case subseq =>
    cases asDouble vb <;> cases asDouble vc <;>
      simp [bind, Except.bind, Except.map, pure, Except.pure, subsequence3_eq]

end EPV.Seq

/- C09 helper lemmas, part 11: string_value of numbers (float repr / Decimal format + rstrip) = XPath 1.0 string(). -/
import EPV.Model.Strings
namespace EPV.Strings
open EPV.FOStrings (Str NumArg digitChars natDigits zeros stripLeadingZeros stripTrailingZeros canonNumber)

/-! ### rstrip -/

theorem pyRstrip_append_ne (ch : Nat) (a : Str) (c : Nat) (hc : c ≠ ch) :
    pyRstrip ch (a ++ [c]) = a ++ [c] := by
  unfold pyRstrip
  simp [List.dropWhile_cons, hc]

theorem pyRstrip_append_eq (ch : Nat) (a : Str) : pyRstrip ch (a ++ [ch]) = pyRstrip ch a := by
  unfold pyRstrip
  simp [List.dropWhile_cons]

theorem dropWhile_digitChars (l : List Nat) :
    (digitChars l).dropWhile (· == 0x30) = digitChars (l.dropWhile (· == 0)) := by
  induction l with
  | nil => rfl
  | cons d ds ih =>
    unfold digitChars at ih ⊢
    simp only [List.map_cons, List.dropWhile_cons]
    by_cases h : d = 0
    · subst h; simpa using ih
    · have : ¬ (0x30 + d = 0x30) := by omega
      simp [h, this]

theorem digitChars_reverse (l : List Nat) : (digitChars l).reverse = digitChars l.reverse := by
  unfold digitChars; simp [List.map_reverse]

theorem digitChars_append (a b : List Nat) : digitChars (a ++ b) = digitChars a ++ digitChars b := by
  unfold digitChars; simp

/-- stripping trailing `'0'` after a decimal point stops at the point -/
theorem rstrip0_frac (a : Str) (fp : List Nat) :
    pyRstrip 0x30 (a ++ 0x2E :: digitChars fp) = a ++ 0x2E :: digitChars (stripTrailingZeros fp) := by
  unfold pyRstrip stripTrailingZeros
  simp only [List.reverse_append, List.reverse_cons, digitChars_reverse, List.append_assoc,
    List.singleton_append]
  rw [List.dropWhile_append]
  rw [dropWhile_digitChars]
  have hy : List.dropWhile (fun x => x == 0x30) (0x2E :: a.reverse) = 0x2E :: a.reverse := by
    simp [List.dropWhile_cons]
  rw [hy]
  by_cases he : (digitChars (List.dropWhile (fun x => x == 0) fp.reverse)).isEmpty = true
  · simp only [he, if_true]
    have : List.dropWhile (fun x => x == 0) fp.reverse = [] := by
      unfold digitChars at he; simpa using he
    simp [this, digitChars]
  · simp only [he, Bool.false_eq_true, if_false]
    simp [digitChars_reverse]

theorem digitChars_last_ne_dot (l : List Nat) (hl : l ≠ []) (a : Str) :
    pyRstrip 0x2E (a ++ digitChars l) = a ++ digitChars l := by
  obtain ⟨init, d, rfl⟩ : ∃ init d, l = init ++ [d] := by
    cases h : l.reverse with
    | nil => simp at h; exact absurd h hl
    | cons d r => exact ⟨r.reverse, d, by rw [← List.reverse_reverse l, h]; simp⟩
  rw [digitChars_append, ← List.append_assoc]
  have : digitChars [d] = [0x30 + d] := rfl
  rw [this]
  exact pyRstrip_append_ne 0x2E _ _ (by omega)

/-- the two `rstrip` calls of `string_value` on a positional text -/
theorem rstrip_positional (pre : Str) (ip fp : List Nat) (hip : ip ≠ []) :
    pyRstrip 0x2E (pyRstrip 0x30 (pre ++ digitChars ip ++ 0x2E :: digitChars fp)) =
      pre ++ digitChars ip ++
        (if stripTrailingZeros fp = [] then [] else 0x2E :: digitChars (stripTrailingZeros fp)) := by
  rw [rstrip0_frac]
  by_cases h : stripTrailingZeros fp = []
  · simp only [h, if_true, List.append_nil]
    have : digitChars ([] : List Nat) = [] := rfl
    rw [this]
    have e : pre ++ digitChars ip ++ [0x2E] = (pre ++ digitChars ip) ++ [0x2E] := by simp
    rw [e, pyRstrip_append_eq]
    exact digitChars_last_ne_dot ip hip pre
  · simp only [h, if_false]
    have e : pre ++ digitChars ip ++ 0x2E :: digitChars (stripTrailingZeros fp)
        = (pre ++ digitChars ip ++ [0x2E]) ++ digitChars (stripTrailingZeros fp) := by simp
    rw [e]
    exact digitChars_last_ne_dot _ h _

/-! ### trailing zeros -/

def EndsNonzero (l : List Nat) : Prop := ∃ init d, l = init ++ [d] ∧ d ≠ 0

theorem takeWhile_zero_eq (l : List Nat) : l.takeWhile (· == 0) = zeros (l.takeWhile (· == 0)).length := by
  induction l with
  | nil => rfl
  | cons d ds ih =>
    by_cases h : d = 0
    · subst h
      simp only [List.takeWhile_cons, beq_self_eq_true, if_true, List.length_cons]
      unfold zeros at ih ⊢
      rw [List.replicate_succ, ← ih]
    · simp [List.takeWhile_cons, h, zeros]

theorem stz_decomp (ds : List Nat) :
    ∃ k, ds = stripTrailingZeros ds ++ zeros k ∧
      (stripTrailingZeros ds = [] ∨ EndsNonzero (stripTrailingZeros ds)) := by
  unfold stripTrailingZeros
  refine ⟨(ds.reverse.takeWhile (· == 0)).length, ?_, ?_⟩
  · have h := List.takeWhile_append_dropWhile (p := (· == 0)) (l := ds.reverse)
    have h2 := congrArg List.reverse h
    rw [List.reverse_append, List.reverse_reverse] at h2
    rw [takeWhile_zero_eq ds.reverse] at h2
    have : (zeros (List.takeWhile (fun x => x == 0) ds.reverse).length).reverse
        = zeros (List.takeWhile (fun x => x == 0) ds.reverse).length := by
      unfold zeros; simp
    rw [this] at h2
    exact h2.symm
  · cases h : List.dropWhile (fun x => x == 0) ds.reverse with
    | nil => left; rfl
    | cons d r =>
      right
      refine ⟨r.reverse, d, by simp, ?_⟩
      have := List.head_dropWhile_not (p := (· == 0)) (l := ds.reverse) (by rw [h]; simp)
      simp only [h, List.head_cons] at this
      simpa using this

theorem dropWhile_zeros (n : Nat) : (zeros n).dropWhile (· == 0) = [] := by
  induction n with
  | zero => rfl
  | succ n ih => unfold zeros at ih ⊢; rw [List.replicate_succ]; simp [List.dropWhile_cons]

theorem stz_zeros (n : Nat) : stripTrailingZeros (zeros n) = [] := by
  unfold stripTrailingZeros
  have : (zeros n).reverse = zeros n := by unfold zeros; simp
  rw [this, dropWhile_zeros]; rfl

theorem stz_endsNonzero (l : List Nat) (h : EndsNonzero l) : stripTrailingZeros l = l := by
  obtain ⟨init, d, rfl, hd⟩ := h
  unfold stripTrailingZeros
  simp [List.dropWhile_cons, hd]

theorem stz_append_zeros (l : List Nat) (n : Nat) :
    stripTrailingZeros (l ++ zeros n) = stripTrailingZeros l := by
  induction n with
  | zero => simp [zeros]
  | succ n ih =>
    have : l ++ zeros (n + 1) = (l ++ zeros n) ++ [0] := by
      unfold zeros; rw [List.replicate_succ']; simp
    rw [this]
    unfold stripTrailingZeros at ih ⊢
    simp only [List.reverse_append, List.reverse_cons, List.reverse_nil, List.nil_append,
      List.singleton_append, List.dropWhile_cons, beq_self_eq_true, if_true]
    simpa using ih

theorem endsNonzero_append (a l : List Nat) (h : EndsNonzero l) : EndsNonzero (a ++ l) := by
  obtain ⟨init, d, rfl, hd⟩ := h
  exact ⟨a ++ init, d, by simp, hd⟩

theorem endsNonzero_drop (l : List Nat) (i : Nat) (h : EndsNonzero l) (hi : i < l.length) :
    EndsNonzero (l.drop i) := by
  obtain ⟨init, d, rfl, hd⟩ := h
  refine ⟨init.drop i, d, ?_, hd⟩
  simp only [List.length_append, List.length_singleton] at hi
  rw [List.drop_append_of_le_length (by omega)]

theorem zeros_add (a b : Nat) : zeros a ++ zeros b = zeros (a + b) := by
  unfold zeros; rw [List.replicate_append_replicate]

/-! ### the positional text with its fraction stripped is the canonical XPath 1.0 text -/

def signStr (neg : Bool) : Str := if neg then [0x2D] else []

theorem positional_canon (neg : Bool) (ds : List Nat) (dot : Int)
    (hhead : ∃ d r, ds = d :: r ∧ d ≠ 0) :
    (positional ds dot).1 ≠ [] ∧
    signStr neg ++ digitChars (positional ds dot).1 ++
        (if stripTrailingZeros (positional ds dot).2 = [] then []
         else 0x2E :: digitChars (stripTrailingZeros (positional ds dot).2))
      = canonNumber neg ds dot := by
  obtain ⟨d0, r0, hds, hd0⟩ := hhead
  have hlead : ds.takeWhile (· == 0) = [] := by subst hds; simp [List.takeWhile_cons, hd0]
  have hsl : stripLeadingZeros ds = ds := by
    subst hds; unfold stripLeadingZeros; simp [List.dropWhile_cons, hd0]
  obtain ⟨k, hdec, hT⟩ := stz_decomp ds
  generalize hTdef : stripTrailingZeros ds = T at hdec hT
  have hTne : T ≠ [] := by
    intro h
    subst h
    rw [List.nil_append] at hdec
    subst hds
    unfold zeros at hdec
    cases k with
    | zero => simp at hdec
    | succ k => rw [List.replicate_succ] at hdec; simp at hdec; exact hd0 hdec.1
  have hTe : EndsNonzero T := by
    rcases hT with h | h
    · exact absurd h hTne
    · exact h
  have hn : ds.length = T.length + k := by rw [hdec]; simp [zeros]
  have hTpos : 0 < T.length := List.length_pos_iff.mpr hTne
  unfold canonNumber
  simp only [hlead, List.length_nil, hsl, hTdef, Int.sub_zero, Int.natCast_zero]
  have hTemp : T.isEmpty = false := by cases T with
    | nil => exact absurd rfl hTne
    | cons _ _ => rfl
  simp only [hTemp, Bool.false_eq_true, if_false]
  have hsign : (if neg = true then [0x2D] else ([] : Str)) = signStr neg := rfl
  simp only [hsign]
  unfold positional
  by_cases h1 : dot ≤ 0
  · -- 0.000ddd
    simp only [h1, if_true]
    have hz : stripTrailingZeros (zeros (-dot).toNat ++ ds) = zeros (-dot).toNat ++ T := by
      rw [hdec, ← List.append_assoc, stz_append_zeros]
      exact stz_endsNonzero _ (endsNonzero_append _ _ hTe)
    have hne : zeros (-dot).toNat ++ T ≠ [] := by simp [hTne]
    have h2 : ¬ (dot ≥ (T.length : Int)) := by omega
    simp only [hz, hne, if_false, h2, h1, if_true]
    refine ⟨by simp, ?_⟩
    simp [digitChars]
  · simp only [h1, if_false]
    by_cases h2 : dot ≥ (ds.length : Int)
    · -- an integer with trailing zeros added
      simp only [h2, if_true]
      have h3 : dot ≥ (T.length : Int) := by omega
      simp only [h3, if_true]
      refine ⟨by subst hds; simp, ?_⟩
      have : stripTrailingZeros ([] : List Nat) = [] := rfl
      simp only [this, if_true, List.append_nil]
      congr 2
      generalize hm : (dot - (ds.length : Int)).toNat = m
      have e : ds ++ zeros m = T ++ (zeros k ++ zeros m) := by
        rw [← List.append_assoc, ← hdec]
      rw [e, zeros_add]
      congr 2
      omega
    · simp only [h2, if_false]
      have hdotpos : 0 < dot := by omega
      have hdn : dot.toNat < ds.length := by omega
      by_cases h3 : dot ≥ (T.length : Int)
      · -- the fraction consists of zeros only
        simp only [h3, if_true]
        have htake : ds.take dot.toNat = T ++ zeros (dot - T.length).toNat := by
          rw [hdec, List.take_append]
          have : T.take dot.toNat = T := List.take_of_length_le (by omega)
          rw [this]
          congr 1
          unfold zeros
          rw [List.take_replicate]
          congr 1
          omega
        have hdrop : ds.drop dot.toNat = zeros (ds.length - dot.toNat) := by
          rw [hdec, List.drop_append]
          have : T.drop dot.toNat = [] := List.drop_of_length_le (by omega)
          rw [this, List.nil_append]
          unfold zeros
          rw [List.drop_replicate]
          congr 1
          simp [zeros] 
          omega
        refine ⟨by rw [htake]; simp [hTne], ?_⟩
        rw [hdrop, stz_zeros, htake]
        simp
      · -- digits on both sides of the point
        simp only [h3, if_false, h1]
        have hdt : dot.toNat < T.length := by omega
        have htake : ds.take dot.toNat = T.take dot.toNat := by
          rw [hdec, List.take_append_of_le_length (by omega)]
        have hdrop : ds.drop dot.toNat = T.drop dot.toNat ++ zeros k := by
          rw [hdec, List.drop_append_of_le_length (by omega)]
        have hzz : stripTrailingZeros (ds.drop dot.toNat) = T.drop dot.toNat := by
          rw [hdrop, stz_append_zeros]
          exact stz_endsNonzero _ (endsNonzero_drop T _ hTe hdt)
        have hne : T.drop dot.toNat ≠ [] := by
          intro h
          have := congrArg List.length h
          rw [List.length_drop, List.length_nil] at this
          omega
        refine ⟨?_, ?_⟩
        · rw [htake]
          intro h
          have := congrArg List.length h
          rw [List.length_take, List.length_nil] at this
          omega
        · rw [hzz, htake]
          simp [hne]

/-! ### characters of the texts -/

def NumChar (c : Nat) : Prop := c = 0x2D ∨ c = 0x2E ∨ (0x30 ≤ c ∧ c ≤ 0x39)

theorem digitChars_numChar (l : List Nat) (h : ∀ d ∈ l, d < 10) : ∀ c ∈ digitChars l, NumChar c := by
  intro c hc
  unfold digitChars at hc
  simp only [List.mem_map] at hc
  obtain ⟨d, hd, rfl⟩ := hc
  have := h d hd
  right; right; omega

theorem signStr_numChar (neg : Bool) : ∀ c ∈ signStr neg, NumChar c := by
  intro c hc
  unfold signStr at hc
  cases neg <;> simp at hc
  left; exact hc

theorem positional_lt (ds : List Nat) (dot : Int) (h : ∀ d ∈ ds, d < 10) :
    (∀ d ∈ (positional ds dot).1, d < 10) ∧ (∀ d ∈ (positional ds dot).2, d < 10) := by
  unfold positional
  have hz : ∀ n, ∀ d ∈ zeros n, d < 10 := by
    intro n d hd; unfold zeros at hd; simp [List.mem_replicate] at hd; omega
  split
  · constructor
    · intro d hd; simp at hd; omega
    · intro d hd
      simp only [List.mem_append] at hd
      rcases hd with hd | hd
      · exact hz _ d hd
      · exact h d hd
  · split
    · constructor
      · intro d hd
        simp only [List.mem_append] at hd
        rcases hd with hd | hd
        · exact h d hd
        · exact hz _ d hd
      · intro d hd; simp at hd
    · constructor
      · intro d hd; exact h d (List.mem_of_mem_take hd)
      · intro d hd; exact h d (List.mem_of_mem_drop hd)

theorem stz_mem (l : List Nat) : ∀ d ∈ stripTrailingZeros l, d ∈ l := by
  intro d hd
  unfold stripTrailingZeros at hd
  rw [List.mem_reverse] at hd
  have := (List.dropWhile_sublist (p := (· == 0)) (l := l.reverse)).subset hd
  simpa using this

theorem contains_false_of_numChar (s : Str) (c : Nat) (hs : ∀ x ∈ s, NumChar x) (hc : ¬ NumChar c) :
    s.contains c = false := by
  cases h : s.contains c
  · rfl
  · rw [List.contains_iff_mem] at h
    exact absurd (hs c h) hc

theorem filter_id_of_numChar (s : Str) (c : Nat) (hs : ∀ x ∈ s, NumChar x) (hc : ¬ NumChar c) :
    s.filter (· != c) = s := by
  rw [List.filter_eq_self]
  intro x hx
  have := hs x hx
  simp only [bne_iff_ne, ne_eq]
  intro h; subst h; exact hc this

/-- the canonical text is never `-0` when the first digit is not 0 -/
theorem canon_ne_minus_zero (neg : Bool) (ds : List Nat) (dot : Int)
    (hhead : ∃ d r, ds = d :: r ∧ d ≠ 0) : canonNumber neg ds dot ≠ [0x2D, 0x30] := by
  obtain ⟨hip, heq⟩ := positional_canon neg ds dot hhead
  obtain ⟨d0, r0, hds, hd0⟩ := hhead
  rw [← heq]
  unfold positional at hip ⊢
  unfold signStr
  by_cases h1 : dot ≤ 0
  · simp only [h1, if_true]
    have hne : stripTrailingZeros (zeros (-dot).toNat ++ ds) ≠ [] := by
      intro h
      have hm : d0 ∈ stripTrailingZeros (zeros (-dot).toNat ++ ds) := by
        obtain ⟨k, hdec, hT⟩ := stz_decomp (zeros (-dot).toNat ++ ds)
        rw [h, List.nil_append] at hdec
        have : d0 ∈ zeros k := by rw [← hdec, hds]; simp
        unfold zeros at this
        simp [List.mem_replicate] at this
        exact absurd this.2 hd0
      rw [h] at hm; simp at hm
    cases neg <;> simp [hne, digitChars]
  · simp only [h1, if_false]
    by_cases h2 : dot ≥ (ds.length : Int)
    · simp only [h2, if_true]
      subst hds
      cases neg <;> simp [digitChars] <;> omega
    · simp only [h2, if_false]
      have : ds.take dot.toNat = d0 :: r0.take (dot.toNat - 1) := by
        subst hds
        have : dot.toNat = (dot.toNat - 1) + 1 := by omega
        rw [this, List.take_succ_cons]; simp
      rw [this]
      cases neg <;> simp [digitChars] <;> omega

/-! ### the theorem -/

/-- digit strings as Python produces them (`Decimal._int`, `dtoa`): decimal digits, no leading zero
unless the value is zero (`[0]`) -/
def DigitsWf (ds : List Nat) : Prop :=
  (∀ d ∈ ds, d < 10) ∧ (ds = [0] ∨ ∃ d r, ds = d :: r ∧ d ≠ 0)

def NumArgWf : NumArg → Prop
  | .dec _ ds _ => DigitsWf ds
  | .flt _ ds decpt => DigitsWf ds ∧ (ds = [0] → decpt = 1)
  | _ => True

theorem stz_zeros_zero (m : Nat) : stripTrailingZeros (zeros m ++ [0]) = [] := by
  have : zeros m ++ [0] = zeros (m + 1) := by unfold zeros; rw [List.replicate_succ']
  rw [this, stz_zeros]

theorem stringValue_dec (neg : Bool) (ds : List Nat) (exp : Int) (hw : DigitsWf ds) :
    stringValue (.dec neg ds exp) = FOStrings.xp1String (.dec neg ds exp) := by
  obtain ⟨hlt, hz | hhead⟩ := hw
  · -- the value is zero
    subst hz
    have hspec : FOStrings.xp1String (.dec neg [0] exp) = [0x30] := by
      simp [FOStrings.xp1String, canonNumber, stripLeadingZeros, stripTrailingZeros]
    rw [hspec]
    unfold stringValue pyDecimalF
    by_cases he : exp ≥ 0
    · have hexp : (if ([0] : List Nat).all (· == 0) = true ∧ exp > 0 then (0 : Int) else exp) = 0 := by
        by_cases h : exp > 0
        · simp [h]
        · have : exp = 0 := by omega
          simp [this]
      simp only [hexp]
      cases neg <;> simp [positional, digitChars, zeros]
    · have hexp : (if ([0] : List Nat).all (· == 0) = true ∧ exp > 0 then (0 : Int) else exp) = exp := by
        have : ¬ exp > 0 := by omega
        simp [this]
      simp only [hexp]
      have hdot : ((([0] : List Nat).length : Int) + exp) ≤ 0 := by simp; omega
      have hpos : positional [0] ((([0] : List Nat).length : Int) + exp)
          = ([0], zeros (-((([0] : List Nat).length : Int) + exp)).toNat ++ [0]) := by
        unfold positional; simp only [hdot, if_true]
      rw [hpos]
      simp only
      have hne : (zeros (-((([0] : List Nat).length : Int) + exp)).toNat ++ [0]).isEmpty = false := by simp
      simp only [hne, Bool.false_eq_true, if_false]
      have hc : ((if neg = true then [0x2D] else []) ++ digitChars [0] ++
          0x2E :: digitChars (zeros (-((([0] : List Nat).length : Int) + exp)).toNat ++ [0])).contains 0x2E = true := by
        rw [List.contains_iff_mem]; simp
      simp only [hc, if_true]
      have := rstrip_positional (if neg = true then [0x2D] else []) [0]
        (zeros (-((([0] : List Nat).length : Int) + exp)).toNat ++ [0]) (by simp)
      rw [this, stz_zeros_zero]
      cases neg <;> simp [digitChars]
  · -- a non-zero value
    have hnz : ds.all (· == 0) = false := by
      obtain ⟨d0, r0, hds, hd0⟩ := hhead
      subst hds; simp [hd0]
    unfold stringValue pyDecimalF
    simp only [hnz, Bool.false_eq_true, false_and, if_false]
    obtain ⟨hip, heq⟩ := positional_canon neg ds (ds.length + exp) hhead
    obtain ⟨hl1, hl2⟩ := positional_lt ds (ds.length + exp) hlt
    have hfinal : FOStrings.xp1String (.dec neg ds exp) = canonNumber neg ds (ds.length + exp) := rfl
    rw [hfinal]
    have hne := canon_ne_minus_zero neg ds (ds.length + exp) hhead
    generalize positional ds (↑ds.length + exp) = p at hip heq hl1 hl2
    obtain ⟨ip, fp⟩ := p
    simp only at hip heq hl1 hl2 ⊢
    have hsign : (if neg = true then [0x2D] else ([] : Str)) = signStr neg := rfl
    simp only [hsign]
    by_cases hfp : fp = []
    · subst hfp
      have hst : stripTrailingZeros ([] : List Nat) = [] := rfl
      simp only [hst, if_true, List.append_nil] at heq
      simp only [List.isEmpty_nil, if_true, List.append_nil]
      have hc : (signStr neg ++ digitChars ip).contains 0x2E = false := by
        cases h : (signStr neg ++ digitChars ip).contains 0x2E
        · rfl
        · rw [List.contains_iff_mem, List.mem_append] at h
          rcases h with h | h
          · unfold signStr at h; cases neg <;> simp at h
          · unfold digitChars at h
            simp only [List.mem_map] at h
            obtain ⟨d, _, hd⟩ := h
            omega
      simp only [hc, Bool.false_eq_true, if_false]
      rw [heq]
      simp only [hne, if_false]
    · have hfe : fp.isEmpty = false := by cases fp with
        | nil => exact absurd rfl hfp
        | cons _ _ => rfl
      simp only [hfe, Bool.false_eq_true, if_false]
      have hc : (signStr neg ++ digitChars ip ++ 0x2E :: digitChars fp).contains 0x2E = true := by
        rw [List.contains_iff_mem]; simp
      simp only [hc, if_true]
      rw [rstrip_positional (signStr neg) ip fp hip, heq]
      simp only [hne, if_false]

theorem stringValue_flt (neg : Bool) (ds : List Nat) (decpt : Int) (hw : DigitsWf ds)
    (hz1 : ds = [0] → decpt = 1) (ht : xp1Trigger (.flt neg ds decpt) = false) :
    stringValue (.flt neg ds decpt) = FOStrings.xp1String (.flt neg ds decpt) := by
  unfold xp1Trigger at ht
  simp only [Bool.or_eq_false_iff, Bool.and_eq_false_iff, decide_eq_false_iff_not] at ht
  obtain ⟨⟨hnegz, hlo⟩, hhi⟩ := ht
  have hexp : ¬ (decpt ≤ -4 ∨ decpt > 16) := by omega
  obtain ⟨hlt, hz | hhead⟩ := hw
  · subst hz
    have := hz1 rfl
    subst this
    have hneg : neg = false := by
      rcases hnegz with h | h
      · exact h
      · simp at h
    subst hneg
    decide
  · unfold stringValue pyFloatRepr
    simp only [hexp, if_false]
    obtain ⟨hip, heq⟩ := positional_canon neg ds decpt hhead
    obtain ⟨hl1, hl2⟩ := positional_lt ds decpt hlt
    have hfinal : FOStrings.xp1String (.flt neg ds decpt) = canonNumber neg ds decpt := rfl
    rw [hfinal]
    generalize positional ds decpt = p at hip heq hl1 hl2
    obtain ⟨ip, fp⟩ := p
    simp only at hip heq hl1 hl2 ⊢
    have hsign : (if neg = true then [0x2D] else ([] : Str)) = signStr neg := rfl
    simp only [hsign]
    -- the fraction that is printed: `fp`, or `0` for an integer
    generalize hfp' : (if fp.isEmpty = true then [0] else fp) = fp'
    have hstz : stripTrailingZeros fp' = stripTrailingZeros fp := by
      subst hfp'
      cases fp with
      | nil => simp [stripTrailingZeros]
      | cons _ _ => simp
    have hl2' : ∀ d ∈ fp', d < 10 := by
      subst hfp'
      cases fp with
      | nil => intro d hd; simp at hd; omega
      | cons _ _ => simpa using hl2
    -- characters of the text before the rstrip calls
    have hchars : ∀ c ∈ signStr neg ++ digitChars ip ++ [0x2E] ++ digitChars fp', NumChar c := by
      intro c hc
      simp only [List.mem_append, List.mem_singleton] at hc
      rcases hc with ((hc | hc) | hc) | hc
      · exact signStr_numChar neg c hc
      · exact digitChars_numChar ip hl1 c hc
      · right; left; exact hc
      · exact digitChars_numChar fp' hl2' c hc
    have hdot : (signStr neg ++ digitChars ip ++ [0x2E] ++ digitChars fp').contains 0x2E = true := by
      rw [List.contains_iff_mem]; simp
    have hnoe : (signStr neg ++ digitChars ip ++ [0x2E] ++ digitChars fp').contains 0x65 = false :=
      contains_false_of_numChar _ _ hchars (by unfold NumChar; omega)
    simp only [hdot, hnoe, Bool.not_false, Bool.and_true, if_true]
    have e : signStr neg ++ digitChars ip ++ [0x2E] ++ digitChars fp'
        = signStr neg ++ digitChars ip ++ 0x2E :: digitChars fp' := by simp
    rw [e, rstrip_positional (signStr neg) ip fp' hip, hstz, heq]
    -- characters of the canonical text
    have hcan : ∀ c ∈ canonNumber neg ds decpt, NumChar c := by
      rw [← heq]
      intro c hc
      simp only [List.mem_append] at hc
      rcases hc with (hc | hc) | hc
      · exact signStr_numChar neg c hc
      · exact digitChars_numChar ip hl1 c hc
      · split at hc
        · simp at hc
        · simp only [List.mem_cons] at hc
          rcases hc with hc | hc
          · right; left; exact hc
          · exact digitChars_numChar _ (fun d hd => hl2 d (stz_mem fp d hd)) c hc
    rw [filter_id_of_numChar _ 0x2B hcan (by unfold NumChar; omega)]
    rw [contains_false_of_numChar _ 0x65 hcan (by unfold NumChar; omega)]
    simp

/-- `string_value` of a boolean, integer, decimal or float is the XPath 1.0 `string()` of the value,
outside the trigger predicate of F09g -/
theorem stringValue_eq_xp1 (a : NumArg) (hw : NumArgWf a) (ht : xp1Trigger a = false) :
    stringValue a = FOStrings.xp1String a := by
  cases a with
  | bool b => cases b <;> rfl
  | int v => rfl
  | dec neg ds exp => exact stringValue_dec neg ds exp hw
  | fnan => rfl
  | finf neg => simp [xp1Trigger] at ht
  | flt neg ds decpt => exact stringValue_flt neg ds decpt hw.1 hw.2 ht
end EPV.Strings

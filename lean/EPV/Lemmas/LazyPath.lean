/-
Lemmas for the lazily built trees of C14 (Model/LazyPath.lean).
Idea: `get_child_position` and the last step read only the *head* of the siblings (kind, name, target),
never their children; lazily built children have the heads of the eagerly built ones.
-/
import EPV.Model.LazyPath
import EPV.Spec.NodePathSpec
namespace EPV.NodePath

/-- a node without its children -/
def hd : Node → Node
  | .elem nm nss attrs _ => .elem nm nss attrs []
  | n => n

theorem sameKind_hd (a b : Node) : sameKind a b = sameKind (hd a) (hd b) := by
  cases a <;> cases b <;> rfl

theorem childStep_hd (c : Node) (p : Nat) : childStep c p = childStep (hd c) p := by
  cases c <;> rfl

theorem gcpLoop_hd (child : Node) (kids : List Node) (k p : Nat) :
    gcpLoop sameKind child kids k p = gcpLoop sameKind (hd child) (kids.map hd) k p := by
  induction kids generalizing k p with
  | nil => rfl
  | cons c cs ih =>
    simp only [gcpLoop, List.map_cons, ← sameKind_hd]
    cases k with
    | zero => rfl
    | succ k => exact ih _ _

/-- equal heads of all siblings give the same position -/
theorem gcp_congr (k1 k2 : List Node) (i : Nat) (c1 c2 : Node) (hk : k1.map hd = k2.map hd)
    (hc : hd c1 = hd c2) :
    getChildPositionWith sameKind k1 i c1 = getChildPositionWith sameKind k2 i c2 := by
  unfold getChildPositionWith
  rw [gcpLoop_hd c1 k1, gcpLoop_hd c2 k2, hk, hc]

theorem viewKids_eq_map (l : List LNode) : viewKids l = l.map view := by
  induction l with
  | nil => rfl
  | cons c cs ih => simp [viewKids, ih]

theorem hd_view_fin (c : LNode) : hd (view c) = hd (fin c) := by
  cases c with
  | lazy src ch => cases src <;> simp [view, fin, eager, hd]
  | text => rfl
  | comment => rfl
  | pi t => rfl

theorem hd_view_reach (c : LNode) (is : List Nat) : hd (view (reach c is)) = hd (view c) := by
  cases is with
  | nil => rfl
  | cons i is =>
    cases c with
    | lazy src ch => cases src <;> simp [reach, view, hd]
    | text => rfl
    | comment => rfl
    | pi t => rfl

theorem fin_lazyChild (c : ETree) : fin (lazyChild c) = eager c := by
  cases c <;> simp [lazyChild, fin, eager]

theorem eagerKids_eq (kids : List ETree) : eagerKids kids = (lazyLoop kids).map fin := by
  induction kids with
  | nil => rfl
  | cons c cs ih =>
    simp only [eagerKids, lazyLoop, List.map_cons, List.map_append, fin_lazyChild, ih]
    cases c.tail <;> simp [fin]

/-- the children of the eagerly built element = the lazily built children, each finished -/
theorem eager_kids (src : ETree) : (eager src).kids = (lazyChildrenOf src).map fin := by
  cases src with
  | elem nm nss attrs text tail kids =>
    simp only [eager, Node.kids, lazyChildrenOf, List.map_append, eagerKids_eq]
    cases text <;> simp [fin]
  | comment t => rfl
  | pi t tl => rfl

theorem view_kids_lazy (src : ETree) (ch : List LNode) (h : (eager src).kids ≠ []) :
    (view (.lazy src ch)).kids = ch.map view := by
  cases src with
  | elem nm nss attrs text tail kids => simp [view, Node.kids, viewKids_eq_map]
  | comment t => simp [eager, Node.kids] at h
  | pi t tl => simp [eager, Node.kids] at h

/-- a node as `LazyElementNode.__iter__` creates it: a leaf, or a `LazyElementNode` with empty `children` -/
def Fresh : LNode → Prop
  | .lazy _ ch => ch = []
  | _ => True

theorem lazyLoop_fresh (kids : List ETree) : ∀ c ∈ lazyLoop kids, Fresh c := by
  induction kids with
  | nil => intro c h; simp [lazyLoop] at h
  | cons k ks ih =>
    intro c h
    simp only [lazyLoop, List.mem_cons, List.mem_append] at h
    rcases h with h | h | h
    · subst h; cases k <;> simp [lazyChild, Fresh]
    · cases hk : k.tail <;> simp [hk] at h; subst h; trivial
    · exact ih c h

theorem lazyChildrenOf_fresh (src : ETree) : ∀ c ∈ lazyChildrenOf src, Fresh c := by
  cases src with
  | elem nm nss attrs text tail kids =>
    intro c h
    simp only [lazyChildrenOf, List.mem_append] at h
    rcases h with h | h
    · cases text <;> simp at h; subst h; trivial
    · exact lazyLoop_fresh kids c h
  | comment t => intro c h; simp [lazyChildrenOf] at h
  | pi t tl => intro c h; simp [lazyChildrenOf] at h

theorem reach_leaf (c : LNode) (h : ∀ s ch, c ≠ .lazy s ch) (is : List Nat) : reach c is = c := by
  cases is with
  | nil => rfl
  | cons i is =>
    cases c with
    | lazy s ch => exact absurd rfl (h s ch)
    | text => rfl
    | comment => rfl
    | pi t => rfl

/-- heads of the siblings after a child has been entered = heads of the eagerly built siblings -/
theorem heads_set (ch : List LNode) (i : Nat) (c : LNode) (is : List Nat) (hc : ch[i]? = some c) :
    ((ch.set i (reach c is)).map view).map hd = (ch.map fin).map hd := by
  apply List.ext_getElem?
  intro j
  simp only [List.getElem?_map, List.getElem?_set]
  by_cases hij : i = j
  · subst hij
    have hlt : i < ch.length := by
      rcases Nat.lt_or_ge i ch.length with h | h
      · exact h
      · rw [List.getElem?_eq_none h] at hc; cases hc
    have hci : ch[i] = c := by
      rw [List.getElem?_eq_getElem hlt] at hc; exact Option.some.inj hc
    simp only [hlt, if_true, Option.map_some, List.getElem?_eq_getElem, Option.some.injEq]
    rw [hd_view_reach, hd_view_fin, hci]
  · simp only [hij, if_false]
    cases ch[j]? with
    | none => rfl
    | some x => simp [hd_view_fin]

/-- KEY: the path computed in the partially built tree = the path in the eagerly built tree -/
theorem pathTo_reach (is : List Nat) : ∀ src : ETree,
    pathTo (view (reach (.lazy src []) is)) is = pathTo (eager src) is := by
  induction is with
  | nil => intro src; rfl
  | cons i is ih =>
    intro src
    have hfresh := lazyChildrenOf_fresh src
    have hk2 := eager_kids src
    cases hkids : (eager src).kids with
    | nil =>
      -- nothing below: both sides are `none`
      have h2 : pathTo (eager src) (i :: is) = none := by
        simp [pathTo, pathToWith, hkids]
      have hch : lazyChildrenOf src = [] := by
        rw [hkids] at hk2
        exact List.map_eq_nil_iff.mp hk2.symm
      have h1 : (view (reach (.lazy src []) (i :: is))).kids = [] := by
        cases src <;> simp [reach, LNode.built, hch, view, Node.kids, viewKids]
      rw [h2]; simp [pathTo, pathToWith, h1]
    | cons k0 ks0 =>
      have hne : (eager src).kids ≠ [] := by rw [hkids]; simp
      simp only [reach, LNode.built]
      cases hci : (lazyChildrenOf src)[i]? with
      | none =>
        have h2 : (eager src).kids[i]? = none := by rw [hk2]; simp [hci]
        have h1 : (view (.lazy src (lazyChildrenOf src))).kids[i]? = none := by
          rw [view_kids_lazy src _ hne]; simp [hci]
        simp [pathTo, pathToWith, h1, h2]
      | some c =>
        have h2 : (eager src).kids[i]? = some (fin c) := by rw [hk2]; simp [hci]
        have hlt : i < (lazyChildrenOf src).length := by
          rcases Nat.lt_or_ge i (lazyChildrenOf src).length with h | h
          · exact h
          · rw [List.getElem?_eq_none h] at hci; cases hci
        have h1 : (view (.lazy src ((lazyChildrenOf src).set i (reach c is)))).kids[i]? =
            some (view (reach c is)) := by
          rw [view_kids_lazy src _ hne]; simp [hlt]
        have hmem : c ∈ lazyChildrenOf src := List.mem_of_getElem? hci
        have hrec : pathTo (view (reach c is)) is = pathTo (fin c) is := by
          have hf := hfresh c hmem
          cases c with
          | lazy s ch => simp only [Fresh] at hf; subst hf; exact ih s
          | text => rw [reach_leaf _ (by intro s ch h; cases h)]; rfl
          | comment => rw [reach_leaf _ (by intro s ch h; cases h)]; rfl
          | pi t => rw [reach_leaf _ (by intro s ch h; cases h)]; rfl
        have hpos := gcp_congr (view (.lazy src ((lazyChildrenOf src).set i (reach c is)))).kids
          (eager src).kids i (view (reach c is)) (fin c)
          (by rw [view_kids_lazy src _ hne, hk2]; exact heads_set _ i c is hci)
          (by rw [hd_view_reach, hd_view_fin])
        have hstep : ∀ p, childStep (view (reach c is)) p = childStep (fin c) p := by
          intro p; rw [childStep_hd, hd_view_reach, hd_view_fin, ← childStep_hd]
        simp only [pathTo] at hrec ⊢
        simp only [pathToWith, h1, h2, hrec, hpos, hstep]

/-- the node reached has the head (kind, name, attributes, namespaces) of the eagerly built one -/
theorem descend_reach (is : List Nat) : ∀ src : ETree,
    (descend (view (reach (.lazy src []) is)) is).map hd = (descend (eager src) is).map hd := by
  induction is with
  | nil => intro src; simp only [descend, reach, Option.map_some]; rw [hd_view_fin]; rfl
  | cons i is ih =>
    intro src
    have hfresh := lazyChildrenOf_fresh src
    have hk2 := eager_kids src
    cases hkids : (eager src).kids with
    | nil =>
      have hch : lazyChildrenOf src = [] := by
        rw [hkids] at hk2
        exact List.map_eq_nil_iff.mp hk2.symm
      have h1 : (view (reach (.lazy src []) (i :: is))).kids = [] := by
        cases src <;> simp [reach, LNode.built, hch, view, Node.kids, viewKids]
      simp [descend, h1, hkids]
    | cons k0 ks0 =>
      have hne : (eager src).kids ≠ [] := by rw [hkids]; simp
      simp only [reach, LNode.built]
      cases hci : (lazyChildrenOf src)[i]? with
      | none =>
        have h2 : (eager src).kids[i]? = none := by rw [hk2]; simp [hci]
        have h1 : (view (.lazy src (lazyChildrenOf src))).kids[i]? = none := by
          rw [view_kids_lazy src _ hne]; simp [hci]
        simp [descend, h1, h2]
      | some c =>
        have h2 : (eager src).kids[i]? = some (fin c) := by rw [hk2]; simp [hci]
        have hlt : i < (lazyChildrenOf src).length := by
          rcases Nat.lt_or_ge i (lazyChildrenOf src).length with h | h
          · exact h
          · rw [List.getElem?_eq_none h] at hci; cases hci
        have h1 : (view (.lazy src ((lazyChildrenOf src).set i (reach c is)))).kids[i]? =
            some (view (reach c is)) := by
          rw [view_kids_lazy src _ hne]; simp [hlt]
        have hmem : c ∈ lazyChildrenOf src := List.mem_of_getElem? hci
        have hrec : (descend (view (reach c is)) is).map hd = (descend (fin c) is).map hd := by
          have hf := hfresh c hmem
          cases c with
          | lazy s ch => simp only [Fresh] at hf; subst hf; exact ih s
          | text => rw [reach_leaf _ (by intro s ch h; cases h)]; rfl
          | comment => rw [reach_leaf _ (by intro s ch h; cases h)]; rfl
          | pi t => rw [reach_leaf _ (by intro s ch h; cases h)]; rfl
        simp only [descend, h1, h2, hrec]

theorem hd_attrs (n : Node) : (hd n).attrs = n.attrs := by cases n <;> rfl
theorem hd_nss (n : Node) : (hd n).nss = n.nss := by cases n <;> rfl

/-- all selectors: `pathOf` in the partially built tree = `pathOf` in the eagerly built tree -/
theorem pathOf_reach (src : ETree) (r : Ref) :
    pathOf (view (reach (.lazy src []) r.path)) r = pathOf (eager src) r := by
  have hp := pathTo_reach r.path src
  have hdn := descend_reach r.path src
  simp only [pathTo] at hp
  simp only [pathOf, pathOfWith, hp]
  cases h1 : descend (view (reach (.lazy src []) r.path)) r.path with
  | none =>
    rw [h1] at hdn
    cases h2 : descend (eager src) r.path with
    | none => rfl
    | some m => rw [h2] at hdn; simp at hdn
  | some n =>
    rw [h1] at hdn
    cases h2 : descend (eager src) r.path with
    | none => rw [h2] at hdn; simp at hdn
    | some m =>
      rw [h2] at hdn
      simp only [Option.map_some, Option.some.injEq] at hdn
      have ha : n.attrs = m.attrs := by rw [← hd_attrs n, hdn, hd_attrs]
      have hn : n.nss = m.nss := by rw [← hd_nss n, hdn, hd_nss]
      cases pathToWith sameKind (eager src) r.path with
      | none => rfl
      | some st => cases r.sel <;> simp [ha, hn]

end EPV.NodePath

/-
C07 — one pair of a general comparison, left operand in string, boolean, anyURI, QName: part of the 17 x 17 case analysis of
EPV/Lemmas/CompareGeneral.lean (split so that every file compiles in well under a minute).
-/
import EPV.Lemmas.CompareGeneralLemmas
set_option linter.unusedSimpArgs false
set_option linter.unusedVariables false
namespace EPV.Cmp
open EPV.CmpSpec EPV.CmpFind

def grpG1 : Atom → Bool
  | .str _ => true | .bool _ => true | .uri _ => true | .qn .. => true | _ => false

set_option maxHeartbeats 4000000 in
theorem pairGeneral_conforms_G1 (m : Mode) (op : Op) (a b : Atom) (hg : grpG1 a = true)
    (h1 : trigTol op a b = false) (h2 : trigPromotion a b = false)
    (h5 : pairSpec m op a b ≠ .error .unsupported) (h6 : pairGeneral m op a b ≠ .error .unsupported)
    (h8 : dtConsistent a b = true) :
    pairGeneral m op a b = pairSpec m op a b := by
  cases a <;> simp [grpG1] at hg <;> cases b <;>
      first
      | (gp_simp; done)
      | (simp [dtConsistent, Atom.isDT, Atom.dt] at h8; gp_simp; simp [dtCompare_eq_six _ _ _ h8]; done)
      | skip
  case str.str s t => exact (pg_str_str m op s t).1
  case str.uri s t => exact (pg_str_str m op s t).2.1
  case uri.str s t => exact (pg_str_str m op s t).2.2.1
  case uri.uri s t => exact (pg_str_str m op s t).2.2.2.1
  case str.ua s t => exact (pg_str_str m op s t).2.2.2.2.1
  case uri.ua s t => exact pg_uri_ua m op s t h6
  case qn.ua ns pre loc s => exact pg_qn_ua m op s ns pre loc h5
  case bool.ua y s => exact (pg_ua_bool m op s y).2
  case bool.bool x y => cases op <;> gp_simp <;> (cases x <;> cases y <;> decide +kernel)
  all_goals
    cases op <;> gp_simp <;>
      (try simp [six, durCmp4_dtd, durCmp4_ymd, iCmp, cmpBy, PyR.map, Op.swap]) <;>
      first
      | done
      | grind
      | (rename_i s t; by_cases h : s = t <;> simp [h] <;> grind)

end EPV.Cmp

/-
C02: sorting nodes of several trees by (tree key, position).
-/
import EPV.Model.BuilderForest
namespace EPV.Forest

theorem keyLe_trans (a b c : FNode) : keyLe a b = true → keyLe b c = true → keyLe a c = true := by
  unfold keyLe
  simp only [Bool.or_eq_true, Bool.and_eq_true, decide_eq_true_eq, beq_iff_eq]
  omega

theorem keyLe_total (a b : FNode) : (keyLe a b || keyLe b a) = true := by
  unfold keyLe
  simp only [Bool.or_eq_true, Bool.and_eq_true, decide_eq_true_eq, beq_iff_eq]
  omega

theorem keyLe_antisymm (a b : FNode) (h1 : keyLe a b = true) (h2 : keyLe b a = true) : a = b := by
  unfold keyLe at h1 h2
  simp only [Bool.or_eq_true, Bool.and_eq_true, decide_eq_true_eq, beq_iff_eq] at h1 h2
  have : a.1 = b.1 ∧ a.2 = b.2 := by omega
  exact Prod.ext this.1 this.2

theorem keyLt_keyLe {a b : FNode} (h : keyLt a b) : keyLe a b = true := by
  unfold keyLt at h; unfold keyLe
  simp only [Bool.or_eq_true, Bool.and_eq_true, decide_eq_true_eq, beq_iff_eq]
  omega

/-- KEY: whatever the enumeration order, sorting a set of forest nodes by the key gives the one
strictly increasing list with these members -/
theorem fSort_eq (s l' : List FNode) (hs : s.Pairwise keyLt) (hp : l'.Perm s) : fSort l' = s := by
  unfold fSort
  have hperm := (List.mergeSort_perm l' keyLe).trans hp
  have hsort := List.pairwise_mergeSort (le := keyLe) keyLe_trans keyLe_total l'
  refine List.Perm.eq_of_pairwise (le := fun a b => keyLe a b = true) ?_ hsort ?_ hperm
  · intro a b _ _ h1 h2; exact keyLe_antisymm a b h1 h2
  · exact hs.imp keyLt_keyLe

theorem fSort_pairwise (l : List FNode) : (fSort l).Pairwise (fun a b => keyLe a b = true) :=
  List.pairwise_mergeSort (le := keyLe) keyLe_trans keyLe_total l

theorem fSort_perm (l : List FNode) : (fSort l).Perm l := List.mergeSort_perm l keyLe

end EPV.Forest

/-
C14: the document-order enumeration `allRefs` (used by the driver to number nodes) lists exactly
the valid references.
-/
import EPV.Lemmas.NodePath
namespace EPV.NodePath

theorem valid_nil_self (n : Node) : Valid n ⟨[], .self⟩ := by simp [Valid, descend]
theorem valid_nil_attr (n : Node) (j : Nat) : Valid n ⟨[], .attr j⟩ ↔ j < n.attrs.length := by simp [Valid, descend]
theorem valid_nil_ns (n : Node) (j : Nat) : Valid n ⟨[], .ns j⟩ ↔ j < n.nss.length := by simp [Valid, descend]

theorem valid_cons (n : Node) (j : Nat) (rest : List Nat) (sel : Sel) :
    Valid n ⟨j :: rest, sel⟩ ↔ ∃ c, n.kids[j]? = some c ∧ Valid c ⟨rest, sel⟩ := by
  simp only [Valid, descend]
  cases n.kids[j]? with
  | none => simp
  | some c => simp

theorem ref_eta (r : Ref) (p : List Nat) (s : Sel) (h1 : r.path = p) (h2 : r.sel = s) : r = ⟨p, s⟩ := by
  cases r; simp_all

mutual
theorem mem_refsOf : ∀ (n : Node) (p : List Nat) (r : Ref),
    r ∈ refsOf n p ↔ ∃ rest, r.path = p ++ rest ∧ Valid n ⟨rest, r.sel⟩
  | .elem nm nss attrs kids, p, r => by
    simp only [refsOf, List.mem_append, List.mem_cons, List.mem_map, List.mem_range]
    constructor
    · rintro (((rfl | ⟨j, hj, rfl⟩) | ⟨j, hj, rfl⟩) | h)
      · exact ⟨[], by simp, valid_nil_self _⟩
      · exact ⟨[], by simp, (valid_nil_ns _ j).2 hj⟩
      · exact ⟨[], by simp, (valid_nil_attr _ j).2 hj⟩
      · obtain ⟨j, c, rest, hc, hp, hv⟩ := (mem_refsKids kids p 0 r).1 h
        exact ⟨j :: rest, by simpa using hp, (valid_cons _ j rest r.sel).2 ⟨c, hc, hv⟩⟩
    · rintro ⟨rest, hp, hv⟩
      cases rest with
      | nil =>
        simp only [List.append_nil] at hp
        cases hs : r.sel with
        | self => exact Or.inl (Or.inl (Or.inl (ref_eta r p .self hp hs)))
        | attr j =>
          rw [hs, valid_nil_attr] at hv
          exact Or.inl (Or.inr ⟨j, hv, (ref_eta r p (.attr j) hp hs).symm⟩)
        | ns j =>
          rw [hs, valid_nil_ns] at hv
          exact Or.inl (Or.inl (Or.inr ⟨j, hv, (ref_eta r p (.ns j) hp hs).symm⟩))
      | cons j rest =>
        obtain ⟨c, hc, hv'⟩ := (valid_cons _ j rest r.sel).1 hv
        exact Or.inr ((mem_refsKids kids p 0 r).2 ⟨j, c, rest, hc, by simpa using hp, hv'⟩)
  | .text, p, r => by
    simp only [refsOf, List.mem_singleton]
    constructor
    · rintro rfl; exact ⟨[], by simp, valid_nil_self _⟩
    · rintro ⟨rest, hp, hv⟩
      cases rest with
      | nil =>
        simp only [List.append_nil] at hp
        cases hs : r.sel with
        | self => exact ref_eta r p .self hp hs
        | attr j => rw [hs, valid_nil_attr] at hv; simp [Node.attrs] at hv
        | ns j => rw [hs, valid_nil_ns] at hv; simp [Node.nss] at hv
      | cons j rest => obtain ⟨c, hc, _⟩ := (valid_cons _ j rest r.sel).1 hv; simp [Node.kids] at hc
  | .comment, p, r => by
    simp only [refsOf, List.mem_singleton]
    constructor
    · rintro rfl; exact ⟨[], by simp, valid_nil_self _⟩
    · rintro ⟨rest, hp, hv⟩
      cases rest with
      | nil =>
        simp only [List.append_nil] at hp
        cases hs : r.sel with
        | self => exact ref_eta r p .self hp hs
        | attr j => rw [hs, valid_nil_attr] at hv; simp [Node.attrs] at hv
        | ns j => rw [hs, valid_nil_ns] at hv; simp [Node.nss] at hv
      | cons j rest => obtain ⟨c, hc, _⟩ := (valid_cons _ j rest r.sel).1 hv; simp [Node.kids] at hc
  | .pi t, p, r => by
    simp only [refsOf, List.mem_singleton]
    constructor
    · rintro rfl; exact ⟨[], by simp, valid_nil_self _⟩
    · rintro ⟨rest, hp, hv⟩
      cases rest with
      | nil =>
        simp only [List.append_nil] at hp
        cases hs : r.sel with
        | self => exact ref_eta r p .self hp hs
        | attr j => rw [hs, valid_nil_attr] at hv; simp [Node.attrs] at hv
        | ns j => rw [hs, valid_nil_ns] at hv; simp [Node.nss] at hv
      | cons j rest => obtain ⟨c, hc, _⟩ := (valid_cons _ j rest r.sel).1 hv; simp [Node.kids] at hc
theorem mem_refsKids : ∀ (kids : List Node) (p : List Nat) (i : Nat) (r : Ref),
    r ∈ refsKids kids p i ↔
      ∃ j c rest, kids[j]? = some c ∧ r.path = p ++ (i + j) :: rest ∧ Valid c ⟨rest, r.sel⟩
  | [], p, i, r => by simp [refsKids]
  | k :: ks, p, i, r => by
    simp only [refsKids, List.mem_append]
    constructor
    · rintro (h | h)
      · obtain ⟨rest, hp, hv⟩ := (mem_refsOf k (p ++ [i]) r).1 h
        exact ⟨0, k, rest, rfl, by simpa using hp, hv⟩
      · obtain ⟨j, c, rest, hc, hp, hv⟩ := (mem_refsKids ks p (i + 1) r).1 h
        exact ⟨j + 1, c, rest, by simpa using hc, by rw [hp]; congr 2; omega, hv⟩
    · rintro ⟨j, c, rest, hc, hp, hv⟩
      cases j with
      | zero =>
        simp only [List.getElem?_cons_zero, Option.some.injEq] at hc
        subst hc
        exact Or.inl ((mem_refsOf k (p ++ [i]) r).2 ⟨rest, by simpa using hp, hv⟩)
      | succ j =>
        simp only [List.getElem?_cons_succ] at hc
        exact Or.inr ((mem_refsKids ks p (i + 1) r).2 ⟨j, c, rest, hc, by rw [hp]; congr 2; omega, hv⟩)
end

theorem mem_allRefs_iff (top : Node) (r : Ref) : r ∈ allRefs top ↔ Valid top r := by
  unfold allRefs
  rw [mem_refsOf]
  constructor
  · rintro ⟨rest, hp, hv⟩
    simp only [List.nil_append] at hp
    have : r = ⟨rest, r.sel⟩ := ref_eta r rest r.sel hp rfl
    rw [this]; exact hv
  · intro hv
    exact ⟨r.path, by simp, hv⟩

/-! ### the enumeration has no duplicates -/

theorem nodup_map_range {β : Type} (f : Nat → β) (hf : ∀ a b, f a = f b → a = b) (n : Nat) :
    ((List.range n).map f).Nodup := by
  rw [List.Nodup, List.pairwise_map]
  exact (List.nodup_range (n := n)).imp (fun hne h => hne (hf _ _ h))

mutual
theorem nodup_refsOf : ∀ (n : Node) (p : List Nat), (refsOf n p).Nodup
  | .elem nm nss attrs kids, p => by
    simp only [refsOf]
    rw [List.nodup_append, List.nodup_append, List.nodup_cons]
    refine ⟨⟨⟨?_, ?_⟩, ?_, ?_⟩, nodup_refsKids kids p 0, ?_⟩
    · simp
    · exact nodup_map_range _ (by intro a b h; injection h with _ h; injection h) _
    · exact nodup_map_range _ (by intro a b h; injection h with _ h; injection h) _
    · intro a ha b hb
      simp only [List.mem_cons, List.mem_map, List.mem_range] at ha hb
      obtain ⟨j, _, rfl⟩ := hb
      rcases ha with rfl | ⟨i, _, rfl⟩ <;> simp
    · intro a ha b hb
      obtain ⟨j, c, rest, _, hp, _⟩ := (mem_refsKids kids p 0 b).1 hb
      have hap : a.path = p := by
        simp only [List.mem_append, List.mem_cons, List.mem_map, List.mem_range] at ha
        rcases ha with (rfl | ⟨i, _, rfl⟩) | ⟨i, _, rfl⟩ <;> rfl
      intro hab
      rw [← hab, hap] at hp
      have := congrArg List.length hp
      simp at this
  | .text, p => by simp [refsOf]
  | .comment, p => by simp [refsOf]
  | .pi t, p => by simp [refsOf]
theorem nodup_refsKids : ∀ (kids : List Node) (p : List Nat) (i : Nat), (refsKids kids p i).Nodup
  | [], p, i => by simp [refsKids]
  | k :: ks, p, i => by
    simp only [refsKids]
    rw [List.nodup_append]
    refine ⟨nodup_refsOf k (p ++ [i]), nodup_refsKids ks p (i + 1), ?_⟩
    intro a ha b hb hab
    obtain ⟨rest, hpa, _⟩ := (mem_refsOf k (p ++ [i]) a).1 ha
    obtain ⟨j, c, rest', _, hpb, _⟩ := (mem_refsKids ks p (i + 1) b).1 hb
    rw [← hab, hpa, List.append_assoc] at hpb
    have := List.append_cancel_left hpb
    simp only [List.singleton_append, List.cons.injEq] at this
    omega
end

theorem allRefs_nodup (top : Node) : (allRefs top).Nodup := nodup_refsOf top []

end EPV.NodePath

/-
C16: on the reference tree (`share = false`, `leak = false`, `lexical = true`) the variables dict
of every context agrees with the lexical environment, every closure holds variables that agree with
its lexical bindings, every partial application has a pattern of the function's arity — hence the
`scope` and `arity` triggers are never raised and every evaluation returns the dict it was given.
-/
import EPV.Lemmas.ClosuresSim
namespace EPV.Clo

/-- same visible bindings -/
def EnvEq (D L : Env) : Prop := ∀ x, D.lookup x = L.lookup x
/-- same visible bindings except possibly for `x` -/
def EnvEqX (x : Nat) (D L : Env) : Prop := ∀ y, y ≠ x → D.lookup y = L.lookup y

theorem lookup_filter_ne (k x : Nat) : ∀ (D : Env),
    (D.filter (fun p => p.1 != k)).lookup x = if x == k then none else D.lookup x
  | [] => by simp
  | (a, v) :: D => by
    simp only [List.filter_cons]
    by_cases h : a = k
    · subst h
      simp only [bne_self_eq_false, Bool.false_eq_true, if_false, List.lookup_cons, lookup_filter_ne a x D]
      by_cases hx : x = a
      · simp [hx]
      · have : (x == a) = false := by simp [hx]
        simp [this]
    · have hb : (a != k) = true := by simp [h]
      simp only [hb, if_true, List.lookup_cons, lookup_filter_ne k x D]
      by_cases hx : x = a
      · subst hx
        have : (x == k) = false := by simp [h]
        simp [this]
      · have : (x == a) = false := by simp [hx]
        simp [this]

theorem lookup_envSet (D : Env) (k : Nat) (v : Seq) (x : Nat) :
    (envSet D k v).lookup x = if x == k then some v else D.lookup x := by
  unfold envSet
  rw [List.lookup_cons, lookup_filter_ne]
  by_cases h : x = k
  · simp [h]
  · have : (x == k) = false := by simp [h]
    simp [this]

theorem lookup_envUpdate (D : Env) (x : Nat) : ∀ (new : List (Nat × Seq)),
    (envUpdate D new).lookup x = (new ++ D).lookup x
  | [] => rfl
  | (k, v) :: new => by
    have ih := lookup_envUpdate D x new
    unfold envUpdate at ih ⊢
    simp only [List.foldr_cons, lookup_envSet, List.cons_append, ih]
    rw [List.lookup_cons]
    cases x == k <;> rfl

theorem EnvEq.set {D L : Env} (h : EnvEq D L) (k : Nat) (v : Seq) : EnvEq (envSet D k v) ((k, v) :: L) := by
  intro x
  rw [lookup_envSet, List.lookup_cons, h x]
  cases x == k <;> rfl

theorem EnvEqX.set {D L : Env} {k : Nat} (h : EnvEqX k D L) (v : Seq) : EnvEq (envSet D k v) ((k, v) :: L) := by
  intro x
  rw [lookup_envSet, List.lookup_cons]
  by_cases hx : x = k
  · simp [hx]
  · have : (x == k) = false := by simp [hx]
    simp [this, h x hx]

theorem EnvEq.toX {D L : Env} (h : EnvEq D L) (k : Nat) : EnvEqX k D L := fun y _ => h y

theorem EnvEqX.ofSet {D L : Env} {k : Nat} (h : EnvEqX k D L) (v : Seq) : EnvEqX k (envSet D k v) L := by
  intro y hy
  rw [lookup_envSet]
  have : (y == k) = false := by simp [hy]
  simp [this, h y hy]

theorem EnvEq.update {e L : Env} (h : EnvEq e L) (binds : List (Nat × Seq)) :
    EnvEq (envUpdate e binds) (binds ++ L) := by
  intro x
  rw [lookup_envUpdate, List.lookup_append, List.lookup_append, h x]

/-! ### object and heap invariants -/

def codeArity : Code → Nat
  | .inline ps _ => ps.length
  | .builtin b => b.arity

def ObjOK (o : FObj) : Prop :=
  (∀ ps body, o.code = .inline ps body → ∃ e, o.env = some e ∧ EnvEq e o.lex) ∧
  (∀ pat, o.fixed = some pat → pat.length = codeArity o.code)

def HeapOK (h : List FObj) : Prop := ∀ o ∈ h, ObjOK o

/-- from a state with a good heap the computation raises neither `scope` nor `arity`, and a
successful run ends in a good heap with a result satisfying `Q` -/
def Good {α} (Q : α → Prop) (m : IM α) : Prop :=
  ∀ st, HeapOK st.heap → (m st).1.scope = false ∧ (m st).1.arity = false ∧
    ∀ a st', (m st).2 = .ok (a, st') → HeapOK st'.heap ∧ Q a

theorem Good.ret {α} {Q : α → Prop} (a : α) (h : Q a) : Good Q (pure a : IM α) := by
  intro st hh
  refine ⟨rfl, rfl, fun b st' he => ?_⟩
  simp only [IM.pure_def, Except.ok.injEq, Prod.mk.injEq] at he
  rw [← he.1, ← he.2]; exact ⟨hh, h⟩

theorem Good.thr {α} {Q : α → Prop} (e : Err) : Good Q (IM.throw e : IM α) := by
  intro st hh
  refine ⟨rfl, rfl, fun b st' he => ?_⟩
  simp [IM.throw] at he

theorem Good.bnd {α β} {Q : α → Prop} {R : β → Prop} {m : IM α} {f : α → IM β}
    (hm : Good Q m) (hf : ∀ a, Q a → Good R (f a)) : Good R (m >>= f) := by
  intro st hh
  obtain ⟨h1, h2, h3⟩ := hm st hh
  rw [IM.bind_def]
  generalize m st = r at h1 h2 h3
  obtain ⟨fl, r⟩ := r
  cases r with
  | error e => exact ⟨h1, h2, fun b st' he => by simp at he⟩
  | ok v =>
    obtain ⟨a, st1⟩ := v
    obtain ⟨hh1, hq⟩ := h3 a st1 rfl
    obtain ⟨g1, g2, g3⟩ := hf a hq st1 hh1
    simp only at h1 h2 ⊢
    refine ⟨by simp [Flags.or, h1, g1], by simp [Flags.or, h2, g2], g3⟩

theorem Good.mono {α} {Q Q' : α → Prop} {m : IM α} (h : Good Q m) (hq : ∀ a, Q a → Q' a) : Good Q' m := by
  intro st hh
  obtain ⟨h1, h2, h3⟩ := h st hh
  exact ⟨h1, h2, fun a st' he => ⟨(h3 a st' he).1, hq a (h3 a st' he).2⟩⟩

theorem Good.flag (fl : Flags) (h1 : fl.scope = false) (h2 : fl.arity = false) :
    Good (fun _ => True) (IM.flag fl) := by
  intro st hh
  refine ⟨h1, h2, fun b st' he => ?_⟩
  simp only [IM.flag, Except.ok.injEq, Prod.mk.injEq] at he
  rw [← he.2]; exact ⟨hh, trivial⟩

theorem Good.lift {α} (x : Except Err α) : Good (fun _ => True) (IM.lift x) := by
  cases x
  · exact Good.thr _
  · exact Good.ret _ trivial

theorem Good.lift' {α} (x : Except Err α) : Good (fun a => x = .ok a) (IM.lift x) := by
  cases x
  · exact Good.thr _
  · exact Good.ret _ rfl

theorem Good.single (v : Seq) : Good (fun _ => True) (IM.single v) := by
  unfold IM.single; split
  · exact Good.ret _ trivial
  · exact Good.thr _

theorem Good.alloc (o : FObj) (ho : ObjOK o) : Good (fun _ => True) (IM.alloc o) := by
  intro st hh
  refine ⟨rfl, rfl, fun b st' he => ?_⟩
  simp only [IM.alloc, Except.ok.injEq, Prod.mk.injEq] at he
  rw [← he.2]
  refine ⟨?_, trivial⟩
  intro o' ho'
  simp only [List.mem_append, List.mem_singleton] at ho'
  rcases ho' with h | h
  · exact hh o' h
  · rw [h]; exact ho

theorem Good.getObj (a : Nat) : Good ObjOK (IM.getObj a) := by
  intro st hh
  simp only [IM.getObj]
  cases h : st.heap[a]? with
  | none => exact ⟨rfl, rfl, fun b st' he => by simp at he⟩
  | some o =>
    refine ⟨rfl, rfl, fun b st' he => ?_⟩
    simp only [Except.ok.injEq, Prod.mk.injEq] at he
    rw [← he.1, ← he.2]
    exact ⟨hh, hh o (List.mem_of_getElem? h)⟩

theorem convPat_length : ∀ (ts : List STy) (p p' : List (Option Seq)), convPat ts p = .ok p' →
    p'.length = p.length
  | [], p, p', h => by cases p <;> simp [convPat, pure, Except.pure] at h <;> simp [← h]
  | t :: ts, [], p', h => by simp [convPat, pure, Except.pure] at h; simp [← h]
  | t :: ts, none :: as, p', h => by
    simp only [convPat, bind, Except.bind] at h
    cases hr : convPat ts as with
    | error e => simp [hr] at h
    | ok r =>
      simp only [hr, pure, Except.pure, Except.ok.injEq] at h
      simp [← h, convPat_length ts as r hr]
  | t :: ts, some a :: as, p', h => by
    simp only [convPat, bind, Except.bind] at h
    cases ha : convSeq t a with
    | error e => simp [ha] at h
    | ok a' =>
      cases hr : convPat ts as with
      | error e => simp [ha, hr] at h
      | ok r =>
        simp only [ha, hr, pure, Except.pure, Except.ok.injEq] at h
        simp [← h, convPat_length ts as r hr]

theorem sigPat_length (sg : Option Sig) (p p' : List (Option Seq)) (h : sigPat sg p = .ok p') :
    p'.length = p.length := by
  cases sg with
  | none => simp only [sigPat, Except.ok.injEq] at h; rw [← h]
  | some sg => exact convPat_length sg.1 p p' h

theorem refill_length : ∀ (old new : List (Option Seq)), new.length = holes old →
    (refill old new).length = old.length
  | [], _, _ => rfl
  | some v :: old, new, h => by
    have h' : new.length = holes old := by simpa [holes] using h
    simp [refill, refill_length old new h']
  | none :: old, [], h => by simp [holes] at h
  | none :: old, n :: new, h => by
    have h' : new.length = holes old := by
      simp only [holes, List.filter_cons, Option.isNone_none, if_true, List.length_cons] at h
      simpa [holes] using h
    simp [refill, refill_length old new h']

section
variable (cfg : Cfg) (hs : cfg.share = false) (hl : cfg.leak = false) (hx : cfg.lexical = true)
variable (ev : Expr → ICtx → Env → IM (Seq × Env))
variable (hev : ∀ e c D, EnvEq D c.lex → Good (fun r => r.2 = D) (ev e c D))

theorem g_checkArity (a n : Nat) : Good (fun _ => True) (checkArity a n) := by
  unfold checkArity
  apply Good.bnd (Good.getObj a); intro o _
  split
  · exact Good.ret _ trivial
  · exact Good.thr _

include hs in
theorem g_currentVars (o : FObj) : Good (fun v => v = (o.env, o.lex)) (currentVars cfg o) := by
  unfold currentVars
  rw [hs]
  exact Good.ret _ rfl

include hl hx hev in
theorem g_runBody (c : ICtx) (D : Env) (body : Expr) (binds : List (Nat × Seq)) (e lex : Env)
    (he : EnvEq e lex) : Good (fun r => r.2 = D) (runBody cfg ev c D body binds (some e) lex) := by
  unfold runBody
  simp only [hx, hl, Bool.false_eq_true, if_false]
  apply Good.bnd (hev body _ _ (he.update binds)); intro r _
  exact Good.ret _ rfl

include hs hl hx hev in
theorem g_callFn (c : ICtx) (D : Env) (a : Nat) (args : List Seq) :
    Good (fun r => r.2 = D) (callFn cfg ev c D a args) := by
  unfold callFn
  apply Good.bnd (Good.getObj a); intro o ho
  cases hc : o.code with
  | builtin b =>
    simp only
    repeat' (first
      | exact Good.thr _
      | exact Good.ret _ rfl
      | (apply Good.bnd (Good.lift _); intro _ _)
      | split)
  | inline ps body =>
    simp only
    obtain ⟨e, he1, he2⟩ := ho.1 ps body hc
    split
    · apply Good.bnd (g_currentVars cfg hs o); intro vars hv
      subst hv
      cases hf : o.fixed with
      | some pat =>
        simp only
        have hp : pat.length = ps.length := by
          have := ho.2 pat hf; rw [hc] at this; exact this
        apply Good.bnd (Good.flag _ rfl (by simp [hp])); intro _ _
        rw [he1]
        apply Good.bnd (Good.lift _); intro conv _
        apply Good.bnd (g_runBody cfg hl hx ev hev c D body _ e o.lex he2); intro r hr
        apply Good.bnd (Good.lift _); intro v _
        exact Good.ret _ hr
      | none =>
        simp only
        split
        · rw [he1]
          apply Good.bnd (Good.lift _); intro conv _
          apply Good.bnd (g_runBody cfg hl hx ev hev c D body _ e o.lex he2); intro r hr
          apply Good.bnd (Good.lift _); intro v _
          exact Good.ret _ hr
        · exact Good.thr _
    · exact Good.thr _

include hev in
theorem g_evalArgs (c : ICtx) : ∀ (as : List (Option Expr)) (D : Env), EnvEq D c.lex →
    Good (fun r => r.2 = D ∧ r.1.length = as.length) (evalArgs ev c D as)
  | [], D, _ => Good.ret _ ⟨rfl, rfl⟩
  | none :: as, D, hD => by
    simp only [evalArgs]
    apply Good.bnd (g_evalArgs c as D hD); intro r hr
    exact Good.ret _ ⟨hr.1, by simp [hr.2]⟩
  | some e :: as, D, hD => by
    simp only [evalArgs]
    apply Good.bnd (hev e c D hD); intro v hv
    rw [hv]
    apply Good.bnd (g_evalArgs c as D hD); intro r hr
    exact Good.ret _ ⟨hr.1, by simp [hr.2]⟩

include hev in
theorem g_evalList (c : ICtx) : ∀ (es : List Expr) (D : Env), EnvEq D c.lex →
    Good (fun r => r.2 = D ∧ r.1.length = es.length) (evalList ev c D es)
  | [], D, _ => Good.ret _ ⟨rfl, rfl⟩
  | e :: es, D, hD => by
    simp only [evalList]
    apply Good.bnd (hev e c D hD); intro v hv
    rw [hv]
    apply Good.bnd (g_evalList c es D hD); intro r hr
    exact Good.ret _ ⟨hr.1, by simp [hr.2]⟩

include hs hev in
theorem g_partialApply (c : ICtx) (D : Env) (hD : EnvEq D c.lex) (a : Nat) (args : List (Option Expr)) :
    Good (fun r => r.2 = D) (partialApply cfg ev c D a args) := by
  unfold partialApply
  apply Good.bnd (Good.getObj a); intro o ho
  split
  · rename_i hn
    have hn' : o.arity = args.length := by simpa [FObj.nargsOk] using hn
    apply Good.bnd (g_currentVars cfg hs o); intro vars hv
    subst hv
    apply Good.bnd (g_evalArgs ev hev c args D hD); intro r hr
    apply Good.bnd (Good.lift' _); intro pat' hpat'
    have hlen := sigPat_length _ _ _ hpat'
    apply Good.bnd (Good.alloc _ ?_); intro n _
    · exact Good.ret _ hr.1
    · refine ⟨fun ps body hcode => ho.1 ps body hcode, fun pat hpat => ?_⟩
      simp only [Option.some.injEq] at hpat
      subst hpat
      rw [hlen]
      cases hf : o.fixed with
      | none =>
        simp only
        rw [hr.2, ← hn']
        unfold FObj.arity codeArity
        rw [hf]
        cases o.code <;> rfl
      | some old =>
        simp only
        have hold := ho.2 old hf
        have : r.1.length = holes old := by
          rw [hr.2, ← hn']; unfold FObj.arity; rw [hf]
        rw [refill_length old r.1 this]
        exact hold
  · exact Good.thr _

include hev in
theorem g_funArgEval (c : ICtx) (D : Env) (hD : EnvEq D c.lex) (f : Expr) :
    Good (fun r => r.2 = D) (funArgEval ev c D f) := by
  unfold funArgEval
  apply Good.bnd (hev f c D hD); intro v hv
  apply Good.bnd (Good.single _); intro a _
  exact Good.ret _ hv

include hev in
theorem g_funArgCheck (c : ICtx) (D : Env) (hD : EnvEq D c.lex) (f : Expr) (n : Nat) :
    Good (fun r => r.2 = D) (funArgCheck ev c D f n) := by
  unfold funArgCheck
  apply Good.bnd (g_funArgEval ev hev c D hD f); intro fa hfa
  apply Good.bnd (g_checkArity _ _); intro _ _
  exact Good.ret _ hfa

include hev in
theorem g_forLoop (c : ICtx) (x : Nat) (b : Expr) : ∀ (is : Seq) (D : Env) (acc : Seq), EnvEqX x D c.lex →
    Good (fun _ => True) (forLoop ev c x b D acc is)
  | [], D, acc, _ => Good.ret _ trivial
  | i :: is, D, acc, hD => by
    simp only [forLoop]
    apply Good.bnd (hev b _ _ (hD.set [i])); intro r hr
    rw [hr]
    exact g_forLoop c x b is _ _ (hD.ofSet [i])

include hev in
theorem g_mapLoop (c : ICtx) (b : Expr) (size : Nat) : ∀ (is : Seq) (k : Nat) (D : Env) (acc : Seq),
    EnvEq D c.lex → Good (fun r => r.2 = D) (mapLoop ev c b size k D acc is)
  | [], k, D, acc, _ => Good.ret _ rfl
  | i :: is, k, D, acc, hD => by
    simp only [mapLoop]
    apply Good.bnd (hev b { c with item := some i, pos := k, size := size } D hD); intro r hr
    rw [hr]
    exact g_mapLoop c b size is _ D _ hD

include hs hl hx hev in
theorem g_hofForEach (c : ICtx) (a : Nat) : ∀ (xs : Seq) (D : Env) (acc : Seq),
    Good (fun r => r.2 = D) (hofForEach cfg ev c a D acc xs)
  | [], D, acc => Good.ret _ rfl
  | x :: xs, D, acc => by
    simp only [hofForEach]
    apply Good.bnd (g_callFn cfg hs hl hx ev hev c D a _); intro r hr
    rw [hr]
    exact g_hofForEach c a xs D _

include hs hl hx hev in
theorem g_hofFilter (c : ICtx) (a : Nat) : ∀ (xs : Seq) (D : Env) (acc : Seq),
    Good (fun r => r.2 = D) (hofFilter cfg ev c a D acc xs)
  | [], D, acc => Good.ret _ rfl
  | x :: xs, D, acc => by
    simp only [hofFilter]
    apply Good.bnd (g_callFn cfg hs hl hx ev hev c D a _); intro r hr
    rw [hr]
    split
    · exact g_hofFilter c a xs D _
    · exact Good.thr _

include hs hl hx hev in
theorem g_hofFoldLeft (c : ICtx) (a : Nat) : ∀ (xs : Seq) (D : Env) (res : Seq),
    Good (fun r => r.2 = D) (hofFoldLeft cfg ev c a D res xs)
  | [], D, res => Good.ret _ rfl
  | x :: xs, D, res => by
    simp only [hofFoldLeft]
    apply Good.bnd (g_callFn cfg hs hl hx ev hev c D a _); intro r hr
    rw [hr]
    exact g_hofFoldLeft c a xs D _

include hs hl hx hev in
theorem g_hofFoldRightRev (c : ICtx) (a : Nat) : ∀ (xs : Seq) (D : Env) (res : Seq),
    Good (fun r => r.2 = D) (hofFoldRightRev cfg ev c a D res xs)
  | [], D, res => Good.ret _ rfl
  | x :: xs, D, res => by
    simp only [hofFoldRightRev]
    apply Good.bnd (g_callFn cfg hs hl hx ev hev c D a _); intro r hr
    rw [hr]
    exact g_hofFoldRightRev c a xs D _

include hs hl hx hev in
theorem g_hofPairs (c : ICtx) (a : Nat) : ∀ (ps : List (Item × Item)) (D : Env) (acc : Seq),
    Good (fun r => r.2 = D) (hofPairs cfg ev c a D acc ps)
  | [], D, acc => Good.ret _ rfl
  | (x, y) :: ps, D, acc => by
    simp only [hofPairs]
    apply Good.bnd (g_callFn cfg hs hl hx ev hev c D a _); intro r hr
    rw [hr]
    exact g_hofPairs c a ps D _

include hs hl hx hev in
theorem g_hofKeys (ci : Bool) (c : ICtx) (a : Nat) : ∀ (xs : Seq) (D : Env) (acc : List (Item × List Int)),
    Good (fun r => r.2 = D) (hofKeys cfg ev ci c a D acc xs)
  | [], D, acc => Good.ret _ rfl
  | x :: xs, D, acc => by
    simp only [hofKeys]
    apply Good.bnd (g_callFn cfg hs hl hx ev hev c D a _); intro r hr
    rw [hr]
    apply Good.bnd (Good.lift _); intro k _
    exact g_hofKeys ci c a xs D _

include hev in
theorem g_evArith (op : AOp) (a b : Expr) (c : ICtx) (D : Env) (hD : EnvEq D c.lex) :
    Good (fun r => r.2 = D) (evArith ev op a b c D) := by
  unfold evArith
  apply Good.bnd (hev a c D hD); intro x hx'
  rw [hx']
  split
  · exact Good.thr _
  · exact Good.ret _ rfl
  · apply Good.bnd (hev b c D hD); intro y hy
    apply Good.bnd (Good.lift _); intro r _
    exact Good.ret _ hy

include hev in
theorem g_evCompare (op : COp) (a b : Expr) (c : ICtx) (D : Env) (hD : EnvEq D c.lex) :
    Good (fun r => r.2 = D) (evCompare ev op a b c D) := by
  unfold evCompare
  apply Good.bnd (hev a c D hD); intro x hx'
  rw [hx']
  apply Good.bnd (hev b c D hD); intro y hy
  apply Good.bnd (Good.lift _); intro r _
  exact Good.ret _ hy

include hs hl hx hev in
theorem g_step (e : Expr) (c : ICtx) (D : Env) (hD : EnvEq D c.lex) :
    Good (fun r => r.2 = D) (step cfg ev e c D) := by
  cases e with
  | lit n => exact Good.ret _ rfl
  | dlit n => exact Good.ret _ rfl
  | elit n => exact Good.ret _ rfl
  | slit cs => exact Good.ret _ rfl
  | nanlit => exact Good.ret _ rfl
  | inflit p => exact Good.ret _ rfl
  | negzlit => exact Good.ret _ rfl
  | tt => exact Good.ret _ rfl
  | ff => exact Good.ret _ rfl
  | emp => exact Good.ret _ rfl
  | inst t e =>
    simp only [step]
    apply Good.bnd (hev e c D hD); intro v hv
    exact Good.ret _ hv
  | var x =>
    simp only [step]
    apply Good.bnd (Good.flag _ (by simp [hD x]) rfl); intro _ _
    split
    · exact Good.ret _ rfl
    · exact Good.thr _
  | dot =>
    simp only [step]
    split
    · exact Good.ret _ rfl
    · exact Good.thr _
  | posE =>
    simp only [step]
    split
    · exact Good.ret _ rfl
    · exact Good.thr _
  | lastE =>
    simp only [step]
    split
    · exact Good.ret _ rfl
    · exact Good.thr _
  | add a b => exact g_evArith ev hev _ a b c D hD
  | sub a b => exact g_evArith ev hev _ a b c D hD
  | mul a b => exact g_evArith ev hev _ a b c D hD
  | gt a b => exact g_evCompare ev hev _ a b c D hD
  | eq a b => exact g_evCompare ev hev _ a b c D hD
  | cat a b =>
    simp only [step]
    apply Good.bnd (hev a c D hD); intro x hx'
    rw [hx']
    apply Good.bnd (hev b c D hD); intro y hy
    exact Good.ret _ hy
  | ite cnd t e =>
    simp only [step]
    apply Good.bnd (hev cnd c D hD); intro v hv
    rw [hv]
    apply Good.bnd (Good.lift _); intro b _
    split
    · exact hev t c D hD
    · exact hev e c D hD
  | forE x s b =>
    simp only [step]
    apply Good.bnd (hev s c D hD); intro xs hxs
    rw [hxs]
    apply Good.bnd (g_forLoop ev hev c x b xs.1 D [] (hD.toX x)); intro r _
    exact Good.ret _ rfl
  | letE x v b =>
    simp only [step]
    apply Good.bnd (hev v c D hD); intro xv hxv
    rw [hxv]
    apply Good.bnd (hev b _ _ (hD.set x xv.1)); intro r _
    exact Good.ret _ rfl
  | fnE t ps body =>
    simp only [step, hs, Bool.false_eq_true, if_false]
    apply Good.bnd (Good.alloc _ ⟨fun ps' body' _ => ⟨D, rfl, hD⟩, fun pat hp => by simp at hp⟩); intro n _
    exact Good.ret _ rfl
  | tfnE t ps tys rt body =>
    simp only [step, hs, Bool.false_eq_true, if_false]
    apply Good.bnd (Good.alloc _ ⟨fun ps' body' _ => ⟨D, rfl, hD⟩, fun pat hp => by simp at hp⟩); intro n _
    exact Good.ret _ rfl
  | named b =>
    simp only [step]
    apply Good.bnd (Good.alloc _ ⟨fun ps' body' hcode => by simp at hcode, fun pat hp => by simp at hp⟩); intro n _
    exact Good.ret _ rfl
  | call f args =>
    simp only [step]
    apply Good.bnd (hev f c D hD); intro fv hfv
    rw [hfv]
    apply Good.bnd (Good.single _); intro a _
    split
    · exact g_partialApply cfg hs ev hev c D hD a args
    · apply Good.bnd (g_evalList ev hev c _ D hD); intro vals hvals
      rw [hvals.1]
      exact g_callFn cfg hs hl hx ev hev c D a _
  | spart b args =>
    simp only [step]
    split
    · rename_i hlen
      apply Good.bnd (g_evalArgs ev hev c args D hD); intro r hr
      apply Good.bnd (Good.alloc _ ⟨fun ps' body' hcode => by simp at hcode, fun pat hp => by
        simp only [Option.some.injEq] at hp
        subst hp
        simp only [codeArity]
        rw [hr.2, hlen]⟩); intro n _
      exact Good.ret _ hr.1
    · exact Good.thr _
  | par e => exact hev e c D hD
  | smap a b =>
    simp only [step]
    apply Good.bnd (hev a c D hD); intro xs hxs
    rw [hxs]
    exact g_mapLoop ev hev c b _ xs.1 1 D [] hD
  | forEach s f =>
    simp only [step]
    apply Good.bnd (g_funArgCheck ev hev c D hD f 1); intro fa hfa
    rw [hfa]
    apply Good.bnd (hev s c D hD); intro xs hxs
    rw [hxs]
    exact g_hofForEach cfg hs hl hx ev hev c fa.1 xs.1 D []
  | filter s f =>
    simp only [step]
    apply Good.bnd (g_funArgCheck ev hev c D hD f 1); intro fa hfa
    rw [hfa]
    apply Good.bnd (hev s c D hD); intro xs hxs
    rw [hxs]
    exact g_hofFilter cfg hs hl hx ev hev c fa.1 xs.1 D []
  | foldL s z f =>
    simp only [step]
    apply Good.bnd (g_funArgCheck ev hev c D hD f 2); intro fa hfa
    rw [hfa]
    apply Good.bnd (hev z c D hD); intro zero hz
    rw [hz]
    apply Good.bnd (hev s c D hD); intro xs hxs
    rw [hxs]
    exact g_hofFoldLeft cfg hs hl hx ev hev c fa.1 xs.1 D _
  | foldR s z f =>
    simp only [step]
    apply Good.bnd (g_funArgCheck ev hev c D hD f 2); intro fa hfa
    rw [hfa]
    apply Good.bnd (hev z c D hD); intro zero hz
    rw [hz]
    apply Good.bnd (hev s c D hD); intro xs hxs
    rw [hxs]
    exact g_hofFoldRightRev cfg hs hl hx ev hev c fa.1 _ D _
  | pairs s1 s2 f =>
    simp only [step]
    apply Good.bnd (g_funArgCheck ev hev c D hD f 2); intro fa hfa
    rw [hfa]
    apply Good.bnd (hev s1 c D hD); intro xs hxs
    rw [hxs]
    split
    · exact Good.ret _ rfl
    · apply Good.bnd (hev s2 c D hD); intro ys hys
      rw [hys]
      exact g_hofPairs cfg hs hl hx ev hev c fa.1 _ D []
  | sortK ci s f =>
    simp only [step]
    apply Good.bnd (g_funArgCheck ev hev c D hD f 1); intro fa hfa
    rw [hfa]
    apply Good.bnd (hev s c D hD); intro xs hxs
    rw [hxs]
    split
    · exact Good.ret _ rfl
    · apply Good.bnd (g_hofKeys cfg hs hl hx ev hev ci c fa.1 xs.1 D []); intro ks hks
      split
      · exact Good.ret _ hks
      · exact Good.thr _
  | apply f ms =>
    simp only [step]
    apply Good.bnd (g_funArgEval ev hev c D hD f); intro fa hfa
    rw [hfa]
    apply Good.bnd (g_evalList ev hev c ms D hD); intro vals hvals
    rw [hvals.1]
    apply Good.bnd (Good.getObj _); intro o _
    split
    · exact g_callFn cfg hs hl hx ev hev c D fa.1 _
    · exact Good.thr _

end

/-- the invariant holds along every evaluation on the reference tree -/
theorem g_eval (cfg : Cfg) (hs : cfg.share = false) (hl : cfg.leak = false) (hx : cfg.lexical = true) :
    ∀ (n : Nat) (e : Expr) (c : ICtx) (D : Env), EnvEq D c.lex → Good (fun r => r.2 = D) (eval cfg n e c D)
  | 0, _, _, _, _ => Good.thr _
  | n + 1, e, c, D, hD => g_step cfg hs hl hx (eval cfg n) (g_eval cfg hs hl hx n) e c D hD

end EPV.Clo

/-
Helper lemmas for C06, decimal part: `decimal.Decimal` arithmetic on (coefficient, scale) pairs
against exact rational arithmetic.  Uses Mathlib tactics (ring, field_simp, push_cast) in proofs only.
-/
import EPV.Lemmas.ArithInt
import Mathlib.Tactic.Ring
import Mathlib.Tactic.FieldSimp
import Mathlib.Tactic.Linarith
import Mathlib.Tactic.Positivity
import Mathlib.Tactic.NormNum
import Mathlib.Data.Rat.Floor
open EPV.FOArith

namespace EPV.Arith

/-- value of a decimal (coefficient, scale) -/
def decVal (n : Int) (s : Nat) : Rat := (n : Rat) / (p10 s : Nat)

theorem p10_cast (s : Nat) : ((p10 s : Nat) : Rat) = (10 : Rat) ^ s := by
  unfold p10; push_cast; rfl

theorem p10_pos (s : Nat) : 0 < p10 s := by unfold p10; positivity

theorem p10_add (a b : Nat) : p10 (a + b) = p10 a * p10 b := by unfold p10; exact pow_add 10 a b

theorem p10_castR_pos (s : Nat) : (0 : Rat) < ((p10 s : Nat) : Rat) := by
  have := p10_pos s; exact_mod_cast this

/-- rescaling a coefficient does not change the value -/
theorem decVal_rescale (n : Int) (s k : Nat) : decVal (n * p10 k) (s + k) = decVal n s := by
  unfold decVal
  rw [p10_add]
  have h1 := p10_castR_pos s
  have h2 := p10_castR_pos k
  push_cast
  field_simp

theorem decVal_align (n : Int) (s t : Nat) (h : s ≤ t) : decVal (n * p10 (t - s)) t = decVal n s := by
  have := decVal_rescale n s (t - s)
  rwa [show s + (t - s) = t by omega] at this

theorem decVal_add (a b : Int) (s : Nat) : decVal (a + b) s = decVal a s + decVal b s := by
  unfold decVal; push_cast; ring

theorem decVal_neg (a : Int) (s : Nat) : decVal (-a) s = - decVal a s := by
  unfold decVal; push_cast; ring

theorem decVal_mul (a b : Int) (sa sb : Nat) : decVal (a * b) (sa + sb) = decVal a sa * decVal b sb := by
  unfold decVal
  rw [p10_add]
  have h1 := p10_castR_pos sa
  have h2 := p10_castR_pos sb
  push_cast
  field_simp

theorem ctx28_of_fits (n : Int) (s : Nat) (h : numDigits n.natAbs ≤ 28) : ctx28 n s = (n, s) := by
  unfold ctx28; simp [h]

/-- truncation of a quotient of integers is `Int.tdiv` -/
theorem trunc_div_natCast (n : Int) (d : Nat) (hd : 0 < d) : trunc ((n : Rat) / (d : Rat)) = Int.tdiv n d := by
  unfold trunc
  have hdq : (0 : Rat) < d := by exact_mod_cast hd
  by_cases hn : 0 ≤ n
  · have : (0 : Rat) ≤ (n : Rat) / d := div_nonneg (by exact_mod_cast hn) hdq.le
    rw [if_pos this]
    have := Rat.floor_intCast_div_natCast n d
    rw [Int.tdiv_eq_ediv_of_nonneg hn]
    exact this
  · have hn' : n < 0 := by omega
    have : ¬ (0 : Rat) ≤ (n : Rat) / d := by
      rw [not_le]; exact div_neg_of_neg_of_pos (by exact_mod_cast hn') hdq
    rw [if_neg this, Rat.ceil_eq_neg_floor_neg]
    have h2 : -((n : Rat) / d) = ((-n : Int) : Rat) / d := by push_cast; ring
    rw [h2]
    have h3 := Rat.floor_intCast_div_natCast (-n) d
    have : (((-n : Int) : Rat) / (d : Rat)).floor = (-n) / (d : Int) := h3
    rw [this]
    have h4 : n = -(-n) := by omega
    conv => rhs; rw [h4, Int.neg_tdiv, Int.tdiv_eq_ediv_of_nonneg (by omega : 0 ≤ -n)]

theorem trunc_div_int (a b : Int) (hb : b ≠ 0) : trunc ((a : Rat) / (b : Rat)) = Int.tdiv a b := by
  obtain ⟨d, rfl | rfl⟩ := Int.eq_nat_or_neg b
  · have hd : 0 < d := by omega
    have := trunc_div_natCast a d hd
    simpa using this
  · have hd : 0 < d := by omega
    have := trunc_div_natCast (-a) d hd
    rw [Int.tdiv_neg, ← Int.neg_tdiv, ← this]
    congr 1
    push_cast
    rw [neg_div, div_neg]


theorem tdiv_sign_mag (A B : Int) :
    A.tdiv B = if (A < 0) = (B < 0) then ((A.natAbs / B.natAbs : Nat) : Int)
               else -((A.natAbs / B.natAbs : Nat) : Int) := by
  obtain ⟨m, rfl | rfl⟩ := Int.eq_nat_or_neg A <;> obtain ⟨n, rfl | rfl⟩ := Int.eq_nat_or_neg B
  · have h1 : ¬ ((m : Int) < 0) := by omega
    have h2 : ¬ ((n : Int) < 0) := by omega
    simp [h1, h2]
  · by_cases hn : n = 0
    · subst hn; simp
    · simp [Int.tdiv_neg]
      omega
  · by_cases hm : m = 0
    · subst hm; simp
    · simp [Int.neg_tdiv]
      omega
  · by_cases hm : m = 0
    · subst hm; simp
    · by_cases hn : n = 0
      · subst hn; simp
      · have h1 : (0 < m) := by omega
        have h2 : (0 < n) := by omega
        simp [Int.neg_tdiv, Int.tdiv_neg, h1, h2]


theorem tmod_sign_mag (A B : Int) :
    A.tmod B = if A < 0 then -((A.natAbs % B.natAbs : Nat) : Int) else ((A.natAbs % B.natAbs : Nat) : Int) := by
  obtain ⟨m, rfl | rfl⟩ := Int.eq_nat_or_neg A <;> obtain ⟨n, rfl | rfl⟩ := Int.eq_nat_or_neg B
  · have h1 : ¬ ((m : Int) < 0) := by omega
    simp [h1, Int.tmod_eq_emod_of_nonneg]
  · have h1 : ¬ ((m : Int) < 0) := by omega
    simp [h1, Int.tmod_eq_emod_of_nonneg]
  · by_cases hm : m = 0
    · subst hm; simp
    · have h1 : (0 < m) := by omega
      simp [h1, Int.tmod_eq_emod_of_nonneg]
  · by_cases hm : m = 0
    · subst hm; simp
    · have h1 : (0 < m) := by omega
      simp [h1, Int.tmod_eq_emod_of_nonneg]

/-- the ratio of two decimals brought to a common scale -/
theorem decVal_div_aligned (A B : Int) (s : Nat) (hB : B ≠ 0) :
    decVal A s / decVal B s = (A : Rat) / (B : Rat) := by
  unfold decVal
  have h := p10_castR_pos s
  have hB' : (B : Rat) ≠ 0 := by exact_mod_cast hB
  field_simp

theorem natAbs_mul_p10 (a : Int) (k : Nat) : (a * (p10 k : Nat)).natAbs = a.natAbs * p10 k := by
  rw [Int.natAbs_mul]; simp

theorem mul_p10_neg_iff (a : Int) (k : Nat) : (a * (p10 k : Nat) < 0) = (a < 0) := by
  have := p10_pos k
  apply propext
  constructor
  · intro h
    by_contra hn
    have : 0 ≤ a * (p10 k : Nat) := Int.mul_nonneg (by omega) (by omega)
    omega
  · intro h
    exact Int.mul_neg_of_neg_of_pos h (by exact_mod_cast this)

theorem mul_p10_ne_zero (b : Int) (k : Nat) (hb : b ≠ 0) : b * (p10 k : Nat) ≠ 0 := by
  have := p10_pos k
  exact Int.mul_ne_zero hb (by omega)

/-- `Decimal.__floordiv__` is the truncated exact quotient -/
theorem decIdiv_eq_trunc (a : Int) (sa : Nat) (b : Int) (sb : Nat) (hb : b ≠ 0) (q : Int)
    (h : decIdiv a sa b sb = some q) : q = trunc (decVal a sa / decVal b sb) := by
  have hA := decVal_align a sa (max sa sb) (by omega)
  have hB := decVal_align b sb (max sa sb) (by omega)
  rw [← hA, ← hB, decVal_div_aligned _ _ _ (mul_p10_ne_zero b _ hb),
      trunc_div_int _ _ (mul_p10_ne_zero b _ hb), tdiv_sign_mag]
  simp only [natAbs_mul_p10, mul_p10_neg_iff]
  by_cases hq : numDigits (decQuotMag a sa b sb) > 28
  · simp [decIdiv, hq] at h
  · simp only [decIdiv, hq, if_false, Option.some.injEq] at h
    rw [← h]; rfl


theorem decVal_sub_mul (A B t : Int) (s : Nat) : decVal (A - B * t) s = decVal A s - decVal B s * (t : Rat) := by
  unfold decVal; push_cast; ring

/-- `Decimal.__mod__` is the remainder of the truncating division (when the remainder fits the context) -/
theorem decMod_eq_spec (a : Int) (sa : Nat) (b : Int) (sb : Nat) (hb : b ≠ 0) (r : Int × Nat)
    (h : decMod a sa b sb = some r)
    (hfit : numDigits ((a.natAbs * p10 (max sa sb - sa)) % (b.natAbs * p10 (max sa sb - sb))) ≤ 28) :
    decVal r.1 r.2 = decVal a sa - decVal b sb * ((trunc (decVal a sa / decVal b sb) : Int) : Rat) := by
  have hA := decVal_align a sa (max sa sb) (by omega)
  have hB := decVal_align b sb (max sa sb) (by omega)
  rw [← hA, ← hB, decVal_div_aligned _ _ _ (mul_p10_ne_zero b _ hb),
      trunc_div_int _ _ (mul_p10_ne_zero b _ hb), ← decVal_sub_mul]
  have hm := Int.mul_tdiv_add_tmod (a * (p10 (max sa sb - sa) : Nat)) (b * (p10 (max sa sb - sb) : Nat))
  have : a * (p10 (max sa sb - sa) : Nat) - b * (p10 (max sa sb - sb) : Nat) *
      (a * (p10 (max sa sb - sa) : Nat)).tdiv (b * (p10 (max sa sb - sb) : Nat)) =
      (a * (p10 (max sa sb - sa) : Nat)).tmod (b * (p10 (max sa sb - sb) : Nat)) := by omega
  rw [this, tmod_sign_mag]
  simp only [natAbs_mul_p10, mul_p10_neg_iff]
  by_cases hq : numDigits (decQuotMag a sa b sb) > 28
  · simp [decMod, hq] at h
  · simp only [decMod, hq, if_false, Option.some.injEq] at h
    rw [← h]
    by_cases ha : a < 0
    · simp only [ha, if_true]
      rw [ctx28_of_fits _ _ (by rw [Int.natAbs_neg, Int.natAbs_natCast]; exact hfit)]
    · simp only [ha, if_false]
      rw [ctx28_of_fits _ _ (by rw [Int.natAbs_natCast]; exact hfit)]

end EPV.Arith

/-
`UnicodeSubset.__eq__` after the F13 repair compares the merged forms
`list(iter_code_points(a)) == list(iter_code_points(b))`.  The forward merge of any list of valid
entries is canonical, hence (with `canon_ext`) the comparison is extensional.
-/
import EPV.Lemmas.USetIcp
import EPV.Lemmas.USetExt
namespace EPV.USet

theorem emit_canon (s e : Nat) : (if e > s + 1 then CP.rng s e else CP.one s).canon := by
  split
  · simp only [CP.canon]; omega
  · trivial

theorem emit_lo (s e : Nat) : (if e > s + 1 then CP.rng s e else CP.one s).lo = s := by
  split <;> rfl

theorem emit_hi {s e : Nat} (h : s < e) : (if e > s + 1 then CP.rng s e else CP.one s).hi = e := by
  split
  · rfl
  · simp only [CP.hi_one]; omega

theorem canon_cons_head {c : CP} {l : List CP} (hc : c.canon) (hl : Canon l)
    (hgap : ∀ d ∈ l.head?, c.hi < d.lo) : Canon (c :: l) := by
  cases l with
  | nil => exact hc
  | cons d ds => exact ⟨hc, hgap d (by simp), hl⟩

/-- forward merge loop on input sorted by first code point: canonical output whose first entry
starts at the pending start -/
theorem icpLoop_fwd_canon : ∀ (l : List CP) (s e : Nat), s < e →
    l.Pairwise (fun a b => a.lo ≤ b.lo) → (∀ c ∈ l, s ≤ c.lo ∧ c.lo < c.hi) →
    Canon (icpLoop false (some (s, e)) l) ∧ ∀ d ∈ (icpLoop false (some (s, e)) l).head?, d.lo = s := by
  intro l
  induction l with
  | nil =>
    intro s e hse _ _
    simp only [icpLoop]
    exact ⟨emit_canon s e, fun d hd => by simp at hd; subst hd; exact emit_lo s e⟩
  | cons c rest ih =>
    intro s e hse hp hall
    obtain ⟨hc1, hc2⟩ := hall c (List.mem_cons_self ..)
    obtain ⟨hpc, hpr⟩ := List.pairwise_cons.mp hp
    simp only [icpLoop, Bool.false_eq_true, if_false]
    split
    · have hall' : ∀ d ∈ rest, s ≤ d.lo ∧ d.lo < d.hi := fun d hd => hall d (List.mem_cons_of_mem _ hd)
      exact ih s (if e < c.hi then c.hi else e) (by split <;> omega) hpr hall'
    · rename_i h1
      have hall' : ∀ d ∈ rest, c.lo ≤ d.lo ∧ d.lo < d.hi :=
        fun d hd => ⟨hpc d hd, (hall d (List.mem_cons_of_mem _ hd)).2⟩
      obtain ⟨ic, ih2⟩ := ih c.lo c.hi hc2 hpr hall'
      refine ⟨canon_cons_head (emit_canon s e) ic ?_, fun d hd => by simp at hd; subst hd; exact emit_lo s e⟩
      intro d hd
      rw [emit_hi hse, ih2 d hd]
      omega

/-- the merged form computed by `iter_code_points` (forward) is canonical -/
theorem iterCodePoints_canon (l : List CP) (hv : AllValid l) : Canon (iterCodePoints false l) := by
  unfold iterCodePoints
  simp only [Bool.false_eq_true, if_false]
  have hperm := List.mergeSort_perm l (fun a b => decide (a.lo ≤ b.lo))
  have hsorted := List.pairwise_mergeSort (le := fun (a b : CP) => decide (a.lo ≤ b.lo))
    (by intro a b c h1 h2; simp only [decide_eq_true_eq] at *; omega)
    (by intro a b; simp only [Bool.or_eq_true, decide_eq_true_eq]; omega) l
  generalize l.mergeSort (fun a b => decide (a.lo ≤ b.lo)) = m at hperm hsorted
  have hvm : AllValid m := fun v hv' => hv v (hperm.mem_iff.mp hv')
  cases m with
  | nil => simp [icpLoop, Canon]
  | cons c rest =>
    have hp : (c :: rest).Pairwise (fun a b => a.lo ≤ b.lo) := hsorted.imp (by simp)
    obtain ⟨hpc, hpr⟩ := List.pairwise_cons.mp hp
    simp only [icpLoop]
    exact (icpLoop_fwd_canon rest c.lo c.hi (hvm c (List.mem_cons_self ..)) hpr
      (fun d hd => ⟨hpc d hd, hvm d (List.mem_cons_of_mem _ hd)⟩)).1

/-- model of `UnicodeSubset.__eq__` (both operands as entry lists) -/
def eqSubset (a b : List CP) : Bool := decide (iterCodePoints false a = iterCodePoints false b)

theorem eqSubset_iff (a b : List CP) (ha : AllValid a) (hb : AllValid b) :
    eqSubset a b = true ↔ ∀ x, memL x a ↔ memL x b := by
  simp only [eqSubset, decide_eq_true_eq]
  constructor
  · intro h x
    rw [← iterCodePoints_mem false a ha x, ← iterCodePoints_mem false b hb x, h]
  · intro h
    apply canon_ext _ _ (iterCodePoints_canon a ha) (iterCodePoints_canon b hb)
    intro x
    rw [iterCodePoints_mem false a ha x, iterCodePoints_mem false b hb x]
    exact h x

end EPV.USet

/-
C19 — the inside of the DOCTYPE declaration: `XmlText.intSubset` / `entityDecl` / `doctypeDecl`
against the grammar of EPV/Spec/GlobalsSpec.lean (`PrologGrammar`): on every text the grammar
derives, the scanner returns exactly the declarations the grammar derives.
-/
import EPV.Lemmas.GlobalsXmlText
namespace EPV.Globals.XmlText
open EPV.GlobalsSpec.PrologGrammar

theorem lit_system : "SYSTEM".toList = ['S', 'Y', 'S', 'T', 'E', 'M'] := by decide
theorem lit_public : "PUBLIC".toList = ['P', 'U', 'B', 'L', 'I', 'C'] := by decide
theorem lit_ndata : "NDATA".toList = ['N', 'D', 'A', 'T', 'A'] := by decide
theorem lit_entity : "<!ENTITY".toList = ['<', '!', 'E', 'N', 'T', 'I', 'T', 'Y'] := by decide
theorem lit_element : "<!ELEMENT".toList = ['<', '!', 'E', 'L', 'E', 'M', 'E', 'N', 'T'] := by decide
theorem lit_attlist : "<!ATTLIST".toList = ['<', '!', 'A', 'T', 'T', 'L', 'I', 'S', 'T'] := by decide
theorem lit_notation : "<!NOTATION".toList = ['<', '!', 'N', 'O', 'T', 'A', 'T', 'I', 'O', 'N'] := by
  decide

/-- `skipWs` stops at a character that is not white space -/
theorem skipWs_nonws (c : Char) (x : List Char) (hc : isWs c = false) : skipWs (c :: x) = c :: x := by
  simp [skipWs, List.dropWhile, hc]

theorem skipWs_ws_then (w : List Char) (c : Char) (x : List Char) (hw : w.all isWs = true)
    (hc : isWs c = false) : skipWs (w ++ c :: x) = c :: x := by
  rw [skipWs_ws_append w _ hw, skipWs_nonws c x hc]

theorem splitAt_char (c : Char) (s rest : List Char) (hs : s.contains c = false) :
    splitAt [c] (s ++ c :: rest) = some (s, rest) := by
  induction s with
  | nil => simp [splitAt, stripPrefix]
  | cons x xs ih =>
    simp only [List.contains_cons, Bool.or_eq_false_iff] at hs
    have hx : (c == x) = false := hs.1
    simp [splitAt, stripPrefix, hx, ih hs.2]

theorem after_char (c : Char) (s rest : List Char) (hs : s.contains c = false) :
    after [c] (s ++ c :: rest) = some rest := by
  induction s with
  | nil => simp [after, stripPrefix]
  | cons x xs ih =>
    simp only [List.contains_cons, Bool.or_eq_false_iff] at hs
    have hx : (c == x) = false := hs.1
    simp [after, stripPrefix, hx, ih hs.2]

theorem quoted_render (l : Lit) (rest : List Char) (hl : l.wf = true) :
    quoted (l.render ++ rest) = some (l.s, rest) := by
  have hc : l.s.contains l.quote = false := by simpa [Lit.wf] using hl
  unfold Lit.render
  cases hq : l.dq with
  | true =>
    have : l.quote = '"' := by simp [Lit.quote, hq]
    rw [this] at hc ⊢
    simp only [List.cons_append, List.append_assoc, List.nil_append, quoted]
    exact splitAt_char '"' l.s rest hc
  | false =>
    have : l.quote = '\'' := by simp [Lit.quote, hq]
    rw [this] at hc ⊢
    simp only [List.cons_append, List.append_assoc, List.nil_append, quoted]
    exact splitAt_char '\'' l.s rest hc

/-- a literal starts with a quote, which is neither white space nor a name character -/
theorem lit_head (l : Lit) (rest : List Char) :
    ∃ q x, l.render ++ rest = q :: x ∧ isWs q = false ∧ (q = '"' ∨ q = '\'') := by
  unfold Lit.render Lit.quote
  cases l.dq
  · exact ⟨'\'', _, rfl, by decide, Or.inr rfl⟩
  · exact ⟨'"', _, rfl, by decide, Or.inl rfl⟩

theorem stripPrefix_append : ∀ (p r : List Char), stripPrefix p (p ++ r) = some r
  | [], r => by simp [stripPrefix]
  | a :: p, r => by simp [stripPrefix, stripPrefix_append p r]

/-- white space, then a literal: `quoted ∘ skipWs` reads the literal -/
theorem quoted_after_ws (w : List Char) (l : Lit) (rest : List Char) (hw : w.all isWs = true)
    (hl : l.wf = true) : quoted (skipWs (w ++ (l.render ++ rest))) = some (l.s, rest) := by
  obtain ⟨q, x, hx, hq, _⟩ := lit_head l rest
  rw [hx, skipWs_ws_then w q x hw hq, ← hx]
  exact quoted_render l rest hl

theorem wsReq_all {w : List Char} (h : wsReq w = true) : w.all isWs = true := by
  simp only [wsReq, Bool.and_eq_true] at h; exact h.2

theorem externalId_render (x : ExtIdG) (rest : List Char) (hx : x.wf = true) :
    externalId (x.render ++ rest) = some (true, rest) := by
  simp only [ExtIdG.wf, Bool.and_eq_true] at hx
  obtain ⟨⟨hwk, hsys⟩, hpub⟩ := hx
  unfold externalId ExtIdG.render
  cases hp : x.pub with
  | none =>
    simp only [lit_system, List.cons_append, List.nil_append, List.append_assoc]
    rw [skipWs_nonws 'S' _ (by decide)]
    have := stripPrefix_append ['S', 'Y', 'S', 'T', 'E', 'M'] (x.wk ++ (x.sys.render ++ rest))
    simp only [List.cons_append, List.nil_append] at this
    simp only [this, quoted_after_ws x.wk x.sys rest (wsReq_all hwk) hsys, Option.map_some]
  | some pw =>
    obtain ⟨p, wp⟩ := pw
    simp only [hp, Bool.and_eq_true] at hpub
    simp only [lit_system, lit_public, List.cons_append, List.nil_append, List.append_assoc]
    rw [skipWs_nonws 'P' _ (by decide)]
    have h1 : stripPrefix ['S', 'Y', 'S', 'T', 'E', 'M']
        ('P' :: 'U' :: 'B' :: 'L' :: 'I' :: 'C' :: (x.wk ++ (p.render ++ (wp ++ (x.sys.render ++ rest))))) = none := by
      simp [stripPrefix]
    have h2 := stripPrefix_append ['P', 'U', 'B', 'L', 'I', 'C']
      (x.wk ++ (p.render ++ (wp ++ (x.sys.render ++ rest))))
    simp only [List.cons_append, List.nil_append] at h2
    simp only [h1, h2]
    rw [quoted_after_ws x.wk p _ (wsReq_all hwk) hpub.1]
    simp only [Option.bind_eq_bind, Option.bind_some, bind]
    rw [quoted_after_ws wp x.sys rest (wsReq_all hpub.2) hsys]
    rfl

theorem skipDecl_ch (f : Nat) (c : Char) (cs : List Char) (h1 : c ≠ '>') (h2 : c ≠ '"') (h3 : c ≠ '\'') :
    skipDecl (f + 1) (c :: cs) = skipDecl f cs := by
  rw [skipDecl.eq_def]
  split <;> simp_all

/-- an abstract declaration body is skipped up to its `>` -/
theorem skipDecl_render : ∀ (cks : List Chunk) (rest : List Char) (fuel : Nat),
    cks.all Chunk.wf = true → cks.length < fuel →
    skipDecl fuel (renderChunks cks ++ '>' :: rest) = some rest
  | [], rest, fuel, _, hf => by
    obtain ⟨f, rfl⟩ : ∃ f, fuel = f + 1 := ⟨fuel - 1, by omega⟩
    simp [renderChunks, skipDecl]
  | ck :: cks, rest, fuel, hw, hf => by
    obtain ⟨f, rfl⟩ : ∃ f, fuel = f + 1 := ⟨fuel - 1, by omega⟩
    simp only [List.all_cons, Bool.and_eq_true] at hw
    have ih := skipDecl_render cks rest f hw.2 (by simp at hf; omega)
    have hr : renderChunks (ck :: cks) = ck.render ++ renderChunks cks := by
      simp [renderChunks]
    rw [hr]
    cases ck with
    | ch c =>
      simp only [Chunk.wf, Bool.and_eq_true, bne_iff_ne, ne_eq] at hw
      obtain ⟨⟨⟨h1, h2⟩, h3⟩, _⟩ := hw
      simp only [Chunk.render, List.cons_append, List.nil_append]
      rw [skipDecl_ch f c _ h1 h2 h3]
      exact ih
    | lit l =>
      simp only [Chunk.wf] at hw
      have hc : l.s.contains l.quote = false := by simpa [Lit.wf] using hw.1
      simp only [Chunk.render, Lit.render, List.cons_append, List.append_assoc, List.nil_append]
      cases hq : l.dq with
      | true =>
        have hqq : l.quote = '"' := by simp [Lit.quote, hq]
        rw [hqq] at hc ⊢
        simp only [skipDecl, after_char '"' l.s _ hc, Option.bind_some, Option.bind_eq_bind]
        exact ih
      | false =>
        have hqq : l.quote = '\'' := by simp [Lit.quote, hq]
        rw [hqq] at hc ⊢
        simp only [skipDecl, after_char '\'' l.s _ hc, Option.bind_some, Option.bind_eq_bind]
        exact ih

theorem name_not_ws (c : Char) (h : isNameChar c = true) : isWs c = false := by
  cases hw : isWs c with
  | false => rfl
  | true => rw [isWs_not_name c hw] at h; cases h

/-- a name: its first character, which is a name character -/
theorem nameOk_head {n : List Char} (h : nameOk n = true) :
    ∃ c t, n = c :: t ∧ isNameChar c = true ∧ n.all isNameChar = true := by
  simp only [nameOk, Bool.and_eq_true, Bool.not_eq_eq_eq_not, Bool.not_true] at h
  cases n with
  | nil => simp at h
  | cons c t =>
    have h2 := h.2
    simp only [List.all_cons, Bool.and_eq_true] at h2
    exact ⟨c, t, rfl, h2.1, h.2⟩

theorem wsReq_head {w : List Char} (h : wsReq w = true) :
    ∃ c t, w = c :: t ∧ isWs c = true := by
  simp only [wsReq, Bool.and_eq_true, Bool.not_eq_eq_eq_not, Bool.not_true] at h
  cases w with
  | nil => simp at h
  | cons c t =>
    have h2 := h.2
    simp only [List.all_cons, Bool.and_eq_true] at h2
    exact ⟨c, t, rfl, h2.1⟩

/-- white space, then `>` -/
theorem gt_after_ws (w rest : List Char) (hw : w.all isWs = true) :
    stripPrefix ['>'] (skipWs (w ++ '>' :: rest)) = some rest := by
  rw [skipWs_ws_then w '>' rest hw (by decide)]
  simp [stripPrefix]

/-- a name followed by white space is read back exactly -/
theorem takeName_then_ws (n w x : List Char) (hn : nameOk n = true) (hw : wsReq w = true) :
    takeName (n ++ (w ++ x)) = (n, w ++ x) := by
  obtain ⟨_, _, _, _, hall⟩ := nameOk_head hn
  obtain ⟨c, t, rfl, hc⟩ := wsReq_head hw
  exact takeName_target n _ hall (by simpa using isWs_not_name c hc)

/-- the head of an entity definition: a quote, or `S` / `P` -/
theorem extId_head (x : ExtIdG) (rest : List Char) :
    ∃ q y, x.render ++ rest = q :: y ∧ (q = 'S' ∨ q = 'P') := by
  unfold ExtIdG.render
  cases x.pub with
  | none => exact ⟨'S', 'Y' :: 'S' :: 'T' :: 'E' :: 'M' :: (x.wk ++ (x.sys.render ++ rest)),
      by simp [lit_system], Or.inl rfl⟩
  | some pw => exact ⟨'P', 'U' :: 'B' :: 'L' :: 'I' :: 'C' ::
      (x.wk ++ (pw.fst.render ++ (pw.snd ++ (x.sys.render ++ rest)))), by simp [lit_public], Or.inr rfl⟩

theorem quoted_extId (x : ExtIdG) (rest : List Char) : quoted (x.render ++ rest) = none := by
  obtain ⟨q, y, h, hq⟩ := extId_head x rest
  rw [h]
  rcases hq with rfl | rfl <;> simp [quoted]

/-- the definition part of a grammatical entity declaration is read back -/
theorem entityBody_render (e : EntD) (rest : List Char) (he : e.wf = true) :
    entityBody e.param.isSome e.name (e.defn.render ++ (e.w3 ++ '>' :: rest)) = some (e.decl, rest) := by
  simp only [EntD.wf, Bool.and_eq_true] at he
  obtain ⟨⟨⟨⟨⟨_, _⟩, _⟩, _⟩, hw3⟩, hd⟩ := he
  have hw3' : e.w3.all isWs = true := hw3
  unfold entityBody EntD.decl
  cases hdef : e.defn with
  | value l =>
    simp only [hdef] at hd
    simp only [EntDef.render, quoted_render l _ hd, gt_after_ws e.w3 rest hw3', Option.map_some]
  | ext id =>
    simp only [hdef] at hd
    simp only [EntDef.render, quoted_extId, externalId_render id _ hd]
    rw [skipWs_ws_then e.w3 '>' rest hw3' (by decide)]
    simp [lit_ndata, stripPrefix]
  | ndata id w4 w5 n =>
    simp only [hdef, Bool.and_eq_true] at hd
    obtain ⟨⟨⟨⟨hid, hw4⟩, hw5⟩, hn⟩, _⟩ := hd
    simp only [EntDef.render, List.append_assoc, quoted_extId, externalId_render id _ hid]
    rw [lit_ndata]
    simp only [List.cons_append, List.nil_append]
    rw [skipWs_ws_then w4 'N' _ (wsReq_all hw4) (by decide)]
    have h1 := stripPrefix_append ['N', 'D', 'A', 'T', 'A'] (w5 ++ (n ++ (e.w3 ++ '>' :: rest)))
    simp only [List.cons_append, List.nil_append] at h1
    simp only [h1]
    obtain ⟨c, t, hnc, hc, hall⟩ := nameOk_head hn
    have h2 : skipWs (w5 ++ (n ++ (e.w3 ++ '>' :: rest))) = n ++ (e.w3 ++ '>' :: rest) := by
      rw [hnc]; exact skipWs_ws_then w5 c _ (wsReq_all hw5) (name_not_ws c hc)
    rw [h2]
    have h3 : takeName (n ++ (e.w3 ++ '>' :: rest)) = (n, e.w3 ++ '>' :: rest) := by
      apply takeName_target n _ hall
      cases hw : e.w3 with
      | nil => simp only [List.nil_append]; decide
      | cons a t' =>
        simp only [List.cons_append]
        rw [hw] at hw3'
        simp only [List.all_cons, Bool.and_eq_true] at hw3'
        exact isWs_not_name a hw3'.1
    have hne : n.isEmpty = false := by rw [hnc]; rfl
    simp only [h3, hne, Bool.false_eq_true, ↓reduceIte, gt_after_ws e.w3 rest hw3', Option.map_some]

/-- a grammatical entity declaration (after `<!ENTITY`) is read back as the declaration the
grammar derives -/
theorem entityDecl_render (e : EntD) (rest : List Char) (he : e.wf = true) :
    entityDecl (e.render ++ rest) = some (e.decl, rest) := by
  have he' := he
  simp only [EntD.wf, Bool.and_eq_true] at he'
  obtain ⟨⟨⟨⟨⟨hw1, hp⟩, hn⟩, hw2⟩, _⟩, _⟩ := he'
  obtain ⟨c, t, hnc, hc, hall⟩ := nameOk_head hn
  have hne : e.name.isEmpty = false := by rw [hnc]; rfl
  -- the text after the name
  have hbody := entityBody_render e rest he
  have hafter : ∀ X, skipWs (e.w2 ++ X) = skipWs X := fun X => skipWs_ws_append e.w2 X (wsReq_all hw2)
  have hdefhead : skipWs (e.defn.render ++ (e.w3 ++ '>' :: rest)) = e.defn.render ++ (e.w3 ++ '>' :: rest) := by
    cases e.defn with
    | value l =>
      obtain ⟨q, x, hx, hq, _⟩ := lit_head l (e.w3 ++ '>' :: rest)
      simp only [EntDef.render]; rw [hx]; exact skipWs_nonws q x hq
    | ext id =>
      obtain ⟨q, y, hy, hq⟩ := extId_head id (e.w3 ++ '>' :: rest)
      simp only [EntDef.render]; rw [hy]
      rcases hq with rfl | rfl <;> exact skipWs_nonws _ y (by decide)
    | ndata id w4 w5 n =>
      obtain ⟨q, y, hy, hq⟩ := extId_head id (w4 ++ ("NDATA".toList ++ (w5 ++ n)) ++ (e.w3 ++ '>' :: rest))
      simp only [EntDef.render, List.append_assoc] at hy ⊢; rw [hy]
      rcases hq with rfl | rfl <;> exact skipWs_nonws _ y (by decide)
  unfold entityDecl EntD.render
  cases hpar : e.param with
  | none =>
    rw [hnc] at hne ⊢
    simp only [List.append_nil, List.append_assoc, List.cons_append, List.nil_append]
    rw [skipWs_ws_then e.w1 c _ (wsReq_all hw1) (name_not_ws c hc)]
    have hpc : entityPercent (c :: (t ++ (e.w2 ++ (e.defn.render ++ (e.w3 ++ ('>' :: rest))))))
        = (false, c :: (t ++ (e.w2 ++ (e.defn.render ++ (e.w3 ++ ('>' :: rest)))))) := by
      unfold entityPercent
      split
      · next heq =>
        simp only [List.cons.injEq] at heq
        rw [heq.1] at hc; exact absurd hc (by decide)
      · rfl
    rw [hpc]
    simp only
    have htn := takeName_then_ws e.name e.w2 (e.defn.render ++ (e.w3 ++ '>' :: rest)) hn hw2
    rw [hnc] at htn
    simp only [List.cons_append] at htn
    rw [htn]
    simp only [hne, Bool.false_eq_true, ↓reduceIte, hafter, hdefhead]
    rw [hpar] at hbody
    rw [hnc] at hbody
    exact hbody
  | some w =>
    simp only [hpar] at hp
    rw [hnc] at hne ⊢
    simp only [List.cons_append, List.append_assoc, List.nil_append]
    rw [skipWs_ws_then e.w1 '%' _ (wsReq_all hw1) (by decide)]
    simp only [entityPercent]
    rw [skipWs_ws_then w c _ (wsReq_all hp) (name_not_ws c hc)]
    have htn := takeName_then_ws e.name e.w2 (e.defn.render ++ (e.w3 ++ '>' :: rest)) hn hw2
    rw [hnc] at htn
    simp only [List.cons_append] at htn
    rw [htn]
    simp only [hne, Bool.false_eq_true, ↓reduceIte, hafter, hdefhead]
    rw [hpar] at hbody
    rw [hnc] at hbody
    exact hbody

theorem length_renderChunks (b : List Chunk) : b.length ≤ (renderChunks b).length := by
  induction b with
  | nil => simp [renderChunks]
  | cons c t ih =>
    have : renderChunks (c :: t) = c.render ++ renderChunks t := by simp [renderChunks]
    rw [this]
    cases c with
    | ch c => simp [Chunk.render]; omega
    | lit l => simp [Chunk.render, Lit.render]; omega

/-- an abstract declaration (keyword already stripped): skipped with the fuel the scanner uses -/
theorem skipDecl_self (b : List Chunk) (R : List Char) (hb : b.all Chunk.wf = true) :
    skipDecl (renderChunks b ++ '>' :: R).length (renderChunks b ++ '>' :: R) = some R := by
  apply skipDecl_render b R _ hb
  have := length_renderChunks b
  simp only [List.length_append, List.length_cons]; omega

theorem reverse_cons_append {α : Type} (d : α) (acc l : List α) :
    (d :: acc).reverse ++ l = acc.reverse ++ d :: l := by simp

/-! one scanner step per kind of item -/

theorem step_peRef (f : Nat) (w n R : List Char) (acc : List Decl) (live : Bool)
    (hw : w.all isWs = true) (hn : nameOk n = true) :
    intSubset (f + 1) (w ++ ((SubItem.peRef n).render ++ R)) acc live = intSubset f R acc false := by
  obtain ⟨c, t, hnc, hc, hall⟩ := nameOk_head hn
  conv => lhs; unfold intSubset
  simp only [SubItem.render, List.cons_append, List.append_assoc, List.nil_append]
  rw [skipWs_ws_then w '%' _ hw (by decide)]
  have htn : takeName (n ++ ';' :: R) = (n, ';' :: R) :=
    takeName_target n (';' :: R) hall (by show isNameChar ';' = false; decide)
  have hne : n.isEmpty = false := by rw [hnc]; rfl
  simp only [htn, hne, Bool.false_eq_true, ↓reduceIte]

theorem step_comment (f : Nat) (w b R : List Char) (acc : List Decl) (live : Bool)
    (hw : w.all isWs = true) (hb : noDD b = true) :
    intSubset (f + 1) (w ++ ((SubItem.comment b).render ++ R)) acc live
      = intSubset f R (.comment :: acc) live := by
  conv => lhs; unfold intSubset
  simp only [SubItem.render, List.cons_append, List.append_assoc, List.nil_append]
  rw [skipWs_ws_then w '<' _ hw (by decide)]
  simp only [lit_comment, stripPrefix, beq_self_eq_true, ↓reduceIte, afterComment_render b R hb]
  split
  · next heq => exact absurd (List.cons.inj heq).1 (by decide)
  · next heq => exact absurd (List.cons.inj heq).1 (by decide)
  · rfl

theorem step_pi (f : Nat) (w b R : List Char) (acc : List Decl) (live : Bool)
    (hw : w.all isWs = true) (hb : noQG b = true) :
    intSubset (f + 1) (w ++ ((SubItem.pi b).render ++ R)) acc live
      = intSubset f R (.pi :: acc) live := by
  conv => lhs; unfold intSubset
  simp only [SubItem.render, List.cons_append, List.append_assoc, List.nil_append]
  rw [skipWs_ws_then w '<' _ hw (by decide)]
  have e1 : ('!' == '?') = false := by decide
  simp only [lit_comment, lit_pi, lit_qg, stripPrefix, beq_self_eq_true, ↓reduceIte, e1,
    Bool.false_eq_true, after_qg b R hb]
  split
  · next heq => exact absurd (List.cons.inj heq).1 (by decide)
  · next heq => exact absurd (List.cons.inj heq).1 (by decide)
  · rfl

theorem step_entity (f : Nat) (w R : List Char) (e : EntD) (acc : List Decl) (live : Bool)
    (hw : w.all isWs = true) (he : e.wf = true) :
    intSubset (f + 1) (w ++ ((SubItem.entity e).render ++ R)) acc live
      = intSubset f R ((if live then e.decl else .element) :: acc) live := by
  conv => lhs; unfold intSubset
  simp only [SubItem.render, List.cons_append, List.append_assoc, List.nil_append]
  rw [skipWs_ws_then w '<' _ hw (by decide)]
  have e1 : ('-' == 'E') = false := by decide
  have e2 : ('?' == '!') = false := by decide
  simp only [lit_comment, lit_pi, lit_entity, stripPrefix, beq_self_eq_true, ↓reduceIte, e1, e2,
    Bool.false_eq_true, entityDecl_render e R he]
  split
  · next heq => exact absurd (List.cons.inj heq).1 (by decide)
  · next heq => exact absurd (List.cons.inj heq).1 (by decide)
  · rfl

theorem step_element (f : Nat) (w R : List Char) (b : List Chunk) (acc : List Decl) (live : Bool)
    (hw : w.all isWs = true) (hb : b.all Chunk.wf = true) :
    intSubset (f + 1) (w ++ ((SubItem.element b).render ++ R)) acc live
      = intSubset f R (.element :: acc) live := by
  conv => lhs; unfold intSubset
  simp only [SubItem.render, List.cons_append, List.append_assoc, List.nil_append]
  rw [skipWs_ws_then w '<' _ hw (by decide)]
  have e1 : ('-' == 'E') = false := by decide
  have e2 : ('?' == '!') = false := by decide
  have e3 : ('N' == 'L') = false := by decide
  simp only [lit_comment, lit_pi, lit_entity, lit_element, stripPrefix, beq_self_eq_true, ↓reduceIte, e1, e2, e3,
    Bool.false_eq_true, skipDecl_self b R hb]
  split
  · next heq => exact absurd (List.cons.inj heq).1 (by decide)
  · next heq => exact absurd (List.cons.inj heq).1 (by decide)
  · rfl

theorem step_attlist (f : Nat) (w R : List Char) (b : List Chunk) (acc : List Decl) (live : Bool)
    (hw : w.all isWs = true) (hb : b.all Chunk.wf = true) :
    intSubset (f + 1) (w ++ ((SubItem.attlist b).render ++ R)) acc live
      = intSubset f R (.attlist :: acc) live := by
  conv => lhs; unfold intSubset
  simp only [SubItem.render, List.cons_append, List.append_assoc, List.nil_append]
  rw [skipWs_ws_then w '<' _ hw (by decide)]
  have e1 : ('-' == 'A') = false := by decide
  have e2 : ('?' == '!') = false := by decide
  have e3 : ('E' == 'A') = false := by decide
  simp only [lit_comment, lit_pi, lit_entity, lit_element, lit_attlist, stripPrefix, beq_self_eq_true, ↓reduceIte,
    e1, e2, e3, Bool.false_eq_true, skipDecl_self b R hb]
  split
  · next heq => exact absurd (List.cons.inj heq).1 (by decide)
  · next heq => exact absurd (List.cons.inj heq).1 (by decide)
  · rfl

theorem step_notation (f : Nat) (w R : List Char) (b : List Chunk) (acc : List Decl) (live : Bool)
    (hw : w.all isWs = true) (hb : b.all Chunk.wf = true) :
    intSubset (f + 1) (w ++ ((SubItem.notation b).render ++ R)) acc live
      = intSubset f R (.notation :: acc) live := by
  conv => lhs; unfold intSubset
  simp only [SubItem.render, List.cons_append, List.append_assoc, List.nil_append]
  rw [skipWs_ws_then w '<' _ hw (by decide)]
  have e1 : ('-' == 'N') = false := by decide
  have e2 : ('?' == '!') = false := by decide
  have e3 : ('E' == 'N') = false := by decide
  have e4 : ('A' == 'N') = false := by decide
  simp only [lit_comment, lit_pi, lit_entity, lit_element, lit_attlist, lit_notation, stripPrefix,
    beq_self_eq_true, ↓reduceIte, e1, e2, e3, e4, Bool.false_eq_true, skipDecl_self b R hb]
  split
  · next heq => exact absurd (List.cons.inj heq).1 (by decide)
  · next heq => exact absurd (List.cons.inj heq).1 (by decide)
  · rfl

/-- **The internal subset is read back exactly.**  On the text of any internal subset the grammar
derives (items in any number and order, each preceded by optional white space, closed by `]`),
`intSubset` returns the declarations the grammar derives — processed entity declarations while
no parameter-entity reference has been passed, inert ones after — and the text after the `]`. -/
theorem intSubset_parses : ∀ (items : List (List Char × SubItem)) (wi rest : List Char)
    (fuel : Nat) (acc : List Decl) (live : Bool),
    items.length < fuel → subsetWf items = true → wsOk wi = true →
    intSubset fuel (renderSubset items ++ (wi ++ ']' :: rest)) acc live
      = (acc.reverse ++ subsetDecls live items, some rest)
  | [], wi, rest, fuel, acc, live, hf, _, hwi => by
    obtain ⟨f, rfl⟩ : ∃ f, fuel = f + 1 := ⟨fuel - 1, by simp at hf; omega⟩
    conv => lhs; unfold intSubset
    simp only [renderSubset, List.nil_append]
    rw [skipWs_ws_then wi ']' rest hwi (by decide)]
    simp [subsetDecls]
  | (w, it) :: r, wi, rest, fuel, acc, live, hf, hi, hwi => by
    obtain ⟨f, rfl⟩ : ∃ f, fuel = f + 1 := ⟨fuel - 1, by simp at hf; omega⟩
    have hf' : r.length < f := by simp at hf; omega
    simp only [subsetWf, List.all_cons, Bool.and_eq_true] at hi
    obtain ⟨⟨hw, hit⟩, hr⟩ := hi
    have hw' : w.all isWs = true := hw
    have ih := fun acc' live' =>
      intSubset_parses r wi rest f acc' live' hf' (by simpa [subsetWf] using hr) hwi
    simp only [renderSubset, List.append_assoc]
    cases it with
    | peRef n =>
      rw [step_peRef f w n _ acc live hw' (by simpa only [SubItem.wf] using hit), ih]; rfl
    | comment b =>
      rw [step_comment f w b _ acc live hw' (by simpa only [SubItem.wf] using hit), ih,
        reverse_cons_append]; rfl
    | pi b =>
      rw [step_pi f w b _ acc live hw' (by simpa only [SubItem.wf] using hit), ih,
        reverse_cons_append]; rfl
    | entity e =>
      rw [step_entity f w _ e acc live hw' (by simpa only [SubItem.wf] using hit), ih,
        reverse_cons_append]; rfl
    | element b =>
      rw [step_element f w _ b acc live hw' (by simpa only [SubItem.wf] using hit), ih,
        reverse_cons_append]; rfl
    | attlist b =>
      rw [step_attlist f w _ b acc live hw' (by simpa only [SubItem.wf] using hit), ih,
        reverse_cons_append]; rfl
    | «notation» b =>
      rw [step_notation f w _ b acc live hw' (by simpa only [SubItem.wf] using hit), ih,
        reverse_cons_append]; rfl

theorem length_renderSubset (items : List (List Char × SubItem)) :
    items.length ≤ (renderSubset items).length := by
  induction items with
  | nil => simp [renderSubset]
  | cons x r ih =>
    obtain ⟨w, it⟩ := x
    cases it <;> simp [renderSubset, SubItem.render] <;> omega

theorem doctypeTail_parses (d : DoctypeG) (rest : List Char) (hd : d.wf = true) :
    doctypeTail d.ext.isSome (d.w2 ++ (d.renderSub ++ '>' :: rest)) = (d.value, some rest) := by
  simp only [DoctypeG.wf, Bool.and_eq_true] at hd
  obtain ⟨⟨⟨_, hw2⟩, _⟩, hsub⟩ := hd
  have hw2' : d.w2.all isWs = true := hw2
  unfold doctypeTail DoctypeG.renderSub DoctypeG.value
  cases hs : d.subset with
  | none =>
    simp only [List.nil_append]
    rw [skipWs_ws_then d.w2 '>' rest hw2' (by decide)]
    split
    · next heq => exact absurd (List.cons.inj heq).1 (by decide)
    · next heq => rw [(List.cons.inj heq).2]
    · next h1 h2 => exact absurd rfl (h2 _)
  | some p =>
    obtain ⟨items, wi, w3⟩ := p
    simp only [hs, Bool.and_eq_true] at hsub
    obtain ⟨⟨hit, hwi⟩, hw3⟩ := hsub
    simp only [List.cons_append, List.append_assoc]
    rw [skipWs_ws_then d.w2 '[' _ hw2' (by decide)]
    simp only
    have hlen : items.length < (renderSubset items ++ (wi ++ ']' :: (w3 ++ '>' :: rest))).length + 1 := by
      have := length_renderSubset items
      simp only [List.length_append]; omega
    rw [intSubset_parses items wi (w3 ++ '>' :: rest) _ [] true hlen hit hwi]
    simp only [List.reverse_nil, List.nil_append, gt_after_ws w3 rest hw3]

/-- the text after the name and external identifier starts with white space, `[` or `>` -/
theorem doctype_after_head (d : DoctypeG) (rest : List Char) (hw2 : d.w2.all isWs = true) :
    ∃ q y, skipWs (d.w2 ++ (d.renderSub ++ '>' :: rest)) = q :: y ∧ (q = '[' ∨ q = '>') := by
  unfold DoctypeG.renderSub
  cases d.subset with
  | none => exact ⟨'>', rest, by simpa using skipWs_ws_then d.w2 '>' rest hw2 (by decide), Or.inr rfl⟩
  | some p =>
    obtain ⟨items, wi, w3⟩ := p
    exact ⟨'[', _, by simpa using skipWs_ws_then d.w2 '[' _ hw2 (by decide), Or.inl rfl⟩

/-- … and that first character is not a name character -/
theorem doctype_text_head (d : DoctypeG) (rest : List Char) (hw2 : d.w2.all isWs = true) :
    ∃ q y, d.w2 ++ (d.renderSub ++ '>' :: rest) = q :: y ∧ isNameChar q = false := by
  cases hw : d.w2 with
  | cons a t' =>
    rw [hw] at hw2
    simp only [List.all_cons, Bool.and_eq_true] at hw2
    exact ⟨a, _, rfl, isWs_not_name a hw2.1⟩
  | nil =>
    unfold DoctypeG.renderSub
    cases d.subset with
    | none => exact ⟨'>', rest, rfl, by decide⟩
    | some p => exact ⟨'[', _, rfl, by decide⟩

/-- **The DOCTYPE declaration is read back exactly** (`<!DOCTYPE` already consumed): name, optional
external identifier, optional internal subset, `>` -/
theorem doctypeDecl_parses (d : DoctypeG) (rest : List Char) (hd : d.wf = true) :
    doctypeDecl (d.render ++ rest) = (d.value, some rest) := by
  have hd0 := hd
  simp only [DoctypeG.wf, Bool.and_eq_true] at hd
  obtain ⟨⟨⟨⟨hw1, hn⟩, hw2⟩, hext⟩, hsub⟩ := hd
  have hw2' : d.w2.all isWs = true := hw2
  obtain ⟨c, t, hnc, hc, hall⟩ := nameOk_head hn
  have hne : d.name.isEmpty = false := by rw [hnc]; rfl
  have htail := doctypeTail_parses d rest hd0
  obtain ⟨q, y, hqy, hq⟩ := doctype_after_head d rest hw2'
  unfold doctypeDecl DoctypeG.render
  simp only [List.append_assoc, List.cons_append, List.nil_append]
  have hsk : skipWs (d.w1 ++ (d.name ++ (d.renderExt ++ (d.w2 ++ (d.renderSub ++ '>' :: rest)))))
      = d.name ++ (d.renderExt ++ (d.w2 ++ (d.renderSub ++ '>' :: rest))) := by
    rw [hnc]; exact skipWs_ws_then d.w1 c _ (wsReq_all hw1) (name_not_ws c hc)
  rw [hsk]
  unfold DoctypeG.renderExt at *
  cases hx : d.ext with
  | none =>
    simp only [hx, List.nil_append] at htail ⊢
    have hy : match d.w2 ++ (d.renderSub ++ '>' :: rest) with
        | [] => True | c :: _ => isNameChar c = false := by
      obtain ⟨q0, y0, h0, hq0⟩ := doctype_text_head d rest hw2'
      rw [h0]; exact hq0
    rw [takeName_target d.name _ hall hy]
    simp only [hne, Bool.false_eq_true, ↓reduceIte]
    -- no external identifier
    have hE : externalId (d.w2 ++ (d.renderSub ++ '>' :: rest)) = some (false, q :: y) := by
      unfold externalId
      simp only [lit_system, lit_public, hqy]
      rcases hq with rfl | rfl <;> simp [stripPrefix]
    rw [hE]
    simp only
    -- doctypeTail skips the (already skipped) white space again
    have hidem : doctypeTail false (q :: y) = doctypeTail false (d.w2 ++ (d.renderSub ++ '>' :: rest)) := by
      unfold doctypeTail
      rw [hqy]
      rcases hq with rfl | rfl <;> rw [skipWs_nonws _ y (by decide)]
    rw [hidem]
    simpa using htail
  | some wx =>
    obtain ⟨wE, x⟩ := wx
    simp only [hx, Bool.and_eq_true] at hext
    simp only [hx, List.append_assoc] at htail ⊢
    rw [takeName_then_ws d.name wE _ hn hext.1]
    simp only [hne, Bool.false_eq_true, ↓reduceIte]
    have hE : externalId (wE ++ (x.render ++ (d.w2 ++ (d.renderSub ++ '>' :: rest))))
        = some (true, d.w2 ++ (d.renderSub ++ '>' :: rest)) := by
      have h0 := externalId_render x (d.w2 ++ (d.renderSub ++ '>' :: rest)) hext.2
      unfold externalId at h0 ⊢
      simp only at h0 ⊢
      rw [skipWs_ws_append wE _ (wsReq_all hext.1)]
      exact h0
    rw [hE]
    simpa using htail

/-! ### the whole prolog -/

/-- `misc` walks over `Misc*` whatever it has recorded so far -/
theorem misc_skip : ∀ (items : List (List Char × MiscItem)) (X : List Char) (fuel n : Nat)
    (dt : Option (Bool × List Decl)) (c xd : Bool), miscWf items = true →
    misc (fuel + items.length) (renderMisc items ++ X) n dt c xd
      = misc fuel X (if dt.isNone then n + items.length else n) dt c xd
  | [], X, fuel, n, dt, c, xd, _ => by cases dt <;> simp [renderMisc]
  | (w, it) :: rest, X, fuel, n, dt, c, xd, hi => by
    simp only [miscWf, List.all_cons, Bool.and_eq_true] at hi
    obtain ⟨⟨hw, hit⟩, hrest⟩ := hi
    have ih := fun n' => misc_skip rest X fuel n' dt c xd (by simpa [miscWf] using hrest)
    have hfuel : fuel + ((w, it) :: rest).length = (fuel + rest.length) + 1 := by simp; omega
    rw [hfuel]
    conv => lhs; unfold misc
    simp only [renderMisc, List.append_assoc, skipWs_ws_append w _ hw]
    cases it with
    | comment b =>
      simp only [MiscItem.wf] at hit
      simp only [MiscItem.render, List.cons_append, List.append_assoc, List.nil_append, skipWs_lt]
      rw [lit_comment]
      simp only [stripPrefix, beq_self_eq_true, ↓reduceIte, afterComment_render b _ hit]
      rw [ih]
      cases dt with
      | some v => simp
      | none =>
        simp only [Option.isNone_none, ↓reduceIte, List.length_cons]
        have : n + 1 + rest.length = n + (rest.length + 1) := by omega
        rw [this]
    | pi t b =>
      simp only [MiscItem.wf, Bool.and_eq_true, Bool.not_eq_eq_eq_not, Bool.not_true,
        bne_iff_ne, ne_eq] at hit
      obtain ⟨⟨⟨⟨hne, hall⟩, hxml⟩, hb⟩, hq⟩ := hit
      simp only [MiscItem.render, List.cons_append, List.append_assoc, List.nil_append, skipWs_lt]
      rw [lit_comment, lit_pi]
      have e2 : ('!' == '?') = false := by decide
      simp only [stripPrefix, beq_self_eq_true, ↓reduceIte, e2, Bool.false_eq_true]
      have hy : match b ++ ('?' :: '>' :: (renderMisc rest ++ X)) with
          | [] => True | c :: _ => isNameChar c = false := by
        cases b with
        | nil => simp only [List.nil_append]; decide
        | cons c0 b' => simp only [List.cons_append]; exact isWs_not_name c0 (by simpa using hb)
      rw [takeName_target t _ hall hy]
      have hx : (t.map Char.toLower == "xml".toList) = false := by simpa using hxml
      simp only [hx, Bool.false_eq_true, ↓reduceIte]
      have haft : after "?>".toList (t ++ (b ++ '?' :: '>' :: (renderMisc rest ++ X)))
          = some (renderMisc rest ++ X) := by
        rw [lit_qg, ← List.append_assoc]
        exact after_qg (t ++ b) _ hq
      simp only [haft]
      rw [ih]
      cases dt with
      | some v => simp
      | none =>
        simp only [Option.isNone_none, ↓reduceIte, List.length_cons]
        have : n + 1 + rest.length = n + (rest.length + 1) := by omega
        rw [this]

/-- the DOCTYPE step of `misc` on a grammatical declaration -/
theorem misc_doctype_step (f : Nat) (pad Y : List Char) (d : DoctypeG) (n : Nat) (c xd : Bool)
    (hp : pad.all isWs = true) (hd : d.wf = true) :
    misc (f + 1) (pad ++ ('<' :: '!' :: 'D' :: 'O' :: 'C' :: 'T' :: 'Y' :: 'P' :: 'E' :: (d.render ++ Y)))
      n none c xd = misc f Y n (some d.value) true xd := by
  conv => lhs; unfold misc
  rw [skipWs_ws_then pad '<' _ hp (by decide)]
  have e1 : ('-' == 'D') = false := by decide
  have e2 : ('?' == '!') = false := by decide
  simp only [lit_comment, lit_pi, lit_doctype, stripPrefix, beq_self_eq_true, ↓reduceIte, e1, e2,
    Bool.false_eq_true, Option.isSome_none, doctypeDecl_parses d Y hd]

/-- the final step of `misc`: the root element's start tag -/
theorem misc_root_step (f : Nat) (pad tail : List Char) (n : Nat) (dt : Option (Bool × List Decl))
    (c xd : Bool) (hp : pad.all isWs = true) (ht : startsRoot tail = true) :
    misc (f + 1) (pad ++ tail) n dt c xd = ⟨false, xd, n, dt, c, some tail⟩ := by
  unfold startsRoot at ht
  cases tail with
  | nil => simp at ht
  | cons a0 r0 =>
    cases r0 with
    | nil => split at ht <;> simp_all
    | cons a r1 =>
      split at ht
      · next c tl heq =>
        simp only [List.cons.injEq] at heq
        obtain ⟨rfl, rfl, rfl⟩ := heq
        simp only [Bool.and_eq_true, bne_iff_ne, ne_eq] at ht
        have e1 : ('!' == a) = false := by simp [Ne.symm ht.1]
        have e2 : ('?' == a) = false := by simp [Ne.symm ht.2]
        conv => lhs; unfold misc
        rw [skipWs_ws_then pad '<' _ hp (by decide)]
        simp [lit_comment, lit_pi, lit_doctype, stripPrefix, e1, e2]
      · cases ht

theorem length_miscItems (items : List (List Char × MiscItem)) :
    items.length ≤ (renderMisc items).length := length_renderMisc items

/-- the text of a whole prolog with a DOCTYPE declaration, up to the root element -/
def prologText (xd : Option (Char × List Char)) (m1 : List (List Char × MiscItem)) (p1 : List Char)
    (d : DoctypeG) (m2 : List (List Char × MiscItem)) (p2 tail : List Char) : List Char :=
  renderXmlDecl xd ++ (renderMisc m1 ++ (p1 ++
    ('<' :: '!' :: 'D' :: 'O' :: 'C' :: 'T' :: 'Y' :: 'P' :: 'E' :: (d.render ++ (renderMisc m2 ++ (p2 ++ tail))))))

/-- `misc` on `Misc* S? doctypedecl Misc* S? element…` -/
theorem misc_parses_prolog (m1 : List (List Char × MiscItem)) (p1 : List Char) (d : DoctypeG)
    (m2 : List (List Char × MiscItem)) (p2 tail : List Char) (fuel : Nat) (xd : Bool)
    (hm1 : miscWf m1 = true) (hp1 : p1.all isWs = true) (hd : d.wf = true)
    (hm2 : miscWf m2 = true) (hp2 : p2.all isWs = true) (ht : startsRoot tail = true)
    (hf : m1.length + m2.length + 2 ≤ fuel) :
    misc fuel (renderMisc m1 ++ (p1 ++ ('<' :: '!' :: 'D' :: 'O' :: 'C' :: 'T' :: 'Y' :: 'P' :: 'E' ::
      (d.render ++ (renderMisc m2 ++ (p2 ++ tail)))))) 0 none false xd
      = ⟨false, xd, m1.length, some d.value, true, some tail⟩ := by
  obtain ⟨f2, rfl⟩ : ∃ f2, fuel = ((f2 + 1) + m2.length + 1) + m1.length := ⟨fuel - m1.length - m2.length - 2, by omega⟩
  rw [misc_skip m1 _ _ 0 none false xd hm1]
  simp only [Option.isNone_none, ↓reduceIte, Nat.zero_add]
  rw [misc_doctype_step _ p1 _ d _ false xd hp1 hd]
  rw [misc_skip m2 _ (f2 + 1) _ (some d.value) true xd hm2]
  simp only [Option.isNone_some, Bool.false_eq_true, ↓reduceIte]
  exact misc_root_step f2 p2 tail _ _ true xd hp2 ht

/-- **The scanner reads the whole prolog back.**  For every text
`XMLDecl? Misc* S? '<!DOCTYPE' doctypedecl-body Misc* S? <root…` the grammar derives: the scan
records exactly the grammar's DOCTYPE value (external identifier present?, the declarations of the
internal subset with the §5.1 rule), marks it complete, counts the `Misc` items before it and
stops at the root element. -/
theorem scanProlog_parses (xd : Option (Char × List Char)) (m1 : List (List Char × MiscItem))
    (p1 : List Char) (d : DoctypeG) (m2 : List (List Char × MiscItem)) (p2 tail : List Char)
    (hx : xmlDeclWf xd = true) (hm1 : miscWf m1 = true) (hp1 : p1.all isWs = true)
    (hd : d.wf = true) (hm2 : miscWf m2 = true) (hp2 : p2.all isWs = true)
    (ht : startsRoot tail = true) :
    let p := scanProlog (prologText xd m1 p1 d m2 p2 tail)
    p.doctype = some d.value ∧ p.complete = true ∧ p.leading = m1.length ∧ p.rest = some tail ∧
      p.xmlDecl = xd.isSome := by
  have hlen : ∀ (Z : List Char), Z = renderMisc m1 ++ (p1 ++ ('<' :: '!' :: 'D' :: 'O' :: 'C' :: 'T' ::
      'Y' :: 'P' :: 'E' :: (d.render ++ (renderMisc m2 ++ (p2 ++ tail))))) →
      m1.length + m2.length + 2 ≤ Z.length + 1 := by
    intro Z hZ
    have h1 := length_renderMisc m1
    have h2 := length_renderMisc m2
    subst hZ
    simp only [List.length_append, List.length_cons]; omega
  unfold prologText
  cases xd with
  | none =>
    simp only [renderXmlDecl, List.nil_append]
    have hnox : ∀ c r, stripPrefix ['<', '?', 'x', 'm', 'l'] (renderMisc m1 ++ (p1 ++ ('<' :: '!' :: 'D' ::
        'O' :: 'C' :: 'T' :: 'Y' :: 'P' :: 'E' :: (d.render ++ (renderMisc m2 ++ (p2 ++ tail))))))
        = some (c :: r) → isWs c = false := by
      intro c r h
      have := no_xmldecl m1 p1 ('<' :: '!' :: 'D' :: 'O' :: 'C' :: 'T' :: 'Y' :: 'P' :: 'E' ::
        (d.render ++ (renderMisc m2 ++ (p2 ++ tail)))) hm1 hp1
        (Or.inl (by unfold startsDoctype; rw [lit_doctype]; simp [stripPrefix])) c r
        (by simpa [List.append_assoc] using h)
      exact this
    have hm := misc_parses_prolog m1 p1 d m2 p2 tail _ false hm1 hp1 hd hm2 hp2 ht (hlen _ rfl)
    unfold scanProlog
    rw [lit_xmldecl]
    split
    · next c r heq =>
      simp only [hnox c r heq, Bool.false_eq_true, ↓reduceIte]
      rw [hm]
      exact ⟨rfl, rfl, rfl, rfl, rfl⟩
    · rw [hm]
      exact ⟨rfl, rfl, rfl, rfl, rfl⟩
  | some wb =>
    obtain ⟨w, body⟩ := wb
    simp only [xmlDeclWf, Bool.and_eq_true] at hx
    obtain ⟨⟨hw, hq⟩, hv⟩ := hx
    have hm := misc_parses_prolog m1 p1 d m2 p2 tail _ true hm1 hp1 hd hm2 hp2 ht (hlen _ rfl)
    unfold scanProlog
    rw [lit_xmldecl]
    simp only [renderXmlDecl, List.cons_append, List.append_assoc, stripPrefix, beq_self_eq_true,
      ↓reduceIte, hw]
    rw [lit_qg, splitAt_qg body _ hq]
    have lv : "version".toList = ['v', 'e', 'r', 's', 'i', 'o', 'n'] := by decide
    have hv' : (stripPrefix "version".toList (skipWs body)).isNone = false := by
      cases h0 : stripPrefix "version".toList (skipWs body) with
      | none => rw [lv] at h0; simp [h0] at hv
      | some _ => rfl
    simp only [hv', Bool.false_eq_true, ↓reduceIte, List.nil_append]
    rw [hm]
    exact ⟨rfl, rfl, rfl, rfl, rfl⟩

/-- processed entity declarations of the grammar = declarations the handlers fire on -/
theorem subsetDecls_forbidden : ∀ (live : Bool) (items : List (List Char × SubItem)),
    (subsetDecls live items).any Decl.forbiddenDecl = derivesEntityDecl live items
  | _, [] => rfl
  | live, (w, it) :: r => by
    cases it with
    | entity e =>
      simp only [subsetDecls, derivesEntityDecl, List.any_cons, subsetDecls_forbidden live r]
      cases live with
      | false => simp [Decl.forbiddenDecl]
      | true =>
        have : e.decl.forbiddenDecl = true := by
          unfold EntD.decl
          cases e.defn <;> cases e.param.isSome <;> simp [Decl.forbiddenDecl]
        simp [this]
    | peRef n => simp only [subsetDecls, derivesEntityDecl, subsetDecls_forbidden false r]
    | comment b => simp [subsetDecls, derivesEntityDecl, Decl.forbiddenDecl, subsetDecls_forbidden live r]
    | pi b => simp [subsetDecls, derivesEntityDecl, Decl.forbiddenDecl, subsetDecls_forbidden live r]
    | element b => simp [subsetDecls, derivesEntityDecl, Decl.forbiddenDecl, subsetDecls_forbidden live r]
    | attlist b => simp [subsetDecls, derivesEntityDecl, Decl.forbiddenDecl, subsetDecls_forbidden live r]
    | «notation» b =>
      simp [subsetDecls, derivesEntityDecl, Decl.forbiddenDecl, subsetDecls_forbidden live r]

end EPV.Globals.XmlText

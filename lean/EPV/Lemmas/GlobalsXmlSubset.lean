/-
C19 — the inside of the DOCTYPE declaration: `XmlText.intSubset` / `entityDecl` / `doctypeDecl`
against the grammar of EPV/Spec/GlobalsSpec.lean (`PrologGrammar`): on every text the grammar
derives, the scanner returns exactly the declarations the grammar derives.
-/
import EPV.Lemmas.GlobalsXmlText
namespace EPV.Globals.XmlText
open EPV.GlobalsSpec.PrologGrammar

theorem lit_system : "SYSTEM".toList = ['S', 'Y', 'S', 'T', 'E', 'M'] := by decide
theorem lit_public : "PUBLIC".toList = ['P', 'U', 'B', 'L', 'I', 'C'] := by decide
theorem lit_ndata : "NDATA".toList = ['N', 'D', 'A', 'T', 'A'] := by decide
theorem lit_entity : "<!ENTITY".toList = ['<', '!', 'E', 'N', 'T', 'I', 'T', 'Y'] := by decide
theorem lit_element : "<!ELEMENT".toList = ['<', '!', 'E', 'L', 'E', 'M', 'E', 'N', 'T'] := by decide
theorem lit_attlist : "<!ATTLIST".toList = ['<', '!', 'A', 'T', 'T', 'L', 'I', 'S', 'T'] := by decide
theorem lit_notation : "<!NOTATION".toList = ['<', '!', 'N', 'O', 'T', 'A', 'T', 'I', 'O', 'N'] := by
  decide

/-- `skipWs` stops at a character that is not white space -/
theorem skipWs_nonws (c : Char) (x : List Char) (hc : isWs c = false) : skipWs (c :: x) = c :: x := by
  simp [skipWs, List.dropWhile, hc]

theorem skipWs_ws_then (w : List Char) (c : Char) (x : List Char) (hw : w.all isWs = true)
    (hc : isWs c = false) : skipWs (w ++ c :: x) = c :: x := by
  rw [skipWs_ws_append w _ hw, skipWs_nonws c x hc]

theorem splitAt_char (c : Char) (s rest : List Char) (hs : s.contains c = false) :
    splitAt [c] (s ++ c :: rest) = some (s, rest) := by
  induction s with
  | nil => simp [splitAt, stripPrefix]
  | cons x xs ih =>
    simp only [List.contains_cons, Bool.or_eq_false_iff] at hs
    have hx : (c == x) = false := hs.1
    simp [splitAt, stripPrefix, hx, ih hs.2]

theorem after_char (c : Char) (s rest : List Char) (hs : s.contains c = false) :
    after [c] (s ++ c :: rest) = some rest := by
  induction s with
  | nil => simp [after, stripPrefix]
  | cons x xs ih =>
    simp only [List.contains_cons, Bool.or_eq_false_iff] at hs
    have hx : (c == x) = false := hs.1
    simp [after, stripPrefix, hx, ih hs.2]

theorem quoted_render (l : Lit) (rest : List Char) (hl : l.wf = true) :
    quoted (l.render ++ rest) = some (l.s, rest) := by
  have hc : l.s.contains l.quote = false := by simpa [Lit.wf] using hl
  unfold Lit.render
  cases hq : l.dq with
  | true =>
    have : l.quote = '"' := by simp [Lit.quote, hq]
    rw [this] at hc ⊢
    simp only [List.cons_append, List.append_assoc, List.nil_append, quoted]
    exact splitAt_char '"' l.s rest hc
  | false =>
    have : l.quote = '\'' := by simp [Lit.quote, hq]
    rw [this] at hc ⊢
    simp only [List.cons_append, List.append_assoc, List.nil_append, quoted]
    exact splitAt_char '\'' l.s rest hc

/-- a literal starts with a quote, which is neither white space nor a name character -/
theorem lit_head (l : Lit) (rest : List Char) :
    ∃ q x, l.render ++ rest = q :: x ∧ isWs q = false ∧ (q = '"' ∨ q = '\'') := by
  unfold Lit.render Lit.quote
  cases l.dq
  · exact ⟨'\'', _, rfl, by decide, Or.inr rfl⟩
  · exact ⟨'"', _, rfl, by decide, Or.inl rfl⟩

theorem stripPrefix_append : ∀ (p r : List Char), stripPrefix p (p ++ r) = some r
  | [], r => by simp [stripPrefix]
  | a :: p, r => by simp [stripPrefix, stripPrefix_append p r]

/-- white space, then a literal: `quoted ∘ skipWs` reads the literal -/
theorem quoted_after_ws (w : List Char) (l : Lit) (rest : List Char) (hw : w.all isWs = true)
    (hl : l.wf = true) : quoted (skipWs (w ++ (l.render ++ rest))) = some (l.s, rest) := by
  obtain ⟨q, x, hx, hq, _⟩ := lit_head l rest
  rw [hx, skipWs_ws_then w q x hw hq, ← hx]
  exact quoted_render l rest hl

theorem wsReq_all {w : List Char} (h : wsReq w = true) : w.all isWs = true := by
  simp only [wsReq, Bool.and_eq_true] at h; exact h.2

theorem externalId_render (x : ExtIdG) (rest : List Char) (hx : x.wf = true) :
    externalId (x.render ++ rest) = some (true, rest) := by
  simp only [ExtIdG.wf, Bool.and_eq_true] at hx
  obtain ⟨⟨hwk, hsys⟩, hpub⟩ := hx
  unfold externalId ExtIdG.render
  cases hp : x.pub with
  | none =>
    simp only [lit_system, List.cons_append, List.nil_append, List.append_assoc]
    rw [skipWs_nonws 'S' _ (by decide)]
    have := stripPrefix_append ['S', 'Y', 'S', 'T', 'E', 'M'] (x.wk ++ (x.sys.render ++ rest))
    simp only [List.cons_append, List.nil_append] at this
    simp only [this, quoted_after_ws x.wk x.sys rest (wsReq_all hwk) hsys, Option.map_some]
  | some pw =>
    obtain ⟨p, wp⟩ := pw
    simp only [hp, Bool.and_eq_true] at hpub
    simp only [lit_system, lit_public, List.cons_append, List.nil_append, List.append_assoc]
    rw [skipWs_nonws 'P' _ (by decide)]
    have h1 : stripPrefix ['S', 'Y', 'S', 'T', 'E', 'M']
        ('P' :: 'U' :: 'B' :: 'L' :: 'I' :: 'C' :: (x.wk ++ (p.render ++ (wp ++ (x.sys.render ++ rest))))) = none := by
      simp [stripPrefix]
    have h2 := stripPrefix_append ['P', 'U', 'B', 'L', 'I', 'C']
      (x.wk ++ (p.render ++ (wp ++ (x.sys.render ++ rest))))
    simp only [List.cons_append, List.nil_append] at h2
    simp only [h1, h2]
    rw [quoted_after_ws x.wk p _ (wsReq_all hwk) hpub.1]
    simp only [Option.bind_eq_bind, Option.bind_some, bind]
    rw [quoted_after_ws wp x.sys rest (wsReq_all hpub.2) hsys]
    rfl

theorem skipDecl_ch (f : Nat) (c : Char) (cs : List Char) (h1 : c ≠ '>') (h2 : c ≠ '"') (h3 : c ≠ '\'') :
    skipDecl (f + 1) (c :: cs) = skipDecl f cs := by
  rw [skipDecl.eq_def]
  split <;> simp_all

/-- an abstract declaration body is skipped up to its `>` -/
theorem skipDecl_render : ∀ (cks : List Chunk) (rest : List Char) (fuel : Nat),
    cks.all Chunk.wf = true → cks.length < fuel →
    skipDecl fuel (renderChunks cks ++ '>' :: rest) = some rest
  | [], rest, fuel, _, hf => by
    obtain ⟨f, rfl⟩ : ∃ f, fuel = f + 1 := ⟨fuel - 1, by omega⟩
    simp [renderChunks, skipDecl]
  | ck :: cks, rest, fuel, hw, hf => by
    obtain ⟨f, rfl⟩ : ∃ f, fuel = f + 1 := ⟨fuel - 1, by omega⟩
    simp only [List.all_cons, Bool.and_eq_true] at hw
    have ih := skipDecl_render cks rest f hw.2 (by simp at hf; omega)
    have hr : renderChunks (ck :: cks) = ck.render ++ renderChunks cks := by
      simp [renderChunks]
    rw [hr]
    cases ck with
    | ch c =>
      simp only [Chunk.wf, Bool.and_eq_true, bne_iff_ne, ne_eq] at hw
      obtain ⟨⟨⟨h1, h2⟩, h3⟩, _⟩ := hw
      simp only [Chunk.render, List.cons_append, List.nil_append]
      rw [skipDecl_ch f c _ h1 h2 h3]
      exact ih
    | lit l =>
      simp only [Chunk.wf] at hw
      have hc : l.s.contains l.quote = false := by simpa [Lit.wf] using hw.1
      simp only [Chunk.render, Lit.render, List.cons_append, List.append_assoc, List.nil_append]
      cases hq : l.dq with
      | true =>
        have hqq : l.quote = '"' := by simp [Lit.quote, hq]
        rw [hqq] at hc ⊢
        simp only [skipDecl, after_char '"' l.s _ hc, Option.bind_some, Option.bind_eq_bind]
        exact ih
      | false =>
        have hqq : l.quote = '\'' := by simp [Lit.quote, hq]
        rw [hqq] at hc ⊢
        simp only [skipDecl, after_char '\'' l.s _ hc, Option.bind_some, Option.bind_eq_bind]
        exact ih

theorem name_not_ws (c : Char) (h : isNameChar c = true) : isWs c = false := by
  cases hw : isWs c with
  | false => rfl
  | true => rw [isWs_not_name c hw] at h; cases h

/-- a name: its first character, which is a name character -/
theorem nameOk_head {n : List Char} (h : nameOk n = true) :
    ∃ c t, n = c :: t ∧ isNameChar c = true ∧ n.all isNameChar = true := by
  simp only [nameOk, Bool.and_eq_true, Bool.not_eq_eq_eq_not, Bool.not_true] at h
  cases n with
  | nil => simp at h
  | cons c t =>
    have h2 := h.2
    simp only [List.all_cons, Bool.and_eq_true] at h2
    exact ⟨c, t, rfl, h2.1, h.2⟩

theorem wsReq_head {w : List Char} (h : wsReq w = true) :
    ∃ c t, w = c :: t ∧ isWs c = true := by
  simp only [wsReq, Bool.and_eq_true, Bool.not_eq_eq_eq_not, Bool.not_true] at h
  cases w with
  | nil => simp at h
  | cons c t =>
    have h2 := h.2
    simp only [List.all_cons, Bool.and_eq_true] at h2
    exact ⟨c, t, rfl, h2.1⟩

/-- white space, then `>` -/
theorem gt_after_ws (w rest : List Char) (hw : w.all isWs = true) :
    stripPrefix ['>'] (skipWs (w ++ '>' :: rest)) = some rest := by
  rw [skipWs_ws_then w '>' rest hw (by decide)]
  simp [stripPrefix]

/-- a name followed by white space is read back exactly -/
theorem takeName_then_ws (n w x : List Char) (hn : nameOk n = true) (hw : wsReq w = true) :
    takeName (n ++ (w ++ x)) = (n, w ++ x) := by
  obtain ⟨_, _, _, _, hall⟩ := nameOk_head hn
  obtain ⟨c, t, rfl, hc⟩ := wsReq_head hw
  exact takeName_target n _ hall (by simpa using isWs_not_name c hc)

/-- the head of an entity definition: a quote, or `S` / `P` -/
theorem extId_head (x : ExtIdG) (rest : List Char) :
    ∃ q y, x.render ++ rest = q :: y ∧ (q = 'S' ∨ q = 'P') := by
  unfold ExtIdG.render
  cases x.pub with
  | none => exact ⟨'S', 'Y' :: 'S' :: 'T' :: 'E' :: 'M' :: (x.wk ++ (x.sys.render ++ rest)),
      by simp [lit_system], Or.inl rfl⟩
  | some pw => exact ⟨'P', 'U' :: 'B' :: 'L' :: 'I' :: 'C' ::
      (x.wk ++ (pw.fst.render ++ (pw.snd ++ (x.sys.render ++ rest)))), by simp [lit_public], Or.inr rfl⟩

theorem quoted_extId (x : ExtIdG) (rest : List Char) : quoted (x.render ++ rest) = none := by
  obtain ⟨q, y, h, hq⟩ := extId_head x rest
  rw [h]
  rcases hq with rfl | rfl <;> simp [quoted]

/-- the definition part of a grammatical entity declaration is read back -/
theorem entityBody_render (e : EntD) (rest : List Char) (he : e.wf = true) :
    entityBody e.param.isSome e.name (e.defn.render ++ (e.w3 ++ '>' :: rest)) = some (e.decl, rest) := by
  simp only [EntD.wf, Bool.and_eq_true] at he
  obtain ⟨⟨⟨⟨⟨_, _⟩, _⟩, _⟩, hw3⟩, hd⟩ := he
  have hw3' : e.w3.all isWs = true := hw3
  unfold entityBody EntD.decl
  cases hdef : e.defn with
  | value l =>
    simp only [hdef] at hd
    simp only [EntDef.render, quoted_render l _ hd, gt_after_ws e.w3 rest hw3', Option.map_some]
  | ext id =>
    simp only [hdef] at hd
    simp only [EntDef.render, quoted_extId, externalId_render id _ hd]
    rw [skipWs_ws_then e.w3 '>' rest hw3' (by decide)]
    simp [lit_ndata, stripPrefix]
  | ndata id w4 w5 n =>
    simp only [hdef, Bool.and_eq_true] at hd
    obtain ⟨⟨⟨⟨hid, hw4⟩, hw5⟩, hn⟩, _⟩ := hd
    simp only [EntDef.render, List.append_assoc, quoted_extId, externalId_render id _ hid]
    rw [lit_ndata]
    simp only [List.cons_append, List.nil_append]
    rw [skipWs_ws_then w4 'N' _ (wsReq_all hw4) (by decide)]
    have h1 := stripPrefix_append ['N', 'D', 'A', 'T', 'A'] (w5 ++ (n ++ (e.w3 ++ '>' :: rest)))
    simp only [List.cons_append, List.nil_append] at h1
    simp only [h1]
    obtain ⟨c, t, hnc, hc, hall⟩ := nameOk_head hn
    have h2 : skipWs (w5 ++ (n ++ (e.w3 ++ '>' :: rest))) = n ++ (e.w3 ++ '>' :: rest) := by
      rw [hnc]; exact skipWs_ws_then w5 c _ (wsReq_all hw5) (name_not_ws c hc)
    rw [h2]
    have h3 : takeName (n ++ (e.w3 ++ '>' :: rest)) = (n, e.w3 ++ '>' :: rest) := by
      apply takeName_target n _ hall
      cases hw : e.w3 with
      | nil => simp only [List.nil_append]; decide
      | cons a t' =>
        simp only [List.cons_append]
        rw [hw] at hw3'
        simp only [List.all_cons, Bool.and_eq_true] at hw3'
        exact isWs_not_name a hw3'.1
    have hne : n.isEmpty = false := by rw [hnc]; rfl
    simp only [h3, hne, Bool.false_eq_true, ↓reduceIte, gt_after_ws e.w3 rest hw3', Option.map_some]

/-- a grammatical entity declaration (after `<!ENTITY`) is read back as the declaration the
grammar derives -/
theorem entityDecl_render (e : EntD) (rest : List Char) (he : e.wf = true) :
    entityDecl (e.render ++ rest) = some (e.decl, rest) := by
  have he' := he
  simp only [EntD.wf, Bool.and_eq_true] at he'
  obtain ⟨⟨⟨⟨⟨hw1, hp⟩, hn⟩, hw2⟩, _⟩, _⟩ := he'
  obtain ⟨c, t, hnc, hc, hall⟩ := nameOk_head hn
  have hne : e.name.isEmpty = false := by rw [hnc]; rfl
  -- the text after the name
  have hbody := entityBody_render e rest he
  have hafter : ∀ X, skipWs (e.w2 ++ X) = skipWs X := fun X => skipWs_ws_append e.w2 X (wsReq_all hw2)
  have hdefhead : skipWs (e.defn.render ++ (e.w3 ++ '>' :: rest)) = e.defn.render ++ (e.w3 ++ '>' :: rest) := by
    cases e.defn with
    | value l =>
      obtain ⟨q, x, hx, hq, _⟩ := lit_head l (e.w3 ++ '>' :: rest)
      simp only [EntDef.render]; rw [hx]; exact skipWs_nonws q x hq
    | ext id =>
      obtain ⟨q, y, hy, hq⟩ := extId_head id (e.w3 ++ '>' :: rest)
      simp only [EntDef.render]; rw [hy]
      rcases hq with rfl | rfl <;> exact skipWs_nonws _ y (by decide)
    | ndata id w4 w5 n =>
      obtain ⟨q, y, hy, hq⟩ := extId_head id (w4 ++ ("NDATA".toList ++ (w5 ++ n)) ++ (e.w3 ++ '>' :: rest))
      simp only [EntDef.render, List.append_assoc] at hy ⊢; rw [hy]
      rcases hq with rfl | rfl <;> exact skipWs_nonws _ y (by decide)
  unfold entityDecl EntD.render
  cases hpar : e.param with
  | none =>
    rw [hnc] at hne ⊢
    simp only [List.append_nil, List.append_assoc, List.cons_append, List.nil_append]
    rw [skipWs_ws_then e.w1 c _ (wsReq_all hw1) (name_not_ws c hc)]
    have hpc : entityPercent (c :: (t ++ (e.w2 ++ (e.defn.render ++ (e.w3 ++ ('>' :: rest))))))
        = (false, c :: (t ++ (e.w2 ++ (e.defn.render ++ (e.w3 ++ ('>' :: rest)))))) := by
      unfold entityPercent
      split
      · next heq =>
        simp only [List.cons.injEq] at heq
        rw [heq.1] at hc; exact absurd hc (by decide)
      · rfl
    rw [hpc]
    simp only
    have htn := takeName_then_ws e.name e.w2 (e.defn.render ++ (e.w3 ++ '>' :: rest)) hn hw2
    rw [hnc] at htn
    simp only [List.cons_append] at htn
    rw [htn]
    simp only [hne, Bool.false_eq_true, ↓reduceIte, hafter, hdefhead]
    rw [hpar] at hbody
    rw [hnc] at hbody
    exact hbody
  | some w =>
    simp only [hpar] at hp
    rw [hnc] at hne ⊢
    simp only [List.cons_append, List.append_assoc, List.nil_append]
    rw [skipWs_ws_then e.w1 '%' _ (wsReq_all hw1) (by decide)]
    simp only [entityPercent]
    rw [skipWs_ws_then w c _ (wsReq_all hp) (name_not_ws c hc)]
    have htn := takeName_then_ws e.name e.w2 (e.defn.render ++ (e.w3 ++ '>' :: rest)) hn hw2
    rw [hnc] at htn
    simp only [List.cons_append] at htn
    rw [htn]
    simp only [hne, Bool.false_eq_true, ↓reduceIte, hafter, hdefhead]
    rw [hpar] at hbody
    rw [hnc] at hbody
    exact hbody

theorem length_renderChunks (b : List Chunk) : b.length ≤ (renderChunks b).length := by
  induction b with
  | nil => simp [renderChunks]
  | cons c t ih =>
    have : renderChunks (c :: t) = c.render ++ renderChunks t := by simp [renderChunks]
    rw [this]
    cases c with
    | ch c => simp [Chunk.render]; omega
    | lit l => simp [Chunk.render, Lit.render]; omega

/-- an abstract declaration (keyword already stripped): skipped with the fuel the scanner uses -/
theorem skipDecl_self (b : List Chunk) (R : List Char) (hb : b.all Chunk.wf = true) :
    skipDecl (renderChunks b ++ '>' :: R).length (renderChunks b ++ '>' :: R) = some R := by
  apply skipDecl_render b R _ hb
  have := length_renderChunks b
  simp only [List.length_append, List.length_cons]; omega

theorem reverse_cons_append {α : Type} (d : α) (acc l : List α) :
    (d :: acc).reverse ++ l = acc.reverse ++ d :: l := by simp

/-- **The internal subset is read back exactly.**  On the text of any internal subset the grammar
derives (items in any number and order, each preceded by optional white space, closed by `]`),
`intSubset` returns the declarations the grammar derives — processed entity declarations while
no parameter-entity reference has been passed, inert ones after — and the text after the `]`. -/
theorem intSubset_parses : ∀ (items : List (List Char × SubItem)) (wi rest : List Char)
    (fuel : Nat) (acc : List Decl) (live : Bool),
    items.length < fuel → subsetWf items = true → wsOk wi = true →
    intSubset fuel (renderSubset items ++ (wi ++ ']' :: rest)) acc live
      = (acc.reverse ++ subsetDecls live items, some rest)
  | [], wi, rest, fuel, acc, live, hf, _, hwi => by
    obtain ⟨f, rfl⟩ : ∃ f, fuel = f + 1 := ⟨fuel - 1, by simp at hf; omega⟩
    rw [intSubset]
    simp only [renderSubset, List.nil_append]
    rw [skipWs_ws_then wi ']' rest hwi (by decide)]
    simp [subsetDecls]
  | (w, it) :: r, wi, rest, fuel, acc, live, hf, hi, hwi => by
    obtain ⟨f, rfl⟩ : ∃ f, fuel = f + 1 := ⟨fuel - 1, by simp at hf; omega⟩
    have hf' : r.length < f := by simp at hf; omega
    simp only [subsetWf, List.all_cons, Bool.and_eq_true] at hi
    obtain ⟨⟨hw, hit⟩, hr⟩ := hi
    have hw' : w.all isWs = true := hw
    have ih := fun acc' live' =>
      intSubset_parses r wi rest f acc' live' hf' (by simpa [subsetWf] using hr) hwi
    rw [intSubset]
    simp only [renderSubset, List.append_assoc]
    generalize hR : renderSubset r ++ (wi ++ ']' :: rest) = R at ih ⊢
    cases it with
    | peRef n =>
      have hn : nameOk n = true := by simpa [SubItem.wf] using hit
      obtain ⟨c, t, hnc, hc, hall⟩ := nameOk_head hn
      simp only [SubItem.render, List.cons_append, List.append_assoc, List.nil_append]
      rw [skipWs_ws_then w '%' _ hw' (by decide)]
      have htn : takeName (n ++ ';' :: R) = (n, ';' :: R) :=
        takeName_target n (';' :: R) hall (by show isNameChar ';' = false; decide)
      have hne : n.isEmpty = false := by rw [hnc]; rfl
      split
      · next heq => exact absurd (List.cons.inj heq).1 (by decide)
      · next r0 heq =>
        have hr0 : r0 = n ++ ';' :: R := (List.cons.inj heq).2.symm
        subst hr0
        rw [htn]
        simp only [hne, Bool.false_eq_true, ↓reduceIte]
        rw [ih]
        rfl
      · next h1 h2 => exact absurd rfl (h2 _)
    | comment b =>
      have hb : noDD b = true := hit
      simp only [SubItem.render, List.cons_append, List.append_assoc, List.nil_append]
      rw [skipWs_ws_then w '<' _ hw' (by decide)]
      simp only [lit_comment, stripPrefix, beq_self_eq_true, ↓reduceIte, afterComment_render b R hb, ih,
        subsetDecls, reverse_cons_append]
      split
      · next heq => exact absurd (List.cons.inj heq).1 (by decide)
      · next heq => exact absurd (List.cons.inj heq).1 (by decide)
      · rfl
    | pi b =>
      have hb : noQG b = true := hit
      simp only [SubItem.render, List.cons_append, List.append_assoc, List.nil_append]
      rw [skipWs_ws_then w '<' _ hw' (by decide)]
      have e1 : ('!' == '?') = false := by decide
      simp only [lit_comment, lit_pi, lit_qg, stripPrefix, beq_self_eq_true, ↓reduceIte, e1,
        Bool.false_eq_true, after_qg b R hb, ih, subsetDecls, reverse_cons_append]
      split
      · next heq => exact absurd (List.cons.inj heq).1 (by decide)
      · next heq => exact absurd (List.cons.inj heq).1 (by decide)
      · rfl
    | entity e =>
      have he : e.wf = true := hit
      simp only [SubItem.render, lit_entity, List.cons_append, List.append_assoc, List.nil_append]
      rw [skipWs_ws_then w '<' _ hw' (by decide)]
      have e1 : ('-' == 'E') = false := by decide
      have e2 : ('?' == '!') = false := by decide
      simp only [lit_comment, lit_pi, stripPrefix, beq_self_eq_true, ↓reduceIte, e1, e2,
        Bool.false_eq_true, entityDecl_render e R he, ih, subsetDecls, reverse_cons_append]
      split
      · next heq => exact absurd (List.cons.inj heq).1 (by decide)
      · next heq => exact absurd (List.cons.inj heq).1 (by decide)
      · rfl
    | element b =>
      have hb : b.all Chunk.wf = true := hit
      simp only [SubItem.render, lit_element, List.cons_append, List.append_assoc, List.nil_append]
      rw [skipWs_ws_then w '<' _ hw' (by decide)]
      have e1 : ('-' == 'E') = false := by decide
      have e2 : ('?' == '!') = false := by decide
      have e3 : ('N' == 'L') = false := by decide
      simp only [lit_comment, lit_pi, lit_entity, stripPrefix, beq_self_eq_true, ↓reduceIte, e1, e2, e3,
        Bool.false_eq_true, skipDecl_self b R hb, ih, subsetDecls, reverse_cons_append]
      split
      · next heq => exact absurd (List.cons.inj heq).1 (by decide)
      · next heq => exact absurd (List.cons.inj heq).1 (by decide)
      · rfl
    | attlist b =>
      have hb : b.all Chunk.wf = true := hit
      simp only [SubItem.render, lit_attlist, List.cons_append, List.append_assoc, List.nil_append]
      rw [skipWs_ws_then w '<' _ hw' (by decide)]
      have e1 : ('-' == 'A') = false := by decide
      have e2 : ('?' == '!') = false := by decide
      have e3 : ('E' == 'A') = false := by decide
      simp only [lit_comment, lit_pi, lit_entity, lit_element, stripPrefix, beq_self_eq_true, ↓reduceIte,
        e1, e2, e3, Bool.false_eq_true, skipDecl_self b R hb, ih, subsetDecls, reverse_cons_append]
      split
      · next heq => exact absurd (List.cons.inj heq).1 (by decide)
      · next heq => exact absurd (List.cons.inj heq).1 (by decide)
      · rfl
    | «notation» b =>
      have hb : b.all Chunk.wf = true := hit
      simp only [SubItem.render, lit_notation, List.cons_append, List.append_assoc, List.nil_append]
      rw [skipWs_ws_then w '<' _ hw' (by decide)]
      have e1 : ('-' == 'N') = false := by decide
      have e2 : ('?' == '!') = false := by decide
      have e3 : ('E' == 'N') = false := by decide
      have e4 : ('A' == 'N') = false := by decide
      simp only [lit_comment, lit_pi, lit_entity, lit_element, lit_attlist, stripPrefix, beq_self_eq_true,
        ↓reduceIte, e1, e2, e3, e4, Bool.false_eq_true, skipDecl_self b R hb, ih, subsetDecls,
        reverse_cons_append]
      split
      · next heq => exact absurd (List.cons.inj heq).1 (by decide)
      · next heq => exact absurd (List.cons.inj heq).1 (by decide)
      · rfl

end EPV.Globals.XmlText

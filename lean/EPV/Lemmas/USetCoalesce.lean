import EPV.Lemmas.USetOps
namespace EPV.USet

/-- canonical entry for the interval `[s, e)` -/
def mkCP (s e : Nat) : CP := if e = s + 1 then .one s else .rng s e

theorem mkCP_mem {s e : Nat} (h : s < e) (x : Nat) : (mkCP s e).mem x ↔ (s ≤ x ∧ x < e) := by
  unfold mkCP; split
  · simp only [CP.mem, CP.lo_one, CP.hi_one]; omega
  · simp only [CP.mem, CP.lo_rng, CP.hi_rng]

/-- merge touching/overlapping neighbours of a list sorted by `lo` (spec-side normalisation used to
compare a model-computed union with a stored table) -/
def coalesceGo (s e : Nat) : List CP → List CP
  | [] => [mkCP s e]
  | c :: rest => if c.lo ≤ e then coalesceGo s (max e c.hi) rest else mkCP s e :: coalesceGo c.lo c.hi rest

def coalesce : List CP → List CP
  | [] => []
  | c :: rest => coalesceGo c.lo c.hi rest

theorem coalesceGo_mem : ∀ (l : List CP) (s e : Nat), s < e → WInv l → headLoGe e l →
    ∀ x, memL x (coalesceGo s e l) ↔ ((s ≤ x ∧ x < e) ∨ memL x l) := by
  intro l
  induction l with
  | nil => intro s e hse _ _ x; simp [coalesceGo, memL, mkCP_mem hse]
  | cons c rest ih =>
    intro s e hse hw hh x
    obtain ⟨hc, hhead, hwr⟩ := winv_cons.mp hw
    have hce : e ≤ c.lo := hh
    simp only [coalesceGo]
    split
    · rename_i h1
      have : max e c.hi = c.hi := by omega
      rw [this, ih s c.hi (by omega) hwr hhead x]
      simp only [memL, CP.mem]; grind
    · rw [memL, mkCP_mem hse, ih c.lo c.hi hc hwr hhead x]
      simp only [memL, CP.mem]

theorem coalesce_mem (l : List CP) (hw : WInv l) (x : Nat) : memL x (coalesce l) ↔ memL x l := by
  cases l with
  | nil => simp [coalesce]
  | cons c rest =>
    obtain ⟨hc, hhead, hwr⟩ := winv_cons.mp hw
    simp only [coalesce, coalesceGo_mem rest c.lo c.hi hc hwr hhead x, memL, CP.mem]

/-- union of a list of subsets computed with the model's `|=` -/
def unionAll (ms : List (List CP)) : List CP := ms.foldl ior []

theorem unionAll_spec (ms : List (List CP)) (hms : ∀ m ∈ ms, WInv m) :
    ∀ (l : List CP), WInv l → WInv (ms.foldl ior l) ∧
      ∀ x, memL x (ms.foldl ior l) ↔ (memL x l ∨ ∃ m ∈ ms, memL x m) := by
  induction ms with
  | nil => intro l hw; simp [hw]
  | cons m ms ih =>
    intro l hw
    have hm := hms m (List.mem_cons_self ..)
    obtain ⟨h1, h2⟩ := foldl_add m.reverse (allValid_reverse (winv_allValid hm)) l hw
    obtain ⟨h3, h4⟩ := ih (fun k hk => hms k (List.mem_cons_of_mem _ hk)) (ior l m) h1
    refine ⟨h3, fun x => ?_⟩
    simp only [List.foldl_cons, h4 x]
    have h5 : memL x (ior l m) ↔ (memL x l ∨ memL x m) := by
      simp only [ior, h2 x, memL_iff_exists x m, List.mem_reverse]
    rw [h5]
    constructor
    · rintro ((h | h) | ⟨k, hk, hx⟩)
      · exact Or.inl h
      · exact Or.inr ⟨m, List.mem_cons_self .., h⟩
      · exact Or.inr ⟨k, List.mem_cons_of_mem _ hk, hx⟩
    · rintro (h | ⟨k, hk, hx⟩)
      · exact Or.inl (Or.inl h)
      · rcases List.mem_cons.mp hk with rfl | hk'
        · exact Or.inl (Or.inr hx)
        · exact Or.inr ⟨k, hk', hx⟩

end EPV.USet

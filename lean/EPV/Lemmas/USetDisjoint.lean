import EPV.Lemmas.USet
namespace EPV.USet

/-- direct decidable disjointness test of two entry lists (no sortedness needed) -/
def disjointLists (a b : List CP) : Bool :=
  a.all fun c => b.all fun d => decide (c.hi ≤ d.lo) || decide (d.hi ≤ c.lo)

def pairwiseDisjoint : List (List CP) → Bool
  | [] => true
  | p :: ps => ps.all (disjointLists p) && pairwiseDisjoint ps

theorem memL_exists {x : Nat} {l : List CP} (h : memL x l) : ∃ c ∈ l, c.mem x := by
  induction l with
  | nil => exact h.elim
  | cons c cs ih =>
    rcases h with h | h
    · exact ⟨c, List.mem_cons_self .., h⟩
    · obtain ⟨d, hd, hx⟩ := ih h
      exact ⟨d, List.mem_cons_of_mem _ hd, hx⟩

theorem disjointLists_sound {a b : List CP} (h : disjointLists a b = true) (x : Nat) :
    ¬ (memL x a ∧ memL x b) := by
  rintro ⟨ha, hb⟩
  obtain ⟨c, hc, hcx⟩ := memL_exists ha
  obtain ⟨d, hd, hdx⟩ := memL_exists hb
  simp only [disjointLists, List.all_eq_true, Bool.or_eq_true, decide_eq_true_eq] at h
  have := h c hc d hd
  unfold CP.mem at hcx hdx
  omega

theorem pairwiseDisjoint_sound : ∀ (ls : List (List CP)), pairwiseDisjoint ls = true →
    ls.Pairwise (fun p q => ∀ x, ¬ (memL x p ∧ memL x q))
  | [], _ => List.Pairwise.nil
  | p :: ps, h => by
    simp only [pairwiseDisjoint, Bool.and_eq_true, List.all_eq_true] at h
    exact List.Pairwise.cons (fun q hq x => disjointLists_sound (h.1 q hq) x)
      (pairwiseDisjoint_sound ps h.2)

end EPV.USet

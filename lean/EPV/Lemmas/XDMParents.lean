/-
Sanity lemmas about the specification: every item's parent is an *earlier* item that is an element
or the document; only the first item has no parent.
-/
import EPV.Lemmas.XDMItems
namespace EPV.XDM
open EPV.Builder

/-- `it`'s parent is `some q` with `lo ≤ q < it.idx`, and `q` is the index of an element of `l` -/
def InnerParent (l : List Item) (lo : Nat) (it : Item) : Prop :=
  ∃ q, it.parent = some q ∧ lo ≤ q ∧ q < it.idx ∧ ∃ pit ∈ l, pit.idx = q ∧ pit.kind = .element

theorem InnerParent.mono {l l' : List Item} {lo lo' : Nat} {it : Item} (h : InnerParent l lo it)
    (hl : ∀ x ∈ l, x ∈ l') (hlo : lo' ≤ lo) : InnerParent l' lo' it := by
  obtain ⟨q, h1, h2, h3, pit, hm, h4⟩ := h
  exact ⟨q, h1, by omega, h3, pit, hl pit hm, h4⟩

theorem mem_idx_range {l : List Item} {i : Nat} (h : idxs l = List.range' i l.length) {it : Item} (hm : it ∈ l) :
    i ≤ it.idx ∧ it.idx < i + l.length := by
  have : it.idx ∈ idxs l := List.mem_map_of_mem hm
  rw [h] at this
  have := List.mem_range'_1.1 this
  omega

theorem number_parent {α : Type} (g : Nat → α → Item) (e : Nat) (hg : ∀ j a, (g j a).parent = some e)
    (j : Nat) (l : List α) : ∀ it ∈ number g j l, it.parent = some e := by
  induction l generalizing j with
  | nil => intro it h; cases h
  | cons a l ih =>
    intro it h
    rcases List.mem_cons.1 h with rfl | h
    · exact hg _ _
    · exact ih _ it h

theorem nsItems_parent (e i : Nat) (m : NsMap) : ∀ it ∈ nsItems e i m, it.parent = some e := by
  intro it h
  unfold nsItems at h
  rcases List.mem_cons.1 h with rfl | h
  · rfl
  · exact number_parent _ e (by intros; rfl) _ _ it h

theorem attrItems_parent (e i : Nat) (a : Attrib) : ∀ it ∈ attrItems e i a, it.parent = some e :=
  number_parent _ e (by intros; rfl) _ _

theorem textItem_parent (par : Option Nat) (i : Nat) (o : Option String) :
    ∀ it ∈ textItem par i o, it.parent = par := by
  cases o <;> simp [textItem]

mutual
/-- in the subtree of `t` (numbered from `i`, hanging below `par`): the first item is `t` itself with
parent `par`; every other item has its parent inside the subtree, earlier, and it is an element -/
theorem itemsOne_parent (c : Cfg) : ∀ (t : XTree) (par : Option Nat) (i : Nat),
    ∀ it ∈ itemsOne c par i t, (it.idx = i ∧ it.parent = par) ∨ InnerParent (itemsOne c par i t) i it
  | .elem name nsmap attrib text kids tail, par, i => by
    intro it hit
    have hidx := itemsOne_idxs c (.elem name nsmap attrib text kids tail) par i
    have hrange := mem_idx_range hidx hit
    have hnd : (idxs (itemsOne c par i (.elem name nsmap attrib text kids tail))).Nodup := by
      rw [hidx]; exact (List.pairwise_lt_range').imp (fun h => Nat.ne_of_lt h)
    -- the element itself is the witness for parent `i`
    have hhead : ∃ hd : Item, hd.idx = i ∧ hd.kind = .element ∧ hd.parent = par ∧
        hd ∈ itemsOne c par i (.elem name nsmap attrib text kids tail) :=
      ⟨_, rfl, rfl, rfl, by simp only [itemsOne]; exact List.mem_cons_self⟩
    obtain ⟨hd, hd1, hd2, hd3, hdm⟩ := hhead
    have hself : ∀ x : Item, x.parent = some i → i < x.idx →
        InnerParent (itemsOne c par i (.elem name nsmap attrib text kids tail)) i x := by
      intro x hx hlt
      exact ⟨i, hx, Nat.le_refl _, hlt, hd, hdm, hd1, hd2⟩
    simp only [itemsOne] at hit hnd
    rcases List.mem_cons.1 hit with rfl | hit'
    · exact Or.inl ⟨rfl, rfl⟩
    · right
      have hgt : i < it.idx := by
        have hne : it.idx ≠ i := by
          intro heq
          simp only [idxs_cons, List.nodup_cons] at hnd
          have hm := List.mem_map_of_mem (f := (·.idx)) hit'
          rw [heq] at hm
          exact hnd.1 hm
        omega
      rcases List.mem_append.1 hit' with h | h
      · rcases List.mem_append.1 h with h | h
        · rcases List.mem_append.1 h with h | h
          · exact hself it (nsItems_parent _ _ _ it h) hgt
          · exact hself it (attrItems_parent _ _ _ it h) hgt
        · exact hself it (textItem_parent _ _ _ it h) hgt
      · have ih := itemsKids_parent c kids i _ it h
        rcases ih with hp | hp
        · exact hself it hp hgt
        · refine hp.mono ?_ ?_
          · intro x hx
            simp only [itemsOne]
            exact List.mem_cons_of_mem _ (List.mem_append_right _ hx)
          · omega
  | .comment s tl, par, i => by intro it h; simp [itemsOne] at h; subst h; exact Or.inl ⟨rfl, rfl⟩
  | .pi t s tl, par, i => by intro it h; simp [itemsOne] at h; subst h; exact Or.inl ⟨rfl, rfl⟩
/-- children list of `par`: every item is a child of `par` or has its parent inside the list -/
theorem itemsKids_parent (c : Cfg) : ∀ (ts : List XTree) (par i : Nat),
    ∀ it ∈ itemsKids c par i ts, it.parent = some par ∨ InnerParent (itemsKids c par i ts) i it
  | [], par, i => by intro it h; simp [itemsKids] at h
  | t :: ts, par, i => by
    intro it hit
    simp only [itemsKids] at hit ⊢
    rcases List.mem_append.1 hit with h | h
    · rcases List.mem_append.1 h with h | h
      · rcases itemsOne_parent c t (some par) i it h with hp | hp
        · exact Or.inl hp.2
        · right
          refine hp.mono ?_ (Nat.le_refl _)
          intro x hx; exact List.mem_append_left _ (List.mem_append_left _ hx)
      · exact Or.inl (textItem_parent _ _ _ it h)
    · rcases itemsKids_parent c ts par _ it h with hp | hp
      · exact Or.inl hp
      · right
        refine hp.mono ?_ (by omega)
        intro x hx; exact List.mem_append_right _ hx
end

theorem siblingItems_parent : ∀ (ts : List XTree) (i : Nat), ∀ it ∈ siblingItems i ts, it.parent = some 0
  | [], i => by intro it h; cases h
  | .comment s tl :: ts, i => by
    intro it h
    rcases List.mem_cons.1 h with rfl | h
    · rfl
    · exact siblingItems_parent ts _ it h
  | .pi t s tl :: ts, i => by
    intro it h
    rcases List.mem_cons.1 h with rfl | h
    · rfl
    · exact siblingItems_parent ts _ it h
  | .elem .. :: ts, i => by
    intro it h
    exact siblingItems_parent ts i it h

/-- the parent of an item is an earlier item of kind element or document; `none` only for item 0 -/
def ParentOK (items : List Item) (it : Item) : Prop :=
  (it.idx = 0 ∧ it.parent = none) ∨
  ∃ q, it.parent = some q ∧ q < it.idx ∧ ∃ pit ∈ items, pit.idx = q ∧ (pit.kind = .element ∨ pit.kind = .document)

theorem itemsOne_parentOK (c : Cfg) (e : XTree) : ∀ it ∈ itemsOne c none 0 e, ParentOK (itemsOne c none 0 e) it := by
  intro it hit
  rcases itemsOne_parent c e none 0 it hit with h | ⟨q, h1, _, h3, pit, hm, h4, h5⟩
  · exact Or.inl h
  · exact Or.inr ⟨q, h1, h3, pit, hm, h4, Or.inl h5⟩

theorem documentItems_parentOK (c : Cfg) (pro : List XTree) (top : Option XTree) (epi : List XTree) :
    ∀ it ∈ documentItems c pro top epi, ParentOK (documentItems c pro top epi) it := by
  intro it hit
  cases top with
  | none =>
    simp only [documentItems, List.mem_singleton] at hit
    subst hit; exact Or.inl ⟨rfl, rfl⟩
  | some e =>
    have hidx := documentItems_idxs c pro (some e) epi
    have hrange := mem_idx_range hidx hit
    have hnd : (idxs (documentItems c pro (some e) epi)).Nodup := by
      rw [hidx]; exact (List.pairwise_lt_range').imp (fun h => Nat.ne_of_lt h)
    have hdoc : ∃ d : Item, d.idx = 0 ∧ d.kind = .document ∧ d ∈ documentItems c pro (some e) epi :=
      ⟨_, rfl, rfl, by simp only [documentItems]; exact List.mem_cons_self⟩
    obtain ⟨d, d1, d2, dm⟩ := hdoc
    have hchild : ∀ x : Item, x.parent = some 0 → 0 < x.idx → ParentOK (documentItems c pro (some e) epi) x :=
      fun x hx hlt => Or.inr ⟨0, hx, hlt, d, dm, d1, Or.inr d2⟩
    simp only [documentItems] at hit hnd
    rcases List.mem_cons.1 hit with rfl | hit'
    · exact Or.inl ⟨rfl, rfl⟩
    · have hgt : 0 < it.idx := by
        have hne : it.idx ≠ 0 := by
          intro heq
          simp only [idxs_cons, List.nodup_cons] at hnd
          have hm := List.mem_map_of_mem (f := (·.idx)) hit'
          rw [heq] at hm
          exact hnd.1 hm
        omega
      rcases List.mem_append.1 hit' with h | h
      · rcases List.mem_append.1 h with h | h
        · exact hchild it (siblingItems_parent _ _ it h) hgt
        · rcases itemsOne_parent c e (some 0) _ it h with hp | ⟨q, h1, _, h3, pit, hm, h4, h5⟩
          · exact hchild it hp.2 hgt
          · refine Or.inr ⟨q, h1, h3, pit, ?_, h4, Or.inl h5⟩
            simp only [documentItems]
            exact List.mem_cons_of_mem _ (List.mem_append_left _ (List.mem_append_right _ hm))
      · exact hchild it (siblingItems_parent _ _ it h) hgt

/-- PARENTS (spec): in the XDM tree of any call, every node but the first has a parent, which is an
earlier node of kind element or document -/
theorem specItems_parentOK (i : Input) (items : List Item) (h : specItems i = some items) :
    ∀ it ∈ items, ParentOK items it := by
  unfold specItems at h
  repeat' split at h
  all_goals first
    | contradiction
    | (injection h with h; subst h
       first
        | exact documentItems_parentOK _ _ _ _
        | exact itemsOne_parentOK _ _)

end EPV.XDM
